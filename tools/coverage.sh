#!/bin/sh
# coverage.sh — which lines of /repo do the quick checks actually execute?  (not a check; not in MANIFEST.json)
# Builds the harness with `-C instrument-coverage` on the nightly toolchain (its llvm-tools component provides a
# matching llvm-profdata / llvm-cov), runs every quick check with VERIF_HARNESS pointing at that binary, merges the
# profiles and writes coverage/report.txt (per file) and coverage/uncovered.txt (the lines never executed).
# Scratch goes to /tmp/cov and is removed at the end.
set -e
here=$(cd "$(dirname "$0")/.." && pwd)
T=$(dirname "$(rustup +nightly which rustc)")/../lib/rustlib/x86_64-unknown-linux-gnu/bin
rm -rf /tmp/cov && mkdir -p /tmp/cov/prof && cp -r "$here/harness" /tmp/cov/harness
sed -i 's#target-dir = .*#target-dir = "/tmp/cov/target"#' /tmp/cov/harness/.cargo/config.toml
# LLVM_PROFILE_FILE also during the build: instrumented build scripts / proc-macros would otherwise drop
# default_*.profraw files into the crate directories of /repo
(cd /tmp/cov/harness && LLVM_PROFILE_FILE=/tmp/cov/build-%p-%8m.profraw RUSTFLAGS="-C instrument-coverage" CARGO_NET_OFFLINE=true cargo +nightly build --release --offline)
export VERIF_HARNESS=/tmp/cov/target/release/vharness LLVM_PROFILE_FILE=/tmp/cov/prof/h-%p-%8m.profraw
for p in C01 C02 C03 C04 C05 C06 C07 C08 C09 C10 C11 C12 C13 C14 C15 C16 C17; do "$here/check" $p | tail -1; done
unset VERIF_HARNESS LLVM_PROFILE_FILE
ls /tmp/cov/prof/*.profraw > /tmp/cov/files.txt
"$T/llvm-profdata" merge -sparse -f /tmp/cov/files.txt -o /tmp/cov/all.profdata
mkdir -p "$here/coverage"
{ echo "# lines of /repo executed by one run of all 17 quick checks (commit $(git -C /repo rev-parse --short HEAD) of /repo, $(git -C "$here" rev-parse --short HEAD) of /verif)"
  "$T/llvm-cov" report /tmp/cov/target/release/vharness -instr-profile=/tmp/cov/all.profdata \
     --ignore-filename-regex='(registry|rustc|rustup|harness/src|verif_hooks)' | sed 's/  */ /g'; } > "$here/coverage/report.txt"
: > "$here/coverage/uncovered.txt"
for f in $(cd /repo && ls json_shape/src/*.rs json_shape/src/*/*.rs json_shape_build/src/lib.rs | grep -v verif_hooks); do
  echo "=== $f" >> "$here/coverage/uncovered.txt"
  "$T/llvm-cov" show /tmp/cov/target/release/vharness -instr-profile=/tmp/cov/all.profdata "/repo/$f" 2>/dev/null \
     | grep -E '^ +[0-9]+\| +0\|' >> "$here/coverage/uncovered.txt" || true
done
rm -rf /tmp/cov
echo coverage-done
