#!/usr/bin/env python3
"""seed_verify.py <candidate-dir> <seed-id> <property> — confirm a seeded breaking change myself in a
scratch worktree of /repo (patch applies, suite green with it, demo fails with it and passes
without it), then store it as /verif/seeded/<seed-id>/ (patch.diff, demo.rs, meta.json)."""
import json, os, shutil, subprocess, sys
ROOT = os.path.dirname(os.path.dirname(os.path.abspath(__file__)))
WT = "/tmp/seedv"
ENV = dict(os.environ, CARGO_NET_OFFLINE="true", CARGO_TARGET_DIR="/tmp/seedv-target")

def sh(cmd, cwd=None):
    p = subprocess.run(cmd, shell=True, cwd=cwd, env=ENV, stdout=subprocess.PIPE, stderr=subprocess.STDOUT, text=True)
    return p.returncode, p.stdout

def suite(cwd):
    rc, out = sh("cargo test --workspace --no-fail-fast --offline 2>&1", cwd)
    passed = sum(int(l.split()[3]) for l in out.split("\n") if l.startswith("test result:"))
    failed = sum(int(l.split()[5]) for l in out.split("\n") if l.startswith("test result:"))
    return rc, passed, failed

def demo(cwd, crate):
    rc, out = sh("cargo test -p %s --test zz_seed_demo --offline 2>&1" % crate, cwd)
    return rc, out[-600:]

def main():
    cand, sid, prop = sys.argv[1], sys.argv[2], sys.argv[3]
    crate = sys.argv[4] if len(sys.argv) > 4 else "json_shape"
    if not os.path.isdir(WT):
        rc, out = sh("git -C /repo worktree add --detach %s HEAD" % WT)
        assert rc == 0, out
    sh("git checkout -q --detach %s && git checkout -- . && git clean -fdq" % subprocess.run(
        "git -C /repo rev-parse HEAD", shell=True, capture_output=True, text=True).stdout.strip(), WT)
    res = {"property": prop, "seed": sid}
    testdir = os.path.join(WT, crate, "tests")
    os.makedirs(testdir, exist_ok=True)
    dst = os.path.join(testdir, "zz_seed_demo.rs")
    # without the change
    shutil.copy(os.path.join(cand, "demo.rs"), dst)
    rc0, tail0 = demo(WT, crate)
    res["demo_without_change"] = "pass" if rc0 == 0 else "FAIL"
    os.remove(dst)
    # with the change
    rc, out = sh("git apply %s" % os.path.join(cand, "patch.diff"), WT)
    res["patch_applies"] = rc == 0
    if rc != 0:
        print(json.dumps(res, indent=1), out); sys.exit(1)
    rc, p, f = suite(WT)
    res["suite_with_change"] = {"exit": rc, "passed": p, "failed": f}
    shutil.copy(os.path.join(cand, "demo.rs"), dst)
    rc1, tail1 = demo(WT, crate)
    res["demo_with_change"] = "fail" if rc1 != 0 else "PASS"
    os.remove(dst)
    sh("git checkout -- . && git clean -fdq", WT)
    ok = rc0 == 0 and rc == 0 and f == 0 and rc1 != 0
    res["confirmed"] = ok
    print(json.dumps(res, indent=1))
    if not ok:
        print(tail0, tail1)
        sys.exit(1)
    out = os.path.join(ROOT, "seeded", sid)
    os.makedirs(out, exist_ok=True)
    shutil.copy(os.path.join(cand, "patch.diff"), out)
    shutil.copy(os.path.join(cand, "demo.rs"), out)
    needs = ""
    mp = os.path.join(cand, "meta.md")
    if os.path.exists(mp):
        shutil.copy(mp, os.path.join(out, "meta.md"))
    meta = {"property": prop, "breaks": prop, "source": "independent sub-agent given only the property text and a scratch worktree",
            "needs_to_manifest": "see meta.md", "base_commit": subprocess.run("git -C /repo rev-parse --short HEAD", shell=True, capture_output=True, text=True).stdout.strip(),
            "what_i_ran": ["git apply patch.diff (scratch worktree /tmp/seedv)", "cargo test --workspace --no-fail-fast --offline  -> %d passed, %d failed" % (p, f),
                           "cargo test -p %s --test zz_seed_demo with the change -> fails" % crate,
                           "same demo without the change -> passes"],
            "confirmed": True}
    json.dump(meta, open(os.path.join(out, "meta.json"), "w"), indent=1)

if __name__ == "__main__":
    main()
