"""genlib.py — helpers of the generator-layer checks (C13..C16): shape / source-set pools,
an independent parser of the generated Rust text (items), a name-resolution check written
without looking at the Coq wf_items, the item encoding understood by the driver ops, and the
offline cargo batches (one crate, one `mod mN { include!(..) }` per case)."""
import itertools, json, os, re, shutil, subprocess, hashlib
import vlib
from vlib import sh_str, parse_sh, hexs, norm_sh

# ------------------------------------------------------------------ pools
ASCII_KEYS = ['a', 'b', 'c', 'ab', 'a_b', 'a-b', 'A', 'z9', 'k y', '', 'type', '1st', 'aB', 'HTTPServer',
              'x__y', '_a', 'a.b', ' a', 'a ', 'self', 'Self', 'fooBar2Baz', 'ALLCAPS', 'a1B2', '{', 'fn',
              'array of maps', 'bool_true', 'Str', 'id', 'ID', 'userId', 'user_id', 'a\\nb', '_', '__', 'gen']
NONASCII_KEYS = ['é', '日本', 'straße', 'ΑΒγ', 'á']
IDENT_KEYS = ['a', 'b', 'c', 'ab', 'a_b', 'z9', 'id', 'user_id', 'bool_true', 'x1', 'name', 'value',
              # weak / contextual keywords: legal field names, must be left alone
              'raw', 'safe', 'union', 'auto', 'default', 'macro_rules']

def printable_key(k):
    b = k.encode() if isinstance(k, str) else bytes(k)
    return all(32 <= c <= 126 for c in b)

def keys_of(s):
    k = s[0]
    if k == 'A':
        return keys_of(s[2])
    if k in 'TU':
        return [x for e in s[2] for x in keys_of(e)]
    if k == 'O':
        return [kk for kk, v in s[2]] + [x for _, v in s[2] for x in keys_of(v)]
    return []

def printable_shape(s):
    return all(printable_key(k) for k in keys_of(s))

def rand_shapes(rng, n, depth=4, keys=ASCII_KEYS):
    return [vlib.rand_shape(rng, rng.choice([2, 3, depth]), keys) for _ in range(n)]

def special_shapes():
    """hand-written shapes aimed at the generator's corner cases"""
    N, B, S, Nu = ('N',), ('B', False), ('S', False), ('#', False)
    o1 = ('O', False, (('a', Nu),))
    o2 = ('O', False, (('b', Nu),))
    out = [
        ('O', False, (('x', o1), ('y', o1))),                      # repeated sub-object (F15)
        ('O', False, (('x', o1), ('y', o2))),                      # same name, different shapes (KF4)
        ('U', False, (o1, o2)),                                    # two variants with one name
        ('O', False, (('v', ('A', True, Nu)),)),                   # nested optional array (F13)
        ('A', True, ('A', True, Nu)),
        ('O', True, (('a', Nu),)),                                 # optional root object (flag dropped)
        ('U', True, (Nu, S)),
        ('T', False, (Nu,)), ('T', False, ()), ('T', True, (Nu, S)),
        ('T', False, tuple([Nu, S] * 6)), ('T', False, tuple([Nu, S] * 6 + [B])),          # 12 / 13 wide
        ('O', False, (('t', ('T', False, tuple([Nu, S] * 6 + [B]))),)),
        ('O', False, (('type', Nu),)), ('O', False, (('1st', Nu),)), ('O', False, (('a b', Nu), ('a_b', S))),
        ('O', False, (('', Nu),)), ('O', False, (('self', Nu),)), ('O', False, (('_', Nu),)),
        ('O', False, (('aB', Nu), ('a_b', S))), ('O', False, (('nil', N),)),
        ('O', False, ()), ('U', False, ()), ('A', False, ('O', False, ())),
        ('A', False, ('T', False, (o1, ('A', False, o1)))),
        ('O', False, (('a', ('O', True, (('b', ('U', True, (Nu, ('O', False, ())))),))),)),
        ('U', False, (('A', False, Nu), ('A', True, Nu), ('T', False, (Nu, S)), o1, ('U', False, (B, Nu)))),
    ]
    return [norm_sh(s) for s in out]

def good_family(deep=False):
    """shapes INSIDE the classes the generator theorems cover (good_names / decodable / c15_class), built
    systematically: pairwise different leaf objects (different member TYPE lists, because type names hash the
    member types only) under every container nesting of depth <= 3, with optional flags below the root.
    Random shapes rarely stay inside the classes (repeated sub-shapes, colliding names), so without this
    family the oracles would have little to judge; the checks report how many cases are in-class."""
    Nu, S, B = ('#', False), ('S', False), ('B', False)
    leaves = [('O', False, (('a', Nu),)), ('O', False, (('a', S),)), ('O', False, (('a', B),)),
              ('O', False, (('id', Nu), ('name', S))), ('O', False, (('id', Nu), ('raw', B))),
              ('O', False, (('safe', S), ('union', S))), ('O', False, (('value', ('#', True)),)),
              ('O', False, (('default', B), ('auto', B), ('macro_rules', Nu))),
              ('O', False, (('x1', S), ('user_id', ('S', True)))), ('O', False, (('z9', ('A', False, Nu)),))]
    wraps = [lambda x: x,
             lambda x: ('A', False, x), lambda x: ('A', False, ('A', False, x)), lambda x: ('A', False, ('A', False, ('A', False, x))),
             lambda x: ('T', False, (x, S)), lambda x: ('A', False, ('T', False, (Nu, x))), lambda x: ('T', False, (('A', False, x), B)),
             lambda x: ('T', False, (S, ('T', False, (x, Nu)))),
             lambda x: ('A', True, x), lambda x: ('A', False, ('A', True, x)), lambda x: ('T', True, (x, S)),
             lambda x: (x[0], True) + x[2:]]
    out = []
    for i, lf in enumerate(leaves):
        for j, w in enumerate(wraps):
            inner = w(lf)
            out.append(('O', False, (('rows', inner), ('n', Nu))))                      # as a member
            if inner[1] is False:
                out.append(inner)                                                          # as the root
            other = leaves[(i + 3) % len(leaves)]
            out.append(('O', False, (('k', inner), ('m', wraps[(j + 5) % len(wraps)](other)))))   # two different nested items
            out.append(('A', False, ('O', False, (('p', inner),))))
    # scale: tuples of width 11 / 12 (the widest std derives Debug / Clone for) below the root, wide objects,
    # long member names, chains of nested objects / arrays deeper than any fixed budget one might introduce
    # (65, 100, 127 levels; each level is a different shape, so all generated names differ)
    kinds = [Nu, S, B]
    for w in (11, 12):
        t = ('T', False, tuple(kinds[i % 3] for i in range(w)))
        out += [('O', False, (('t', t), ('u', ('T', False, (Nu, S, B))))), ('A', False, ('O', False, (('t', t),))),
                ('O', False, (('t', ('T', True, t[2])),)), ('O', False, (('rows', ('A', False, t)),))]
    for w in (33, 65, 257):
        out.append(('O', False, tuple(("m%03d" % i, kinds[i % 3]) for i in range(w))))
        for pos in (0, w // 2, w - 1):           # the same record with ONE member of another type: must get another name
            out.append(('O', False, tuple(("m%03d" % i, kinds[(i + (i == pos)) % 3]) for i in range(w))))
            out.append(('O', False, (('left', ('O', False, tuple(("m%03d" % i, kinds[i % 3]) for i in range(w)))),
                                     ('right', ('O', False, tuple(("m%03d" % i, kinds[(i + (i == pos)) % 3]) for i in range(w)))))))
        out.append(('O', False, (('wide', ('O', False, tuple(("m%03d" % i, (kinds[i % 3][0], i % 2 == 1)) for i in range(w)))), ('n', Nu))))
    for L in (31, 32, 33, 64, 255, 1000):
        out.append(('O', False, (('k' * L, Nu), ('id', S))))
    for d in ((16, 33) if not deep else (65, 100, 127)):
        x = Nu
        for i in range(d):
            x = ('O', False, (('a', x),)) if i % 4 != 3 else ('A', False, ('O', False, (('a', x), ('b', S))))
        out.append(x)
        x = S
        for i in range(d):
            x = ('O', i % 5 == 2 and i > 0, (('a', x), ('n', Nu)))
        out.append(('O', False, (('root', x),)))
    return [norm_sh(s) for s in out]

SOURCE_SETS = [
    ['{"a": 42}', '{"a": true}', '{"a": {\n    "b": true\n}}'],
    ['{"str":"s","number":1.5,"bool_true":true,"nil":null,"array":[1,2],"tuple":[1,"s",true],'
     '"map":{"a":"b","c":1},"array of maps":[{"a":"b","c":1},{"a":"b","b":true}]}'],
    ['{"x":{"a":1},"y":{"a":1}}'], ['{"x":{"a":1},"y":{"b":1}}'], ['{"v":[1,2]}', '{"v":null}'],
    ['{"a":1}', 'null'], ['1', '"s"'], ['1', '"s"', 'null'], ['[1,"a"]', '[2,"b"]'], ['[1,"a"]', 'null'],
    ['[{"a":1},{"a":1,"b":"x"}]'], ['[{"a":null},{}]'], ['{"a":null}', '{}'], ['{"type":1}'], ['{"1st":1}'],
    ['{"a b":1,"a_b":2}'], ['{"userId":1}'], ['{"a":1,"a":2}'], ['[[1,2],[3]]'], ['[[1,"a"],[2,"b"]]'],
    ['{"p":[1,"a",true,null]}'], ['[1,"a",1,"a",1,"a",1,"a",1,"a",1,"a",true]'], ['{"a":{"b":{"c":{"d":1}}}}'],
    ['{"k":[{"x":1},{"x":"s"}]}'], ['true'], ['null'], ['"s"'], ['3'], ['[1,2,3]'], ['{}'], ['[{}]'], ['[{},{}]'],
    ['{"a":[1,"x"]}', '{"a":[2,"y"]}', '{"a":null}'], ['{"é":1}'], ['{"a":1}', '[1]'], ['[null,null]'],
    ['{"a":{"x":1}}', '{"a":{"y":2}}'], ['{"list":[{"id":1,"tags":["a"]},{"id":2,"tags":[]}]}'],
]
# source files larger than any fixed buffer one might read them through (100 kB .. 1.5 MB): the tail of the file
# carries shape information the head does not
BIG_SOURCE_SETS = [['{"a":[' + ",".join(str(i) for i in range(20000)) + '],"z":"tail"}'],
                   ['{"pad":"' + "x" * 70000 + '","z":{"k":true}}', '{"pad":"p","z":{"k":false},"w":[1,"s"]}'],
                   ['[' + ",".join('{"id":%d,"name":"n%d"}' % (i, i) for i in range(60000)) + ',{"id":1,"extra":null}]'],
                   [" " * 70000 + '{"a":1,"b":[1,2,3]}']]
BAD_SOURCE_SETS = [[], ['{'], ['1', '{"a":'], ['nul'], ['{"a":1,"a":"x"}'], ['']]

# ------------------------------------------------------------------ text <-> items
class ParseError(Exception):
    pass

DERIVE = "#[derive(Debug, Clone, serde::Serialize, serde::Deserialize)]"

def split_top(s, sep=','):
    """split on sep at bracket depth 0"""
    out, depth, cur = [], 0, ''
    for ch in s:
        if ch in '<(':
            depth += 1
        elif ch in '>)':
            depth -= 1
        if ch == sep and depth == 0:
            out.append(cur); cur = ''
        else:
            cur += ch
    out.append(cur)
    return out

def parse_ty(s):
    """Rust type expression (the subset the generator can emit) -> ('p', name, [args]) | ('t', [elems])"""
    s = s.strip()
    if s.startswith('('):
        if not s.endswith(')'):
            raise ParseError("tuple type: " + s)
        inner = s[1:-1]
        if inner.strip() == '':
            return ('t', [])
        return ('t', [parse_ty(x) for x in split_top(inner)])
    m = re.match(r'^([^<>(),]*)(?:<(.*)>)?$', s, re.S)
    if not m:
        raise ParseError("type: " + s)
    name, args = m.group(1), m.group(2)
    if args is None:
        return ('p', name, [])
    return ('p', name, [parse_ty(x) for x in split_top(args)])

def parse_items(text):
    """the returned text of compile_json -> [('A',name,ty) | ('S',name,[(f,ty)]) | ('E',name,[(v,ty)])]"""
    items = []
    lines = text.split('\n')
    i = 0
    while i < len(lines):
        l = lines[i]
        if l == '':
            i += 1
            continue
        m = re.match(r'^pub type (.*?) = (.*);$', l)
        if m:
            items.append(('A', m.group(1), parse_ty(m.group(2)))); i += 1
            continue
        if l == DERIVE:
            h = lines[i + 1]
            m = re.match(r'^pub struct (.*);$', h)
            if m:
                items.append(('S', m.group(1), [])); i += 2
                continue
            m = re.match(r'^pub (struct|enum) (.*) \{$', h)
            if not m:
                raise ParseError("item head: " + h)
            kind, name = m.group(1), m.group(2)
            j, members = i + 2, []
            while j < len(lines) and lines[j] != '}':
                ml = lines[j]
                if kind == 'struct':
                    mm = re.match(r'^    pub (.*?): (.*),$', ml)
                    if not mm:
                        raise ParseError("field: " + ml)
                    members.append((mm.group(1), parse_ty(mm.group(2))))
                else:
                    mm = re.match(r'^    ([^(]*)\((.*)\),$', ml)
                    if not mm:
                        raise ParseError("variant: " + ml)
                    members.append((mm.group(1), parse_ty(mm.group(2))))
                j += 1
            if j >= len(lines):
                raise ParseError("unterminated item " + name)
            items.append(('S' if kind == 'struct' else 'E', name, members))
            i = j + 1
            continue
        raise ParseError("line: " + l)
    return items

def enc_ty(x):
    if x[0] == 't':
        return '(' + ','.join(enc_ty(e) for e in x[1]) + ')'
    return 'p' + hexs(x[1]) + ('<' + ','.join(enc_ty(e) for e in x[2]) + '>' if x[2] else '')

def enc_items(items):
    out = []
    for it in items:
        if it[0] == 'A':
            out.append('A' + hexs(it[1]) + '=' + enc_ty(it[2]))
        else:
            out.append(it[0] + hexs(it[1]) + '{' + ','.join(hexs(k) + ':' + enc_ty(x) for k, x in it[2]) + '}')
    return ';'.join(out) if out else '-'

# ------------------------------------------------------------------ independent name-resolution check
KEYWORDS = set("""as break const continue crate else enum extern false fn for if impl in let loop match mod move
mut pub ref return self Self static struct super trait true type unsafe use where while async await dyn abstract
become box do final macro override priv typeof unsized virtual yield try gen""".split())
STD = {'f64': 0, 'String': 0, 'bool': 0, 'Option': 1, 'Vec': 1}

def ident_ok(s):
    return bool(re.match(r'^[A-Za-z_][A-Za-z0-9_]*$', s)) and s != '_' and s not in KEYWORDS

def resolve_check(items, header=None):
    """list of problems rustc would report for the module (empty = accepted)"""
    probs = []
    if header is not None:
        for l in header.split('\n'):
            if l.startswith('//!') or l.startswith('/*!') or l.startswith('#!'):
                probs.append('E0753 inner doc comment / attribute in included file'); break
    names = [it[1] for it in items]
    for n in set(names):
        if names.count(n) > 1:
            probs.append('E0428 %s defined %d times' % (n, names.count(n)))
        if not ident_ok(n):
            probs.append('illegal item name %r' % n)
        if n in STD:
            probs.append('item shadows std type %s' % n)
    def ty(x, derived):
        if x[0] == 't':
            if derived and len(x[1]) > 12:
                probs.append('E0277 tuple of arity %d has no Debug' % len(x[1]))
            for e in x[1]:
                ty(e, derived)
            return
        _, n, args = x
        if n in STD:
            if STD[n] != len(args):
                probs.append('E0107 %s takes %d generic arguments' % (n, STD[n]))
        elif n in names:
            if args:
                probs.append('E0107 %s takes no generic arguments' % n)
        else:
            probs.append('E0412 cannot find type %s' % n)
        for e in args:
            ty(e, derived)
    for it in items:
        if it[0] == 'A':
            ty(it[2], False)
        else:
            ms = [m for m, _ in it[2]]
            for m in ms:
                if not ident_ok(m):
                    probs.append('illegal member name %r' % m)
            for m in set(ms):
                if ms.count(m) > 1:
                    probs.append('E0124/E0428 member %s declared %d times' % (m, ms.count(m)))
            for _, x in it[2]:
                ty(x, True)
    return probs

# ------------------------------------------------------------------ results of the two executables
def text_of(res):
    """'TEXT <hex>' -> str (None when the line is something else)"""
    if res is None or not res.startswith("TEXT "):
        return None
    return bytes.fromhex(res[5:]).decode('utf-8', 'replace')

def parse_compile(res):
    """impl `compile` line -> dict(ret, text, det, files{rel: bytes}, prints[])"""
    d = {"raw": res, "ret": None, "text": None, "det": None, "files": {}, "prints": []}
    if res is None or not res.startswith("RET "):
        return d
    tok = res.split(' ')
    if tok[1] == "PANIC":
        d["ret"] = "PANIC"
        return d
    if tok[1] == "OK":
        d["ret"] = "OK"; d["text"] = bytes.fromhex(tok[2]).decode(); i = 3
    else:
        d["ret"] = "ERR " + tok[2]; i = 3
    mode = None
    for x in tok[i:]:
        if x == "DET":
            mode = "det"
        elif x == "FILES":
            mode = "files"
        elif x == "PRINTS":
            mode = "prints"
        elif mode == "det":
            d["det"] = x == "1"
        elif mode == "files":
            p, c = x.split(':')
            d["files"][bytes.fromhex(p).decode("utf-8", "surrogateescape")] = bytes.fromhex(c)
        elif mode == "prints":
            d["prints"].append(bytes.fromhex(x).decode("utf-8", "surrogateescape"))
    return d

def real_header(ctx):
    """the header compile_json REALLY writes in front of the returned text (observed, not assumed)"""
    from vlib import hexs
    r = parse_compile(ctx.impl(["compile\t%s\t%s\tT%s" % (hexs("hdrprobe"), hexs("out"), hexs('{"a":1}'))])[0])
    if r["ret"] != "OK" or not r["files"]:
        raise RuntimeError("cannot observe the generated header: %r" % r["raw"][:200])
    data = list(r["files"].values())[0].decode()
    assert data.endswith(r["text"]), "written file is not <header> + returned text"
    return data[: len(data) - len(r["text"])]

def parse_model_compile(res):
    d = {"raw": res, "ret": None, "text": None, "writes": [], "reads": [], "prints": [], "nowrite": None}
    tok = res.split(' ')
    if tok[1] == "PANIC":
        d["ret"] = "PANIC"; i = 2
    elif tok[1] == "OK":
        d["ret"] = "OK"; d["text"] = bytes.fromhex(tok[2]).decode(); i = 3
    else:
        d["ret"] = "ERR " + tok[2]; i = 3
    for x in tok[i:]:
        if x.startswith("P:"):
            d["prints"].append(bytes.fromhex(x[2:]).decode("utf-8", "surrogateescape"))
        elif x.startswith("R:"):
            d["reads"].append(bytes.fromhex(x[2:]).decode())
        elif x.startswith("W:"):
            _, p, c = x.split(':')
            d["writes"].append((bytes.fromhex(p).decode("utf-8", "surrogateescape"), bytes.fromhex(c)))
        elif x in ("0", "1") and d["nowrite"] is None and tok[tok.index(x) - 1] == "NOWRITE":
            d["nowrite"] = x == "1"
    return d

def infer051(ctx, source_sets):
    """shapes that json_shape 0.5.1 infers from the source sets (None = error / panic)"""
    lines = ["gen_infer051\t" + "\t".join(hexs(t) for t in ss) if ss else "gen_infer051" for ss in source_sets]
    out = ctx.impl(lines)
    return [parse_sh(r[3:]) if r.startswith("OK ") else None for r in out], out

def doc_sources(rng, n):
    """random source sets rendered from the document generator of vlib (keys a..d)"""
    out = []
    for _ in range(n):
        k = rng.choice([1, 1, 2, 2, 3])
        out.append([vlib.doc_json(vlib.rand_doc(rng, 3)) for _ in range(k)])
    return out

# ------------------------------------------------------------------ cargo batches (thorough tier)
BATCH_ROOT = os.path.join(vlib.CACHE, "gen-batch")

CARGO_TOML = """[package]
name = "genbatch"
version = "0.0.0"
edition = "2024"

[workspace]

[dependencies]
serde = { version = "1", features = ["derive"] }
serde_json = "1"

[profile.dev]
debug = false
opt-level = 0
incremental = false
"""

def batch_dir(tag):
    d = os.path.join(BATCH_ROOT, tag)
    os.makedirs(os.path.join(d, "src"), exist_ok=True)
    os.makedirs(os.path.join(d, ".cargo"), exist_ok=True)
    open(os.path.join(d, "Cargo.toml"), "w").write(CARGO_TOML)
    open(os.path.join(d, ".cargo", "config.toml"), "w").write(
        '[net]\noffline = true\n[build]\ntarget-dir = "../target"\n')
    lock = os.path.join(vlib.ROOT, "harness", "Cargo.lock")
    if os.path.exists(lock) and not os.path.exists(os.path.join(d, "Cargo.lock")):
        shutil.copy(lock, os.path.join(d, "Cargo.lock"))
    return d

def cargo(d, cmd, timeout=900):
    p = subprocess.run("cargo %s --offline --message-format=json -q" % cmd, shell=True, cwd=d, env=vlib.ENV,
                       stdout=subprocess.PIPE, stderr=subprocess.PIPE, text=True, timeout=timeout)
    return p

def rustc_verdicts(tag, files):
    """files: list of generated file texts.  One crate, one `mod mN { include!("caseN.rs"); }` per case;
    `cargo check`; returns per case the list of rustc error codes/messages located in caseN.rs"""
    d = batch_dir(tag)
    for f in os.listdir(os.path.join(d, "src")):
        os.remove(os.path.join(d, "src", f))
    main = ["#![allow(warnings)]"]
    for i, txt in enumerate(files):
        open(os.path.join(d, "src", "case%d.rs" % i), "w").write(txt)
        main.append('mod m%d { include!("case%d.rs"); }' % (i, i))
    main.append("fn main() {}")
    open(os.path.join(d, "src", "main.rs"), "w").write("\n".join(main) + "\n")
    p = cargo(d, "check")
    errs = [[] for _ in files]
    other = []
    for line in p.stdout.split("\n"):
        if not line.startswith("{"):
            continue
        try:
            m = json.loads(line)
        except ValueError:
            continue
        if m.get("reason") != "compiler-message":
            continue
        msg = m["message"]
        if msg.get("level") != "error":
            continue
        code = (msg.get("code") or {}).get("code") or "error"
        placed = False
        def spans(mm):
            for sp in mm.get("spans", []):
                yield sp
                e = sp.get("expansion")
                while e:
                    yield e["span"]
                    e = e["span"].get("expansion")
        for sp in spans(msg):
            mm = re.search(r"case(\d+)\.rs$", sp.get("file_name", ""))
            if mm:
                errs[int(mm.group(1))].append("%s %s" % (code, msg["message"][:100])); placed = True
                break
        if not placed and "aborting due to" not in msg["message"]:
            other.append("%s %s" % (code, msg["message"][:200]))
    return errs, other, p.returncode

def cleanup_batches():
    shutil.rmtree(BATCH_ROOT, ignore_errors=True)

# ------------------------------------------------------------------ shared pools / helpers of C13..C15
def min_tuple_arity(s):
    k = s[0]
    if k == 'A':
        return min_tuple_arity(s[2])
    if k == 'T':
        return min([len(s[2])] + [min_tuple_arity(e) for e in s[2]])
    if k == 'U':
        return min([99] + [min_tuple_arity(e) for e in s[2]])
    if k == 'O':
        return min([99] + [min_tuple_arity(v) for _, v in s[2]])
    return 99

def has_inner_opt_array(s, root=True):
    k = s[0]
    if k == 'A':
        return (s[1] and not root) or has_inner_opt_array(s[2], False)
    if k in 'TU':
        return any(has_inner_opt_array(e, False) for e in s[2])
    if k == 'O':
        return any(has_inner_opt_array(v, False) for _, v in s[2])
    return False

def gen_pool(ctx, n_rand, keys=None, deep_chains=False):
    """(shape tuples, provenance): level-1, corner shapes, random deep shapes (mixed key pools),
    and shapes json_shape 0.5.1 infers from real source sets"""
    pool = [(s, "level1") for s in vlib.level1()] + [(s, "special") for s in special_shapes()]
    pool += [(s, "good-family") for s in good_family()]
    if deep_chains:
        # the model's decodable / decode are polynomial of high degree in the nesting depth: the deepest chains
        # are only given to the check whose oracle stays cheap on them (C13: good_names + name resolution)
        pool += [(s, "good-family-deep") for s in good_family(deep=True)[-6:]]
    pool += [(s, "random") for s in rand_shapes(ctx.rng, n_rand // 2, keys=keys or ASCII_KEYS)]
    pool += [(s, "random-ident") for s in rand_shapes(ctx.rng, n_rand // 2, keys=IDENT_KEYS)]
    sets = list(SOURCE_SETS) + doc_sources(ctx.rng, max(40, n_rand // 10))
    inf, raw = infer051(ctx, sets)
    inferred = [(s, "inferred") for s in inf if s is not None]
    seen, out = set(), []
    for s, prov in pool + inferred:
        t = sh_str(s)
        if t not in seen:
            seen.add(t); out.append((s, prov))
    return out, [(ss, s) for ss, s in zip(sets, inf)]

def doc_of_json_text(text):
    """JSON text -> compact document syntax of DESIGN A.4 (kinds only, member order and duplicates kept)"""
    class Obj(list):
        pass
    v = json.loads(text, object_pairs_hook=lambda pairs: Obj(pairs))
    def go(x):
        if x is None:
            return 'n'
        if isinstance(x, bool):
            return 't'
        if isinstance(x, (int, float)):
            return '1'
        if isinstance(x, str):
            return 's'
        if isinstance(x, Obj):
            return '{' + ','.join(hexs(k) + ':' + go(e) for k, e in x) + '}'
        return '[' + ','.join(go(e) for e in x) + ']'
    return go(v)

# ------------------------------------------------------------------ per-case rustc (isolated verdicts)
# One crate with many `mod mN { include!(..) }` gives wrong per-case verdicts whenever one file has a
# fatal parse error (rustc stops before resolving the other modules), so every case is first judged
# by its own rustc run against the serde rmeta files that one `cargo check` of the batch crate
# produced; the cases accepted in isolation are then compiled TOGETHER in the one-crate batch.
def _deps(tag="deps"):
    d = batch_dir(tag)
    for f in os.listdir(os.path.join(d, "src")):
        os.remove(os.path.join(d, "src", f))
    open(os.path.join(d, "src", "main.rs"), "w").write(
        "#[derive(serde::Serialize, serde::Deserialize)]\nstruct A { a: f64 }\n"
        "fn main() { let _ = serde_json::to_string(&A { a: 1.0 }); }\n")
    p = cargo(d, "check")
    if p.returncode != 0:
        raise vlib.BuildError("cargo check (serde deps for rustc batches)", p.stdout[-2000:] + p.stderr[-2000:])
    deps = os.path.join(BATCH_ROOT, "target", "debug", "deps")
    def newest(prefix):
        c = [os.path.join(deps, f) for f in os.listdir(deps) if f.startswith(prefix) and f.endswith(".rmeta")]
        return max(c, key=os.path.getmtime)
    return deps, newest("libserde-"), newest("libserde_json-")

def rustc_each(files, tag="each", wrapper=None):
    """isolated verdict per generated file text: list of error strings per case"""
    from concurrent.futures import ThreadPoolExecutor
    deps, serde, serde_json = _deps()
    d = os.path.join(BATCH_ROOT, tag)
    shutil.rmtree(d, ignore_errors=True)
    os.makedirs(d)
    def one(i):
        open(os.path.join(d, "case%d.rs" % i), "w").write(files[i])
        open(os.path.join(d, "lib%d.rs" % i), "w").write(
            '#![allow(warnings)]\nmod m { include!("case%d.rs"); }\n' % i)
        p = subprocess.run(["rustc", "--edition", "2024", "--crate-type", "lib", "--crate-name", "c%d" % i,
                            "--emit=metadata", "--out-dir", os.path.join(d, "out"), "--error-format=json",
                            "-L", "dependency=" + deps, "--extern", "serde=" + serde,
                            "--extern", "serde_json=" + serde_json, os.path.join(d, "lib%d.rs" % i)],
                           stdout=subprocess.PIPE, stderr=subprocess.PIPE, text=True, env=vlib.ENV)
        errs = []
        for line in p.stderr.split("\n"):
            if line.startswith("{"):
                try:
                    m = json.loads(line)
                except ValueError:
                    continue
                if m.get("level") == "error" and "aborting due to" not in m.get("message", ""):
                    errs.append("%s %s" % ((m.get("code") or {}).get("code") or "error", m["message"][:100]))
        if p.returncode != 0 and not errs:
            errs.append("rustc failed rc=%d" % p.returncode)
        return errs
    with ThreadPoolExecutor(max_workers=vlib.NPROC) as ex:
        return list(ex.map(one, range(len(files))))

# ------------------------------------------------------------------ the include macro, observed (harness/macroprobe)
MACROPROBE = os.path.join(vlib.ROOT, "harness", "macroprobe")

def _probe_cargo(args, timeout=900):
    env = dict(vlib.ENV, CARGO_TARGET_DIR=os.path.join(vlib.CACHE, "macroprobe-target"))
    return subprocess.run(["cargo", "run", "--offline", "-q"] + args, cwd=MACROPROBE, env=env, text=True,
                          stdout=subprocess.PIPE, stderr=subprocess.PIPE, timeout=timeout)

def macro_probe():
    """What `json_shape_build::include_json_shape!(name)` really reads, observed on /repo's current source.
    Returns {"shadow": {name: path relative to OUT_DIR as '$OUT/...'} or None, "shadow_error": text,
             "real": True / False / None, "real_error": text, "real_unreadable": [paths rustc could not read]}.
    shadow: the probe modules shadow `include!`, so the macro's path expression is captured as a string.
    real  : build.rs runs compile_json per name and each module includes the file through the real macro, the
            way the documentation shows; it builds iff the macro reads what compile_json wrote (and the module
            compiles against serde).  Both are built against /repo's working tree on every call."""
    import re
    res = {"shadow": None, "shadow_error": None, "real": None, "real_error": None, "real_unreadable": []}
    p = _probe_cargo([])
    if p.returncode == 0:
        sh = {}
        for l in p.stdout.split("\n"):
            if "\t" in l:
                a, b = l.split("\t")
                sh[bytes.fromhex(a).decode()] = bytes.fromhex(b).decode("utf-8", "replace")
        res["shadow"] = sh
    else:
        res["shadow_error"] = (p.stderr or p.stdout)[-1500:]
    p = _probe_cargo(["--features", "real"])
    res["real"] = p.returncode == 0 and "REAL-OK" in p.stdout
    if not res["real"]:
        res["real_error"] = (p.stderr or p.stdout)[-3000:]
        res["real_unreadable"] = re.findall(r"couldn't read `([^`]*)`", p.stderr or "")
    return res
