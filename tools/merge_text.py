#!/usr/bin/env python3
"""merge_text.py <verif-root> — applies the shared-file edits of the text-level work (C04/C05/C07)
to a /verif tree into which the new files have already been copied.  Idempotent."""
import json, os, re, sys
R = sys.argv[1]
def edit(path, fn):
    p = os.path.join(R, path); s = open(p).read(); t = fn(s)
    if t != s:
        open(p, "w").write(t); print("edited", path)
    else:
        print("unchanged", path)

MODELS = ["Model/Lexer.v", "Model/Parser.v", "Model/Walk.v", "Model/TextApi.v", "Model/JsonRef.v", "Model/ValueCost.v", "Model/TextClasses.v"]
PROOFS = ["Proofs/TextFacts.v", "Proofs/InferInvariance.v", "Proofs/TextLexer.v", "Proofs/TextParser.v", "Proofs/TextWalk.v",
          "Proofs/TextApiFacts.v", "Proofs/InferNoPanic.v", "Proofs/JsonRefSound.v", "Proofs/TextLexSpec.v"]
PROPS = ["Properties/C05.v", "Properties/C04.v", "Properties/C07.v"]
def coqproject(s):
    lines = s.rstrip("\n").split("\n")
    for x in MODELS + PROOFS + PROPS:
        if x not in lines:
            lines.append(x)       # coq_makefile orders by dependency; position is irrelevant
    return "\n".join(lines) + "\n"
edit("coq/_CoqProject", coqproject)

def extract(s):
    if "Model.TextApi" in s:
        return s
    s = s.replace("Extraction Language OCaml.",
                  "From JS Require Import Model.Lexer Model.Parser Model.Walk Model.TextApi Model.JsonRef Model.ValueCost Model.TextClasses.\nExtraction Language OCaml.", 1)
    i = s.rindex(".")      # final period of the Extraction command
    return s[:i] + ("\n  (* text level *)\n  cfg_now cfg_fixed utf8_encode lex parse_text cst_get children cst_span parse_cst\n"
                    "  from_str_m from_sources_m is_superset_m is_superset_checked_m accepts\n"
                    "  ref_json ref_accepts jdepth dup_consistent has_bare_cr render_text\n"
                    "  vcalls jnodes value_cost_excess\n  ndiags diag_dropped cr_rejected.") + s[i + 1:]
edit("coq/Extract.v", extract)

def driver(s):
    if "Textops.run" in s:
        return s
    return s.replace("  | op -> Genops.run op a\n",
                     "  (* ---- text level (ocaml/textops.ml) ---- *)\n"
                     "  | op -> (match Textops.run shape_str parse_shape parse_doc op a with Some r -> r | None -> Genops.run op a)\n", 1)
edit("ocaml/driver.ml", driver)

def build(s):
    if "textops.ml" in s:
        return s
    s = s.replace('"$here/genops.ml" .', '"$here/genops.ml" "$here/textref.ml" "$here/textops.ml" .')
    return s.replace("genops.ml driver.ml", "genops.ml textref.ml textops.ml driver.ml")
edit("ocaml/build.sh", build)

def vlibf(s):
    if "textops.ml" in s:
        return s
    return s.replace('os.path.join(ROOT, "ocaml", "genops.ml")]',
                     'os.path.join(ROOT, "ocaml", "genops.ml")]\n    srcs += [os.path.join(ROOT, "ocaml", f) for f in ("textops.ml", "textref.ml", "build.sh")]', 1)
edit("tools/vlib.py", vlibf)

# KNOWN_FINDINGS: three open entries (C04 F2, C04 F3, C07 F3)
mine = json.load(open(os.path.join(os.path.dirname(os.path.abspath(__file__)), "..", "KNOWN_FINDINGS.json")))
p = os.path.join(R, "KNOWN_FINDINGS.json"); d = json.load(open(p))
have = {(f["property"], f["id"]) for f in d["findings"]}
for f in mine["findings"]:
    if f["property"] in ("C04", "C07") and (f["property"], f["id"]) not in have:
        d["findings"].append(f); print("added known finding", f["property"], f["id"])
json.dump(d, open(p, "w"), indent=1)

# gen_manifest: CLAIMS / PARTIAL entries
src = open(os.path.join(os.path.dirname(os.path.abspath(__file__)), "gen_manifest.py")).read()
claims = re.search(r'( "C04": \(.*?"6/C07"\),\n)', src, re.S).group(1)
partial = re.search(r'( "C04": "PARTIAL.*? "C07": "PARTIAL[^\n]*\n)', src, re.S).group(1)
def manifest(s):
    if '"C04": (' in s:
        return s
    s = s.replace("CLAIMS = {\n", "CLAIMS = {\n" + claims, 1)
    if "PARTIAL = {}" in s:
        s = s.replace("PARTIAL = {}", "PARTIAL = {\n" + partial + "}")
    else:
        s = s.replace("PARTIAL = {\n", "PARTIAL = {\n" + partial, 1)
    return s
edit("tools/gen_manifest.py", manifest)
