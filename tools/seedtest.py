#!/usr/bin/env python3
"""seedtest.py <seeded-dir> [ids...] — apply seeded/<x>/patch.diff to /repo, run the quick
checks (all claimed ones, or the given ids), undo the patch, print which checks raised a
VIOLATION.  Never commits anything to /repo."""
import json, os, subprocess, sys, time
ROOT = os.path.dirname(os.path.dirname(os.path.abspath(__file__)))

def main():
    d = os.path.abspath(sys.argv[1])
    ids = sys.argv[2:]
    if not ids:
        ids = [c["property_id"] for c in json.load(open(os.path.join(ROOT, "MANIFEST.json")))["checks"]]
    patch = os.path.join(d, "patch.diff")
    lock = "/tmp/seedtest.lock"
    try:
        fd = os.open(lock, os.O_CREAT | os.O_EXCL | os.O_WRONLY)
        os.write(fd, str(os.getpid()).encode()); os.close(fd)
    except FileExistsError:
        print("refusing: another seedtest holds", lock)
        sys.exit(2)
    import atexit
    atexit.register(lambda: os.path.exists(lock) and os.remove(lock))
    st = subprocess.run(["git", "-C", "/repo", "status", "--porcelain"], capture_output=True, text=True).stdout.strip()
    if st:
        print("refusing: /repo has uncommitted changes:\n" + st)
        sys.exit(2)
    r = subprocess.run(["git", "-C", "/repo", "apply", patch], capture_output=True, text=True)
    if r.returncode != 0:
        print("patch does not apply:", r.stderr)
        sys.exit(2)
    res = {}
    try:
        for pid in ids:
            t = time.time()
            p = subprocess.run([os.path.join(ROOT, "check"), pid, "--tier", "quick"], capture_output=True, text=True, cwd=ROOT)
            line = [l for l in p.stdout.split("\n") if l.startswith("VIOLATION") or l.startswith("PASS")]
            res[pid] = {"exit": p.returncode, "line": line[-1] if line else p.stdout[-300:], "s": round(time.time() - t, 1)}
            print(pid, res[pid]["exit"], res[pid]["line"], flush=True)
            if p.returncode != 0:
                # keep the first failing input of the replay for the record
                for l in line:
                    if "replay=" in l:
                        path = l.split("replay=")[1].split()[0]
                        try:
                            rp = json.load(open(path))
                            res[pid]["replay_kind"] = rp.get("kind")
                            res[pid]["first"] = (rp.get("failures") or rp.get("disagreements") or [None])[0]
                        except Exception:
                            pass
    finally:
        subprocess.run(["git", "-C", "/repo", "checkout", "--", "."], check=True)
        subprocess.run("rm -f %s/replays/*" % ROOT, shell=True)
    dj = os.path.join(d, "detection.json")
    allres = json.load(open(dj)) if os.path.exists(dj) else {}
    allres.update(res)              # a partial re-run refreshes only the checks it ran
    json.dump(allres, open(dj, "w"), indent=1)
    caught = [p for p, v in res.items() if v["exit"] != 0]
    print("CAUGHT BY:", " ".join(caught) if caught else "nothing")

if __name__ == "__main__":
    main()
