#!/usr/bin/env python3
"""check.py <ID> [--tier quick|thorough] [--replay file]
Decides one property: proofs (Coq), correspondence model<->implementation, oracle search.
Exit 0 = held on everything explored; exit 1 + `VIOLATION property=<id> replay=<path>`."""
import argparse, json, os, random, re, sys, time, glob, importlib
sys.path.insert(0, os.path.dirname(os.path.abspath(__file__)))
import vlib
from vlib import ROOT, COQ, log

FORBIDDEN = re.compile(r"\b(Admitted|admit|Axiom|Axioms|Parameter|Parameters|Conjecture|Conjectures|Hypothesis|Hypotheses|Variable|Variables)\b|Unset\s+Guard|bypass_check|type-in-type|impredicative-set|Admit\s+Obligations|Unset\s+Universe\s+Checking|Unset\s+Positivity")
ALLOWED_AXIOMS = set()   # planned: none (DESIGN.md section 8)

def strip_comments(src):
    out, depth, i = [], 0, 0
    while i < len(src):
        if src.startswith("(*", i):
            depth += 1; i += 2
        elif src.startswith("*)", i) and depth > 0:
            depth -= 1; i += 2
        else:
            if depth == 0:
                out.append(src[i])
            i += 1
    return "".join(out)

def scan_forbidden():
    """no Admitted/admit/Axiom/...; Variable/Hypothesis only inside a Section"""
    bad = []
    for f in glob.glob(os.path.join(COQ, "**", "*.v"), recursive=True):
        src = strip_comments(open(f).read())
        depth = 0
        for ln, line in enumerate(src.split("\n"), 1):
            if re.match(r"\s*Section\b", line):
                depth += 1
            if re.match(r"\s*End\b", line) and depth > 0:
                depth -= 1
            for m in FORBIDDEN.finditer(line):
                w = m.group(0)
                if w.split()[0] in ("Variable", "Variables", "Hypothesis", "Hypotheses") and depth > 0:
                    continue
                if w in ("Variable", "Variables", "Hypothesis", "Hypotheses") and re.search(r"\bContext\b", line):
                    continue
                bad.append("%s:%d: %s" % (os.path.relpath(f, ROOT), ln, w))
    return bad

class Ctx:
    def __init__(self, pid, tier, seed):
        self.pid, self.tier, self.seed = pid, tier, seed
        self.rng = random.Random(seed)
        self.t0 = time.time()
        self.evaluations = 0
        self.nontrivial = set()
        self.samples = []
        self.disagreements = []     # correspondence
        self.failures = []          # property failures on the implementation (unlisted)
        self.known_hits = {}        # id -> example
        self.notes = {}
        self.corr_scopes = {}
        self.dist = {}              # scope -> input / result class counts
        self.harness_ok = True
        self.build_error = None
        self.proof = None
        self.kf = [k for k in json.load(open(os.path.join(ROOT, "KNOWN_FINDINGS.json")))["findings"]
                   if k["property"] == pid and k["status"] == "open"]

    # ---- correspondence: same lines through model and implementation
    def correspond(self, lines, scope, nontrivial=None):
        lines = list(lines)
        if not self.harness_ok:
            return [None] * len(lines), vlib.run_model(lines)
        mi = vlib.run_impl(lines)
        mm = vlib.run_model(lines)
        self.evaluations += len(lines)
        sc = self.corr_scopes.setdefault(scope, {"cases": 0, "disagreements": 0})
        sc["cases"] += len(lines)
        vlib.account(self.dist, scope, lines, mi)
        for l, a, b in zip(lines, mm, mi):
            if a != b:
                sc["disagreements"] += 1
                if len(self.disagreements) < 50:
                    self.disagreements.append({"scope": scope, "case": l, "model": a, "impl": b})
            elif nontrivial is not None and nontrivial(l, b):
                self.nontrivial.add(l)
        if lines and len(self.samples) < 12:
            i = self.rng.randrange(len(lines))
            self.samples.append({"case": lines[i], "model": mm[i], "impl": mi[i]})
        return mi, mm

    def impl(self, lines):
        lines = list(lines)
        self.evaluations += len(lines)
        return vlib.run_impl(lines)

    def model(self, lines):
        return vlib.run_model(list(lines))

    def fail(self, what, inp, detail=None, known=None):
        """a failure of the property statement itself on the implementation"""
        if known and any(k["id"] == known for k in self.kf):
            self.known_hits.setdefault(known, {"what": what, "input": inp, "detail": detail})
            return
        # a class that is not (or no longer) an OPEN entry of KNOWN_FINDINGS.json suppresses nothing
        if len(self.failures) < 50:
            self.failures.append({"what": what, "input": inp, "detail": detail})

def check_proofs(ctx):
    """build the development, re-run the property file, collect Print Assumptions"""
    pid = ctx.pid
    res = {"ok": False, "theorems": 0, "closed": 0, "axioms": [], "errors": []}
    bad = scan_forbidden()
    if bad:
        res["errors"].append("forbidden constructs: " + "; ".join(bad[:10]))
    try:
        vlib.build_coq()
    except vlib.BuildError as e:
        res["errors"].append("coq build failed: " + e.out[-1500:])
        return res
    pf = os.path.join(COQ, "Properties", pid + ".v")
    src = strip_comments(open(pf).read())
    res["theorems"] = len(re.findall(r"^\s*Theorem\s", src, re.M))
    npa = len(re.findall(r"^\s*Print Assumptions\s", src, re.M))
    p = vlib.sh("timeout 600 coqc -Q . JS Properties/%s.v" % pid, cwd=COQ, check=False)
    if p.returncode != 0:
        res["errors"].append("property file failed: " + p.stdout[-1500:])
        return res
    out = p.stdout
    res["closed"] = out.count("Closed under the global context")
    for m in re.finditer(r"^Axioms:\n((?:.+\n?)+?)(?=\n|\Z)", out, re.M):
        for line in m.group(1).split("\n"):
            mm = re.match(r"^(\S+)\s*:", line)
            if mm:
                res["axioms"].append(mm.group(1))
    if npa != res["theorems"]:
        res["errors"].append("Print Assumptions count %d != theorem count %d" % (npa, res["theorems"]))
    extra = [a for a in res["axioms"] if a not in ALLOWED_AXIOMS]
    if extra:
        res["errors"].append("axioms outside the allow-list: " + ", ".join(sorted(set(extra))))
    if res["closed"] + (1 if res["axioms"] else 0) * 0 < res["theorems"] - len(set(res["axioms"])) and not res["axioms"]:
        res["errors"].append("only %d of %d theorems reported closed" % (res["closed"], res["theorems"]))
    # thorough tier: re-check the compiled property file and everything it depends on with the
    # independent checker coqchk and collect the axioms it reports
    if ctx.tier == "thorough" and not res["errors"]:
        t = time.time()
        q = vlib.sh("timeout 3000 coqchk -silent -o -Q . JS JS.Properties.%s" % pid, cwd=COQ, check=False)
        res["coqchk_s"] = round(time.time() - t, 1)
        res["coqchk_exit"] = q.returncode
        tail = q.stdout[-1500:]
        res["coqchk_tail"] = tail
        if q.returncode != 0:
            res["errors"].append("coqchk failed: " + tail[-600:])
        else:
            m = re.search(r"\* Axioms:\s*(.*?)\n\s*\n", tail + "\n\n", re.S)
            ax = (m.group(1).strip() if m else "")
            res["coqchk_axioms"] = ax
            if ax and "<none>" not in ax:
                res["errors"].append("coqchk reports axioms: " + ax[:300])
    res["ok"] = not res["errors"]
    res["output_tail"] = out[-600:]
    return res

def write_replay(ctx, kind, payload):
    d = os.path.join(ROOT, "replays")
    os.makedirs(d, exist_ok=True)
    n = len(glob.glob(os.path.join(d, ctx.pid + "-*.json")))
    path = os.path.join(d, "%s-%d.json" % (ctx.pid, n))
    with open(path, "w") as f:
        json.dump({"property": ctx.pid, "kind": kind, "seed": ctx.seed, "tier": ctx.tier, **payload}, f, indent=1)
    return path

TRUSTED = [
    "Coq 8.16.1 kernel and VM (vm_compute in witness/example lemmas); no native_compute",
    "axioms: none (every property theorem prints 'Closed under the global context')",
    "reference semantics Sem.mem (absent key admitted iff member shape admits null) and the statements in Properties/",
    "extraction: ExtrOcamlBasic only (bool, option, unit, prod, list, sumbool, sumor mapped to OCaml); no Extract Constant; OCaml 4.13.1",
    "correspondence machinery: Rust harness, OCaml driver, Python generators/comparison; hooks feature verif_hooks",
    "hand-written model: tied to /repo only by the executed correspondence on the cases listed in coverage",
]

def main():
    ap = argparse.ArgumentParser()
    ap.add_argument("pid")
    ap.add_argument("--tier", default=os.environ.get("VERIF_TIER", "quick"))
    ap.add_argument("--replay")
    a = ap.parse_args()
    seed = int(os.environ.get("VERIF_SEED", "20260930"))
    mod = importlib.import_module("props." + a.pid)
    if a.replay:
        vlib.build_harness(); vlib.build_coq(); vlib.build_driver()
        sys.exit(mod.replay(json.load(open(a.replay))))
    ctx = Ctx(a.pid, a.tier, seed)
    # a change that makes many cases slow must not make the check run for hours: past the deadline
    # no further case is started (remaining cases come back as SKIPPED, which no oracle accepts)
    vlib.DEADLINE = time.time() + (1500 if a.tier == "quick" else 5400)
    vlib.HEAVY_TAIL = a.tier != "quick"          # random documents get a heavy tail of widths in the thorough tier
    # 1. harness against /repo's working tree
    try:
        ctx.notes["cargo_build_s"] = round(vlib.build_harness(), 1)
    except vlib.BuildError as e:
        ctx.harness_ok = False
        ctx.build_error = e.out[-3000:]
    # 2. proofs
    proof = check_proofs(ctx)
    ctx.proof = proof
    vlib.build_driver()
    # 3-5. property specific
    if ctx.harness_ok:
        mod.run(ctx)
    else:
        fb = getattr(mod, "run_without_hooks", None)
        if fb:
            fb(ctx)
    # 6. decide
    for k in ctx.kf:
        if k["id"] in ctx.known_hits:
            print("KNOWN-FINDING: property=%s %s (%s)" % (ctx.pid, k["id"], k["what"]))
    violation = None
    if ctx.failures:
        violation = write_replay(ctx, "failing-input", {"failures": ctx.failures[:10],
                                                         "disagreements": ctx.disagreements[:10]})
        tail = ""
    elif not ctx.harness_ok:
        violation = write_replay(ctx, "harness-build-failed",
                                 {"unchecked": "correspondence (harness does not build against /repo)",
                                  "build_error": ctx.build_error})
        tail = " no-failing-input-found"
    elif ctx.disagreements:
        violation = write_replay(ctx, "correspondence-broken",
                                 {"unchecked": "correspondence scopes " + ", ".join(
                                     s for s, v in ctx.corr_scopes.items() if v["disagreements"]),
                                  "disagreements": ctx.disagreements[:20]})
        tail = " no-failing-input-found"
    elif not proof["ok"]:
        violation = write_replay(ctx, "proof-broken", {"unchecked": "theorems of Properties/%s.v" % ctx.pid,
                                                       "errors": proof["errors"]})
        tail = " no-failing-input-found"
    try:
        new_consts = vlib.new_source_constants()
    except Exception as e:                      # the audit must never decide a check
        new_consts = ["audit failed: %s" % e]
    if new_consts:
        print("NOTE property=%s numeric constants in /repo sources that no scale family is known to straddle: %s"
              % (ctx.pid, ", ".join(new_consts)))
    cov = {
        "obligations": proof["theorems"], "discharged": proof["closed"] if proof["ok"] else 0,
        "checker_cmd": "cd /verif/coq && make -j16 && coqc -Q . JS Properties/%s.v  (Print Assumptions under every theorem)" % ctx.pid,
        "trusted_base": TRUSTED,
        "evaluations": ctx.evaluations, "distinct_nontrivial": len(ctx.nontrivial),
        "rule": getattr(mod, "RULE", ""),
        "samples": ctx.samples[:12],
        "correspondence": ctx.corr_scopes,
        "input_distribution": vlib.dist_summary(ctx.dist),
        "known_findings_hit": sorted(ctx.known_hits),
        "notes": ctx.notes,
        "new_numeric_constants_in_source": new_consts,
        "coqchk": {k: proof.get(k) for k in ("coqchk_exit", "coqchk_s", "coqchk_axioms") if k in proof},
        "exhaustive": False,
    }
    vlib.write_evidence(ctx.pid, ctx.tier, seed, ctx.t0, cov, getattr(mod, "ASSUMPTIONS", []),
                        len(ctx.failures) + (1 if violation and not ctx.failures else 0))
    if violation:
        print("VIOLATION property=%s replay=%s%s" % (ctx.pid, violation, tail))
        sys.exit(1)
    print("PASS property=%s tier=%s theorems=%d/%d cases=%d nontrivial=%d wall=%.1fs" % (
        ctx.pid, ctx.tier, proof["closed"], proof["theorems"], ctx.evaluations, len(ctx.nontrivial),
        time.time() - ctx.t0))
    sys.exit(0)

if __name__ == "__main__":
    main()
