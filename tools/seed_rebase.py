#!/usr/bin/env python3
"""seed_rebase.py <candidate-dir> [base-commit] — a candidate patch was made against an older commit
of /repo (before a hook commit touched neighbouring lines): re-create it against /repo's HEAD by
cherry-picking in the scratch worktree /tmp/seedv; rewrites <candidate-dir>/patch.diff in place
(the original is kept as patch.orig.diff)."""
import os, shutil, subprocess, sys
WT = "/tmp/seedv"

def sh(cmd, cwd=None, check=True):
    p = subprocess.run(cmd, shell=True, cwd=cwd, capture_output=True, text=True)
    if check and p.returncode != 0:
        print(cmd, p.stdout, p.stderr); sys.exit(1)
    return p

def main():
    cand = sys.argv[1]
    base = sys.argv[2] if len(sys.argv) > 2 else "86c1e00"
    patch = os.path.join(cand, "patch.diff")
    if sh("git -C /repo apply --check " + patch, check=False).returncode == 0:
        print("applies as is"); return
    if not os.path.isdir(WT):
        sh("git -C /repo worktree add --detach %s HEAD" % WT)
    head = sh("git -C /repo rev-parse HEAD").stdout.strip()
    sh("git checkout -q --detach %s && git checkout -- . && git clean -fdq" % base, WT)
    sh("git apply " + patch, WT)
    sh("git -c user.name=x -c user.email=x@x commit -qam tmp-seed", WT)
    tmp = sh("git rev-parse HEAD", WT).stdout.strip()
    sh("git checkout -q --detach " + head, WT)
    r = sh("git -c user.name=x -c user.email=x@x cherry-pick " + tmp, WT, check=False)
    if r.returncode != 0:
        sh("git cherry-pick --abort", WT, check=False)
        print("cherry-pick conflict:", r.stdout[-400:], r.stderr[-400:]); sys.exit(1)
    d = sh("git diff HEAD~1 HEAD", WT).stdout
    sh("git checkout -q --detach " + head, WT)
    shutil.copy(patch, os.path.join(cand, "patch.orig.diff"))
    open(patch, "w").write(d)
    sh("git -C /repo apply --check " + patch)
    print("rebased onto", head[:7])

if __name__ == "__main__":
    main()
