#!/usr/bin/env python3
"""c09_search.py — deep MODEL-level search for counterexamples to property C09

    for all source sequences h, all d in h, all k >= 1:
      (ii) meaning(from_sources(h + [d]*k)) == meaning(from_sources(h))
      (i)  from_sources(h + [d]*(k+1))     == from_sources(h + [d]*k)

The extracted OCaml model (`.cache/ocaml/driver`) is driven through pipes with the standard case
lines of DESIGN.md A.4 (`infer_text`, `merger`, `mem`, `from_sources`); nothing is computed in Python
except bookkeeping.  Every counterexample is re-derived with a plain `from_sources` line, minimised
and replayed on the Rust implementation (`vharness`).

How the enumeration is made exhaustive without writing 10^7..10^9 `from_sources` lines:
`from_sources(h) = fold_left merger (map infer_text h)`, so only the SHAPE of a source matters and
the fold can be shared between histories.  For a base of N pairwise different single-document
shapes S, level k holds   L_k = { fold(h) : h in S^k }   together with, for every accumulated shape
a in L_k, the exact set  U_k(a) = { s : exists h in S^k, fold(h) = a and s in h }  (a bit mask).
   L_{k+1}(merger(a, s'))  gets  U_k(a) + {s'}            (one `merger` line per (a, s'))
and the property is evaluated once per pair (a0, s) with s in U_k(a0):
   a1 = merger a0 s, a2 = merger a1 s, a3 = merger a2 s;  (i): a1 == a2 == a3;
   (ii): witness documents of a1 (each-choice coverage of the shape tree) and a fixed pool of small
   documents are sent through `mem` against a0 and a1 and must be admitted alike.
This covers EVERY history of length <= K over the base and every position of d in it (the position
is irrelevant once the fold is known), i.e. sum_k N^k histories, exactly.

usage: c09_search.py [tier ...]     tiers: C3 A B C D I2 I3 [I3C]   (default: all but I3C)
"""
import os, sys, time, json, random, itertools, subprocess
from concurrent.futures import ThreadPoolExecutor

ROOT = os.environ.get("C09_ROOT", "/tmp/w-c09")
sys.path.insert(0, os.path.join(ROOT, "tools"))
import vlib                                    # syntax helpers only (parse_sh, sh_str, doc_str, doc_json)
from vlib import parse_sh, sh_str, doc_str, doc_json

DRIVER = os.environ.get("C09_DRIVER", os.path.join(ROOT, ".cache", "ocaml", "driver"))
HARNESS = os.environ.get("C09_HARNESS", "/verif/.cache/harness-target/release/vharness")
NPROC = int(os.environ.get("C09_NPROC", "12"))
OUT = os.environ.get("C09_OUT", os.path.join(ROOT, "deliver", "search-results.json"))

def log(*a):
    print(time.strftime("%H:%M:%S"), *a, file=sys.stderr, flush=True)

# ------------------------------------------------------------------ pipes
def _chunk(exe, lines):
    p = subprocess.run([exe], input=("\n".join(lines) + "\n").encode(), stdout=subprocess.PIPE,
                       stderr=subprocess.PIPE, timeout=3600)
    out = p.stdout.decode().split("\n")
    if out and out[-1] == "":
        out.pop()
    if len(out) != len(lines):
        raise RuntimeError("%s answered %d lines for %d cases (rc=%d) %s" %
                           (exe, len(out), len(lines), p.returncode, p.stderr[-300:]))
    return out

_pool = ThreadPoolExecutor(max_workers=NPROC)
NLINES = {"model": 0, "impl": 0}

def run(lines, exe=DRIVER):
    lines = list(lines)
    NLINES["model" if exe == DRIVER else "impl"] += len(lines)
    if len(lines) < 2000:
        return _chunk(exe, lines) if lines else []
    n = (len(lines) + NPROC - 1) // NPROC
    parts = [lines[i:i + n] for i in range(0, len(lines), n)]
    return [x for o in _pool.map(lambda c: _chunk(exe, c), parts) for x in o]

def ok_shape(r):
    return r[3:] if r.startswith("OK ") else None

# ------------------------------------------------------------------ documents
# python form (as in vlib): None 't' '1' 's' | list | tuple of (key, doc)
def dsize(d):
    if isinstance(d, list):
        return 1 + sum(dsize(e) for e in d)
    if isinstance(d, tuple):
        return 1 + sum(1 + dsize(v) for _, v in d)
    return 1

def docs_sys(depth, width, scal, keys):
    """all documents of nesting <= depth, containers <= width wide (object keys in sorted order)"""
    if depth == 0:
        return list(scal)
    sub = docs_sys(depth - 1, width, scal, keys)
    out = list(scal)
    for n in range(width + 1):
        for c in itertools.product(sub, repeat=n):
            out.append(list(c))
    for n in range(width + 1):
        for ks in itertools.combinations(keys, n):
            for c in itertools.product(sub, repeat=n):
                out.append(tuple(zip(ks, c)))
    return out

def O(**kw):
    return tuple(sorted(kw.items()))

n_, t_, i_, s_ = None, 't', '1', 's'
E, EO = [], ()
# curated base: empty containers, nulls at various positions, tuples vs arrays, arrays of objects with
# missing keys, nested tuples, tuples of different lengths, arrays of tuples, objects holding those
CURATED = [
    n_, i_, s_, t_, E, EO,
    [i_], [n_], [s_], [i_, i_], [n_, n_], [i_, s_], [s_, i_], [i_, n_], [n_, i_], [n_, s_], [i_, s_, t_], [i_, s_, n_],
    [i_, i_, s_], [n_, n_, i_],
    [E], [E, E], [i_, E], [E, i_], [n_, E], [E, n_], [EO], [EO, EO], [EO, i_], [EO, n_], [EO, E],
    [[i_]], [[n_]], [[i_], E], [E, [i_]], [[i_], [s_]], [[i_], [n_]], [[n_], [i_]], [[i_], [i_, i_]],
    [[i_, s_]], [[i_, s_], [i_, s_]], [[i_, s_], [s_, i_]], [[i_, s_], [i_, n_]], [[i_, n_], [n_, s_]],
    [[i_, s_], [i_, s_, t_]], [[i_, s_], i_], [i_, [i_, s_]], [[i_, s_], n_], [[i_, s_], E], [[i_, s_], [i_]],
    [[n_, n_]], [[n_, n_], [i_, s_]], [[i_, E], [i_, E]], [[i_, E], [i_, [s_]]], [[[i_, s_]], [[i_, s_]]], [[[i_]]], [[E]],
    [[[i_, s_], t_], [[i_, s_], t_]], [[[i_, s_], t_], [[n_, s_], t_]],
    O(a=i_), O(a=s_), O(a=n_), O(b=i_), O(a=i_, b=s_), O(a=n_, b=s_), O(a=E), O(a=[i_]), O(a=[n_]), O(a=[i_, s_]),
    O(a=[n_, n_]), O(a=[i_, n_]), O(a=EO), O(a=O(b=i_)), O(a=O(b=n_)), O(a=[E, E]), O(a=[i_, E]), O(a=[[i_], [i_, s_]]),
    O(a=[i_, s_], b=n_), O(a=[O(b=i_), EO]), O(a=[O(b=i_), O(b=n_)]), O(a=[[i_, s_], [i_, s_]]),
    [O(a=i_)], [O(a=i_), O(a=i_)], [O(a=i_), EO], [EO, O(a=i_)], [O(a=i_), O(b=s_)], [O(a=i_, b=s_), O(a=i_)],
    [O(a=i_), O(a=i_, b=s_)], [O(a=n_), O(a=i_)], [O(a=i_), O(a=n_)], [O(a=i_), O(a=s_)], [O(a=[i_]), O(a=E)],
    [O(a=E), O(a=[i_])], [O(a=[i_, s_]), O(a=[i_])], [O(a=[i_, s_]), O(a=[s_, i_])], [O(a=i_), i_], [i_, O(a=i_)],
    [O(a=i_), [i_]], [O(a=i_), n_], [n_, O(a=i_)], [[O(a=i_), EO]], [[O(a=i_), EO], [O(a=i_), EO]],
    [O(a=[i_, s_]), O(a=[i_, s_])], [O(a=[n_, n_]), O(a=[i_, s_])], [O(a=O(b=i_)), O(a=EO)], [O(a=O(b=i_)), O(a=O(b=n_))],
    [O(a=i_), O(b=s_), O(c=t_)], [O(a=i_, b=s_, c=t_), O(b=s_)],
]

# fixed pool of small documents for the semantic oracle (in addition to type-directed witnesses)
POOL = None
def pool():
    global POOL
    if POOL is None:
        POOL = [doc_str(d) for d in docs_sys(1, 2, [n_, i_, s_, t_], ('a', 'b'))]
        POOL += [doc_str(d) for d in ([[i_, s_], [i_, s_]], [[n_]], [[E]], [E, [i_]], [O(a=i_), EO], O(a=[n_]), O(a=[E]),
                                       O(a=O(b=n_)), [[i_, n_]], [[n_, s_], [i_, n_]], [i_, s_, t_], [n_, n_, n_],
                                       [O(a=n_)], [O(a=[n_])], O(a=[i_, s_]), O(a=[n_, n_]), [[i_], [s_], [n_], E])]
        POOL = list(dict.fromkeys(POOL))
    return POOL

# ------------------------------------------------------------------ witnesses (each-choice coverage)
def wit(s, cap=48):
    """candidate documents exercising every choice in shape s at least once: every OneOf variant, null
    for every optional node, every key absent / present, the empty array, mixed arrays, every tuple
    position varied.  Candidates need not be members (they are compared through `mem` on both shapes)."""
    k = s[0]
    if k == 'N':
        return [None]
    if k in 'B#S':
        out = [{'B': 't', '#': '1', 'S': 's'}[k]]
    elif k == 'A':
        ws = wit(s[2], 10)
        out = [[]] + [[w] for w in ws] + [[ws[0], w] for w in ws[1:]] + [[w, ws[0]] for w in ws[1:3]]
        if len(ws) > 2:
            out.append(list(ws[:4]))
    elif k == 'T':
        per = [wit(e, 6) for e in s[2]]
        out = []
        if all(per):
            base = [p[0] for p in per]
            out.append(list(base))
            for i, p in enumerate(per):
                for w in p[1:]:
                    b2 = list(base); b2[i] = w; out.append(b2)
            out.append(base[:-1]); out.append(base + [base[0] if base else None])   # wrong lengths
    elif k == 'U':
        per = [wit(v, 8) for v in s[2]]
        out = []
        for r in range(8):                     # round robin so that every variant is represented under a cap
            for p in per:
                if r < len(p):
                    out.append(p[r])
    else:
        per = [(kk, wit(v, 6)) for kk, v in s[2]]
        out = []
        base = [(kk, p[0]) for kk, p in per if p]
        out.append(tuple(base))
        for i, (kk, p) in enumerate(per):
            for w in p[1:]:
                out.append(tuple((k2, w) if k2 == kk else (k2, v2) for k2, v2 in base))
            out.append(tuple((k2, v2) for k2, v2 in base if k2 != kk))               # key absent
            out.append(tuple((k2, None) if k2 == kk else (k2, v2) for k2, v2 in base))  # key null
        out.append(())
    if is_opt(s):
        out.append(None)
    seen, res = set(), []
    for d in out:
        t = doc_str(d)
        if t not in seen:
            seen.add(t); res.append(d)
    return res[:cap]

def is_opt(s):
    return True if s[0] == 'N' else s[1]

# ------------------------------------------------------------------ the search
class Search:
    def __init__(self, name, docs, K, light_last=True):
        self.name, self.K, self.light_last = name, K, light_last
        # one representative (smallest) document per distinct inferred shape; documents that fail
        # inference (duplicate-key conflicts cannot be written in this syntax-ordered base) are dropped
        ds = sorted(set(doc_str(d) for d in docs), key=lambda t: (len(t), t))
        rs = run(["infer_text\t" + t for t in ds])
        self.doc_of = {}
        for t, r in zip(ds, rs):
            s = ok_shape(r)
            if s is not None and s not in self.doc_of:
                self.doc_of[s] = t
        self.S = list(self.doc_of)
        self.N = len(self.S)
        self.ndocs = len(ds)
        self.stats = {"tier": name, "documents": len(ds), "distinct_shapes": self.N, "max_len": K, "levels": []}
        self.cex_syn, self.cex_sem = [], []
        self.seen_pairs = set()
        self.wcache = {}

    def witnesses(self, sh):
        w = self.wcache.get(sh)
        if w is None:
            w = [doc_str(d) for d in wit(parse_sh(sh))]
            if len(self.wcache) < 2_000_000:
                self.wcache[sh] = w
        return w

    def check_pairs(self, pairs, level, hist_of, light=False):
        """pairs: list of (a0, sidx).  Evaluates clauses (i) and (ii) for each."""
        S = self.S
        l1 = run(["merger\t%s\t%s" % (a, S[i]) for a, i in pairs])
        a1 = [ok_shape(r) for r in l1]
        l2 = run(["merger\t%s\t%s" % (x, S[i]) for x, (a, i) in zip(a1, pairs)])
        a2 = [ok_shape(r) for r in l2]
        need3 = [j for j in range(len(pairs)) if a2[j] != a1[j]]
        for j in need3:                       # clause (i) violated: a2 != a1
            a0, i = pairs[j]
            a3 = ok_shape(run(["merger\t%s\t%s" % (a2[j], S[i])])[0])
            self.cex_syn.append({"level": level, "a0": a0, "s": S[i], "a1": a1[j], "a2": a2[j], "a3": a3,
                                 "history": hist_of(a0, i)})
        # a2 == a1 makes a3 == a2 a tautology (same merger call), so k = 1, 2, 3, ... are all covered
        # clause (ii): only when the representation changed
        q, meta = [], []
        nchg = 0
        pl = pool()
        for j, (a0, i) in enumerate(pairs):
            if a1[j] == a0:
                continue
            nchg += 1
            key = (a0, a1[j])
            if key in self.seen_pairs:
                continue
            if len(self.seen_pairs) < 5_000_000:
                self.seen_pairs.add(key)
            cands = (self.witnesses(a1[j])[:24] + pl[:24]) if light else (self.witnesses(a1[j]) + self.witnesses(a0)[:12] + pl)
            for w in dict.fromkeys(cands):
                q.append("mem\t%s\t%s" % (w, a0)); q.append("mem\t%s\t%s" % (w, a1[j]))
                meta.append((j, w))
        res = run(q)
        bad = {}
        for m, (j, w) in enumerate(meta):
            if res[2 * m] != res[2 * m + 1]:
                bad.setdefault(j, []).append((w, res[2 * m], res[2 * m + 1]))
        for j, ws in bad.items():
            a0, i = pairs[j]
            ws.sort(key=lambda x: (len(x[0]), x[0]))
            self.cex_sem.append({"level": level, "a0": a0, "s": S[i], "a1": a1[j], "document": ws[0][0],
                                 "mem_a0": ws[0][1], "mem_a1": ws[0][2], "n_witnesses": len(ws),
                                 "history": hist_of(a0, i)})
        return nchg, len(q)

    def run(self):
        S, N, K = self.S, self.N, self.K
        log("tier %s: %d documents -> %d distinct source shapes, histories up to length %d" % (self.name, self.ndocs, N, K))
        L = {s: (1 << i) for i, s in enumerate(S)}                    # level 1
        edges = [None, {(s, i): None for i, s in enumerate(S)}]      # edges[k][(a, bit)] = (parent, s'idx)
        self.edges = edges
        total_hist = 0
        BATCH = 1_200_000
        for k in range(1, K + 1):
            t0 = time.time()
            nchg = nq = npairs = 0
            if k < K or K == 1:
                # ---- levels below the last: L_k is a dictionary, full witness set
                pairs = []
                for a, m in L.items():
                    while m:
                        low = m & -m
                        m ^= low
                        pairs.append((a, low.bit_length() - 1))
                npairs = len(pairs)
                hist_of = lambda a, b, k=k: self.history(edges, a, b, k)
                for off in range(0, len(pairs), BATCH // 4):
                    c, q = self.check_pairs(pairs[off: off + BATCH // 4], k, hist_of, light=False)
                    nchg += c; nq += q
                nacc = len(L)
            if k == K and K > 1:
                # ---- last level: streamed from L_{K-1} x S, exact de-duplication of (a0, d) pairs
                seen = set()
                accs = set()
                keys = list(L)
                step = max(1, (BATCH // 3) // N)
                for off in range(0, len(keys), step):
                    part = keys[off: off + step]
                    out = run(["merger\t%s\t%s" % (a, s) for a in part for s in S])
                    info, pairs = {}, []
                    j = 0
                    for a in part:
                        m = L[a]
                        for i in range(N):
                            a2 = out[j][3:]; j += 1
                            accs.add(hash(a2))
                            nm = m | (1 << i)
                            while nm:
                                low = nm & -nm
                                nm ^= low
                                key = (a2, low.bit_length() - 1)
                                hk = hash(key)
                                if hk not in seen:
                                    seen.add(hk)
                                    info[key] = (a, i); pairs.append(key)
                    def hist_of(a2, b, info=info, k=k):
                        p, i = info[(a2, b)]
                        bb = b if (p, b) in edges[k - 1] else next(x for x in range(N) if (p, x) in edges[k - 1])
                        return self.history(edges, p, bb, k - 1) + [self.doc_of[S[i]]]
                    c, q = self.check_pairs(pairs, k, hist_of, light=self.light_last)
                    nchg += c; nq += q; npairs += len(pairs)
                nacc = len(accs)
            total_hist += N ** k
            st = {"k": k, "histories": N ** k, "accumulated_shapes": nacc, "pairs_a0_d": npairs,
                  "a1_differs_from_a0": nchg, "mem_lines": nq, "wall_s": round(time.time() - t0, 1)}
            self.stats["levels"].append(st)
            log("  ", st, "cex syn/sem so far:", len(self.cex_syn), len(self.cex_sem))
            if k + 1 >= K:
                continue
            # ---- next level as a dictionary
            L2, E2 = {}, {}
            keys = list(L)
            step = max(1, BATCH // N)
            for off in range(0, len(keys), step):
                part = keys[off: off + step]
                out = run(["merger\t%s\t%s" % (a, s) for a in part for s in S])
                j = 0
                for a in part:
                    m = L[a]
                    for i in range(N):
                        a2 = sys.intern(out[j][3:]); j += 1
                        nm = m | (1 << i)
                        old = L2.get(a2, 0)
                        new = nm & ~old
                        if new:
                            L2[a2] = old | nm
                            while new:
                                low = new & -new
                                new ^= low
                                E2[(a2, low.bit_length() - 1)] = (a, i)
            L = L2
            edges.append(E2)
        self.stats["histories_total"] = total_hist
        self.stats["cex_syntactic"] = len(self.cex_syn)
        self.stats["cex_semantic"] = len(self.cex_sem)
        return self

    def history(self, edges, a, b, k):
        """some history (list of document strings) of length k folding to a and containing source b"""
        h = []
        while k > 1:
            p, i = edges[k][(a, b)]
            h.append(i)
            if i == b:                                   # b came in with this step: any history of p will do
                b = next(x for x in range(self.N) if (p, x) in edges[k - 1])
            a = p; k -= 1
        h.append(self.S.index(a))
        h.reverse()
        return [self.doc_of[self.S[i]] for i in h]

# ------------------------------------------------------------------ counterexample handling
def pdoc(t):
    """compact document string -> python form"""
    pos = [0]
    def go():
        c = t[pos[0]]; pos[0] += 1
        if c == 'n':
            return None
        if c in 't1s':
            return c
        if c == '[':
            r = []
            if t[pos[0]] == ']':
                pos[0] += 1; return r
            while True:
                r.append(go())
                c2 = t[pos[0]]; pos[0] += 1
                if c2 == ']':
                    return r
        if c == '{':
            r = []
            if t[pos[0]] == '}':
                pos[0] += 1; return ()
            while True:
                st = pos[0]
                while t[pos[0]] != ':':
                    pos[0] += 1
                key = bytes.fromhex(t[st:pos[0]]).decode(); pos[0] += 1
                r.append((key, go()))
                c2 = t[pos[0]]; pos[0] += 1
                if c2 == '}':
                    return tuple(r)
        raise ValueError(t)
    return go()

def violates(h, d, exe=DRIVER):
    """evaluate the property on the sequence h (python docs) and d in h with plain from_sources lines.
    returns (kind, detail) or None.  kind: 'syntactic' | 'semantic'"""
    hs = [doc_str(x) for x in h]
    ds = doc_str(d)
    if ds not in hs:
        return None
    rs = run(["from_sources\t" + "\t".join(hs + [ds] * k) for k in range(4)], exe)
    a = [ok_shape(r) for r in rs]
    if any(x is None for x in a):
        return None
    if a[2] != a[1] or a[3] != a[2]:
        return ("syntactic", a)
    if a[1] != a[0]:
        cands = list(dict.fromkeys([doc_str(w) for w in wit(parse_sh(a[1]))] + [doc_str(w) for w in wit(parse_sh(a[0]))] + pool()))
        q = []
        for w in cands:
            q.append("mem\t%s\t%s" % (w, a[0])); q.append("mem\t%s\t%s" % (w, a[1]))
        res = run(q)                                      # mem is a model-only oracle op
        diff = [w for m, w in enumerate(cands) if res[2 * m] != res[2 * m + 1]]
        if diff:
            diff.sort(key=lambda x: (len(x), x))
            return ("semantic", a, diff[0])
    return None

def shrinks(d):
    """smaller variants of one document"""
    if isinstance(d, list):
        for i in range(len(d)):
            yield d[:i] + d[i + 1:]
        for i, e in enumerate(d):
            for e2 in shrinks(e):
                yield d[:i] + [e2] + d[i + 1:]
        for e in d:
            yield e
    elif isinstance(d, tuple):
        for i in range(len(d)):
            yield d[:i] + d[i + 1:]
        for i, (k, v) in enumerate(d):
            for v2 in shrinks(v):
                yield d[:i] + ((k, v2),) + d[i + 1:]
        for _, v in d:
            yield v
    elif d in ('t', 's'):
        yield '1'

def minimise(h, d, kind):
    """greedy: drop history elements, then shrink documents (d is shrunk together with its copies in h)"""
    h = list(h)
    def bad(h2, d2):
        v = violates(h2, d2)
        return v is not None and v[0] == kind
    changed = True
    while changed:
        changed = False
        for i in range(len(h)):
            h2 = h[:i] + h[i + 1:]
            if h2 and bad(h2, d):
                h = h2; changed = True; break
        if changed:
            continue
        for i in range(len(h)):
            if doc_str(h[i]) == doc_str(d):
                continue
            for x in shrinks(h[i]):
                h2 = h[:i] + [x] + h[i + 1:]
                if bad(h2, d):
                    h = h2; changed = True; break
            if changed:
                break
        if changed:
            continue
        for x in shrinks(d):
            h2 = [x if doc_str(e) == doc_str(d) else e for e in h]
            if bad(h2, x):
                h, d = h2, x; changed = True; break
    return h, d

def report_cex(c, kind):
    h = [pdoc(t) for t in c["history"]]
    d = pdoc([t for t in c["history"] if ok_shape(run(["infer_text\t" + t])[0]) == c["s"]][0])
    v = violates(h, d)
    if v is None or v[0] != kind:
        return {"unconfirmed": c}
    h, d = minimise(h, d, kind)
    v = violates(h, d)
    hs, ds = [doc_str(x) for x in h], doc_str(d)
    lines = ["from_sources\t" + "\t".join(hs + [ds] * k) for k in range(4)]
    model = run(lines)
    impl = run(lines, HARNESS)
    r = {"kind": kind, "history": hs, "d": ds, "history_json": [doc_json(x) for x in h], "d_json": doc_json(d),
         "case_lines": lines, "model": model, "impl": impl, "impl_agrees_with_model": model == impl}
    if kind == "semantic":
        w = v[2]
        r["document"] = w
        r["document_json"] = doc_json(pdoc(w))
        r["model_mem"] = run(["mem\t%s\t%s" % (w, ok_shape(x)) for x in model[:2]])
        # the implementation's own verdict on that document, through the shapes IT computed
        r["impl_superset"] = run(["superset\t%s\t%s" % (ok_shape(x), w) for x in impl[:2]], HARNESS)
        r["model_mem_on_impl_shapes"] = run(["mem\t%s\t%s" % (w, ok_shape(x)) for x in impl[:2]])
    return r

# ------------------------------------------------------------------ tiers
CORE = [
    n_, i_, s_, E, EO,
    [i_], [n_], [i_, s_], [s_, i_], [i_, n_], [i_, s_, t_], [i_, s_, n_],
    [E], [i_, E], [E, i_], [n_, E],
    [[i_]], [[n_]], [[i_], E], [[i_], [s_]], [[i_], [n_]],
    [[i_, s_]], [[i_, s_], [s_, i_]], [[i_, s_], [i_, n_]], [[i_, s_], [i_, s_, t_]], [[i_, s_], i_], [[i_, s_], n_],
    [[i_, s_], E], [[i_, s_], [i_]], [[n_, n_], [i_, s_]],
    [EO], [EO, i_], [O(a=i_)], [O(a=i_), EO], [O(a=i_), O(b=s_)], [O(a=n_), O(a=i_)], [O(a=i_), O(a=s_)],
    [O(a=[i_]), O(a=E)], [O(a=[i_, s_]), O(a=[i_])], [O(a=i_), i_], [O(a=i_), n_],
    O(a=i_), O(a=s_), O(a=n_), O(b=i_), O(a=i_, b=s_), O(a=E), O(a=[i_]), O(a=[n_]), O(a=[i_, s_]), O(a=[i_, n_]),
    O(a=EO), O(a=O(b=i_)), O(a=[O(b=i_), EO]), O(a=[[i_], [i_, s_]]),
]

def tier_docs(name):
    if name == "A":      # every document of nesting <= 2, width <= 2 over n,1,s and keys a,b : length <= 2
        return docs_sys(2, 2, [n_, i_, s_], ('a', 'b')) + CURATED, 2
    if name == "B":      # curated base + nesting <= 1 systematic + arrays / objects of those : length <= 3
        d1 = docs_sys(1, 2, [n_, i_, s_], ('a',))
        extra = [[x, y] for x in d1[:9] for y in d1[:9]] + [O(a=x) for x in d1] + [[x] for x in d1]
        return CURATED + d1 + extra, 3
    if name == "C3":     # curated base : length <= 3, full witness set on every level
        return CURATED, 3
    if name == "C":      # core of the curated base : length <= 4
        return CORE, 4
    raise ValueError(name)

def tier_random(seed, nhist, maxlen):
    """tier D: random long histories over random deep documents, plain from_sources lines"""
    rng = random.Random(seed)
    base = CURATED + docs_sys(1, 2, [n_, i_, s_], ('a', 'b'))
    cex = []
    done = 0
    t0 = time.time()
    while done < nhist:
        hs = []
        for _ in range(200_000):
            k = rng.randrange(3, maxlen + 1)
            h = [rng.choice(base) if rng.random() < 0.6 else vlib.rand_doc(rng, 3, ('a', 'b', 'c')) for _ in range(k)]
            d = rng.choice(h)
            hs.append((h, d))
        lines = []
        for h, d in hs:
            t = [doc_str(x) for x in h]; dd = doc_str(d)
            for k in range(4):
                lines.append("from_sources\t" + "\t".join(t + [dd] * k))
        out = run(lines)
        q, meta = [], []
        seen = set()
        for j, (h, d) in enumerate(hs):
            a = [ok_shape(x) for x in out[4 * j: 4 * j + 4]]
            if any(x is None for x in a):
                continue
            done += 1
            if a[2] != a[1] or a[3] != a[2]:
                cex.append(("syntactic", h, d))
            elif a[1] != a[0] and (a[0], a[1]) not in seen:
                seen.add((a[0], a[1]))
                for w in dict.fromkeys([doc_str(x) for x in wit(parse_sh(a[1]))] + pool()):
                    q.append("mem\t%s\t%s" % (w, a[0])); q.append("mem\t%s\t%s" % (w, a[1])); meta.append(j)
        res = run(q)
        badj = sorted({meta[m] for m in range(len(meta)) if res[2 * m] != res[2 * m + 1]})
        for j in badj:
            cex.append(("semantic", hs[j][0], hs[j][1]))
        log("  tier D: %d valid random histories, %d counterexamples, %.0fs" % (done, len(cex), time.time() - t0))
    return done, cex


def tier_impl(docs, K, name):
    """tier I: the IMPLEMENTATION itself (vharness) on every history of length <= K over the base and
    every d in h, plain from_sources lines h+[d]*k for k = 0..3; line-by-line comparison with the
    model (correspondence) and the property evaluated on the implementation's own outputs
    ((i) syntactic; (ii) witnesses of the implementation's shapes judged by the model's mem)."""
    ds = sorted(set(doc_str(d) for d in docs), key=lambda t: (len(t), t))
    rs = run(["infer_text\t" + t for t in ds])
    rep = {}
    for tt, r in zip(ds, rs):
        s = ok_shape(r)
        if s is not None and s not in rep:
            rep[s] = tt
    base = list(rep.values())
    stats = {"tier": name, "documents": len(base), "max_len": K, "histories": 0, "pairs_h_d": 0, "lines": 0,
             "model_impl_disagreements": 0, "a1_differs_from_a0": 0, "mem_lines": 0}
    cex, disagree = [], []
    t0 = time.time()
    def flush(cases):
        lines = []
        for h, d in cases:
            for k in range(4):
                lines.append("from_sources\t" + "\t".join(h + [d] * k))
        mo = run(lines)
        im = run(lines, HARNESS)
        stats["lines"] += len(lines)
        q, meta = [], []
        seen = set()
        for j, (h, d) in enumerate(cases):
            a = im[4 * j: 4 * j + 4]
            if a != mo[4 * j: 4 * j + 4]:
                stats["model_impl_disagreements"] += 1
                if len(disagree) < 20:
                    disagree.append({"case": lines[4 * j + 3], "impl": a, "model": mo[4 * j: 4 * j + 4]})
            a = [ok_shape(x) for x in a]
            if any(x is None for x in a):
                continue
            if a[2] != a[1] or a[3] != a[2]:
                cex.append({"kind": "syntactic", "history": h, "d": d, "impl": a})
            if a[1] != a[0]:
                stats["a1_differs_from_a0"] += 1
                if (a[0], a[1]) in seen:
                    continue
                seen.add((a[0], a[1]))
                for w in dict.fromkeys([doc_str(x) for x in wit(parse_sh(a[1]))][:24] + pool()[:24]):
                    q.append("mem\t%s\t%s" % (w, a[0])); q.append("mem\t%s\t%s" % (w, a[1])); meta.append((j, w))
        res = run(q)
        stats["mem_lines"] += len(q)
        for m, (j, w) in enumerate(meta):
            if res[2 * m] != res[2 * m + 1]:
                cex.append({"kind": "semantic", "history": cases[j][0], "d": cases[j][1], "document": w,
                            "impl": im[4 * j: 4 * j + 2]})
    cases = []
    for k in range(1, K + 1):
        for h in itertools.product(base, repeat=k):
            stats["histories"] += 1
            for d in dict.fromkeys(h):
                cases.append((list(h), d))
            if len(cases) >= 250_000:
                stats["pairs_h_d"] += len(cases); flush(cases); cases = []
    stats["pairs_h_d"] += len(cases); flush(cases)
    stats["wall_s"] = round(time.time() - t0, 1)
    stats["cex"] = len(cex)
    log("  tier %s (implementation):" % name, stats)
    return stats, cex, disagree


def selftest():
    """the two detectors fire on pairs (a0, s) where s has NOT been merged into a0 (outside the property's
    quantifier): syntactic on (Tuple(Number,String), Array<Null>) — the witness of add_twice_needs_hypothesis —
    and semantic on (Tuple(Number,String), Tuple(String,Number)) — the tuple dissolves into Array<OneOf>"""
    s = Search("selftest", [[n_, n_], [s_, i_], [i_, s_]], 1)
    ia = s.S.index("A0(N)"); it = s.S.index("T0(S0,#0)")
    s.check_pairs([("T0(#0,S0)", ia), ("T0(#0,S0)", it)], 0, lambda a, b: [])
    ok = (len(s.cex_syn) == 1 and s.cex_syn[0]["s"] == "A0(N)" and any(c["s"] == "T0(S0,#0)" for c in s.cex_sem))
    log("selftest:", "ok" if ok else "FAILED", s.cex_syn, [(c["a0"], c["a1"], c["document"]) for c in s.cex_sem])
    return ok

def main():
    tiers = sys.argv[1:] or ["C3", "A", "B", "C", "D", "I2", "I3"]
    if not selftest():
        sys.exit(2)
    results = {"driver": DRIVER, "harness": HARNESS, "tiers": [], "counterexamples": []}
    raw = []
    for name in tiers:
        if name == "D":
            n, cex = tier_random(int(os.environ.get("VERIF_SEED", "20260930")), int(os.environ.get("C09_NRANDOM", "1000000")), 8)
            results["tiers"].append({"tier": "D", "random_histories_len_3_to_8": n, "cex": len(cex)})
            for kind, h, d in cex[:200]:
                raw.append((kind, {"history": [doc_str(x) for x in h], "s": ok_shape(run(["infer_text\t" + doc_str(d)])[0])}))
            continue
        if name in ("I2", "I3", "I3C"):
            st, cex, dis = tier_impl(CORE if name == "I3" else CURATED, 2 if name == "I2" else 3, name)
            results["tiers"].append(st)
            results.setdefault("impl_counterexamples", []).extend(cex[:50])
            results.setdefault("impl_model_disagreements", []).extend(dis)
            continue
        docs, K = tier_docs(name)
        s = Search(name, docs, K, light_last=(name != 'C3')).run()
        results["tiers"].append(s.stats)
        raw += [("syntactic", c) for c in s.cex_syn] + [("semantic", c) for c in s.cex_sem]
    log("raw counterexamples:", len(raw))
    # minimise; keep distinct minimal forms
    seen = set()
    raw.sort(key=lambda kc: (len(kc[1]["history"]), sum(len(t) for t in kc[1]["history"])))
    for kind, c in raw[:400]:
        r = report_cex(c, kind)
        key = json.dumps([r.get("kind"), r.get("history"), r.get("d")])
        if key in seen:
            continue
        seen.add(key)
        results["counterexamples"].append(r)
        log("CEX", json.dumps(r)[:600])
    results["raw_counterexamples"] = len(raw)
    results["lines_sent"] = NLINES
    with open(OUT, "w") as f:
        json.dump(results, f, indent=1)
    log("written", OUT)
    print(json.dumps({"tiers": results["tiers"], "n_counterexamples_minimal": len(results["counterexamples"]),
                      "raw": len(raw), "lines": NLINES}, indent=1))

if __name__ == "__main__":
    main()
