#!/usr/bin/env python3
"""seed_table.py — prints the markdown table of seeded breaking changes and which checks caught
them (from seeded/<id>/detection.json written by seedtest.py); also fills meta.json."""
import json, os
ROOT = os.path.dirname(os.path.dirname(os.path.abspath(__file__)))
DESC = {
 "C01-1": ("Tuple+Tuple length guard rewritten as `folded.filter(len == elements.len())` (folded has the zip's length)", "two tuple sources of different length, the shorter first: `[1,\"a\"]` then `[1,\"a\",true]`"),
 "C01-2": ("nullability of the array element type moved into `insert_flat`, `Null` arm skipped (three cooperating sites)", "a non-empty all-null array merged with a heterogeneous array: `[null,null]` + `[1,\"a\"]`"),
 "C01-3": ("`to_optional_mut` rewritten with an or-pattern that omits Tuple", "array of objects where a later element lacks a key whose value is a heterogeneous array"),
 "C02-1": ("optional Tuple ⊆ Array arm accepts a non-optional array again", "optional tuple vs non-optional Array<OneOf> holding every element"),
 "C02-2": ("`IsOneOf<Optional<K>>` gains `|| *optional` with wrong grouping", "scalar vs optional OneOf without a variant of that kind"),
 "C02-3": ("`is_optional` of an Object whose members are all optional returns true", "missing key whose shape is a non-empty all-optional object"),
 "C08-1": ("`(Tuple, Null)` arm deleted (falls to the generic Tuple arm)", "heterogeneous array first, `null` second"),
 "C08-2": ("the two null branches of the tuple fold collapsed into `a.as_optional()`", "equal-length tuples, the null slot in the FIRST source"),
 "C08-3": ("early return in Object+Object when the left object is empty", "`{}` first, non-empty object second"),
 "C08-4": ("Array+Array takes the other element type verbatim when one side is Null", "`[null,null]` + `[1]`"),
 "C17-1": ("missing-key marking rewritten as a lockstep walk over sorted keys (`if` for `while`)", "later element with >=2 extra keys sorting before a shared key"),
 "C17-2": ("new-key insertion skips a member whose value is null", "`[{\"a\":1},{\"a\":2,\"b\":null}]`"),
 "C17-3": ("value path: all-equal test compares enum discriminants only", "nested arrays/tuples of different shape: `[[1,2],[\"a\",\"b\"]]`"),
 "C17-4": ("value path: missing-key marking skips empty objects", "`[{\"a\":1},{}]`"),
 "C03-1": ("non-optional Tuple ⊆ Tuple arm requires a non-optional target", "tuple that becomes optional in the merged shape"),
 "C03-2": ("tuple fold keeps Null when the null slot comes from the earlier source", "`[null,\"a\"]` then `[1,\"a\"]`"),
 "C03-3": ("Array+Array returns the other side unchanged when one side is the empty-array shape", "`[]` + `[1,2,3]` in any order / nesting"),
 "C06-1": ("text path: per-object missing-key test replaced by one union of all later keys", ">=3 objects, key present in one later object and missing in another"),
 "C06-2": ("value path: mark-optional pass skips empty objects", "`[{\"a\":1},{}]`"),
 "C06-3": ("JsonVisitor::from fast path for arrays of length <= 1", "top-level `[]` only"),
 "C10-1": ("OneOf ⊆ OneOf folded into a helper that drops the set fast path and mishandles a Null variant", "non-optional OneOf containing Null, compared with itself (any nesting)"),
 "C10-2": ("Tuple ⊆ Tuple guard written `opt == optional`", "non-optional tuple vs its optional form"),
 "C10-3": ("`similar` on arrays recurses into similar element types", "arrays whose element types differ in a nested flag"),
 "C10-4": ("Null arm special-cases OneOf and drops the union's own optional flag", "optional OneOf without a nullable variant"),
 "C11-1": ("custom serializer for OneOf variants drops a variant whose optional twin is present", "OneOf holding both T and Option<T>"),
 "C11-2": ("Display prints a single-variant OneOf as the bare variant", "singleton OneOf vs the variant itself"),
 "C11-3": ("`skip_serializing_if = \"Vec::is_empty\"` on Tuple.elements without default", "empty Tuple (hand-built)"),
 "C12-1": ("value path re-converts elements through a lazy iterator in the all-objects branch (3^d)", "arrays of >=2 objects inside objects, >= 12 levels"),
 "C12-2": ("merger Array+Array 'fast path' merges clones first, then again (2^d)", "arrays in arrays whose innermost element differs"),
 "C12-3": ("is_subset Object arm pre-check repeats the recursive test (2^d)", "nested non-optional objects where the relation holds"),
 "C14-1": ("Tuple arm of shape_representation ignores `optional` after a refactor", "optional tuple below the root"),
 "C14-2": ("create_enum strips the outer parentheses of a tuple payload", "OneOf with a Tuple variant"),
 "C14-3": ("create_subtype no longer descends into tuples", "object / OneOf below a non-root tuple"),
 "C16-1": ("collection name snake-cased before use as file name", "name with hyphen / space / capital"),
 "C16-2": ("unreadable sources silently skipped (`flat_map`)", "unreadable path mixed with a readable one"),
 "C16-3": ("HashSet introduced for tuple elements: item order depends on the hash seed", "tuple with >=2 different object element shapes"),
 "C16-4": ("file opened without truncate", "output file already exists and is longer"),
 "C09-1": ("Array+Tuple tail collapsed with field shorthand: the element union inherits the array's optional flag", "tuple merged with an array, then `null`, then the tuple repeated"),
 "C09-2": ("OneOf + T arm: `optional && !variants.contains(Null)` evaluated before Null is inserted", "union formed first, the null (or missing key) after it, then a repeated scalar"),
 "C09-3": ("Object+Object fast path for equal contents takes the flag from the incoming side only", "record, then `null`, then the same record again"),
 "C09-4": ("guard arm `tuple.is_subset(&array) => array` and the element type inserted unflattened again", "tuple holding `[]` repeated after an array: grows without bound"),
 "C04-1": ("check_string: valid range replaced by `!c.is_control()`", "raw DEL or C1 character (U+007F..U+009F) inside a string is rejected"),
 "C04-2": ("parse_cst root scan skips Whitespace but not Newline", "LF / CR / CRLF before the first token"),
 "C04-3": ("nesting cap tested per bracket kind", "mixed [ / { nesting of depth 257..512"),
 "C04-4": ("is_superset parses directly and drops the diagnostics", "non-JSON of a recoverable class through is_superset only"),
 "C04-5": ("exponent digits `(0|[1-9][0-9]*)`", "`1e05`, `1E+00`"),
 "C05-1": ("invalid-escape diagnostic range ends at `j + 1` again", "backslash followed by a multi-byte character: panic on slicing"),
 "C05-2": ("has_errors cuts the fragment by characters (`chars().skip().take()`)", "non-ASCII text before/inside the error: fragment != input[range]"),
 "C05-3": ("nesting cap only tested for `[`", "`{\"a\":` repeated 100000 times: stack overflow"),
 "C05-4": ("value path: element type of a uniform array re-converted from the first item (2^depth)", "arrays nested ~60 deep"),
 "C07-1": ("parse_cst root scan skips Whitespace but not Newline", "line break before the root value"),
 "C07-2": ("parse_string finds the closing quote with an `escaped` flag", "string ending in an even number of backslashes: `\"C:\\\\\"`"),
 "C07-3": ("duplicate-key lookup through `range(&key..)` + `starts_with`", "one key a proper prefix of another, the longer one first"),
 "C07-4": ("MAX_TOKENS = 65536 guard in tokenize", "more than 65 536 tokens (e.g. 32 768 array elements)"),
 "C13-1": ("optional Object/OneOf referenced as `Option<name>` with the `Optional` prefix trimmed", "optional nested object: referenced type undefined (E0425)"),
 "C13-2": ("`Default` derived for structs named Optional…", "optional nested object holding a required nested object (E0277) — rustc only"),
 "C15-1": ("optional array member rendered `#[serde(default)] Vec<T>`", "list member absent in one source and null in another"),
 "C15-2": ("Tuple arm of shape_representation ignores `optional`", "tuple member absent in one source / null in another"),
 # ---- round 2 (fresh sub-agents, after all fixes and both proof merges)
 "C02-4": ("Object ⊆ Object fast path for equal member counts compares values pairwise in key order, never the names", "objects with the same number of members, different key names, position-wise compatible values"),
 "C02-5": ("Tuple ⊆ Tuple arity test hoisted and `==` became `<=` (zip truncates)", "source tuple strictly shorter than the target tuple"),
 "C03-4": ("from_sources skips samples 'already covered' but the test is written the wrong way round (`seen.is_subset(&value)`)", "a later, strictly wider sample after a narrower one (order-dependent); merged shape OneOf-free"),
 "C10-5": ("`similar` Array/Array arm returns `other.clone()` (receiver's optional flag lost)", "optional receiver, non-optional argument"),
 "C10-6": ("Null arm of is_subset rewritten as a match; the OneOf case tests `variants.contains(Null)` and ignores the flag", "optional OneOf without a Null variant (what `OneOf + Null` produces)"),
 "C11-4": ("Display of Tuple rewritten element-by-element; the empty case returns before the optional flag is looked at", "empty tuple with optional = true (hand-built)"),
 "C11-5": ("`skip_serializing_if = \"BTreeMap::is_empty\"` on Object.content without `default`", "any shape containing an empty object, e.g. from_str(\"{}\")"),
 "C12-4": ("value path 'fast path for homogeneous arrays' infers elements, compares, then falls through and infers again (2^d)", "nested heterogeneous arrays `[[..,\"s\"],\"s\"]`"),
 "C12-5": ("Object ⊆ Object fail-fast loop added, second pass left in place (2^d on the positive path)", "nested non-optional objects where the relation holds"),
 "C05-5": ("parse_string: escape skipping folded into `bump(1 + is_some)` (counts the escaped char as one byte)", "backslash followed by a non-ASCII character: logos bump lands inside a UTF-8 sequence, panic"),
 "C07-5": ("member names decoded through `serde_json::from_str::<&str>` with raw fallback (borrowed str cannot hold escapes)", "any escaped member name: `{\"\\u0061\":1}` vs `{\"a\":1}`"),
 "C04-7": ("parse_source trims the text with `trim_end()` (Unicode White_Space, a superset of JSON whitespace)", "VT, FF, NEL, NBSP, U+2028 ... after the document"),
 "C05-6": ("has_errors trims the reported fragment (`.trim()`), span left alone", "error node whose text begins/ends with whitespace: unterminated string ending in a space"),
 "C01-4": ("Object+Object merge takes the optional flag from the accumulator only", "incoming optional object from array-of-objects inference: `{\"k\":[{\"a\":{..}}]}` then `{\"k\":[{\"a\":{..}},{}]}`"),
 "C08-5": ("Tuple+Tuple slot fold loses its `else if a.is_null()` branch", "null slot in the FIRST source: `[null,\"x\"]` then `[1,\"x\"]`"),
 "C09-5": ("Array+Tuple arm no longer flattens an accumulated OneOf element type", "accumulator already `Array<OneOf[..]>`, then the tuple re-added: nests one level per repetition"),
 "C16-5": ("compile_json reordered: the output file is created before the sources are read ('fail early on a bad OUT_DIR')", "any later error (unreadable source, empty list) leaves an empty / truncated output file"),
 "C13-3": ("'fast path' in the Array arm of create_subtype: recurse only when the element type is an Object or OneOf", "objects under array-of-array or array-of-tuple: referenced struct never defined (E0425)"),
 "C14-4": ("Array arm of shape_representation takes the optional flag from the element type", "array below the root whose flag differs from its element's flag"),
 "C15-3": ("keyword-safe field names with an over-inclusive keyword table (weak keywords raw/safe/union get a `_` suffix, no serde rename)", "member named `raw`, `safe`, `union` or `macro_rules`: module compiles, source no longer deserializes"),
 # ---- round 3 (fresh sub-agents asked for changes that only manifest at unusual SCALE or on RARE input features)
 "C08-6": ("Object+Object merge: objects with >8 members, equal member count and equal first / last name are zipped by position", "two records of >= 9 members that differ in one MIDDLE member name"),
 "C17-5": ("text path array-of-objects fold counts occurrences in saturating u8 counters", "array of >= 257 objects where a member of the first occurs in >= 255 of the others but not in all"),
 "C06-4": ("value path: heterogeneous arrays longer than MAX_TUPLE_ARITY = 12 become Array<OneOf>", "mixed array of 13 or more elements"),
 "C02-6": ("is_subset Array vs Array peels nested array layers in a loop that ignores the inner optional flags", "inner array layer nullable on the left but not on the right (nesting >= 2)"),
 "C08-7": ("as_optional leaves a OneOf that already lists Null unflagged", "member that is a union with a Null variant and is absent in a later source"),
 "C04-8": ("from_sources caches parsed sources keyed by `source.trim()` (Unicode white space, a superset of JSON's)", ">= 2 sources: a non-JSON text that is a copy of an earlier valid source padded with VT / FF / NEL / NBSP / U+2028 ..."),
 "C05-7": ("has_errors caps the reported fragment at 4096 bytes (byte offset), span left alone", "error range longer than 4096 bytes: fragment != input[range]; a multi-byte character at the cut panics"),
 "C07-6": ("member names decoded by a hand-written unescape that handles each \\uXXXX on its own", "member name containing a code point >= U+10000 spelled as a surrogate-pair escape"),
 "C13-4": ("create_subtype gets a nesting budget MAX_SUBTYPE_DEPTH = 64 and returns silently beyond it", "object / OneOf sub-shape at nesting level 65 or deeper: referenced struct undefined"),
 "C15-4": ("sources read through one shared 64 KiB buffer with a single File::read", "source file longer than 65 536 bytes whose tail carries shape information"),
 "C14-5": ("wide-tuple fallback `Vec<serde_json::Value>` guarded by `len < 12` instead of `<= 12`", "tuple of exactly 12 elements below the root"),
 "C16-6": ("OUT_DIR read with env::var; the error arm falls back to the current directory", "OUT_DIR whose bytes are not valid UTF-8"),
 # ---- round 4 (fresh sub-agents, scale / rare features again, asked for thresholds a tester would not think of first;
 #      run against the checks as they stood after the scale stream was built)
 "C17-6": ("text path: the 'all elements equal' test looks at the first 1000 neighbouring pairs only", "array whose first 1001 elements share a shape and a later one differs"),
 "C09-6": ("merger below recursion level 100 returns two different shapes as an unflattened OneOf", "documents nested 102 levels whose innermost objects differ: one more OneOf per re-addition"),
 "C02-7": ("Object vs Object with more than 20 members in the target: sorted two-iterator walk whose final check inspects only the first left-over member", "22-member target, the last-but-one member optional and the last required, source lacking both"),
 "C01-5": ("from_sources parse cache keyed by the source with ALL white space removed (also inside strings)", "two sources that differ only by white space inside a member name"),
 "C04-9": ("number regex rewritten with `\\d` (every Unicode decimal digit in logos)", "non-ASCII decimal digit inside a number after its first ASCII digit"),
 "C05-8": ("has_errors clips span and fragment to 200 bytes (byte offset)", "broken node longer than 200 bytes with a multi-byte character across byte 200: panic"),
 "C04-10": ("parse_source strips a leading U+FEFF", "text starting with a byte order mark: accepted, and every error range shifted"),
 "C15-5": ("'a file listed twice is read once' keyed by Path::file_name()", "two sources in different directories with the same file name"),
 "C16-7": ("shape_name of an Object feeds only the first 50 member types into the checksum", "two 51-member objects differing in the last member's type: one name, defined twice"),
 "C13-5": ("create_subtype returns silently beyond MAX_SUBTYPE_DEPTH = 100", "composite nesting of 102 levels or more"),
 "C14-6": ("directly nested arrays rendered by a loop that applies the Option flags in reverse order", "array of arrays whose sequence of optional flags is not a palindrome"),
 # ---- round 5 (fresh sub-agents; NO numeric thresholds allowed: rare non-numeric features only)
 "C01-6": ("Array+Array fast path: an accumulated `Option<Array<Null>>` (how `[]` looks) takes the incoming element type as is", "an all-null array plus a bare null (same shape as `[]`+null), then a non-empty array of another kind"),
 "C08-8": ("Object+Object early return when the INCOMING object has no members", "`{}` arriving after a non-empty object at the same position"),
 "C17-7": ("parse_member rejects an empty member name (`InvalidObjectKey`)", "a member whose name is the empty string"),
 "C04-11": ("from_sources parses `source.trim_end()` (Unicode White_Space)", "from_sources only: a source ending in VT / FF / NEL / NBSP / U+2028 ..."),
 "C07-7": ("parse_string: after a backslash the scanner skips the next character only when it is a quote", "a string or member name ending in an escaped backslash (`\\\\\"`)"),
 "C05-9": ("member names with a backslash are decoded with `.expect(..)` instead of falling back to the spelling", "member name with an invalid escape: panic in every entry point"),
 "C13-6": ("create_tuple's optional branch drops the tuple parentheses", "optional tuple at the ROOT (`null` next to mixed-array documents): `Option<f64, String>`"),
 "C15-6": ("field names: every non-ASCII-alphanumeric character replaced by `_` after snake-casing", "snake_case member names containing non-ASCII letters"),
 "C16-8": ("shape_name of an Array takes its `Optional` prefix from the element", "sibling objects differing only in whether an array member is nullable: one name, two bodies"),
 "C14-7": ("compile_json de-duplicates the path list before reading", "the same path listed twice where the second merge still matters (a union formed in between)"),
 "C01-7": ("Tuple+Tuple flatten branch rewritten with one iterator: the Null variant is taken from the incoming tuple's optional flags only (round 6: multi-step)", "three sources: `[1,\"a\"]`, `[1,null]` (fold gives Tuple(Number, Option<String>)), then a tuple of another length / kind"),
 "C03-5": ("TWO SITES: `insert_flat` keeps the optional flag of the accumulated element type; `Array ⊆ OneOf` drops the lookup of the optional spelling (each alone harmless)", "three sources: `[[1]]`, `[null]`, `[true,\"s\"]` — the merged shape rejects `[[1]]`"),
 "C06-5": ("value path: homogeneous-array test uses `similar(..).is_some()` instead of `==` (ignores the top-level flag)", "an empty array next to an array of nulls inside one array: `[[],[null]]`"),
 "C02-8": ("optional Tuple ⊆ Array sub-arm pattern `optional: true` became `..`", "shapes reached by two merge histories: Option<Tuple(Number,String)> vs Array<OneOf[Number|String]>"),
 "C17-8": ("array-of-objects first pass collects the union of all later keys: a first-object key is optional only if absent from ALL later objects", "key in the first element, in some later element, missing from another: `[{\"a\":1},{\"a\":2},{}]`"),
 "C13-7": ("create_subtype Array arm recurses only for Object / OneOf / Tuple element types ('fast path for arrays of scalars')", "Object > Array > Array > Object below the root: inner struct never defined (E0425)"),
 "C13-8": ("create_object skips a struct when the rendered scope already contains `\"{name} {\"` — matches inside `OptionalStructN…`", "the same object content once optional and once required, the optional one emitted first"),
 "C16-9": ("file written through OpenOptions without truncate", "call sequence small, large, small under one collection name: third file keeps a stale tail"),
 "C16-10": ("sources read with `filter_map(read_to_string(..).ok())`", "a list mixing readable sources with an unreadable one returns Ok and writes a file"),
 "C04-12": ("TWO SITES: lexer no longer rejects bare words in the Error-token callback; parse_member calls has_errors only when no value was found (each alone harmless)", "a bare word between the colon and the value of a member: `{\"a\": x 1}` accepted"),
 "C05-10": ("check_string reused on unterminated strings (its `unreachable!` assumes a closing quote)", "text ending right after a backslash inside a string: `\"a\\`, `[1, \"a\\`, `{\"k\\` panic"),
 "C07-8": ("member names without `\\u` unescaped by a chain of `str::replace` calls", "a name with an escaped backslash followed by one of `\" / b f n r t`: `{\"\\\\n\":1}` vs `{\"\\u005cn\":1}`"),
 "C04-13": ("from_sources memoises parsed sources by `source.trim()` (Unicode blanks are not JSON whitespace)", "a valid source followed later by a twin that differs only by U+00A0 / U+000C / U+2028 padding"),
 "C12-6": ("value path: all-objects branch converts lazily and the second walk re-converts every element but the first (2^depth)", "arrays of >=2 objects nested inside arrays of objects, the nested array not in the first object"),
 "C12-7": ("is_subset optional-Object vs optional-Object arm recurses twice into common members (2^(d-1))", "optional objects nested in optional objects (only arise from a chain of merges)"),
 "C11-6": ("TWO SITES: `insert_flat` made pub(crate) and used by a `deserialize_with` for OneOf variants (strips flags, splices nested unions)", "hand-built OneOf with an optional variant or a nested OneOf: comes back changed"),
 "C11-7": ("Display prints a non-optional OneOf variant of a OneOf as its bare alternatives", "`OneOf[Boolean | OneOf[Number | String]]` prints like `OneOf[Boolean | Number | String]`"),
 "C16-11": ("(written by the main session, not a sub-agent) `include_json_shape!` reads `<name>.gen.shapes.rs`", "any crate that really uses the macro: the suite never expands it; before this round the checks computed the macro's path instead of observing it"),
 "C10-7": ("`similar` Tuple arm: `ty == elements` rewritten as a zip-all (length test dropped) (round 7: what a differential tester is least likely to exercise)", "two tuples one of which is an exact prefix of the other: Tuple(Number,String) vs Option<Tuple(Number,String,Boolean)>"),
 "C08-9": ("(Tuple, Array) arm: `|| r#type.is_optional()` dropped from the Null-variant test, mirrored arm left intact", "a tuple source first, then an array consisting solely of empty arrays: `[1,\"a\"]`, `[[],[]]` — the two orders admit different documents"),
 "C16-12": ("compile_json creates the output file before the sources are read and merged ('fail fast')", "any failing source list (missing path, directory, empty list): Err is returned but a zero-length file is left / a good file of a previous build is truncated"),
 "C13-9": ("create_subtype Tuple arm visits only Object / OneOf elements", "a tuple below the root with an Array or Tuple element that contains an object: `{\"entry\":[1,[{\"x\":1}]]}` — inner struct never defined"),
 "C14-8": ("shape_representation Array arm hands the element shape (not the array shape) to a new `optional_of` helper", "array and element optional flags differ: `{\"id\":1,\"tags\":[\"a\"]}` + `{\"id\":2}` gives `Vec<String>` instead of `Option<Vec<String>>`"),
}

def main():
    rows = []
    for sid in sorted(DESC):
        d = os.path.join(ROOT, "seeded", sid)
        if not os.path.isdir(d):
            continue
        det = {}
        p = os.path.join(d, "detection.json")
        if os.path.exists(p):
            det = json.load(open(p))
        caught = [k for k, v in det.items() if v["exit"] != 0]
        conc = [k for k in caught if det[k].get("replay_kind") == "failing-input"]
        m = json.load(open(os.path.join(d, "meta.json")))
        m["change"], m["needs_to_manifest"] = DESC[sid]
        m["caught_by"] = caught
        m["caught_with_concrete_failing_input_by"] = conc
        json.dump(m, open(os.path.join(d, "meta.json"), "w"), indent=1)
        own = sid.split("-")[0]
        mark = "yes" if own in caught else ("**NO**" if det else "?")
        rows.append("| %s | %s | %s | %s | %s |" % (sid, DESC[sid][0], DESC[sid][1], mark, " ".join(caught) if det else "(not run)"))
    print("| seed | change | needs to manifest | caught by its own property's check | all checks that raised VIOLATION |")
    print("|---|---|---|---|---|")
    print("\n".join(rows))

if __name__ == "__main__":
    main()
