#!/bin/sh
# run /repo's baseline suite (hooks off) and print a one-line summary; exit 1 on any failure
cd /repo && CARGO_NET_OFFLINE=true cargo test --workspace --no-fail-fast --offline 2>&1 | awk '
/^test result:/ {p+=$4; f+=$6}
/ \.\.\. FAILED/ {print}
/^error/ {print; e=1}
END {print "passed=" p " failed=" f; if (f>0||e) exit 1}'
