#!/usr/bin/env python3
"""gen_whatif.py <repo-tree> [--switch F12,F13,F14,F15] [--props C13,C14,C15,C16] [--keep]
What-if run of the generator-layer checks against ANOTHER source tree (a scratch worktree with
candidate fixes or a seeded breaking change), optionally with the model's SWITCH definitions
flipped to their post-fix form.  Works on a throw-away copy of the framework under
<root>/.cache/whatif (nothing in the framework or in the tree is modified); only the model is
rebuilt (proof files that unfold a switched definition are expected to need their prepared
post-fix theorems, see NOTES-gen.md), so the proof step is skipped and the summary reports
correspondence scopes, unlisted failures and known classes hit."""
import argparse, importlib, json, os, re, shutil, subprocess, sys

ROOT = os.path.dirname(os.path.dirname(os.path.abspath(__file__)))

def sh(cmd, cwd=None):
    p = subprocess.run(cmd, shell=True, cwd=cwd, stdout=subprocess.PIPE, stderr=subprocess.STDOUT, text=True,
                       env=dict(os.environ, CARGO_NET_OFFLINE="true"))
    if p.returncode != 0:
        print(p.stdout[-3000:]); sys.exit("command failed: " + cmd)
    return p.stdout

def switch_model(path, which):
    s = open(path).read()
    if "F12" in which:
        s = s.replace('lit "//! Generated `JsonShape` file."', 'lit "// Generated `JsonShape` file."')
    if "F13" in which:
        s = s.replace('Definition opt_array_head : text := lit "Optional".', 'Definition opt_array_head : text := lit "Option".')
    if "F14" in which:
        i = s.index("Definition out_path (dir name : text) : text :=")
        j = s.index("(* include_json_shape!:")
        s = s[:i] + 'Definition out_path (dir name : text) : text := path_join dir (name ++ lit "." ++ gen_ext).\n\n' + s[j:]
    if "F15" in which:
        i = s.index("Fixpoint dedup_from")
        j = s.index("Definition first_pass_f15")
        dedup = s[i:j]
        s = s[:i] + s[j:]
        s = s.replace("Definition first_pass (s : shape) : list item :=", "Definition first_pass_raw (s : shape) : list item :=", 1)
        k = s.index("(* ------------------------------------------------------------------ codegen 0.3.0 Scope::to_string *)")
        s = s[:k] + dedup + "Definition first_pass (s : shape) : list item := dedup_items (first_pass_raw s).\n\n" + s[k:]
    open(path, "w").write(s)

def main():
    ap = argparse.ArgumentParser()
    ap.add_argument("tree")
    ap.add_argument("--switch", default="")
    ap.add_argument("--props", default="C13,C14,C15,C16")
    ap.add_argument("--tier", default="quick")
    ap.add_argument("--keep", action="store_true")
    a = ap.parse_args()
    tree = os.path.abspath(a.tree)
    w = os.path.join(ROOT, ".cache", "whatif")
    shutil.rmtree(w, ignore_errors=True)
    os.makedirs(w)
    for d in ("coq", "ocaml", "harness", "tools"):
        shutil.copytree(os.path.join(ROOT, d), os.path.join(w, d),
                        ignore=shutil.ignore_patterns("*.vo", "*.vos", "*.vok", "*.glob", ".*.aux", "__pycache__", "Makefile*", ".Makefile.d"))
    shutil.copy(os.path.join(ROOT, "KNOWN_FINDINGS.json"), w)
    ct = os.path.join(w, "harness", "Cargo.toml")
    txt = open(ct).read().replace("/repo/", tree + "/")
    open(ct, "w").write(txt)
    which = [x for x in a.switch.split(",") if x]
    if which:
        switch_model(os.path.join(w, "coq", "Model", "Gen.v"), which)
    # model only: Model/*.v + Extract.v
    proj = [l for l in open(os.path.join(w, "coq", "_CoqProject")).read().split("\n") if l.startswith("-Q") or l.startswith("Model/")]
    open(os.path.join(w, "coq", "_CoqProject"), "w").write("\n".join(proj) + "\n")
    sh("coq_makefile -f _CoqProject -o Makefile && timeout 900 make -j16", cwd=os.path.join(w, "coq"))
    sh(os.path.join(w, "ocaml", "build.sh"))
    sh("cargo build --release --offline", cwd=os.path.join(w, "harness"))
    sys.path.insert(0, os.path.join(w, "tools"))
    for m in [m for m in list(sys.modules) if m in ("vlib", "genlib", "check") or m.startswith("props")]:
        del sys.modules[m]
    import check
    summary = {}
    for pid in a.props.split(","):
        mod = importlib.import_module("props." + pid)
        ctx = check.Ctx(pid, a.tier, 20260930)
        mod.run(ctx)
        summary[pid] = {"correspondence": ctx.corr_scopes, "unlisted_failures": len(ctx.failures),
                        "first_failures": [(f["what"], f["input"][:160]) for f in ctx.failures[:3]],
                        "first_disagreements": [(d["scope"], str(d["case"])[:160]) for d in ctx.disagreements[:3]],
                        "known_hit": sorted(ctx.known_hits)}
    print(json.dumps(summary, indent=1))
    if not a.keep:
        shutil.rmtree(w, ignore_errors=True)

if __name__ == "__main__":
    main()
