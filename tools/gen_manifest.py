#!/usr/bin/env python3
"""Regenerates /verif/MANIFEST.json from the table below (one place to keep claims current)."""
import json, os
ROOT = os.path.dirname(os.path.dirname(os.path.abspath(__file__)))
props = [json.loads(l)["id"] for l in open(os.path.join(ROOT, "properties.jsonl"))]

TECH = "machine-checked proof in Rocq/Coq 8.16 over a hand-written Gallina model + executed model/implementation correspondence (extracted OCaml vs Rust harness) + oracle search on the implementation"
NOTE = ("Trusted: Coq kernel (+VM for witness lemmas), no axioms (Print Assumptions: closed), the reference semantics Sem.mem and the "
        "statements in Properties/, extraction (ExtrOcamlBasic only), harness/driver/python comparison, hooks. The model is hand-written: "
        "it is tied to /repo only by the correspondence cases each run executes (counts and input distribution in evidence): exhaustive "
        "small scope, seeded random, and a scale / rare-feature stream (wide, deep, long, odd and related inputs; DESIGN 10.13-10.16); the "
        "reach of that tie was measured (every line of merger, subset, entry points, visitor and generator is executed; DESIGN 10.15) and "
        "probed with 111 independently written breaking changes (all reported) and 10 behaviour-preserving refactorings (none reported). ")

CLAIMS = {
 "C04": ('C04_main is a THEOREM about the model of the code as it is now (fixes F2, F3, F11 applied): for every string of Unicode scalar values, accepts cfg_now s = true <-> exists t, json_text s t /\\ jdepth t <= 256 /\\ dup_consistent t = true, where json_text is RFC 8259 written as inductive relations. Proved through lexer / parser / walk completeness (every grammatical text of depth <= 256 is converted to exactly infer_text of its tree, from_str_complete) and soundness (a silent lexer + silent recovering parser + successful walk imply a derivation), ref_json exact (grammar unambiguous), dup_consistent <-> inference succeeds, is_superset / is_superset_checked / from_sources corollaries (non-JSON rejected, too deep rejected). The pre-fix behaviour stays as regression witnesses. Correspondence ties model to /repo: tokens, CST node by node, from_str, from_sources, is_superset* on a systematic malformed stream (~30k texts); oracle: acceptance = reference, cross-checked with serde_json; is_superset probed against the shape of the recovered tree.', "6/C04"),
 "C05": ("Theorems for ALL inputs (Properties/C05.v): from_str / from_sources / is_superset / is_superset_checked of the model never reach a panic site (every Rust "
         "indexing, slicing, unwrap and unreachable site of lexer, parser, CST walk is an explicit Panic value) and never run out of the model's fuel; every "
         "Error::InvalidJson range is inside the input, start<=end, on UTF-8 character boundaries and its fragment is the input at that range (also for from_sources, "
         "is_superset_checked, and for every configuration of the planned fixes F2/F3); lexer spans are consecutive and faithful; the parser's flat CST is "
         "well-formed; both tree-level inference paths never panic and the value path never fails; the value path enters each value once. RECURSION DEPTH is proved bounded for every input "
         "(C05_parse_depth_bound: at most 772 nested parser frames; C05_walk_depth_bound: at most 515 nested walk frames; C05_from_str_depth_bound; C05_lexer_nesting_bound: the lexer "
         "never pushes more than 256 open brackets; C05_cst_is_tree; value path: jdepth+1; C05_shape_depth_bound: every inferred shape is at most as deep as its document, which bounds the structural recursion of merger / is_subset) through depth-instrumented twins proved equal to the model functions; the walk's twin is tied to /repo by a depth hook "
         "(maximal nesting of parse_cst/parse_rule/parse_member/parse_token frames = walk_depth on every sampled text and on nests of 1..1000 levels; 515 is attained). Correspondence ties "
         "lexer+parser+walk+API to /repo on the malformed stream (CST compared node by node with spans). Runtime part (stack, time, allocator) validated by running: "
         "100000 brackets, multi-MB strings, 1.5 MB objects under a 60 s hang guard, serde_json values to depth 127, hook call counter = node count.", "6/C05"),
 "C07": ('Proved for ALL texts: any two RFC 8259 texts of depth <= 256 with the same document tree get the same result (same_tree_same_result); every rendering of a tree (all whitespace forms incl. bare CR / CRLF, number forms, escapes, raw non-ASCII, true/false) parses to infer_text of the tree (parse_render, keys_ok); member order and repetition count are irrelevant at tree and text level. Correspondence: 12k metamorphic pairs + 6k renderer cases + very long arrays / wide objects on the implementation.', "6/C07"),
 "C01": ("Theorems (Properties/C01.v): merger is an upper bound of both operands for ALL well-formed shapes; inference is sound for every document "
         "outside the decidable known class KF1 and total on duplicate-free documents; every source of any non-empty sequence is a member of the "
         "result (carve-out only on the failing document itself); appending a source only widens. KF1 is proved to be a real counterexample "
         "(C01_kf1_refuted). Correspondence: merger on all 103041 level-1 pairs + random deep pairs, both inference paths on ~30k documents, "
         "from_sources on thousands of sequences; oracle: Sem.mem of every source in the implementation's result, witness documents for upper bound and monotonicity.",
         "6/C01"),
 "C02": ("Theorem is_subset_sound for ALL shapes a and well-formed b, plus the is_superset / is_superset_checked corollaries (with the KF1 carve-out inherited "
         "from inference, refuted without it). Correspondence on all level-1 pairs and random related deep pairs; oracle: witness documents of the left "
         "shape checked against the right shape for every accepted pair.", "6/C02"),
 "C03": ("Theorems: every well-formed shape is accepted by itself; for ANY number of sources, whenever every OneOf node of the merged shape is a union of non-optional scalar kinds "
         "(class scalar_oneofs of Model/OneOfClass.v, which contains every OneOf-free shape) every source is accepted in all three forms "
         "(is_subset of its own shape, is_superset, is_superset_checked) — proved via downward closure of the class, transitivity of is_subset below it and 'a merge whose result is in the class "
         "accepts both operands' for arbitrary well-formed operands (C03_scalar_oneofs_subset / _superset / C03_merge_accepts_operands / C03_subset_trans_scalar; the OneOf-free theorems are kept). The general "
         "statement is false of the faithful model and this is proved (C03_kf2_refuted: [true,null,1]); the complement of the theorem's hypothesis is exactly the known class KF2 "
         "(extracted decidable predicate scalar_oneofs), so at run time any failure outside it is reported as a violation.", "6/C03"),
 "C06": ("Theorem paths_agree: for every duplicate-free document the text-path model and the value-path model (serde_json Map + From<&Value>) give the same outcome; "
         "visitor corollary; witness that duplicates legitimately differ. Correspondence of both paths (incl. JsonVisitor identity) on ~35k documents; oracle: "
         "from_str(text) == From<&Value>(serde_json(text)) on thousands of random renderings. Known finding KF5 (escaped member names).", "6/C06"),
 "C11": ("Theorems: de (ser s) = Some s for every well-formed shape (serde round trip), ser injective, and Display is a PREFIX-FREE code on shapes whose member names are identifier-like "
         "([A-Za-z0-9_-]+), hence injective; a witness shows collisions exist outside that domain (as the property's quantifier allows). Correspondence byte for byte: serde_json::to_string vs "
         "the modelled compact writer, to_string() vs display, round trip, on level-1 + wrappers + random deep shapes with odd keys; oracle: round trip, determinism, pairwise collision search.", "6/C11"),
 "C12": ("Theorems about the instrumented twins (which return result AND number of calls, mirroring short-circuit order): is_subset makes at most |a|*|b| calls and the twin computes "
         "the same answer; one merger makes at most min(|a|,|b|) merger calls and 2|a||b| is_subset calls; merging n sources makes at most (total size) merger calls; single-document "
         "inference makes one call per node on both paths. Correspondence: the real call counters (hooks) equal the twins' predictions EXACTLY on all level-1 pairs, random deep pairs and "
         "thousands of documents. PARTIAL: the property's own measure (heap allocations) is measured by a counting allocator over depth/width/sources families and must stay within quadratic growth.", "6/C12"),
 "C17": ("Ten theorems give the defining equations of single-document inference for all documents: scalars, object = member names -> member shapes, "
         "array classification (equal -> Array, differing -> Tuple in order, objects -> folded Object) and the three key laws of the array-of-objects fold "
         "(union of keys, everywhere-present keys unchanged, partly-present keys optional). Oracle independent of the model: the implementation's result is "
         "recomputed from its own results on the sub-documents.", "6/C17"),
 "C08": ("Ten theorems: merger idempotent (all wf shapes), null-absorbing on both sides (exactly the optional form), order-insensitive up to meaning (mem d (merger a b) = mem d (merger b a) "
         "for all wf a, b), per-key object equation, array equation, scalar-kind pairs give exactly the OneOf of the two, plus the from_sources corollaries. "
         "Correspondence: merger on all 103041 level-1 pairs and random related deep pairs in both orders, from_sources on pairs and wrapped pairs; oracle: "
         "laws re-evaluated on the implementation, order-insensitivity by witness documents validated by Sem.mem.", "6/C08"),
 "C09": ("The property in full is a THEOREM (C09_readd): for EVERY source sequence h that infers and EVERY d in h (any position, no side condition) there is one shape m1 with from_sources(h+[d]*(k+1)) = m1 for all k — the shape stops changing after at most one re-addition — and m1 admits exactly the documents from_sources(h) admits (Sem.mem); proved via an absorption invariant preserved by merger. Corollaries in the property's wording (C09_readd_meaning, C09_readd_stable, C09_readd_ok), text-level C09_text_readd, tightness witness (C09_readd_changes_once), and: when the merged shape is OneOf-free nothing changes at all. The pairwise add_twice for ARBITRARY accumulated shapes keeps the hypothesis no_null_array, with a witness that it is needed there. Beyond the property's quantifier, C09_readd_any: ANY re-additions of documents already among the sources (several, interleaved, any order, any number) never fail and never change the admitted documents; C09_readd_any_not_syntactic shows the syntactic clause does not generalise that way. Correspondence + oracle: thousands of histories with d at random positions and with random interleaved re-additions; an exhaustive model/implementation search over 16M histories found no counterexample (NOTES-c09.md).", "6/C09"),
 "C10": ("Six theorems prove reflexivity, optional widening, null-in-optional and the similar laws for ALL well-formed shapes; model tied to /repo by "
         "all 103041 level-1 pairs plus random deep related pairs; statements re-evaluated on the implementation's own answers.", "6/C10"),
 "C13": ("Theorems (Properties/C13.v): for EVERY shape in the decidable class good_names (emitted definition names pairwise distinct, snake-cased member names legal and distinct, variant names distinct, tuples <= 12 wide) the generated items form a well-formed module "
         "(every referenced type is standard at its arity or defined exactly once; names legal) - proved by structural induction over all shapes; wf_module = header_ok under that class. C13_header_ok: the header written since fix F12 can be include!d in a module. Five `_refuted` theorems exhibit the remaining defect classes of the code "
         "(F15 repeated sub-shape; KF4 collision; illegal / clashing member names; variant clash; 13-tuple; the F12 header and F13 Optional<Vec classes are repaired in /repo and their witnesses became positive theorems); C13_gen_wf_after_F15 proves the repaired (deduplicating) emission needs only the local conditions. Correspondence: render hook and compile_json file bytes byte-for-byte on level-1, corner, random and inferred shapes; "
         "oracle: independent name-resolution check = extracted wf_items on the parsed REAL text = model prediction, every case; a real crate whose build.rs calls compile_json and whose modules use include_json_shape! (harness/macroprobe --features real) must build on every run; thorough: real rustc per case and one-crate batches agree with wf_items / wf_module.", "6/C13"),
 "C14": ("Theorem C14_decode_gen_partial: for EVERY shape in the decidable class decodable, reading the generated items back (decode) yields the shape with member names snake-cased (erase) - structural induction, no bounds; three `_refuted` witnesses "
         "(root flag dropped, name collision, 1-tuples) and C14_opt_array_decodes (nested optional arrays decode since fix F13). Correspondence: render byte-for-byte; parsed real text = model item list; oracle: extracted decode on the implementation's real output vs erase(shape), classified by the same decodable predicate.", "6/C14"),
 "C15": ("Theorem C15_deser_sources_partial (structural induction over ALL shapes, no bounds): under the model of serde's derived (de)serialization for exactly the generated item forms, every member document (Sem.mem) without a repeated member name of every shape in the decidable class "
         "c15_class (good_names, decodable, OneOf-free, member names snake-stable, no Null-typed member, no empty object) deserializes into the generated root type and re-serializes to an approx-equal document (kinds; explicit nulls for absent optional members). Six `_refuted` theorems exhibit the classes "
         "outside it (externally tagged enums, missing rename, Null-typed member, dropped root Option, empty object = unit struct, duplicate member). The serde model is an external library's behaviour: validated in the thorough tier by compiling and RUNNING the generated code on the sources and on foreign documents "
         "(3089 pairs, model = real outcome incl. re-serialized document); that run found the unit-struct class.", "6/C15"),
 "C16": ("Theorems (Properties/C16.v): out_path = macro_path for EVERY non-absolute collection name, dots included (C16_paths_agree, the code after fix F14; the dotted-name defect of the old path is kept as C16_pre_F14_dotted_refuted); equal shapes get equal names, injectivity refuted (KF4) and the colliding class characterised (C16_name_collision_class: equal constructors, flags and member / variant / element types in order give equal names, member names never enter); a successful compile_json_m writes exactly one file = header ++ returned text at out_path; "
         "read / inference errors and panics write nothing; empty source lists yield an error - for any inference function. Correspondence: shape_name / shape_representation / render hooks, convert_case Snake/Pascal and CRC-32 {:X} on ~50k strings, compile_json (real files, OUT_DIR set/unset/dotted/spaced) against compile_json_m incl. stdout lines; "
         "the include macro itself is OBSERVED on every run (harness/macroprobe, built against /repo: a local macro_rules! include captures the path expression that include_json_shape! hands to include! for 11 collection names, compared with the model's macro_path and with the file compile_json really writes; plus a crate whose build.rs calls compile_json and whose modules use the real macro, as documented). "
         "oracle: bytes twice in one process and in two processes, single file at the macro's observed path, no file on error, name collision search.", "6/C16"),
}
PARTIAL = {
 "C04": "The theorem needs Forall scalar s (model characters are unbounded naturals; a Rust &str only holds scalars: witness C04_scalar_needed). The tie model <-> implementation is the executed correspondence. ",
 "C05": "PARTIAL BY NATURE: the NUMBER of nested frames is proved bounded for all inputs, but bytes per frame (hence actual stack use), wall time and the allocator are runtime facts outside the model; they are validated by running big inputs under a hang guard. Trusted additionally: the logos DFA semantics as modelled in Model/Lexer.v and the transliteration of the lelwel parser in Model/Parser.v, both tied to /repo by token/CST correspondence. ",
 "C07": "The tie model <-> implementation is the executed correspondence. Member names spelled with escapes ARE covered by same_tree_same_result (json_text relates a text to the tree with decoded names; Example C07_escaped_names_same_tree); only the model's own renderer (parse_render, hypothesis keys_ok) never produces escaped names - the checks re-spell names on the implementation. ",
 "C12": "Partial by nature: allocator, stack and wall-clock are runtime; the theorems bound call counts, allocations are measured.", "C03": "Partial: the theorem covers exactly the complement of the known class KF2 (merged shape OneOf-free or with OneOf nodes that are unions of non-optional scalars: scalar_oneofs); inside KF2 the property is refuted by witness.", "C13": "Partial: 'wf_module implies rustc accepts' is validated on rustc batches, not proved; codegen / convert_case / checksum are modelled (printable-ASCII member names) and validated by correspondence. ",
 "C14": "Partial: the item parser applied to the real text is Python (validated against the model's item list on every case). ",
 "C15": "Partial: serde_derive / serde_json are external - modelled (Model/Gen.v deser/reser) and validated by compile-and-run batches in the thorough tier; modules are judged by their items (the header is C13's business; the defect F12 is repaired). ",
 "C16": "Partial: determinism of the real code is a run-time observation (two runs, two processes); the text-level behaviour of json_shape 0.5.1 enters compile_json_m as a function argument. ",
}

def chk(pid):
    text, ref = CLAIMS[pid]
    return {"property_id": pid, "quick_cmd": "./check %s --tier quick" % pid,
            "thorough_cmd": "./check %s --tier thorough" % pid,
            "evidence_file": "/verif/evidence/%s.json" % pid,
            "replay_cmd_template": "./check %s --replay {path}" % pid,
            "engine": "coq-model+correspondence",
            "level_claimed": {"category": "proof", "text": text, "design_ref": ref},
            "level_note": NOTE + PARTIAL.get(pid, ""), "technique": TECH}

def main():
    path = os.path.join(ROOT, "MANIFEST.json")
    old = json.load(open(path))
    m = {"version": 1, "setup_cmd": "./setup.sh", "hooks": old["hooks"],
         "engines": [{"name": "coq-model+correspondence", "path": "/verif/check", "serves_properties": sorted(CLAIMS),
                      "kind_free_text": "Coq 8.16.1 theorems over a hand-written Gallina model; model extracted to OCaml and diffed against a Rust harness built from /repo on every run"}],
         "checks": [chk(p) for p in props if p in CLAIMS],
         "notes": "See DESIGN.md. KNOWN_FINDINGS.json lists recorded defects; seeded/ holds validated breaking changes.",
         "not_applicable": [{"property_id": p, "reason": "check not built yet (work in progress; planned in DESIGN.md section 6)"}
                            for p in props if p not in CLAIMS]}
    m["hooks"]["source_commits"] = ["63c2726", "8cb2011"]
    json.dump(m, open(path, "w"), indent=1)

if __name__ == "__main__":
    main()
