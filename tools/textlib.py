"""textlib.py — text-level helpers shared by C04/C05/C07: hex encoding, canonical CST form,
correspondence with canonicalisation, text generators (renderer with independent choices per
token, malformed stream, grammar negatives, arbitrary Unicode)."""
import os
import re, random, itertools
import vlib

def hx(t):
    return (t.encode("utf-8") if isinstance(t, str) else bytes(t)).hex()

def unhx(h):
    return bytes.fromhex(h).decode("utf-8")

_LINE = re.compile(r"^((?:    )*)(\S+)(?: .*)? \[(\d+)\.\.(\d+)\]$", re.S)

def canon_cst(line):
    """harness `parse` output (CST nd <hex of Display text>) -> 'CST nd depth:name:a:b ...'"""
    if not line.startswith("CST "):
        return line
    a = line.split(" ")
    text = bytes.fromhex(a[2]).decode("utf-8") if len(a) > 2 else ""
    out = ["CST", a[1]]
    for ln in text.split("\n"):
        if ln == "":
            continue
        m = _LINE.match(ln)
        if not m:
            return "CST-UNPARSED " + repr(ln)
        out.append("%d:%s:%s:%s" % (len(m.group(1)) // 4, m.group(2), m.group(3), m.group(4)))
    return " ".join(out)

def correspond(ctx, lines, scope, nontrivial=None, canon=None):
    """ctx.correspond with an optional canonicalisation of the implementation's lines"""
    lines = list(lines)
    mi = vlib.run_impl(lines)
    mm = vlib.run_model(lines)
    if canon:
        mi = [canon(x) for x in mi]
    ctx.evaluations += len(lines)
    sc = ctx.corr_scopes.setdefault(scope, {"cases": 0, "disagreements": 0})
    sc["cases"] += len(lines)
    vlib.account(ctx.dist, scope, lines, mi)
    for l, a, b in zip(lines, mm, mi):
        if a != b:
            sc["disagreements"] += 1
            if len(ctx.disagreements) < 50:
                ctx.disagreements.append({"scope": scope, "case": l, "text": show_case(l), "model": a, "impl": b})
        elif nontrivial is not None and nontrivial(l, b):
            ctx.nontrivial.add(l)
    if lines and len(ctx.samples) < 12:
        i = ctx.rng.randrange(len(lines))
        ctx.samples.append({"case": lines[i], "text": show_case(lines[i]), "model": mm[i], "impl": mi[i]})
    return mi, mm

def show_case(l):
    a = l.split("\t")
    try:
        return [unhx(x) for x in a[1:] if re.fullmatch(r"(?:[0-9a-f]{2})*", x)]
    except Exception:
        return None

# ------------------------------------------------------------------ generators: texts
WS = ["", "", "", " ", "  ", "\t", "\n", "\r\n", " \n ", "\t\t", "\n\n", " \r\n\t", "\r", " \r ", "\r\r\n"]
WS_NOCR = [w for w in WS if "\r" not in w.replace("\r\n", "")]
NUMBERS = ["0", "-0", "1", "-1", "7", "10", "123", "9007199254740993", "0.0", "-0.0", "0.5", "1.25", "10.01",
           "1e5", "1E5", "1e+5", "1E-5", "0e0", "-0E+0", "1.5e10", "-1.5E-10", "0.1e+01", "123456789012345678901234567890",
           "1e400", "-1e-400", "2.2250738585072014e-308"]
STRINGS = ['""', '"s"', '"abc"', '" "', '"a b"', '"\\""', '"\\\\"', '"\\/"', '"\\b"', '"\\f"', '"\\n"', '"\\r"', '"\\t"',
           '"\\u0041"', '"\\u00e9"', '"\\u00E9"', '"\\uD83D\\uDE00"', '"\\ud800"', '"\\udc00x"', '"é"', '"日本"', '"😀"',
           '"a\u007fb"', '" "', '" "', '"﻿"', '"/"', '"{[,:]}"', '"true"', '"1"', '"\\\\u0041"',
           '"\\"\\\\\\/\\b\\f\\n\\r\\t"', '"\U0010ffff"', '"\\u0000"']
# a few LONG lexemes (beyond 256 / 1024 / 4096 bytes): which number, which string must not matter at any length
LONG_NUMBERS = ["1" * 40 + "." + "5" * 300, "-" + "9" * 1100 + "e-1100", "0." + "0" * 4200 + "1"]
LONG_STRINGS = ['"' + "x" * 300 + '"', '"' + "\\u00e9" * 180 + '"', '"' + "\u00e9" * 2100 + '"', '"' + "y" * 4200 + '\\n"']
P_LONG = 0.015           # per scalar: rare enough not to inflate the mutation families built on rendered seeds
KEYS = ['a', 'b', 'c', 'd', 'ab', 'a b', '', 'é', '日本', '😀', '\\n', '\\u007a', '\\"', 'A', 'type', 'a.b', '\\\\', '0']

def render(d, rng, ws=WS, keys_raw=True):
    """document (vlib representation) -> JSON text, every token rendered by an independent choice"""
    out = []
    def w():
        out.append(rng.choice(ws))
    def go(d):
        if d is None:
            out.append("null")
        elif d == 't':
            out.append(rng.choice(["true", "false"]))
        elif d == '1':
            out.append(rng.choice(LONG_NUMBERS if rng.random() < P_LONG else NUMBERS))
        elif d == 's':
            out.append(rng.choice(LONG_STRINGS if rng.random() < P_LONG else STRINGS))
        elif isinstance(d, list):
            out.append("["); w()
            for i, e in enumerate(d):
                if i:
                    out.append(","); w()
                go(e); w()
            out.append("]")
        else:
            out.append("{"); w()
            for i, (k, v) in enumerate(d):
                if i:
                    out.append(","); w()
                out.append('"' + k + '"'); w(); out.append(":"); w(); go(v); w()
            out.append("}")
    w(); go(d); w()
    return "".join(out)

def rand_text_doc(rng, depth, keys=KEYS):
    """random document whose member names come from the raw key pool (escapes, non-ASCII)"""
    if depth <= 0 or rng.random() < 0.3:
        return rng.choice(vlib.SCAL)
    if rng.random() < 0.5:
        n = rng.choice([0, 1, 2, 2, 3, 4])
        if rng.random() < 0.4 and n:
            e = rand_text_doc(rng, depth - 1, keys)
            return [e] * n
        return [rand_text_doc(rng, depth - 1, keys) for _ in range(n)]
    n = rng.choice([0, 1, 2, 2, 3])
    ks = rng.sample(keys, min(n, len(keys)))
    if n >= 2 and rng.random() < 0.15:
        ks[1] = ks[0]                     # duplicate member name
    return tuple((k, rand_text_doc(rng, depth - 1, keys)) for k in ks)

VALID_SEEDS = ['null', 'true', 'false', '0', '-1.5e+10', '"a\\nb"', '"é😀"', '[]', '{}', '[1,2]', '[1,"a",null]',
               '{"a":1}', '{"a":1,"b":[true,{"c":null}]}', ' [ 1 , 2 ] ', '{\r\n"k" :\t[ ]\n}', '[[],[[]],{}]',
               '{"a":{"b":{"c":1}}}', '[{"a":1},{"a":1,"b":"x"}]', '{"\\u0061":1,"é":"\\uD83D\\uDE00"}',
               '[1.0,2e5,-0]', '{"a":1,"a":1}', '{"a":1,"a":"x"}', '"\\u12aF"', '[true,false,null]', '\n1\n', '[\r\n]']

INSERT_ALPHABET = list(' \t\n\r"\\/,:[]{}-+.0159eEatrufnsl\x00\x1f\x7fé 😀﻿xX_#\'')
# characters that LOOK like JSON syntax to a Unicode-aware class (\d, \s, is_whitespace, is_alphabetic ...) but are
# not: decimal digits of other scripts, full-width punctuation, Unicode spaces, line / paragraph separators
INSERT_ALPHABET += list("٢५１\U0001d7d9\u0085    　，：［｛“−")

def mutations(t):
    """every prefix, every single-character deletion, and every single-character insertion /
    substitution over INSERT_ALPHABET (the caller samples the last two families)"""
    cs = list(t)
    out = []
    for i in range(len(cs) + 1):
        out.append(("prefix", "".join(cs[:i])))
    for i in range(len(cs)):
        out.append(("delete", "".join(cs[:i] + cs[i + 1:])))
    for i in range(len(cs) + 1):
        for a in INSERT_ALPHABET:
            out.append(("insert", "".join(cs[:i] + [a] + cs[i:])))
    for i in range(len(cs)):
        for a in INSERT_ALPHABET:
            if a != cs[i]:
                out.append(("subst", "".join(cs[:i] + [a] + cs[i + 1:])))
    return out

def nest(n, open_="[", close="]", core=""):
    return open_ * n + core + close * n

NEGATIVES = ['1٢', '[10１]', '1.٥', '1e१', '-7۷', '١', '0٠', '[1，2]', '{"a"：1}', '［1］',
             '“a”', '−1', '1 ', ' 1', '[1, 2]', 'truе', 'nulⅼ',
             '', ' ', '\n', '[1,]', '[,1]', '[1,,2]', '[,]', '{,}', '{"a":1,}', '{"a" 1}', '{"a":}', '{"a"}', '{:1}', '{1:2}',
             '{"a":1 "b":2}', '{"a":1,:2}', '{"a"::1}', '{"a":1:2}', '{"a":"b":"c"}', '{"a":1,2}', '[1 2]', '[1:2]', '[1,:2]',
             '01', '-01', '00', '1.', '.5', '-.5', '+1', '1e', '1e+', '1.e5', '1.5.5', '0x10', '1_000', '-', '--1', '- 1',
             'Infinity', 'NaN', '-Infinity', '1e5x', '1a', 'nul', 'nulll', 'tru', 'truee', 'True', 'NULL', 'fals', 'nullx',
             'null null', 'true false', '1 2', '1,2', '"a""b"', '"a" "b"', '[][]', '{}{}', '{"a":1}{"b":2}', '[1]]', '{"a":1}}',
             ']', '}', '[', '{', '[}', '{]', '[1}', '{"a":1]', ':', ',', '"', '"abc', '"abc\\"', '"\\', '"\\q"', '"\\x41"', '"\\u12"',
             '"\\u12G4"', '"\\u"', '"\\uD83D"', '"\\U0041"', '"a\nb"', '"a\tb"', '"a\x00b"', '"a\x1fb"', '"\r"', "'a'", "{'a':1}",
             '[1,2', '{"a":1', '{"a":', '{"a"', '{"', '[[1]', '[1,[2]', '{"a":[1}', '﻿1', '﻿', '1﻿', '﻿{"a":1}',
             '1\r', '\r1', '[\r1]', '[1\r,2]', '{\r}', '1 \r', '\r\r', '\r\n\r', '/*c*/1', '1//c', '#', '\x00', '1\x00', '\x0c1',
             '\x0b1', ' 1', '1 ', ' 1', '1 ', '　1', 'é', '😀', '[é]', '{"a":é}', '[1,é]', '"\\', '"\\"',
             '[1,"a]', '{"a:1}', '[-]', '[-,1]', '[1,-]', '[.]', '[e]', '[nul]', '[tru,1]', '{"a":tru}', '{"a":1,"b"}', '{"a":1,"b":}',
             '[[[[', ']]]]', '}{', '][', '{[', '[{', '[{}', '{"a":[}', '[[],', '{"a":{},']

def depth_family():
    out = []
    for n in (1, 2, 127, 128, 129, 200, 255, 256, 257, 258, 300):
        out.append(nest(n))
        out.append(nest(n, core="1"))
        out.append(nest(n, '{"a":', '}', '1'))
        out.append("[" * n)
        out.append("[" * n + "1")
        out.append(nest(n // 2, '[{"k":', '}]', 'null'))
        out.append(nest(n // 2, '{"k":[', ']}', ''))
        out.append("[" + nest(n - 1) + "," + nest(n - 1) + "]" if n > 1 else "[]")
        out.append(nest(n, core='1,' + nest(3)))            # 1,[[[]]] inside: 300 -> `[1,[1,...` style
    out.append("]" * 5 + nest(260))                          # negative running count first
    out.append("[" + "[1]," * 300 + "[1]]")                  # wide, shallow
    out.append("[" + ",".join(["[[]]"] * 200) + "]")
    return out

def rand_unicode(rng, n):
    pool = INSERT_ALPHABET + ['null', 'true', 'false', '12', '"a"', '{"a":', '[1,', '\\u00', '\r\n']
    s = []
    for _ in range(n):
        r = rng.random()
        if r < 0.7:
            s.append(rng.choice(pool))
        elif r < 0.8:
            s.append(chr(rng.randrange(0, 0x80)))
        elif r < 0.9:
            s.append(chr(rng.choice([rng.randrange(0x80, 0x800), rng.randrange(0x800, 0xd800), rng.randrange(0xe000, 0x10000)])))
        else:
            s.append(chr(rng.randrange(0x10000, 0x110000)))
    return "".join(s)

def scale_texts(rng, big=False):
    """texts at unusual lexical scale: strings / member names / numbers / white-space runs of 255..65537
    characters, straddling powers of two, valid and invalid (unterminated, raw control character or bad escape at
    the far end, a multi-byte character across the boundary), wide arrays and objects, nesting 120..256 with
    content at every level.  A threshold in the lexer or the walk (a buffer, a fast path for short tokens, a
    narrowed index) is never reached by small random texts.  big=True: the same families at 64 KiB / 1 MiB, for the
    implementation-side checks only (the extracted model is too slow there)."""
    out = []
    for n in ((255, 256, 257, 1023, 1024, 1025, 4095, 4096, 4097) if not big else (65535, 65536, 65537, 1048577)):
        body = "a" * n
        out += ['"%s"' % body, '{"%s":1}' % body, '["%s",1]' % body, '{"k":"%s","%s":[]}' % (body, body[: n // 2]),
                '"%s' % body, '{"%s:1}' % body, '"%s\n"' % body[:-1], '"%s\\n%s"' % (body, "b" * 3), '"%s\\q"' % body,
                '"%s\\u00e9"' % body, '"%s\\ud83d\\ude00"' % body, '"%s\u00e9"' % body[:-1], '"%s\U0001f600%s"' % (body[:-2], "z"),
                '"%s\\ud83d"' % body, '"%s\x01"' % body]
        if n <= 1025 or big:
            out += ["1" * n, "-0." + "1" * n, "1e" + "9" * n, "1E-" + "0" * n + "1", "0" + "1" * n, "1." + "0" * n + "e", "[" + "1" * n + ",\"s\"]",
                    " " * n + "1", "1" + "\n" * n, "[" + " \r\n" * (n // 3) + "]", "{" + "\t" * n + '"a"' + " " * n + ":" + "\n" * n + "1}",
                    "\r" * n + "[]", " " * n, "1" + " " * n + "2"]
    if not big:
        # unterminated strings whose error node crosses every small byte offset inside a multi-byte character
        for mb in ("é", "日", "\U0001f600"):
            for units in (40, 64, 100, 128, 150, 200, 256, 300, 700, 1100, 2100):
                for pad in ("", "a", "ab", "abc"):
                    out += ['"' + pad + mb * units, '{"id": 7, "title": "' + pad + mb * units, '["a", "' + pad + mb * units + '\\']
    for n in ((300, 700) if not big else (70000,)):      # the model's span computation is quadratic in the node count
        out += ["[" + ",".join(["1"] * n) + ',"s"]', "[" + ",".join(["1"] * n) + ",]", "{" + ",".join('"k%d":%d' % (i, i) for i in range(n)) + "}",
                "{" + ",".join('"k%d":%d' % (i, i) for i in range(n)) + ",}", "[" + ",".join('{"a":1}' for _ in range(n)) + ',{"a":"s"}]'[:0] + "]"]
    for d in ((120, 127, 128, 129, 200, 255, 256, 257) if not big else ()):
        out += ["[1," * d + "2" + "]" * d, '{"a":[' * (d // 2) + "null" + "]}" * (d // 2), "[1," * d + "]" * d, '{"a":' * d + "1" + "}" * (d - 1),
                "[[]," * (d - 1) + "[]" + "]" * (d - 1)]
    return list(dict.fromkeys(out))

def text_stream(rng, n_docs, n_mut_per_seed, n_rand):
    """(class, text) pairs: rendered valid documents, the malformed stream, negatives, depth
    family, arbitrary Unicode"""
    out = []
    for _ in range(n_docs):
        d = rand_text_doc(rng, rng.choice([1, 2, 3, 4]))
        out.append(("rendered", render(d, rng)))
    seeds = list(VALID_SEEDS)
    seeds += [t for t in (render(rand_text_doc(rng, 3), rng) for _ in range(40)) if len(t) < 400][:12]
    for s in seeds:
        out.append(("seed", s))
        ms = mutations(s)
        fixed = [m for m in ms if m[0] in ("prefix", "delete")]
        rest = [m for m in ms if m[0] in ("insert", "subst")]
        out += fixed
        out += rng.sample(rest, min(n_mut_per_seed, len(rest)))
    out += [("negative", t) for t in NEGATIVES]
    out += [("depth", t) for t in depth_family()]
    out += [("scale", t) for t in scale_texts(rng)]
    out += [("unicode", rand_unicode(rng, rng.randrange(1, 12))) for _ in range(n_rand)]
    seen, res = set(), []
    for c, t in out:
        if t not in seen:
            seen.add(t); res.append((c, t))
    # spread the long (deeply nested) texts evenly: the runners shard contiguous chunks
    heavy = [x for x in res if len(x[1]) > 300]
    light = [x for x in res if len(x[1]) <= 300]
    step = max(1, len(light) // (len(heavy) + 1))
    mixed = []
    for i, x in enumerate(light):
        mixed.append(x)
        if heavy and (i + 1) % step == 0:
            mixed.append(heavy.pop())
    return mixed + heavy

def cst_subset(texts, limit=700, keep_long=12):
    """texts whose CST is compared node by node: all short ones and a few of the long ones
    (the model's span computation is quadratic in the number of nodes)"""
    short = [t for t in texts if len(t) <= limit]
    long_ = [t for t in texts if len(t) > limit]
    return short + long_[:keep_long]

# ------------------------------------------------------------------ guarded runs (hang guard)
import subprocess, time as _time

def run_guarded(exe, line, timeout, stack_kb=None):
    """one case in its own process under a wall-clock hang guard -> (result line, seconds);
    stack_kb: run the library on a thread with that much stack (harness env VHARNESS_STACK_KB)"""
    t0 = _time.time()
    env = dict(os.environ, VHARNESS_STACK_KB=str(stack_kb)) if stack_kb else None
    try:
        p = subprocess.run([exe], input=line + "\n", stdout=subprocess.PIPE, stderr=subprocess.PIPE,
                           text=True, timeout=timeout, env=env)
    except subprocess.TimeoutExpired:
        return "HANG", _time.time() - t0
    o = p.stdout.strip("\n")
    if p.returncode != 0 or o == "":
        return "CRASH rc=%d" % p.returncode, _time.time() - t0
    return o, _time.time() - t0

def check_invalid_json(text, res):
    """C05: an `ERR InvalidJson a b frag` must lie inside the input on character boundaries and
    the fragment must be the input at that range; returns None or a description"""
    if not res.startswith("ERR InvalidJson "):
        return None
    a = res.split(" ")
    st, en = int(a[2]), int(a[3])
    frag = bytes.fromhex(a[4]) if len(a) > 4 else b""
    raw = text.encode("utf-8")
    if not (st <= en <= len(raw)):
        return "range %d..%d outside 0..%d" % (st, en, len(raw))
    for p in (st, en):
        if p < len(raw) and (raw[p] & 0xC0) == 0x80:
            return "offset %d is not a character boundary" % p
    if raw[st:en] != frag:
        return "fragment differs from input[%d..%d]" % (st, en)
    return None

SHAPES_FOR_SUPERSET = ["N", "#0", "#1", "S0", "B0", "A0(#0)", "A1(N)", "A0(S0)", "T0(#0,S0)", "O0{}", "O0{61:#0}",
                       "O0{61:#0,62:A0(B0)}", "U0[#0|S0]", "A0(O0{61:#0})", "A0(A0(#0))"]

# serde_json's documented deviations from the RFC grammar (the second oracle)
_LONE = re.compile(r'\\u[dD][89abAB][0-9a-fA-F]{2}(?!\\u[dD][c-fC-F][0-9a-fA-F]{2})|(?<!\\u[dD][89abAB][0-9a-fA-F]{2})\\u[dD][c-fC-F][0-9a-fA-F]{2}')
_BIGEXP = re.compile(r'[eE]\+?\d{3,}')

def has_unpaired_surrogate_escape(text):
    """scan the escapes properly (an escaped backslash does not start a \\u escape): a \\uD800-DBFF not followed
    by a \\uDC00-DFFF, or a \\uDC00-DFFF that does not follow a high surrogate"""
    i, n = 0, len(text)
    prev_high = False
    while i < n:
        c = text[i]
        if c == '\\' and i + 1 < n:
            e = text[i + 1]
            if e == 'u' and i + 6 <= n and re.fullmatch(r'[0-9a-fA-F]{4}', text[i + 2:i + 6]):
                v = int(text[i + 2:i + 6], 16)
                if 0xDC00 <= v <= 0xDFFF:
                    if not prev_high:
                        return True
                    prev_high = False
                else:
                    if prev_high:
                        return True
                    prev_high = 0xD800 <= v <= 0xDBFF
                i += 6
                continue
            if prev_high:
                return True
            i += 2
            continue
        if prev_high:
            return True
        i += 1
    return prev_high

_LONGINT = re.compile(r"(?<![0-9.eE+-])-?[1-9][0-9]{308,}")      # an integer part of 309+ digits exceeds f64

def serde_deviation(text, ref_depth):
    """why serde_json may reject a text that RFC 8259 admits (None = no known reason)"""
    if ref_depth is not None and ref_depth > 127:
        return "recursion limit 128"
    if _LONE.search(text) or has_unpaired_surrogate_escape(text):
        return "lone surrogate escape"
    if _BIGEXP.search(text) or _LONGINT.search(text):
        return "number out of f64 range"
    return None
