"""C12 — cost grows polynomially with input size, not exponentially with nesting."""
import vlib
from vlib import sh_str, doc_str

RULE = ("correspondence: the verif_hooks call counters (From<&Value>, parse_rule, merger, is_subset) against the instrumented "
        "model twins subset_c / merger_c / calls_infer, EXACT equality, on all 103041 level-1 pairs (subset), level-1 pairs "
        "(merger), random deep related pairs and ~10k documents for both inference paths. oracle on the implementation: heap "
        "allocations (counting global allocator in the harness) over three families — nesting depth 1..20 at constant width, "
        "width up to 10^4 at constant depth, up to 10^3 sources — must grow at most quadratically: alloc(2n) <= 4*alloc(n)+C. "
        "violation search: when the counters disagree and nothing else failed, every disagreeing document / shape pair is nested in one of its own leaves up to 16 levels and the counters of the implementation must not multiply per level. non-trivial = case whose count is > 1; distinct = distinct case line")
ASSUMPTIONS = ["the unit of work proved about is the number of calls of the four recursive entry points; allocations are measured, not modelled",
               "counts are compared in a single-threaded harness process (global counters)"]

def nest_tuple(d):
    x = ['1', 's']
    for _ in range(d):
        x = [x, 's']
    return x

def nest_obj(d):
    x = (('a', '1'), ('b', 's'))
    for _ in range(d):
        x = (('a', x), ('b', ['1', 's']))
    return x

def nest_arrobj(d):
    x = [(('a', '1'),), (('b', 's'),)]
    for _ in range(d):
        x = [(('a', x),), (('a', '1'), ('c', '1'))]
    return x

def poly_ok(c1, c2, K=400):
    return c2 <= 4 * c1 + K


import re
_DOC_LEAF = re.compile(r"(?:(?<=[\[,:])|^)([nt1s])(?=[\],}]|$)")
_SH_LEAF = re.compile(r"N|[B#S][01]")

def _subst(text, rx, idx, repl):
    ms = list(rx.finditer(text))
    if idx >= len(ms):
        return None
    m = ms[idx]
    return text[:m.start()] + repl + text[m.end():]

def amplify(ctx):
    """violation search for a broken counter correspondence: nest each disagreeing document (shape pair) inside one of
    its own leaves, level by level, and test on the implementation's own counters whether the work multiplies with the
    nesting depth (the proved statement: calls = nodes for inference, <= |a||b| for is_subset, <= min / 2|a||b| for merger)"""
    tried = 0
    for dis in ctx.disagreements[:10]:
        f = dis["case"].split("\t")
        if f[0] != "counts":
            continue
        for leaf in range(3):
            series, cases = [], []
            if f[1] in ("infer_value", "infer_text"):
                cur = f[2]
                for _ in range(16):
                    nxt = _subst(f[2], _DOC_LEAF, leaf, cur)
                    if nxt is None:
                        break
                    cur = nxt
                    cases.append("counts\t%s\t%s" % (f[1], cur))
            elif f[1] in ("subset", "merger"):
                ca, cb = f[2], f[3]
                for _ in range(16):
                    na, nb = _subst(f[2], _SH_LEAF, leaf, ca), _subst(f[3], _SH_LEAF, leaf, cb)
                    if na is None or nb is None:
                        break
                    try:
                        ca, cb = sh_str(vlib.norm_sh(vlib.parse_sh(na))), sh_str(vlib.norm_sh(vlib.parse_sh(nb)))
                    except Exception:
                        break
                    cases.append("counts\t%s\t%s\t%s" % (f[1], ca, cb))
            for c in cases:                       # one level at a time: stop as soon as the count explodes (hang guard)
                r = ctx.impl([c])[0]
                tried += 1
                if not r.startswith("CNT "):
                    if r in ("HANG", "SKIPPED") or r.startswith("CRASH"):
                        ctx.fail("call does not return: " + r, c, {"nested_from": dis["case"], "series": series})
                    break
                series.append(sum(int(x) for x in r.split()[1:]))
                if series[-1] > 1500000:
                    break
            for i in range(2, len(series)):
                j = 2 * (i + 1) - 1
                if j < len(series) and not poly_ok(series[i], series[j], 50):
                    ctx.fail("recursive calls multiply with each level of nesting (the disagreeing case nested in its own leaf)",
                             cases[j], {"nested_from": dis["case"], "leaf": leaf, "levels": [i + 1, j + 1],
                                        "calls": [series[i], series[j]], "series": series})
                    break
            if ctx.failures:
                break
        if ctx.failures:
            break
    ctx.notes["amplification_cases"] = tried

def shape_families():
    """pairs of nested shapes (a, b) per depth on which is_subset holds / merger succeeds: the positive paths
    are where a repeated recursive test doubles the work per level"""
    num, st = ('#', False), ('S', False)
    def obj(d, leaf, opt=False):
        x = leaf
        for _ in range(d):
            x = ('O', opt, (('k', x), ('n', num)))
        return vlib.norm_sh(x)
    def arr(d, leaf):
        x = leaf
        for _ in range(d):
            x = ('A', False, x)
        return vlib.norm_sh(x)
    def tup(d, leaf):
        x = leaf
        for _ in range(d):
            x = ('T', False, (x, st))
        return vlib.norm_sh(x)
    def arrobj(d, leaf):
        x = leaf
        for _ in range(d):
            x = ('A', False, ('O', False, (('k', x), ('n', num))))
        return vlib.norm_sh(x)
    wide = ('U', False, (num, st))
    fams = {}
    for name, f in (("object", obj), ("array", arr), ("tuple", tup), ("array_of_objects", arrobj)):
        fams[name + "/same"] = [(f(d, num), f(d, num)) for d in range(1, 17)]
        fams[name + "/widened_leaf"] = [(f(d, num), f(d, wide)) for d in range(1, 17)]
    fams["object/optional_levels"] = [(obj(d, num), obj(d, num, True)) for d in range(1, 17)]
    return fams

def run(ctx):
    l1 = [sh_str(s) for s in vlib.level1()]
    nt = lambda l, r: r.split()[-1] not in ("0", "1")
    ctx.correspond(["counts\tsubset\t%s\t%s" % (a, b) for a in l1 for b in l1], "is_subset call counter vs subset_c (level-1 pairs)", nt)
    step = 1 if ctx.tier != "quick" else 2
    ctx.correspond(["counts\tmerger\t%s\t%s" % (a, b) for a in l1[::step] for b in l1[::step]],
                   "merger / is_subset call counters vs merger_c (level-1 pairs)", lambda l, r: r != "CNT 0 0 1 0")
    deep = [vlib.rand_shape(ctx.rng, 4) for _ in range(2000 if ctx.tier == "quick" else 40000)]
    lines = []
    for a, b in vlib.scale_shape_pairs():              # scale / rare-feature stream first: the bound oracle below judges it
        lines += ["counts\tsubset\t%s\t%s" % (a, b), "counts\tmerger\t%s\t%s" % (a, b)]
    n_scale = len(lines)
    for s in deep:
        t = vlib.mutate_shape(ctx.rng, s)
        lines += ["counts\tsubset\t%s\t%s" % (sh_str(s), sh_str(t)), "counts\tsubset\t%s\t%s" % (sh_str(t), sh_str(s)),
                  "counts\tsubset\t%s\t%s" % (sh_str(s), sh_str(s)),
                  "counts\tmerger\t%s\t%s" % (sh_str(s), sh_str(t)), "counts\tmerger\t%s\t%s" % (sh_str(s), sh_str(s))]
    for a, b in vlib.structured_pairs(stride=1 if ctx.tier != 'quick' else 2):
        lines += ["counts\tsubset\t%s\t%s" % (sh_str(a), sh_str(b)), "counts\tmerger\t%s\t%s" % (sh_str(a), sh_str(b))]
    ctx.correspond(lines, "call counters vs twins on random related deep pairs + structured level-2 pairs", nt)
    docs = [d for d in vlib.doc_pool_small()[::3] + list(vlib.BASE_DOCS) if vlib.nodup_doc(d)]
    docs += [vlib.rand_doc(ctx.rng, 5) for _ in range(1500)]
    docs += [nest_tuple(d) for d in range(1, 12)] + [nest_obj(d) for d in range(1, 8)] + [nest_arrobj(d) for d in range(1, 7)]
    docs = [d for d in docs if vlib.nodup_doc(d)]
    ds = list(dict.fromkeys(doc_str(d) for d in docs))
    ctx.correspond(["counts\tinfer_text\t" + d for d in ds], "parse_rule call counter vs node count", nt)
    ctx.correspond(["counts\tinfer_value\t" + d for d in ds], "From<&Value> call counter vs node count", nt)
    # ---- the proved bounds, re-tested on the implementation's own counters (concrete failing input when a
    #      rewrite multiplies the work): C12_subset_calls  calls <= |a|*|b|;  C12_merger_calls  merger calls
    #      <= min(|a|,|b|), subset calls <= 2|a||b|
    fams = shape_families()
    flines, fkeys, fout = [], [], []
    for k, prs in fams.items():
        for op in ("subset", "merger"):
            for d, (a, b) in enumerate(prs):     # one depth at a time: stop a family once it explodes (hang guard)
                l = "counts\t%s\t%s\t%s" % (op, sh_str(a), sh_str(b))
                r = ctx.impl([l])[0]
                flines.append(l); fkeys.append((k, op, d + 1)); fout.append(r)
                if not r.startswith("CNT ") or max(int(x) for x in r.split()[1:]) > 2000000:
                    break
    bound_lines = [l for l in lines if l.startswith("counts\tsubset") or l.startswith("counts\tmerger")][:n_scale + 6000] + flines
    shapes = sorted({x for l in bound_lines for x in l.split("\t")[2:4]})
    sz = dict(zip(shapes, (int(r.split()[1]) for r in ctx.model(["size\t" + x for x in shapes]))))
    bres = ctx.impl(bound_lines[:len(bound_lines) - len(flines)]) + fout[:len(flines)]
    worst = 0.0
    for l, r in zip(bound_lines, bres):
        if not r.startswith("CNT "):
            if r in ("HANG", "SKIPPED") or r.startswith("CRASH"):
                ctx.fail("call does not return: " + r, l, r)
            continue
        c = [int(x) for x in r.split()[1:]]
        _, op, a, b = l.split("\t")
        sa, sb = sz[a], sz[b]
        if op == "subset":
            worst = max(worst, c[3] / (sa * sb))
            if c[3] > sa * sb:
                ctx.fail("is_subset makes more recursive calls than the proved bound |a|*|b| (C12_subset_calls)", l,
                         {"calls": c[3], "size_a": sa, "size_b": sb})
        else:
            if c[2] > min(sa, sb) or c[3] > 2 * sa * sb:
                ctx.fail("merger makes more recursive calls than the proved bounds min(|a|,|b|) / 2|a||b| (C12_merger_calls)", l,
                         {"merger_calls": c[2], "subset_calls": c[3], "size_a": sa, "size_b": sb})
    ctx.notes["subset_calls_over_bound_max_ratio"] = round(worst, 4)
    cf = {}
    for (k, op, d), r in zip(fkeys, fout):
        if r.startswith("CNT "):
            c = [int(x) for x in r.split()[1:]]
            cf.setdefault("%s/%s" % (op, k), []).append(c[3] if op == "subset" else c[2] + c[3])
    ctx.notes["call_counts_by_depth"] = cf
    for k, v in cf.items():
        for i in range(2, len(v)):
            j = 2 * (i + 1) - 1
            if j < len(v) and not poly_ok(v[i], v[j], 50):
                ctx.fail("recursive calls grow faster than quadratically with nesting depth", k, {"depth": [i + 1, j + 1], "calls": [v[i], v[j]], "series": v})
                break
    # ---- violation search when the counter correspondence broke without a failing input so far
    if ctx.disagreements and not ctx.failures:
        amplify(ctx)
    # ---- allocation families (implementation only)
    fam = {}
    depths = list(range(1, 21))
    for name, gen in (("tuple", nest_tuple), ("object", nest_obj), ("array_of_objects", nest_arrobj)):
        ds_ = [doc_str(gen(d)) for d in (depths if name == "tuple" else depths[:12])]
        for op in ("from_str", "from_value"):
            series = []
            for d in ds_:          # one depth at a time: stop as soon as the count explodes (hang guard)
                series.append(int(ctx.impl(["allocs\t%s\t%s" % (op, d)])[0].split()[1]))
                if series[-1] > 300000:
                    break
            fam["%s/%s/depth" % (op, name)] = series
    widths = [10, 100, 1000, 10000] if ctx.tier != "quick" else [10, 100, 1000, 4000]
    for name, gen in (("array", lambda w: ['1'] * (w - 1) + ['s']), ("object", lambda w: tuple(("k%d" % i, '1') for i in range(w))),
                      ("array_of_objects", lambda w: [(("a", '1'), ("k%d" % (i % 7), 's')) for i in range(w)])):
        ds_ = [doc_str(gen(w)) for w in widths]
        for op in ("from_str", "from_value"):
            out = ctx.impl(["allocs\t%s\t%s" % (op, d) for d in ds_])
            fam["%s/%s/width" % (op, name)] = [int(x.split()[1]) for x in out]
    ns = [10, 100, 1000] if ctx.tier != "quick" else [10, 100, 400]
    srcs = [doc_str(vlib.rand_doc(ctx.rng, 3)) for _ in range(50)]
    out = ctx.impl(["allocs\tfrom_sources\t" + "\t".join(srcs[i % 50] for i in range(n)) for n in ns])
    fam["from_sources/n"] = [int(x.split()[1]) for x in out]
    big = [sh_str(vlib.norm_sh(('U', False, tuple(('O', False, (('a', ('#', False)), ('k%d' % i, ('S', False)))) for i in range(w))))) for w in (8, 16, 32, 64)]
    out = ctx.impl(["allocs\tsubset\t%s\t%s" % (b, b) for b in big])
    fam["is_subset/oneof_width"] = [int(x.split()[1]) for x in out]
    ctx.notes["allocations"] = fam
    for k, v in fam.items():
        if k.endswith("/depth"):
            # doubling the depth may at most quadruple the allocations
            for i in range(len(v)):
                j = 2 * (i + 1) - 1
                if j < len(v) and i >= 2 and not poly_ok(v[i], v[j]):
                    ctx.fail("allocations grow faster than quadratically with nesting depth", k, {"depth": [i + 1, j + 1], "allocs": [v[i], v[j]], "series": v})
                    break
            if len(v) >= 3 and v[-1] > 3 * v[-2] and v[-2] > 1000:
                ctx.fail("allocations multiply with each nesting level", k, {"series": v})
        elif k.endswith("/width") or k == "from_sources/n":
            xs = widths if k.endswith("/width") else ns
            for i in range(len(v) - 1):
                ratio = xs[i + 1] / xs[i]
                if v[i + 1] > (ratio ** 2) * v[i] + 400:
                    ctx.fail("allocations grow faster than quadratically with width / number of sources", k, {"n": xs, "allocs": v})
                    break
        else:
            for i in range(len(v) - 1):
                if v[i + 1] > 8 * v[i] + 400:
                    ctx.fail("allocations of is_subset grow faster than cubically", k, {"series": v})
                    break

def replay(rp):
    lines = [f["input"] for f in rp.get("failures", [])] + [d["case"] for d in rp.get("disagreements", [])]
    lines = [l for l in lines if "\t" in l]
    mi, mm = vlib.run_impl(lines), vlib.run_model(lines)
    for l, a, b in zip(lines, mi, mm):
        print("%s\n  impl : %s\n  model: %s" % (l, a, b))
    return 1 if rp.get("failures") or lines else 0
