"""C02 — validation never accepts what the shape does not admit."""
import vlib
from vlib import sh_str, parse_sh, doc_str

RULE = ("correspondence: is_subset on all 103041 ordered level-1 pairs and random related deep pairs; is_superset / "
        "is_superset_checked on (shape, document) pairs. oracle: for every pair the implementation accepts, witness "
        "documents of the left shape (validated by Sem.mem) must be admitted by the right shape; an accepted document "
        "must be a member. non-trivial = accepted pair with distinct operands; distinct = distinct case line")
ASSUMPTIONS = ["documents are rendered canonically; the text level is covered by C04",
               "known class KF1 (inherited by the superset corollary) decided by the extracted conflict_free predicate"]

def run(ctx):
    l1 = vlib.level1()
    l1s = [sh_str(s) for s in l1]
    lines = ["subset\t%s\t%s" % (a, b) for a in l1s for b in l1s]
    nt = lambda l, r: r == "BOOL 1" and l.split("\t")[1] != l.split("\t")[2]
    mi, _ = ctx.correspond(lines, "is_subset level-1 pairs", nt)
    n_rand = 3000 if ctx.tier == "quick" else 60000
    deep = [vlib.rand_shape(ctx.rng, 4) for _ in range(n_rand)]
    rel = []
    for s in deep:
        t = vlib.mutate_shape(ctx.rng, s)
        rel += [(s, t), (t, s)]
    # widening mutations that is_subset should often accept
    for s in deep[: n_rand // 2]:
        rel.append((s, ('U', False, (s, ('N',)))))
        rel.append((s, ('A', False, s)) if False else (('A', False, s), ('A', True, ('U', False, (s, ('#', False))))))
        if s[0] == 'T':
            rel.append((s, ('A', s[1], ('U', False, tuple(s[2])))))
            rel.append((('T', True, s[2]), ('A', False, ('U', False, tuple(s[2])))))
    rel = [(vlib.norm_sh(a), vlib.norm_sh(b)) for a, b in rel] + vlib.structured_pairs(stride=1 if ctx.tier != 'quick' else 2)
    rel += [(parse_sh(a), parse_sh(b)) for a, b in vlib.scale_shape_pairs()]      # scale / rare-feature stream
    lines2 = ["subset\t%s\t%s" % (sh_str(a), sh_str(b)) for a, b in rel]
    mi2, _ = ctx.correspond(lines2, "is_subset random related deep pairs + structured level-2 pairs", nt)
    # ---- oracle: accepted pairs, witnesses of a against b
    acc = [(a, b, l) for (a, b), l, r in zip([(x, y) for x in l1 for y in l1], lines, mi) if r == "BOOL 1"]
    acc += [(a, b, l) for (a, b), l, r in zip(rel, lines2, mi2) if r == "BOOL 1"]
    wit = vlib.validated_witnesses([a for a, _, _ in acc], cap=10)
    q, meta = [], []
    for a, b, l in acc:
        for w in wit[sh_str(a)]:
            q.append("mem\t%s\t%s" % (w, sh_str(b))); meta.append((l, w))
    for (l, w), ok in zip(meta, vlib.model_bools(q)):
        if not ok:
            ctx.fail("is_subset accepted a pair although a document of the left shape is rejected by the right shape",
                     l, {"document": w})
    ctx.notes["accepted_pairs"] = len(acc)
    ctx.notes["witness_checks"] = len(q)
    # ---- superset queries
    docs = [doc_str(d) for d in vlib.BASE_DOCS] + [doc_str(vlib.rand_doc(ctx.rng, 3)) for _ in range(300)]
    docs = list(dict.fromkeys(docs))
    shapes = l1[::3] + deep[:300]
    # shapes inferred from the documents themselves (and merges) make acceptance likely
    inf = ctx.impl(["from_sources\t%s\t%s" % (d, e) for d in docs[:60] for e in docs[:60:7]])
    shapes += [parse_sh(r[3:]) for r in inf if r.startswith("OK ")]
    shapes = list({sh_str(s): s for s in shapes}.values())
    pairs = [(s, d) for s in shapes for d in ctx.rng.sample(docs, 25)]
    fams, pools_ = vlib.scale_families(), vlib.scale_shape_pools()
    pairs += [(parse_sh(t), doc_str(d)) for k in fams for t in pools_.get(k, []) for d in fams[k]]   # shape x document inside a scale family
    ls = ["superset\t%s\t%s" % (sh_str(s), d) for s, d in pairs]
    lc = ["superset_checked\t%s\t%s" % (sh_str(s), d) for s, d in pairs]
    r1, _ = ctx.correspond(ls, "is_superset", lambda l, r: r == "BOOL 1")
    r2, _ = ctx.correspond(lc, "is_superset_checked", lambda l, r: r == "BOOL 1")
    q, meta = [], []
    for (s, d), l, a, b in zip(pairs, ls, r1, r2):
        if a is None:
            continue
        if a != b and not (b.startswith("ERR") and a == "BOOL 0"):
            ctx.fail("is_superset and is_superset_checked disagree", l, [a, b])
        if a == "BOOL 1":
            q.append("mem\t%s\t%s" % (d, sh_str(s))); meta.append((l, d))
    bad = [m for m, ok in zip(meta, vlib.model_bools(q)) if not ok]
    if bad:
        cf = vlib.model_bools(["conflict_free\t" + d for _, d in bad])
        for (l, d), ok in zip(bad, cf):
            ctx.fail("is_superset accepted a document the shape does not admit", l, {"document": d},
                     known=None if ok else "KF1")
    ctx.notes["superset_accepts"] = len(q)

def replay(rp):
    lines = [f["input"] for f in rp.get("failures", [])] + [d["case"] for d in rp.get("disagreements", [])]
    mi, mm = vlib.run_impl(lines), vlib.run_model(lines)
    for l, a, b in zip(lines, mi, mm):
        print("%s\n  impl : %s\n  model: %s" % (l, a, b))
    return 1 if lines else 0
