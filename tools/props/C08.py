"""C08 — merging follows the documented algebra."""
import vlib
from vlib import sh_str, parse_sh, doc_str, kb

RULE = ("correspondence: merger on all 103041 ordered level-1 pairs (both orders) and random related deep pairs; from_sources on "
        "document pairs. oracle on the implementation: idempotence from_sources([d,d])==from_str(d); null absorption on both "
        "sides == optional form; order-insensitivity by witness documents of either result (validated by Sem.mem) checked "
        "against the other; object/array/scalar structure equations recomputed from from_sources of the parts, and at the shape "
        "level on single-member objects over all level-1 member shapes (one-sided member = optional form, common member = the "
        "implementation's own merger of the two). non-trivial = "
        "pair of distinct documents/shapes whose merge is a container; distinct = distinct case line")
ASSUMPTIONS = ["documents rendered canonically", "as_optional recomputed on the check side by flipping the top flag"]

def as_opt(s):
    return s if s[0] == 'N' else (s[0], True) + tuple(s[2:])

def run(ctx):
    l1 = vlib.level1()
    l1s = [sh_str(s) for s in l1]
    lines = ["merger\t%s\t%s" % (a, b) for a in l1s for b in l1s]
    mi, _ = ctx.correspond(lines, "merger level-1 pairs", lambda l, r: l.split("\t")[1] != l.split("\t")[2] and r[3:4] in "ATUO")
    n = len(l1s)
    res = {}
    for i, a in enumerate(l1s):
        for j, b in enumerate(l1s):
            res[(i, j)] = mi[i * n + j]
    if mi[0] is None:
        return
    # shape-level laws on the implementation
    for i, s in enumerate(l1):
        if res[(i, i)] != "OK " + l1s[i]:
            ctx.fail("merger(s, s) is not s", lines[i * n + i], res[(i, i)])
        exp = "OK " + sh_str(as_opt(s))
        if res[(i, 0)] != exp or res[(0, i)] != exp:      # l1[0] is Null
            ctx.fail("merging with null is not the optional form", lines[i * n], [res[(i, 0)], res[(0, i)]])
    # order-insensitivity: witnesses of merger(a,b) against merger(b,a)
    pairs = [(i, j) for i in range(n) for j in range(i + 1, n) if res[(i, j)] != res[(j, i)]]
    ctx.notes["level1_pairs_with_syntactically_different_orders"] = len(pairs)
    step = 1 if ctx.tier != "quick" else 3
    sample = [(i, j) for i in range(n) for j in range(i + 1, n)][::step] + pairs
    shapes = {}
    for i, j in sample:
        for r in (res[(i, j)], res[(j, i)]):
            if r.startswith("OK "):
                shapes[r[3:]] = parse_sh(r[3:])
    wit = vlib.validated_witnesses(list(shapes.values()), cap=8)
    q, meta = [], []
    for i, j in sample:
        x, y = res[(i, j)], res[(j, i)]
        if not (x.startswith("OK ") and y.startswith("OK ")):
            ctx.fail("merger did not return Ok", lines[i * n + j], [x, y]); continue
        if x == y:
            continue
        for w in wit[x[3:]]:
            q.append("mem\t%s\t%s" % (w, y[3:])); meta.append((lines[i * n + j], w, x, y))
        for w in wit[y[3:]]:
            q.append("mem\t%s\t%s" % (w, x[3:])); meta.append((lines[j * n + i], w, y, x))
    for (l, w, x, y), ok in zip(meta, vlib.model_bools(q)):
        if not ok:
            ctx.fail("the two merge orders do not admit the same documents", l, {"document": w, "this order": x, "other order": y})
    ctx.notes["order_witness_checks"] = len(q)
    # ---- structure equations at the SHAPE level (the theorems' own statements, on the implementation's merger):
    #      Object{k:x} + Object{}      = Object{k: optional form of x}          (one-sided key, both orders)
    #      Object{k:x} + Object{k:y}   = Object{k: merger(x, y)}                (common key; merger(x,y) as the
    #                                                                             implementation itself answers it)
    ob = lambda t: "O0{6b:%s}" % t
    q = []
    for x in l1:
        q += ["merger\t%s\tO0{}" % ob(sh_str(x)), "merger\tO0{}\t%s" % ob(sh_str(x))]
    sub = list(range(0, n, 5 if ctx.tier == "quick" else 1))
    cq = ["merger\t%s\t%s" % (ob(l1s[i]), ob(l1s[j])) for i in sub for j in sub]
    ro, _ = ctx.correspond(q + cq, "merger on single-member objects (structure equations)", lambda l, r: True)
    if ro and ro[0] is not None:
        for i, x in enumerate(l1):
            exp = "OK " + ob(sh_str(as_opt(x)))
            for r, l in ((ro[2 * i], q[2 * i]), (ro[2 * i + 1], q[2 * i + 1])):
                if r != exp:
                    ctx.fail("a one-sided member does not carry the optional form of its shape", l, {"got": r, "expected": exp})
        k = len(q)
        for jj, (i, j) in enumerate([(i, j) for i in sub for j in sub]):
            inner = res[(i, j)]
            exp = ("OK " + ob(inner[3:])) if inner.startswith("OK ") else inner
            if ro[k + jj] != exp:
                ctx.fail("a common member does not carry the merge of the two member shapes", cq[jj], {"got": ro[k + jj], "expected": exp})
    # random related deep pairs, both orders
    deep = [vlib.rand_shape(ctx.rng, 3) for _ in range(1500 if ctx.tier == "quick" else 30000)]
    rel = [(s, vlib.mutate_shape(ctx.rng, s)) for s in deep] + vlib.structured_pairs(stride=1 if ctx.tier != 'quick' else 3)[::2]
    l2 = []
    for a, b in rel:
        l2 += ["merger\t%s\t%s" % (sh_str(a), sh_str(b)), "merger\t%s\t%s" % (sh_str(b), sh_str(a)),
               "merger\t%s\t%s" % (sh_str(a), sh_str(a))]
    m2, _ = ctx.correspond(l2, "merger random related deep pairs", lambda l, r: True)
    if m2[0] is not None:
        shapes = {}
        for r in m2:
            if r.startswith("OK "):
                shapes.setdefault(r[3:], parse_sh(r[3:]))
        wit = vlib.validated_witnesses(list(shapes.values()), cap=6)
        q, meta = [], []
        for k, (a, b) in enumerate(rel):
            x, y, z = m2[3 * k], m2[3 * k + 1], m2[3 * k + 2]
            if z != "OK " + sh_str(a):
                ctx.fail("merger(s, s) is not s", l2[3 * k + 2], z)
            if x.startswith("OK ") and y.startswith("OK ") and x != y:
                for w in wit[x[3:]]:
                    q.append("mem\t%s\t%s" % (w, y[3:])); meta.append((l2[3 * k], w, x, y))
                for w in wit[y[3:]]:
                    q.append("mem\t%s\t%s" % (w, x[3:])); meta.append((l2[3 * k + 1], w, y, x))
        for (l, w, x, y), ok in zip(meta, vlib.model_bools(q)):
            if not ok:
                ctx.fail("the two merge orders do not admit the same documents", l, {"document": w, "this order": x, "other order": y})
    # ---- document level
    base = list(vlib.BASE_DOCS) + [vlib.rand_doc(ctx.rng, 3) for _ in range(150 if ctx.tier == "quick" else 1500)]
    base = [d for d in base if vlib.nodup_doc(d)]
    fams = {k: list(dict.fromkeys(doc_str(d) for d in f)) for k, f in vlib.scale_families().items()}
    base += [d for f in vlib.scale_families().values() for d in f]          # scale / rare-feature stream, appended last
    bs = list(dict.fromkeys(doc_str(d) for d in base))
    single = dict(zip(bs, ctx.impl(["infer_text\t" + d for d in bs])))
    ls = []
    for d in bs:
        ls += ["from_sources\t%s\t%s" % (d, d), "from_sources\t%s\tn" % d, "from_sources\tn\t%s" % d]
    out, _ = ctx.correspond(ls, "from_sources idempotence/null cases", lambda l, r: True)
    for k, d in enumerate(bs):
        s = single[d]
        if not s.startswith("OK ") or out[0] is None:
            continue
        if out[3 * k] != s:
            ctx.fail("from_sources([d,d]) != from_str(d)", ls[3 * k], [out[3 * k], s])
        exp = "OK " + sh_str(as_opt(parse_sh(s[3:])))
        if out[3 * k + 1] != exp or out[3 * k + 2] != exp:
            ctx.fail("from_sources with null is not the optional form of from_str(d)", ls[3 * k + 1], [out[3 * k + 1], out[3 * k + 2], exp])
    # pairs: order-insensitive; wrapped pairs: object member / array element structure
    bsub = bs[: (70 if ctx.tier == "quick" else 200)]
    pairs = [(d, e) for d in bsub for e in bsub if d < e]
    pairs += [(d, e) for f in fams.values() for d in f for e in f if d < e]  # related wide / deep documents
    ls = []
    for d, e in pairs:
        ls += ["from_sources\t%s\t%s" % (d, e), "from_sources\t%s\t%s" % (e, d),
               "from_sources\t{6b:%s,78:1}\t{6b:%s,79:s}" % (d, e),
               "from_sources\t[%s,%s]\t[%s]" % (d, d, e)]
    out, _ = ctx.correspond(ls, "from_sources on pairs and wrapped pairs", lambda l, r: r[3:4] in "ATUO")
    if out and out[0] is not None:
        shapes = {}
        for r in out:
            if r.startswith("OK "):
                shapes.setdefault(r[3:], None)
        for t in shapes:
            shapes[t] = parse_sh(t)
        wit = vlib.validated_witnesses(list(shapes.values()), cap=6)
        q, meta = [], []
        for k, (d, e) in enumerate(pairs):
            x, y, o, a = out[4 * k: 4 * k + 4]
            if not (x.startswith("OK ") and y.startswith("OK ")):
                ctx.fail("from_sources failed on valid documents", ls[4 * k], [x, y]); continue
            if x != y:
                for w in wit[x[3:]]:
                    q.append("mem\t%s\t%s" % (w, y[3:])); meta.append((ls[4 * k], w, x, y))
                for w in wit[y[3:]]:
                    q.append("mem\t%s\t%s" % (w, x[3:])); meta.append((ls[4 * k + 1], w, y, x))
            sx = shapes[x[3:]]
            # {k:d,x:1} + {k:e,y:"s"} : k carries merge(d,e); x, y carry the optional form
            if o.startswith("OK "):
                so = parse_sh(o[3:])
                exp = ('O', False, ((b'k', sx), (b'x', ('#', True)), (b'y', ('S', True))))
                if so != exp:
                    ctx.fail("merged objects: common key is not the merge of the values / one-sided key not optional",
                             ls[4 * k + 2], {"got": o, "expected": sh_str(exp)})
            # [[d,d],[e]] : Array of the merged element shapes
            if a.startswith("OK "):
                sa = parse_sh(a[3:])
                exp = ('A', False, sx)
                if sa != exp:
                    ctx.fail("merged homogeneous arrays are not the array of the merged element shapes",
                             ls[4 * k + 3], {"got": a, "expected": sh_str(exp)})
        for (l, w, x, y), ok in zip(meta, vlib.model_bools(q)):
            if not ok:
                ctx.fail("from_sources([d,e]) and from_sources([e,d]) do not admit the same documents", l,
                         {"document": w, "this order": x, "other order": y})
    # scalar kinds: exactly the OneOf of the two
    sc = [('B', False), ('#', False), ('S', False)]
    docs = {'B': 't', '#': '1', 'S': 's'}
    for a in sc:
        for b in sc:
            if a != b:
                r = ctx.impl(["from_sources\t%s\t%s" % (docs[a[0]], docs[b[0]])])[0]
                exp = "OK " + sh_str(vlib.norm_sh(('U', False, (a, b))))
                if r != exp:
                    ctx.fail("two different scalar kinds do not merge to exactly their OneOf", "from_sources\t%s\t%s" % (docs[a[0]], docs[b[0]]), [r, exp])

def replay(rp):
    lines = [f["input"] for f in rp.get("failures", [])] + [d["case"] for d in rp.get("disagreements", [])]
    mi, mm = vlib.run_impl(lines), vlib.run_model(lines)
    for l, a, b in zip(lines, mi, mm):
        print("%s\n  impl : %s\n  model: %s" % (l, a, b))
    return 1 if lines else 0
