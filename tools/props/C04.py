"""C04 — parsing accepts exactly the JSON language (RFC 8259, +- duplicate conflict, +- depth 256)."""
import vlib, textlib
from textlib import hx

RULE = ("correspondence: tokens hook (kinds, byte spans, diagnostic count), the CST, from_str, from_sources on text tuples, "
        "is_superset / is_superset_checked, all against the extracted lexer/parser/walk model, over the text stream of "
        "DESIGN 4.3 (rendered documents with independent per-token choices: four whitespace characters incl. bare CR and "
        "CRLF, every RFC number form, every escape, raw non-ASCII, surrogate escapes, duplicate member names; every prefix "
        "and single-character deletion, sampled insertions/substitutions; hand-written grammar negatives; nesting "
        "1..300 in six families; arbitrary Unicode). oracle: acceptance by the implementation (from_str, from_sources of "
        "one source, is_superset_checked; is_superset must answer false on non-JSON) must equal `ref_json accepts and depth "
        "<= 256 and duplicates consistent`, where ref_json is the extracted naive RFC 8259 recogniser of Model/JsonRef.v; "
        "an input counts as failing only if serde_json (second recogniser) agrees with ref_json or the disagreement is one "
        "of serde_json's documented deviations (recursion limit 128, lone surrogate escapes, numbers outside f64); the "
        "model with both fixes switched on (cfg_fixed) must equal the reference on every input (tested form of C04_main). "
        "known classes: F2 = diag_dropped, F3 = cr_rejected (extracted from Model/TextClasses.v, the predicates of the "
        "_refuted theorems). non-trivial = a text the reference accepts that is not a bare scalar, or a text whose "
        "rejection is decided by the parser or walk (a token list without Error tokens); distinct = distinct text")
ASSUMPTIONS = ["member names are compared by their raw spelling between the quotes (what the text path stores); F11/C06 covers decoded names",
               "texts are valid UTF-8 (Rust &str): byte sequences that are not UTF-8 cannot reach the API",
               "serde_json is a second opinion only: where it deviates from RFC 8259 for a documented reason ref_json decides"]

def oracle_fields(line):
    d = dict(kv.split("=") for kv in line.split(" ")[1:])
    ref = d["ref"]
    depth = None if ref == "NONE" else int(ref.split(":")[0])
    return depth, d["expect"] == "1", d["fixed"] == "1", d["dropped"] == "1", d["cr"] == "1"

def run(ctx):
    quick = ctx.tier == "quick"
    st = textlib.text_stream(ctx.rng, 3000 if quick else 30000, 300 if quick else 3000, 15000 if quick else 150000)
    texts = [t for _, t in st]
    cls = [c for c, _ in st]
    classes = {}
    for c in cls:
        classes[c] = classes.get(c, 0) + 1
    ctx.notes["text_classes"] = classes
    H = [hx(t) for t in texts]
    # ---- correspondence
    tk, _ = textlib.correspond(ctx, ["tokens\t" + h for h in H], "tokens hook on the text stream")
    textlib.correspond(ctx, ["parse\t" + hx(t) for t in textlib.cst_subset(texts)], "CST on the text stream", canon=textlib.canon_cst)
    fs, _ = textlib.correspond(ctx, ["from_str\t" + h for h in H], "from_str on the text stream")
    seqs = [[ctx.rng.choice(texts) for _ in range(ctx.rng.choice([1, 2, 3]))] for _ in range(800 if quick else 20000)]
    textlib.correspond(ctx, ["from_sources_text" + "".join("\t" + hx(t) for t in s) for s in seqs],
                       "from_sources on text tuples")
    # multiple sources: the list is accepted iff every member is - also when a member is a padded / altered copy
    # of an earlier one (anything that remembers sources by a normalised form must not confuse them)
    PAD = ["\u000b", "\u000c", "\u0085", "\u00a0", "\u2028", "\u2029", "\u3000", "\ufeff", "\u200b", "\u0000", "x", ",", " ", "\n", "\r\n", "\t"]
    good = [t for t, r in zip(texts, fs) if r is not None and r.startswith("OK ")]
    rel = []
    for t in ctx.rng.sample(good, min(len(good), 120 if quick else 1500)):
        for c in ctx.rng.sample(PAD, 5):
            v = ctx.rng.choice([t + c, c + t, t + c + c, t.rstrip() + c, t + " " + c])
            rel += [[t, v], [v, t], [t, t, v]]
    rel += [[ctx.rng.choice(good)] * n for n in (2, 3, 17, 65)]
    flat = sorted({x for s_ in rel + seqs for x in s_})
    single = dict(zip(flat, ctx.impl(["from_str\t" + hx(x) for x in flat])))
    rl = ["from_sources_text" + "".join("\t" + hx(t) for t in s_) for s_ in rel]
    rr, _ = textlib.correspond(ctx, rl, "from_sources on a text and its padded / altered copies")
    sl = ["from_sources_text" + "".join("\t" + hx(t) for t in s_) for s_ in seqs]
    for s_, l, r in zip(rel + seqs, rl + sl, list(rr) + ctx.impl(sl)):
        want = all(single[x].startswith("OK ") for x in s_)
        if r.startswith("OK ") != want:
            ctx.fail("from_sources accepts a list although one of its texts is rejected on its own" if not want else
                     "from_sources rejects a list of texts each of which is accepted on its own", l,
                     {"texts": [x[:80] for x in s_], "alone": [single[x][:60] for x in s_], "together": r[:80]})
    ctx.notes["related_source_lists"] = len(rel)
    sup = []
    for t in ctx.rng.sample(texts, min(len(texts), 800 if quick else 20000)):
        sh = ctx.rng.choice(textlib.SHAPES_FOR_SUPERSET)
        sup += ["superset_text\t%s\t%s" % (sh, hx(t)), "superset_checked_text\t%s\t%s" % (sh, hx(t))]
    textlib.correspond(ctx, sup, "is_superset / is_superset_checked on shape x text")
    # ---- oracles
    orc = ctx.model(["c04\t" + h for h in H])
    serde = ctx.impl(["serde_ok\t" + h for h in H])
    one = ctx.impl(["from_sources_text\t" + h for h in H])
    chk = ctx.impl(["superset_checked_text\tN\t" + h for h in H])
    supn = ctx.impl(["superset_text\tN\t" + h for h in H])
    # is_superset against the shape of the RECOVERED tree (what from_str would answer if the parser's
    # diagnostics were ignored: model run with the F2 switch off): must be false for every rejected text
    rec = ctx.model(["from_str\t%s\tf3" % h for h in H])
    recq = [("superset_text\t%s\t%s" % (r[3:], h)) if (r.startswith("OK ") and not fs[i].startswith("OK ")) else None
            for i, (h, r) in enumerate(zip(H, rec))]
    rec_res = ctx.impl([l for l in recq if l])
    for l, r in zip([l for l in recq if l], rec_res):
        if r != "BOOL 0":
            ctx.fail("is_superset answers true for a text that from_str rejects (asked against the shape of the recovered tree)",
                     l, {"text": textlib.unhx(l.split("\t")[2])[:200], "answer": r})
    ctx.notes["is_superset_recovered_shape_probes"] = len(rec_res)
    own = []       # is_superset against the text's own inferred shape
    for h, r in zip(H, fs):
        own.append("superset_text\t%s\t%s" % (r[3:], h) if r.startswith("OK ") else None)
    own_res = iter(ctx.impl([l for l in own if l]))
    sc_or = ctx.corr_scopes.setdefault("oracle agreement ref_json vs serde_json", {"cases": 0, "disagreements": 0})
    sc_fx = ctx.corr_scopes.setdefault("model with F2+F3 = RFC 8259 reference (C04_main, tested)", {"cases": 0, "disagreements": 0})
    stats = {"accepted_expected": 0, "rejected_expected": 0, "F2": 0, "F3": 0, "serde_deviation": {}}
    for i, (t, h) in enumerate(zip(texts, H)):
        depth, expect, fixed, dropped, cr = oracle_fields(orc[i])
        ref_ok = depth is not None
        s_ok = serde[i] == "BOOL 1"
        sc_or["cases"] += 1
        oracle_sound = True
        if s_ok != ref_ok:
            why = textlib.serde_deviation(t, depth) if (ref_ok and not s_ok) else None
            if why:
                stats["serde_deviation"][why] = stats["serde_deviation"].get(why, 0) + 1
            else:
                oracle_sound = False
                sc_or["disagreements"] += 1
                if len(ctx.disagreements) < 50:
                    ctx.disagreements.append({"scope": "oracle agreement ref_json vs serde_json", "case": "c04\t" + h,
                                              "text": t[:200], "model": orc[i], "impl": serde[i]})
        sc_fx["cases"] += 1
        if fixed != expect:
            sc_fx["disagreements"] += 1
            if len(ctx.disagreements) < 50:
                ctx.disagreements.append({"scope": "model with F2+F3 = RFC 8259 reference", "case": "c04\t" + h,
                                          "text": t[:200], "model": orc[i], "impl": "-"})
        acc = fs[i].startswith("OK ")
        # consistency of the entry points on the implementation
        if acc != one[i].startswith("OK "):
            ctx.fail("from_sources([t]) and from_str(t) disagree on acceptance", "from_str\t" + h, [fs[i][:80], one[i][:80]])
        if acc != chk[i].startswith("BOOL"):
            ctx.fail("is_superset_checked(t) and from_str(t) disagree on acceptance", "from_str\t" + h, [fs[i][:80], chk[i][:80]])
        if not acc and supn[i] != "BOOL 0":
            ctx.fail("is_superset answers true for a text from_str rejects", "superset_text\tN\t" + h, supn[i])
        own_true = (next(own_res) == "BOOL 1") if own[i] else False
        if not oracle_sound:
            continue
        if ref_ok and cls[i] != "seed" and t.strip(" \t\r\n")[:1] in "[{":
            ctx.nontrivial.add(h)
        elif "Error:" not in tk[i] and not ref_ok:
            ctx.nontrivial.add(h)
        if acc == expect:
            stats["accepted_expected" if acc else "rejected_expected"] += 1
        elif acc:
            known = "F2" if dropped else None
            stats["F2"] += bool(known)
            ctx.fail("a text that is not acceptable JSON is accepted" + ("" if ref_ok else " (not RFC 8259)"),
                     "from_str\t" + h, {"text": t[:200], "result": fs[i][:120], "oracle": orc[i]}, known=known)
            if not ref_ok and own_true:
                ctx.fail("is_superset answers true for a text that is not JSON", own[i],
                         {"text": t[:200]}, known=known)
        else:
            known = "F3" if cr else None
            stats["F3"] += bool(known)
            ctx.fail("an acceptable JSON text is rejected", "from_str\t" + h,
                     {"text": t[:200], "result": fs[i][:120], "oracle": orc[i]}, known=known)
    ctx.notes["oracle"] = stats

def replay(rp):
    lines = [f["input"] for f in rp.get("failures", [])] + [d["case"] for d in rp.get("disagreements", [])]
    mi, mm = vlib.run_impl(lines), vlib.run_model(lines)
    orc = vlib.run_model(["c04\t" + l.split("\t")[-1] for l in lines])
    for l, a, b, o in zip(lines, mi, mm, orc):
        print("%s\n  text : %r\n  impl : %s\n  model: %s\n  oracle: %s" % (l[:200], textlib.show_case(l), a[:300], b[:300], o))
    return 1 if lines else 0
