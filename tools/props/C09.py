"""C09 — accumulating sources converges."""
import vlib
from vlib import sh_str, parse_sh, doc_str, hexs

RULE = ("correspondence: merger on Array<level-1> x level-1 pairs (the arms that build element-type OneOfs) and random deep "
        "pairs; from_sources on h, h+[d], h+[d,d], h+[d,d,d] for random histories h with d inserted at a random position. "
        "oracle on the implementation: with d in h, from_sources(h+[d]*2) == from_sources(h+[d]*1) == from_sources(h+[d]*3) "
        "(syntactic), Display length constant in k, and meaning(from_sources(h+[d])) == meaning(from_sources(h)) by witness "
        "documents of either side validated by Sem.mem; the same meaning test for h+r with r ANY sequence over the documents of h (theorem C09_readd_any). non-trivial = history with >=2 distinct documents whose result is a "
        "container; distinct = distinct history")
ASSUMPTIONS = ["documents rendered canonically",
               "the theorem C09_readd covers every history and every position of d; the run-time part ties the model's "
               "from_sources / merger to /repo and re-tests the theorem's statement on the implementation's own outputs"]

def run(ctx):
    l1 = vlib.level1()
    arrs = [vlib.norm_sh(('A', o, x)) for x in l1 for o in (False, True)]
    tgt = [s for s in l1 if s[0] in 'TAU']
    lines = []
    for a in arrs[:: (1 if ctx.tier != "quick" else 2)]:
        for b in tgt[:: (1 if ctx.tier != "quick" else 2)]:
            lines.append("merger\t%s\t%s" % (sh_str(a), sh_str(b)))
            lines.append("merger\t%s\t%s" % (sh_str(b), sh_str(a)))
    ctx.correspond(lines, "merger Array<level-1> x level-1 tuples/arrays/oneofs", lambda l, r: True)
    # histories
    base = [doc_str(d) for d in vlib.BASE_DOCS]
    n = 2500 if ctx.tier == "quick" else 40000
    hs = []
    for _ in range(n):
        k = ctx.rng.choice([0, 1, 1, 2, 2, 3, 4])
        h = [ctx.rng.choice(base) if ctx.rng.random() < 0.7 else doc_str(vlib.rand_doc(ctx.rng, 3)) for _ in range(k)]
        d = ctx.rng.choice(base) if ctx.rng.random() < 0.8 else doc_str(vlib.rand_doc(ctx.rng, 3))
        h.insert(ctx.rng.randrange(len(h) + 1), d)
        hs.append((h, d))
    # all pairs of base documents as (h=[x,d] , d) and (h=[d,x], d)
    for x in base:
        for d in base[:: (1 if ctx.tier != "quick" else 3)]:
            hs.append(([x, d], d)); hs.append(([d, x], d))
    for f in vlib.scale_families().values():      # scale / rare-feature stream: the family as history, each member re-added
        fs = [doc_str(x) for x in f]
        for i, d in enumerate(fs):
            hs.append((fs[i:] + fs[:i], d))
    ls = []
    for h, d in hs:
        for k in range(4):
            ls.append("from_sources\t" + "\t".join(h + [d] * k))
    out, _ = ctx.correspond(ls, "from_sources on h, h+[d], h+[d,d], h+[d,d,d]",
                            lambda l, r: len(set(l.split("\t")[1:])) >= 2 and r[3:4] in "ATUO")
    if out and out[0] is None:
        return
    shapes = {}
    for r in out:
        if r.startswith("OK "):
            shapes.setdefault(r[3:], None)
    for t in shapes:
        shapes[t] = parse_sh(t)
    wit = vlib.validated_witnesses(list(shapes.values()), cap=6)
    disp = dict(zip(shapes, ctx.impl(["display\t" + t for t in shapes])))
    q, meta = [], []
    flips = 0
    for i, (h, d) in enumerate(hs):
        a0, a1, a2, a3 = out[4 * i: 4 * i + 4]
        if not all(x.startswith("OK ") for x in (a0, a1, a2, a3)):
            continue            # invalid history (duplicate conflict): outside the quantifier
        if a2 != a1 or a3 != a2:
            ctx.fail("adding a document that is already among the sources keeps changing the shape",
                     ls[4 * i + 2], {"k=0": a0, "k=1": a1, "k=2": a2, "k=3": a3})
        if len({len(disp[x[3:]]) for x in (a1, a2, a3)}) != 1:
            ctx.fail("size of the shape depends on the number of repetitions", ls[4 * i + 3], [a1, a2, a3])
        if a1 != a0:
            flips += 1
            for w in wit[a1[3:]]:
                q.append("mem\t%s\t%s" % (w, a0[3:])); meta.append((ls[4 * i + 1], w, a0, a1))
            for w in wit[a0[3:]]:
                q.append("mem\t%s\t%s" % (w, a1[3:])); meta.append((ls[4 * i + 1], w, a1, a0))
    for (l, w, x, y), ok in zip(meta, vlib.model_bools(q)):
        if not ok:
            ctx.fail("re-adding a source changed which documents the shape admits", l,
                     {"document": w, "rejected by": x, "admitted by": y})
    ctx.notes["histories"] = len(hs)
    ctx.notes["representation_changed_on_first_readd"] = flips
    ctx.notes["meaning_witness_checks"] = len(q)
    # ---- C09_readd_any: ANY re-additions of documents already among the sources (several, interleaved, any order)
    # never fail and never change which documents the shape admits
    hr = []
    for h, d in hs[:: (2 if ctx.tier == "quick" else 1)]:
        if len(h) >= 2:
            r = [ctx.rng.choice(h) for _ in range(ctx.rng.choice([2, 3, 4, 6]))]
            hr.append((h, r))
    l2 = []
    for h, r in hr:
        l2 += ["from_sources\t" + "\t".join(h), "from_sources\t" + "\t".join(h + r)]
    o2, _ = ctx.correspond(l2, "from_sources on h and h+r, r any sequence over the documents of h",
                           lambda l, r: len(set(l.split("\t")[1:])) >= 2 and r[3:4] in "ATUO")
    sh2 = {r[3:]: parse_sh(r[3:]) for r in o2 if r.startswith("OK ")}
    wit2 = vlib.validated_witnesses(list(sh2.values()), cap=5)
    q2, m2 = [], []
    for i, (h, r) in enumerate(hr):
        a0, a1 = o2[2 * i], o2[2 * i + 1]
        if not a0.startswith("OK "):
            continue            # invalid history: outside the quantifier
        if not a1.startswith("OK "):
            ctx.fail("re-adding documents that are already among the sources makes inference fail", l2[2 * i + 1], a1)
            continue
        if a1 != a0:
            for w in wit2[a1[3:]]:
                q2.append("mem\t%s\t%s" % (w, a0[3:])); m2.append((l2[2 * i + 1], w, a0, a1))
            for w in wit2[a0[3:]]:
                q2.append("mem\t%s\t%s" % (w, a1[3:])); m2.append((l2[2 * i + 1], w, a1, a0))
    for (l, w, x, y), ok in zip(m2, vlib.model_bools(q2)):
        if not ok:
            ctx.fail("re-adding several sources (interleaved) changed which documents the shape admits", l,
                     {"document": w, "rejected by": x, "admitted by": y})
    ctx.notes["interleaved_readd_histories"] = len(hr)
    ctx.notes["interleaved_readd_witness_checks"] = len(q2)
    # long repetition: growth must be bounded
    for h, d in [(["[1]", "[1,s]"], "[1,s]"), (["[1,s]", "[[],[]]"], "[[],[]]"), (["[1,s]", "[n,n]"], "[n,n]"),
                 (["{61:[1]}", "{61:[1,s]}"], "{61:[1,s]}"), (["[[1],[1,s]]"], "[[1,s],[1]]")]:
        rs = ctx.impl(["from_sources\t" + "\t".join(h + [d] * k) for k in (1, 2, 5, 12)])
        if len(set(rs)) != 1:
            ctx.fail("shape keeps growing with repetitions", "from_sources\t" + "\t".join(h + [d] * 12), rs)

def replay(rp):
    lines = [f["input"] for f in rp.get("failures", [])] + [d["case"] for d in rp.get("disagreements", [])]
    mi, mm = vlib.run_impl(lines), vlib.run_model(lines)
    for l, a, b in zip(lines, mi, mm):
        print("%s\n  impl : %s\n  model: %s" % (l, a, b))
    return 1 if lines else 0
