"""C06 — text-based and value-based inference agree."""
import vlib
from vlib import doc_str, hexs

RULE = ("correspondence: infer_text and infer_value (incl. JsonVisitor shape/value identity) on every document of "
        "nesting<=2,width<=2 and random deeper duplicate-free documents; oracle: on the implementation, from_str(text) == "
        "From<&Value>(serde_json::from_str(text)) on random renderings (whitespace, number forms, string escapes, raw "
        "non-ASCII, member order) of those documents. non-trivial = document containing an array or object of >=2 "
        "members; distinct = distinct case line / text")
ASSUMPTIONS = ["tree-level documents carry member names that need no escaping; names spelled with escapes are exercised at the text level "
               "(vlib.respell; the former finding KF5 was repaired by fix 86c1e00 and is no longer suppressed)",
               "serde_json built without preserve_order (Map = BTreeMap), as in /repo/Cargo.lock"]

def big(d):
    return (isinstance(d, list) or isinstance(d, tuple)) and len(d) >= 2

def run(ctx):
    docs = vlib.doc_pool_small()
    docs += [vlib.rand_doc(ctx.rng, 4) for _ in range(3000 if ctx.tier == "quick" else 60000)]
    docs += list(vlib.BASE_DOCS)
    docs += vlib.scale_docs()                     # wide / deep / long-key / odd-key documents
    docs = [d for d in docs if vlib.nodup_doc(d)]
    ds = list(dict.fromkeys(doc_str(d) for d in docs))
    nt = lambda l, r: r.startswith("OK") and r[3:4] in "ATO"
    a, _ = ctx.correspond(["infer_text\t" + d for d in ds], "from_str (tree level)", nt)
    b, _ = ctx.correspond(["infer_value\t" + d for d in ds], "From<&Value> + JsonVisitor (tree level)", nt)
    for d, x, y in zip(ds, a, b):
        if x is not None and x != y:
            ctx.fail("text path and value path give different shapes", "infer_text\t" + d, {"text": x, "value": y})
    # renderings
    pool = [d for d in docs if big(d)]
    ctx.rng.shuffle(pool)
    pool = pool[: (4000 if ctx.tier == "quick" else 60000)]
    texts = []
    for d in pool:
        dd = d
        if isinstance(d, tuple) and ctx.rng.random() < 0.5:
            dd = list(d); ctx.rng.shuffle(dd); dd = tuple(dd)
        texts.append(vlib.render_text(ctx.rng, dd))
    texts = list(dict.fromkeys(texts))
    r1 = ctx.impl(["from_str\t" + hexs(t) for t in texts])
    r2 = ctx.impl(["from_value_text\t" + hexs(t) for t in texts])
    for t, x, y in zip(texts, r1, r2):
        ctx.nontrivial.add("text " + t)
        if x != y:
            ctx.fail("from_str(text) differs from From<&Value>(serde_json(text))", "from_str\t" + hexs(t),
                     {"text": t, "from_str": x, "from_value": y})
    ctx.notes["renderings"] = len(texts)
    # member names spelled with escapes (every \\uXXXX form, surrogate pairs, two-character escapes): both paths must
    # read the same name, and the same name as the raw spelling gives
    n_sp = 0
    for d in vlib.key_docs():
        plain = vlib.render_text(ctx.rng, d)
        sp = [vlib.render_text(ctx.rng, d, keyf=lambda k: vlib.respell(ctx.rng, k)) for _ in range(4)]
        rs = ctx.impl(["from_str\t" + hexs(t) for t in [plain] + sp] + ["from_value_text\t" + hexs(t) for t in [plain] + sp])
        n_sp += len(sp)
        for t, x, y in zip([plain] + sp, rs[:5], rs[5:]):
            if x != y:
                ctx.fail("from_str(text) differs from From<&Value>(serde_json(text)) on a text whose member names use escapes",
                         "from_str\t" + hexs(t), {"text": t[:300], "from_str": x[:200], "from_value": y[:200]})
            elif x != rs[0]:
                ctx.fail("a member name spelled with escapes is read as a different name than its raw spelling",
                         "from_str\t" + hexs(t), {"text": t[:300], "escaped": x[:200], "raw": rs[0][:200]})
    # names that need an escape (quote, backslash, controls; a literal backslash followed by n / t / u0041 / ")
    for names in vlib.escape_name_sets():
        exp, texts = vlib.escape_name_texts(ctx.rng, names, variants=3)
        rs = ctx.impl(["from_str\t" + hexs(t) for t in texts] + ["from_value_text\t" + hexs(t) for t in texts])
        n_sp += len(texts)
        for t, x, y in zip(texts, rs[:len(texts)], rs[len(texts):]):
            if x != y:
                ctx.fail("from_str(text) differs from From<&Value>(serde_json(text)) on a text whose member names need escapes",
                         "from_str\t" + hexs(t), {"text": t[:300], "from_str": x[:200], "from_value": y[:200]})
    ctx.notes["escaped_name_renderings"] = n_sp
    # escaped member names (the former KF5, repaired by 86c1e00: a failure here is a violation again)
    kf = ['{"a\\nb":1}', '{"\\u0061":1}', '{"a\\"b":true}', '[{"x\\ty":1},{"x\\ty":1,"z":2}]']
    r1 = ctx.impl(["from_str\t" + hexs(t) for t in kf])
    r2 = ctx.impl(["from_value_text\t" + hexs(t) for t in kf])
    for t, x, y in zip(kf, r1, r2):
        if x != y:
            ctx.fail("escaped member name: text path keeps the raw slice, value path the unescaped name",
                     "from_str\t" + hexs(t), {"text": t, "from_str": x, "from_value": y}, known="KF5")

def replay(rp):
    lines = [f["input"] for f in rp.get("failures", [])] + [d["case"] for d in rp.get("disagreements", [])]
    for l in lines:
        alt = l.replace("from_str\t", "from_value_text\t").replace("infer_text\t", "infer_value\t")
        print(l, vlib.run_impl([l]), alt, vlib.run_impl([alt]), "model:", vlib.run_model([l]))
    return 1 if lines else 0
