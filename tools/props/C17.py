"""C17 — single-document inference is compositional and exact."""
import vlib
from vlib import doc_str, parse_sh, sh_str, kb

RULE = ("correspondence: infer_text and infer_value (both entry points) on every document of nesting<=2,width<=2, a base of array-of-objects documents and random "
        "deeper documents; oracle (independent of the Coq model, applied to each entry point with its own results): the implementation's from_str(d) / From<&Value>(d) is recomputed in the check "
        "from the implementation's from_str of the sub-documents of d by the property's own equations (scalar kinds, object "
        "= member names -> member shapes, equal elements -> Array, differing non-object elements -> Tuple in order, "
        "array of objects -> Array<Object> over the union of keys with everywhere-present keys unchanged and partly-present "
        "keys optional). non-trivial = document whose root is a container with >=2 members; distinct = distinct document")
ASSUMPTIONS = ["documents rendered canonically; keys without escapes",
               "keys of an array of objects whose elements disagree on the value shape are outside the property's statement (class KF1 of C01) and are skipped by the oracle"]

def as_opt(s):
    return s if s[0] == 'N' else (s[0], True) + tuple(s[2:])

def expected(d, sub):
    """shape the property's equations give, from the shapes of the direct sub-documents (None = unspecified)"""
    if d is None:
        return ('N',)
    if d == 't':
        return ('B', False)
    if d == '1':
        return ('#', False)
    if d == 's':
        return ('S', False)
    if isinstance(d, tuple):
        return vlib.norm_sh(('O', False, tuple((k, sub(v)) for k, v in d)))
    es = [sub(e) for e in d]
    if not es:
        return None
    if all(e == es[0] for e in es):
        return ('A', False, es[0])
    if all(e[0] == 'O' for e in es):
        keys = sorted({kb(k) for e in es for k, _ in e[2]})
        out = []
        for k in keys:
            vals = [dict(e[2]).get(k) for e in es]
            present = [v for v in vals if v is not None]
            if any(v != present[0] for v in present):
                return None                       # conflicting shapes: not specified
            out.append((k, present[0] if len(present) == len(es) else as_opt(present[0])))
        return ('A', False, ('O', False, tuple(out)))
    return ('T', False, tuple(es))

def run(ctx):
    docs = vlib.doc_pool_small() + list(vlib.BASE_DOCS)
    docs += [vlib.rand_doc(ctx.rng, 4) for _ in range(3000 if ctx.tier == "quick" else 60000)]
    docs += vlib.scale_docs()                     # wide / deep / long-key / odd-key documents
    docs = [d for d in docs if vlib.nodup_doc(d)]
    allsub = []
    for d in docs:
        vlib.subdocs(d, allsub)
    uniq = {}
    for d in allsub:
        uniq.setdefault(doc_str(d), d)
    keys = list(uniq)
    res, _ = ctx.correspond(["infer_text\t" + k for k in keys], "from_str on documents and all their sub-documents",
                            lambda l, r: r.startswith("OK") and r[3:4] in "ATO")
    vres, _ = ctx.correspond(["infer_value\t" + k for k in keys], "From<&Value> on documents and all their sub-documents",
                             lambda l, r: r.startswith("OK") and r[3:4] in "ATO")
    skipped = 0
    # the property speaks of "the shape inferred from one document": both entry points are judged, each against
    # ITS OWN results on the sub-documents
    for op, what, rs in (("infer_text", "from_str", res), ("infer_value", "From<&serde_json::Value>", vres)):
        shape = {}
        for k, r in zip(keys, rs):
            if r is None:
                return
            if not r.startswith("OK "):
                ctx.fail("inference of a valid duplicate-free document failed", op + "\t" + k, r)
            else:
                shape[k] = parse_sh(r[3:])
        for k, d in uniq.items():
            if k not in shape:
                continue
            try:
                exp = expected(d, lambda x: shape[doc_str(x)])
            except KeyError:
                continue
            if exp is None:
                skipped += op == "infer_text"
                continue
            if isinstance(d, (list, tuple)) and len(d) >= 2:
                ctx.nontrivial.add(op + "\t" + k)
            if vlib.norm_sh(exp) != shape[k]:
                ctx.fail("%s(d) is not the composition of %s of its parts" % (what, what), op + "\t" + k,
                         {"got": sh_str(shape[k]), "expected": sh_str(vlib.norm_sh(exp))})
    ctx.notes["documents"] = len(uniq)
    ctx.notes["unspecified_skipped"] = skipped

def replay(rp):
    lines = [f["input"] for f in rp.get("failures", [])] + [d["case"] for d in rp.get("disagreements", [])]
    mi, mm = vlib.run_impl(lines), vlib.run_model(lines)
    for l, a, b in zip(lines, mi, mm):
        print("%s\n  impl : %s\n  model: %s" % (l, a, b))
    return 1 if lines else 0
