"""C05 — no input makes the library panic, overflow or hang; error ranges are faithful."""
import vlib, textlib
from textlib import hx
from vlib import doc_str

RULE = ("correspondence (model = extracted Coq lexer+parser+walk+API, every Rust panic site an explicit Panic value): "
        "from_str, the CST (parse hook, canonical depth:name:start:end dump through the model's own children/span), "
        "from_sources on text tuples, is_superset / is_superset_checked on shape x text, over the text stream of DESIGN 4.3 "
        "(rendered documents with independent per-token choices, every prefix and single-character deletion and sampled "
        "insertions/substitutions of valid texts, hand-written grammar negatives, nesting 1..300, arbitrary Unicode); "
        "oracle on the implementation: no PANIC / CRASH / HANG on any entry point; every ERR InvalidJson range lies inside "
        "the input on UTF-8 character boundaries and its fragment equals the input at that range; big inputs (100000 "
        "brackets, multi-MB strings, 1.5 MB objects, 200000-element arrays) each in its own process, on a 2 MiB stack (Rust's default "
        "for a spawned thread: unbounded recursion is a crash), under a 60 s hang guard "
        "with count-free pass criterion 'returns a result line'; serde_json values nested to depth 127 through From<&Value>; "
        "recursion depth: the depth hook's maximal nesting of parse_cst/parse_rule/parse_member/parse_token frames = the model twin "
        "walk_depth on the text stream and on nests of 1..1000 levels, and <= 515 (the proved bound); value/merger/subset depth "
        "probed on deep and big inputs; "
        "value-path cost: hook counter 0 = model twin vcalls exactly, criterion calls <= 4*nodes (count-based). "
        "non-trivial = a text on which the implementation returns an error carrying a range, or a multi-source / superset "
        "case; distinct = distinct case line")
ASSUMPTIONS = ["the NUMBER of nested frames is proved bounded (772 parser / 515 walk) and the walk's is measured by a hook and compared with the model; "
               "the generated lelwel parser carries no hook (its depth is tied through the CST correspondence only)",
               "stack size (bytes per frame), wall time and the allocator are runtime facts: validated by running (big inputs and depth probes on a 2 MiB thread stack, hang guard; the bulk correspondence runs on a 1 GiB stack), not proved",
               "texts reach the harness hex-encoded and must be valid UTF-8 (Rust &str); invalid UTF-8 cannot be passed to the API at all",
               "value path cost: count-based (hook counter), the twin vcalls is proved equal to the number of values (C05_value_cost_linear)"]

def nest2(n):
    d = '1'
    for _ in range(n):
        d = [d, 's']
    return d

def big_inputs():
    return {
        "open100k": "[" * 100000, "nest100k": "[" * 100000 + "]" * 100000, "close100k": "]" * 100000,
        "objnest100k": '{"a":' * 100000, "mixednest100k": '[{"a":' * 50000,
        "str4MB": '"' + "a" * 4000000 + '"', "str4MB-unterminated": '"' + "a" * 4000000,
        "str4MB-escapes": '"' + "\\n" * 2000000 + '"', "str2MB-2byte": '"' + "é" * 1000000 + '"',
        "str-badescapes": '"' + "\\q" * 500000 + '"', "wide200k": "[" + "1," * 200000 + "1]",
        "obj1.5MB": "{" + ",".join('"k%d":%d' % (i, i) for i in range(100000)) + "}",
        "arrobj50k": "[" + ",".join('{"a":1,"b":"x"}' for _ in range(50000)) + "]",
        "garbage1MB": "}{][:," * 170000, "ws2MB": " \n\t" * 700000 + "1", "errtokens300k": "é" * 300000,
        "manyroots200k": "1 " * 200000, "commas": "[" + "," * 300000 + "]", "colons": '{"a"' + ":" * 300000 + "}",
    }

def run(ctx):
    quick = ctx.tier == "quick"
    st = textlib.text_stream(ctx.rng, 2000 if quick else 20000, 200 if quick else 2000, 10000 if quick else 100000)
    texts = [t for _, t in st]
    classes = {}
    for c, _ in st:
        classes[c] = classes.get(c, 0) + 1
    ctx.notes["text_classes"] = classes
    H = [hx(t) for t in texts]
    # ---- correspondence + oracle: from_str
    lines = ["from_str\t" + h for h in H]
    mi, _ = textlib.correspond(ctx, lines, "from_str on the text stream",
                               lambda l, r: r.startswith("ERR InvalidJson"))
    n_ranges = 0
    for t, l, r in zip(texts, lines, mi):
        if r in ("PANIC", "HANG") or r.startswith("CRASH"):
            ctx.fail("from_str panics / does not return (%s)" % r[:12], l, {"text": t[:200], "result": r})
        bad = textlib.check_invalid_json(t, r)
        n_ranges += r.startswith("ERR InvalidJson")
        if bad:
            ctx.fail("InvalidJson range is not faithful: " + bad, l, {"text": t[:200], "result": r[:200]})
    ctx.notes["invalid_json_ranges_checked"] = n_ranges
    # ---- correspondence: CST (spans of every node)
    textlib.correspond(ctx, ["parse\t" + hx(t) for t in textlib.cst_subset(texts)], "CST on the text stream", canon=textlib.canon_cst)
    # ---- from_sources on tuples of texts
    pool = texts[:]
    seqs = []
    for _ in range(1500 if quick else 30000):
        k = ctx.rng.choice([1, 2, 2, 3])
        seqs.append([ctx.rng.choice(pool) for _ in range(k)])
    seqs.append([])
    lines = ["from_sources_text" + "".join("\t" + hx(t) for t in s) for s in seqs]
    mi, _ = textlib.correspond(ctx, lines, "from_sources on text tuples", lambda l, r: True)
    for s, l, r in zip(seqs, lines, mi):
        if r in ("PANIC", "HANG") or r.startswith("CRASH"):
            ctx.fail("from_sources panics / does not return (%s)" % r[:12], l, {"texts": [x[:100] for x in s], "result": r})
        if r.startswith("ERR InvalidJson") and not any(textlib.check_invalid_json(t, r) is None for t in s):
            ctx.fail("from_sources: InvalidJson range matches no source", l, {"result": r[:200]})
    # ---- is_superset / is_superset_checked
    lines = []
    for t in ctx.rng.sample(texts, min(len(texts), 1500 if quick else 20000)):
        sh = ctx.rng.choice(textlib.SHAPES_FOR_SUPERSET)
        lines += ["superset_text\t%s\t%s" % (sh, hx(t)), "superset_checked_text\t%s\t%s" % (sh, hx(t))]
    mi, _ = textlib.correspond(ctx, lines, "is_superset / is_superset_checked on shape x text", lambda l, r: True)
    for l, r in zip(lines, mi):
        if r in ("PANIC", "HANG") or r.startswith("CRASH"):
            ctx.fail("is_superset panics / does not return (%s)" % r[:12], l, r)
    # ---- big inputs: implementation only, one process each, hang guard
    big = {}
    hangs = 0
    for name, t in big_inputs().items():
        for op in ("from_str", "superset_text\tA0(#0)"):
            if hangs >= 3:
                break           # three stalled processes are enough evidence; do not spend an hour on the rest
            r, secs = textlib.run_guarded(vlib.HARNESS, op + "\t" + hx(t), 60, stack_kb=2048)
            hangs += r == "HANG"
            ctx.evaluations += 1
            big[name + ":" + op.split("\t")[0]] = [r[:60], round(secs, 2)]
            if r in ("PANIC", "HANG") or r.startswith("CRASH"):
                ctx.fail("big input: " + r, "%s\t<%s, %d bytes>" % (op, name, len(t.encode())), {"generator": name})
            bad = textlib.check_invalid_json(t, r)
            if bad:
                ctx.fail("InvalidJson range is not faithful: " + bad, name, r[:200])
    ctx.notes["big_inputs"] = big
    # the lexical scale families at 64 KiB / 1 MiB (the extracted model is too slow there): the implementation must
    # return, report faithful ranges, and accept exactly what an independent strict parser (Python's json, NaN /
    # Infinity refused) accepts
    import json as _json
    def py_ok(t):
        def bad(_):
            raise ValueError("constant")
        try:
            _json.loads(t, parse_constant=bad, parse_int=str, parse_float=str)     # no numeric conversion limits
            return True
        except RecursionError:
            return None
        except ValueError:
            return False
    bt = textlib.scale_texts(ctx.rng, big=True)
    n_big, hangs = 0, 0
    for t in bt[:: (2 if quick else 1)]:
        if hangs >= 3:
            break
        r, secs = textlib.run_guarded(vlib.HARNESS, "from_str\t" + hx(t), 60, stack_kb=2048)
        hangs += r == "HANG"
        ctx.evaluations += 1; n_big += 1
        case = "from_str\t<scale text, %d bytes, starts %r, ends %r>" % (len(t.encode()), t[:12], t[-8:])
        if r in ("PANIC", "HANG") or r.startswith("CRASH"):
            ctx.fail("large text: " + r, case, None); continue
        bad = textlib.check_invalid_json(t, r)
        if bad:
            ctx.fail("InvalidJson range is not faithful: " + bad, case, r[:200])
        want = py_ok(t)
        if want is not None and r.startswith("OK ") != want:
            ctx.fail("a large text is %s although an independent strict JSON parser %s it" %
                     (("accepted", "rejects") if not want else ("rejected", "accepts")), case, r[:120])
    ctx.notes["large_scale_texts"] = n_big
    # ---- recursion depth: the depth hook (frames of parse_cst / parse_rule / parse_member / parse_token
    #      simultaneously active) must equal the model's walk_depth, whose bound 515 is a theorem
    deep = []
    for n in (1, 2, 100, 200, 254, 255, 256, 257, 258, 300, 1000):
        deep += ["[" * n + "]" * n, "[" * n + "1" + "]" * n, '{"a":' * n + "null" + "}" * n,
                 '[{"a":' * (n // 2) + "1" + "}]" * (n // 2), "[" * n, '{"a":' * n, '[{"a":' * (n // 2) + "[" * (n % 2)]
    dtexts = list(dict.fromkeys(ctx.rng.sample(texts, min(len(texts), 3000 if quick else 40000)) + deep))
    lines = ["depth_walk\t" + hx(t) for t in dtexts]
    mi, _ = textlib.correspond(ctx, lines, "walk recursion depth (hook) = walk_depth (model twin)",
                               lambda l, r: r.startswith("D ") and int(r[2:]) >= 4)
    dmax = 0
    for t, l, r in zip(dtexts, lines, mi):
        if r.startswith("D "):
            dmax = max(dmax, int(r[2:]))
            if int(r[2:]) > 515:
                ctx.fail("the CST walk nests deeper than the proved bound 515 (C05_walk_depth_bound)", l,
                         {"text": t[:120], "depth": int(r[2:])})
        elif r == "PANIC" or r.startswith("CRASH") or r == "HANG":
            ctx.fail("from_str does not return", l, {"text": t[:120], "result": r})
    ctx.notes["walk_depth_max_observed"] = dmax
    fam = [0, 0, 0, 0]
    allt = deep + list(big_inputs().values())[:8]
    hangs = 0
    for t in allt:
        if hangs >= 3:
            break
        r, secs = textlib.run_guarded(vlib.HARNESS, "depth_all\t" + hx(t), 60, stack_kb=2048)
        hangs += r == "HANG"
        ctx.evaluations += 1
        if not r.startswith("D "):
            ctx.fail("depth probe does not return: " + r[:40], "depth_all\t<%d bytes starting %r>" % (len(t), t[:20]), r[:100])
            continue
        d = [int(x) for x in r.split(" ")[1:]]
        fam = [max(a, b) for a, b in zip(fam, d)]
        # value path: one frame per value entered (serde_json itself refuses nesting > 128);
        # merger / subset recurse over shapes, which are never deeper than the walk that built them
        if d[1] > 515 or d[0] > 130 or d[2] > 515 or d[3] > 515:
            ctx.fail("recursion deeper than the proved / structural bound (value<=130, walk<=515, merger<=515, subset<=515)",
                     "depth_all\t" + hx(t[:2000]), {"depths value/walk/merger/subset": d})
    ctx.notes["depth_max_observed value/walk/merger/subset"] = fam
    # ---- value path: depth up to serde_json's limit, then the count-based cost criterion
    lines = []
    for n in (1, 2, 16, 64, 100, 120, 126, 127, 128):
        lines.append("from_value_text\t" + hx("[" * n + "]" * n))
        lines.append("from_value_text\t" + hx("[" * n + "1" + "]" * n))
        lines.append("from_value_text\t" + hx('{"a":' * n + "null" + "}" * n))
        lines.append("from_value_text\t" + hx('[{"a":' * (n // 2) + "1" + "}]" * (n // 2)))
    for l, r in zip(lines, ctx.impl(lines)):
        if not (r.startswith("OK ") or r == "ERR SerdeReject"):
            ctx.fail("From<&serde_json::Value> does not return on a deep value", l, r)
    docs = [doc_str(d) for d in vlib.doc_pool_small()]
    docs += [doc_str(vlib.rand_doc(ctx.rng, 4)) for _ in range(1500 if quick else 30000)]
    docs += [doc_str(nest2(n)) for n in range(1, 10 if quick else 13)]
    docs = list(dict.fromkeys(docs))
    keep = vlib.model_bools(["nodup\t" + d for d in docs])
    docs = [d for d, k in zip(docs, keep) if k]
    ci = ctx.impl(["counts\tinfer_value\t" + d for d in docs])
    cm = ctx.model(["vcalls\t" + d for d in docs])
    sc = ctx.corr_scopes.setdefault("value-path call counter = vcalls", {"cases": 0, "disagreements": 0})
    sc["cases"] += len(docs)
    for d, a, b in zip(docs, ci, cm):
        if not a.startswith("CNT ") or a.split(" ")[1] != b.split(" ")[-1]:
            sc["disagreements"] += 1
            ctx.disagreements.append({"scope": "value-path call counter = vcalls", "case": d, "model": b, "impl": a})
    nodes = ctx.model(["jnodes\t" + d for d in docs])
    exc = vlib.model_bools(["value_cost_excess\t" + d for d in docs])
    worst = None
    for d, a, e, nn in zip(docs, ci, exc, nodes):
        if a.startswith("CNT "):
            calls = int(a.split(" ")[1])
            size = int(nn.split(" ")[1])
            if calls > 4 * size:
                if worst is None or calls > worst[1]:
                    worst = (d, calls, size)
                ctx.fail("value path cost is not polynomial-bounded: calls > 4*nodes",
                         "counts\tinfer_value\t" + d, {"calls": calls, "nodes": size}, known=None)
    ctx.notes["value_cost_worst"] = worst

def replay(rp):
    lines = [f["input"] for f in rp.get("failures", [])] + [d["case"] for d in rp.get("disagreements", [])]
    lines = [l for l in lines if "\t" in l and "<" not in l]
    mi, mm = vlib.run_impl(lines), vlib.run_model(lines)
    for l, a, b in zip(lines, mi, mm):
        print("%s\n  text : %r\n  impl : %s\n  model: %s" % (l[:200], textlib.show_case(l), a[:300], b[:300]))
    return 1 if lines else 0
