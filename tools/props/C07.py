"""C07 — inference depends only on the type structure of the document."""
import vlib, textlib
from textlib import hx
from vlib import doc_str

RULE = ("oracle (metamorphic, on the implementation): for random documents d (nesting <= 4, member names from a pool with "
        "escapes and non-ASCII, distinct within an object) from_str(r(d)) == from_str(r'(d')) where r, r' are independent "
        "renderings (whitespace incl. tab / CRLF / bare CR, 26 number lexemes, 34 string lexemes incl. every escape, "
        "surrogate pairs and raw non-ASCII, true/false) and d' is d with members permuted at every object and / or every "
        "homogeneous repetition [e]*k re-counted to [e]*k' (k, k' >= 1); plus the model renderer: from_str(render_text ch d) "
        "on the implementation == infer_text d of the model for random choice lists ch (the tested form of parse_render). "
        "correspondence: from_str on every rendering. known class F3 = cr_rejected (a rendering that uses a bare CR is "
        "rejected today). non-trivial = a pair whose two texts differ and whose document has a container; distinct = distinct pair")
ASSUMPTIONS = ["member names are distinct within an object (C07 is about reordering, not about duplicate handling)",
               "scalar values are rendered from fixed tables of lexemes covering every production of the RFC number and string grammars"]

KEYS = [k for k in textlib.KEYS]

def gen_doc(rng, depth):
    """duplicate-free document; arrays are often homogeneous repetitions"""
    if depth <= 0 or rng.random() < 0.25:
        return rng.choice(vlib.SCAL)
    r = rng.random()
    if r < 0.3:
        e = gen_doc(rng, depth - 1)
        return ("rep", e, rng.choice([1, 1, 2, 3, 5]))
    if r < 0.55:
        return [gen_doc(rng, depth - 1) for _ in range(rng.choice([0, 1, 2, 3, 4]))]
    ks = rng.sample(KEYS, rng.choice([0, 1, 2, 3, 4]))
    return tuple((k, gen_doc(rng, depth - 1)) for k in ks)

def realise(d, rng, permute, recount):
    """-> plain vlib document; optionally shuffles members and changes repetition counts"""
    if isinstance(d, tuple) and len(d) == 3 and d[0] == "rep":
        k = rng.choice([1, 2, 3, 4, 7]) if recount else d[2]
        return [realise(d[1], rng, permute, recount) for _ in range(k)]
    if isinstance(d, list):
        return [realise(e, rng, permute, recount) for e in d]
    if isinstance(d, tuple):
        ms = [(k, realise(v, rng, permute, recount)) for k, v in d]
        if permute:
            rng.shuffle(ms)
        return tuple(ms)
    return d

def has_container(d):
    return isinstance(d, (list, tuple))

def run(ctx):
    quick = ctx.tier == "quick"
    n = 12000 if quick else 150000
    pairs, meta = [], []
    for i in range(n):
        d = gen_doc(ctx.rng, ctx.rng.choice([1, 2, 3, 4]))
        mode = ctx.rng.choice(["rerender", "permute", "recount", "both"])
        ws = textlib.WS if ctx.rng.random() < 0.12 else textlib.WS_NOCR
        a = textlib.render(realise(d, ctx.rng, False, False), ctx.rng, ws)
        b = textlib.render(realise(d, ctx.rng, mode in ("permute", "both"), mode in ("recount", "both")), ctx.rng, ws)
        pairs.append((a, b)); meta.append((mode, has_container(d)))
    la = ["from_str\t" + hx(a) for a, _ in pairs]
    lb = ["from_str\t" + hx(b) for _, b in pairs]
    ra, _ = textlib.correspond(ctx, la, "from_str on renderings r(d)")
    rb, _ = textlib.correspond(ctx, lb, "from_str on renderings r'(d')")
    bad = []
    modes = {}
    for (a, b), (mode, cont), x, y, l1, l2 in zip(pairs, meta, ra, rb, la, lb):
        modes[mode] = modes.get(mode, 0) + 1
        if a != b and cont and x == y and x.startswith("OK "):
            ctx.nontrivial.add(l1 + "|" + l2)
        if x != y or not x.startswith("OK "):
            bad.append((a, b, mode, x, y, l1, l2))
    if bad:
        crs = vlib.model_bools(["cr_rejected\t" + hx(t) for a, b, *_ in bad for t in (a, b)])
        for j, (a, b, mode, x, y, l1, l2) in enumerate(bad):
            known = "F3" if (crs[2 * j] or crs[2 * j + 1]) else None
            ctx.fail("two renderings of one type structure (%s) are not given the same shape" % mode, l1,
                     {"text_a": a[:300], "text_b": b[:300], "result_a": x[:200], "result_b": y[:200], "other_case": l2},
                     known=known)
    # member names and strings re-spelled with escapes (\\uXXXX in either case, surrogate pairs, two-character
    # escapes): two spellings of one document must be given the same shape
    n_sp = 0
    for d in vlib.key_docs():
        texts = [vlib.render_text(ctx.rng, d)] + [vlib.render_text(ctx.rng, d, keyf=lambda k: vlib.respell(ctx.rng, k)) for _ in range(4)]
        rs = ctx.impl(["from_str\t" + hx(t) for t in texts])
        n_sp += len(texts) - 1
        for t, r in zip(texts[1:], rs[1:]):
            if r != rs[0] or not r.startswith("OK "):
                ctx.fail("two spellings of one document (member names written with / without escapes) are not given the same shape",
                         "from_str\t" + hx(t), {"text_a": texts[0][:300], "text_b": t[:300], "result_a": rs[0][:200], "result_b": r[:200]})
    # names that NEED an escape (quote, backslash, control characters; a literal backslash followed by n / t / u0041 / "):
    # every spelling must be read as the one name it denotes (expected shape computed from the names, not from either run)
    for names in vlib.escape_name_sets():
        exp, texts = vlib.escape_name_texts(ctx.rng, names)
        rs = ctx.impl(["from_str\t" + hx(t) for t in texts])
        n_sp += len(texts)
        for t, r in zip(texts, rs):
            if r != "OK " + exp:
                ctx.fail("a spelling of a member name that needs escapes is not read as the name it denotes "
                         "(two spellings of one document are not given the same shape)",
                         "from_str\t" + hx(t), {"text": t[:300], "result": r[:300], "expected": "OK " + exp[:300],
                                                 "canonical_spelling": texts[0][:300], "canonical_result": rs[0][:300]})
            else:
                ctx.nontrivial.add("from_str\t" + hx(t))
    ctx.notes["respelled_name_pairs"] = n_sp
    # very long homogeneous arrays / wide objects: the repetition count must not matter at any scale
    big = []
    for n in (2, 1000, 40000, 70000):
        big.append(("[" + ",".join(["1"] * n) + "]", "OK A0(#0)"))
        big.append(("[\n" + ",\n".join(["  true"] * n) + "\n]", "OK A0(B0)"))
    big.append(("[" + ",".join(['{"a":1,"b":"x"}'] * 12000) + "]", "OK A0(O0{61:#0,62:S0})"))
    big.append(("{" + ",".join('"k%d":null' % i for i in range(20000)) + "}", None))
    rb = ctx.impl(["from_str\t" + hx(t) for t, _ in big])
    for (t, exp), r in zip(big, rb):
        if (exp is not None and r != exp) or (exp is None and not r.startswith("OK O0{")):
            ctx.fail("the shape of a long homogeneous array / wide object depends on its length", "from_str\t" + hx(t),
                     {"text_head": t[:60], "length": len(t), "result": r[:120], "expected": exp})
    ctx.notes["big_repetition_cases"] = len(big)
    ctx.notes["pairs_by_mode"] = modes
    ctx.notes["pairs_failing_known_or_not"] = len(bad)
    # ---- the model's renderer: from_str(render_text ch d) on the implementation = infer_text d of the model
    docs, lines = [], []
    for i in range(6000 if quick else 80000):
        d = realise(gen_doc(ctx.rng, ctx.rng.choice([1, 2, 3])), ctx.rng, False, False)
        if escaped_key(d):
            continue      # a name spelled with an escape re-reads as the DECODED name (fix 86c1e00): outside parse_render
        ch = [ctx.rng.randrange(0, 12) for _ in range(ctx.rng.choice([0, 4, 16, 64]))]
        if ctx.rng.random() < 0.6:
            ch = [c if c % 9 not in (5,) else 0 for c in ch]      # mostly avoid the bare-CR whitespace entry
        docs.append(doc_str(d))
        lines.append("render\t%s\t%s" % (doc_str(d), ",".join(map(str, ch))))
    texts = ctx.model(lines)
    exp = ctx.model(["infer_text\t" + d for d in docs])
    got = ctx.impl(["from_str\t" + t[5:] for t in texts])
    sc = ctx.corr_scopes.setdefault("model renderer: impl from_str(render_text ch d) = model infer_text d",
                                    {"cases": 0, "disagreements": 0})
    sc["cases"] += len(lines)
    diff = [(l, t, e, g) for l, t, e, g in zip(lines, texts, exp, got) if e != g]
    if diff:
        crs = vlib.model_bools(["cr_rejected\t" + t[5:] for _, t, _, _ in diff])
        for (l, t, e, g), cr in zip(diff, crs):
            if cr:
                ctx.fail("a rendering with a bare CR is rejected", "from_str\t" + t[5:],
                         {"render_case": l, "expected": e, "got": g[:200]}, known="F3")
            else:
                sc["disagreements"] += 1
                ctx.disagreements.append({"scope": "model renderer", "case": l, "text": textlib.unhx(t[5:])[:300],
                                          "model": e, "impl": g})
    ctx.notes["model_renderer_cr_rejected"] = sum(1 for _ in diff) - sc["disagreements"]

def escaped_key(d):
    if isinstance(d, list):
        return any(escaped_key(e) for e in d)
    if isinstance(d, tuple):
        return any("\\" in (k if isinstance(k, str) else k.decode()) or escaped_key(v) for k, v in d)
    return False

def replay(rp):
    lines = []
    for f in rp.get("failures", []):
        lines.append(f["input"])
        if isinstance(f.get("detail"), dict) and f["detail"].get("other_case"):
            lines.append(f["detail"]["other_case"])
    lines += [d["case"] for d in rp.get("disagreements", []) if d["case"].startswith("from_str")]
    mi, mm = vlib.run_impl(lines), vlib.run_model(lines)
    for l, a, b in zip(lines, mi, mm):
        print("%s\n  text : %r\n  impl : %s\n  model: %s" % (l[:200], textlib.show_case(l), a[:300], b[:300]))
    return 1 if lines else 0
