"""C01 — every source conforms to the inferred shape; adding sources never removes."""
import itertools
import vlib
from vlib import sh_str, parse_sh, doc_str

RULE = ("correspondence: merger on all 103041 ordered level-1 shape pairs and random related deep pairs; "
        "infer_text / infer_value on every document of nesting<=2,width<=2 and random deeper documents; from_sources "
        "on all sequences of length<=2 over a 60-document base and random sequences up to length 6 (with repetition "
        "and permutation), plus the scale / rare-feature stream (wide objects / arrays / tuples up to 1025 members, chains of nesting "
        "to depth 120, keys of 23..5000 bytes, shared prefixes, case-only differences, non-ASCII and boundary code points, 33..257 sources). oracle: Sem.mem(source, implementation's result) for every source; merger upper bound and "
        "monotonicity by witness documents validated by Sem.mem. non-trivial = a sequence with >=2 distinct sources or "
        "a merger pair with distinct operands whose result has depth>=1; distinct = distinct case line")
ASSUMPTIONS = ["documents are rendered canonically (compact, keys need no escaping); the text level is covered by C04/C07",
               "known class KF1 decided by the extracted conflict_free predicate (same one the Coq theorem assumes)"]

def seqs(ctx):
    base = [doc_str(d) for d in vlib.BASE_DOCS]
    out = [[a] for a in base] + [[a, b] for a in base for b in base]
    n = 1500 if ctx.tier == "quick" else 40000
    pool = base + [doc_str(vlib.rand_doc(ctx.rng, 3)) for _ in range(300)]
    for _ in range(n):
        k = ctx.rng.choice([2, 3, 3, 4, 5, 6])
        s = [ctx.rng.choice(pool) for _ in range(k)]
        if ctx.rng.random() < 0.3:
            s += [s[0]] * ctx.rng.choice([1, 2])
        if ctx.rng.random() < 0.3:
            ctx.rng.shuffle(s)
        out.append(s)
    if ctx.tier != "quick":
        out += [[a, b, c] for a in base[:40] for b in base[:40] for c in base[:40]]
    return out

def scale_seqs(ctx):
    """the scale / rare-feature stream (vlib.scale_families): wide containers, long chains, long / odd keys,
    many sources - thresholds that small random documents never reach"""
    return [[doc_str(d) for d in s] for s in vlib.scale_seqs()]

def run(ctx):
    l1 = vlib.level1()
    l1s = [sh_str(s) for s in l1]
    # ---- correspondence: merger
    lines = ["merger\t%s\t%s" % (a, b) for a in l1s for b in l1s]
    mi, _ = ctx.correspond(lines, "merger level-1 pairs",
                           lambda l, r: l.split("\t")[1] != l.split("\t")[2] and r[3:4] in "ATUO")
    n_rand = 1500 if ctx.tier == "quick" else 30000
    deep = [vlib.rand_shape(ctx.rng, 3) for _ in range(n_rand)]
    rel = [(s, vlib.mutate_shape(ctx.rng, s)) for s in deep] + vlib.structured_pairs(stride=1 if ctx.tier != 'quick' else 3)[::2]
    lines2 = []
    for a, b in rel:
        lines2 += ["merger\t%s\t%s" % (sh_str(a), sh_str(b)), "merger\t%s\t%s" % (sh_str(b), sh_str(a))]
    mi2, _ = ctx.correspond(lines2, "merger random related deep pairs", lambda l, r: True)
    # ---- oracle: upper bound by validated witness documents
    pairs = [(a, b) for a in l1 for b in l1]
    step = 1 if ctx.tier != "quick" else 7          # quick: every 7th level-1 pair gets witnesses
    chosen = [(i, p) for i, p in enumerate(pairs) if i % step == 0]
    wit = vlib.validated_witnesses(l1 + [x for ab in rel for x in ab], cap=8)
    q, meta = [], []
    for i, (a, b) in chosen:
        r = mi[i]
        if r is None or not r.startswith("OK "):
            ctx.fail("merger did not return Ok", lines[i], r)
            continue
        for w in wit[sh_str(a)] + wit[sh_str(b)]:
            q.append("mem\t%s\t%s" % (w, r[3:])); meta.append((lines[i], w, r))
    for j, (a, b) in enumerate(rel):
        for jj, (x, y) in ((2 * j, (a, b)), (2 * j + 1, (b, a))):
            r = mi2[jj]
            if r is None or not r.startswith("OK "):
                ctx.fail("merger did not return Ok", lines2[jj], r)
                continue
            for w in wit[sh_str(x)][:4] + wit[sh_str(y)][:4]:
                q.append("mem\t%s\t%s" % (w, r[3:])); meta.append((lines2[jj], w, r))
    for (case, w, r), ok in zip(meta, vlib.model_bools(q)):
        if not ok:
            ctx.fail("merged shape rejects a document admitted by an operand", case, {"document": w, "result": r})
    ctx.notes["merger_witness_checks"] = len(q)
    # ---- correspondence: single documents, both paths
    docs = [doc_str(d) for d in vlib.doc_pool_small()]
    docs += [doc_str(vlib.rand_doc(ctx.rng, 4)) for _ in range(2000 if ctx.tier == "quick" else 50000)]
    docs += [doc_str(d) for d in vlib.scale_docs()]
    docs = list(dict.fromkeys(docs))
    ri, _ = ctx.correspond(["infer_text\t" + d for d in docs], "from_str on documents",
                           lambda l, r: r.startswith("OK") and r[3:4] in "ATO")
    ctx.correspond(["infer_value\t" + d for d in docs], "From<&serde_json::Value> on documents")
    # documents with repeated member names: consistent repetitions must be accepted, conflicting ones
    # are outside the quantifier (decided by the extracted dup_consistent, the theorem's hypothesis)
    dups = []
    for v1, v2 in [('1', '1'), ('1', 's'), (['1'], ['1', '1']), (['1'], ['s']), (None, None), (None, '1'),
                   ((('x', '1'),), (('x', '1'),)), ((('x', '1'),), (('x', 's'),)), ([], []), ([], ['1']),
                   (['1', 's'], ['1', 's']), (['1', 's'], ['s', '1'])]:
        dups += [(('a', v1), ('a', v2)), (('a', v1), ('b', 't'), ('a', v2)), [(('a', v1), ('a', v2)), (('a', v1),)],
                 (('k', (('a', v1), ('a', v2))),), (('a', v1), ('a', v2), ('a', v1))]
    dup_docs = list(dict.fromkeys(doc_str(d) for d in dups))
    rd, _ = ctx.correspond(["infer_text\t" + d for d in dup_docs], "from_str on documents with repeated member names",
                           lambda l, r: True)
    ctx.correspond(["infer_value\t" + d for d in dup_docs], "From<&Value> on documents with repeated member names")
    if rd and rd[0] is not None:
        cons = vlib.model_bools(["dup_consistent\t" + d for d in dup_docs])
        for d, r, c in zip(dup_docs, rd, cons):
            if c and not r.startswith("OK "):
                ctx.fail("a document whose repeated member names carry equally shaped values was rejected", "infer_text\t" + d, r)
        docs = docs + [d for d, c in zip(dup_docs, cons) if c]
        ri = ri + [r for r, c in zip(rd, cons) if c]
    # oracle: the document is a member of its own shape (KF1 excepted), inference succeeds
    q, meta = [], []
    for d, r in zip(docs, ri):
        if r is None:
            continue
        if not r.startswith("OK "):
            ctx.fail("inference of a valid document without conflicting duplicates did not succeed", "infer_text\t" + d, r)
            continue
        q.append("mem\t%s\t%s" % (d, r[3:])); meta.append((d, r))
    bad = [(d, r) for (d, r), ok in zip(meta, vlib.model_bools(q)) if not ok]
    classify(ctx, [("infer_text\t" + d, d, r) for d, r in bad], "document is not a member of its own inferred shape")
    # ---- sequences
    sc_ss = scale_seqs(ctx)
    ss = sc_ss + seqs(ctx)
    ctx.notes["scale_stream_sequences"] = len(sc_ss)
    lines = ["from_sources\t" + "\t".join(s) for s in ss]
    ri, _ = ctx.correspond(lines, "from_sources on sequences", lambda l, r: len(set(l.split("\t")[1:])) >= 2)
    q, meta = [], []
    for s, l, r in zip(ss, lines, ri):
        if r is None:
            continue
        if not r.startswith("OK "):
            ctx.fail("from_sources failed on valid sources", l, r)
            continue
        for d in dict.fromkeys(s):
            q.append("mem\t%s\t%s" % (d, r[3:])); meta.append((l, d, r))
    bad = [m for m, ok in zip(meta, vlib.model_bools(q)) if not ok]
    classify(ctx, bad, "a source is not a member of the shape inferred from the sources")
    ctx.notes["source_membership_checks"] = len(q)
    # ---- monotonicity: h, h+[d] with witnesses of from_sources(h)
    hs = [s for s in sc_ss if len(s) >= 2] + [s for s in ss[len(sc_ss):] if len(s) >= 2][: (800 if ctx.tier == "quick" else 8000)]
    la = ["from_sources\t" + "\t".join(s[:-1]) for s in hs]
    lb = ["from_sources\t" + "\t".join(s) for s in hs]
    ra, rb = ctx.impl(la), ctx.impl(lb)
    shapes = [parse_sh(r[3:]) for r in ra if r.startswith("OK ")]
    wit = vlib.validated_witnesses(shapes, cap=8)
    q, meta = [], []
    for l, a, b in zip(lb, ra, rb):
        if a.startswith("OK ") and b.startswith("OK "):
            for w in wit[a[3:]]:
                q.append("mem\t%s\t%s" % (w, b[3:])); meta.append((l, w, a, b))
    for (l, w, a, b), ok in zip(meta, vlib.model_bools(q)):
        if not ok:
            ctx.fail("adding a source removed a previously admitted document", l,
                     {"document": w, "before": a, "after": b})
    ctx.notes["monotonicity_checks"] = len(q)

def classify(ctx, bad, what):
    """failures whose rejected document is itself in class KF1 are the known finding"""
    if not bad:
        return
    cf = vlib.model_bools(["conflict_free\t" + d for _, d, _ in bad])
    for (case, d, r), ok in zip(bad, cf):
        ctx.fail(what, case, {"document": d, "result": r}, known=None if ok else "KF1")

def replay(rp):
    lines = [f["input"] for f in rp.get("failures", [])] + [d["case"] for d in rp.get("disagreements", [])]
    mi, mm = vlib.run_impl(lines), vlib.run_model(lines)
    for l, a, b in zip(lines, mi, mm):
        print("%s\n  impl : %s\n  model: %s" % (l, a, b))
    return 1 if lines else 0
