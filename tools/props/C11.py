"""C11 — external representations of a shape are faithful."""
import vlib
from vlib import sh_str, parse_sh

RULE = ("correspondence (byte for byte): serde_json::to_string(shape) vs jv_to_text(ser shape), to_string() vs display, and the "
        "round trip from_str(to_string(s)) vs de(ser s), on all 321 level-1 shapes, Array/Tuple/OneOf/Object wrappers of them "
        "and random deep shapes (keys incl. empty, spaces, quotes, backslashes, control characters for serde; ASCII keys for "
        "Display). oracle on the implementation: round trip equality, serialising twice gives the same bytes (harness), "
        "pairwise collision search on Display texts over shapes with identifier keys. non-trivial = shape of depth >= 2; "
        "distinct = distinct shape")
ASSUMPTIONS = ["Display is modelled on ASCII member names (char::is_alphanumeric on non-ASCII characters is outside the model); non-ASCII keys are exercised by the implementation-side collision search only",
               "serde derive behaviour is modelled for the values ser produces (round trip), not for arbitrary JSON input"]

IDENT = ['a', 'b', 'ab', 'a_b', 'a-b', 'A', 'z9', '0', '_', '-']
ODD = ['k y', '', 'q"t', 'b\\s', 'n\nl', 'type', 'a:b', 'x, y', '"', 'a": Number, "b']

def run(ctx):
    l1 = vlib.level1()
    n = 2500 if ctx.tier == "quick" else 40000
    ident_shapes = l1 + [vlib.rand_shape(ctx.rng, 4, IDENT) for _ in range(n)]
    ident_shapes += [vlib.norm_sh((k, o, x)) for x in l1[::2] for k in 'A' for o in (False, True)]
    ident_shapes += [vlib.norm_sh(('T', False, (x, y))) for x in l1[::9] for y in l1[::11]]
    ident_shapes += [vlib.norm_sh(('U', True, (x, y))) for x in l1[::9] for y in l1[::13]]
    odd_shapes = [vlib.rand_shape(ctx.rng, 3, IDENT + ODD) for _ in range(n // 2)]
    odd_shapes += [vlib.parse_sh(t) for t in vlib.scale_shapes()]          # wide / deep / long-key / odd-key shapes
    uniq = {}
    for s in ident_shapes + odd_shapes:
        uniq.setdefault(sh_str(s), s)
    ts = list(uniq)
    deep = lambda l, r: vlib.sh_depth(uniq[l.split("\t")[1]]) >= 2
    ser, _ = ctx.correspond(["ser\t" + t for t in ts], "serde_json::to_string vs jv_to_text(ser s)", deep)
    rt, _ = ctx.correspond(["roundtrip\t" + t for t in ts], "from_str(to_string(s)) vs de(ser s)", deep)
    ascii_ts = [t for t in ts if all(all(32 <= b < 127 for b in k) for k in keys_of(uniq[t]))]
    dis, _ = ctx.correspond(["display\t" + t for t in ascii_ts], "Display vs display (ASCII member names)", deep)
    if ser and ser[0] is None:
        return
    seen = {}
    for t, a, b in zip(ts, ser, rt):
        if b != "OK " + t:
            ctx.fail("deserialising the serialisation does not give the shape back", "roundtrip\t" + t, b)
        if not a.startswith("TEXT "):
            ctx.fail("serialisation failed or is not deterministic", "ser\t" + t, a)
        elif a in seen and seen[a] != t:
            ctx.fail("two different shapes serialise to the same text", "ser\t" + t, {"other": seen[a], "text": a})
        seen[a] = t
    # Display injectivity on identifier keys (decided by the extracted ident_keys)
    idk = dict(zip(ascii_ts, vlib.model_bools(["ident_keys\t" + t for t in ascii_ts])))
    seen = {}
    n_id = 0
    for t, d in zip(ascii_ts, dis):
        if not idk[t]:
            continue
        n_id += 1
        if d in seen and seen[d] != t:
            ctx.fail("two different shapes with identifier-like member names print the same", "display\t" + t,
                     {"other": seen[d], "text": bytes.fromhex(d[5:]).decode()})
        seen[d] = t
    ctx.notes["display_injectivity_pool"] = n_id
    # non-ASCII identifier-like keys (alphanumeric in Unicode): implementation only
    uni = [vlib.rand_shape(ctx.rng, 3, ['é', '日本', 'ß1', 'a', 'b_é']) for _ in range(500)]
    ut = list(dict.fromkeys(sh_str(s) for s in uni))
    seen = {}
    for t, d in zip(ut, ctx.impl(["display\t" + t for t in ut])):
        if d in seen and seen[d] != t:
            ctx.fail("two different shapes (non-ASCII alphanumeric names) print the same", "display\t" + t, {"other": seen[d]})
        seen[d] = t

def keys_of(s):
    k = s[0]
    if k == 'A':
        return keys_of(s[2])
    if k in 'TU':
        return [x for e in s[2] for x in keys_of(e)]
    if k == 'O':
        return [vlib.kb(kk) for kk, _ in s[2]] + [x for _, v in s[2] for x in keys_of(v)]
    return []

def replay(rp):
    lines = [f["input"] for f in rp.get("failures", [])] + [d["case"] for d in rp.get("disagreements", [])]
    mi, mm = vlib.run_impl(lines), vlib.run_model(lines)
    for l, a, b in zip(lines, mi, mm):
        print("%s\n  impl : %s\n  model: %s" % (l, a, b))
    return 1 if lines else 0
