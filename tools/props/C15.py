"""C15 — generated types deserialize the documents they were generated from."""
import json, os, subprocess
import vlib, genlib
from vlib import sh_str, parse_sh, hexs

RULE = ("cases = (source set, shape json_shape 0.5.1 infers from it, each source document); the generated text is the "
        "implementation's REAL output (render hook), parsed into items. The property is evaluated only where the module "
        "compiles (independent name-resolution check on the items; the header is C13's business - since fix F12 it is a plain "
        "`//` comment and the former neutralisation `//!` -> `//` is a no-op). "
        "quick tier: serde's derived behaviour is the extracted Gallina model deser/reser applied to the real items: every "
        "source must deserialize into the root type and re-serialize to a document approx-equal to it (kinds, explicit nulls "
        "for absent optional members). thorough tier: the same statement with the REAL serde: one crate, one "
        "`mod mN { include!(..) }` per case, built offline and RUN; each source is deserialized with serde_json::from_str "
        "into mN::<Root> and re-serialized; the outcomes are compared with the model's (correspondence of the serde model, "
        "also on foreign documents that must be rejected) and judged by approx. A failing (shape, source) is a known finding "
        "iff the extracted c15_class(shape) is false, or the source repeats a member name, or the source is not a member of "
        "its own inferred shape (C01 KF1); otherwise a violation. non-trivial = a case whose shape has depth>=2 and whose "
        "source deserialized; distinct = distinct (shape, source)")
ASSUMPTIONS = ["modules are judged by their items; an inner-doc-comment header (the defect F12, repaired by 7d81851) would be "
               "reported by C13, and is rewritten `//!` -> `//` here so that a regression of it does not make this property vacuous",
               "documents are compared by kind (numbers are f64 on the Rust side: formatting is outside the statement)",
               "member names restricted to printable ASCII for the model; sources reach the generator through json_shape 0.5.1",
               "the serde model (Model/Gen.v deser/reser) is validated against real serde_json + serde_derive only in the thorough tier"]

def reason(s, nodup, member):
    if not member:
        return "KF1"
    return "KF3"

def cases_of(ctx):
    n = 120 if ctx.tier == "quick" else 1200
    sets = list(genlib.BIG_SOURCE_SETS) + list(genlib.SOURCE_SETS) + genlib.doc_sources(ctx.rng, n)
    # source sets aimed INSIDE the proved class: member documents of the systematically built in-class shapes
    # (genlib.good_family: every container nesting around pairwise different objects, weak-keyword member names)
    fam = genlib.good_family()
    fam = fam[:: (3 if ctx.tier == "quick" else 1)]
    for s in fam:
        ws = [w for w in (vlib.doc_json(w) for w in vlib.witnesses(s, 8)) if "[]" not in w]   # 0.5.1 panics on []
        if ws:
            sets.append([ws[0], ws[-1]] if len(ws) > 1 else [ws[0]])
    inf, _ = genlib.infer051(ctx, sets)
    out = []
    for ss, s in zip(sets, inf):
        if s is None or not genlib.printable_shape(s):
            continue
        try:
            docs = [genlib.doc_of_json_text(t) for t in ss]
        except ValueError:
            continue                      # 0.5.1 accepted an invalid text (C16 F2gen): not a C15 case
        out.append((ss, s, docs))
    return out

def run(ctx):
    cases = cases_of(ctx)
    ts = [sh_str(s) for _, s, _ in cases]
    mi, _ = ctx.correspond(["gen_render\t" + t for t in ts], "render on inferred shapes")
    # end to end: for the first cases (the big sources and the hand-written sets) the text is what compile_json
    # itself returns for real files holding the sources - reading, inference and generation together - and it
    # must be the rendering of the shape inferred from the FULL sources; if it is not, the serde oracle below
    # judges the text compile_json really produced
    e2e = list(range(min(len(cases), 24)))
    # (every other case keeps its sources under ONE base name in different directories)
    cl = ["compile\t%s\t%s%s" % (hexs("e2e"), hexs("out"), "".join("\t" + "TS"[i % 2] + hexs(t) for t in cases[i][0])) for i in e2e]
    sc = ctx.corr_scopes.setdefault("compile_json(real files) returns render(shape inferred from the full sources)", {"cases": 0, "disagreements": 0})
    mi = list(mi)
    for i, l, r in zip(e2e, cl, ctx.impl(cl)):
        c = genlib.parse_compile(r)
        sc["cases"] += 1
        if c["ret"] == "OK" and c["text"] != genlib.text_of(mi[i]):
            sc["disagreements"] += 1
            ctx.disagreements.append({"scope": "compile_json end to end", "case": l[:300], "model": (genlib.text_of(mi[i]) or "")[:300], "impl": c["text"][:300]})
            mi[i] = "TEXT " + c["text"].encode().hex()
    items, encs, compiles = [], [], []
    for t, r in zip(ts, mi):
        try:
            it = genlib.parse_items(genlib.text_of(r))
            items.append(it); encs.append(genlib.enc_items(it)); compiles.append(not genlib.resolve_check(it))
        except (genlib.ParseError, TypeError):
            items.append(None); encs.append(None); compiles.append(False)
    cls = vlib.model_bools(["gen_c15class\t" + t for t in ts])
    q, meta = [], []
    for ci, ((ss, s, docs), e, ok) in enumerate(zip(cases, encs, compiles)):
        if not ok:
            continue
        for j, d in enumerate(docs):
            q.append("gen_deser_items\t%s\t%s" % (e, d)); meta.append((ci, j))
    res = ctx.model(q)
    nod = vlib.model_bools(["nodup\t" + cases[ci][2][j] for ci, j in meta])
    mem = vlib.model_bools(["mem\t%s\t%s" % (cases[ci][2][j], ts[ci]) for ci, j in meta])
    ctx.evaluations += len(q)
    stats = {"modules": len(cases), "modules_compiling_modulo_header": sum(compiles), "sources_checked": len(q),
             "ok": 0, "known": 0, "in_class_pairs": 0}
    for (ci, j), r, nd, mb in zip(meta, res, nod, mem):
        ss, s, docs = cases[ci]
        inclass = cls[ci] and nd and mb
        stats["in_class_pairs"] += inclass
        good = r.startswith("OK ") and r.endswith("APPROX 1")
        case = "gen_deser_items\t%s\t%s" % (encs[ci], docs[j])
        if good:
            stats["ok"] += 1
            if vlib.sh_depth(s) >= 2:
                ctx.nontrivial.add(ts[ci] + " " + docs[j])
            continue
        detail = {"shape": ts[ci], "source": ss[j], "model_serde": r}
        if inclass:
            ctx.fail("a source does not deserialize / round-trip although the shape is in the proved class", case, detail)
        else:
            stats["known"] += 1
            ctx.fail("a source document does not deserialize into the generated root type", case, detail,
                     known=reason(s, nd, mb))
    ctx.notes["quick"] = stats
    # member names outside printable ASCII (outside the modelled domain of convert_case): implementation-side
    # oracle only.  The generator emits no #[serde(rename)], so a source member deserializes only into a field
    # of exactly its name: every top-level member name of a source whose name is already lower-case snake_case
    # (letters / digits / underscore in the Unicode sense) must be a field of the root struct.
    na_sets = [['{"größe":1.5,"naïve_name":"x","ширина":true,"plain_key":2}'], ['{"日本":1,"été":[1,2]}', '{"日本":2}'],
               ['{"ключ_два":{"вложенный":1},"id":1}'], ['{"αβγ":null,"x":1}', '{"αβγ":"s","x":2}'], ['[{"ß":1},{"ß":2,"ü":"x"}]']]
    inf_na, _ = genlib.infer051(ctx, na_sets)
    txt_na = ctx.impl(["gen_render\t" + sh_str(s_) if s_ is not None else "gen_render\tN" for s_ in inf_na])
    n_na = 0
    for ss, s_, r in zip(na_sets, inf_na, txt_na):
        if s_ is None:
            continue
        try:
            its = genlib.parse_items(genlib.text_of(r))
        except (genlib.ParseError, TypeError) as e:
            ctx.fail("generated text for non-ASCII member names does not parse as items", "gen_render\t" + sh_str(s_), str(e)); continue
        fields = {f for it in its if it[0] == 'S' for f, _ in it[2]}
        for t in ss:
            doc = json.loads(t)
            objs = [doc] if isinstance(doc, dict) else [x for x in doc if isinstance(x, dict)]
            for o in objs:
                for k in o:
                    n_na += 1
                    if k == k.lower() and all(ch == "_" or ch.isalnum() for ch in k) and k not in fields:
                        ctx.fail("a source member has no field of its name in the generated types (no serde rename is emitted): it cannot deserialize / round-trip",
                                 "gen_render\t" + sh_str(s_), {"member": k, "fields": sorted(fields)[:12], "source": t[:200]})
    ctx.notes["non_ascii_member_names_checked"] = n_na
    if ctx.tier != "quick":
        run_batches(ctx, cases, ts, mi, items, encs, compiles, cls)

def rust_str(t):
    return 'r########"' + t + '"########'

def run_batches(ctx, cases, ts, mi, items, encs, compiles, cls):
    """compile AND run: real serde_derive / serde_json on the real generated code"""
    chosen = [i for i, ok in enumerate(compiles) if ok]
    sc = ctx.corr_scopes.setdefault("serde model (deser/reser) = real serde_json + derive, on sources and foreign documents",
                                    {"cases": 0, "disagreements": 0})
    allsrc = [t for ss, _, _ in cases for t in ss]
    stats = {"ran": 0, "real_ok": 0, "real_err": 0, "known": 0}
    for b0 in range(0, len(chosen), 60):
        batch = chosen[b0:b0 + 60]
        d = genlib.batch_dir("c15")
        for f in os.listdir(os.path.join(d, "src")):
            os.remove(os.path.join(d, "src", f))
        main = ["#![allow(warnings)]"]
        body = []
        probes = {}
        for n, ci in enumerate(batch):
            ss, s, docs = cases[ci]
            open(os.path.join(d, "src", "case%d.rs" % n), "w").write(
                "// Generated `JsonShape` file.\nuse serde;\n\n" + genlib.text_of(mi[ci]) + "\n")
            main.append('mod m%d { include!("case%d.rs"); }' % (n, n))
            root = items[ci][0][1]
            foreign = [ctx.rng.choice(allsrc) for _ in range(2)]
            probes[n] = [(t, True) for t in ss] + [(t, False) for t in foreign]
            for j, (t, _) in enumerate(probes[n]):
                body.append('    match serde_json::from_str::<m%d::%s>(%s) { Ok(v) => println!("%d %d OK {}", '
                            'serde_json::to_string(&v).unwrap()), Err(_) => println!("%d %d ERR") }'
                            % (n, root, rust_str(t), n, j, n, j))
        main.append("fn main() {\n" + "\n".join(body) + "\n}")
        open(os.path.join(d, "src", "main.rs"), "w").write("\n".join(main) + "\n")
        p = subprocess.run("cargo run --offline -q", shell=True, cwd=d, env=vlib.ENV, stdout=subprocess.PIPE,
                           stderr=subprocess.PIPE, text=True, timeout=1200)
        if p.returncode != 0:
            ctx.disagreements.append({"scope": "batch build", "case": "batch %d" % b0,
                                      "model": "every module passes the name-resolution check", "impl": p.stderr[-1500:]})
            continue
        real = {}
        for line in p.stdout.split("\n"):
            tok = line.split(" ", 3)
            if len(tok) >= 3 and tok[0].isdigit():
                real[(int(tok[0]), int(tok[1]))] = (tok[2], tok[3] if len(tok) > 3 else None)
        q, meta = [], []
        for n, ci in enumerate(batch):
            for j, (t, is_src) in enumerate(probes[n]):
                try:
                    dd = genlib.doc_of_json_text(t)
                except ValueError:
                    continue
                q.append("gen_deser_items\t%s\t%s" % (encs[ci], dd)); meta.append((n, ci, j, t, is_src, dd))
        res = ctx.model(q)
        nod = vlib.model_bools(["nodup\t" + m[5] for m in meta])
        mem = vlib.model_bools(["mem\t%s\t%s" % (m[5], ts[m[1]]) for m in meta])
        follow = []
        for (n, ci, j, t, is_src, dd), r, nd, mb in zip(meta, res, nod, mem):
            st, out = real.get((n, j), ("MISSING", None))
            sc["cases"] += 1
            ctx.evaluations += 1
            stats["ran"] += 1
            model_ok = r.startswith("OK ")
            agree = (st == "OK") == model_ok
            if agree and model_ok:
                agree = genlib.doc_of_json_text(out) == r.split(" ")[1]
            if not agree:
                sc["disagreements"] += 1
                if len(ctx.disagreements) < 50:
                    ctx.disagreements.append({"scope": "serde model", "case": "gen_deser_items\t%s\t%s" % (encs[ci], dd),
                                              "model": r, "impl": "%s %s" % (st, out), "source": t, "shape": ts[ci]})
            stats["real_ok" if st == "OK" else "real_err"] += 1
            if not is_src:
                continue
            # the property, with the real serde
            if st == "OK":
                follow.append((ci, t, dd, genlib.doc_of_json_text(out), cls[ci] and nd and mb))
            else:
                detail = {"shape": ts[ci], "source": t}
                if cls[ci] and nd and mb:
                    ctx.fail("serde_json rejects a source although the shape is in the proved class",
                             "gen_render\t" + ts[ci], detail)
                else:
                    stats["known"] += 1
                    ctx.fail("a source document does not deserialize into the generated root type (real serde)",
                             "gen_render\t" + ts[ci], detail, known=reason(None, nd, mb))
        ap = vlib.model_bools(["gen_approx\t%s\t%s" % (dd, od) for _, _, dd, od, _ in follow])
        for (ci, t, dd, od, inclass), a in zip(follow, ap):
            if a:
                if vlib.sh_depth(cases[ci][1]) >= 2:
                    ctx.nontrivial.add(ts[ci] + " real " + dd)
                continue
            detail = {"shape": ts[ci], "source": t, "reserialized": od}
            ctx.fail("re-serialized document differs from the source beyond number formatting / explicit nulls",
                     "gen_render\t" + ts[ci], detail, known=None if inclass else "KF3")
    ctx.notes["thorough"] = stats

def replay(rp):
    lines = [f["input"] for f in rp.get("failures", [])] + [d["case"] for d in rp.get("disagreements", []) if "\t" in str(d.get("case"))]
    for l, b in zip(lines, vlib.run_model(lines)):
        print("%s\n  model: %s" % (l[:300], b[:500]))
    for f in rp.get("failures", []):
        print("  detail:", json.dumps(f.get("detail"))[:600])
    return 1 if lines else 0
