"""C13 — generated code is a well-formed, self-contained Rust module."""
import vlib, genlib
from vlib import sh_str, parse_sh, hexs

RULE = ("correspondence: render (hook) and the bytes of the file compile_json writes, against the Gallina model, on the "
        "321 level-1 shapes, corner shapes, seeded random deep shapes and shapes json_shape 0.5.1 infers from real "
        "source sets. oracle (every case, quick tier): the implementation's REAL text is parsed into items; three "
        "verdicts must agree: an independent Python name-resolution check, the extracted wf_items on the parsed items, "
        "and the model's prediction wf_items(first_pass s); the header of the real file is judged by the extracted "
        "header_ok. A rejected module is a known finding iff the extracted good_names (hypothesis of "
        "C13_gen_wf_partial) is false for the shape / header_ok is false for the header, else a violation. "
        "oracle (thorough tier): real rustc via offline cargo check, one crate with one `mod mN { include!(..) }` per "
        "case, (A) files as written, (B) header neutralised (`//!` -> `//`; a no-op since fix F12) to expose the item-level classes; rustc's "
        "verdict per case must equal wf_module / wf_items. non-trivial = a shape of depth>=2; distinct = distinct shape")
ASSUMPTIONS = ["member names restricted to printable ASCII for model correspondence; other names are judged by the Python "
               "check on the implementation's text only",
               "wf_module => rustc accepts is validated on batches (thorough tier), not proved; edition 2024, serde 1 with derive",
               "non-ASCII identifiers (XID) are treated as illegal by the model's legal_ident (conservative)"]


def classify(s, opt_array_ok):
    """label of a good_names = false shape, for the KNOWN-FINDING id (the CLASS is decided by good_names)"""
    if genlib.has_inner_opt_array(s) and not opt_array_ok:
        return "F13"
    return "KF3"

def run(ctx):
    # "included in a module the way the documentation shows": a real crate whose build.rs calls compile_json and whose
    # modules use json_shape_build::include_json_shape! (harness/macroprobe --features real), rebuilt against /repo
    mp = genlib.macro_probe()
    ctx.notes["documented_include_round_trip_builds"] = mp["real"]
    ctx.evaluations += 1
    if mp["real"] is False:
        ctx.fail("a crate whose build.rs calls compile_json and whose module uses include_json_shape!, as documented, does not build",
                 "cd /verif/harness/macroprobe && cargo run --offline --features real",
                 {"macro_could_not_read": mp["real_unreadable"][:6], "cargo": (mp["real_error"] or "")[-800:]})
    n = 1500 if ctx.tier == "quick" else 20000
    pool, inferred = genlib.gen_pool(ctx, n, deep_chains=True)
    ascii_pool = [(s, p) for s, p in pool if genlib.printable_shape(s)]
    ts = [sh_str(s) for s, _ in ascii_pool]
    mi, _ = ctx.correspond(["gen_render\t" + t for t in ts], "render on shapes",
                           lambda l, r: l.count('(') + l.count('{') + l.count('[') >= 2)
    # ---- the written file (real sources through json_shape 0.5.1)
    sets = [(ss, s) for ss, s in inferred if s is not None and genlib.printable_shape(s)]
    il = ["compile\t%s\t%s\t%s" % (hexs("collection"), hexs("out"), "\t".join("T" + hexs(t) for t in ss)) for ss, _ in sets]
    ml = ["gen_file\t" + sh_str(s) for _, s in sets]
    ri, rm = ctx.impl(il), ctx.model(ml)
    sc = ctx.corr_scopes.setdefault("bytes of the file written by compile_json = model file_text", {"cases": 0, "disagreements": 0})
    headers = set()
    for l, a, b in zip(il, ri, rm):
        c = genlib.parse_compile(a)
        sc["cases"] += 1
        files = list(c["files"].values())
        if c["ret"] != "OK" or len(files) != 1 or "TEXT " + files[0].hex() != b:
            sc["disagreements"] += 1
            if len(ctx.disagreements) < 50:
                ctx.disagreements.append({"scope": "file bytes", "case": l, "model": b[:300], "impl": a[:300]})
        elif c["text"] is not None:
            txt = files[0].decode()
            headers.add(txt[:len(txt) - len(c["text"])])
    # ---- header
    for h in sorted(headers):
        ok_model = vlib.model_bools(["gen_header_ok_text\t" + (hexs(h) or '-')])[0]
        ok_py = not genlib.resolve_check([], h)
        if ok_model != ok_py:
            ctx.disagreements.append({"scope": "header verdict", "case": h, "model": ok_model, "impl": ok_py})
        if not ok_py:
            ctx.fail("the file header cannot be include!d inside a module (inner doc comment, E0753): no generated file compiles",
                     il[0], {"header": h}, known="F12")
    ctx.notes["headers_seen"] = sorted(headers)
    # ---- items: three verdicts
    parsed, encs = [], []
    for t, r in zip(ts, mi):
        try:
            it = genlib.parse_items(genlib.text_of(r))
            parsed.append(it); encs.append(genlib.enc_items(it))
        except (genlib.ParseError, TypeError) as e:
            parsed.append(None); encs.append(None)
            ctx.fail("generated text does not parse as Rust items of the three emitted forms", "gen_render\t" + t, str(e))
    idx = [i for i, e in enumerate(encs) if e is not None]
    v_model_items = vlib.model_bools(["gen_wf_items\t" + encs[i] for i in idx])
    v_model_pred = vlib.model_bools(["gen_wfi\t" + ts[i] for i in idx])
    good = vlib.model_bools(["gen_good\t" + ts[i] for i in idx])
    ctx.evaluations += len(idx)
    sc = ctx.corr_scopes.setdefault("verdicts: python name resolution = wf_items(parsed real text) = wf_items(first_pass s)",
                                    {"cases": 0, "disagreements": 0})
    stats = {"accepted": 0, "rejected_known": 0, "good_names_true": 0}
    opt_ok = vlib.model_bools(["gen_opt_array_ok"])[0]
    rej = {}
    for i, vi, vp, g in zip(idx, v_model_items, v_model_pred, good):
        s = ascii_pool[i][0]
        probs = genlib.resolve_check(parsed[i])
        vpy = not probs
        sc["cases"] += 1
        if not (vpy == vi == vp):
            sc["disagreements"] += 1
            if len(ctx.disagreements) < 50:
                ctx.disagreements.append({"scope": "wf verdicts", "case": "gen_render\t" + ts[i],
                                          "model": {"wf_items_parsed": vi, "wf_items_predicted": vp}, "impl": probs[:5]})
            if vpy != vi:
                continue        # the two judges of the REAL text disagree with each other: no verdict to act on
            # both judges agree on the implementation's real text and only the model's prediction differs:
            # the verdict on the real text stands and is judged below (a rejected module for a shape in the
            # proved class is a concrete failing input, not just a broken correspondence)
        if g:
            stats["good_names_true"] += 1
        if vpy:
            stats["accepted"] += 1
            if vlib.sh_depth(s) >= 2:
                ctx.nontrivial.add(ts[i])
            continue
        if g:
            ctx.fail("module rejected although the shape is in the proved class good_names", "gen_render\t" + ts[i], probs[:5])
            continue
        stats["rejected_known"] += 1
        kid = classify(s, opt_ok)
        rej.setdefault(kid, 0); rej[kid] += 1
        ctx.fail("generated module is not well formed: " + probs[0], "gen_render\t" + ts[i], probs[:5], known=kid)
    ctx.notes["items"] = stats
    ctx.notes["rejected_by_class"] = rej
    # ---- shapes outside the modelled domain: python verdict only
    rest = [(s, sh_str(s)) for s, _ in pool if not genlib.printable_shape(s)]
    for (s, t), r in zip(rest, ctx.impl(["gen_render\t" + t for _, t in rest])):
        try:
            probs = genlib.resolve_check(genlib.parse_items(genlib.text_of(r)))
        except (genlib.ParseError, TypeError) as e:
            probs = [str(e)]
        if probs:
            ctx.fail("generated module is not well formed (member name outside printable ASCII): " + probs[0],
                     "gen_render\t" + t, probs[:5], known="KF3")
    if ctx.tier != "quick":
        rustc_batches(ctx, ascii_pool, ts, mi, idx, dict(zip(idx, v_model_pred)))

def rustc_batches(ctx, ascii_pool, ts, mi, idx, pred):
    """real rustc.  Every case is judged in isolation (one rustc run per case: a fatal parse error in
    one included file would otherwise hide the errors of the other modules), (A) as written, (B) with
    the header neutralised; the cases accepted in isolation are then compiled together as ONE crate
    with one `mod mN { include!(..) }` per case."""
    rng = ctx.rng
    acc = [i for i in idx if pred[i]]
    rej = [i for i in idx if not pred[i]]
    pick = lambda l, k: [l[j] for j in sorted(rng.sample(range(len(l)), min(k, len(l))))]
    chosen = pick(acc, 250) + pick(rej, 250)
    hdr_ok = vlib.model_bools(["gen_header_ok"])[0]
    sc = ctx.corr_scopes.setdefault("rustc verdict = wf_module (as written) / wf_items (header neutralised)",
                                    {"cases": 0, "disagreements": 0})
    codes = {}
    HEADER = genlib.real_header(ctx)          # what compile_json really writes today
    for variant, header in (("A", HEADER), ("B", HEADER.replace("//!", "//"))):
        files = [header + genlib.text_of(mi[i]) + "\n" for i in chosen]
        errs = genlib.rustc_each(files)
        ok_cases = []
        for i, f, e in zip(chosen, files, errs):
            sc["cases"] += 1
            ctx.evaluations += 1
            for x in e:
                codes[x.split()[0]] = codes.get(x.split()[0], 0) + 1
            expect_ok = pred[i] and (hdr_ok if variant == "A" else True)
            if (not e) != expect_ok:
                sc["disagreements"] += 1
                if len(ctx.disagreements) < 50:
                    ctx.disagreements.append({"scope": "rustc " + variant, "case": "gen_render\t" + ts[i],
                                              "model": expect_ok, "impl": e[:4]})
            if not e:
                ok_cases.append(f)
            elif variant == "A" and hdr_ok and pred[i]:
                ctx.fail("rustc rejects the generated file", "gen_render\t" + ts[i], e[:4])
        for b0 in range(0, len(ok_cases), 50):
            be, other, rc = genlib.rustc_verdicts("c13", ok_cases[b0:b0 + 50])
            ctx.evaluations += 1
            if rc != 0:
                ctx.disagreements.append({"scope": "rustc one-crate batch " + variant, "case": "batch %d" % b0,
                                          "model": "all accepted in isolation", "impl": (other + sum(be, []))[:5]})
        ctx.notes["rustc_%s_accepted" % variant] = len(ok_cases)
    ctx.notes["rustc_cases_per_variant"] = len(chosen)
    ctx.notes["rustc_error_codes"] = codes

def replay(rp):
    lines = [f["input"] for f in rp.get("failures", [])] + [d["case"] for d in rp.get("disagreements", []) if "\t" in str(d.get("case"))]
    mi, mm = vlib.run_impl(lines), vlib.run_model(lines)
    for l, a, b in zip(lines, mi, mm):
        print("%s\n  impl : %s\n  model: %s" % (l, a[:500], b[:500]))
        t = genlib.text_of(a)
        if t is not None:
            try:
                print("  name-resolution check on the implementation's text:", genlib.resolve_check(genlib.parse_items(t)))
            except genlib.ParseError as e:
                print("  parse error:", e)
    return 1 if lines else 0
