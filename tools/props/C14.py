"""C14 — generated types mirror the inferred shape."""
import vlib, genlib
from vlib import sh_str, parse_sh, hexs

RULE = ("correspondence: render (hook) byte-for-byte against the Gallina model on the 321 level-1 shapes, corner "
        "shapes, seeded random deep shapes and shapes json_shape 0.5.1 infers from real source sets (printable-ASCII "
        "member names); translation validation: the implementation's text parsed by an independent item parser equals "
        "the model's item list. oracle: the extracted decode applied to the items parsed from the implementation's REAL "
        "output must give erase(shape) (member names compared through to_snake); a mismatch is a known finding iff the "
        "extracted predicate decodable (the hypothesis of C14_decode_gen_partial) is false for the shape, else a "
        "violation. non-trivial = a shape with depth>=2 whose decode succeeded; distinct = distinct shape")
ASSUMPTIONS = ["member names restricted to printable ASCII (convert_case model domain); shapes with other names are rendered and "
               "parsed on the implementation side only",
               "the item parser is the inverse of codegen's layout for the three item forms the generator emits; it is itself "
               "validated against the model's item list on every case",
               "tuples of arity 0/1 are excluded by the carve-out; every shape obtained from real sources is checked to contain none"]

def run(ctx):
    n = 1500 if ctx.tier == "quick" else 30000
    pool, inferred = genlib.gen_pool(ctx, n)
    ascii_pool = [(s, p) for s, p in pool if genlib.printable_shape(s)]
    ts = [sh_str(s) for s, _ in ascii_pool]
    mi, _ = ctx.correspond(["gen_render\t" + t for t in ts], "render on shapes",
                           lambda l, r: l.count('(') + l.count('{') + l.count('[') >= 2)
    # inference never yields tuples narrower than 2
    for ss, s in inferred:
        if s is not None and genlib.min_tuple_arity(s) < 2:
            ctx.fail("json_shape 0.5.1 inferred a tuple of arity < 2 (the carve-out assumes it never does)",
                     "gen_infer051\t" + "\t".join(hexs(t) for t in ss), sh_str(s))
    # end to end: compile_json on real files - plain, under one base name in different directories, and with the
    # first path listed again - must return the rendering of the shape inferred from the sources AS LISTED
    # (repetitions included: merging is not idempotent once a union has formed in between); where it does not,
    # the decode oracle below judges the text compile_json really returned
    sets = [ss for ss in (genlib.SOURCE_SETS + [['{"a":null}', '{"a":1}', '{"a":"x"}'], ['[null]', 'null', '[1]'], ['{"k":[]}', '{"k":[1]}', '{"k":null}']])
            if len(ss) >= 1][: (40 if ctx.tier == "quick" else 80)]
    lay = []
    for ss in sets:
        lay.append((ss, [("T", t) for t in ss]))
        if len(ss) >= 2:
            lay.append((ss, [("S", t) for t in ss]))
        lay.append((ss + [ss[0]], [("T", t) for t in ss] + [("R", 0)]))
    inf, _ = genlib.infer051(ctx, [l for l, _ in lay])
    e2e = [(l, sp, sh) for (l, sp), sh in zip(lay, inf) if sh is not None and genlib.printable_shape(sh)]
    cl = ["compile\t%s\t%s%s" % (hexs("e2e"), hexs("out"), "".join("\t" + k + (hexs(t) if k in "TS" else str(t)) for k, t in sp)) for _, sp, _ in e2e]
    sc2 = ctx.corr_scopes.setdefault("compile_json(real files) returns render(shape inferred from the sources as listed)", {"cases": 0, "disagreements": 0})
    et = [sh_str(sh) for _, _, sh in e2e]
    er = ctx.impl(["gen_render\t" + t for t in et])
    for t, l, r, rr in zip(et, cl, ctx.impl(cl), er):
        c = genlib.parse_compile(r)
        sc2["cases"] += 1
        if c["ret"] != "OK":
            continue
        text = rr
        if c["text"] != genlib.text_of(rr):
            sc2["disagreements"] += 1
            ctx.disagreements.append({"scope": "compile_json end to end", "case": l[:300], "model": (genlib.text_of(rr) or "")[:300], "impl": c["text"][:300]})
            text = "TEXT " + c["text"].encode().hex()
        ascii_pool.append((parse_sh(t), "end-to-end")); ts.append(t); mi = list(mi) + [text]
    # parse the implementation's text
    encs, bad_parse = [], 0
    for t, r in zip(ts, mi):
        try:
            encs.append(genlib.enc_items(genlib.parse_items(genlib.text_of(r))))
        except (genlib.ParseError, TypeError) as e:
            encs.append(None); bad_parse += 1
            ctx.fail("generated text is not parseable as the three item forms", "gen_render\t" + t, str(e))
    mitems = ctx.model(["gen_items\t" + t for t in ts])
    sc = ctx.corr_scopes.setdefault("parsed implementation text = model item list", {"cases": 0, "disagreements": 0})
    for t, e, m in zip(ts, encs, mitems):
        if e is None:
            continue
        sc["cases"] += 1
        if "ITEMS " + (e if e != '-' else '') != m:
            sc["disagreements"] += 1
            if len(ctx.disagreements) < 50:
                ctx.disagreements.append({"scope": "items", "case": "gen_items\t" + t, "model": m[:300], "impl": e[:300]})
    # oracle: decode(real items) = erase(shape)
    idx = [i for i, e in enumerate(encs) if e is not None]
    dec = ctx.model(["gen_decode_items\t" + encs[i] for i in idx])
    era = ctx.model(["gen_erase\t" + ts[i] for i in idx])
    cls = vlib.model_bools(["gen_decodable\t" + ts[i] for i in idx])
    inj = vlib.model_bools(["gen_names_inj\t" + ts[i] for i in idx])
    ctx.evaluations += len(idx)
    stats = {"decoded_equal": 0, "KF3": 0, "F13": 0, "KF4": 0}
    opt_ok = vlib.model_bools(["gen_opt_array_ok"])[0]
    for i, d, e, c, nj in zip(idx, dec, era, cls, inj):
        s = ascii_pool[i][0]
        if d == e:
            stats["decoded_equal"] += 1
            if vlib.sh_depth(s) >= 2:
                ctx.nontrivial.add(ts[i])
            if not c and ascii_pool[i][1] != "level1":
                pass                      # the carve-out is sufficient, not necessary
            continue
        if c:
            ctx.fail("decoded items differ from the shape although the shape is in the proved class", "gen_render\t" + ts[i],
                     {"decoded": d, "expected": e})
            continue
        kid = "KF4" if not nj else ("F13" if genlib.has_inner_opt_array(s) and not opt_ok else "KF3")
        stats[kid] += 1
        ctx.fail("generated items do not mirror the shape", "gen_render\t" + ts[i], {"decoded": d, "expected": e}, known=kid)
    ctx.notes["oracle"] = stats
    ctx.notes["pool"] = {p: sum(1 for _, q in ascii_pool if q == p) for p in set(q for _, q in ascii_pool)}
    ctx.notes["non_ascii_shapes_impl_only"] = len(pool) - len(ascii_pool)
    # shapes outside the modelled domain: the implementation must still render parseable items
    rest = [sh_str(s) for s, _ in pool if not genlib.printable_shape(s)]
    for t, r in zip(rest, ctx.impl(["gen_render\t" + t for t in rest])):
        try:
            genlib.parse_items(genlib.text_of(r))
        except (genlib.ParseError, TypeError) as e:
            ctx.fail("generated text is not parseable as the three item forms", "gen_render\t" + t, str(e))

def replay(rp):
    lines = [f["input"] for f in rp.get("failures", [])] + [d["case"] for d in rp.get("disagreements", [])]
    mi, mm = vlib.run_impl(lines), vlib.run_model(lines)
    for l, a, b in zip(lines, mi, mm):
        print("%s\n  impl : %s\n  model: %s" % (l, a[:500], b[:500]))
    return 1 if lines else 0
