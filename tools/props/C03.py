"""C03 — a shape accepts every sample it was inferred from."""
import vlib
from vlib import sh_str, parse_sh, doc_str

RULE = ("correspondence: from_sources on sequences (all pairs over a 60-document base + random sequences up to length 6), "
        "is_superset / is_superset_checked / is_subset of every source against the merged shape, is_subset(s,s) on level-1 and "
        "random deep shapes. oracle: the property statement itself on the implementation; a failure whose merged shape is "
        "OneOf-free (decided by the extracted oneof_free) is an unlisted violation, the complement is known class KF2. "
        "violation search: when the correspondence breaks and no unlisted rejection was found, the disagreeing sequences are varied (rotations, one more pool document at every position) and judged the same way. non-trivial = sequence with >=2 distinct sources; distinct = distinct (sequence, source) pair")
ASSUMPTIONS = ["documents rendered canonically", "known class KF2 = merged shape has a OneOf node with a variant that is not a non-optional scalar (decidable predicate scalar_oneofs from Model/OneOfClass.v = false)"]

def eval_seqs(ctx, seqs, tag):
    """the property statement on the implementation for every sequence; returns the (sequence, source, merged) triples"""
    lines = ["from_sources\t" + "\t".join(s) for s in seqs]
    res, _ = ctx.correspond(lines, "from_sources on sequences" + tag, lambda l, r: len(set(l.split("\t")[1:])) >= 2)
    if res and res[0] is None:
        return None
    docs = list(dict.fromkeys(d for s in seqs for d in s))
    single = dict(zip(docs, ctx.impl(["infer_text\t" + d for d in docs])))
    q, meta = [], []
    for s, l, r in zip(seqs, lines, res):
        if not r.startswith("OK "):
            continue
        for d in dict.fromkeys(s):
            sd = single[d]
            if not sd.startswith("OK "):
                continue
            q += ["superset\t%s\t%s" % (r[3:], d), "superset_checked\t%s\t%s" % (r[3:], d),
                  "subset\t%s\t%s" % (sd[3:], r[3:])]
            meta.append((l, d, r[3:]))
    out, outm = ctx.correspond(q, "is_superset / is_superset_checked / is_subset of each source against the merged shape" + tag,
                               lambda l, r: r == "BOOL 1")
    bad = []
    for i, (l, d, m) in enumerate(meta):
        a, b, c = out[3 * i: 3 * i + 3]
        if (a, b, c) != ("BOOL 1", "BOOL 1", "BOOL 1"):
            bad.append((l, d, m, [a, b, c], list(outm[3 * i: 3 * i + 3])))
    ctx.notes["_rej"] = ctx.notes.get("_rej", 0) + len(bad)
    if bad:
        of = vlib.model_bools(["scalar_oneofs\t" + m for _, _, m, _, _ in bad])
        for (l, d, m, r, rm), free in zip(bad, of):
            # KF2 is the recorded defect of the code as modelled: a rejection that the model of the recorded code does
            # NOT share (model answers yes three times on the very same merged shape) is a different violation
            recorded = rm != ["BOOL 1", "BOOL 1", "BOOL 1"]
            ctx.fail("merged shape does not accept one of its own sources", l,
                     {"source": d, "merged": m, "answers": r, "answers_of_the_model_of_the_recorded_code": rm},
                     known="KF2" if (not free and recorded) else None)
    if not hasattr(ctx, "_seq_of"):
        ctx._seq_of = {}
    for s, l, r in zip(seqs, lines, res):
        if r.startswith("OK "):
            ctx._seq_of.setdefault(r[3:], []).append(list(s))
    return meta

def run(ctx):
    base = [doc_str(d) for d in vlib.BASE_DOCS]
    seqs = [[a] for a in base] + [[a, b] for a in base for b in base]
    pool = base + [doc_str(vlib.rand_doc(ctx.rng, 3)) for _ in range(300)]
    for _ in range(1500 if ctx.tier == "quick" else 40000):
        k = ctx.rng.choice([2, 3, 3, 4, 5, 6])
        seqs.append([ctx.rng.choice(pool) for _ in range(k)])
    seqs += [[doc_str(d) for d in s] for s in vlib.scale_seqs()]       # scale / rare-feature stream
    meta = eval_seqs(ctx, seqs, "")
    if meta is None:
        return
    # ---- violation search: the correspondence broke but no source was rejected outside the recorded class:
    # look for a failing sequence in the neighbourhood of the disagreeing cases (one more document of the pool
    # inserted at every position, and every rotation), judged exactly as above
    if ctx.disagreements and not ctx.failures:
        near = []
        for dis in ctx.disagreements[:24]:
            f = dis["case"].split("\t")
            if f[0] == "from_sources":
                near.append(f[1:])
            elif f[0] in ("superset", "superset_checked", "subset"):
                near += [sq for sq in ctx._seq_of.get(f[-1] if f[0] == "subset" else f[1], [])][:2]
        cand, seen = [], set()
        for sq in near[:24]:
            var = [sq[i:] + sq[:i] for i in range(1, len(sq))]
            for d in pool[:400]:
                var += [sq[:pos] + [d] + sq[pos:] for pos in range(len(sq) + 1)]
            for v in var:
                if tuple(v) not in seen:
                    seen.add(tuple(v)); cand.append(v)
        ctx.notes["violation_search_sequences"] = len(cand)
        if cand:
            eval_seqs(ctx, cand, " (violation search around the disagreeing cases)")
    ctx.notes["source_checks"] = len(meta)
    merged = list(dict.fromkeys(m for _, _, m in meta))
    cls = dict(zip(merged, vlib.model_bools(["scalar_oneofs\t" + m for m in merged])))
    fre = dict(zip(merged, vlib.model_bools(["oneof_free\t" + m for m in merged])))
    ctx.notes["source_checks_in_theorem_class"] = sum(1 for _, _, m in meta if cls[m])
    ctx.notes["source_checks_in_theorem_class_with_a_OneOf"] = sum(1 for _, _, m in meta if cls[m] and not fre[m])
    ctx.notes["rejected_own_source"] = ctx.notes.get("_rej", 0)
    ctx.notes.pop("_rej", None)
    # every shape is accepted by itself
    shapes = vlib.level1() + [vlib.rand_shape(ctx.rng, 4) for _ in range(1500 if ctx.tier == "quick" else 30000)]
    ls = ["subset\t%s\t%s" % (sh_str(s), sh_str(s)) for s in shapes] + ["subset\t%s\t%s" % (t, t) for t in vlib.scale_shapes()]
    out, _ = ctx.correspond(ls, "is_subset(s, s)", lambda l, r: l.count("(") + l.count("{") + l.count("[") >= 4)
    for l, r in zip(ls, out):
        if r != "BOOL 1":
            ctx.fail("shape is not accepted by itself", l, r)

def replay(rp):
    lines = [f["input"] for f in rp.get("failures", [])] + [d["case"] for d in rp.get("disagreements", [])]
    mi, mm = vlib.run_impl(lines), vlib.run_model(lines)
    for l, a, b in zip(lines, mi, mm):
        print("%s\n  impl : %s\n  model: %s" % (l, a, b))
    return 1 if lines else 0
