"""C10 — subset is reflexive and respects optional widening; similar laws."""
import vlib
from vlib import sh_str, parse_sh, is_opt

RULE = ("correspondence: is_subset / similar / is_optional on all ordered pairs of the 321 level-1 shapes "
        "plus seeded random deep shapes and related (mutated) pairs; oracle: the six C10 statements evaluated "
        "on the implementation's own answers. non-trivial = a pair the implementation answers true/Some for "
        "with distinct operands, or a shape of depth >= 2 in the oracle pool; distinct = distinct case line")
ASSUMPTIONS = ["shapes reach the implementation through BTreeSet/BTreeMap, i.e. satisfy wf",
               "as_optional is crate-private: the oracle recomputes it on the harness side by flipping the top flag"]

def set_flag(s, f):
    return s if s[0] == 'N' else (s[0], f) + tuple(s[2:])

def pools(ctx):
    l1 = vlib.level1()
    n_rand = 1500 if ctx.tier == "quick" else 20000
    deep = [vlib.rand_shape(ctx.rng, 4) for _ in range(n_rand)]
    rel = [(s, vlib.mutate_shape(ctx.rng, s)) for s in deep] + vlib.structured_pairs(stride=1 if ctx.tier != 'quick' else 3)
    rel += [(vlib.parse_sh(a), vlib.parse_sh(b)) for a, b in vlib.scale_shape_pairs()]         # scale / rare-feature stream
    return l1, deep, rel

def run(ctx):
    l1, deep, rel = pools(ctx)
    l1s = [sh_str(s) for s in l1]
    # ---- correspondence
    lines = []
    for a in l1s:
        for b in l1s:
            lines.append("subset\t%s\t%s" % (a, b))
    nt = lambda l, r: r in ("BOOL 1",) and l.split("\t")[1] != l.split("\t")[2]
    ctx.correspond(lines, "is_subset level-1 pairs", nt)
    lines = ["similar\t%s\t%s" % (a, b) for a in l1s for b in l1s]
    ctx.correspond(lines, "similar level-1 pairs", lambda l, r: r.startswith("OK") and l.split("\t")[1] != l.split("\t")[2])
    lines = ["isopt\t" + a for a in l1s] + ["isopt\t" + sh_str(s) for s in deep]
    ctx.correspond(lines, "is_optional")
    lines = []
    for a, b in rel:
        sa, sb = sh_str(a), sh_str(b)
        lines += ["subset\t%s\t%s" % (sa, sb), "subset\t%s\t%s" % (sb, sa),
                  "similar\t%s\t%s" % (sa, sb), "similar\t%s\t%s" % (sb, sa)]
    ctx.correspond(lines, "subset/similar on random related deep pairs",
                   lambda l, r: r != "BOOL 0" and r != "NONE")
    # ---- oracle: the statements on the implementation
    pool = l1 + deep + [b for _, b in rel]
    ls = []
    for s in pool:
        t = sh_str(s)
        ls.append("subset\t%s\t%s" % (t, t))
        ls.append("subset\t%s\t%s" % (t, sh_str(set_flag(s, True))))
        ls.append("subset\tN\t%s" % t)
        ls.append("similar\t%s\t%s" % (t, sh_str(set_flag(s, not is_opt(s)))))
    out = ctx.impl(ls)
    for i, s in enumerate(pool):
        t = sh_str(s)
        r = out[4 * i:4 * i + 4]
        if vlib.sh_depth(s) >= 2:
            ctx.nontrivial.add("oracle " + t)
        if r[0] != "BOOL 1":
            ctx.fail("shape is not a subset of itself", ls[4 * i], r[0])
        if r[1] != "BOOL 1":
            ctx.fail("shape is not a subset of its optional form", ls[4 * i + 1], r[1])
        if is_opt(s) and r[2] != "BOOL 1":
            ctx.fail("null is not a subset of an optional shape", ls[4 * i + 2], r[2])
        if s[0] != 'N':
            exp = "OK " + sh_str(set_flag(s, True))
            if r[3] != exp:
                ctx.fail("similar(s, s with flipped flag) is not the optional form", ls[4 * i + 3], r[3])
    # similar laws on pairs: result equals both up to flag, optional iff either, symmetric, inputs subset
    pairs = [(a, b) for a, b in rel] + [(a, set_flag(a, True)) for a in deep[:500]]
    ls = []
    for a, b in pairs:
        ls += ["similar\t%s\t%s" % (sh_str(a), sh_str(b)), "similar\t%s\t%s" % (sh_str(b), sh_str(a))]
    out = ctx.impl(ls)
    follow = []
    for i, (a, b) in enumerate(pairs):
        r1, r2 = out[2 * i], out[2 * i + 1]
        if r1 != r2:
            ctx.fail("similar is not symmetric", ls[2 * i], [r1, r2])
        if r1.startswith("OK "):
            c = parse_sh(r1[3:])
            if set_flag(c, False) != set_flag(a, False) or set_flag(c, False) != set_flag(b, False):
                ctx.fail("similar result differs from an input beyond the top flag", ls[2 * i], r1)
            if is_opt(c) != (is_opt(a) or is_opt(b)):
                ctx.fail("similar result optional flag is not the disjunction", ls[2 * i], r1)
            follow.append((a, b, c))
        else:
            if set_flag(a, False) == set_flag(b, False):
                ctx.fail("shapes equal up to the flag are not reported similar", ls[2 * i], r1)
    ls = []
    for a, b, c in follow:
        ls += ["subset\t%s\t%s" % (sh_str(a), sh_str(c)), "subset\t%s\t%s" % (sh_str(b), sh_str(c))]
    out = ctx.impl(ls)
    for l, r in zip(ls, out):
        if r != "BOOL 1":
            ctx.fail("input of similar is not a subset of the result", l, r)
    ctx.notes["oracle_pool"] = len(pool)
    ctx.notes["similar_some"] = len(follow)

def replay(rp):
    lines = [f["input"] for f in rp.get("failures", [])] + [d["case"] for d in rp.get("disagreements", [])]
    mi, mm = vlib.run_impl(lines), vlib.run_model(lines)
    for l, a, b in zip(lines, mi, mm):
        print("%s\n  impl : %s\n  model: %s" % (l, a, b))
    return 1 if lines else 0
