"""C16 — the build-time compiler is deterministic and consistent with its include macro."""
import os, itertools
import vlib, genlib
from vlib import sh_str, parse_sh, hexs

RULE = ("correspondence: shape_name / shape_representation / render (hooks) against the Gallina model on the 321 "
        "level-1 shapes, hand-written corner shapes and seeded random deep shapes (printable-ASCII member names); "
        "convert_case to_case(Snake|Pascal) and checksum CRC-32 {:X} against the model on all strings of length<=3 over "
        "an 11-character class alphabet, all printable pairs and random strings; compile_json (real files, real "
        "OUT_DIR / cwd, child process) against compile_json_m: return value, file path, file bytes, stdout lines. "
        "oracle on the implementation: two runs in one process and two processes give identical bytes; exactly one "
        "file = header + returned text at the path include_json_shape! reads for that name (OBSERVED: harness/macroprobe "
        "shadows include! to capture the macro's path expression for 11 collection names, and builds a crate whose build.rs "
        "calls compile_json and whose modules include the result through the real macro; the model's macro_path is compared "
        "with the captured path); error / unreadable / empty inputs leave no file; equal shapes get equal names; a collision "
        "search for different shapes with one name. non-trivial = a compile case that wrote a file for a "
        "container-rooted shape, or a shape of depth>=2; distinct = distinct case line")
ASSUMPTIONS = ["member names restricted to printable ASCII for model correspondence (convert_case / codegen are modelled "
               "on that domain); other names are exercised on the implementation-side oracle only",
               "collection names are file names (no '/'); OUT_DIR exists; unix paths; OUT_DIR values that are not UTF-8 and source files of 100 kB .. 1.5 MB are included "
               "(the former on the implementation-side oracle only)",
               "known classes decided by the extracted predicates plain_dir / plain_name (F14) and by "
               "'different shapes, equal shape_name' (KF4: the refuted injectivity clause has no true carve-out)",
               "json_shape 0.5.1 (the version the build crate links) is observed through gen_infer051; a panic inside it "
               "(empty array) is reported in notes, compile_json then panics and writes nothing"]

NAMES = ['collection', 'a.b', 'x.json', '.hidden', 'a b', 'v1.2.3', 'é', 'name.']
DIRS = ['out', 'out.d', 'o ut', '-']

def strings(ctx):
    alpha = "abAB12_- .$"
    out = [''.join(p) for n in range(0, 4) for p in itertools.product(alpha, repeat=n)]
    pr = [chr(c) for c in range(32, 127)]
    out += [a + b for a in pr for b in pr]
    n = 3000 if ctx.tier == "quick" else 60000
    out += [''.join(ctx.rng.choice(pr) for _ in range(ctx.rng.randrange(1, 14))) for _ in range(n)]
    out += [''.join(ctx.rng.choice("abcXYZ019_- ") for _ in range(ctx.rng.randrange(1, 16))) for _ in range(n)]
    if ctx.tier != "quick":
        out += [''.join(p) for p in itertools.product("aA1_- .b", repeat=5)]
    return list(dict.fromkeys(out))

def shape_pool(ctx):
    n = 2000 if ctx.tier == "quick" else 40000
    pool = vlib.level1() + genlib.special_shapes() + genlib.good_family() + genlib.rand_shapes(ctx.rng, n)
    return [s for s in pool if genlib.printable_shape(s)]

def run(ctx):
    # ---------------------------------------------------------------- naming / rendering
    pool = shape_pool(ctx)
    ts = list(dict.fromkeys(sh_str(s) for s in pool))
    lines = [op + "\t" + t for t in ts for op in ("gen_name", "gen_repr", "gen_render")]
    mi, _ = ctx.correspond(lines, "shape_name / shape_representation / render on shapes",
                           lambda l, r: l.count('(') + l.count('{') + l.count('[') >= 2)
    strs = strings(ctx)
    lines = []
    for x in strs:
        h = hexs(x) or '-'
        lines += ["gen_case\tsnake\t" + h, "gen_case\tpascal\t" + h, "gen_crc\t" + h]
    ctx.correspond(lines, "convert_case Snake/Pascal and CRC-32 on strings")
    # oracle: names are a function of the shape (same shape asked twice), collisions of different shapes
    names = {}
    for t, r in zip(ts, mi[0::3]):
        names.setdefault(r, []).append(t)
    again = ctx.impl(["gen_name\t" + t for t in ts[:2000]])
    for t, a, b in zip(ts, mi[0::3], again):
        if a != b:
            ctx.fail("shape_name of one shape differs between two calls", "gen_name\t" + t, [a, b])
    # determinism of the rendered text itself: the same shapes rendered again in other processes (another
    # hash seed, another allocation pattern) must give byte-identical text
    for rnd in range(2):
        again = ctx.impl(["gen_render\t" + t for t in ts[:3000]])
        for t, a, b in zip(ts, mi[2::3], again):
            if a != b:
                ctx.fail("rendering the same shape twice (two processes) gives different text", "gen_render\t" + t,
                         {"first": genlib.text_of(a)[:300] if a.startswith("TEXT ") else a[:100],
                          "second": genlib.text_of(b)[:300] if b.startswith("TEXT ") else b[:100]})
                break
    coll = [(genlib.text_of(n), v) for n, v in names.items() if len(v) > 1]
    ctx.notes["name_collisions_found"] = len(coll)
    # the known class KF4 is "member NAMES are not hashed (and case is folded)": exactly the collisions the model
    # of the code as it is has too.  A collision between shapes the model names DIFFERENTLY is new.
    mname = dict(zip(ts, ctx.model(["gen_name\t" + t for t in ts])))
    # how many of the collisions are inside the class the theorem C16_name_collision_class describes
    # (same_types: equal constructors, flags and member / variant / element TYPES in order)
    cp = [(v[0], t) for _, v in coll for t in v[1:]][:3000]
    st = vlib.model_bools(["gen_same_types\t%s\t%s" % p for p in cp]) if cp else []
    ctx.notes["colliding_pairs_checked"] = len(cp)
    ctx.notes["colliding_pairs_in_class_same_types"] = sum(st)
    n_known = 0
    for n, v in coll:
        fresh = [t for t in v[1:] if mname.get(t) != mname.get(v[0])]
        if fresh:
            ctx.fail("different shapes receive the same generated type name (and the model of the code names them differently)",
                     "gen_name\t" + v[0], {"name": n, "shapes": [v[0][:300], fresh[0][:300]]})
        elif not n_known:
            n_known = 1
            ctx.fail("different shapes receive the same generated type name", "gen_name\t" + v[0],
                     {"name": n, "shapes": v[:4]}, known="KF4")
    # ---------------------------------------------------------------- the include macro itself, observed
    # (harness/macroprobe, rebuilt against /repo: `include!` shadowed so that the macro's path expression is
    #  captured, and a real build.rs + include_json_shape! round trip as the documentation shows)
    mp = genlib.macro_probe()
    observed = mp["shadow"] or {}
    ctx.notes["macro_probe"] = {"shadow_names": len(observed), "shadow_error": mp["shadow_error"], "real_build": mp["real"]}
    def macro_reads(dirrel, name):
        r = observed.get(name)
        if r is None:
            r = "$OUT/%s.gen.shape.rs" % name          # names outside the probe list: the documented template
        return os.path.normpath(dirrel + r[len("$OUT"):]) if r.startswith("$OUT") else r
    if observed:
        pn = sorted(observed)
        sc = ctx.corr_scopes.setdefault("path handed to include! by include_json_shape! = model macro_path", {"cases": 0, "disagreements": 0})
        for n, m in zip(pn, ctx.model(["gen_macro_path\t%s\t%s" % (hexs("$OUT"), hexs(n)) for n in pn])):
            sc["cases"] += 1
            ctx.evaluations += 1
            got = "TEXT " + hexs(observed[n])
            if m != got:
                sc["disagreements"] += 1
                ctx.disagreements.append({"scope": "include macro path", "case": "gen_macro_path\t%s\t%s" % (hexs("$OUT"), hexs(n)),
                                          "model": m, "impl": got})
        il = ["compile\t%s\t%s\tT%s" % (hexs(n), hexs("out"), hexs('{"a":1,"b":[true]}')) for n in pn]
        for n, l, r in zip(pn, il, ctx.impl(il)):
            ci = genlib.parse_compile(r)
            if ci["ret"] != "OK" or len(ci["files"]) != 1:
                ctx.fail("compile_json of a plain object under a probe collection name did not write exactly one file", l, r[:200])
            elif list(ci["files"])[0] != macro_reads("out", n):
                ctx.fail("the include macro does not read the file compile_json writes for the same collection name", l,
                         {"collection": n, "written": list(ci["files"])[0], "macro_reads": macro_reads("out", n)})
            else:
                ctx.nontrivial.add(l)
    if mp["real"] is False:
        # concrete input: the collections of harness/macroprobe/names.rs compiled by build.rs and included by the macro
        ctx.fail("a crate whose build.rs calls compile_json and whose module uses include_json_shape!, as documented, does not build",
                 "cd /verif/harness/macroprobe && cargo run --offline --features real",
                 {"macro_could_not_read": mp["real_unreadable"][:6], "cargo": (mp["real_error"] or "")[-800:]})
    elif not observed:
        ctx.notes["macro_probe_note"] = ("the macro no longer expands to a plain include!(..): its path could not be captured; "
                                         "the real build.rs + include_json_shape! round trip builds, so it reads what compile_json writes")
    # ---------------------------------------------------------------- compile_json
    sets = list(genlib.SOURCE_SETS) + genlib.doc_sources(ctx.rng, 60 if ctx.tier == "quick" else 1500)
    inf, raw = genlib.infer051(ctx, sets)
    cases = []
    for i, ss in enumerate(sets):
        for name in (NAMES if i < 12 else [ctx.rng.choice(NAMES)]):
            for d in (DIRS if i < 6 else [ctx.rng.choice(DIRS)]):
                cases.append((ss, name, d, [("T", t) for t in ss], raw[i]))
    # unreadable / invalid / empty (what json_shape 0.5.1 makes of the invalid texts is observed, not assumed)
    _, bad_raw = genlib.infer051(ctx, genlib.BAD_SOURCE_SETS[1:])
    valid = {}
    alltexts = sorted({t for ss in sets + genlib.BAD_SOURCE_SETS for t in ss})
    for t, r in zip(alltexts, ctx.impl(["serde_ok\t" + (hexs(t) or "") for t in alltexts])):
        valid[t] = r == "BOOL 1"
    # OUT_DIR values that are not UTF-8 (possible on unix) and source files larger than any fixed buffer:
    # judged by the implementation-side oracle (path the macro reads, header + returned text, determinism);
    # big sources also go through the model (inference result observed through gen_infer051 on the full text)
    odd_dirs = [b"out-\xff\xfe".decode("utf-8", "surrogateescape"), b"\xe9t\xe9".decode("utf-8", "surrogateescape")]
    for od in odd_dirs:
        for ss, r in list(zip(sets, raw))[:4]:
            cases.append((ss, 'odd', od, [("T", t) for t in ss], r))
    big_sets = genlib.BIG_SOURCE_SETS
    _, big_raw = genlib.infer051(ctx, big_sets)
    for ss, r in zip(big_sets, big_raw):
        cases.append((ss, 'big', 'out', [("T", t) for t in ss], r))
    ctx.notes["odd_out_dir_cases"] = 2 * 4
    ctx.notes["big_source_cases"] = [sum(len(t) for t in ss) for ss in big_sets]
    # sources that share one base name in different directories (and one path listed twice)
    for ss, r in list(zip(sets, raw))[:8]:
        if len(ss) >= 2:
            cases.append((ss, 'same', 'out', [("S", t) for t in ss], r))
    ctx.notes["same_base_name_cases"] = sum(1 for c in cases if c[3] and c[3][0][0] == "S")
    # the same path listed twice (and three times), directories with a trailing slash / nested, names with
    # leading / trailing spaces
    i2 = [i for i, ss in enumerate(sets[:12]) if raw[i].startswith("OK ")]
    for i in i2[:5]:
        ss = sets[i]
        rr = genlib.infer051(ctx, [ss + [ss[0]], ss + [ss[0], ss[0]]])[1]
        cases.append((ss + [ss[0]], 'twice', 'out', [("T", t) for t in ss] + [("R", 0)], rr[0]))
        cases.append((ss + [ss[0], ss[0]], 'twice', 'out', [("T", t) for t in ss] + [("R", 0), ("R", 0)], rr[1]))
    for nm, dd in ((' lead', 'out'), ('trail ', 'out'), ('collection', 'out/'), ('collection', 'a/b'), ('x', 'out//')):
        for i in i2[:2]:
            cases.append((sets[i], nm, dd, [("T", t) for t in sets[i]], raw[i]))
    for name, d in (('collection', 'out'), ('a.b', '-')):
        cases.append((None, name, d, [("M", None)], "ERR"))
        cases.append((None, name, d, [("D", None)], "ERR"))
        cases.append((None, name, d, [("T", '{"a":1}'), ("M", None), ("T", '1')], "ERR"))
        cases.append((None, name, d, [], "ERR Infer"))
        for bad, r in zip(genlib.BAD_SOURCE_SETS[1:], bad_raw):
            cases.append((bad, name, d, [("T", t) for t in bad], r))
    ilines, mlines = [], []
    for ss, name, d, specs, infres in cases:
        sp = "\t".join(k + (hexs(t) if k in "TS" else (str(t) if k == "R" else "")) for k, t in specs)
        ilines.append("compile\t%s\t%s%s" % (hexs(name), '-' if d == '-' else hexs(d), ("\t" + sp) if sp else ""))
        if infres.startswith("OK "):
            ia = "S" + infres[3:]
        elif infres == "PANIC":
            ia = "P"
        else:
            ia = "E"
        def spath(j):
            k, t = specs[j]
            return spath(t) if k == "R" else ("$R/src/d%d/sample.json" % j if k == "S" else "$R/src/s%d.json" % j)
        def sread(j):
            k, t = specs[j]
            return sread(t) if k == "R" else ("R" if k in "TS" else "X")
        srcs = "\t".join("%s:%s" % (hexs(spath(j)), sread(j)) for j in range(len(specs)))
        mlines.append("gen_compile\t%s\t%s\t%s\t%s\t1%s" % (hexs(name), '-' if d == '-' else hexs("$R/" + d),
                                                           hexs("$R/cwd"), ia, ("\t" + srcs) if srcs else ""))
    ri = ctx.impl(ilines)
    ri2 = ctx.impl(ilines)                     # second, independent processes
    # recompiling over a longer stale output must give exactly the same file (no stale tail)
    ok_idx = [i for i, c in enumerate(cases) if c[4].startswith("OK ")][: (150 if ctx.tier == "quick" else 2000)]
    rs = ctx.impl([ilines[i].replace("compile\t", "compile_stale\t", 1) for i in ok_idx])
    for i, r in zip(ok_idx, rs):
        if r != ri[i]:
            ctx.fail("compiling over an existing longer output file does not leave exactly header + returned text",
                     ilines[i].replace("compile\t", "compile_stale\t", 1), {"fresh": ri[i][:300], "over_stale": r[:300]})
    ctx.notes["stale_output_cases"] = len(ok_idx)
    rm = ctx.model(mlines)
    sc = ctx.corr_scopes.setdefault("compile_json vs compile_json_m (return, path, bytes, stdout)", {"cases": 0, "disagreements": 0})
    panics = 0
    headers = set()
    for (ss, name, d, specs, infres), il, a, a2, b in zip(cases, ilines, ri, ri2, rm):
        ci, cm = genlib.parse_compile(a), genlib.parse_model_compile(b)
        dirrel = "cwd" if d == '-' else d
        # ---- oracle (implementation only)
        if a != a2:
            ctx.fail("two processes compiling the same sources disagree", il, [a, a2])
        if ci["ret"] == "PANIC":
            panics += 1
        if ci["ret"] == "OK" and ss is not None and not all(valid.get(t, True) for t in ss):
            ctx.fail("a source that is not valid JSON (serde_json rejects it) did not yield an error; an output file was written",
                     il, {"sources": ss}, known="F2gen")
        if ci["ret"] == "OK" and infres.startswith("ERR"):
            ctx.fail("unreadable / invalid / empty sources did not yield an error (a file was written)", il,
                     {"result": a[:200], "files": sorted(ci["files"])})
        if ci["ret"] == "OK":
            if ci["det"] is not True:
                ctx.fail("two runs in one process differ", il, a)
            files = ci["files"]
            if len(files) != 1:
                ctx.fail("a successful run did not leave exactly one file", il, sorted(files))
            else:
                (rel, content), = files.items()
                body = ci["text"].encode()
                if not content.endswith(body):
                    ctx.fail("file is not a header followed by the returned text", il, rel)
                else:
                    headers.add(content[:len(content) - len(body)])
                macro = macro_reads(dirrel, name)
                if rel != macro:
                    plain = vlib.model_bools(["gen_plain\t%s\t%s" % (hexs("$R/" + dirrel), hexs(name))])[0]
                    ctx.fail("file written at a path the include macro does not read", il,
                             {"written": rel, "macro_reads": macro}, known=None if plain else "F14")
                if ss and len(ci["text"]) > 60:
                    ctx.nontrivial.add(il)
        else:
            if ci["files"]:
                ctx.fail("a failed run left an output file", il, sorted(ci["files"]))
            if infres.startswith("ERR") and ci["ret"] not in ("ERR NotFound", "ERR IsADirectory", "ERR Other", "ERR InvalidData"):
                ctx.fail("unreadable / invalid / empty sources did not yield an error", il, a)
        # ---- correspondence
        if ss is not None and infres.startswith("OK ") and not genlib.printable_shape(parse_sh(infres[3:])):
            continue                                   # outside the modelled domain
        if d in odd_dirs:
            continue                                   # non-UTF-8 directory: implementation-side oracle only
        sc["cases"] += 1
        ctx.evaluations += 1
        ok = True
        if cm["ret"] == "PANIC" or ci["ret"] == "PANIC":
            ok = cm["ret"] == ci["ret"]
        elif cm["ret"] == "OK":
            wp, wc = cm["writes"][0] if cm["writes"] else (None, None)
            ok = (ci["ret"] == "OK" and ci["text"] == cm["text"] and len(cm["writes"]) == 1
                  and {os.path.normpath(wp[len("$R/"):]): wc} == ci["files"] and ci["prints"] == cm["prints"])
        else:
            kind = cm["ret"].split()[1]
            ok = (ci["ret"] or "").startswith("ERR") and not ci["files"] and cm["nowrite"] is True and \
                 ((kind == "Read") == (ci["ret"] in ("ERR NotFound", "ERR IsADirectory")))
            ok = ok and ci["prints"] == cm["prints"]
        if not ok:
            sc["disagreements"] += 1
            if len(ctx.disagreements) < 50:
                ctx.disagreements.append({"scope": "compile_json", "case": il, "model_case": mlines[ilines.index(il)],
                                          "model": b[:400], "impl": a[:400]})
    # the header is FIXED: one and the same for every written file (its bytes are pinned by the correspondence above)
    if len(headers) > 1:
        ctx.fail("the header preceding the returned text is not fixed", ilines[0], sorted(h.decode("utf-8", "replace") for h in headers))
    ctx.notes["header"] = sorted(h.decode("utf-8", "replace") for h in headers)
    ctx.notes["compile_cases"] = len(cases)
    ctx.notes["compile_panics_from_json_shape_0_5_1"] = panics
    ctx.notes["strings"] = len(strs)
    ctx.notes["shapes"] = len(ts)

def replay(rp):
    lines = [f["input"] for f in rp.get("failures", [])] + [d["case"] for d in rp.get("disagreements", [])]
    mi = vlib.run_impl(lines)
    mm = vlib.run_model([d.get("model_case", d["case"]) for d in rp.get("disagreements", [])])
    for l, a in zip(lines, mi):
        print("%s\n  impl : %s" % (l, a[:600]))
    for b in mm:
        print("  model: %s" % b[:600])
    return 1 if lines else 0
