"""vlib.py — shared machinery of the checks: building, running model and implementation on
case lines, shape/document syntax (DESIGN.md appendix A.4), generators, evidence."""
import hashlib, json, os, random, subprocess, sys, time, itertools, re
from concurrent.futures import ThreadPoolExecutor

ROOT = os.path.dirname(os.path.dirname(os.path.abspath(__file__)))
CACHE = os.path.join(ROOT, ".cache")
DRIVER = os.path.join(CACHE, "ocaml", "driver")
# VERIF_HARNESS: run another build of the same harness sources (used by tools/coverage.sh for a
# coverage-instrumented binary); the checks registered in MANIFEST.json never set it
HARNESS = os.environ.get("VERIF_HARNESS") or os.path.join(CACHE, "harness-target", "release", "vharness")
COQ = os.path.join(ROOT, "coq")
NPROC = 16
ENV = dict(os.environ, CARGO_NET_OFFLINE="true")

def log(*a):
    print(*a, file=sys.stderr, flush=True)

# ------------------------------------------------------------------ building
def sh(cmd, cwd=None, timeout=1800, check=True):
    p = subprocess.run(cmd, shell=True, cwd=cwd, env=ENV, stdout=subprocess.PIPE,
                       stderr=subprocess.STDOUT, text=True, timeout=timeout)
    if check and p.returncode != 0:
        raise BuildError(cmd, p.stdout)
    return p

class BuildError(Exception):
    def __init__(self, cmd, out):
        super().__init__(cmd)
        self.cmd, self.out = cmd, out

def build_harness():
    """cargo build of the harness against /repo's current working tree (hooks on)."""
    t = time.time()
    sh("cargo build --release --offline", cwd=os.path.join(ROOT, "harness"))
    return time.time() - t

def build_coq(targets=None):
    """full .vo build through coq_makefile (never -vos); incremental."""
    t = time.time()
    if not os.path.exists(os.path.join(COQ, "Makefile")):
        sh("coq_makefile -f _CoqProject -o Makefile", cwd=COQ)
    tg = " ".join(targets) if targets else ""
    sh(f"timeout 1500 make -j{NPROC} {tg}", cwd=COQ)
    return time.time() - t

def build_driver():
    t = time.time()
    srcs = [os.path.join(COQ, "Extract.v"), os.path.join(ROOT, "ocaml", "driver.ml"),
            os.path.join(ROOT, "ocaml", "genops.ml")]
    srcs += [os.path.join(ROOT, "ocaml", f) for f in ("textops.ml", "textref.ml", "build.sh")]
    srcs += sorted(os.path.join(COQ, "Model", f) for f in os.listdir(os.path.join(COQ, "Model")) if f.endswith(".v"))
    h = hashlib.sha256()
    for f in srcs:
        h.update(open(f, "rb").read())
    stamp = os.path.join(CACHE, "ocaml", "stamp")
    if os.path.exists(DRIVER) and os.path.exists(stamp) and open(stamp).read() == h.hexdigest():
        return 0.0
    sh(os.path.join(ROOT, "ocaml", "build.sh"))
    open(stamp, "w").write(h.hexdigest())
    return time.time() - t

# ------------------------------------------------------------------ running
CHUNK_TIMEOUT = 240      # seconds for one shard; a single case gets LINE_TIMEOUT when a shard has to be bisected
LINE_TIMEOUT = 10

def _run_one(exe, line):
    try:
        q = subprocess.run([exe], input=line + "\n", stdout=subprocess.PIPE, stderr=subprocess.PIPE, text=True,
                           timeout=LINE_TIMEOUT)
    except subprocess.TimeoutExpired:
        return "HANG"
    o = q.stdout.strip("\n")
    if q.returncode != 0 or o == "":
        return "CRASH rc=%d" % q.returncode
    return o

DEADLINE = None          # set by check.py: wall-clock time after which no further case is started
MAX_STALLS = 3           # per chunk: after that many dead / stalled processes the rest is not run

def _run_chunk(exe, lines, stalls=None):
    """one process for the whole chunk; if it dies or exceeds the hang guard, find the culprit case(s):
    a dead process is reported as CRASH, a case that does not answer within LINE_TIMEOUT as HANG.
    A change that makes MANY cases slow must not make the check itself run for hours: after MAX_STALLS
    stalls in one chunk (or past the check's deadline) the remaining cases are reported as SKIPPED,
    which no oracle accepts and which differs from every model answer."""
    if not lines:
        return []
    if stalls is None:
        stalls = [0]
    if stalls[0] >= MAX_STALLS or (DEADLINE is not None and time.time() > DEADLINE):
        return ["SKIPPED"] * len(lines)
    try:
        p = subprocess.run([exe], input="\n".join(lines) + "\n", stdout=subprocess.PIPE,
                           stderr=subprocess.PIPE, text=True, timeout=CHUNK_TIMEOUT)
        out = p.stdout.split("\n")
    except subprocess.TimeoutExpired as e:
        so = e.stdout or ""
        if isinstance(so, bytes):
            so = so.decode(errors="replace")
        out = so.split("\n")
        if out and not so.endswith("\n"):
            out.pop()                       # a partial last line
    if out and out[-1] == "":
        out.pop()
    if len(out) >= len(lines):
        return out[:len(lines)]
    res = list(out)
    i = len(out)
    # the case at position i killed or stalled the process: run it alone, then the rest as a new chunk
    stalls[0] += 1
    res.append(_run_one(exe, lines[i]))
    return res + _run_chunk(exe, lines[i + 1:], stalls)

def run_exe(exe, lines, shards=NPROC):
    lines = list(lines)
    if len(lines) < 64:
        return _run_chunk(exe, lines)
    n = (len(lines) + shards - 1) // shards
    chunks = [lines[i:i + n] for i in range(0, len(lines), n)]
    with ThreadPoolExecutor(max_workers=shards) as ex:
        outs = list(ex.map(lambda c: _run_chunk(exe, c), chunks))
    return [x for o in outs for x in o]

def run_model(lines):
    return run_exe(DRIVER, lines)

def run_impl(lines):
    return run_exe(HARNESS, lines)

# ------------------------------------------------------------------ syntax
def hexs(s):
    # surrogateescape: a str may carry raw non-UTF-8 bytes (a directory name that is not UTF-8)
    return s.encode("utf-8", "surrogateescape").hex() if isinstance(s, str) else bytes(s).hex()

def sh_str(s):
    """shape tuple -> compact syntax"""
    k = s[0]
    if k == 'N':
        return 'N'
    if k in 'B#S':
        return k + ('1' if s[1] else '0')
    f = '1' if s[1] else '0'
    if k == 'A':
        return 'A' + f + '(' + sh_str(s[2]) + ')'
    if k == 'T':
        return 'T' + f + '(' + ','.join(sh_str(e) for e in s[2]) + ')'
    if k == 'U':
        return 'U' + f + '[' + '|'.join(sh_str(e) for e in s[2]) + ']'
    if k == 'O':
        return 'O' + f + '{' + ','.join(hexs(kk) + ':' + sh_str(v) for kk, v in s[2]) + '}'
    raise ValueError(s)

def parse_sh(t):
    """compact syntax -> shape tuple"""
    pos = [0]
    def peek():
        return t[pos[0]] if pos[0] < len(t) else ''
    def nxt():
        c = peek(); pos[0] += 1; return c
    def flag():
        return nxt() == '1'
    def lst(close):
        if peek() == close:
            pos[0] += 1
            return []
        r = []
        while True:
            r.append(sp())
            if nxt() == close:
                return r
    def sp():
        c = nxt()
        if c == 'N':
            return ('N',)
        if c in 'B#S':
            return (c, flag())
        if c == 'A':
            o = flag(); nxt(); x = sp(); nxt(); return ('A', o, x)
        if c == 'T':
            o = flag(); nxt(); return ('T', o, tuple(lst(')')))
        if c == 'U':
            o = flag(); nxt(); return ('U', o, tuple(lst(']')))
        if c == 'O':
            o = flag(); nxt()
            if peek() == '}':
                pos[0] += 1
                return ('O', o, ())
            r = []
            while True:
                st = pos[0]
                while peek() in '0123456789abcdef' and peek() != '':
                    pos[0] += 1
                key = bytes.fromhex(t[st:pos[0]])
                nxt()
                r.append((key, sp()))
                if nxt() == '}':
                    return ('O', o, tuple(r))
        raise ValueError("bad shape %r at %d" % (t, pos[0]))
    r = sp()
    if pos[0] != len(t):
        raise ValueError("trailing %r" % t)
    return r

def doc_str(d):
    """document: None/'t'/'1'/'s' | list | dict-as-list-of-pairs -> compact syntax"""
    if d is None:
        return 'n'
    if d in ('t', '1', 's'):
        return d
    if isinstance(d, list):
        return '[' + ','.join(doc_str(e) for e in d) + ']'
    if isinstance(d, tuple):   # object: tuple of (key, doc)
        return '{' + ','.join(hexs(k) + ':' + doc_str(v) for k, v in d) + '}'
    raise ValueError(d)

def doc_json(d):
    """document -> canonical JSON text (same rendering as the harness)"""
    if d is None:
        return 'null'
    if d == 't':
        return 'true'
    if d == '1':
        return '1'
    if d == 's':
        return '"s"'
    if isinstance(d, list):
        return '[' + ','.join(doc_json(e) for e in d) + ']'
    return '{' + ','.join('"' + (k if isinstance(k, str) else k.decode()) + '":' + doc_json(v) for k, v in d) + '}'

TAGS = {'N': 0, 'B': 1, '#': 2, 'S': 3, 'A': 4, 'O': 5, 'U': 6, 'T': 7}

def kb(k):
    return k.encode() if isinstance(k, str) else bytes(k)

def sh_key(s):
    """sort key reproducing Rust's derived Ord on JsonShape (for normalised shapes)"""
    k = s[0]
    if k == 'N':
        return (0,)
    if k in 'B#S':
        return (TAGS[k], s[1])
    if k == 'A':
        return (4, sh_key(s[2]), s[1])
    if k == 'O':
        return (5, tuple((kb(kk), sh_key(v)) for kk, v in s[2]), s[1])
    return (TAGS[k], tuple(sh_key(e) for e in s[2]), s[1])

def norm_sh(s):
    """canonical form: what BTreeSet/BTreeMap make of the written shape (sorted, deduplicated,
    a repeated key keeps the last value); keys as bytes"""
    k = s[0]
    if k == 'N' or k in 'B#S':
        return s
    if k == 'A':
        return ('A', s[1], norm_sh(s[2]))
    if k == 'T':
        return ('T', s[1], tuple(norm_sh(e) for e in s[2]))
    if k == 'U':
        d = {}
        for e in s[2]:
            n = norm_sh(e)
            d[sh_key(n)] = n
        return ('U', s[1], tuple(d[x] for x in sorted(d)))
    if k == 'O':
        d = {}
        for kk, v in s[2]:
            d[kb(kk)] = norm_sh(v)
        return ('O', s[1], tuple((kk, d[kk]) for kk in sorted(d)))
    raise ValueError(s)

def is_opt(s):
    return True if s[0] == 'N' else s[1]

def oneof_free(s):
    k = s[0]
    if k == 'U':
        return False
    if k == 'A':
        return oneof_free(s[2])
    if k == 'T':
        return all(oneof_free(e) for e in s[2])
    if k == 'O':
        return all(oneof_free(v) for _, v in s[2])
    return True

def sh_depth(s):
    k = s[0]
    if k == 'A':
        return 1 + sh_depth(s[2])
    if k in 'TU':
        return 1 + max([sh_depth(e) for e in s[2]] + [0])
    if k == 'O':
        return 1 + max([sh_depth(v) for _, v in s[2]] + [0])
    return 0

# ------------------------------------------------------------------ generators: shapes
LEVEL0 = [('N',)] + [(k, o) for k in 'B#S' for o in (False, True)]
KEYS2 = ['a', 'b']

def level1_over(base):
    out = []
    for o in (False, True):
        for t in base:
            out.append(('A', o, t))
        out.append(('T', o, ()))
        for t in base:
            out.append(('T', o, (t,)))
        for t in base:
            for u in base:
                out.append(('T', o, (t, u)))
        out.append(('O', o, ()))
        for k in KEYS2:
            for t in base:
                out.append(('O', o, ((k, t),)))
        for t in base:
            for u in base:
                out.append(('O', o, (('a', t), ('b', u))))
        out.append(('U', o, ()))
        for t in base:
            out.append(('U', o, (t,)))
        for i, t in enumerate(base):
            for u in base[i + 1:]:
                out.append(('U', o, (t, u)))
    return out

def level1():
    return [norm_sh(s) for s in LEVEL0 + level1_over(LEVEL0)]

KEYPOOL = ['a', 'b', 'c', 'ab', 'a_b', 'a-b', 'A', 'z9', 'k y', 'é', '', '日本', 'type', '1st']

def rand_shape(rng, depth, keys=KEYPOOL):
    return norm_sh(rand_shape_raw(rng, depth, keys))

def rand_shape_raw(rng, depth, keys=KEYPOOL):
    if depth <= 0 or rng.random() < 0.25:
        return rng.choice(LEVEL0)
    k = rng.choice('ATUO')
    o = rng.random() < 0.35
    if k == 'A':
        return ('A', o, rand_shape_raw(rng, depth - 1, keys))
    n = rng.choice([0, 1, 1, 2, 2, 3, 4])
    if k == 'T':
        return ('T', o, tuple(rand_shape_raw(rng, depth - 1, keys) for _ in range(n)))
    if k == 'U':
        return ('U', o, tuple(rand_shape_raw(rng, depth - 1, keys) for _ in range(n)))
    ks = rng.sample(keys, min(n, len(keys)))
    return ('O', o, tuple((kk, rand_shape_raw(rng, depth - 1, keys)) for kk in ks))

def mutate_shape(rng, s, keys=KEYPOOL):
    return norm_sh(mutate_shape_raw(rng, s, keys))

def mutate_shape_raw(rng, s, keys=KEYPOOL):
    """a related shape: flip one flag / replace or wrap one child / add or drop one element"""
    k = s[0]
    r = rng.random()
    if k == 'N':
        return rng.choice(LEVEL0)
    if r < 0.25:
        return (k, not s[1]) + tuple(s[2:])
    if k in 'B#S':
        return rng.choice(LEVEL0) if r < 0.6 else ('U', False, (s, rng.choice(LEVEL0)))
    if k == 'A':
        if r < 0.7:
            return ('A', s[1], mutate_shape_raw(rng, s[2], keys))
        return ('U', False, (s, ('N',))) if r < 0.85 else ('T', s[1], (s[2], s[2]))
    items = list(s[2])
    if k in 'TU':
        if items and r < 0.6:
            i = rng.randrange(len(items))
            items[i] = mutate_shape_raw(rng, items[i], keys)
        elif r < 0.8:
            items.insert(rng.randrange(len(items) + 1), rand_shape(rng, 1, keys))
        elif items:
            items.pop(rng.randrange(len(items)))
        else:
            return ('A', s[1], ('U', False, ()))
        if k == 'T' and r > 0.93:
            return ('A', s[1], ('U', False, tuple(items)))
        return (k, s[1], tuple(items))
    if k == 'O':
        if items and r < 0.6:
            i = rng.randrange(len(items))
            items[i] = (items[i][0], mutate_shape_raw(rng, items[i][1], keys))
        elif r < 0.8:
            used = {kb(kk) for kk, _ in items}
            free = [kk for kk in keys if kb(kk) not in used]
            if free:
                items.append((rng.choice(free), rand_shape(rng, 1, keys)))
        elif items:
            items.pop(rng.randrange(len(items)))
        if r > 0.93:
            return ('U', False, (('O', s[1], tuple(items)), rng.choice(LEVEL0)))
        return ('O', s[1], tuple(items))
    return s

# ------------------------------------------------------------------ generators: documents
SCAL = [None, 't', '1', 's']

def docs_depth(depth, width, keys=('a', 'b', 'c')):
    """all documents of nesting <= depth with containers of size <= width (keys in order, a
    prefix-closed choice of member names so the count stays manageable)"""
    if depth == 0:
        return list(SCAL)
    sub = docs_depth(depth - 1, width, keys)
    out = list(SCAL)
    for n in range(0, width + 1):
        for combo in itertools.product(sub, repeat=n):
            out.append(list(combo))
    for n in range(0, width + 1):
        for ks in itertools.combinations(keys, n):
            for combo in itertools.product(sub, repeat=n):
                out.append(tuple(zip(ks, combo)))
    return out

# thorough tier: a heavy tail on the widths of random documents (set by check.py).  The scale families are
# fixed; this lets the random stream, too, wander beyond widths of 4 now and then.
HEAVY_TAIL = False
WIDE_KEYS = tuple("k%02d" % i for i in range(40)) + ('\u00e9', 'a b', '', 'K00', 'k0', 'k')

def rand_doc(rng, depth, keys=('a', 'b', 'c', 'd')):
    if depth <= 0 or rng.random() < 0.3:
        return rng.choice(SCAL)
    wide = HEAVY_TAIL and rng.random() < 0.03
    if wide:
        keys = WIDE_KEYS
    r = rng.random()
    if r < 0.5:
        n = rng.choice([5, 8, 9, 13, 17, 21, 33, 40]) if wide else rng.choice([0, 1, 2, 2, 3, 4])
        mode = rng.random()
        if mode < 0.4 and n > 0:      # homogeneous repetitions
            e = rand_doc(rng, depth - 1, keys)
            return [e] * n
        if mode < 0.75 and n > 0:     # array of objects with missing / conflicting / null members
            base = [(k, rand_doc(rng, depth - 2, keys)) for k in rng.sample(keys, rng.randrange(1, len(keys) + 1))]
            els = []
            for _ in range(n):
                m = []
                for k, v in base:
                    q = rng.random()
                    if q < 0.2:
                        continue
                    if q < 0.3:
                        m.append((k, None))
                    elif q < 0.4:
                        m.append((k, rand_doc(rng, depth - 2, keys)))
                    else:
                        m.append((k, v))
                if rng.random() < 0.2:
                    rng.shuffle(m)
                els.append(tuple(m))
            return els
        return [rand_doc(rng, depth - 1, keys) for _ in range(n)]
    n = rng.choice([5, 8, 9, 13, 17, 21, 33, 40]) if wide else rng.choice([0, 1, 2, 2, 3])
    ks = rng.sample(keys, min(n, len(keys)))
    return tuple((k, rand_doc(rng, depth - 1, ('a', 'b', 'c', 'd') if wide else keys)) for k in ks)

def witnesses(s, cap=12):
    """candidate member documents of shape s (validated by the model's mem before use)"""
    k = s[0]
    out = []
    if k == 'N':
        out = [None]
    elif k == 'B':
        out = ['t']
    elif k == '#':
        out = ['1']
    elif k == 'S':
        out = ['s']
    elif k == 'A':
        ws = witnesses(s[2], 4)
        out = [[]] + [[w] for w in ws] + ([[ws[0], ws[-1]]] if ws else []) + ([[ws[-1], ws[0], ws[-1]]] if len(ws) > 1 else [])
    elif k == 'T':
        per = [witnesses(e, 3) for e in s[2]]
        if all(per):
            base = [p[0] for p in per]
            out.append(list(base))
            for i, p in enumerate(per):
                for w in p[1:]:
                    b2 = list(base); b2[i] = w; out.append(b2)
    elif k == 'U':
        for v in s[2]:
            out += witnesses(v, 3)
    elif k == 'O':
        per = [(kk, witnesses(v, 3)) for kk, v in s[2]]
        if all(p for _, p in per):
            base = [(kk, p[0]) for kk, p in per]
            out.append(tuple(base))
            for i, (kk, p) in enumerate(per):
                for w in p[1:]:
                    b2 = list(base); b2[i] = (kk, w); out.append(tuple(b2))
                b3 = list(base); b3.pop(i); out.append(tuple(b3))     # absent key
            out.append(())
        else:
            # keys whose shape is uninhabited can only be absent
            out.append(tuple((kk, p[0]) for kk, p in per if p))
    if k != 'N' and is_opt(s):
        out.append(None)
    # dedupe
    seen, res = set(), []
    for d in out:
        t = doc_str(d)
        if t not in seen:
            seen.add(t); res.append(d)
    return res[:cap]

# ------------------------------------------------------------------ evidence
def write_evidence(pid, tier, seed, t0, coverage, assumptions, violations):
    ev = {"property_id": pid, "tier": tier, "seed": seed, "level": "proof",
          "coverage": coverage, "assumptions": assumptions,
          "wall_s": round(time.time() - t0, 2), "violations": violations}
    os.makedirs(os.path.join(ROOT, "evidence"), exist_ok=True)
    with open(os.path.join(ROOT, "evidence", pid + ".json"), "w") as f:
        json.dump(ev, f, indent=1)

# ------------------------------------------------------------------ oracle helpers
def model_bools(lines):
    out = run_model(lines)
    res = []
    for l, o in zip(lines, out):
        if o == "BOOL 1":
            res.append(True)
        elif o == "BOOL 0":
            res.append(False)
        else:
            raise RuntimeError("model oracle failed on %r: %r" % (l, o))
    return res

def validated_witnesses(shapes, cap=10):
    """shape tuples -> {shape_str: [doc_str,...]} of documents the reference semantics admits"""
    cand, lines = [], []
    seen = set()
    for s in shapes:
        t = sh_str(s)
        if t in seen:
            continue
        seen.add(t)
        for d in witnesses(s, cap):
            ds = doc_str(d)
            cand.append((t, ds))
            lines.append("mem\t%s\t%s" % (ds, t))
    oks = model_bools(lines)
    res = {t: [] for t in seen}
    for (t, ds), ok in zip(cand, oks):
        if ok:
            res[t].append(ds)
    return res

def doc_pool_small():
    """exhaustive documents: nesting <= 2, containers <= 2 wide, keys a,b,c"""
    return docs_depth(2, 2)

BASE_DOCS = [None, 't', '1', 's', [], (), ['1'], ['1', '1'], ['1', 's'], [None], [None, '1'], [[]], [[], []],
             [['1']], [['1'], []], [['1'], ['s']], [['1', 's'], ['1', 's']], ['1', []], [(), ()],
             (('a', '1'),), (('a', 's'),), (('a', None),), (('a', '1'), ('b', 's')), (('b', 't'),),
             (('a', []),), (('a', ['1']),), (('a', ['1', 's']),), (('a', (('b', '1'),)),), (('a', ()),),
             [(('a', '1'),), (('a', '1'),)], [(('a', '1'),), (('b', 's'),)], [(('a', '1'), ('b', 's')), (('a', '1'),)],
             [(('a', '1'),), ()], [(('a', None),), (('a', '1'),)], [(('a', '1'),), (('a', 's'),)],
             [(('a', ['1']),), (('a', []),)], [(('a', (('c', '1'),)),), (('a', (('c', '1'), ('d', 's'))),)],
             [['1', 's'], 't'], ['t', ['1', 's']], [None, None], ['1', None], [None, 's', 't'],
             (('a', ['1', None]),), (('a', [None, None]),), [[None], ['1']], [[None, None]],
             ['1', 's', 't'], ['1', 's', 't', None], [['1', 's', 't']], (('k', ['1', 's']), ('z', None)),
             [(('a', '1'), ('b', 's'), ('c', 't')), (('b', 's'),)], [(('b', 's'),), (('a', '1'), ('b', 's'), ('c', 't'))],
             [(), (), ()], [[], '1'], [(), '1'], [['1'], ['1', '1']], [['1', 's'], ['s', '1']],
             [['1', 's'], ['1', 's', 't']], [[['1']]], [[[]]], (('a', (('a', (('a', '1'),)),)),)]

# ------------------------------------------------------------------ text renderings of documents
WS = [' ', '\t', '\n', '\r\n', '', '', '', ' ']
NUMS = ['0', '-0', '1', '-12', '3.5', '0.001', '1e5', '1E+5', '2e-3', '-1.25E-7', '123456789012345678901234567890', '1.0e0']
STRS = ['', 's', 'abc def', '\\n', '\\"', '\\\\', '\\/', '\\b\\f\\r\\t', '\\u00e9', '\\uD83D\\uDE00', 'é', '日本語', '😀', 'a\\u0000b', '{[,:]}']

def render_text(rng, d, ws=WS, keyf=None):
    """a random valid JSON rendering of document d (kinds preserved; values, formatting vary)"""
    def w():
        return rng.choice(ws)
    def go(d):
        if d is None:
            return 'null'
        if d == 't':
            return rng.choice(['true', 'false'])
        if d == '1':
            return rng.choice(NUMS)
        if d == 's':
            return '"' + rng.choice(STRS) + '"'
        if isinstance(d, list):
            return '[' + w() + (',' + w()).join(go(e) + w() for e in d) + ']'
        items = []
        for k, v in d:
            ks = k if isinstance(k, str) else k.decode()
            if keyf:
                ks = keyf(ks)
            items.append('"' + ks + '"' + w() + ':' + w() + go(v) + w())
        return '{' + w() + (',' + w()).join(items) + '}'
    return w() + go(d) + w()

def subdocs(d, acc):
    acc.append(d)
    if isinstance(d, list):
        for e in d:
            subdocs(e, acc)
    elif isinstance(d, tuple):
        for _, v in d:
            subdocs(v, acc)
    return acc

def nodup_doc(d):
    if isinstance(d, list):
        return all(nodup_doc(e) for e in d)
    if isinstance(d, tuple):
        ks = [kb(k) for k, _ in d]
        return len(set(ks)) == len(ks) and all(nodup_doc(v) for _, v in d)
    return True

# ------------------------------------------------------------------ structured related pairs (level 2)
def set_flag_py(s, f):
    return s if s[0] == 'N' else (s[0], f) + tuple(s[2:])

def structured_pairs(base=None, stride=1):
    """systematic related pairs one level above `base` (default level 1): each base shape s is paired
    with deterministic relatives m(s) and both are put under the same wrappers, so that the nested
    arms of is_subset / merger (Object in OneOf, OneOf in OneOf, Tuple against Array<OneOf>, ...)
    are exercised with operands that are close to each other."""
    base = base or level1()
    base = base[::stride]
    out = []
    B0 = ('B', False)
    for s in base:
        rel = [s, set_flag_py(s, True), set_flag_py(s, False), ('U', False, (s, ('N',))), ('U', False, (s, B0)),
               ('U', True, (s,)), ('U', False, (set_flag_py(s, True), B0))]
        if s[0] == 'T':
            rel.append(('A', s[1], ('U', False, tuple(s[2]))))
            rel.append(('A', True, ('U', False, tuple(s[2]) + (('N',),))))
        if s[0] == 'O' and s[2]:
            rel.append(('O', s[1], s[2][1:]))
            rel.append(('O', s[1], tuple((k, set_flag_py(v, True)) for k, v in s[2])))
            rel.append(('O', s[1], s[2] + (('zz', ('S', True)),)))
        for m in rel:
            for wrap in (lambda x: x, lambda x: ('A', False, x), lambda x: ('T', False, (x, B0)),
                         lambda x: ('O', False, (('a', x),)), lambda x: ('U', False, (x, ('#', False)))):
                a, b = norm_sh(wrap(s)), norm_sh(wrap(m))
                out.append((a, b)); out.append((b, a))
    seen, res = set(), []
    for a, b in out:
        k = (sh_str(a), sh_str(b))
        if k not in seen:
            seen.add(k); res.append((a, b))
    return res


# ------------------------------------------------------------------ input / result distribution
TEXT_OPS = ("from_str", "tokens", "parse", "depth_walk", "depth_all", "from_value_text", "serde_ok", "ref_json")

def case_class(line):
    """coarse class of a case line: op + top constructor (and flag) of each shape / document argument"""
    a = line.split("\t")
    op = a[0]
    if op in ("counts", "allocs") and len(a) > 1:
        op, a = op + ":" + a[1], a[1:]
    if op in TEXT_OPS or (op.endswith("_text") and op != "infer_text"):
        return op + "(text x%d)" % (len(a) - 1)
    def c(x):
        if not x:
            return "-"
        ch = x[0]
        if ch in "NB#SATUO":
            return ch + (x[1] if len(x) > 1 and x[1] in "01" else "")
        if ch in "nt1s[{":
            return {"n": "null", "t": "bool", "1": "num", "s": "str", "[": "arr", "{": "obj"}[ch]
        return "?"
    return op + "(" + ",".join(c(x) for x in a[1:4]) + (",+%d" % (len(a) - 4) if len(a) > 4 else "") + ")"

def result_class(r):
    if r is None:
        return "none"
    t = r.split(" ")
    if t[0] in ("ERR", "BOOL"):
        return " ".join(t[:2])
    if t[0] == "OK" and len(t) > 1 and t[1][:1] in "NB#SATUO":
        return "OK " + t[1][0]
    return t[0][:12]

def account(dist, scope, lines, results):
    d = dist.setdefault(scope, {"in": {}, "out": {}})
    for l, r in zip(lines, results):
        k = case_class(l)
        d["in"][k] = d["in"].get(k, 0) + 1
        k = result_class(r)
        d["out"][k] = d["out"].get(k, 0) + 1

def dist_summary(dist, top=30):
    out = {}
    for scope, d in dist.items():
        ins = sorted(d["in"].items(), key=lambda kv: -kv[1])
        out[scope] = {"input_classes": len(ins), "largest_input_classes": dict(ins[:top]),
                      "smallest_input_classes": dict(ins[-5:]) if len(ins) > top else {},
                      "result_classes": dict(sorted(d["out"].items(), key=lambda kv: -kv[1])[:20])}
    return out


# ------------------------------------------------------------------ scale / rare-feature stream
def scale_families():
    """families of RELATED documents at unusual scale or with rare features: wide objects / arrays / tuples /
    arrays of objects, long chains of nesting (below the documented caps: 256 text, 128 serde_json), long keys,
    keys sharing long prefixes or differing in case only, non-ASCII and odd code points in keys.  Random small
    documents never reach a threshold such as 'more than 16 members' or 'key longer than 32 bytes'; members of
    one family differ in ONE place, so merging / comparing them exercises the interesting arms at that scale."""
    sc = ['1', 's', 't']
    fams = {}
    def obj(n, f=lambda i: sc[i % 3], keyf=lambda i: "k%03d" % i):
        return tuple((keyf(i), f(i)) for i in range(n))
    for n in (9, 17, 33, 65, 130, 257):
        fams["wide_object_%d" % n] = [obj(n), obj(n, lambda i: sc[(i + 1) % 3] if i == n - 1 else sc[i % 3]),
                                      obj(n - 1), obj(n + 1), obj(n, lambda i: None if i == n // 2 else sc[i % 3])]
    for n in (9, 10, 12, 17, 33, 65):
        # same member count, same first and last name, ONE middle name different (and a value kind changed elsewhere)
        mid = n // 2
        fams["renamed_member_%d" % n] = [obj(n), obj(n, keyf=lambda i: "k%03dx" % i if i == mid else "k%03d" % i),
                                         obj(n, lambda i: sc[(i + 1) % 3] if i == 1 else sc[i % 3],
                                             keyf=lambda i: "k%03dx" % i if i == mid + 1 else "k%03d" % i)]
    for n in (254, 255, 256, 257, 299, 513, 1025):
        full = (('a', '1'), ('b', 's'))
        fams["array_objects_one_missing_%d" % n] = [[full] * n + [(('a', '1'),)], [(('a', '1'),)] + [full] * n,
                                                    [full] * (n // 2) + [(('a', '1'),)] + [full] * (n - n // 2),
                                                    [full] * n + [(('a', '1'), ('c', 't'))], [full] * (n + 1)]
    for n in (13, 17, 33, 65, 129, 257, 1025):
        fams["wide_array_%d" % n] = [['1'] * n, ['1'] * (n - 1) + ['s'], ['1'] * (n - 1) + [None], ['s'] + ['1'] * (n - 1),
                                     ['1'] * (n + 1)]
    for n in (13, 17, 33, 65, 129):
        t = [sc[i % 3] for i in range(n)]
        fams["wide_tuple_%d" % n] = [t, t[:-1] + [None], t[:-1], t + ['1'], [None] + t[1:], list(reversed(t))]
    for n in (9, 17, 33, 65, 129):
        fams["array_of_%d_objects" % n] = [[(('a', '1'), ('k%d' % (i % 7), 's')) for i in range(n)],
                                           [(('a', '1'), ('k%d' % (i % 11), 's')) for i in range(n)],
                                           [(('a', '1'),)] * n + [(('z', 't'),)],
                                           [(('a', '1'), ('k%d' % i, 's')) for i in range(n)]]
    def chain(kind, d, leaf):
        x = leaf
        for i in range(d):
            k = kind if kind != "mixed" else ("arr", "obj", "tup")[i % 3]
            x = [x] if k == "arr" else ((('a', x),) if k == "obj" else [x, 's'])
        return x
    for d in (5, 8, 12, 16, 24, 32, 48, 64, 100, 120):
        for kind in ("arr", "obj", "tup", "mixed"):
            fams["chain_%s_%d" % (kind, d)] = [chain(kind, d, '1'), chain(kind, d, 's'), chain(kind, d, None), chain(kind, d - 1, '1')]
    for L in (23, 24, 25, 31, 32, 33, 63, 64, 65, 255, 256, 257, 1000, 5000):
        k = 'k' * L
        fams["long_key_%d" % L] = [((k, '1'),), ((k, 's'),), ((k + 'x', '1'),), ((k[:-1], '1'), (k, '1')), ((k, '1'), (k + 'x', 's'))]
    # member names that differ only by white space (inside the name), by a final / initial space, by NBSP vs space
    fams["whitespace_keys"] = [(('first name', 's'),), (('firstname', 's'),), (('first  name', 's'),), ((' firstname', '1'),),
                               (('firstname ', 's'),), (('first\u00a0name', 's'),), (('first name', 's'), ('firstname', '1'))]
    # names that look like JSON literals / numbers / are made of digits only
    lit = ['0', '1', '10', '01', '-1', '1e5', 'true', 'false', 'null', 'NaN', '1.0']
    fams["literal_like_keys"] = [tuple((k, '1') for k in sorted(lit)), tuple((k, 's') for k in sorted(lit[::2])), (('0', '1'),), (('00', '1'),),
                                 (('true', 't'), ('null', None)), (('1', '1'), ('10', 's'), ('2', 't'))]
    # every mixture of the three "empty" values and null, as elements and as members
    E = [None, [], ()]
    fams["empties"] = [[a, b] for a in E for b in E] + [[None, [], ()], [(), [], None], (('a', None), ('b', []), ('c', ())),
                       (('a', []), ('b', ()), ('c', None)), [[None], []], [[], [None]], [(('a', []),), (('a', ['1']),)], [(('a', ()),), (('a', None),)]]
    # a member that becomes a union containing null and is absent elsewhere (needs three or more sources)
    fams["union_null_member"] = [(('k', None),), (('k', '1'),), (('k', 's'),), (), (('k', ['1']),), (('j', 't'),)]
    p = "shared_prefix_" * 6
    fams["prefix_keys"] = [((p + 'a', '1'), (p + 'b', 's')), ((p + 'a', 's'), (p + 'b', 's')), ((p + 'a', '1'),), ((p + 'b', 's'), (p + 'c', 't')),
                           ((p, '1'), (p + 'a', '1'))]
    fams["case_keys"] = [(('KEY', 't'), ('Key', '1'), ('key', 's')), (('Key', '1'),), (('key', '1'),), (('KEY', 't'), ('key', 's')),
                         (('KEY', 's'), ('Key', 's'), ('key', 's'))]
    odd = ['\u00e9', '\u00e9e', 'e\u0301', '\u65e5\u672c', '\U0001f600', 'a\u2028b', '\u007f', '\uffff', '\u00a0', 'a b', '', ' ', '/', '\u0080', '\u07ff', '\u0800', '\ud7ff', '\ue000', '\U00010000', '\U0010ffff']
    # (keys needing an escape - quote, backslash, control characters - cannot travel through the document-level
    # protocol, whose renderer writes keys raw; they are the business of the text-level checks C04 / C07)
    fams["odd_keys"] = [tuple(sorted(((k, '1') for k in odd), key=lambda kv: kv[0].encode())),
                        tuple(sorted(((k, 's') for k in odd[::2]), key=lambda kv: kv[0].encode())),
                        tuple(sorted(((k, '1') for k in odd[1::2]), key=lambda kv: kv[0].encode()))] + [((k, '1'),) for k in odd[:8]]
    return fams

def scale_docs():
    return [d for f in scale_families().values() for d in f]

def scale_seqs(max_len=4):
    """source sequences over the scale families: every member alone, twice, every ordered pair inside a family,
    each family as a whole (both orders), and many repetitions of few documents (33, 65, 257 sources)"""
    out = []
    for name, f in scale_families().items():
        out += [[d] for d in f] + [[d, d] for d in f[:2]]
        out += [[a, b] for a in f for b in f if a is not b]
        out += [list(f), list(reversed(f))]
    small = [['1'], ['1', 's'], (('a', '1'),), (('a', 's'), ('b', '1')), None, [], [(('a', '1'),), (('b', 's'),)]]
    for n in (33, 65, 257):
        out.append([small[i % len(small)] for i in range(n)])
        out.append([small[(i * i) % 3] for i in range(n)])
    return out

_SCALE_CACHE = {}

def scale_shape_pools():
    """per scale family: the distinct shapes the MODEL infers from its members and from every pair of members
    (at most 12 per family) - inputs for the checks that quantify over pairs of shapes"""
    if "pools" not in _SCALE_CACHE:
        fams = scale_families()
        lines, owner = [], []
        for name, f in fams.items():
            ds = [doc_str(d) for d in f]
            for a in ds:
                lines.append("from_sources\t" + a); owner.append(name)
            for a in ds:
                for b in ds:
                    if a != b:
                        lines.append("from_sources\t%s\t%s" % (a, b)); owner.append(name)
        pools = {}
        for name, r in zip(owner, run_model(lines)):
            if r.startswith("OK "):
                p = pools.setdefault(name, [])
                if r[3:] not in p and len(p) < 12:
                    p.append(r[3:])
        _SCALE_CACHE["pools"] = pools
    return _SCALE_CACHE["pools"]

def wide_object_shape_pairs():
    """hand-built (source, target) object shapes for the subset checks: a target of n members with a pattern of
    optional members (none / last / last-but-one / first / middle / every other / all but the last), and sources
    that lack one member, two members (among the first and last three), or exactly the optional ones.  Inferred
    shapes only make a member optional where a document lacked it; these patterns put required members AFTER
    optional ones, at the ends, next to each other - at widths on both sides of any plausible threshold."""
    num, st = ('#', False), ('S', False)
    out = []
    for n in (3, 8, 9, 20, 21, 22, 33, 65):
        names = ["k%02d" % i for i in range(n)]
        pats = {"none": set(), "last": {n - 1}, "last_but_one": {n - 2}, "first": {0}, "middle": {n // 2},
                "every_other": set(range(0, n, 2)), "all_but_last": set(range(n - 1)), "last_two": {n - 2, n - 1}}
        for opt in pats.values():
            target = ('O', False, tuple((k, ((num if i % 2 else st)[0], i in opt)) for i, k in enumerate(names)))
            full = ('O', False, tuple((k, ((num if i % 2 else st)[0], False)) for i, k in enumerate(names)))
            drops = [{i} for i in (0, 1, n // 2, n - 3, n - 2, n - 1) if 0 <= i < n]
            drops += [{n - 2, n - 1}, {0, n - 1}, {0, 1}, set(opt), set(opt) | {n - 1}, set(opt) - {min(opt)} if opt else set()]
            for dr in drops:
                src = ('O', False, tuple(m for i, m in enumerate(full[2]) if i not in dr))
                out.append((sh_str(norm_sh(src)), sh_str(norm_sh(target))))
                out.append((sh_str(norm_sh(('O', True) + src[2:])), sh_str(norm_sh(('O', True) + target[2:]))))
    return list(dict.fromkeys(out))

def scale_shapes():
    """distinct shape strings of the scale stream"""
    return list(dict.fromkeys(t for p in scale_shape_pools().values() for t in p))

def scale_shape_pairs():
    """ordered pairs of shape strings inside each scale family (related shapes: one is often a widening of the other)"""
    return [(a, b) for p in scale_shape_pools().values() for a in p for b in p] + wide_object_shape_pairs()


def respell(rng, k, p=0.45):
    """another JSON spelling of the same member name / string: each character raw or as an escape (\\uXXXX in
    either hex case, a surrogate pair above U+FFFF, the two-character escapes)"""
    short = {'"': '\\"', '\\': '\\\\', '/': '\\/', '\b': '\\b', '\f': '\\f', '\n': '\\n', '\r': '\\r', '\t': '\\t'}
    out = []
    for ch in k:
        c = ord(ch)
        must = ch in '"\\' or c < 0x20
        if not must and rng.random() >= p:
            out.append(ch)
            continue
        if ch in short and rng.random() < 0.5:
            out.append(short[ch])
            continue
        fmt = rng.choice(["\\u%04x", "\\u%04X"])
        if c >= 0x10000:
            c -= 0x10000
            out.append(fmt % (0xD800 + (c >> 10)) + fmt % (0xDC00 + (c & 0x3FF)))
        else:
            out.append(fmt % c)
    return "".join(out)

def canon_key(k):
    """the minimal JSON spelling of a member name: only what must be escaped is escaped"""
    out = []
    for ch in k:
        if ch == '"':
            out.append('\\"')
        elif ch == '\\':
            out.append('\\\\')
        elif ord(ch) < 0x20:
            out.append('\\u%04x' % ord(ch))
        else:
            out.append(ch)
    return "".join(out)

# member names that NEED an escape in JSON (quote, backslash, control characters), in particular names in which a
# literal backslash is followed by a letter that would itself form an escape (`\n` as two characters, `\u0041` as six,
# `C:\temp\new`), a trailing backslash, and runs of backslashes: decoding them in two passes or by substring
# replacement goes wrong exactly here
ESCAPE_NAMES = ['\\n', 'a\\nb', '\\"', '\\\\', 'a\\', '\\u0041', '\\/', '\\t\\r', '"', '\n', '\\\n', 'C:\\temp\\new',
                '\\b\\f', 'x\\"y', '\\\\n', '\\\\\\t', '\t', '\x00', '\x1f', '\\u', 'q"\\', '/', '\\\\u00e9', '\u2028\\r']

def escape_name_sets():
    """name sets (each a list of distinct names) for one-object documents"""
    n = ESCAPE_NAMES
    return [[k] for k in n] + [n[i:i + 3] for i in range(0, len(n), 3)] + [n]

def escape_name_texts(rng, names, variants=5):
    """(expected shape text, [JSON texts]) for the object {name: 1 for name in names}: first text is the canonical
    spelling, the others re-spell every name at random (respell)"""
    exp = 'O0{' + ','.join(hexs(k) + ':#0' for k in sorted(names, key=lambda x: x.encode())) + '}'
    def text(f):
        return '{' + ','.join('"%s":1' % f(k) for k in names) + '}'
    return exp, [text(canon_key)] + [text(lambda k: respell(rng, k)) for _ in range(variants)]

def key_docs():
    """documents whose member names exercise the decoding of names: astral characters, U+2028, DEL, U+FFFF,
    combining marks, long names, shared prefixes, case-only differences"""
    f = scale_families()
    out = []
    for name in ("odd_keys", "case_keys", "prefix_keys", "long_key_33", "long_key_257"):
        out += f[name]
    out += [(('\U0001d11e', '1'), ('k', (('\U00010000', 's'), ('\U0010ffff', [(('\u2028', '1'),), (('\u2028', '1'), ('\U0001f600', 't'))])))),
            [(('\U0001f600', '1'),), (('\U0001f600', '1'), ('\u00e9', 's'))]]
    return out


# ------------------------------------------------------------------ numeric constants in the code under test
# one left-to-right pass over raw strings, strings, char literals (not lifetimes) and comments
_RUST_LITERALS = re.compile(
    r'''(?<!\w)r(#*)".*?"\1'''          # raw string
    r'''|"(?:[^"\\]|\\.)*"'''           # string
    r"""|'(?:[^'\\\n]|\\[^'\n]*)'"""    # char literal
    r'''|//[^\n]*|/\*.*?\*/''',         # comments
    re.S)

def source_constants(root="/repo"):
    """numeric literals >= 2 in the non-test library sources (comments, strings, `#[cfg(test)]` tails and the
    hooks module excluded).  A threshold in the code is exactly what small random inputs never reach; the
    scale stream (scale_families, genlib.good_family, textlib big inputs) is built to straddle the constants
    listed in tools/known_constants.json, and every check reports any constant that is not on that list."""
    out = set()
    for base in ("json_shape/src", "json_shape_build/src"):
        for dp, _, fn in os.walk(os.path.join(root, base)):
            if "/test" in dp:
                continue
            for f in fn:
                if not f.endswith(".rs") or f == "verif_hooks.rs":
                    continue
                src = re.split(r"#\[cfg\(test\)\]\s*(?:pub\s+)?mod\s+\w+\s*\{", open(os.path.join(dp, f), errors="replace").read())[0]
                src = _RUST_LITERALS.sub(" ", src)
                for m in re.finditer(r"(?<![\w.'{])(\d[\d_]*)(?:usize|u8|u16|u32|u64|i32|i64)?(?![\w.])", src):
                    v = int(m.group(1).replace("_", ""))
                    if v >= 2:
                        out.add("%s:%d" % (os.path.relpath(os.path.join(dp, f), root), v))
    return sorted(out)

def new_source_constants():
    known = set(json.load(open(os.path.join(ROOT, "tools", "known_constants.json")))["constants"])
    return [c for c in source_constants() if c not in known]
