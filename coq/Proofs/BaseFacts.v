(* BaseFacts.v — facts about the generic comparison / sorted-list layer of Model/Base.v *)
From Coq Require Import List Bool NArith Lia.
Import ListNotations.
From JS Require Import Model.Base.

Lemma is_eq_true c : is_eq c = true <-> c = Eq.
Proof. destruct c; simpl; split; intro H; try reflexivity; discriminate. Qed.

Lemma thenc_eq c d : thenc c d = Eq <-> c = Eq /\ d = Eq.
Proof. destruct c; simpl; split; intros; intuition; discriminate. Qed.

Lemma thenc_lt c d : thenc c d = Lt <-> c = Lt \/ (c = Eq /\ d = Lt).
Proof. destruct c; simpl; split; intros; intuition; discriminate. Qed.

Lemma thenc_opp c d : CompOpp (thenc c d) = thenc (CompOpp c) (CompOpp d).
Proof. destruct c; reflexivity. Qed.

Lemma cmp_bool_eq a b : cmp_bool a b = Eq -> a = b.
Proof. destruct a, b; simpl; intro; congruence. Qed.
Lemma cmp_bool_refl a : cmp_bool a a = Eq.
Proof. destruct a; reflexivity. Qed.
Lemma cmp_bool_opp a b : cmp_bool b a = CompOpp (cmp_bool a b).
Proof. destruct a, b; reflexivity. Qed.
Lemma cmp_bool_trans a b c : cmp_bool a b = Lt -> cmp_bool b c = Lt -> cmp_bool a c = Lt.
Proof. destruct a, b, c; simpl; congruence. Qed.

(* ---------- lex_cmp ---------- *)
Section Lex.
  Context {A : Type} (f : A -> A -> comparison).

  Lemma lex_cmp_eq l : Forall (fun x => forall y, f x y = Eq -> x = y) l ->
    forall l', lex_cmp f l l' = Eq -> l = l'.
  Proof.
    induction 1 as [|x r Hx Hr IH]; intros [|y r'] H; simpl in H; try discriminate; auto.
    apply thenc_eq in H. destruct H as [H1 H2].
    f_equal; auto.
  Qed.

  Lemma lex_cmp_refl l : Forall (fun x => f x x = Eq) l -> lex_cmp f l l = Eq.
  Proof. induction 1 as [|x r Hx Hr IH]; simpl; auto. rewrite Hx. exact IH. Qed.

  Lemma lex_cmp_opp l : Forall (fun x => forall y, f y x = CompOpp (f x y)) l ->
    forall l', lex_cmp f l' l = CompOpp (lex_cmp f l l').
  Proof.
    induction 1 as [|x r Hx Hr IH]; intros [|y r']; simpl; auto.
    rewrite thenc_opp, Hx, IH. reflexivity.
  Qed.

  Lemma lex_cmp_trans l :
    Forall (fun x => (forall y, f x y = Eq -> x = y) /\
                     (forall y z, f x y = Lt -> f y z = Lt -> f x z = Lt)) l ->
    (forall y z, f y z = Eq -> y = z) ->
    forall l' l'', lex_cmp f l l' = Lt -> lex_cmp f l' l'' = Lt -> lex_cmp f l l'' = Lt.
  Proof.
    intros H Heq. induction H as [|x r [Hx1 Hx2] Hr IH]; intros [|y r'] [|z r''] H1 H2;
      simpl in *; try discriminate; auto.
    apply thenc_lt in H1. apply thenc_lt in H2. apply thenc_lt.
    destruct H1 as [H1|[H1 H1']], H2 as [H2|[H2 H2']].
    - left. eauto.
    - apply Heq in H2. subst. left. assumption.
    - apply Hx1 in H1. subst. left. assumption.
    - pose proof (Hx1 _ H1) as E1. pose proof (Heq _ _ H2) as E2. subst. right. split.
      + exact H1.
      + eauto.
  Qed.
End Lex.

(* ---------- keys ---------- *)
Lemma Ncompare_eq a b : N.compare a b = Eq -> a = b.
Proof. apply N.compare_eq. Qed.

Lemma cmp_key_eq a b : cmp_key a b = Eq -> a = b.
Proof.
  unfold cmp_key. apply lex_cmp_eq.
  apply Forall_forall. intros x _ y. apply N.compare_eq.
Qed.

Lemma cmp_key_refl a : cmp_key a a = Eq.
Proof. unfold cmp_key. apply lex_cmp_refl. apply Forall_forall. intros. apply N.compare_refl. Qed.

Lemma cmp_key_opp a b : cmp_key b a = CompOpp (cmp_key a b).
Proof.
  unfold cmp_key. apply lex_cmp_opp. apply Forall_forall. intros x _ y. apply N.compare_antisym.
Qed.

Lemma cmp_key_trans a b c : cmp_key a b = Lt -> cmp_key b c = Lt -> cmp_key a c = Lt.
Proof.
  unfold cmp_key. apply lex_cmp_trans.
  - apply Forall_forall. intros x _. split.
    + intro y. apply N.compare_eq.
    + intros y z H1 H2. rewrite N.compare_lt_iff in *. lia.
  - intros y z. apply N.compare_eq.
Qed.

Lemma key_eqb_eq a b : key_eqb a b = true <-> a = b.
Proof.
  unfold key_eqb. rewrite is_eq_true. split.
  - apply cmp_key_eq.
  - intros ->. apply cmp_key_refl.
Qed.

Lemma key_eqb_refl a : key_eqb a a = true.
Proof. apply key_eqb_eq. reflexivity. Qed.

Lemma key_eqb_neq a b : key_eqb a b = false <-> a <> b.
Proof.
  split.
  - intros H E. apply key_eqb_eq in E. congruence.
  - intro H. destruct (key_eqb a b) eqn:E; auto. apply key_eqb_eq in E. contradiction.
Qed.

Lemma key_eqb_sym a b : key_eqb a b = key_eqb b a.
Proof.
  destruct (key_eqb a b) eqn:E.
  - apply key_eqb_eq in E. subst. symmetry. apply key_eqb_refl.
  - symmetry. apply key_eqb_neq. apply key_eqb_neq in E. congruence.
Qed.

(* ---------- maps ---------- *)
Section MapFacts.
  Context {V : Type}.
  Implicit Types (l : list (key * V)) (k : key) (v : V).

  Lemma map_get_In k l v : map_get k l = Some v -> In (k, v) l.
  Proof.
    induction l as [|[k' v'] r IH]; simpl; intro H; [discriminate|].
    destruct (key_eqb k k') eqn:E.
    - apply key_eqb_eq in E. inversion H. subst. left. reflexivity.
    - right. auto.
  Qed.

  Lemma map_has_In k v l : In (k, v) l -> map_has k l = true.
  Proof.
    unfold map_has. induction l as [|[k' v'] r IH]; simpl; intro H; [contradiction|].
    destruct (key_eqb k k') eqn:E; auto.
    destruct H as [H|H].
    - inversion H. subst. rewrite key_eqb_refl in E. discriminate.
    - auto.
  Qed.

  (* every key of the tail is strictly greater than the head key *)
  Definition keys_above k l : Prop := Forall (fun p => cmp_key k (fst p) = Lt) l.

  Lemma keys_sorted_cons k v l :
    keys_sorted ((k, v) :: l) = true <-> keys_above k l /\ keys_sorted l = true.
  Proof.
    revert k v. induction l as [|[k' v'] r IH]; intros k v.
    - simpl. split; intros; [split; [constructor|reflexivity]|reflexivity].
    - change (keys_sorted ((k, v) :: (k', v') :: r))
        with (match cmp_key k k' with Lt => keys_sorted ((k', v') :: r) | _ => false end).
      destruct (cmp_key k k') eqn:E.
      + split; [discriminate|]. intros [H _]. inversion H. simpl in *. congruence.
      + split.
        * intro H. split; [|exact H]. constructor; [exact E|].
          apply IH in H. destruct H as [H _].
          eapply Forall_impl; [|exact H]. intros [k2 v2] H2. simpl in *.
          eapply cmp_key_trans; eassumption.
        * intros [_ H]. exact H.
      + split; [discriminate|]. intros [H _]. inversion H. simpl in *. congruence.
  Qed.

  Lemma keys_above_get k l : keys_above k l -> map_get k l = None.
  Proof.
    induction 1 as [|[k' v'] r H Hr IH]; simpl; auto.
    simpl in H. unfold key_eqb. rewrite H. simpl. exact IH.
  Qed.

  Lemma sorted_get_In k v l : keys_sorted l = true -> In (k, v) l -> map_get k l = Some v.
  Proof.
    induction l as [|[k' v'] r IH]; intros Hs Hin; [contradiction|].
    apply keys_sorted_cons in Hs. destruct Hs as [Ha Hs].
    simpl. destruct Hin as [Hin|Hin].
    - inversion Hin. subst. rewrite key_eqb_refl. reflexivity.
    - destruct (key_eqb k k') eqn:E.
      + apply key_eqb_eq in E. subst.
        apply keys_above_get in Ha. rewrite (IH Hs Hin) in Ha. discriminate.
      + auto.
  Qed.
End MapFacts.

(* ---------- more on maps: insert / remove / extensionality ---------- *)
Section MapFacts2.
  Context {V : Type}.
  Implicit Types (l : list (key * V)) (k : key) (v : V).

  Lemma map_get_insert k' k v l :
    map_get k' (map_insert k v l) = if key_eqb k' k then Some v else map_get k' l.
  Proof.
    induction l as [|[k1 v1] r IH]; simpl.
    - destruct (key_eqb k' k); reflexivity.
    - destruct (cmp_key k k1) eqn:E; simpl.
      + apply cmp_key_eq in E. subst k1. destruct (key_eqb k' k); reflexivity.
      + destruct (key_eqb k' k); reflexivity.
      + rewrite IH. destruct (key_eqb k' k) eqn:E1; [|reflexivity].
        apply key_eqb_eq in E1. subst k'.
        unfold key_eqb. rewrite E. reflexivity.
  Qed.

  Lemma keys_above_insert k0 k v l :
    cmp_key k0 k = Lt -> keys_above k0 l -> keys_above k0 (map_insert k v l).
  Proof.
    intros Hk H. induction H as [|[k1 v1] r H1 Hr IH]; simpl.
    - constructor; [exact Hk|constructor].
    - destruct (cmp_key k k1) eqn:E.
      + constructor; [exact H1|exact Hr].
      + constructor; [exact Hk|]. constructor; [exact H1|exact Hr].
      + constructor; [exact H1|exact IH].
  Qed.

  Lemma keys_sorted_insert k v l : keys_sorted l = true -> keys_sorted (map_insert k v l) = true.
  Proof.
    induction l as [|[k1 v1] r IH]; intro Hs; [reflexivity|].
    apply keys_sorted_cons in Hs. destruct Hs as [Ha Hs].
    simpl. destruct (cmp_key k k1) eqn:E.
    - apply keys_sorted_cons. split; assumption.
    - apply keys_sorted_cons. split.
      + constructor; [exact E|]. eapply Forall_impl; [|exact Ha].
        intros [k2 v2] H2. simpl in *. eapply cmp_key_trans; eassumption.
      + apply keys_sorted_cons. split; assumption.
    - apply keys_sorted_cons. split; [|apply IH; exact Hs].
      apply keys_above_insert; [|exact Ha].
      rewrite cmp_key_opp, E. reflexivity.
  Qed.

  Lemma keys_sorted_tail kv l : keys_sorted (kv :: l) = true -> keys_sorted l = true.
  Proof. destruct kv as [k v]. intro H. apply keys_sorted_cons in H. tauto. Qed.

  Lemma map_get_remove k' k l : keys_sorted l = true ->
    map_get k' (map_remove k l) = if key_eqb k' k then None else map_get k' l.
  Proof.
    induction l as [|[k1 v1] r IH]; intro Hs; simpl.
    - destruct (key_eqb k' k); reflexivity.
    - apply keys_sorted_cons in Hs. destruct Hs as [Ha Hs].
      destruct (key_eqb k k1) eqn:E.
      + apply key_eqb_eq in E. subst k1.
        destruct (key_eqb k' k) eqn:E1; [|reflexivity].
        apply key_eqb_eq in E1. subst k'. apply keys_above_get. exact Ha.
      + simpl. rewrite (IH Hs). destruct (key_eqb k' k) eqn:E1.
        * apply key_eqb_eq in E1. subst k'. rewrite E. reflexivity.
        * reflexivity.
  Qed.

  Lemma keys_above_remove k0 k l : keys_above k0 l -> keys_above k0 (map_remove k l).
  Proof.
    induction 1 as [|[k1 v1] r H1 Hr IH]; simpl; [constructor|].
    destruct (key_eqb k k1); [exact Hr|]. constructor; assumption.
  Qed.

  Lemma keys_sorted_remove k l : keys_sorted l = true -> keys_sorted (map_remove k l) = true.
  Proof.
    induction l as [|[k1 v1] r IH]; intro Hs; [reflexivity|].
    apply keys_sorted_cons in Hs. destruct Hs as [Ha Hs]. simpl.
    destruct (key_eqb k k1); [exact Hs|].
    apply keys_sorted_cons. split; [apply keys_above_remove; exact Ha|apply IH; exact Hs].
  Qed.

  Lemma map_get_In_sorted k v l : keys_sorted l = true -> (In (k, v) l <-> map_get k l = Some v).
  Proof. intro Hs. split; [apply sorted_get_In; exact Hs|apply map_get_In]. Qed.

  (* two key-sorted maps with the same lookup function are equal *)
  Lemma map_ext l l' : keys_sorted l = true -> keys_sorted l' = true ->
    (forall k, map_get k l = map_get k l') -> l = l'.
  Proof.
    revert l'. induction l as [|[k v] r IH]; intros [|[k' v'] r'] Hs Hs' H.
    - reflexivity.
    - specialize (H k'). simpl in H. rewrite key_eqb_refl in H. discriminate.
    - specialize (H k). simpl in H. rewrite key_eqb_refl in H. discriminate.
    - apply keys_sorted_cons in Hs. destruct Hs as [Ha Hs].
      apply keys_sorted_cons in Hs'. destruct Hs' as [Ha' Hs'].
      assert (Hk : k = k').
      { destruct (cmp_key k k') eqn:E.
        - apply cmp_key_eq. exact E.
        - (* k < k' : k is not in l' *)
          pose proof (H k) as Hk. simpl in Hk. rewrite key_eqb_refl in Hk.
          unfold key_eqb in Hk at 1. rewrite E in Hk. simpl in Hk.
          assert (keys_above k r').
          { eapply Forall_impl; [|exact Ha']. intros [k2 v2] H2. simpl in *. eapply cmp_key_trans; eassumption. }
          rewrite (keys_above_get _ _ H0) in Hk. discriminate.
        - pose proof (H k') as Hk. simpl in Hk. rewrite key_eqb_refl in Hk.
          assert (E' : cmp_key k' k = Lt) by (rewrite cmp_key_opp, E; reflexivity).
          unfold key_eqb in Hk at 1. rewrite E' in Hk. simpl in Hk.
          assert (keys_above k' r).
          { eapply Forall_impl; [|exact Ha]. intros [k2 v2] H2. simpl in *. eapply cmp_key_trans; eassumption. }
          rewrite (keys_above_get _ _ H0) in Hk. discriminate. }
      subst k'. pose proof (H k) as Hv. simpl in Hv. rewrite key_eqb_refl in Hv. inversion Hv. subst v'.
      f_equal. apply IH; try assumption.
      intro k2. specialize (H k2). simpl in H.
      destruct (key_eqb k2 k) eqn:E; [|exact H].
      apply key_eqb_eq in E. subst k2.
      rewrite (keys_above_get _ _ Ha), (keys_above_get _ _ Ha'). reflexivity.
  Qed.

  Lemma map_has_get k l : map_has k l = true <-> exists v, map_get k l = Some v.
  Proof.
    unfold map_has. destruct (map_get k l) as [v|]; split; intro H; try discriminate; eauto.
    destruct H as [v H]. discriminate.
  Qed.
End MapFacts2.

(* ---------- sorted sets, generic in a total order ---------- *)
Section SetFacts.
  Context {A : Type} (cmp : A -> A -> comparison).
  Hypothesis cmp_eq : forall a b, cmp a b = Eq -> a = b.
  Hypothesis cmp_refl : forall a, cmp a a = Eq.
  Hypothesis cmp_opp : forall a b, cmp b a = CompOpp (cmp a b).
  Hypothesis cmp_trans : forall a b c, cmp a b = Lt -> cmp b c = Lt -> cmp a c = Lt.

  Definition all_above (x : A) (l : list A) : Prop := Forall (fun y => cmp x y = Lt) l.

  Lemma sorted_cons x l : sorted cmp (x :: l) = true <-> all_above x l /\ sorted cmp l = true.
  Proof.
    revert x. induction l as [|y r IH]; intro x.
    - simpl. split; intros; [split; [constructor|reflexivity]|reflexivity].
    - change (sorted cmp (x :: y :: r)) with (match cmp x y with Lt => sorted cmp (y :: r) | _ => false end).
      destruct (cmp x y) eqn:E.
      + split; [discriminate|]. intros [H _]. inversion H. congruence.
      + split.
        * intro H. split; [|exact H]. constructor; [exact E|].
          apply IH in H. destruct H as [H _]. eapply Forall_impl; [|exact H].
          intros z Hz. eapply cmp_trans; eassumption.
        * intros [_ H]. exact H.
      + split; [discriminate|]. intros [H _]. inversion H. congruence.
  Qed.

  Lemma set_insert_In x y l : In y (set_insert cmp x l) <-> y = x \/ In y l.
  Proof.
    induction l as [|z r IH]; simpl.
    - intuition.
    - destruct (cmp x z) eqn:E; simpl.
      + apply cmp_eq in E. subst. intuition.
      + intuition.
      + rewrite IH. intuition.
  Qed.

  Lemma all_above_insert x0 x l : cmp x0 x = Lt -> all_above x0 l -> all_above x0 (set_insert cmp x l).
  Proof.
    intros Hx H. unfold all_above in *. apply Forall_forall. intros y Hy. apply set_insert_In in Hy.
    destruct Hy as [->|Hy]; [exact Hx|]. rewrite Forall_forall in H. auto.
  Qed.

  Lemma sorted_insert x l : sorted cmp l = true -> sorted cmp (set_insert cmp x l) = true.
  Proof.
    induction l as [|y r IH]; intro Hs; [reflexivity|].
    apply sorted_cons in Hs. destruct Hs as [Ha Hs]. simpl.
    destruct (cmp x y) eqn:E.
    - apply sorted_cons. split; assumption.
    - apply sorted_cons. split.
      + constructor; [exact E|]. eapply Forall_impl; [|exact Ha]. intros z Hz. eapply cmp_trans; eassumption.
      + apply sorted_cons. split; assumption.
    - apply sorted_cons. split; [|apply IH; exact Hs].
      apply all_above_insert; [|exact Ha]. rewrite cmp_opp, E. reflexivity.
  Qed.

  Lemma all_above_notin x l : all_above x l -> ~ In x l.
  Proof.
    intros H Hin. unfold all_above in H. rewrite Forall_forall in H. specialize (H _ Hin). rewrite cmp_refl in H. discriminate.
  Qed.

  (* inserting an element that is already there changes nothing *)
  Lemma set_insert_present x l : sorted cmp l = true -> In x l -> set_insert cmp x l = l.
  Proof.
    induction l as [|y r IH]; intros Hs Hin; [contradiction|].
    apply sorted_cons in Hs. destruct Hs as [Ha Hs]. simpl.
    destruct Hin as [->|Hin].
    - rewrite cmp_refl. reflexivity.
    - destruct (cmp x y) eqn:E.
      + reflexivity.
      + exfalso. unfold all_above in Ha. rewrite Forall_forall in Ha. specialize (Ha _ Hin).
        pose proof (cmp_trans _ _ _ E Ha) as C. rewrite cmp_refl in C. discriminate.
      + f_equal. apply IH; assumption.
  Qed.

  (* two sorted lists with the same elements are equal *)
  Lemma sorted_ext l l' : sorted cmp l = true -> sorted cmp l' = true ->
    (forall x, In x l <-> In x l') -> l = l'.
  Proof.
    revert l'. induction l as [|x r IH]; intros [|y r'] Hs Hs' H.
    - reflexivity.
    - exfalso. apply (H y). left. reflexivity.
    - exfalso. apply (H x). left. reflexivity.
    - apply sorted_cons in Hs. destruct Hs as [Ha Hs].
      apply sorted_cons in Hs'. destruct Hs' as [Ha' Hs'].
      assert (x = y).
      { destruct (cmp x y) eqn:E.
        - apply cmp_eq. exact E.
        - exfalso. assert (Hx : In x (y :: r')) by (apply H; left; reflexivity).
          destruct Hx as [Hx|Hx]; [subst; rewrite cmp_refl in E; discriminate|].
          unfold all_above in Ha'. rewrite Forall_forall in Ha'. specialize (Ha' _ Hx).
          pose proof (cmp_trans _ _ _ E Ha') as C. rewrite cmp_refl in C. discriminate.
        - exfalso. assert (E' : cmp y x = Lt) by (rewrite cmp_opp, E; reflexivity).
          assert (Hy : In y (x :: r)) by (apply H; left; reflexivity).
          destruct Hy as [Hy|Hy]; [subst; rewrite cmp_refl in E; discriminate|].
          unfold all_above in Ha. rewrite Forall_forall in Ha. specialize (Ha _ Hy).
          pose proof (cmp_trans _ _ _ E' Ha) as C. rewrite cmp_refl in C. discriminate. }
      subst y. f_equal. apply IH; try assumption.
      intro z. split; intro Hz.
      + assert (Hz' : In z (x :: r')) by (apply H; right; exact Hz).
        destruct Hz' as [->|Hz']; [|exact Hz']. exfalso. exact (all_above_notin _ _ Ha Hz).
      + assert (Hz' : In z (x :: r)) by (apply H; right; exact Hz).
        destruct Hz' as [->|Hz']; [|exact Hz']. exfalso. exact (all_above_notin _ _ Ha' Hz).
  Qed.

  Lemma sorted_union l extra : sorted cmp l = true -> sorted cmp (set_union cmp l extra) = true.
  Proof.
    unfold set_union. revert l. induction extra as [|x r IH]; intros l Hs; simpl; [exact Hs|].
    apply IH. apply sorted_insert. exact Hs.
  Qed.

  Lemma set_union_In y l extra : In y (set_union cmp l extra) <-> In y l \/ In y extra.
  Proof.
    unfold set_union. revert l. induction extra as [|x r IH]; intro l; simpl.
    - intuition.
    - rewrite IH, set_insert_In. intuition.
  Qed.
End SetFacts.
