(* BaseFacts.v — facts about the generic comparison / sorted-list layer of Model/Base.v *)
From Coq Require Import List Bool NArith Lia.
Import ListNotations.
From JS Require Import Model.Base.

Lemma is_eq_true c : is_eq c = true <-> c = Eq.
Proof. destruct c; simpl; split; intro H; try reflexivity; discriminate. Qed.

Lemma thenc_eq c d : thenc c d = Eq <-> c = Eq /\ d = Eq.
Proof. destruct c; simpl; split; intros; intuition; discriminate. Qed.

Lemma thenc_lt c d : thenc c d = Lt <-> c = Lt \/ (c = Eq /\ d = Lt).
Proof. destruct c; simpl; split; intros; intuition; discriminate. Qed.

Lemma thenc_opp c d : CompOpp (thenc c d) = thenc (CompOpp c) (CompOpp d).
Proof. destruct c; reflexivity. Qed.

Lemma cmp_bool_eq a b : cmp_bool a b = Eq -> a = b.
Proof. destruct a, b; simpl; intro; congruence. Qed.
Lemma cmp_bool_refl a : cmp_bool a a = Eq.
Proof. destruct a; reflexivity. Qed.
Lemma cmp_bool_opp a b : cmp_bool b a = CompOpp (cmp_bool a b).
Proof. destruct a, b; reflexivity. Qed.
Lemma cmp_bool_trans a b c : cmp_bool a b = Lt -> cmp_bool b c = Lt -> cmp_bool a c = Lt.
Proof. destruct a, b, c; simpl; congruence. Qed.

(* ---------- lex_cmp ---------- *)
Section Lex.
  Context {A : Type} (f : A -> A -> comparison).

  Lemma lex_cmp_eq l : Forall (fun x => forall y, f x y = Eq -> x = y) l ->
    forall l', lex_cmp f l l' = Eq -> l = l'.
  Proof.
    induction 1 as [|x r Hx Hr IH]; intros [|y r'] H; simpl in H; try discriminate; auto.
    apply thenc_eq in H. destruct H as [H1 H2].
    f_equal; auto.
  Qed.

  Lemma lex_cmp_refl l : Forall (fun x => f x x = Eq) l -> lex_cmp f l l = Eq.
  Proof. induction 1 as [|x r Hx Hr IH]; simpl; auto. rewrite Hx. exact IH. Qed.

  Lemma lex_cmp_opp l : Forall (fun x => forall y, f y x = CompOpp (f x y)) l ->
    forall l', lex_cmp f l' l = CompOpp (lex_cmp f l l').
  Proof.
    induction 1 as [|x r Hx Hr IH]; intros [|y r']; simpl; auto.
    rewrite thenc_opp, Hx, IH. reflexivity.
  Qed.

  Lemma lex_cmp_trans l :
    Forall (fun x => (forall y, f x y = Eq -> x = y) /\
                     (forall y z, f x y = Lt -> f y z = Lt -> f x z = Lt)) l ->
    (forall y z, f y z = Eq -> y = z) ->
    forall l' l'', lex_cmp f l l' = Lt -> lex_cmp f l' l'' = Lt -> lex_cmp f l l'' = Lt.
  Proof.
    intros H Heq. induction H as [|x r [Hx1 Hx2] Hr IH]; intros [|y r'] [|z r''] H1 H2;
      simpl in *; try discriminate; auto.
    apply thenc_lt in H1. apply thenc_lt in H2. apply thenc_lt.
    destruct H1 as [H1|[H1 H1']], H2 as [H2|[H2 H2']].
    - left. eauto.
    - apply Heq in H2. subst. left. assumption.
    - apply Hx1 in H1. subst. left. assumption.
    - pose proof (Hx1 _ H1) as E1. pose proof (Heq _ _ H2) as E2. subst. right. split.
      + exact H1.
      + eauto.
  Qed.
End Lex.

(* ---------- keys ---------- *)
Lemma Ncompare_eq a b : N.compare a b = Eq -> a = b.
Proof. apply N.compare_eq. Qed.

Lemma cmp_key_eq a b : cmp_key a b = Eq -> a = b.
Proof.
  unfold cmp_key. apply lex_cmp_eq.
  apply Forall_forall. intros x _ y. apply N.compare_eq.
Qed.

Lemma cmp_key_refl a : cmp_key a a = Eq.
Proof. unfold cmp_key. apply lex_cmp_refl. apply Forall_forall. intros. apply N.compare_refl. Qed.

Lemma cmp_key_opp a b : cmp_key b a = CompOpp (cmp_key a b).
Proof.
  unfold cmp_key. apply lex_cmp_opp. apply Forall_forall. intros x _ y. apply N.compare_antisym.
Qed.

Lemma cmp_key_trans a b c : cmp_key a b = Lt -> cmp_key b c = Lt -> cmp_key a c = Lt.
Proof.
  unfold cmp_key. apply lex_cmp_trans.
  - apply Forall_forall. intros x _. split.
    + intro y. apply N.compare_eq.
    + intros y z H1 H2. rewrite N.compare_lt_iff in *. lia.
  - intros y z. apply N.compare_eq.
Qed.

Lemma key_eqb_eq a b : key_eqb a b = true <-> a = b.
Proof.
  unfold key_eqb. rewrite is_eq_true. split.
  - apply cmp_key_eq.
  - intros ->. apply cmp_key_refl.
Qed.

Lemma key_eqb_refl a : key_eqb a a = true.
Proof. apply key_eqb_eq. reflexivity. Qed.

Lemma key_eqb_neq a b : key_eqb a b = false <-> a <> b.
Proof.
  split.
  - intros H E. apply key_eqb_eq in E. congruence.
  - intro H. destruct (key_eqb a b) eqn:E; auto. apply key_eqb_eq in E. contradiction.
Qed.

Lemma key_eqb_sym a b : key_eqb a b = key_eqb b a.
Proof.
  destruct (key_eqb a b) eqn:E.
  - apply key_eqb_eq in E. subst. symmetry. apply key_eqb_refl.
  - symmetry. apply key_eqb_neq. apply key_eqb_neq in E. congruence.
Qed.

(* ---------- maps ---------- *)
Section MapFacts.
  Context {V : Type}.
  Implicit Types (l : list (key * V)) (k : key) (v : V).

  Lemma map_get_In k l v : map_get k l = Some v -> In (k, v) l.
  Proof.
    induction l as [|[k' v'] r IH]; simpl; intro H; [discriminate|].
    destruct (key_eqb k k') eqn:E.
    - apply key_eqb_eq in E. inversion H. subst. left. reflexivity.
    - right. auto.
  Qed.

  Lemma map_has_In k v l : In (k, v) l -> map_has k l = true.
  Proof.
    unfold map_has. induction l as [|[k' v'] r IH]; simpl; intro H; [contradiction|].
    destruct (key_eqb k k') eqn:E; auto.
    destruct H as [H|H].
    - inversion H. subst. rewrite key_eqb_refl in E. discriminate.
    - auto.
  Qed.

  (* every key of the tail is strictly greater than the head key *)
  Definition keys_above k l : Prop := Forall (fun p => cmp_key k (fst p) = Lt) l.

  Lemma keys_sorted_cons k v l :
    keys_sorted ((k, v) :: l) = true <-> keys_above k l /\ keys_sorted l = true.
  Proof.
    revert k v. induction l as [|[k' v'] r IH]; intros k v.
    - simpl. split; intros; [split; [constructor|reflexivity]|reflexivity].
    - change (keys_sorted ((k, v) :: (k', v') :: r))
        with (match cmp_key k k' with Lt => keys_sorted ((k', v') :: r) | _ => false end).
      destruct (cmp_key k k') eqn:E.
      + split; [discriminate|]. intros [H _]. inversion H. simpl in *. congruence.
      + split.
        * intro H. split; [|exact H]. constructor; [exact E|].
          apply IH in H. destruct H as [H _].
          eapply Forall_impl; [|exact H]. intros [k2 v2] H2. simpl in *.
          eapply cmp_key_trans; eassumption.
        * intros [_ H]. exact H.
      + split; [discriminate|]. intros [H _]. inversion H. simpl in *. congruence.
  Qed.

  Lemma keys_above_get k l : keys_above k l -> map_get k l = None.
  Proof.
    induction 1 as [|[k' v'] r H Hr IH]; simpl; auto.
    simpl in H. unfold key_eqb. rewrite H. simpl. exact IH.
  Qed.

  Lemma sorted_get_In k v l : keys_sorted l = true -> In (k, v) l -> map_get k l = Some v.
  Proof.
    induction l as [|[k' v'] r IH]; intros Hs Hin; [contradiction|].
    apply keys_sorted_cons in Hs. destruct Hs as [Ha Hs].
    simpl. destruct Hin as [Hin|Hin].
    - inversion Hin. subst. rewrite key_eqb_refl. reflexivity.
    - destruct (key_eqb k k') eqn:E.
      + apply key_eqb_eq in E. subst.
        apply keys_above_get in Ha. rewrite (IH Hs Hin) in Ha. discriminate.
      + auto.
  Qed.
End MapFacts.
