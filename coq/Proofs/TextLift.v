(* TextLift.v — the tree-level theorems of C01, C02, C03, C08, C09 restated for the TEXT entry points
   (from_sources_m / is_superset_m / is_superset_checked_m of Model/TextApi.v with the code's
   current configuration), through the completeness equations of Proofs/TextComplete.v:
   on RFC 8259 texts of nesting depth <= 256 the text entry points ARE the tree-level ones. *)
From Coq Require Import List Bool NArith Lia.
Import ListNotations.
From JS Require Import Model.Base Model.Shape Model.Sem Model.Subset Model.Merger Model.Infer Model.Api
  Model.Lexer Model.Walk Model.TextApi Model.JsonRef
  Proofs.SourcesSound Proofs.InferTotal Proofs.SupersetFragment Proofs.MergerAlgebra Proofs.MergerConverge
  Proofs.WalkComplete Proofs.TextComplete.

Lemma lift_api_ok x s : lift_api x = Ok s -> x = Ok s.
Proof.
  destruct x as [y|[[a b]|[|]]|]; simpl; intro H; try discriminate. inversion H. reflexivity.
Qed.

Lemma forall2_text_in srcs ds : Forall2 text_of srcs ds ->
  forall d, In d ds -> exists s, In s srcs /\ text_of s d.
Proof.
  induction 1 as [|s d srcs ds H Hr IH]; intros x [].
  - subst. exists s. split; [left; reflexivity|exact H].
  - destruct (IH x H0) as [s' [H1 H2]]. exists s'. split; [right; exact H1|exact H2].
Qed.

(* C01: every (conflict-free) source text is a member of the shape inferred from the source texts *)
Theorem text_sources_members srcs ds sh : Forall2 text_of srcs ds ->
  from_sources_m cfg_now srcs = Ok sh ->
  forall d, In d ds -> conflict_free d = true -> mem d sh = true.
Proof.
  intros H E. rewrite (from_sources_complete_now srcs ds H) in E. apply lift_api_ok in E.
  exact (sources_members ds sh E).
Qed.

(* C01: inference from non-empty source texts without conflicting duplicate names succeeds *)
Theorem text_sources_succeed srcs ds : Forall2 text_of srcs ds -> ds <> [] ->
  Forall (fun d => dup_consistent d = true) ds -> exists sh, from_sources_m cfg_now srcs = Ok sh.
Proof.
  intros H Hne Hd. rewrite (from_sources_complete_now srcs ds H).
  destruct (sources_succeed_dup ds Hne Hd) as [sh E]. rewrite E. exists sh. reflexivity.
Qed.

(* C01: one more source text never removes a document *)
Theorem text_sources_monotone srcs ds s d sh sh' : Forall2 text_of srcs ds -> text_of s d ->
  from_sources_m cfg_now srcs = Ok sh -> from_sources_m cfg_now (srcs ++ [s]) = Ok sh' ->
  forall x, mem x sh = true -> mem x sh' = true.
Proof.
  intros H Hs E E'.
  assert (H' : Forall2 text_of (srcs ++ [s]) (ds ++ [d])) by (apply Forall2_app; [exact H|constructor; [exact Hs|constructor]]).
  rewrite (from_sources_complete_now _ _ H) in E. rewrite (from_sources_complete_now _ _ H') in E'.
  apply lift_api_ok in E. apply lift_api_ok in E'. exact (sources_monotone ds d sh sh' E E').
Qed.

(* C02: an accepted text is a member (unchecked and checked form) *)
Theorem text_superset_sound sh s d : text_of s d -> wf sh = true ->
  is_superset_m cfg_now sh s = Ok true -> conflict_free d = true -> mem d sh = true.
Proof.
  intros Ht Hw E Hc. rewrite (is_superset_complete_now sh s d Ht) in E. injection E as E'.
  apply superset_sound; assumption.
Qed.

Theorem text_superset_checked_sound sh s d : text_of s d -> wf sh = true ->
  is_superset_checked_m cfg_now sh s = Ok true -> conflict_free d = true -> mem d sh = true.
Proof.
  intros Ht Hw E Hc. rewrite (is_superset_checked_complete_now sh s d Ht) in E.
  destruct (is_superset_checked_tree sh d) as [b|[a c]|] eqn:Eb; simpl in E; try discriminate.
  injection E as E'. subst b. apply superset_checked_sound; assumption.
Qed.

(* C03: when the shape inferred from the source texts is OneOf-free it accepts every one of them *)
Theorem text_sources_accept_free srcs ds sh : Forall2 text_of srcs ds ->
  from_sources_m cfg_now srcs = Ok sh -> oneof_free sh = true ->
  forall s d, text_of s d -> In d ds ->
  is_superset_m cfg_now sh s = Ok true /\ is_superset_checked_m cfg_now sh s = Ok true.
Proof.
  intros H E Hf s d Ht Hin. rewrite (from_sources_complete_now srcs ds H) in E. apply lift_api_ok in E.
  destruct (sources_superset_free ds sh E Hf d Hin) as [H1 H2].
  rewrite (is_superset_complete_now sh s d Ht), (is_superset_checked_complete_now sh s d Ht), H1, H2.
  split; reflexivity.
Qed.

(* C08: a text merged with itself gives its own shape; merged with null, its optional form *)
Theorem text_sources_idem s d sh : text_of s d -> from_str_m cfg_now s = Ok sh ->
  from_sources_m cfg_now [s; s] = Ok sh.
Proof.
  intros Ht E. destruct Ht as [Hj Hd]. rewrite (from_str_complete_now s d Hj Hd) in E.
  destruct (infer_text d) as [x|[a b]|] eqn:Ei; simpl in E; try discriminate. inversion E. subst x.
  assert (Ht : text_of s d) by (split; assumption).
  rewrite (from_sources_complete_now [s; s] [d; d]) by (constructor; [exact Ht|constructor; [exact Ht|constructor]]).
  rewrite (sources_idem d sh Ei). reflexivity.
Qed.

(* C09: once a source text has just been added, adding it again any number of times changes nothing *)
Theorem text_sources_converge srcs ds s d sd sh : Forall2 text_of srcs ds -> text_of s d ->
  infer_text d = Ok sd -> no_null_array sd = true ->
  from_sources_m cfg_now (srcs ++ [s]) = Ok sh ->
  forall k, from_sources_m cfg_now ((srcs ++ [s]) ++ repeat s k) = Ok sh.
Proof.
  intros H Hs Ei Hn E k.
  assert (H1 : Forall2 text_of (srcs ++ [s]) (ds ++ [d])) by (apply Forall2_app; [exact H|constructor; [exact Hs|constructor]]).
  assert (Hk : Forall2 text_of (repeat s k) (repeat d k)) by (induction k; simpl; constructor; assumption).
  rewrite (from_sources_complete_now _ _ H1) in E. apply lift_api_ok in E.
  rewrite (from_sources_complete_now _ ((ds ++ [d]) ++ repeat d k)) by (apply Forall2_app; assumption).
  rewrite (sources_converge ds d sd sh Ei Hn E k). reflexivity.
Qed.
