(* TextLiftScalar.v — C03 on the class scalar_oneofs, restated for the TEXT entry points
   (from_sources_m / is_superset_m / is_superset_checked_m with the code's current configuration),
   through the completeness equations of Proofs/TextComplete.v, exactly as
   text_sources_accept_free in Proofs/TextLift.v. *)
From Coq Require Import List Bool NArith Lia.
Import ListNotations.
From JS Require Import Model.Base Model.Shape Model.Sem Model.Subset Model.Merger Model.Infer Model.Api
  Model.Lexer Model.Walk Model.TextApi Model.JsonRef Model.OneOfClass
  Proofs.SourcesSound Proofs.SupersetScalar Proofs.WalkComplete Proofs.TextComplete Proofs.TextLift.

(* C03: when every OneOf of the shape inferred from the source texts is a union of non-optional
   scalar kinds, the shape accepts every one of the source texts *)
Theorem text_sources_accept_scalar srcs ds sh : Forall2 text_of srcs ds ->
  from_sources_m cfg_now srcs = Ok sh -> scalar_oneofs sh = true ->
  forall s d, text_of s d -> In d ds ->
  is_superset_m cfg_now sh s = Ok true /\ is_superset_checked_m cfg_now sh s = Ok true.
Proof.
  intros H E Hf s d Ht Hin. rewrite (from_sources_complete_now srcs ds H) in E. apply lift_api_ok in E.
  destruct (sources_superset_scalar ds sh E Hf d Hin) as [H1 H2].
  rewrite (is_superset_complete_now sh s d Ht), (is_superset_checked_complete_now sh s d Ht), H1, H2.
  split; reflexivity.
Qed.
