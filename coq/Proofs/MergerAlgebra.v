(* MergerAlgebra.v — C08: idempotence, null absorption, order-insensitivity up to meaning,
   and the structure-preservation equations of merger. *)
From Coq Require Import List Bool NArith Lia.
Import ListNotations.
From JS Require Import Model.Base Model.Shape Model.Sem Model.Subset Model.Merger Model.Infer Model.Api
  Proofs.BaseFacts Proofs.ShapeFacts Proofs.SemFacts Proofs.SubsetFacts Proofs.SubsetSound
  Proofs.MergerFacts Proofs.MergerSound Proofs.InferFacts Proofs.InferSound Proofs.SourcesSound.

(* ---------- null absorption ---------- *)
Theorem merge_null_l s : merger SNull s = as_optional s.
Proof. reflexivity. Qed.

Theorem merge_null_r s : merger s SNull = as_optional s.
Proof. destruct s; reflexivity. Qed.

(* ---------- idempotence ---------- *)
Lemma sset_union_absorb vs : sorted cmp vs = true -> forall extra, (forall x, In x extra -> In x vs) ->
  sset_union vs extra = vs.
Proof.
  intros Hs extra. unfold sset_union, set_union. induction extra as [|x r IH]; intro H; simpl; [reflexivity|].
  fold (sset_insert x vs). rewrite sset_insert_present; [|exact Hs|apply H; left; reflexivity].
  apply IH. intros y Hy. apply H. right. exact Hy.
Qed.

Lemma fold_tuple_self es : Forall (fun e => wf e = true) es -> fold_tuple es es = Some es.
Proof.
  induction 1 as [|e r He Hr IH]; simpl; [reflexivity|].
  unfold fold_pair. rewrite (subset_refl e He). rewrite IH. reflexivity.
Qed.

Theorem merge_idem : forall s, wf s = true -> merger s s = s.
Proof.
  induction s as [|o|o|o|t o IH|c o IH|vs o IH|es o IH] using shape_ind'; intro Hw.
  - reflexivity.
  - simpl. rewrite orb_diag. reflexivity.
  - simpl. rewrite orb_diag. reflexivity.
  - simpl. rewrite orb_diag. reflexivity.
  - simpl in Hw. simpl. rewrite (IH Hw), orb_diag. reflexivity.
  - rewrite merger_object_object, orb_diag. f_equal.
    apply wf_object in Hw. destruct Hw as [Hs Hwv].
    apply map_ext; [apply obj_merge_go_sorted; reflexivity|exact Hs|].
    intro k. rewrite obj_merge_go_get by assumption.
    destruct (map_get k c) as [v|] eqn:G; [|reflexivity].
    apply map_get_In in G. rewrite Forall_forall in IH, Hwv.
    pose proof (IH (k, v) G (Hwv (k, v) G)) as E. simpl in E. rewrite E. reflexivity.
  - cbn [merger]. rewrite orb_diag. apply wf_oneof in Hw. destruct Hw as [Hs _].
    rewrite sset_union_absorb; auto.
  - cbn [merger]. apply wf_tuple in Hw. rewrite (fold_tuple_self es Hw), orb_diag. reflexivity.
Qed.

(* ---------- congruences of the meaning ---------- *)
Lemma equiv_refl s : equiv_sh s s.
Proof. intro d. reflexivity. Qed.

Lemma existsb_same_elems {A} (f : A -> bool) l l' : (forall z, In z l <-> In z l') -> existsb f l = existsb f l'.
Proof.
  intro H. destruct (existsb f l) eqn:E.
  - apply existsb_exists in E. destruct E as [x [Hx Hf]]. symmetry. apply existsb_exists. exists x. split; [apply H; exact Hx|exact Hf].
  - destruct (existsb f l') eqn:E'; [|reflexivity].
    apply existsb_exists in E'. destruct E' as [x [Hx Hf]].
    assert (existsb f l = true) by (apply existsb_exists; exists x; split; [apply H; exact Hx|exact Hf]). congruence.
Qed.

Lemma equiv_oneof vs ws o : (forall z, In z vs <-> In z ws) -> equiv_sh (SOneOf vs o) (SOneOf ws o).
Proof. intros H d. rewrite !mem_oneof. f_equal. apply existsb_same_elems. exact H. Qed.

Lemma equiv_array t t' o : equiv_sh t t' -> equiv_sh (SArray t o) (SArray t' o).
Proof.
  intros H d. destruct d; simpl; try reflexivity.
  induction l as [|x l IH]; simpl; [reflexivity|]. rewrite (H x), IH. reflexivity.
Qed.

Lemma equiv_tuple es es' o : Forall2 equiv_sh es es' -> equiv_sh (STuple es o) (STuple es' o).
Proof.
  intros H d. destruct d; try reflexivity. rewrite !mem_tuple.
  revert l. induction H as [|e e' r r' He Hr IH]; intros [|x l]; simpl; try reflexivity.
  rewrite (He x), IH. reflexivity.
Qed.

Lemma member_ok_get c k v : keys_sorted c = true ->
  member_ok c (k, v) = match map_get k c with Some s => mem v s | None => false end.
Proof.
  intro Hs. unfold member_ok. simpl. induction c as [|[k1 s1] r IH]; simpl; [reflexivity|].
  apply keys_sorted_cons in Hs. destruct Hs as [Ha Hs]. simpl.
  destruct (key_eqb k k1) eqn:E.
  - simpl. apply key_eqb_eq in E. subst k1. destruct (mem v s1); [reflexivity|]. simpl.
    rewrite (IH Hs). rewrite (keys_above_get _ _ Ha). reflexivity.
  - simpl. apply IH. exact Hs.
Qed.

Definition entry_equiv (x y : option shape) : Prop :=
  match x, y with
  | Some v, Some v' => equiv_sh v v'
  | None, None => True
  | _, _ => False
  end.

Lemma equiv_object c c' o : keys_sorted c = true -> keys_sorted c' = true ->
  (forall k, entry_equiv (map_get k c) (map_get k c')) -> equiv_sh (SObject c o) (SObject c' o).
Proof.
  intros Hs Hs' H d. destruct d; try reflexivity. rewrite !mem_object.
  assert (forall (c1 c2 : list (key * shape)), keys_sorted c1 = true -> keys_sorted c2 = true ->
          (forall k, entry_equiv (map_get k c1) (map_get k c2)) ->
          forallb (member_ok c1) m && forallb (key_ok m) c1 = true ->
          forallb (member_ok c2) m && forallb (key_ok m) c2 = true) as Hdir.
  { clear. intros c1 c2 Hs1 Hs2 H Hm. apply andb_true_iff in Hm. destruct Hm as [H1 H2].
    rewrite forallb_forall in H1, H2. apply andb_true_iff. split; apply forallb_forall.
    - intros [k v] Hin. specialize (H1 _ Hin). rewrite member_ok_get in * by assumption.
      specialize (H k). destruct (map_get k c1) as [s1|]; [|discriminate].
      destruct (map_get k c2) as [s2|]; [|contradiction]. simpl in H. rewrite <- (H v). exact H1.
    - intros [k s2] Hin. unfold key_ok. simpl.
      pose proof (sorted_get_In _ _ _ Hs2 Hin) as G2. specialize (H k). rewrite G2 in H.
      destruct (map_get k c1) as [s1|] eqn:G1; [|contradiction]. simpl in H.
      apply map_get_In in G1. specialize (H2 _ G1). unfold key_ok in H2. simpl in H2.
      unfold nullable in *. rewrite <- (H JNull). exact H2. }
  destruct (forallb (member_ok c) m && forallb (key_ok m) c) eqn:E.
  - symmetry. apply (Hdir c c'); assumption.
  - destruct (forallb (member_ok c') m && forallb (key_ok m) c') eqn:E'; [|reflexivity].
    assert (forallb (member_ok c) m && forallb (key_ok m) c = true); [|congruence].
    apply (Hdir c' c); try assumption.
    intro k. specialize (H k). destruct (map_get k c), (map_get k c'); simpl in *; auto.
    intro x. symmetry. apply H.
Qed.

Lemma equiv_sym a b : equiv_sh a b -> equiv_sh b a.
Proof. intros H d. symmetry. apply H. Qed.

Lemma equiv_trans a b c : equiv_sh a b -> equiv_sh b c -> equiv_sh a c.
Proof. intros H1 H2 d. rewrite (H1 d). apply H2. Qed.

(* sets built by the tuple arms do not depend on insertion order *)
Lemma equiv_kind_pair x y n : equiv_sh (kind_pair x y n) (kind_pair y x n).
Proof. unfold kind_pair. apply equiv_oneof. intro z. rewrite !kind_pair_In. tauto. Qed.

Lemma fold_pair_sym a b : wf a = true -> wf b = true ->
  match fold_pair a b, fold_pair b a with
  | Some v, Some v' => equiv_sh v v'
  | None, None => True
  | _, _ => False
  end.
Proof.
  intros Ha Hb. unfold fold_pair.
  destruct (is_subset a b) eqn:E1; destruct (is_subset b a) eqn:E2.
  - intro d. destruct (mem d b) eqn:Eb.
    + symmetry. eapply is_subset_sound; [exact Ha|exact E2|exact Eb].
    + destruct (mem d a) eqn:Ea; [|reflexivity].
      pose proof (is_subset_sound a b Hb E1 d Ea). congruence.
  - apply equiv_refl.
  - apply equiv_refl.
  - destruct (is_null b) eqn:Nb; destruct (is_null a) eqn:Na; try apply equiv_refl; try exact I.
    destruct a, b; try discriminate.
Qed.

Lemma fold_tuple_sym es : forall os, Forall (fun e => wf e = true) es -> Forall (fun e => wf e = true) os ->
  match fold_tuple es os, fold_tuple os es with
  | Some f, Some f' => Forall2 equiv_sh f f'
  | None, None => True
  | _, _ => False
  end.
Proof.
  induction es as [|e r IH]; intros [|x os] Hes Hos; simpl; try exact I; [constructor|].
  inversion Hes; inversion Hos; subst.
  pose proof (fold_pair_sym e x H1 H5) as Hp. specialize (IH os H2 H6).
  destruct (fold_pair e x), (fold_pair x e); try contradiction;
    destruct (fold_tuple r os), (fold_tuple os r); try contradiction; try exact I.
  constructor; assumption.
Qed.

Ltac fin := first [apply equiv_refl | apply equiv_kind_pair].

Theorem merge_comm : forall a b, wf a = true -> wf b = true -> equiv_sh (merger a b) (merger b a).
Proof.
  induction a as [|o|o|o|t o IH|c o IH|vs o IH|es o IH] using shape_ind'; intros b Ha Hb.
  - rewrite merge_null_r. apply equiv_refl.
  - destruct b; simpl; rewrite ?(orb_comm o0 o); try apply equiv_refl; try apply equiv_kind_pair.
  - destruct b; simpl; rewrite ?(orb_comm o0 o); try apply equiv_refl; try apply equiv_kind_pair.
  - destruct b; simpl; rewrite ?(orb_comm o0 o); try apply equiv_refl; try apply equiv_kind_pair.
  - destruct b as [|o'|o'|o'|t' o'|c' o'|ws oo|os o'];
      try (cbn [merger]; rewrite ?(orb_comm o' o); fin; fail);
      try (simpl; rewrite ?(orb_comm o' o); fin; fail).
    cbn [merger]. rewrite (orb_comm o' o). apply equiv_array. simpl in Ha, Hb. apply IH; assumption.
  - destruct b as [|o'|o'|o'|t' o'|c' o'|ws oo|os o'];
      try (cbn [merger]; rewrite ?(orb_comm o' o); fin; fail);
      try (simpl; rewrite ?(orb_comm o' o); fin; fail).
    rewrite !merger_object_object, (orb_comm o' o).
    apply wf_object in Ha. apply wf_object in Hb. destruct Ha as [Hs Hw], Hb as [Hs' Hw'].
    apply equiv_object; try (apply obj_merge_go_sorted; reflexivity).
    intro k. rewrite !obj_merge_go_get by assumption.
    destruct (map_get k c) as [v|] eqn:G; destruct (map_get k c') as [v'|] eqn:G'; simpl; try apply equiv_refl; try exact I.
    apply map_get_In in G. apply map_get_In in G'. rewrite Forall_forall in IH, Hw, Hw'.
    apply (IH (k, v) G v' (Hw _ G) (Hw' _ G')).
  - destruct b as [|o'|o'|o'|t' o'|c' o'|ws o'|os o'];
      try (cbn [merger]; fin; fail); try (simpl; fin; fail).
    cbn [merger]. rewrite (orb_comm o' o). apply equiv_oneof. intro z. rewrite !sset_union_In. tauto.
  - destruct b as [|o'|o'|o'|t' o'|c' o'|ws oo|os o'];
      try (cbn [merger]; rewrite ?(orb_comm o' o); fin; fail);
      try (simpl; rewrite ?(orb_comm o' o); fin; fail).
    cbn [merger]. rewrite (orb_comm o' o).
    apply wf_tuple in Ha. apply wf_tuple in Hb.
    pose proof (fold_tuple_sym es os Ha Hb) as Hf.
    destruct (fold_tuple es os) as [f|], (fold_tuple os es) as [f'|]; try contradiction.
    + apply equiv_tuple. exact Hf.
    + apply equiv_array. apply equiv_oneof. intro z. rewrite !tuples_set_In.
      rewrite (orb_comm (existsb is_optional os)). tauto.
Qed.

(* ---------- structure preservation ---------- *)
Theorem merge_object_keys c o c' o' : wf (SObject c o) = true -> wf (SObject c' o') = true ->
  exists mg, merger (SObject c o) (SObject c' o') = SObject mg (o || o') /\ keys_sorted mg = true /\
    forall k, map_get k mg =
      match map_get k c, map_get k c' with
      | Some v, Some v' => Some (merger v v')
      | Some v, None => Some (as_optional v)
      | None, Some v' => Some (as_optional v')
      | None, None => None
      end.
Proof.
  intros Ha Hb. apply wf_object in Ha. apply wf_object in Hb. destruct Ha as [Hs _], Hb as [Hs' _].
  exists (obj_merge_go merger c c' []). split; [apply merger_object_object|].
  split; [apply obj_merge_go_sorted; reflexivity|].
  intro k. rewrite obj_merge_go_get by assumption.
  destruct (map_get k c), (map_get k c'); reflexivity.
Qed.

Theorem merge_array t o t' o' : merger (SArray t o) (SArray t' o') = SArray (merger t t') (o || o').
Proof. reflexivity. Qed.

Theorem merge_scalar_kinds a b : is_scalar a = true -> is_scalar b = true -> tag a <> tag b ->
  exists vs, merger a b = SOneOf vs false /\ sorted cmp vs = true /\
    forall z, In z vs <-> z = as_non_optional a \/ z = as_non_optional b \/
                          ((is_optional a || is_optional b) = true /\ z = SNull).
Proof.
  intros Ha Hb Ht. rewrite merger_scalar by exact Ha.
  assert (E : N.eqb (tag a) (tag b) = false) by (apply N.eqb_neq; exact Ht).
  destruct b; try discriminate; rewrite E; unfold kind_pair; eexists; (split; [reflexivity|]);
    (split; [apply null_if_sorted; apply sset_sorted_insert; apply sset_sorted_insert; reflexivity|]);
    intro z; rewrite kind_pair_In; tauto.
Qed.

(* ---------- document level ---------- *)
Theorem sources_idem d s : infer_text d = Ok s -> from_sources_tree [d; d] = Ok s.
Proof.
  intro H. unfold from_sources_tree. simpl. rewrite H. simpl.
  rewrite merge_idem; [reflexivity|eapply infer_text_wf; exact H].
Qed.

Theorem sources_null d s : infer_text d = Ok s ->
  from_sources_tree [d; JNull] = Ok (as_optional s) /\ from_sources_tree [JNull; d] = Ok (as_optional s).
Proof.
  intro H. unfold from_sources_tree. simpl. rewrite H. simpl. rewrite merge_null_r. split; reflexivity.
Qed.

Theorem sources_comm d e s s' : from_sources_tree [d; e] = Ok s -> from_sources_tree [e; d] = Ok s' ->
  equiv_sh s s'.
Proof.
  unfold from_sources_tree. simpl.
  destruct (infer_text d) as [sd| |] eqn:Ed; destruct (infer_text e) as [se| |] eqn:Ee; simpl; try discriminate.
  intros H H'. inversion H. inversion H'. subst.
  apply merge_comm; eapply infer_text_wf; eassumption.
Qed.
