(* TextApiFacts.v — the text entry points of the model never panic, never run out of fuel,
   and every Error::InvalidJson they return carries a faithful range (C05). *)
From Coq Require Import List Bool Arith NArith Lia.
Import ListNotations.
From JS Require Import Model.Base Model.Shape Model.Sem Model.Subset Model.Merger Model.Infer
  Model.Lexer Model.Parser Model.Walk Model.TextApi
  Proofs.TextFacts Proofs.TextLexer Proofs.TextParser Proofs.TextWalk.

Lemma parse_text_env cf src :
  l_status (fst (parse_text cf src)) = LDone /\ pr_status (snd (parse_text cf src)) = POk /\
  wenv src (l_toks (fst (parse_text cf src))) (pr_cst (snd (parse_text cf src))).
Proof.
  unfold parse_text. cbn [fst snd]. destruct (lex_ok cf src) as [A [B C]].
  destruct (parse_tokens_ok (byte_len src) (l_toks (lex cf src)) (l_diags (lex cf src))) as [D E].
  split; [exact A|]. split; [exact D|]. constructor; assumption.
Qed.

(* the code as it is: diagnostics are not consulted *)
Theorem from_str_good cf src : f2_honour_diags cf = false -> good src (from_str_m cf src).
Proof.
  intros Hf. unfold from_str_m. destruct (parse_text_env cf src) as [A [B Wv]].
  destruct (parse_text cf src) as [lx pr]. cbn [fst snd] in *. rewrite A, B, Hf.
  apply good_bind; [eapply parse_cst_good; exact Wv|]. intros; exact I.
Qed.

(* ---------- the same with F2 switched on: the first diagnostic's range is reported ---------- *)
Lemma diag_span_faithful src toks d : Forall (tok_ok src) toks ->
  diag_span_ok (byte_len src) toks d -> diag_ok src d.
Proof.
  intros Ht [H|H].
  - apply in_map_iff in H. destruct H as [[t sp] [E Hin]]. cbn [snd] in E. rewrite Forall_forall in Ht.
    destruct (Ht _ Hin) as [fr [Hf _]]. cbn [snd] in Hf. exists fr. rewrite <- E. exact Hf.
  - exists []. rewrite H. exists src, []. cbn [fst snd byte_len]. rewrite !app_nil_r. repeat split. lia.
Qed.

Theorem from_str_good_f2 cf src : f2_honour_diags cf = true -> good src (from_str_m cf src).
Proof.
  intros Hf. unfold from_str_m. destruct (parse_text_env cf src) as [A [B Wv]].
  pose proof (lex_diags_ok cf src Hf) as Dl.
  unfold parse_text in *. cbn [fst snd] in *. rewrite A, B, Hf.
  apply good_bind; [eapply parse_cst_good; exact Wv|]. intros s _.
  destruct (parse_tokens_diags (byte_len src) (l_toks (lex cf src)) (l_diags (lex cf src))) as [ds [E Hd]].
  rewrite E. 
  assert (G : Forall (diag_ok src) (l_diags (lex cf src) ++ ds)).
  { apply Forall_app. split; [exact Dl|]. eapply Forall_impl; [|exact Hd].
    intros d. apply diag_span_faithful. exact (we_toks _ _ _ Wv). }
  destruct (l_diags (lex cf src) ++ ds) as [|[k sp] rest]; [exact I|].
  inversion G as [|? ? [fr Hfr] _]; subst. cbn [snd] in Hfr.
  rewrite (slice_src_complete _ _ _ Hfr). exact Hfr.
Qed.

(* whatever the configuration (code as it is, F2, F3, both): no panic, no fuel, faithful ranges *)
Theorem from_str_good_any cf src : good src (from_str_m cf src).
Proof. destruct (f2_honour_diags cf) eqn:E; [apply from_str_good_f2|apply from_str_good]; exact E. Qed.

Theorem from_str_no_panic src : from_str_m cfg_now src <> Panic.
Proof. pose proof (from_str_good_any cfg_now src) as G. intros E. rewrite E in G. exact G. Qed.

Theorem from_str_no_fuel src : from_str_m cfg_now src <> Err EFuel.
Proof. pose proof (from_str_good_any cfg_now src) as G. intros E. rewrite E in G. exact G. Qed.

Theorem from_str_span_faithful src sp fr :
  from_str_m cfg_now src = Err (EInvalidJson sp fr) -> faithful src sp fr.
Proof. pose proof (from_str_good_any cfg_now src) as G. intros E. rewrite E in G. exact G. Qed.

(* faithful, spelled out: in range, on character boundaries, fragment = input at the range *)
Theorem from_str_span_in_range src sp fr :
  from_str_m cfg_now src = Err (EInvalidJson sp fr) ->
  (fst sp <= snd sp)%N /\ (snd sp <= byte_len src)%N /\
  exists pre post, src = pre ++ fr ++ post /\ byte_len pre = fst sp /\ (byte_len pre + byte_len fr)%N = snd sp.
Proof.
  intros H. apply from_str_span_faithful in H. destruct (faithful_in_range _ _ _ H) as [A B].
  split; [exact A|]. split; [exact B|]. exact H.
Qed.

(* from_sources: an error of the k-th source is faithful for that source *)
Definition good_any {A} (srcs : list (list char)) (o : tout A) : Prop :=
  match o with
  | Ok _ => True
  | Err (EInvalidJson sp fr) => exists src, In src srcs /\ faithful src sp fr
  | Err EFuel => False
  | Err _ => True
  | Panic => False
  end.

Lemma mapM_from_str_good : forall srcs, good_any srcs (mapM_o (from_str_m cfg_now) srcs).
Proof.
  induction srcs as [|s r IH]; [exact I|]. cbn [mapM_o].
  pose proof (from_str_good_any cfg_now s) as G.
  destruct (from_str_m cfg_now s) as [x|e|]; cbn [obind].
  - destruct (mapM_o (from_str_m cfg_now) r) as [xs|e|]; cbn [obind]; [exact I| |exact IH].
    destruct e; try exact I; try exact IH. destruct IH as [src [Hin Hf]]. exists src. split; [right; exact Hin|exact Hf].
  - destruct e; try exact I; try exact G. exists s. split; [left; reflexivity|exact G].
  - exact G.
Qed.

Theorem from_sources_good srcs : good_any srcs (from_sources_m cfg_now srcs).
Proof.
  unfold from_sources_m. pose proof (mapM_from_str_good srcs) as G.
  destruct (mapM_o (from_str_m cfg_now) srcs) as [ss|e|]; cbn [obind]; [|exact G|exact G].
  destruct ss; cbn; exact I.
Qed.

Theorem from_sources_no_panic srcs : from_sources_m cfg_now srcs <> Panic.
Proof. pose proof (from_sources_good srcs) as G. intros E. rewrite E in G. exact G. Qed.

Theorem is_superset_no_panic s src : exists b, is_superset_m cfg_now s src = Ok b.
Proof.
  unfold is_superset_m. pose proof (from_str_no_panic src) as G.
  destruct (from_str_m cfg_now src); [eexists; reflexivity|eexists; reflexivity|congruence].
Qed.

Theorem is_superset_checked_good s src : good src (is_superset_checked_m cfg_now s src).
Proof.
  unfold is_superset_checked_m. apply good_bind; [apply from_str_good_any|]. intros; exact I.
Qed.

Theorem is_superset_checked_no_panic s src : is_superset_checked_m cfg_now s src <> Panic.
Proof. pose proof (is_superset_checked_good s src) as G. intros E. rewrite E in G. exact G. Qed.

