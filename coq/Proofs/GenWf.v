(* GenWf.v — the generated items form a well-formed module (C13), for every shape in the
   decidable class [good_names].  [opt_array_head] is never evaluated (SWITCH(F13)). *)
From Coq Require Import String.
From Coq Require Import List Bool NArith Lia PeanoNat.
Import ListNotations.
From JS Require Import Model.Base Model.Shape Model.Sem Model.Gen
  Proofs.BaseFacts Proofs.ShapeFacts Proofs.GenDecode.

Local Opaque opt_array_head.

(* ---------- characters of generated names ---------- *)
Local Open Scope N_scope.
Lemma digit_ident d : d < 10 -> is_ident_char (48 + d) = true.
Proof.
  intro H. unfold is_ident_char, is_digit. apply orb_true_iff. right.
  apply andb_true_iff. split; apply N.leb_le; lia.
Qed.

Lemma hex_digit_ident d : d < 16 -> is_ident_char (hex_digit d) = true.
Proof.
  intro H. unfold hex_digit. destruct (d <? 10) eqn:E.
  - apply N.ltb_lt in E. apply digit_ident. exact E.
  - apply N.ltb_ge in E. unfold is_ident_char, is_ident_start, is_upper.
    apply orb_true_iff. left. apply orb_true_iff. left. apply orb_true_iff. right.
    apply andb_true_iff. split; apply N.leb_le; lia.
Qed.

Lemma dec_go_ident fuel : forall n, forallb is_ident_char (dec_go fuel n) = true.
Proof.
  induction fuel as [|f IH]; intro n; [reflexivity|]. cbn [dec_go].
  destruct (n <? 10) eqn:E.
  - apply N.ltb_lt in E. cbn [forallb]. rewrite (digit_ident n E). reflexivity.
  - rewrite forallb_app, IH. cbn [forallb]. rewrite digit_ident; [reflexivity|].
    apply N.mod_lt. lia.
Qed.

Lemma land15_lt n : N.land n 15 < 16.
Proof. change 15 with (N.ones 4). rewrite N.land_ones. apply N.mod_lt. discriminate. Qed.

Lemma hex_go_ident fuel : forall n, forallb is_ident_char (hex_go fuel n) = true.
Proof.
  induction fuel as [|f IH]; intro n; [reflexivity|]. cbn [hex_go].
  destruct (n <? 16) eqn:E.
  - apply N.ltb_lt in E. cbn [forallb]. rewrite (hex_digit_ident n E). reflexivity.
  - rewrite forallb_app, IH. cbn [forallb]. rewrite hex_digit_ident; [reflexivity|apply land15_lt].
Qed.
Local Close Scope N_scope.

Lemma crc_tail_ident k bytes :
  forallb is_ident_char (dec_of_nat k ++ lit "Crc" ++ hex_upper bytes) = true.
Proof.
  rewrite !forallb_app. unfold dec_of_nat, hex_upper. rewrite dec_go_ident, hex_go_ident. reflexivity.
Qed.

(* a name = one of the literal prefixes followed by identifier characters *)
Definition name_ok (n : text) : Prop :=
  legal_ident n = true /\ is_builtin n = false /\ forallb is_ident_char n = true.

Ltac prefixed :=
  let r := fresh "r" in let H := fresh "H" in
  intros r H; unfold name_ok, legal_ident, is_builtin, builtin_arity; cbn;
  rewrite H; repeat split; reflexivity.

Lemma ok_Struct : forall r, forallb is_ident_char r = true -> name_ok (lit "Struct" ++ r).
Proof. prefixed. Qed.
Lemma ok_Enum : forall r, forallb is_ident_char r = true -> name_ok (lit "Enum" ++ r).
Proof. prefixed. Qed.
Lemma ok_Tuple : forall r, forallb is_ident_char r = true -> name_ok (lit "Tuple" ++ r).
Proof. prefixed. Qed.
Lemma ok_OStruct : forall r, forallb is_ident_char r = true -> name_ok (lit "OptionalStruct" ++ r).
Proof. prefixed. Qed.
Lemma ok_OEnum : forall r, forallb is_ident_char r = true -> name_ok (lit "OptionalEnum" ++ r).
Proof. prefixed. Qed.
Lemma ok_OTuple : forall r, forallb is_ident_char r = true -> name_ok (lit "OptionalTuple" ++ r).
Proof. prefixed. Qed.
Lemma ok_ArrayOf : forall r, forallb is_ident_char r = true -> name_ok (lit "ArrayOf" ++ r).
Proof. prefixed. Qed.
Lemma ok_OArrayOf : forall r, forallb is_ident_char r = true -> name_ok (lit "OptionalArrayOf" ++ r).
Proof. prefixed. Qed.

Lemma crc_name_ok p o parts :
  p = lit "Struct" \/ p = lit "Enum" \/ p = lit "Tuple" -> name_ok (crc_name p o parts).
Proof.
  intros Hp. unfold crc_name.
  destruct Hp as [-> | [-> | ->]]; destruct o; cbn [app];
    first [ apply ok_OStruct | apply ok_OEnum | apply ok_OTuple
          | apply ok_Struct | apply ok_Enum | apply ok_Tuple ]; apply crc_tail_ident.
Qed.

Lemma shape_name_ok : forall x, name_ok (shape_name x).
Proof.
  induction x as [|o|o|o|x o IH|c o IH|vs o IH|es o IH] using shape_ind'.
  - repeat split.
  - destruct o; repeat split.
  - destruct o; repeat split.
  - destruct o; repeat split.
  - destruct IH as [_ [_ IH]]. cbn [shape_name]. destruct o; [apply ok_OArrayOf|apply ok_ArrayOf]; exact IH.
  - apply crc_name_ok. auto.
  - apply crc_name_ok. auto.
  - apply crc_name_ok. auto.
Qed.

Lemma root_item_name_ok s : name_ok (root_item_name s).
Proof.
  destruct s as [|o|o|o|x o|c o|vs o|es o]; try (destruct o; repeat split); try (repeat split; fail);
    apply shape_name_ok.
Qed.

(* ---------- list facts ---------- *)
Lemma forallb_flat_map {A B} (p : B -> bool) (g : A -> list B) l :
  forallb p (flat_map g l) = forallb (fun a => forallb p (g a)) l.
Proof. induction l as [|x r IH]; simpl; [reflexivity|]. rewrite forallb_app, IH. reflexivity. Qed.

Lemma existsb_text_in n defs : In n defs -> existsb (text_eqb n) defs = true.
Proof. intro H. apply existsb_exists. exists n. split; [exact H|apply text_eqb_refl]. Qed.

(* ---------- type expressions ---------- *)
Section Defs.
  Variable defs : list text.

  Definition covered (x : shape) : Prop := forall y, In y (subdefs x) -> In (shape_name y) defs.

  Lemma wf_option d a : wf_ty defs d (ty_option a) = wf_ty defs d a.
  Proof. unfold ty_option. cbn. apply andb_true_r. Qed.
  Lemma wf_vec d a : wf_ty defs d (ty_vec a) = wf_ty defs d a.
  Proof. unfold ty_vec. cbn. apply andb_true_r. Qed.

  Lemma wf_named_ref d n o : is_builtin n = false -> In n defs -> wf_ty defs d (opt_wrap o (TPath n [])) = true.
  Proof.
    intros Hb Hin. unfold is_builtin in Hb.
    assert (E : wf_ty defs d (TPath n []) = true).
    { cbn [wf_ty]. destruct (builtin_arity n); [discriminate Hb|].
      rewrite (existsb_text_in n defs Hin). reflexivity. }
    destruct o; cbn [opt_wrap]; [|exact E].
    rewrite wf_option. exact E.
  Qed.

  Lemma wf_repr d : forall x, inner_ok x = true -> covered x -> wf_ty defs d (shape_repr x) = true.
  Proof.
    induction x as [|o|o|o|x o IH|c o IH|vs o IH|es o IH] using shape_ind'; intros Hi Hc.
    - destruct d; reflexivity.
    - destruct o; reflexivity.
    - destruct o; reflexivity.
    - destruct o; reflexivity.
    - cbn [inner_ok] in Hi. apply andb_true_iff in Hi. destruct Hi as [Ho Hi].
      assert (E : wf_ty defs d (ty_vec (shape_repr x)) = true).
      { rewrite wf_vec. exact (IH Hi Hc). }
      cbn [shape_repr]. destruct o; [|exact E].
      simpl in Ho. unfold opt_array_ok in Ho.
      set (v := ty_vec (shape_repr x)) in *. cbn [wf_ty].
      destruct (builtin_arity opt_array_head) as [[|[|k]]|]; try discriminate Ho.
      cbn [length forallb Nat.eqb]. rewrite E. reflexivity.
    - cbn [shape_repr].
      change (struct_name o (map (fun kv => shape_name (snd kv)) c)) with (shape_name (SObject c o)).
      apply wf_named_ref; [apply shape_name_ok|]. apply Hc. cbn [subdefs]. left. reflexivity.
    - cbn [shape_repr].
      change (enum_name o (map shape_name vs)) with (shape_name (SOneOf vs o)).
      apply wf_named_ref; [apply shape_name_ok|]. apply Hc. cbn [subdefs]. left. reflexivity.
    - cbn [inner_ok] in Hi. apply andb_true_iff in Hi. destruct Hi as [Hlen Hi].
      assert (E : wf_ty defs d (TTuple (map shape_repr es)) = true).
      { cbn [wf_ty]. rewrite map_length, Hlen, orb_true_r. cbn [andb].
        apply forallb_forall. intros y Hy. apply in_map_iff in Hy. destruct Hy as [v [<- Hv]].
        rewrite Forall_forall in IH. rewrite forallb_forall in Hi. apply (IH v Hv (Hi v Hv)).
        intros z Hz. apply Hc. cbn [subdefs]. apply in_flat_map. exists v. split; assumption. }
      cbn [shape_repr]. destruct o; cbn [opt_wrap]; [|exact E].
      rewrite wf_option. exact E.
  Qed.

  (* ---------- the definitions emitted for a sub-shape ---------- *)
  Lemma wf_subitems : forall x, inner_ok x = true -> covered x ->
    forallb (wf_item defs) (create_subtype x) = true.
  Proof.
    induction x as [|o|o|o|x o IH|c o IH|vs o IH|es o IH] using shape_ind'; intros Hi Hc;
      try reflexivity.
    - cbn [inner_ok] in Hi. apply andb_true_iff in Hi. destruct Hi as [_ Hi]. exact (IH Hi Hc).
    - cbn [inner_ok] in Hi. apply andb_true_iff in Hi. destruct Hi as [Hk Hi].
      unfold keys_ok in Hk. apply andb_true_iff in Hk. destruct Hk as [Hleg Hnd].
      cbn [create_subtype forallb]. apply andb_true_iff. split.
      + unfold create_object. cbn [wf_item]. unfold wf_members. rewrite !map_map. cbn [fst snd].
        rewrite Hnd. rewrite !forallb_map || idtac.
        apply andb_true_iff. split; [apply andb_true_iff; split; [|reflexivity]|].
        * apply forallb_forall. intros m Hm. apply in_map_iff in Hm. destruct Hm as [kv [<- Hkv]].
          rewrite forallb_forall in Hleg. exact (Hleg kv Hkv).
        * apply forallb_forall. intros m Hm. apply in_map_iff in Hm. destruct Hm as [kv [<- Hkv]].
          cbn [snd]. rewrite forallb_forall in Hi. apply wf_repr; [exact (Hi kv Hkv)|].
          intros z Hz. apply Hc. cbn [subdefs]. right. apply in_flat_map. exists kv. split; assumption.
      + rewrite forallb_flat_map. apply forallb_forall. intros kv Hkv.
        rewrite Forall_forall in IH. rewrite forallb_forall in Hi. apply (IH kv Hkv (Hi kv Hkv)).
        intros z Hz. apply Hc. cbn [subdefs]. right. apply in_flat_map. exists kv. split; assumption.
    - cbn [inner_ok] in Hi. apply andb_true_iff in Hi. destruct Hi as [Hnd Hi].
      cbn [create_subtype forallb]. apply andb_true_iff. split.
      + unfold create_enum. cbn [wf_item]. unfold wf_members. rewrite !map_map. cbn [fst snd].
        match goal with |- context [nodupb ?l] => replace (nodupb l) with true by (symmetry; exact Hnd) end.
        apply andb_true_iff. split; [apply andb_true_iff; split; [|reflexivity]|].
        * apply forallb_forall. intros m Hm. apply in_map_iff in Hm. destruct Hm as [v [<- Hv]].
          cbn [fst]. apply shape_name_ok.
        * apply forallb_forall. intros m Hm. apply in_map_iff in Hm. destruct Hm as [v [<- Hv]].
          cbn [snd]. rewrite forallb_forall in Hi. apply wf_repr; [exact (Hi v Hv)|].
          intros z Hz. apply Hc. cbn [subdefs]. right. apply in_flat_map. exists v. split; assumption.
      + rewrite forallb_flat_map. apply forallb_forall. intros v Hv.
        rewrite Forall_forall in IH. rewrite forallb_forall in Hi. apply (IH v Hv (Hi v Hv)).
        intros z Hz. apply Hc. cbn [subdefs]. right. apply in_flat_map. exists v. split; assumption.
    - cbn [inner_ok] in Hi. apply andb_true_iff in Hi. destruct Hi as [_ Hi].
      cbn [create_subtype]. rewrite forallb_flat_map. apply forallb_forall. intros v Hv.
      rewrite Forall_forall in IH. rewrite forallb_forall in Hi. apply (IH v Hv (Hi v Hv)).
      intros z Hz. apply Hc. cbn [subdefs]. apply in_flat_map. exists v. split; assumption.
  Qed.
End Defs.

(* ---------- names of the emitted items ---------- *)
Lemma subitem_names x : map item_name (create_subtype x) = map shape_name (subdefs x).
Proof.
  rewrite create_subtype_map, map_map. apply map_ext_in. intros y Hy.
  apply item_name_of. exact (subdefs_named x y Hy).
Qed.

Lemma first_pass_names s : map item_name (first_pass s) = def_names s.
Proof.
  destruct s as [|o|o|o|x o|c o|vs o|es o]; try (destruct o; reflexivity); try reflexivity.
  - unfold def_names. cbn [first_pass map root_item_name root_subdefs]. f_equal. apply subitem_names.
  - change (first_pass (SObject c o)) with (create_subtype (SObject c o)). rewrite subitem_names. reflexivity.
  - change (first_pass (SOneOf vs o)) with (create_subtype (SOneOf vs o)). rewrite subitem_names. reflexivity.
  - unfold def_names. cbn [first_pass map root_item_name root_subdefs]. f_equal.
    change (flat_map create_subtype es) with (create_subtype (STuple es o)). rewrite subitem_names. reflexivity.
Qed.

Lemma def_names_ok s n : In n (def_names s) -> legal_ident n = true /\ is_builtin n = false.
Proof.
  unfold def_names. intros [<-|H].
  - destruct (root_item_name_ok s) as [H1 [H2 _]]. split; assumption.
  - apply in_map_iff in H. destruct H as [y [<- _]].
    destruct (shape_name_ok y) as [H1 [H2 _]]. split; assumption.
Qed.

Lemma covered_root s x : (forall y, In y (subdefs x) -> In y (root_subdefs s)) -> covered (def_names s) x.
Proof. intros H y Hy. unfold def_names. right. apply in_map. apply H. exact Hy. Qed.

(* every emitted item is well formed w.r.t. the emitted names: needs only the local conditions *)
Lemma gen_items_wf : forall s, root_ok s = true -> forallb (wf_item (def_names s)) (first_pass s) = true.
Proof.
  intros s Hroot.
  set (defs := def_names s).
  destruct s as [|o|o|o|x o|c o|vs o|es o].
  + reflexivity.
  + destruct o; reflexivity.
  + destruct o; reflexivity.
  + destruct o; reflexivity.
  + cbn [root_ok] in Hroot.
    assert (Hc : covered defs x) by (apply covered_root; intros y Hy; exact Hy).
    cbn [first_pass forallb]. apply andb_true_iff. split; [|apply wf_subitems; assumption].
    unfold create_array. cbn [wf_item].
    assert (E : wf_ty defs false (ty_vec (shape_repr x)) = true).
    { rewrite wf_vec. exact (wf_repr defs false x Hroot Hc). }
    destruct o; cbn [opt_wrap]; [|exact E].
    rewrite wf_option. exact E.
  + cbn [root_ok] in Hroot.
    change (first_pass (SObject c o)) with (create_subtype (SObject c o)).
    apply wf_subitems; [exact Hroot|].
    intros y Hy. unfold defs, def_names. cbn [subdefs] in Hy. destruct Hy as [<-|Hy].
    * left. reflexivity.
    * right. apply in_map. exact Hy.
  + cbn [root_ok] in Hroot.
    change (first_pass (SOneOf vs o)) with (create_subtype (SOneOf vs o)).
    apply wf_subitems; [exact Hroot|].
    intros y Hy. unfold defs, def_names. cbn [subdefs] in Hy. destruct Hy as [<-|Hy].
    * left. reflexivity.
    * right. apply in_map. exact Hy.
  + cbn [root_ok] in Hroot.
    assert (Hc : covered defs (STuple es o)) by (apply covered_root; intros y Hy; exact Hy).
    cbn [first_pass forallb]. apply andb_true_iff. split.
    * unfold create_tuple. cbn [wf_item].
      change (opt_wrap o (TTuple (map shape_repr es))) with (shape_repr (STuple es o)).
      apply wf_repr; assumption.
    * change (flat_map create_subtype es) with (create_subtype (STuple es o)).
      apply wf_subitems; assumption.
Qed.


Theorem gen_wf : forall s, good_names s = true -> wf_items (first_pass s) = true.
Proof.
  intros s Hg. unfold good_names in Hg. apply andb_true_iff in Hg. destruct Hg as [Hnd Hroot].
  unfold wf_items. rewrite first_pass_names. rewrite Hnd. cbn [andb].
  apply andb_true_iff. split.
  - apply forallb_forall. intros n Hn. destruct (def_names_ok s n Hn) as [H1 H2]. rewrite H1, H2. reflexivity.
  - apply gen_items_wf. exact Hroot.
Qed.

(* the module as a whole: the only further condition is the header (SWITCH(F12)) *)
Theorem gen_wf_module : forall s, good_names s = true -> wf_module (first_pass s) = header_ok gen_header.
Proof. intros s H. unfold wf_module. rewrite (gen_wf s H). apply andb_true_r. Qed.

(* ---------- witnesses of the defect classes the unchanged code has ---------- *)
Definition c13_repeated : shape :=                 (* {"x":{"a":1},"y":{"a":1}} : E0428 *)
  SObject [([120%N], SObject [([97%N], SNumber false)] false);
           ([121%N], SObject [([97%N], SNumber false)] false)] false.
Definition c13_keyword : shape := SObject [(lit "type", SNumber false)] false.
Definition c13_digit : shape := SObject [(lit "1st", SNumber false)] false.
Definition c13_snake_clash : shape := SObject [(lit "a b", SNumber false); (lit "a_b", SString false)] false.
Definition c13_empty_key : shape := SObject [([], SNumber false)] false.
Definition c13_variant_clash : shape :=
  SOneOf [SObject [([97%N], SNumber false)] false; SObject [([98%N], SNumber false)] false] false.
Definition c13_wide_tuple : shape :=
  SObject [([116%N], STuple [SNumber false; SString false; SNumber false; SString false; SNumber false;
                             SString false; SNumber false; SString false; SNumber false; SString false;
                             SNumber false; SString false; SBool false] false)] false.
