(* GenSerde.v — the serde-derive model applied to the generated items (C15): witnesses of
   the classes in which sources do NOT deserialize, and facts about the model. *)
From Coq Require Import String.
From Coq Require Import List Bool NArith Lia PeanoNat.
Import ListNotations.
From JS Require Import Model.Base Model.Shape Model.Sem Model.Gen
  Proofs.BaseFacts Proofs.ShapeFacts Proofs.GenDecode.

Definition serde_fuel : nat := 40.
Definition roundtrips (s : shape) (d : json) : bool :=
  match deser_root serde_fuel (first_pass s) d with
  | Some v => approx d (reser v)
  | None => false
  end.

(* enums are externally tagged: no member of a OneOf deserializes *)
Definition c15_oneof : shape := SOneOf [SNumber false; SString false] false.
(* no #[serde(rename)]: the field is user_id, the document says userId *)
Definition c15_rename : shape := SObject [(lit "userId", SNumber false)] false.
Definition c15_rename_doc : json := JObj [(lit "userId", JNum)].
(* a Null-typed member is `()`, not Option: an absent key is a missing field *)
Definition c15_null_member : shape := SObject [([97%N], SNull)] false.
(* the optional flag of an Object root is dropped: null is rejected *)
Definition c15_root_flag : shape := SObject [([97%N], SNumber false)] true.
(* a repeated member name is accepted by inference and rejected by serde *)
Definition c15_dup : shape := SObject [([97%N], SNumber false)] false.
Definition c15_dup_doc : json := JObj [([97%N], JNum); ([97%N], JNum)].
(* Object{} is generated as a unit struct `pub struct Struct0Crc0;`, which serde reads from
   null only: the source {} is rejected (found by the compile-and-run batches) *)
Definition c15_empty_object : shape := SObject [] false.
