(* SupersetFragment.v — C03 on the OneOf-free fragment: when the merged shape contains no
   OneOf, it accepts (by is_subset) the shape of every one of its sources. *)
From Coq Require Import List Bool NArith Lia.
Import ListNotations.
From JS Require Import Model.Base Model.Shape Model.Sem Model.Subset Model.Merger Model.Infer Model.Api
  Proofs.BaseFacts Proofs.ShapeFacts Proofs.SemFacts Proofs.SubsetFacts Proofs.MergerFacts
  Proofs.InferFacts Proofs.SourcesSound Proofs.MergerAlgebra.

Lemma forall2b_length' {A B} (f : A -> B -> bool) l l' : forall2b f l l' = true -> length l = length l'.
Proof.
  revert l'. induction l as [|x r IH]; intros [|y r'] H; simpl in *; try discriminate; auto.
  apply andb_true_iff in H. destruct H as [_ H]. f_equal. auto.
Qed.

(* L0 : below a OneOf-free shape there are only OneOf-free shapes *)
Lemma subset_oneof_free : forall a b, is_subset a b = true -> oneof_free b = true -> oneof_free a = true.
Proof.
  induction a as [|o|o|o|t o IH|c o IH|vs o IH|es o IH] using shape_ind'; intros b H Hf; try reflexivity.
  - destruct b as [| | | |t' o'| |ws oo|]; simpl in H; try discriminate.
    apply andb_true_iff in H. destruct H as [_ H]. simpl in *. eapply IH; eassumption.
  - destruct b as [| | | | |c' o'|ws oo|]; try (simpl in H; discriminate); try discriminate Hf.
    rewrite is_subset_object_object in H. apply andb_true_iff in H. destruct H as [_ H].
    unfold obj_check in H. apply andb_true_iff in H. destruct H as [_ H]. unfold obj_members_sub in H.
    simpl in Hf |- *. rewrite forallb_forall in *. rewrite Forall_forall in IH.
    intros [k v] Hin. specialize (H _ Hin). simpl in *.
    destruct (map_get k c') as [ov|] eqn:G; [|discriminate].
    apply (IH (k, v) Hin ov H). apply map_get_In in G. apply (Hf _ G).
  - destruct b as [| | | | | |ws o'|]; try (simpl in H; discriminate).
  - destruct b as [| | | |t' o'| |ws oo|os o']; try (simpl in H; discriminate).
    + destruct t'; try (simpl in H; discriminate).
    + rewrite is_subset_tuple_tuple in H. apply andb_true_iff in H. destruct H as [_ H].
      simpl in Hf |- *. clear o o'. revert os H Hf.
      induction IH as [|e r He Hr IHr]; intros [|x os] H Hf; simpl in *; try discriminate; [reflexivity|].
      apply andb_true_iff in H. apply andb_true_iff in Hf. destruct H as [H1 H2], Hf as [Hf1 Hf2].
      rewrite (He x H1 Hf1). simpl. eapply IHr; eassumption.
Qed.

(* an optional (or Null) shape sits only below optional (or Null) OneOf-free shapes *)
Lemma optional_up b c : is_optional b = true -> is_subset b c = true -> oneof_free c = true ->
  is_optional c = true.
Proof.
  intros Ho H Hf. destruct b as [|o|o|o|t o|cb o|vs o|es o]; simpl in Ho; try subst o.
  - simpl in H. apply orb_true_iff in H. destruct H as [H|H]; [exact H|]. destruct c; try discriminate. reflexivity.
  - simpl in H. unfold scalar_subset in H. apply orb_true_iff in H. destruct H as [H|H].
    + apply andb_true_iff in H. tauto.
    + destruct c; try discriminate.
  - simpl in H. unfold scalar_subset in H. apply orb_true_iff in H. destruct H as [H|H].
    + apply andb_true_iff in H. tauto.
    + destruct c; try discriminate.
  - simpl in H. unfold scalar_subset in H. apply orb_true_iff in H. destruct H as [H|H].
    + apply andb_true_iff in H. tauto.
    + destruct c; try discriminate.
  - destruct c as [| | | |t' o'| |ws oo|]; simpl in H; try discriminate.
    apply andb_true_iff in H. destruct H as [H _]. exact H.
  - destruct c as [| | | | |c' o'|ws oo|]; try (simpl in H; discriminate); try discriminate Hf.
    rewrite is_subset_object_object in H. apply andb_true_iff in H. destruct H as [H _]. exact H.
  - destruct c as [| | | | | |ws o'|]; try (simpl in H; discriminate).
  - destruct c as [| | | |t' o'| |ws oo|os o']; try (simpl in H; discriminate).
    + destruct t'; try (simpl in H; discriminate).
    + rewrite is_subset_tuple_tuple in H. apply andb_true_iff in H. destruct H as [H _]. exact H.
Qed.

Lemma implb_trans (a b c : bool) : implb a b = true -> implb b c = true -> implb a c = true.
Proof. destruct a, b, c; simpl; congruence. Qed.

(* scalars below a OneOf-free shape *)
Lemma scalar_subset_free tg o b : oneof_free b = true ->
  scalar_subset tg o b = (N.eqb (tag b) tg && implb o (is_optional b)).
Proof.
  intro Hf. unfold scalar_subset.
  assert (E1 : oneof_opt tg b = false) by (destruct b; try reflexivity; discriminate).
  assert (E2 : oneof_nonopt tg b = false) by (destruct b; try reflexivity; discriminate).
  rewrite E1, E2. destruct o; simpl; rewrite ?orb_false_r; [reflexivity|rewrite andb_true_r; reflexivity].
Qed.

Lemma is_subset_scalar_free a b : Merger.is_scalar a = true -> oneof_free b = true ->
  is_subset a b = (N.eqb (tag b) (tag a) && implb (is_optional a) (is_optional b)).
Proof. intros Ha Hf. destruct a; try discriminate; simpl; apply scalar_subset_free; exact Hf. Qed.

(* L3 : transitivity on the OneOf-free fragment *)
Lemma subset_trans_free : forall a b c, wf c = true -> oneof_free c = true ->
  is_subset a b = true -> is_subset b c = true -> is_subset a c = true.
Proof.
  induction a as [|o|o|o|t o IH|ca o IH|vs o IH|es o IH] using shape_ind'; intros b c Hwc Hfc Hab Hbc;
    pose proof (subset_oneof_free b c Hbc Hfc) as Hfb.
  - (* Null *)
    simpl in Hab. simpl. apply orb_true_iff in Hab. destruct Hab as [Hab|Hab].
    + rewrite (optional_up b c Hab Hbc Hfc). reflexivity.
    + destruct b; try discriminate. exact Hbc.
  - rewrite (is_subset_scalar_free (SBool o)) in * by (try reflexivity; assumption).
    apply andb_true_iff in Hab. destruct Hab as [T1 F1]. apply N.eqb_eq in T1.
    destruct b; try discriminate T1. rewrite (is_subset_scalar_free (SBool o0)) in Hbc by (try reflexivity; assumption).
    apply andb_true_iff in Hbc. destruct Hbc as [T2 F2]. apply andb_true_iff. split; [exact T2|]. simpl in *. eapply implb_trans; eassumption.
  - rewrite (is_subset_scalar_free (SNumber o)) in * by (try reflexivity; assumption).
    apply andb_true_iff in Hab. destruct Hab as [T1 F1]. apply N.eqb_eq in T1.
    destruct b; try discriminate T1. rewrite (is_subset_scalar_free (SNumber o0)) in Hbc by (try reflexivity; assumption).
    apply andb_true_iff in Hbc. destruct Hbc as [T2 F2]. apply andb_true_iff. split; [exact T2|]. simpl in *. eapply implb_trans; eassumption.
  - rewrite (is_subset_scalar_free (SString o)) in * by (try reflexivity; assumption).
    apply andb_true_iff in Hab. destruct Hab as [T1 F1]. apply N.eqb_eq in T1.
    destruct b; try discriminate T1. rewrite (is_subset_scalar_free (SString o0)) in Hbc by (try reflexivity; assumption).
    apply andb_true_iff in Hbc. destruct Hbc as [T2 F2]. apply andb_true_iff. split; [exact T2|]. simpl in *. eapply implb_trans; eassumption.
  - (* Array *)
    destruct b as [| | | |t' o'| |ws oo|]; simpl in Hab; try discriminate.
    destruct c as [| | | |t'' o''| |ws oo|]; simpl in Hbc; try discriminate.
    apply andb_true_iff in Hab. apply andb_true_iff in Hbc. destruct Hab as [A1 A2], Hbc as [B1 B2].
    simpl. rewrite (implb_trans _ _ _ A1 B1). simpl. simpl in Hwc, Hfc. eapply IH; eassumption.
  - (* Object *)
    destruct b as [| | | | |cb o'|ws oo|]; try (simpl in Hab; discriminate); try discriminate Hfb.
    destruct c as [| | | | |cc o''|ws oo|]; try (simpl in Hbc; discriminate); try discriminate Hfc.
    rewrite is_subset_object_object in *. apply andb_true_iff in Hab. apply andb_true_iff in Hbc.
    destruct Hab as [A1 A2], Hbc as [B1 B2]. rewrite (implb_trans _ _ _ A1 B1). simpl.
    unfold obj_check in *. apply andb_true_iff in A2. apply andb_true_iff in B2.
    destruct A2 as [A2 A3], B2 as [B2 B3]. unfold obj_members_sub in *.
    apply wf_object in Hwc. destruct Hwc as [Hsc Hwcv]. simpl in Hfc, Hfb.
    rewrite forallb_forall in A2, A3, B2, B3, Hfc, Hfb. rewrite Forall_forall in IH, Hwcv.
    apply andb_true_iff. split; apply forallb_forall.
    + intros [k v''] Hin. simpl. specialize (B2 _ Hin). simpl in B2. apply orb_true_iff in B2.
      destruct B2 as [B2|B2]; [|rewrite B2; apply orb_true_r].
      unfold map_has in B2. destruct (map_get k cb) as [v'|] eqn:Gb; [|discriminate].
      apply map_get_In in Gb. specialize (A2 _ Gb). simpl in A2. apply orb_true_iff in A2.
      destruct A2 as [A2|A2]; [rewrite A2; reflexivity|].
      specialize (B3 _ Gb). simpl in B3. rewrite (sorted_get_In _ _ _ Hsc Hin) in B3.
      rewrite (optional_up v' v'' A2 B3 (Hfc _ Hin)). apply orb_true_r.
    + intros [k v] Hin. simpl. specialize (A3 _ Hin). simpl in A3.
      destruct (map_get k cb) as [v'|] eqn:Gb; [|discriminate]. apply map_get_In in Gb.
      specialize (B3 _ Gb). simpl in B3. destruct (map_get k cc) as [v''|] eqn:Gc; [|discriminate].
      apply map_get_In in Gc. apply (IH (k, v) Hin v' v'' (Hwcv _ Gc) (Hfc _ Gc) A3 B3).
  - (* OneOf *)
    destruct b as [| | | | | |ws o'|]; try (simpl in Hab; discriminate).
  - (* Tuple *)
    destruct b as [| | | |t' o'| |ws oo|os o']; try (simpl in Hab; discriminate).
    + destruct t'; try (simpl in Hab; discriminate).
    + destruct c as [| | | |t'' o''| |ws oo|xs o'']; try (simpl in Hbc; discriminate).
      * destruct t''; try (simpl in Hbc; discriminate).
      * rewrite is_subset_tuple_tuple in *. apply andb_true_iff in Hab. apply andb_true_iff in Hbc.
        destruct Hab as [A1 A2], Hbc as [B1 B2]. rewrite (implb_trans _ _ _ A1 B1). simpl.
        apply wf_tuple in Hwc. simpl in Hfc. clear A1 B1 Hfb o o' o''.
        revert os xs A2 B2 Hwc Hfc. induction IH as [|e r He Hr IHr]; intros [|x os] [|y xs] A2 B2 Hwc Hfc;
          simpl in *; try discriminate; [reflexivity|].
        apply andb_true_iff in A2. apply andb_true_iff in B2. apply andb_true_iff in Hfc.
        destruct A2 as [A2 A3], B2 as [B2 B3], Hfc as [F1 F2]. inversion Hwc; subst.
        rewrite (He x y H1 F1 A2 B2). simpl. eapply IHr; eassumption.
Qed.

(* L2 : a OneOf-free merge accepts both operands *)
Lemma fold_pair_dominates e x v : wf e = true -> wf x = true -> fold_pair e x = Some v ->
  is_subset e v = true /\ is_subset x v = true.
Proof.
  intros He Hx H. apply fold_pair_cases in H. destruct H as [[H ->]|[[H ->]|[[-> ->]|[-> ->]]]].
  - split; [exact H|apply subset_refl; exact Hx].
  - split; [apply subset_refl; exact He|exact H].
  - split; [apply subset_as_optional; exact He|]. simpl. destruct e; reflexivity.
  - split; [simpl; destruct x; reflexivity|apply subset_as_optional; exact Hx].
Qed.

Lemma merger_dominates_free : forall a b, wf a = true -> wf b = true -> oneof_free (merger a b) = true ->
  is_subset a (merger a b) = true /\ is_subset b (merger a b) = true.
Proof.
  induction a as [|o|o|o|t o IH|c o IH|vs o IH|es o IH] using shape_ind'; intros b Ha Hb Hf.
  - simpl. split; [destruct b; reflexivity|apply subset_as_optional; exact Hb].
  - rewrite (merger_scalar (SBool o)) in * by reflexivity.
    destruct b; try discriminate Hf; simpl; unfold scalar_subset; simpl; destruct o; try destruct o0; auto.
  - rewrite (merger_scalar (SNumber o)) in * by reflexivity.
    destruct b; try discriminate Hf; simpl; unfold scalar_subset; simpl; destruct o; try destruct o0; auto.
  - rewrite (merger_scalar (SString o)) in * by reflexivity.
    destruct b; try discriminate Hf; simpl; unfold scalar_subset; simpl; destruct o; try destruct o0; auto.
  - (* Array *)
    destruct b as [|o'|o'|o'|t' o'|c' o'|ws oo|os o']; try discriminate Hf.
    + simpl in Ha. simpl. rewrite (subset_refl t Ha). destruct o; auto.
    + simpl in Ha, Hb, Hf. destruct (IH t' Ha Hb Hf) as [H1 H2]. cbn [merger is_subset].
      rewrite H1, H2. destruct o, o'; auto.
  - (* Object *)
    destruct b as [|o'|o'|o'|t' o'|c' o'|ws oo|os o']; try discriminate Hf.
    + change (merger (SObject c o) SNull) with (SObject c true).
      split; [apply (subset_flag (SObject c o) Ha true); auto|reflexivity].
    + rewrite merger_object_object in *. rewrite !is_subset_object_object.
      apply wf_object in Ha. apply wf_object in Hb. destruct Ha as [Hs Hw], Hb as [Hs' Hw'].
      set (mg := obj_merge_go merger c c' []) in *.
      assert (Hget : forall k, map_get k mg =
                match map_get k c with
                | Some v => match map_get k c' with Some ov => Some (merger v ov) | None => Some (as_optional v) end
                | None => match map_get k c' with Some ov => Some (as_optional ov) | None => None end
                end).
      { intro k. unfold mg. rewrite obj_merge_go_get by assumption. reflexivity. }
      assert (Hsm : keys_sorted mg = true) by (apply obj_merge_go_sorted; reflexivity).
      simpl in Hf. rewrite forallb_forall in Hf. rewrite Forall_forall in IH, Hw, Hw'.
      assert (Hopt : forall s, is_optional (as_optional s) = true) by (intro s; destruct s; reflexivity).
      split; (apply andb_true_iff; split; [destruct o, o'; reflexivity|]); unfold obj_check;
        apply andb_true_iff; split; apply forallb_forall.
      * intros [k vm] Hin. simpl. pose proof (sorted_get_In _ _ _ Hsm Hin) as G. rewrite Hget in G.
        unfold map_has. destruct (map_get k c) as [v|]; [reflexivity|].
        destruct (map_get k c') as [ov|]; inversion G. rewrite Hopt. apply orb_true_r.
      * intros [k v] Hin. simpl. pose proof (sorted_get_In _ _ _ Hs Hin) as G. specialize (Hget k). rewrite G in Hget.
        destruct (map_get k c') as [ov|] eqn:G'; rewrite Hget.
        -- apply map_get_In in G'. apply (IH (k, v) Hin ov (Hw _ Hin) (Hw' _ G')).
           apply (Hf (k, merger v ov)). apply map_get_In. exact Hget.
        -- apply subset_as_optional. apply (Hw _ Hin).
      * intros [k vm] Hin. simpl. pose proof (sorted_get_In _ _ _ Hsm Hin) as G. rewrite Hget in G.
        unfold map_has. destruct (map_get k c') as [ov|]; [reflexivity|].
        destruct (map_get k c) as [v|]; inversion G. rewrite Hopt. apply orb_true_r.
      * intros [k ov] Hin. simpl. pose proof (sorted_get_In _ _ _ Hs' Hin) as G'. specialize (Hget k). rewrite G' in Hget.
        destruct (map_get k c) as [v|] eqn:G; rewrite Hget.
        -- apply map_get_In in G. apply (IH (k, v) G ov (Hw _ G) (Hw' _ Hin)).
           apply (Hf (k, merger v ov)). apply map_get_In. exact Hget.
        -- apply subset_as_optional. apply (Hw' _ Hin).
  - (* OneOf: a merge with a OneOf on the left is a OneOf *)
    destruct b; discriminate Hf.
  - (* Tuple *)
    destruct b as [|o'|o'|o'|t' o'|c' o'|ws oo|os o']; try discriminate Hf.
    + change (merger (STuple es o) SNull) with (STuple es true).
      split; [apply (subset_flag (STuple es o) Ha true); auto|reflexivity].
    + cbn [merger] in *. destruct (fold_tuple es os) as [folded|] eqn:E; [|discriminate Hf].
      rewrite !is_subset_tuple_tuple. apply wf_tuple in Ha. apply wf_tuple in Hb.
      assert (G : forall2b is_subset es folded = true /\ forall2b is_subset os folded = true).
      { clear Hf IH. revert os folded E Hb. induction Ha as [|e r He Hr IHr]; intros [|x os] folded E Hb;
          simpl in E; try discriminate.
        - inversion E. split; reflexivity.
        - destruct (fold_pair e x) as [v|] eqn:Ep; [|discriminate].
          destruct (fold_tuple r os) as [rr|] eqn:E2; [|discriminate]. inversion E. subst folded.
          inversion Hb; subst. destruct (fold_pair_dominates e x v He H1 Ep) as [P1 P2].
          destruct (IHr os rr E2 H2) as [Q1 Q2]. simpl. rewrite P1, P2, Q1, Q2. split; reflexivity. }
      destruct G as [G1 G2]. rewrite G1, G2. destruct o, o'; auto.
Qed.

(* the fold accepts its start value and every merged-in shape *)
Lemma fold_dominates r : forall acc, wf acc = true -> Forall (fun s => wf s = true) r ->
  oneof_free (fold_left merger r acc) = true ->
  is_subset acc (fold_left merger r acc) = true /\
  (forall s, In s r -> is_subset s (fold_left merger r acc) = true).
Proof.
  induction r as [|s0 r IH]; intros acc Ha Hr Hf; simpl in *.
  - split; [apply subset_refl; exact Ha|intros s []].
  - inversion Hr as [|? ? Hs0 Hrr]; subst.
    assert (Hwm : wf (merger acc s0) = true) by (apply wf_merger; assumption).
    destruct (IH (merger acc s0) Hwm Hrr Hf) as [I1 I2].
    assert (HwF : wf (fold_left merger r (merger acc s0)) = true) by (apply fold_merger_wf; assumption).
    pose proof (subset_oneof_free _ _ I1 Hf) as Hfm.
    destruct (merger_dominates_free acc s0 Ha Hs0 Hfm) as [D1 D2].
    split.
    + eapply subset_trans_free; eassumption.
    + intros s [<-|Hin]; [eapply subset_trans_free; eassumption|apply I2; exact Hin].
Qed.

Theorem sources_accept_free ds m : from_sources_tree ds = Ok m -> oneof_free m = true ->
  forall d sd, In d ds -> infer_text d = Ok sd -> is_subset sd m = true.
Proof.
  intros H Hf d sd Hin Hd. destruct (from_sources_tree_ok _ _ H) as [s0 [r [E ->]]].
  apply mapM_o_ok in E. pose proof (forall2_wf _ _ E) as Hw. inversion Hw as [|? ? Hw0 Hwr]; subst.
  destruct (fold_dominates r s0 Hw0 Hwr Hf) as [F1 F2].
  inversion E as [|d0 ? dr ? Hd0 Hdr]; subst. destruct Hin as [<-|Hin].
  - rewrite Hd in Hd0. inversion Hd0. subst. exact F1.
  - assert (In sd r).
    { clear -Hdr Hin Hd. induction Hdr as [|x sx l rs Hx Hr IHr]; [contradiction|].
      destruct Hin as [<-|Hin]; [rewrite Hd in Hx; inversion Hx; left; reflexivity|right; auto]. }
    apply F2. exact H0.
Qed.

Corollary sources_superset_free ds m : from_sources_tree ds = Ok m -> oneof_free m = true ->
  forall d, In d ds -> is_superset_tree m d = true /\ is_superset_checked_tree m d = Ok true.
Proof.
  intros H Hf d Hin.
  assert (exists sd, infer_text d = Ok sd).
  { destruct (from_sources_tree_ok _ _ H) as [s0 [r [E _]]]. apply mapM_o_ok in E.
    clear -E Hin. induction E as [|x sx l rs Hx Hr IHr]; [contradiction|].
    destruct Hin as [<-|Hin]; eauto. }
  destruct H0 as [sd Hd]. pose proof (sources_accept_free ds m H Hf d sd Hin Hd) as Hs.
  unfold is_superset_tree, is_superset_checked_tree. rewrite Hd. simpl. rewrite Hs. split; reflexivity.
Qed.
