(* LexSound.v — C04 stage 2, soundness at the level of the whole token list: when the lexer
   model reports NO diagnostic on a text of Unicode scalar values, the text is the
   concatenation of the token texts, every token text is the RFC 8259 lexeme of its kind
   (a String token is an RFC string, there is no Error token), spans are the byte positions,
   and the bracket nesting never exceeded 256 ([lexes]). *)
From Coq Require Import List Bool Arith NArith Lia.
Import ListNotations.
From JS Require Import Model.Base Model.Lexer Model.JsonRef
  Proofs.TextFacts Proofs.TextLexer Proofs.TextLexSpec.
Local Open Scope N_scope.

Definition rfc_lexeme (t : tok) (w : list char) : Prop :=
  lexeme_ok t w /\ (t = TString -> exists body, string_lit w body).

Inductive lexes : N -> list char -> N -> N -> list (tok * span) -> Prop :=
| lexes_nil pos o c : lexes pos [] o c []
| lexes_cons pos lx rest o c t o' c' toks :
    lx <> [] -> rfc_lexeme t lx -> bracket_delta t o c = (o', c') -> o' <= c' + 256 ->
    lexes (pos + byte_len lx) rest o' c' toks ->
    lexes pos (lx ++ rest) o c ((t, (pos, pos + byte_len lx)) :: toks).

Lemma l_diags_lcons' ts ds x : l_diags (lcons ts ds x) = ds ++ l_diags x.
Proof. reflexivity. Qed.

Lemma lex_loop_sound cf : forall fuel pos cs o c, Forall scalar cs -> (length cs <= fuel)%nat ->
  l_diags (lex_loop cf fuel pos cs o c) = [] -> lexes pos cs o c (l_toks (lex_loop cf fuel pos cs o c)).
Proof.
  induction fuel as [|f IH]; intros pos cs o c Hsc Hl Hd.
  - destruct cs; [constructor|cbn in Hl; lia].
  - destruct cs as [|ch r]; [constructor|].
    cbn [lex_loop] in Hd |- *. destruct (lex1 cf ch r) as [[res lexeme] rest] eqn:E.
    destruct (lex1_split _ _ _ _ _ _ E) as [Hsplit [Hne Hstr]].
    assert (Hlen : (length rest <= f)%nat).
    { assert (L : length (ch :: r) = (length lexeme + length rest)%nat) by (rewrite Hsplit; apply app_length).
      destruct lexeme; [contradiction|]. cbn [length] in *. lia. }
    assert (Hsr : Forall scalar rest).
    { rewrite Hsplit in Hsc. apply Forall_app in Hsc. apply Hsc. }
    cbn [fst snd] in Hd |- *.
    destruct res as [t| |].
    + destruct (match t with TString => check_string cf lexeme pos | _ => Some [] end) as [ds|] eqn:Ec.
      2:{ exfalso. destruct t; try discriminate Ec. destruct (Hstr eq_refl) as [body ->].
          exact (check_string_some _ _ _ Ec). }
      destruct (bracket_delta t o c) as [o' c'] eqn:Eb.
      destruct (c' + 256 <? o') eqn:Ecap.
      * cbn [l_diags] in Hd. destruct ds; discriminate Hd.
      * rewrite l_diags_lcons' in Hd. apply app_eq_nil in Hd. destruct Hd as [Hds Hd]. subst ds.
        rewrite l_toks_lcons, Hsplit. apply N.ltb_ge in Ecap.
        apply lexes_cons with (o' := o') (c' := c'); [exact Hne| |exact Eb|exact Ecap|apply IH; assumption].
        split; [eapply lex1_sound; exact E|]. intros ->.
        eapply string_token_sound; [exact Hsc|exact E|exact Ec].
    + rewrite l_diags_lcons' in Hd. discriminate Hd.
    + rewrite l_diags_lcons' in Hd. discriminate Hd.
Qed.

Theorem lex_sound cf s : Forall scalar s -> l_diags (lex cf s) = [] -> lexes 0 s 0 0 (l_toks (lex cf s)).
Proof. intros Hs Hd. unfold lex in *. apply lex_loop_sound; [exact Hs|lia|exact Hd]. Qed.

(* consequences used by the parser stage: no Error token, no span equal to 0..0 *)
Lemma lexes_clean : forall pos cs o c toks, lexes pos cs o c toks ->
  Forall (fun ts => fst ts <> TError /\ fst ts <> TEOF /\ snd ts <> (0, 0)) toks.
Proof.
  induction 1 as [|pos lx rest o c t o' c' toks Hne [Hl _] _ _ _ IH]; constructor; [|exact IH].
  cbn [fst snd]. split; [intros ->; exact Hl|]. split; [intros ->; exact Hl|].
  intros H. inversion H. pose proof (byte_len_pos lx Hne). lia.
Qed.
