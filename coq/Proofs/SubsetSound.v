(* SubsetSound.v — C02: a reported subset is a real inclusion of meanings. *)
From Coq Require Import List Bool NArith Lia.
Import ListNotations.
From JS Require Import Model.Base Model.Shape Model.Sem Model.Subset
  Proofs.BaseFacts Proofs.ShapeFacts Proofs.SemFacts Proofs.SubsetFacts.

Definition scalar_tag (tg : N) : Prop := tg = 1%N \/ tg = 2%N \/ tg = 3%N.

Definition scalar_doc (tg : N) : json :=
  if N.eqb tg 1 then JBool else if N.eqb tg 2 then JNum else JStr.

Lemma tag_scalar_mem tg v : scalar_tag tg -> tag v = tg -> mem (scalar_doc tg) v = true.
Proof.
  intros [H|[H|H]] Hv; subst tg; destruct v; simpl in Hv; try discriminate Hv; reflexivity.
Qed.

Lemma tag_scalar_null tg v : scalar_tag tg -> tag v = tg -> is_optional v = true -> mem JNull v = true.
Proof. intros _ _. apply nullable_optional. Qed.

Lemma scalar_subset_sound tg o b d : scalar_tag tg ->
  scalar_subset tg o b = true ->
  (d = scalar_doc tg \/ (d = JNull /\ o = true)) -> mem d b = true.
Proof.
  intros Htg H Hd. unfold scalar_subset in H.
  assert (Hopt : oneof_opt tg b = true -> mem d b = true).
  { unfold oneof_opt. destruct b as [| | | | | |vs oo|]; try discriminate. intro E.
    apply andb_true_iff in E. destruct E as [E1 E2].
    apply existsb_exists in E1. destruct E1 as [v [Hv1 Hv2]]. apply N.eqb_eq in Hv2.
    apply sset_mem_In in E2.
    destruct Hd as [Hd|[Hd _]]; subst d.
    - eapply mem_oneof_intro; [exact Hv1|]. apply tag_scalar_mem; assumption.
    - eapply mem_oneof_intro; [exact E2|]. reflexivity. }
  destruct o.
  - apply orb_true_iff in H. destruct H as [H|H]; [|auto].
    apply andb_true_iff in H. destruct H as [H1 H2]. apply N.eqb_eq in H1.
    destruct Hd as [Hd|[Hd _]]; subst d.
    + apply tag_scalar_mem; assumption.
    + apply nullable_optional. exact H2.
  - destruct Hd as [Hd|[_ Hd]]; [|discriminate]. subst d.
    apply orb_true_iff in H. destruct H as [H|H]; [|auto].
    apply orb_true_iff in H. destruct H as [H|H].
    + apply N.eqb_eq in H. apply tag_scalar_mem; assumption.
    + unfold oneof_nonopt in H. destruct b as [| | | | | |vs oo|]; try discriminate.
      apply existsb_exists in H. destruct H as [v [Hv1 Hv2]].
      apply andb_true_iff in Hv2. destruct Hv2 as [Hv2 _]. apply N.eqb_eq in Hv2.
      eapply mem_oneof_intro; [exact Hv1|]. apply tag_scalar_mem; assumption.
Qed.

Lemma mem_scalar_cases_bool o d : mem d (SBool o) = true -> d = scalar_doc 1 \/ (d = JNull /\ o = true).
Proof. destruct d; simpl; intro H; try discriminate; auto. Qed.
Lemma mem_scalar_cases_num o d : mem d (SNumber o) = true -> d = scalar_doc 2 \/ (d = JNull /\ o = true).
Proof. destruct d; simpl; intro H; try discriminate; auto. Qed.
Lemma mem_scalar_cases_str o d : mem d (SString o) = true -> d = scalar_doc 3 \/ (d = JNull /\ o = true).
Proof. destruct d; simpl; intro H; try discriminate; auto. Qed.

Lemma implb_true_elim (o o' : bool) : implb o o' = true -> o = true -> o' = true.
Proof. destruct o, o'; simpl; congruence. Qed.

(* membership in a container shape whose exact form (or optional form) is a variant *)
Lemma mem_via_variant (mk : bool -> shape) o vs oo d :
  (forall f, mk f = set_flag f (mk o)) ->
  sset_mem (mk o) vs || sset_mem (mk true) vs = true ->
  mem d (mk o) = true -> mem d (SOneOf vs oo) = true.
Proof.
  intros Hmk H Hd. apply orb_true_iff in H. destruct H as [H|H]; apply sset_mem_In in H.
  - eapply mem_oneof_intro; eassumption.
  - eapply mem_oneof_intro; [exact H|]. rewrite Hmk. apply mem_set_flag_true. exact Hd.
Qed.

(* the object/object rule, given soundness for the member shapes of c *)
Lemma obj_check_sound c c' o o' m :
  Forall (fun kv => forall b, wf b = true -> is_subset (snd kv) b = true ->
                    forall d, mem d (snd kv) = true -> mem d b = true) c ->
  keys_sorted c' = true -> forallb (fun p => wf (snd p)) c' = true ->
  obj_check c c' = true ->
  mem (JObj m) (SObject c o) = true -> mem (JObj m) (SObject c' o') = true.
Proof.
  intros IH Hs Hw Hc Hm. rewrite mem_object in *.
  unfold obj_check in Hc. apply andb_true_iff in Hc. destruct Hc as [Hc1 Hc2].
  apply andb_true_iff in Hm. destruct Hm as [Hm1 Hm2].
  unfold obj_members_sub in Hc2.
  rewrite Forall_forall in IH. rewrite forallb_forall in Hc1, Hc2, Hm1, Hm2, Hw.
  apply andb_true_iff. split; apply forallb_forall.
  - intros [k v] Hin. specialize (Hm1 _ Hin). unfold member_ok in *. simpl in *.
    apply existsb_exists in Hm1. destruct Hm1 as [[k2 s] [Hin2 E]]. simpl in E.
    apply andb_true_iff in E. destruct E as [E1 E2]. apply key_eqb_eq in E1. subst k2.
    specialize (Hc2 _ Hin2). simpl in Hc2.
    destruct (map_get k c') as [ov|] eqn:G; [|discriminate].
    apply existsb_exists. exists (k, ov). split; [apply map_get_In; exact G|]. simpl.
    rewrite key_eqb_refl. simpl.
    apply (IH _ Hin2 ov); [|exact Hc2|exact E2].
    apply (Hw (k, ov)). apply map_get_In. exact G.
  - intros [k' s'] Hin'. unfold key_ok. simpl.
    specialize (Hc1 _ Hin'). simpl in Hc1. apply orb_true_iff in Hc1. destruct Hc1 as [Hc1|Hc1].
    + unfold map_has in Hc1. destruct (map_get k' c) as [s|] eqn:G; [|discriminate].
      apply map_get_In in G. specialize (Hm2 _ G). unfold key_ok in Hm2. simpl in Hm2.
      apply orb_true_iff in Hm2. destruct Hm2 as [Hm2|Hm2]; [rewrite Hm2; reflexivity|].
      apply orb_true_iff. right.
      specialize (Hc2 _ G). simpl in Hc2.
      rewrite (sorted_get_In k' s' c' Hs Hin') in Hc2.
      apply (IH _ G s'); [apply (Hw _ Hin')|exact Hc2|exact Hm2].
    + apply orb_true_iff. right. apply nullable_optional. exact Hc1.
Qed.

Theorem is_subset_sound : forall a b, wf b = true -> is_subset a b = true ->
  forall d, mem d a = true -> mem d b = true.
Proof.
  induction a as [|o|o|o|t o IH|c o IH|vs o IH|es o IH] using shape_ind'; intros b Hwb H d Hd.
  - (* Null *)
    apply mem_null_only in Hd. subst d. simpl in H. apply orb_true_iff in H. destruct H as [H|H].
    + apply nullable_optional. exact H.
    + destruct b; try discriminate. reflexivity.
  - simpl in H. eapply scalar_subset_sound; [left; reflexivity|exact H|]. apply mem_scalar_cases_bool. exact Hd.
  - simpl in H. eapply scalar_subset_sound; [right; left; reflexivity|exact H|]. apply mem_scalar_cases_num. exact Hd.
  - simpl in H. eapply scalar_subset_sound; [right; right; reflexivity|exact H|]. apply mem_scalar_cases_str. exact Hd.
  - (* Array *)
    destruct b as [| | | |t' o'| |ws oo|]; simpl in H; try discriminate.
    + apply andb_true_iff in H. destruct H as [H1 H2]. simpl in Hwb.
      destruct d; simpl in Hd |- *; try discriminate.
      * eapply implb_true_elim; eassumption.
      * rewrite forallb_forall in *. intros x Hx. eapply IH; eauto.
    + eapply (mem_via_variant (fun f => SArray t f) o); [reflexivity|exact H|exact Hd].
  - (* Object *)
    destruct b as [| | | | |c' o'|ws oo|]; try (simpl in H; discriminate).
    + rewrite is_subset_object_object in H. apply andb_true_iff in H. destruct H as [H1 H2].
      simpl in Hwb. apply andb_true_iff in Hwb. destruct Hwb as [Hs Hw].
      destruct d; simpl in Hd; try discriminate.
      * simpl. eapply implb_true_elim; eassumption.
      * eapply (obj_check_sound c c' o o'); eauto.
    + rewrite is_subset_object_oneof in H. apply existsb_exists in H.
      destruct H as [var [Hin Hv]]. destruct var as [| | | | |c' o'| |]; simpl in Hv; try discriminate.
      apply andb_true_iff in Hv. destruct Hv as [H1 H2].
      eapply mem_oneof_intro; [exact Hin|].
      simpl in Hwb. apply andb_true_iff in Hwb. destruct Hwb as [_ Hwb].
      rewrite forallb_forall in Hwb. specialize (Hwb _ Hin). simpl in Hwb.
      apply andb_true_iff in Hwb. destruct Hwb as [Hs Hw].
      destruct d; simpl in Hd; try discriminate.
      * simpl. eapply implb_true_elim; eassumption.
      * eapply (obj_check_sound c c' o o'); eauto.
  - (* OneOf *)
    destruct b as [| | | | | |ws o'|]; try (simpl in H; discriminate).
    rewrite is_subset_oneof_oneof in H. apply andb_true_iff in H. destruct H as [H1 H2].
    apply mem_oneof_elim in Hd. destruct Hd as [[v [Hin Hv]]|[Hd Ho]].
    + apply orb_true_iff in H2. destruct H2 as [H2|H2].
      * unfold sset_subset, set_subset in H2. rewrite forallb_forall in H2.
        specialize (H2 _ Hin). apply sset_mem_In in H2. eapply mem_oneof_intro; eassumption.
      * rewrite forallb_forall in H2. specialize (H2 _ Hin).
        apply existsb_exists in H2. destruct H2 as [w [Hw1 Hw2]].
        eapply mem_oneof_intro; [exact Hw1|].
        rewrite Forall_forall in IH. eapply IH; eauto.
        simpl in Hwb. apply andb_true_iff in Hwb. destruct Hwb as [_ Hwb].
        rewrite forallb_forall in Hwb. apply Hwb. exact Hw1.
    + subst d. rewrite mem_oneof. simpl. rewrite (implb_true_elim _ _ H1 Ho). apply orb_true_r.
  - (* Tuple *)
    destruct b as [| | | |t' o'| |ws oo|os o']; try (simpl in H; discriminate).
    + (* Array of OneOf *)
      destruct t' as [| | | | | |ws oo|]; try (simpl in H; discriminate).
      simpl in H. apply andb_true_iff in H. destruct H as [H1 H2].
      destruct d; simpl in Hd; try discriminate.
      * simpl. eapply implb_true_elim; eassumption.
      * rewrite mem_tuple_fix in Hd. rewrite mem_array_arr.
        clear IH Hwb H1. revert l Hd. induction es as [|e r IHr]; intros [|x l] Hd; simpl in Hd; try discriminate; [reflexivity|].
        simpl in H2. apply andb_true_iff in H2. destruct H2 as [He Hr].
        apply andb_true_iff in Hd. destruct Hd as [Hx Hl].
        simpl. apply andb_true_iff. split; [|apply IHr; assumption].
        apply sset_mem_In in He. eapply mem_oneof_intro; eassumption.
    + eapply (mem_via_variant (fun f => STuple es f) o); [reflexivity|exact H|exact Hd].
    + rewrite is_subset_tuple_tuple in H. apply andb_true_iff in H. destruct H as [H1 H2].
      destruct d; simpl in Hd; try discriminate.
      * simpl. eapply implb_true_elim; eassumption.
      * rewrite mem_tuple_fix in Hd. rewrite mem_tuple. simpl in Hwb.
        clear H1. revert os l H2 Hd Hwb. induction es as [|e r IHr]; intros [|x os] [|y l] H2 Hd Hwb;
          simpl in *; try discriminate; [reflexivity|].
        apply andb_true_iff in H2. destruct H2 as [He Hr].
        apply andb_true_iff in Hd. destruct Hd as [Hy Hl].
        apply andb_true_iff in Hwb. destruct Hwb as [Hwx Hwos].
        inversion IH as [|? ? IHe IHrest]; subst.
        apply andb_true_iff. split; [exact (IHe x Hwx He y Hy)|]. apply IHr; assumption.
Qed.
