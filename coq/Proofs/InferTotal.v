(* InferTotal.v — inference succeeds on every document without CONFLICTING duplicate member
   names (repeated names with equally shaped values are accepted), the quantifier of C01. *)
From Coq Require Import List Bool NArith Lia.
Import ListNotations.
From JS Require Import Model.Base Model.Shape Model.Sem Model.Merger Model.Infer Model.Api Model.JsonRef
  Proofs.BaseFacts Proofs.ShapeFacts Proofs.SemFacts Proofs.InferFacts Proofs.SourcesSound.

(* first value of key k in a member list *)
Fixpoint doc_first (k : key) (m : list (key * json)) : option json :=
  match m with
  | [] => None
  | (k', v) :: r => if key_eqb k k' then Some v else doc_first k r
  end.

Lemma infer_ok_not_oneof d s : infer_text d = Ok s -> is_oneof s = false.
Proof.
  intro H. destruct (infer_text_ok d s H) as [_ Hf]. destruct s; try reflexivity. discriminate.
Qed.

Theorem infer_total_dup : forall d, dup_consistent d = true -> exists s, infer_text d = Ok s.
Proof.
  induction d as [| | | |l IH|m IH] using json_ind'; intro Hn; try (simpl; eauto; fail).
  - rewrite infer_text_arr. simpl in Hn.
    assert (exists es, mapM_o infer_text l = Ok es).
    { clear -IH Hn. rewrite forallb_forall in Hn. induction IH as [|x r Hx Hr IHr]; simpl; [eauto|].
      destruct (Hx (Hn x (or_introl eq_refl))) as [s Es]. rewrite Es. simpl.
      destruct IHr as [es Ees]; [intros y Hy; apply Hn; right; exact Hy|]. rewrite Ees. simpl. eauto. }
    destruct H as [es E]. rewrite E. simpl. apply array_text_total.
  - rewrite infer_text_obj. simpl in Hn.
    (* invariant: every key already in acc carries the shape of a value v0 such that every later
       occurrence of that key is inferred like v0 *)
    assert (G : forall m2 acc,
               Forall (fun kv => dup_consistent (snd kv) = true -> exists s, infer_text (snd kv) = Ok s) m2 ->
               (fix go (m : list (key * json)) : bool :=
                  match m with
                  | [] => true
                  | (k, v) :: r =>
                      dup_consistent v
                      && forallb (fun kv => negb (key_eqb k (fst kv))
                                            || shape_opt_eqb (infer_text v) (infer_text (snd kv))) r
                      && go r
                  end) m2 = true ->
               (forall k s, map_get k acc = Some s ->
                  is_oneof s = false /\
                  forall v, In (k, v) m2 -> infer_text v = Ok s) ->
               exists s, obj_loop infer_text m2 acc = Ok s).
    { clear. induction m2 as [|[k v] r IHm]; intros acc IH Hdup Hacc; simpl; [eauto|].
      inversion IH as [|? ? Hv Hr]; subst. simpl in Hv.
      apply andb_true_iff in Hdup. destruct Hdup as [Hd Hd2].
      apply andb_true_iff in Hd. destruct Hd as [Hsv Hd1].
      destruct (Hv Hsv) as [sv Esv]. rewrite Esv. simpl.
      destruct (map_get k acc) as [old|] eqn:G.
      - destruct (Hacc k old G) as [Hno Hsame].
        pose proof (Hsame v (or_introl eq_refl)) as E. rewrite Esv in E. inversion E. subst old.
        assert (Hrec : exists s, obj_loop infer_text r acc = Ok s).
        { apply IHm; try assumption. intros k0 s0 G0. destruct (Hacc k0 s0 G0) as [H1 H2].
          split; [exact H1|]. intros v0 Hin. apply H2. right. exact Hin. }
        destruct sv; try (rewrite shape_eqb_refl; exact Hrec). discriminate Hno.
      - apply IHm; try assumption.
        intros k0 s0 G0. rewrite map_get_insert in G0. destruct (key_eqb k0 k) eqn:Ek.
        + apply key_eqb_eq in Ek. subst k0. inversion G0. subst s0.
          split; [eapply infer_ok_not_oneof; exact Esv|].
          intros v0 Hin. rewrite forallb_forall in Hd1. specialize (Hd1 (k, v0) Hin). simpl in Hd1.
          rewrite key_eqb_refl in Hd1. simpl in Hd1. unfold shape_opt_eqb in Hd1. rewrite Esv in Hd1.
          destruct (infer_text v0) as [s0| |]; try discriminate. apply shape_eqb_eq in Hd1. subst. reflexivity.
        + destruct (Hacc k0 s0 G0) as [H1 H2]. split; [exact H1|].
          intros v0 Hin. apply H2. right. exact Hin. }
    apply G; try assumption. intros k s G0. discriminate.
Qed.

Theorem sources_succeed_dup ds : ds <> [] -> Forall (fun d => dup_consistent d = true) ds ->
  exists s, from_sources_tree ds = Ok s.
Proof.
  intros Hne Hn. unfold from_sources_tree.
  assert (exists ss, mapM_o infer_text ds = Ok ss /\ length ss = length ds).
  { clear Hne. induction Hn as [|d r Hd Hr IH]; simpl; [exists []; auto|].
    destruct (infer_total_dup d Hd) as [s Es]. rewrite Es. simpl.
    destruct IH as [ss [Ess Hl]]. rewrite Ess. simpl. exists (s :: ss). simpl. auto. }
  destruct H as [ss [Ess Hl]]. rewrite Ess.
  destruct ss as [|s0 r]; [destruct ds; [contradiction|discriminate]|]. simpl. eauto.
Qed.

(* the stricter class used elsewhere is included *)
Lemma nodup_dup_consistent : forall d, nodup_keys d = true -> dup_consistent d = true.
Proof.
  induction d as [| | | |l IH|m IH] using json_ind'; intro Hn; try reflexivity.
  - simpl in *. rewrite forallb_forall in *. rewrite Forall_forall in IH. intros x Hx. apply IH; auto.
  - simpl in *. revert Hn. induction IH as [|[k v] r Hv Hr IHr]; intro Hn; [reflexivity|].
    simpl in Hv. apply andb_true_iff in Hn. destruct Hn as [Hn Hn3]. apply andb_true_iff in Hn. destruct Hn as [Hn1 Hn2].
    rewrite (Hv Hn2), (IHr Hn3). simpl. rewrite andb_true_r.
    apply forallb_forall. intros [k2 v2] Hin. simpl.
    apply negb_true_iff in Hn1. destruct (key_eqb k k2) eqn:E; [|reflexivity].
    apply key_eqb_eq in E. subst k2. exfalso.
    assert (doc_has_key k r = true) by (apply doc_has_key_In; eauto). congruence.
Qed.
