(* GenNameClass.v — what the generated type name depends on: shapes with the same types in the same
   positions (same_types, Model/GenClass.v) get the same name and the same type expression, whatever
   their member names are.  This is the class of known finding KF4 stated as a theorem. *)
From Coq Require Import List Bool NArith Lia.
Import ListNotations.
From JS Require Import Model.Base Model.Shape Model.Gen Model.GenClass Proofs.ShapeFacts.

Lemma eqb_true_eq a b : Bool.eqb a b = true -> a = b.
Proof. destruct a, b; simpl; congruence. Qed.

Theorem same_types_name_repr : forall a b, same_types a b = true ->
  shape_name a = shape_name b /\ shape_repr a = shape_repr b.
Proof.
  induction a as [|o|o|o|x o IH|c o IH|vs o IH|es o IH] using shape_ind'; intros b H;
    destruct b as [|o'|o'|o'|y o'|d o'|ws o'|fs o']; simpl in H; try discriminate.
  - split; reflexivity.
  - apply eqb_true_eq in H. subst. split; reflexivity.
  - apply eqb_true_eq in H. subst. split; reflexivity.
  - apply eqb_true_eq in H. subst. split; reflexivity.
  - apply andb_true_iff in H. destruct H as [Ho Hx]. apply eqb_true_eq in Ho. subst o'.
    destruct (IH y Hx) as [Hn Hr]. simpl. rewrite Hn, Hr. split; reflexivity.
  - apply andb_true_iff in H. destruct H as [Ho Hc]. apply eqb_true_eq in Ho. subst o'.
    assert (E : map (fun kv => shape_name (snd kv)) c = map (fun kv => shape_name (snd kv)) d).
    { revert d Hc. induction IH as [|kv c' Hkv _ IHc]; intros [|kv' d'] Hc; simpl in Hc; try discriminate.
      - reflexivity.
      - apply andb_true_iff in Hc. destruct Hc as [H1 H2]. simpl.
        destruct (Hkv (snd kv') H1) as [Hn _]. rewrite Hn, (IHc d' H2). reflexivity. }
    simpl. rewrite E. split; reflexivity.
  - apply andb_true_iff in H. destruct H as [Ho Hc]. apply eqb_true_eq in Ho. subst o'.
    assert (E : map shape_name vs = map shape_name ws).
    { revert ws Hc. induction IH as [|x l Hx _ IHl]; intros [|y m] Hc; simpl in Hc; try discriminate.
      - reflexivity.
      - apply andb_true_iff in Hc. destruct Hc as [H1 H2]. simpl.
        destruct (Hx y H1) as [Hn _]. rewrite Hn, (IHl m H2). reflexivity. }
    simpl. rewrite E. split; reflexivity.
  - apply andb_true_iff in H. destruct H as [Ho Hc]. apply eqb_true_eq in Ho. subst o'.
    assert (E : map shape_repr es = map shape_repr fs).
    { revert fs Hc. induction IH as [|x l Hx _ IHl]; intros [|y m] Hc; simpl in Hc; try discriminate.
      - reflexivity.
      - apply andb_true_iff in Hc. destruct Hc as [H1 H2]. simpl.
        destruct (Hx y H1) as [_ Hr]. rewrite Hr, (IHl m H2). reflexivity. }
    assert (E' : map (fun e => render_ty (shape_repr e)) es = map (fun e => render_ty (shape_repr e)) fs).
    { rewrite <- (map_map shape_repr render_ty es), <- (map_map shape_repr render_ty fs), E. reflexivity. }
    simpl. rewrite E', E. split; reflexivity.
Qed.

Corollary same_types_name a b : same_types a b = true -> shape_name a = shape_name b.
Proof. intro H. exact (proj1 (same_types_name_repr a b H)). Qed.

(* the class is not empty of DIFFERENT well-formed shapes: member names are invisible to it *)
Example same_types_differ :
  let a := SObject [([97%N], SNumber false)] false in
  let b := SObject [([98%N], SNumber false)] false in
  wf a = true /\ wf b = true /\ a <> b /\ same_types a b = true.
Proof. repeat split; try reflexivity. discriminate. Qed.
