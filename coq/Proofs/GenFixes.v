(* GenFixes.v — theorems about the post-fix variants of Model/Gen.v (F14, F15). *)
From Coq Require Import String.
From Coq Require Import List Bool NArith Lia PeanoNat.
Import ListNotations.
From JS Require Import Model.Base Model.Shape Model.Sem Model.Gen
  Proofs.BaseFacts Proofs.ShapeFacts Proofs.GenDecode Proofs.GenWf Proofs.GenPaths Proofs.GenSerdeSound.

(* ---------- F14: the macro's path for every collection name that is not absolute ---------- *)
Theorem paths_agree_f14 dir name :
  plain_dir dir = true -> (match name with c :: _ => negb (N.eqb c 47) | [] => true end) = true ->
  out_path_f14 dir name = macro_path dir name.
Proof.
  intros Hd Hn. unfold out_path_f14, macro_path. unfold plain_dir in Hd.
  destruct dir as [|d0 dr]; [discriminate Hd|]. apply negb_true_iff in Hd.
  destruct name as [|c r].
  - unfold path_join. cbn. rewrite Hd. reflexivity.
  - apply negb_true_iff in Hn. unfold path_join. cbn [app]. rewrite Hn, Hd. reflexivity.
Qed.

(* ---------- F15 ---------- *)
Section TyInd.
  Variable P : ty -> Prop.
  Hypothesis HPath : forall n args, Forall P args -> P (TPath n args).
  Hypothesis HTuple : forall es, Forall P es -> P (TTuple es).
  Fixpoint ty_ind' (x : ty) : P x :=
    match x with
    | TPath n args => HPath n args ((fix go (l : list ty) : Forall P l :=
                                       match l with [] => Forall_nil _ | a :: r => Forall_cons a (ty_ind' a) (go r) end) args)
    | TTuple es => HTuple es ((fix go (l : list ty) : Forall P l :=
                                 match l with [] => Forall_nil _ | a :: r => Forall_cons a (ty_ind' a) (go r) end) es)
    end.
End TyInd.

Definition same_names (a b : list text) : Prop := forall n, existsb (text_eqb n) a = existsb (text_eqb n) b.

Lemma forallb_ext_Forall {A} (f g : A -> bool) l : Forall (fun x => f x = g x) l -> forallb f l = forallb g l.
Proof. induction 1 as [|x r Hx Hr IH]; simpl; [reflexivity|]. rewrite Hx, IH. reflexivity. Qed.

Lemma wf_ty_ext a b d : same_names a b -> forall x, wf_ty a d x = wf_ty b d x.
Proof.
  intro H. induction x as [n args IH|es IH] using ty_ind'; cbn [wf_ty].
  - rewrite (H n). rewrite (forallb_ext_Forall _ _ _ IH). reflexivity.
  - rewrite (forallb_ext_Forall _ _ _ IH). reflexivity.
Qed.

Lemma wf_item_ext a b : same_names a b -> forall i, wf_item a i = wf_item b i.
Proof.
  intros H [n x|n fs|n vs]; cbn [wf_item]; [apply wf_ty_ext; exact H| |];
    unfold wf_members; f_equal; apply forallb_ext_Forall; apply Forall_forall; intros m _; apply wf_ty_ext; exact H.
Qed.

Lemma dedup_from_spec seen l :
  nodupb (map item_name (dedup_from seen l)) = true /\
  (forall i, In i (dedup_from seen l) -> In i l /\ existsb (text_eqb (item_name i)) seen = false) /\
  (forall n, existsb (text_eqb n) (map item_name (dedup_from seen l)) || existsb (text_eqb n) seen
             = existsb (text_eqb n) (map item_name l) || existsb (text_eqb n) seen).
Proof.
  revert seen. induction l as [|i r IH]; intro seen.
  - split; [reflexivity|]. split; [intros j Hj; destruct Hj|]. intro n. reflexivity.
  - cbn [dedup_from]. destruct (existsb (text_eqb (item_name i)) seen) eqn:E.
    + destruct (IH seen) as [H1 [H2 H3]]. split; [exact H1|]. split.
      * intros j Hj. destruct (H2 j Hj) as [Ha Hb]. split; [right; exact Ha|exact Hb].
      * intro n. rewrite H3. cbn [map existsb].
        destruct (text_eqb n (item_name i)) eqn:En; [|reflexivity].
        apply text_eqb_eq in En. subst n. rewrite E. rewrite !orb_true_r. reflexivity.
    + destruct (IH (item_name i :: seen)) as [H1 [H2 H3]]. split; [|split].
      * cbn [map nodupb]. rewrite H1, andb_true_r. apply negb_true_iff.
        destruct (existsb (text_eqb (item_name i)) (map item_name (dedup_from (item_name i :: seen) r))) eqn:E2; [|reflexivity].
        apply existsb_exists in E2. destruct E2 as [n [Hn En]]. apply text_eqb_eq in En. subst n.
        apply in_map_iff in Hn. destruct Hn as [j [Ej Hj]]. destruct (H2 j Hj) as [_ Hb].
        cbn [existsb] in Hb. rewrite Ej, text_eqb_refl in Hb. discriminate Hb.
      * intros j [<-|Hj]; [split; [left; reflexivity|exact E]|].
        destruct (H2 j Hj) as [Ha Hb]. split; [right; exact Ha|].
        cbn [existsb] in Hb. apply orb_false_iff in Hb. tauto.
      * intro n. cbn [map existsb]. specialize (H3 n). cbn [existsb] in H3.
        destruct (text_eqb n (item_name i)); cbn [orb] in *; [reflexivity|exact H3].
Qed.

Lemma dedup_same_names l : same_names (map item_name (dedup_items l)) (map item_name l).
Proof.
  intro n. destruct (dedup_from_spec [] l) as [_ [_ H]]. specialize (H n).
  cbn [existsb] in H. rewrite !orb_false_r in H. exact H.
Qed.

(* after F15 the duplicate-definition hypothesis disappears: the local conditions suffice *)
Theorem gen_wf_f15 : forall s, root_ok s = true -> wf_items (first_pass_f15 s) = true.
Proof.
  intros s Hroot. unfold first_pass_f15, wf_items.
  destruct (dedup_from_spec [] (first_pass s)) as [Hnd [Hsub _]]. fold (dedup_items (first_pass s)) in *.
  rewrite Hnd. cbn [andb]. apply andb_true_iff. split.
  - apply forallb_forall. intros n Hn. apply in_map_iff in Hn. destruct Hn as [i [<- Hi]].
    destruct (Hsub i Hi) as [Hin _].
    assert (In (item_name i) (def_names s)) by (rewrite <- first_pass_names; apply in_map; exact Hin).
    destruct (def_names_ok s _ H) as [H1 H2]. rewrite H1, H2. reflexivity.
  - apply forallb_forall. intros i Hi. destruct (Hsub i Hi) as [Hin _].
    rewrite (wf_item_ext _ (def_names s)).
    + pose proof (gen_items_wf s Hroot) as Hall. rewrite forallb_forall in Hall. exact (Hall i Hin).
    + rewrite <- first_pass_names. apply dedup_same_names.
Qed.

(* definitions are found by their first occurrence, which deduplication keeps: decoding and
   the serde model read the same items *)
Lemma lookup_dedup_from n : forall l seen, existsb (text_eqb n) seen = false ->
  lookup n (dedup_from seen l) = lookup n l.
Proof.
  induction l as [|i r IH]; intros seen Hs; [reflexivity|]. cbn [dedup_from lookup].
  destruct (text_eqb n (item_name i)) eqn:E.
  - apply text_eqb_eq in E. subst n. rewrite Hs. cbn [lookup]. rewrite text_eqb_refl. reflexivity.
  - destruct (existsb (text_eqb (item_name i)) seen).
    + apply IH. exact Hs.
    + cbn [lookup]. rewrite E. apply IH. cbn [existsb]. rewrite E. exact Hs.
Qed.

Theorem lookup_dedup n l : lookup n (dedup_items l) = lookup n l.
Proof. apply lookup_dedup_from. reflexivity. Qed.

Example f15_repeated : wf_items (first_pass c13_repeated) = false /\ wf_items (first_pass_f15 c13_repeated) = true.
Proof. split; reflexivity. Qed.

(* ---------- decode / deser depend on the items only through lookup and the first item ---------- *)
Lemma mapM_ext {A B} (f g : A -> option B) l : (forall x, f x = g x) -> mapM f l = mapM g l.
Proof. intro H. induction l as [|x r IH]; simpl; [reflexivity|]. rewrite H, IH. reflexivity. Qed.

Lemma zipM_ext {A B C} (f g : A -> B -> option C) l l' : (forall x y, f x y = g x y) -> zipM f l l' = zipM g l l'.
Proof.
  intro H. revert l'. induction l as [|x r IH]; intros [|y r']; simpl; try reflexivity.
  rewrite H, IH. reflexivity.
Qed.

Section LookupExt.
  Variables items items' : list item.
  Hypothesis Hl : forall n, lookup n items = lookup n items'.

  Lemma decode_ty_ext : forall fuel x, decode_ty fuel items x = decode_ty fuel items' x.
  Proof.
    induction fuel as [|f IH]; intro x; [reflexivity|].
    destruct x as [n args|es]; cbn [decode_ty].
    - destruct args as [|a [|b r]]; try reflexivity.
      + rewrite Hl. destruct (lookup n items') as [[n' y|n' fs|n' vs]|]; try reflexivity.
        * rewrite IH. reflexivity.
        * rewrite (mapM_ext _ (fun m => match decode_ty f items' (snd m) with
                                        | Some v => Some (fst m, v) | None => None end)); [reflexivity|].
          intro m. rewrite IH. reflexivity.
        * rewrite (mapM_ext _ (fun m => decode_ty f items' (snd m))); [reflexivity|].
          intro m. apply IH.
      + rewrite IH. reflexivity.
    - destruct es as [|a [|b r]]; try reflexivity.
      + apply IH.
      + rewrite (mapM_ext _ (decode_ty f items')); [reflexivity|exact IH].
  Qed.

  Lemma deser_ext : forall fuel x d, deser fuel items x d = deser fuel items' x d.
  Proof.
    induction fuel as [|f IH]; intros x d; [reflexivity|].
    destruct x as [n args|es]; cbn [deser].
    - destruct args as [|a [|b r]]; try reflexivity.
      + rewrite Hl. destruct (lookup n items') as [[n' y|n' fs|n' vs]|]; try reflexivity.
        * rewrite IH. reflexivity.
        * destruct fs as [|fd fs]; [reflexivity|]. destruct d; try reflexivity.
          -- rewrite (zipM_ext _ (fun fd0 v => match deser f items' (snd fd0) v with
                                               | Some r0 => Some (fst fd0, r0) | None => None end)); [reflexivity|].
             intros fd0 v. rewrite IH. reflexivity.
          -- rewrite (mapM_ext _ (fun fd0 =>
                       match find_members (fst fd0) m with
                       | [] => if is_option_ty (snd fd0) then Some (fst fd0, RNone) else None
                       | [v] => match deser f items' (snd fd0) v with
                                | Some r0 => Some (fst fd0, r0) | None => None end
                       | _ => None
                       end)); [reflexivity|].
             intro fd0. destruct (find_members (fst fd0) m) as [|v [|w r]]; try reflexivity.
             rewrite IH. reflexivity.
        * destruct d; try reflexivity. destruct m as [|[k v] [|p r]]; try reflexivity.
          destruct (find (fun m0 => text_eqb (fst m0) k) vs); [|reflexivity]. rewrite IH. reflexivity.
      + destruct (text_eqb n (lit "Option")).
        * destruct d; try reflexivity; rewrite IH; reflexivity.
        * destruct (text_eqb n (lit "Vec")); [|reflexivity]. destruct d; try reflexivity.
          rewrite (mapM_ext _ (deser f items' a)); [reflexivity|]. intro e. apply IH.
    - destruct es as [|a [|b r]]; try reflexivity.
      + apply IH.
      + destruct d; try reflexivity.
        rewrite (zipM_ext _ (deser f items')); [reflexivity|]. intros; apply IH.
  Qed.
End LookupExt.

Lemma dedup_head i r : dedup_items (i :: r) = i :: dedup_from [item_name i] r.
Proof. reflexivity. Qed.

(* C14 and C15 for the deduplicating emission: same statements, same classes *)
Theorem decode_gen_f15 : forall s, decodable s = true ->
  forall fuel, 2 * depth s + 2 <= fuel -> decode fuel (first_pass_f15 s) = Some (erase s).
Proof.
  intros s Hd fuel Hf. rewrite <- (decode_gen s Hd fuel Hf). unfold first_pass_f15.
  destruct (first_pass s) as [|i r] eqn:E; [reflexivity|]. rewrite dedup_head. cbn [decode].
  rewrite <- dedup_head. apply decode_ty_ext. intro n. apply lookup_dedup.
Qed.

Theorem deser_sources_f15 : forall s d, c15_class s = true -> nodup_keys d = true -> mem d s = true ->
  forall fuel, 2 * depth s + 2 <= fuel ->
  exists v, deser_root fuel (first_pass_f15 s) d = Some v /\ approx d (reser v) = true.
Proof.
  intros s d Hc Hn Hm fuel Hf.
  destruct (Proofs.GenSerdeSound.deser_sources s d Hc Hn Hm fuel Hf) as [v [E1 E2]].
  exists v. split; [|exact E2]. rewrite <- E1. unfold first_pass_f15.
  destruct (first_pass s) as [|i r] eqn:E; [reflexivity|]. rewrite dedup_head. cbn [deser_root].
  rewrite <- dedup_head. apply deser_ext. intro n. apply lookup_dedup.
Qed.
