(* ReaddAny.v — C09, generalised from "the same document k times" to ANY re-additions:
   once documents are among the sources, adding any of them again — in any order, interleaved, any
   number of times — never fails and does not change which documents the shape admits.
   (The syntactic clause cannot be generalised the same way: after `true, true, null, null, {..}, "s"`
   one more `null` still sets a flag; see readd_any_not_syntactic.) *)
From Coq Require Import List Bool NArith Lia.
Import ListNotations.
From JS Require Import Model.Base Model.Shape Model.Sem Model.Subset Model.Merger Model.Infer Model.Api
  Proofs.BaseFacts Proofs.ShapeFacts Proofs.SemFacts Proofs.MergerFacts Proofs.InferFacts Proofs.SourcesSound
  Proofs.MergerConverge Proofs.MergerAbsorb.

Theorem sources_readd_any h m : from_sources_tree h = Ok m ->
  forall r, (forall d, In d r -> In d h) ->
  exists m', from_sources_tree (h ++ r) = Ok m' /\ equiv_sh m' m.
Proof.
  intros Hm r. induction r as [|d r IH] using rev_ind; intro Hr.
  - exists m. rewrite app_nil_r. split; [exact Hm|intro x; reflexivity].
  - destruct IH as [m' [Hm' He]].
    { intros x Hx. apply Hr. apply in_or_app. left. exact Hx. }
    assert (Hin : In d (h ++ r)).
    { apply in_or_app. left. apply Hr. apply in_or_app. right. left. reflexivity. }
    destruct (sources_infer_ok (h ++ r) m' d Hm' Hin) as [sd Hd].
    pose proof (sources_absorbed (h ++ r) m' d sd Hm' Hin Hd) as Habs.
    destruct (infer_text_ok d sd Hd) as [Hwsd Hfsd].
    pose proof (from_sources_wf (h ++ r) m' Hm') as Hwm.
    exists (merger m' sd). split.
    + rewrite app_assoc. apply (from_sources_snoc _ d m' sd Hm' Hd).
    + intro x. rewrite (absorbed_equiv sd m' Hwm Hwsd Hfsd Habs x). apply He.
Qed.

(* the re-added documents may also come from the re-additions themselves: it is enough that every
   document of r occurs in h *)
Corollary sources_readd_any_mem h m r m' : from_sources_tree h = Ok m -> (forall d, In d r -> In d h) ->
  from_sources_tree (h ++ r) = Ok m' -> forall x, mem x m' = mem x m.
Proof.
  intros Hm Hr Hm'. destruct (sources_readd_any h m Hm r Hr) as [m1 [H1 H2]].
  rewrite H1 in Hm'. inversion Hm'. subst. exact H2.
Qed.

(* the syntactic clause of C09 ("stops changing after at most one such addition") is about one document
   re-added in a row; it does not extend to a document that was already added twice when other sources
   arrived in between: [true; null; null; "s"] then null once more still changes the shape (sets the flag) *)
Lemma readd_any_not_syntactic : exists g d x, let h := g ++ [d; d] ++ [x] in
  from_sources_tree (h ++ [d]) <> from_sources_tree h /\
  from_sources_tree (h ++ [d; d]) = from_sources_tree (h ++ [d]).
Proof. exists [JBool], JNull, JStr. vm_compute. split; [discriminate|reflexivity]. Qed.
