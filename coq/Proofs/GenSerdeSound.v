(* GenSerdeSound.v — under the serde model, every member document of a shape in the class
   c15_class deserializes into the generated root type and re-serializes to an approx-equal
   document (C15).  Structural induction over all shapes; [opt_array_head] is never evaluated. *)
From Coq Require Import String.
From Coq Require Import List Bool NArith Lia PeanoNat.
Import ListNotations.
From JS Require Import Model.Base Model.Shape Model.Sem Model.Gen
  Proofs.BaseFacts Proofs.ShapeFacts Proofs.GenDecode.

Local Opaque opt_array_head.

(* ---------- unfolding lemmas ---------- *)
Lemma approx_arr l l' : approx (JArr l) (JArr l') = forall2b approx l l'.
Proof.
  cbn [approx]. revert l'. induction l as [|x r IH]; intros [|y r']; try reflexivity.
  cbn [forall2b]. rewrite <- IH. reflexivity.
Qed.

Lemma approx_obj m m' : approx (JObj m) (JObj m') =
  forallb (fun kv => match find_members (fst kv) m' with [v'] => approx (snd kv) v' | _ => false end) m
  && forallb (fun kv => doc_has_key (fst kv) m || j_is_null (snd kv)) m'.
Proof.
  cbn [approx]. f_equal. induction m as [|[k v] r IH]; [reflexivity|].
  cbn [forallb fst snd]. rewrite <- IH. reflexivity.
Qed.

Lemma mem_tuple es o l : mem (JArr l) (STuple es o) = forall2b (fun e x => mem x e) es l.
Proof.
  cbn [mem]. revert l. induction es as [|e r IH]; intros [|x l]; try reflexivity.
  cbn [forall2b]. rewrite <- IH. reflexivity.
Qed.

Lemma nodup_obj_cons k v r :
  nodup_keys (JObj ((k, v) :: r)) = negb (doc_has_key k r) && nodup_keys v && nodup_keys (JObj r).
Proof. reflexivity. Qed.

Lemma deser_option_null f items a : deser (S f) items (ty_option a) JNull = Some RNone.
Proof. reflexivity. Qed.

Lemma deser_option_some f items a d : j_is_null d = false ->
  deser (S f) items (ty_option a) d =
  match deser f items a d with Some r => Some (RSome r) | None => None end.
Proof. destruct d; intro H; try discriminate H; reflexivity. Qed.

Lemma deser_vec f items a l :
  deser (S f) items (ty_vec a) (JArr l) =
  match mapM (deser f items a) l with Some vs => Some (RSeq vs) | None => None end.
Proof. reflexivity. Qed.

Lemma deser_opt_array_null f items a : opt_array_decodes = true ->
  deser (S f) items (TPath opt_array_head [a]) JNull = Some RNone.
Proof. unfold opt_array_decodes. intro H. cbn [deser]. rewrite H. reflexivity. Qed.

Lemma deser_opt_array_some f items a d : opt_array_decodes = true -> j_is_null d = false ->
  deser (S f) items (TPath opt_array_head [a]) d =
  match deser f items a d with Some r => Some (RSome r) | None => None end.
Proof.
  unfold opt_array_decodes. intros H Hd. cbn [deser]. rewrite H.
  destruct d; try discriminate Hd; reflexivity.
Qed.

Lemma deser_tuple2 f items a b r l :
  deser (S f) items (TTuple (a :: b :: r)) (JArr l) =
  match zipM (deser f items) (a :: b :: r) l with Some vs => Some (RSeq vs) | None => None end.
Proof. reflexivity. Qed.

Lemma deser_alias f items n n' y d : scalar_name n = false -> lookup n items = Some (Alias n' y) ->
  deser (S f) items (TPath n []) d = deser f items y d.
Proof.
  unfold scalar_name. intros H Hl. apply orb_false_iff in H. destruct H as [H H3].
  apply orb_false_iff in H. destruct H as [H1 H2].
  cbn [deser]. rewrite H1, H2, H3, Hl. reflexivity.
Qed.

Definition field_fun (f : nat) (items : list item) (m : list (key * json)) (fd : text * ty) : option (text * rval) :=
  match find_members (fst fd) m with
  | [] => if is_option_ty (snd fd) then Some (fst fd, RNone) else None
  | [v] => match deser f items (snd fd) v with Some r => Some (fst fd, r) | None => None end
  | _ => None
  end.

Lemma deser_struct f items n n' fd fs m : scalar_name n = false ->
  lookup n items = Some (Struct n' (fd :: fs)) ->
  deser (S f) items (TPath n []) (JObj m) =
  match mapM (field_fun f items m) (fd :: fs) with Some l => Some (RStruct l) | None => None end.
Proof.
  unfold scalar_name. intros H Hl. apply orb_false_iff in H. destruct H as [H H3].
  apply orb_false_iff in H. destruct H as [H1 H2].
  cbn [deser]. rewrite H1, H2, H3, Hl. reflexivity.
Qed.

(* ---------- documents ---------- *)
Lemma find_members_none k m : doc_has_key k m = false -> find_members k m = [].
Proof.
  induction m as [|[k' v] r IH]; intro H; [reflexivity|].
  unfold doc_has_key in H. cbn [existsb fst] in H. apply orb_false_iff in H. destruct H as [H1 H2].
  cbn [find_members]. unfold text_eqb. rewrite H1. apply IH. exact H2.
Qed.

Lemma find_members_some k m : doc_has_key k m = true -> nodup_keys (JObj m) = true ->
  exists v, find_members k m = [v] /\ In (k, v) m.
Proof.
  induction m as [|[k' v] r IH]; intros H Hn; [discriminate H|].
  rewrite nodup_obj_cons in Hn. apply andb_true_iff in Hn. destruct Hn as [Hn Hr].
  apply andb_true_iff in Hn. destruct Hn as [Hk Hv]. apply negb_true_iff in Hk.
  cbn [find_members]. unfold text_eqb. destruct (key_eqb k k') eqn:E.
  - apply key_eqb_eq in E. subst k'. rewrite (find_members_none k r Hk).
    exists v. split; [reflexivity|left; reflexivity].
  - unfold doc_has_key in H. cbn [existsb fst] in H. rewrite E in H. cbn [orb] in H.
    destruct (IH H Hr) as [v0 [H1 H2]]. exists v0. split; [exact H1|right; exact H2].
Qed.

Lemma doc_has_key_in k v m : In (k, v) m -> doc_has_key k m = true.
Proof.
  intro H. unfold doc_has_key. apply existsb_exists. exists (k, v). split; [exact H|apply key_eqb_refl].
Qed.

Lemma nodup_member k v m : nodup_keys (JObj m) = true -> In (k, v) m -> nodup_keys v = true.
Proof.
  induction m as [|[k' v'] r IH]; intros Hn H; [contradiction|].
  rewrite nodup_obj_cons in Hn. apply andb_true_iff in Hn. destruct Hn as [Hn Hr].
  apply andb_true_iff in Hn. destruct Hn as [_ Hv].
  destruct H as [H|H]; [inversion H; subst; exact Hv|exact (IH Hr H)].
Qed.

(* a list whose image under f has no duplicates: f is injective on it *)
Lemma nodupb_inj {A} (f : A -> text) (l : list A) : nodupb (map f l) = true ->
  forall a b, In a l -> In b l -> f a = f b -> a = b.
Proof.
  induction l as [|x r IH]; intros H a b Ha Hb E; [contradiction|].
  cbn [map nodupb] in H. apply andb_true_iff in H. destruct H as [Hx Hr]. apply negb_true_iff in Hx.
  assert (Hnot : forall y, In y r -> f x <> f y).
  { intros y Hy Eq. assert (existsb (text_eqb (f x)) (map f r) = true).
    { apply existsb_exists. exists (f y). split; [apply in_map; exact Hy|rewrite Eq; apply text_eqb_refl]. }
    congruence. }
  destruct Ha as [<-|Ha], Hb as [<-|Hb]; auto.
  - exfalso. exact (Hnot b Hb E).
  - exfalso. exact (Hnot a Ha (eq_sym E)).
Qed.

Lemma find_members_unique (m' : list (key * json)) : nodupb (map fst m') = true ->
  forall k v, In (k, v) m' -> find_members k m' = [v].
Proof.
  induction m' as [|[k' v'] r IH]; intros H k v Hin; [contradiction|].
  cbn [map nodupb fst] in H. apply andb_true_iff in H. destruct H as [Hx Hr]. apply negb_true_iff in Hx.
  assert (Hnone : forall k0, k0 = k' -> find_members k0 r = []).
  { intros k0 ->. apply find_members_none. unfold doc_has_key.
    destruct (existsb (fun p => key_eqb k' (fst p)) r) eqn:E; [|reflexivity].
    apply existsb_exists in E. destruct E as [[k2 v2] [Hin2 E2]]. cbn [fst] in E2.
    apply key_eqb_eq in E2. subst k2.
    assert (existsb (text_eqb k') (map fst r) = true).
    { apply existsb_exists. exists k'. split; [change k' with (fst (k', v2)); apply in_map; exact Hin2|apply text_eqb_refl]. }
    congruence. }
  cbn [find_members]. destruct Hin as [Hin|Hin].
  - inversion Hin; subst. rewrite text_eqb_refl. rewrite (Hnone k eq_refl). reflexivity.
  - destruct (text_eqb k k') eqn:E.
    + apply text_eqb_eq in E. subst k'.
      assert (existsb (text_eqb k) (map fst r) = true).
      { apply existsb_exists. exists k. split; [change k with (fst (k, v)); apply in_map; exact Hin|apply text_eqb_refl]. }
      congruence.
    + exact (IH Hr k v Hin).
Qed.

(* ---------- nullable member shapes are rendered as Option ---------- *)
Lemma nullable_is_option x : is_null x = false -> serde_ok x = true -> inner_dec x = true ->
  mem JNull x = true -> is_option_ty (shape_repr x) = true.
Proof.
  destruct x as [|o|o|o|x o|c o|vs o|es o]; intros Hn Hs Hi Hm; try discriminate.
  - simpl in Hm. subst o. reflexivity.
  - simpl in Hm. subst o. reflexivity.
  - simpl in Hm. subst o. reflexivity.
  - cbn [mem] in Hm. subst o. cbn [inner_dec] in Hi. apply andb_true_iff in Hi. destruct Hi as [Ho _].
    simpl in Ho. cbn [shape_repr is_option_ty]. exact Ho.
  - cbn [mem] in Hm. subst o. reflexivity.
  - cbn [mem] in Hm. subst o. reflexivity.
Qed.

(* ---------- list-level steps ---------- *)
Definition good_res (d : json) (r : option rval) : Prop :=
  exists v, r = Some v /\ approx d (reser v) = true.

Lemma vec_step (F : json -> option rval) (P : json -> Prop) l :
  (forall e, P e -> good_res e (F e)) -> Forall P l ->
  exists vs, mapM F l = Some vs /\ forall2b approx l (map reser vs) = true.
Proof.
  intros HF. induction 1 as [|e r He Hr IH].
  - exists []. split; reflexivity.
  - destruct (HF e He) as [v [E1 E2]]. destruct IH as [vs [E3 E4]].
    exists (v :: vs). split.
    + cbn [mapM]. rewrite E1, E3. reflexivity.
    + cbn [map forall2b]. rewrite E2, E4. reflexivity.
Qed.

Section Items.
  Variable items : list item.

  Lemma deser_repr : forall x, defs_found items x -> inner_dec x = true -> inner_ok x = true ->
    serde_ok x = true ->
    forall d, nodup_keys d = true -> mem d x = true ->
    forall fuel, 2 * depth x <= fuel -> good_res d (deser fuel items (shape_repr x) d).
  Proof.
    induction x as [|o|o|o|x o IH|c o IH|vs o IH|es o IH] using shape_ind';
      intros Hd Hi Hk Hs d Hn Hm fuel Hf.
    - destruct d; try discriminate Hm. destruct fuel as [|f]; [simpl in Hf; lia|].
      exists RUnit. split; reflexivity.
    - destruct fuel as [|[|f]]; try (simpl in Hf; lia).
      destruct o, d; try discriminate Hm; eexists; split; reflexivity.
    - destruct fuel as [|[|f]]; try (simpl in Hf; lia).
      destruct o, d; try discriminate Hm; eexists; split; reflexivity.
    - destruct fuel as [|[|f]]; try (simpl in Hf; lia).
      destruct o, d; try discriminate Hm; eexists; split; reflexivity.
    - (* Array *)
      cbn [inner_dec] in Hi. apply andb_true_iff in Hi. destruct Hi as [Ho Hi].
      cbn [inner_ok] in Hk. apply andb_true_iff in Hk. destruct Hk as [_ Hk].
      cbn [serde_ok] in Hs. cbn [depth] in Hf.
      destruct (fuel_mono_le (depth x) (depth x) fuel (le_n _) Hf) as [f [-> Hf']].
      assert (Hbody : forall g l, 2 * depth x <= g -> nodup_keys (JArr l) = true ->
                forallb (fun e => mem e x) l = true ->
                good_res (JArr l) (deser (S g) items (ty_vec (shape_repr x)) (JArr l))).
      { intros g l Hg Hnl Hml. rewrite deser_vec.
        destruct (vec_step (deser g items (shape_repr x)) (fun e => nodup_keys e = true /\ mem e x = true) l)
          as [vs [E1 E2]].
        - intros e [He1 He2]. apply IH; auto.
        - apply Forall_forall. intros e He. cbn [nodup_keys] in Hnl.
          rewrite forallb_forall in Hnl, Hml. split; auto.
        - rewrite E1. exists (RSeq vs). split; [reflexivity|].
          cbn [reser]. rewrite approx_arr. exact E2. }
      cbn [shape_repr]. destruct o.
      + simpl in Ho. destruct d; try discriminate Hm.
        * rewrite (deser_opt_array_null _ _ _ Ho). exists RNone. split; reflexivity.
        * rewrite (deser_opt_array_some _ _ _ (JArr l) Ho eq_refl).
          cbn [mem] in Hm. destruct (Hbody f l Hf' Hn Hm) as [v [E1 E2]].
          rewrite E1. exists (RSome v). split; [reflexivity|exact E2].
      + destruct d; try discriminate Hm. cbn [mem] in Hm. apply Hbody; auto; lia.
    - (* Object *)
      cbn [inner_dec] in Hi. cbn [inner_ok] in Hk. apply andb_true_iff in Hk. destruct Hk as [Hkeys Hk].
      cbn [serde_ok] in Hs. apply andb_true_iff in Hs. destruct Hs as [Hne Hs].
      unfold keys_ok in Hkeys. apply andb_true_iff in Hkeys. destruct Hkeys as [_ Hnd].
      cbn [depth] in Hf.
      remember (fold_right (fun kv n => Nat.max (depth (snd kv)) n) 0 c) as mx eqn:Em.
      destruct (fuel_mono_le mx mx fuel (le_n _) Hf) as [f [-> Hf']].
      (* member names are their own snake_case form *)
      assert (Hstable : forall kv, In kv c -> to_snake (fst kv) = fst kv).
      { intros kv Hkv. rewrite forallb_forall in Hs. specialize (Hs kv Hkv).
        apply andb_true_iff in Hs. destruct Hs as [Hs _]. apply andb_true_iff in Hs. destruct Hs as [Hs _].
        apply text_eqb_eq in Hs. exact Hs. }
      assert (Hnd' : nodupb (map fst c) = true).
      { erewrite map_ext_in; [exact Hnd|]. intros kv Hkv. symmetry. apply Hstable. exact Hkv. }
      assert (Hlk : lookup (shape_name (SObject c o)) items = Some (item_of (SObject c o))).
      { apply Hd. cbn [subdefs]. left. reflexivity. }
      assert (Hbody : forall g m, 2 * mx <= g -> nodup_keys (JObj m) = true ->
                mem (JObj m) (SObject c o) = true ->
                good_res (JObj m) (deser (S g) items (TPath (shape_name (SObject c o)) []) (JObj m))).
      { intros g m Hg Hnm Hmm. cbn [mem] in Hmm. apply andb_true_iff in Hmm. destruct Hmm as [Hm1 Hm2].
        destruct c as [|kv0 c0] eqn:Ec; [discriminate Hne|]. rewrite <- Ec in *.
        assert (Hfs : item_of (SObject c o) =
                      Struct (shape_name (SObject c o))
                             ((to_snake (fst kv0), shape_repr (snd kv0)) ::
                              map (fun kv => (to_snake (fst kv), shape_repr (snd kv))) c0)).
        { rewrite Ec. reflexivity. }
        rewrite Hfs in Hlk.
        rewrite (deser_struct _ _ _ _ _ _ _ (crc_name_not_scalar _ _ _ (or_introl eq_refl)) Hlk).
        change ((to_snake (fst kv0), shape_repr (snd kv0)) ::
                map (fun kv => (to_snake (fst kv), shape_repr (snd kv))) c0)
          with (map (fun kv : key * shape => (to_snake (fst kv), shape_repr (snd kv))) (kv0 :: c0)).
        rewrite <- Ec.
        (* every field is read: absent -> None, present -> the member's value *)
        assert (Hfields : forall kv, In kv c ->
                  exists r, field_fun g items m (to_snake (fst kv), shape_repr (snd kv)) = Some (fst kv, r) /\
                    ((doc_has_key (fst kv) m = false /\ r = RNone) \/
                     (exists v, In (fst kv, v) m /\ approx v (reser r) = true))).
        { intros kv Hkv. unfold field_fun. cbn [fst snd]. rewrite (Hstable kv Hkv).
          rewrite forallb_forall in Hs. pose proof (Hs kv Hkv) as Hskv.
          apply andb_true_iff in Hskv. destruct Hskv as [Hskv Hsv]. apply andb_true_iff in Hskv.
          destruct Hskv as [_ Hnn]. apply negb_true_iff in Hnn.
          rewrite forallb_forall in Hi. pose proof (Hi kv Hkv) as Hikv.
          rewrite forallb_forall in Hk. pose proof (Hk kv Hkv) as Hkkv.
          destruct (doc_has_key (fst kv) m) eqn:Eh.
          - destruct (find_members_some _ _ Eh Hnm) as [v [E1 E2]]. rewrite E1.
            (* the member's value is in the member's shape *)
            rewrite forallb_forall in Hm1. specialize (Hm1 (fst kv, v) E2).
            apply existsb_exists in Hm1. destruct Hm1 as [ks [Hks Hmv]]. cbn [fst snd] in Hmv.
            apply andb_true_iff in Hmv. destruct Hmv as [Ek Hmv]. apply key_eqb_eq in Ek.
            assert (ks = kv) by (apply (nodupb_inj fst c Hnd' ks kv Hks Hkv); symmetry; exact Ek).
            subst ks.
            rewrite Forall_forall in IH.
            destruct (IH kv Hkv) with (d := v) (fuel := g) as [r [R1 R2]]; auto.
            + intros y Hy. apply Hd. cbn [subdefs]. right. apply in_flat_map. exists kv. split; assumption.
            + exact (nodup_member _ _ _ Hnm E2).
            + pose proof (depth_le_fold (fun kv => snd kv) c kv Hkv) as Hle. cbv beta in Hle.
              rewrite <- Em in Hle. lia.
            + rewrite R1. exists r. split; [reflexivity|]. right. exists v. split; assumption.
          - rewrite (find_members_none _ _ Eh).
            rewrite forallb_forall in Hm2. specialize (Hm2 kv Hkv). rewrite Eh in Hm2. cbn [orb] in Hm2.
            rewrite (nullable_is_option (snd kv) Hnn Hsv Hikv Hm2).
            exists RNone. split; [reflexivity|]. left. split; reflexivity. }
        (* collect the fields *)
        assert (Hall : exists l, mapM (field_fun g items m)
                          (map (fun kv : key * shape => (to_snake (fst kv), shape_repr (snd kv))) c) = Some l /\
                  map fst l = map fst c /\
                  Forall (fun fr => (doc_has_key (fst fr) m = false /\ snd fr = RNone) \/
                                    (exists v, In (fst fr, v) m /\ approx v (reser (snd fr)) = true)) l).
        { clear Hlk Hfs Ec Hne. clear Hnd Hnd' Hm1 Hm2 IH Hd Hi Hk Hs Hstable Em Hm.
          induction c as [|kv r IHc].
          - exists []. repeat split. constructor.
          - destruct (Hfields kv (or_introl eq_refl)) as [rv [F1 F2]].
            destruct IHc as [l [L1 [L2 L3]]]; [intros kv' Hkv'; apply Hfields; right; exact Hkv'|].
            exists ((fst kv, rv) :: l). split; [|split].
            + cbn [map mapM]. rewrite F1, L1. reflexivity.
            + cbn [map fst]. rewrite L2. reflexivity.
            + constructor; [exact F2|exact L3]. }
        destruct Hall as [l [L1 [L2 L3]]]. rewrite L1.
        exists (RStruct l). split; [reflexivity|].
        cbn [reser]. rewrite approx_obj. apply andb_true_iff. split.
        - (* every member of the source is found again, approx-equal *)
          apply forallb_forall. intros [k v] Hkv. cbn [fst snd].
          rewrite forallb_forall in Hm1. pose proof (Hm1 (k, v) Hkv) as Hx.
          apply existsb_exists in Hx. destruct Hx as [ks [Hks Hmv]]. cbn [fst snd] in Hmv.
          apply andb_true_iff in Hmv. destruct Hmv as [Ek _]. apply key_eqb_eq in Ek.
          (* the field of that name *)
          assert (Hin : In k (map fst l)). { rewrite L2. rewrite Ek. apply in_map. exact Hks. }
          apply in_map_iff in Hin. destruct Hin as [[k1 r1] [Ek1 Hin]]. cbn [fst] in Ek1. subst k1.
          rewrite Forall_forall in L3. pose proof (L3 (k, r1) Hin) as Hr. cbn [fst snd] in Hr.
          assert (Hm' : find_members k (map (fun fv => (fst fv, reser (snd fv))) l) = [reser r1]).
          { apply find_members_unique.
            - rewrite map_map. cbn [fst]. change (map (fun x : text * rval => fst x) l) with (map fst l).
              rewrite L2. exact Hnd'.
            - apply in_map_iff. exists (k, r1). split; [reflexivity|exact Hin]. }
          rewrite Hm'.
          destruct Hr as [[Hno _]|[v' [Hv' Ha]]].
          + rewrite (doc_has_key_in k v m Hkv) in Hno. discriminate Hno.
          + (* v' = v: member names are not repeated in the source *)
            destruct (find_members_some k m (doc_has_key_in k v m Hkv) Hnm) as [v0 [F1 _]].
            assert (Hone : forall w, In (k, w) m -> w = v0).
            { clear - F1 Hnm. intros w Hw. revert F1 Hw Hnm. induction m as [|[k2 v2] r IHm]; intros F1 Hw Hnm; [contradiction|].
              rewrite nodup_obj_cons in Hnm. apply andb_true_iff in Hnm. destruct Hnm as [Hnm Hr].
              apply andb_true_iff in Hnm. destruct Hnm as [Hk2 _]. apply negb_true_iff in Hk2.
              cbn [find_members] in F1. destruct (text_eqb k k2) eqn:E.
              - apply text_eqb_eq in E. subst k2. rewrite (find_members_none k r Hk2) in F1.
                inversion F1; subst. destruct Hw as [Hw|Hw]; [inversion Hw; reflexivity|].
                rewrite (doc_has_key_in k w r Hw) in Hk2. discriminate Hk2.
              - destruct Hw as [Hw|Hw]; [inversion Hw; subst; rewrite text_eqb_refl in E; discriminate E|].
                exact (IHm F1 Hw Hr). }
            rewrite (Hone v Hkv). rewrite <- (Hone v' Hv'). exact Ha.
        - (* every field absent from the source is an explicit null *)
          apply forallb_forall. intros [k w] Hkw. apply in_map_iff in Hkw.
          destruct Hkw as [[k1 r1] [E Hin]]. cbn [fst snd] in E. inversion E; subst k1 w. cbn [fst snd].
          rewrite Forall_forall in L3. destruct (L3 (k, r1) Hin) as [[_ Hr]|[v' [Hv' _]]]; cbn [fst snd] in *.
          + rewrite Hr. cbn [reser j_is_null]. apply orb_true_r.
          + rewrite (doc_has_key_in k v' m Hv'). reflexivity. }
      cbn [shape_repr].
      change (struct_name o (map (fun kv => shape_name (snd kv)) c)) with (shape_name (SObject c o)).
      destruct o; cbn [opt_wrap].
      + destruct d; try discriminate Hm.
        * rewrite deser_option_null. exists RNone. split; reflexivity.
        * rewrite (deser_option_some _ _ _ (JObj m) eq_refl).
          destruct (Hbody f m Hf' Hn Hm) as [v [E1 E2]]. rewrite E1.
          exists (RSome v). split; [reflexivity|exact E2].
      + destruct d; try discriminate Hm. apply Hbody; auto; lia.
    - discriminate Hs.
    - (* Tuple *)
      cbn [inner_dec] in Hi. apply andb_true_iff in Hi. destruct Hi as [Hlen Hi].
      cbn [inner_ok] in Hk. apply andb_true_iff in Hk. destruct Hk as [_ Hk].
      cbn [serde_ok] in Hs. cbn [depth] in Hf.
      remember (fold_right (fun v n => Nat.max (depth v) n) 0 es) as mx eqn:Em.
      destruct (fuel_mono_le mx mx fuel (le_n _) Hf) as [f [-> Hf']].
      assert (Hels : Forall (fun e => forall g d, 2 * mx <= g -> nodup_keys d = true -> mem d e = true ->
                        good_res d (deser g items (shape_repr e) d)) es).
      { rewrite Forall_forall in IH |- *. intros e He g d0 Hg Hn0 Hm0.
        rewrite forallb_forall in Hi, Hk, Hs. apply (IH e He); auto.
        - intros y Hy. apply Hd. cbn [subdefs]. apply in_flat_map. exists e. split; assumption.
        - pose proof (depth_le_fold (fun v => v) es e He) as Hle. cbv beta in Hle. rewrite <- Em in Hle. lia. }
      assert (Hbody : forall g l, 2 * mx <= g -> nodup_keys (JArr l) = true ->
                mem (JArr l) (STuple es o) = true ->
                good_res (JArr l) (deser (S g) items (TTuple (map shape_repr es)) (JArr l))).
      { intros g l Hg Hnl Hml. rewrite mem_tuple in Hml.
        assert (Hz : exists vs, zipM (deser g items) (map shape_repr es) l = Some vs /\
                                forall2b approx l (map reser vs) = true).
        { clear Hlen Hi Hk Hs Hd IH Em Hf Hf' Hm Hn. revert l Hnl Hml.
          induction Hels as [|e r He Hr IHr]; intros [|x l] Hnl Hml; try discriminate Hml.
          - exists []. split; reflexivity.
          - cbn [forall2b] in Hml. apply andb_true_iff in Hml. destruct Hml as [Hx Hl].
            cbn [nodup_keys forallb] in Hnl. apply andb_true_iff in Hnl. destruct Hnl as [Hnx Hnl'].
            destruct (He g x Hg Hnx Hx) as [v [E1 E2]].
            destruct (IHr l Hnl' Hl) as [vs [E3 E4]].
            exists (v :: vs). split.
            + cbn [map zipM]. rewrite E1, E3. reflexivity.
            + cbn [map forall2b]. rewrite E2, E4. reflexivity. }
        destruct Hz as [vs [E1 E2]].
        destruct es as [|a [|b r]]; try (simpl in Hlen; discriminate Hlen).
        cbn [map] in E1 |- *. rewrite deser_tuple2. rewrite E1.
        exists (RSeq vs). split; [reflexivity|]. cbn [reser]. rewrite approx_arr. exact E2. }
      cbn [shape_repr]. destruct o; cbn [opt_wrap].
      + destruct d; try discriminate Hm.
        * rewrite deser_option_null. exists RNone. split; reflexivity.
        * rewrite (deser_option_some _ _ _ (JArr l) eq_refl).
          destruct (Hbody f l Hf' Hn Hm) as [v [E1 E2]]. rewrite E1.
          exists (RSome v). split; [reflexivity|exact E2].
      + destruct d; try discriminate Hm. apply Hbody; auto; lia.
  Qed.
End Items.

(* ---------- the root ---------- *)
Lemma vec_body items x g l :
  (forall e, nodup_keys e = true -> mem e x = true -> good_res e (deser g items (shape_repr x) e)) ->
  nodup_keys (JArr l) = true -> forallb (fun e => mem e x) l = true ->
  good_res (JArr l) (deser (S g) items (ty_vec (shape_repr x)) (JArr l)).
Proof.
  intros HF Hnl Hml. rewrite deser_vec.
  destruct (vec_step (deser g items (shape_repr x)) (fun e => nodup_keys e = true /\ mem e x = true) l)
    as [vs [E1 E2]].
  - intros e [He1 He2]. apply HF; auto.
  - apply Forall_forall. intros e He. cbn [nodup_keys] in Hnl.
    rewrite forallb_forall in Hnl, Hml. split; auto.
  - rewrite E1. exists (RSeq vs). split; [reflexivity|].
    cbn [reser]. rewrite approx_arr. exact E2.
Qed.

Theorem deser_sources : forall s d, c15_class s = true -> nodup_keys d = true -> mem d s = true ->
  forall fuel, 2 * depth s + 2 <= fuel ->
  exists v, deser_root fuel (first_pass s) d = Some v /\ approx d (reser v) = true.
Proof.
  intros s d Hc Hn Hm fuel Hf. unfold c15_class in Hc.
  apply andb_true_iff in Hc. destruct Hc as [Hc Hserde].
  apply andb_true_iff in Hc. destruct Hc as [Hgood Hdec].
  unfold good_names in Hgood. apply andb_true_iff in Hgood. destruct Hgood as [_ Hrok].
  unfold decodable in Hdec. apply andb_true_iff in Hdec. destruct Hdec as [Hinj Hroot].
  destruct s as [|o|o|o|x o|c o|vs o|es o].
  - destruct d; try discriminate Hm. destruct fuel as [|[|f]]; try (simpl in Hf; lia).
    exists RUnit. split; reflexivity.
  - destruct fuel as [|[|[|f]]]; try (simpl in Hf; lia).
    destruct o, d; try discriminate Hm; eexists; split; reflexivity.
  - destruct fuel as [|[|[|f]]]; try (simpl in Hf; lia).
    destruct o, d; try discriminate Hm; eexists; split; reflexivity.
  - destruct fuel as [|[|[|f]]]; try (simpl in Hf; lia).
    destruct o, d; try discriminate Hm; eexists; split; reflexivity.
  - (* Array root *)
    cbn [root_dec] in Hroot. cbn [root_ok] in Hrok. cbn [serde_ok] in Hserde. cbn [depth] in Hf.
    destruct fuel as [|[|[|f]]]; try lia.
    cbn [first_pass deser_root item_name]. unfold create_array. cbn [item_name]. rewrite create_subtype_map.
    pose proof (fun target y Hy => defs_found_behind_alias (SArray x o) (shape_name (SArray x o)) target
                                     eq_refl Hinj eq_refl y Hy) as Hfound0.
    cbn [root_subdefs] in Hfound0.
    rewrite (deser_alias _ _ _ (shape_name (SArray x o)) (opt_wrap o (ty_vec (shape_repr x))) _
               (array_name_not_scalar x o) (lookup_head _ _ _)).
    specialize (Hfound0 (opt_wrap o (ty_vec (shape_repr x)))).
    remember (Alias (shape_name (SArray x o)) (opt_wrap o (ty_vec (shape_repr x))) :: map item_of (subdefs x))
      as items eqn:Eitems. clear Eitems.
    assert (Hel : forall g e, 2 * depth x <= g -> nodup_keys e = true -> mem e x = true ->
                   good_res e (deser g items (shape_repr x) e)).
    { intros g e Hg He1 He2. apply deser_repr; auto. }
    destruct o; cbn [opt_wrap].
    + destruct d; try discriminate Hm.
      * rewrite deser_option_null. exists RNone. split; reflexivity.
      * rewrite (deser_option_some _ _ _ (JArr l) eq_refl). cbn [mem] in Hm.
        destruct (vec_body items x f l) as [v [E1 E2]]; auto.
        { intros e He1 He2. apply Hel; auto. lia. }
        rewrite E1. exists (RSome v). split; [reflexivity|exact E2].
    + destruct d; try discriminate Hm. cbn [mem] in Hm.
      apply vec_body; auto. intros e He1 He2. apply Hel; auto. lia.
  - (* Object root *)
    cbn [root_dec] in Hroot. apply andb_true_iff in Hroot. destruct Hroot as [Ho Hroot].
    apply negb_true_iff in Ho. subst o. cbn [root_ok] in Hrok.
    change (first_pass (SObject c false)) with (create_subtype (SObject c false)).
    rewrite create_subtype_map.
    destruct (names_inj_spec _ Hinj) as [H1 _].
    change (root_defs (SObject c false)) with (subdefs (SObject c false)) in H1.
    set (items := map item_of (subdefs (SObject c false))).
    assert (Hfound : defs_found items (SObject c false)).
    { intros y Hy. unfold items. apply lookup_defs; auto. apply subdefs_named. }
    change (deser_root fuel items d) with (deser fuel items (shape_repr (SObject c false)) d).
    apply deser_repr; auto. lia.
  - discriminate Hserde.
  - (* Tuple root *)
    cbn [root_dec] in Hroot. cbn [root_ok] in Hrok.
    destruct fuel as [|fuel]; try lia.
    cbn [first_pass deser_root item_name]. unfold create_tuple. cbn [item_name].
    change (flat_map create_subtype es) with (create_subtype (STuple es o)).
    rewrite create_subtype_map.
    set (n := shape_name (STuple es o)).
    set (ty0 := opt_wrap o (TTuple (map shape_repr es))).
    assert (Hfound : defs_found (Alias n ty0 :: map item_of (subdefs (STuple es o))) (STuple es o)).
    { intros y Hy.
      exact (defs_found_behind_alias (STuple es o) n _ eq_refl Hinj eq_refl y Hy). }
    rewrite (deser_alias _ _ _ n ty0 _ (crc_name_not_scalar _ _ _ (or_intror (or_intror eq_refl))) (lookup_head _ _ _)).
    change ty0 with (shape_repr (STuple es o)).
    apply deser_repr; auto. lia.
Qed.
