(* GenDecode.v — reading the generated items back gives the (erased) shape (C14).
   The proofs never evaluate [opt_array_head]: they hold for the code as it is
   ("Optional", SWITCH(F13)) and for the repaired spelling ("Option") alike. *)
From Coq Require Import String.
From Coq Require Import List Bool NArith Lia PeanoNat.
Import ListNotations.
From JS Require Import Model.Base Model.Shape Model.Sem Model.Gen Proofs.BaseFacts Proofs.ShapeFacts.

Local Opaque opt_array_head.

(* ---------- generic list facts ---------- *)
Lemma map_flat_map {A B C} (f : B -> C) (g : A -> list B) l :
  map f (flat_map g l) = flat_map (fun x => map f (g x)) l.
Proof. induction l as [|x r IH]; simpl; [reflexivity|]. rewrite map_app, IH. reflexivity. Qed.

Lemma flat_map_ext_Forall {A B} (f g : A -> list B) l :
  Forall (fun x => f x = g x) l -> flat_map f l = flat_map g l.
Proof. induction 1 as [|x r Hx Hr IH]; simpl; [reflexivity|]. rewrite Hx, IH. reflexivity. Qed.

Lemma mapM_map_some {A B} (f : A -> option B) (g : A -> B) l :
  Forall (fun x => f x = Some (g x)) l -> mapM f l = Some (map g l).
Proof. induction 1 as [|x r Hx Hr IH]; simpl; [reflexivity|]. rewrite Hx, IH. reflexivity. Qed.

Lemma text_eqb_eq a b : text_eqb a b = true <-> a = b.
Proof. apply key_eqb_eq. Qed.
Lemma text_eqb_refl a : text_eqb a a = true.
Proof. apply key_eqb_refl. Qed.

(* ---------- create_subtype emits one definition per element of subdefs ---------- *)
Definition item_of (x : shape) : item :=
  match x with
  | SObject c _ => create_object (shape_name x) c
  | SOneOf vs _ => create_enum (shape_name x) vs
  | _ => Alias [] ty_unit
  end.

Lemma create_subtype_map : forall s, create_subtype s = map item_of (subdefs s).
Proof.
  induction s as [|o|o|o|x o IH|c o IH|vs o IH|es o IH] using shape_ind'; try reflexivity.
  - exact IH.
  - cbn [create_subtype subdefs map item_of]. f_equal. rewrite map_flat_map.
    apply flat_map_ext_Forall. exact IH.
  - cbn [create_subtype subdefs map item_of]. f_equal. rewrite map_flat_map.
    apply flat_map_ext_Forall. exact IH.
  - cbn [create_subtype subdefs]. rewrite map_flat_map. apply flat_map_ext_Forall. exact IH.
Qed.

Lemma subdefs_named : forall s y, In y (subdefs s) -> named y = true.
Proof.
  induction s as [|o|o|o|x o IH|c o IH|vs o IH|es o IH] using shape_ind'; intros y Hy;
    try (simpl in Hy; contradiction).
  - exact (IH y Hy).
  - cbn [subdefs] in Hy. destruct Hy as [<-|Hy]; [reflexivity|].
    apply in_flat_map in Hy. destruct Hy as [kv [Hkv Hy]].
    rewrite Forall_forall in IH. exact (IH kv Hkv y Hy).
  - cbn [subdefs] in Hy. destruct Hy as [<-|Hy]; [reflexivity|].
    apply in_flat_map in Hy. destruct Hy as [v [Hv Hy]].
    rewrite Forall_forall in IH. exact (IH v Hv y Hy).
  - cbn [subdefs] in Hy. apply in_flat_map in Hy. destruct Hy as [v [Hv Hy]].
    rewrite Forall_forall in IH. exact (IH v Hv y Hy).
Qed.

Lemma item_name_of x : named x = true -> item_name (item_of x) = shape_name x.
Proof. destruct x; simpl; intro H; try discriminate H; reflexivity. Qed.

(* ---------- lookup among definitions with injective names ---------- *)
Lemma lookup_defs ds :
  (forall y, In y ds -> named y = true) ->
  forall x, In x ds ->
  (forall y, In y ds -> shape_name y = shape_name x -> y = x) ->
  lookup (shape_name x) (map item_of ds) = Some (item_of x).
Proof.
  induction ds as [|d r IH]; intros Hn x Hx Hinj; [contradiction|].
  simpl. rewrite (item_name_of d (Hn d (or_introl eq_refl))).
  destruct (text_eqb (shape_name x) (shape_name d)) eqn:E.
  - apply text_eqb_eq in E. rewrite (Hinj d (or_introl eq_refl) (eq_sym E)). reflexivity.
  - destruct Hx as [->|Hx]; [rewrite text_eqb_refl in E; discriminate E|].
    apply IH; auto. intros y Hy. apply Hn. right. exact Hy.
    intros y Hy. apply Hinj. right. exact Hy.
Qed.

(* ---------- unfolding lemmas for decode_ty ---------- *)
Definition scalar_name (n : text) : bool :=
  text_eqb n (lit "f64") || text_eqb n (lit "String") || text_eqb n (lit "bool").

Lemma decode_option f items a :
  decode_ty (S f) items (ty_option a) =
  match decode_ty f items a with Some v => Some (as_optional v) | None => None end.
Proof. reflexivity. Qed.

Lemma decode_vec f items a :
  decode_ty (S f) items (ty_vec a) =
  match decode_ty f items a with Some v => Some (SArray v false) | None => None end.
Proof. reflexivity. Qed.

Lemma decode_opt_array f items a : opt_array_decodes = true ->
  decode_ty (S f) items (TPath opt_array_head [a]) =
  match decode_ty f items a with Some v => Some (as_optional v) | None => None end.
Proof. unfold opt_array_decodes. intro H. cbn [decode_ty]. rewrite H. reflexivity. Qed.

Lemma decode_named f items n : scalar_name n = false ->
  decode_ty (S f) items (TPath n []) =
  match lookup n items with
  | Some (Alias _ y) => decode_ty f items y
  | Some (Struct _ fs) =>
      match mapM (fun m => match decode_ty f items (snd m) with
                           | Some v => Some (fst m, v) | None => None end) fs with
      | Some l => Some (SObject l false)
      | None => None
      end
  | Some (Enum _ vs) =>
      match mapM (fun m => decode_ty f items (snd m)) vs with
      | Some l => Some (SOneOf l false)
      | None => None
      end
  | None => None
  end.
Proof.
  unfold scalar_name. intro H. apply orb_false_iff in H. destruct H as [H H3].
  apply orb_false_iff in H. destruct H as [H1 H2].
  cbn [decode_ty]. rewrite H1, H2, H3. reflexivity.
Qed.

Lemma decode_tuple2 f items a b r :
  decode_ty (S f) items (TTuple (a :: b :: r)) =
  match mapM (decode_ty f items) (a :: b :: r) with Some l => Some (STuple l false) | None => None end.
Proof. reflexivity. Qed.

(* generated names are never f64 / String / bool *)
Lemma crc_name_not_scalar p o parts :
  p = lit "Struct" \/ p = lit "Enum" \/ p = lit "Tuple" -> scalar_name (crc_name p o parts) = false.
Proof. intros [-> | [-> | ->]]; destruct o; reflexivity. Qed.

Lemma array_name_not_scalar x o : scalar_name (shape_name (SArray x o)) = false.
Proof. destruct o; reflexivity. Qed.

(* ---------- depth ---------- *)
Lemma depth_le_fold {A} (g : A -> shape) (l : list A) a :
  In a l -> depth (g a) <= fold_right (fun v n => Nat.max (depth (g v)) n) 0 l.
Proof.
  induction l as [|b r IH]; intro H; [contradiction|]. simpl. destruct H as [->|H]; [lia|].
  specialize (IH H). lia.
Qed.

Lemma fuel_mono_le a b f : a <= b -> 2 * S b <= f -> exists f', f = S (S f') /\ 2 * a <= f'.
Proof. intros. destruct f as [|[|f']]; try lia. exists f'. split; [reflexivity|lia]. Qed.

(* ---------- the type expression of a shape decodes to the erased shape ---------- *)
Section Items.
  Variable items : list item.

  Definition defs_found (x : shape) : Prop :=
    forall y, In y (subdefs x) -> lookup (shape_name y) items = Some (item_of y).

  Lemma decode_repr : forall x, defs_found x -> inner_dec x = true ->
    forall fuel, 2 * depth x <= fuel -> decode_ty fuel items (shape_repr x) = Some (erase x).
  Proof.
    induction x as [|o|o|o|x o IH|c o IH|vs o IH|es o IH] using shape_ind';
      intros Hd Hi fuel Hf.
    - destruct fuel as [|f]; [simpl in Hf; lia|]. reflexivity.
    - destruct fuel as [|[|f]]; try (simpl in Hf; lia). destruct o; reflexivity.
    - destruct fuel as [|[|f]]; try (simpl in Hf; lia). destruct o; reflexivity.
    - destruct fuel as [|[|f]]; try (simpl in Hf; lia). destruct o; reflexivity.
    - (* Array *)
      cbn [inner_dec] in Hi. apply andb_true_iff in Hi. destruct Hi as [Ho Hi].
      cbn [depth] in Hf. destruct (fuel_mono_le (depth x) (depth x) fuel (le_n _) Hf) as [f [-> Hf']].
      assert (Hx : forall g, 2 * depth x <= g -> decode_ty g items (shape_repr x) = Some (erase x)).
      { intros g Hg. apply IH; auto. }
      cbn [shape_repr erase]. destruct o.
      + simpl in Ho. rewrite (decode_opt_array _ _ _ Ho). rewrite decode_vec.
        rewrite (Hx f Hf'). reflexivity.
      + rewrite decode_vec. rewrite (Hx (S f)); [reflexivity|lia].
    - (* Object *)
      cbn [inner_dec] in Hi. cbn [depth] in Hf.
      remember (fold_right (fun kv n => Nat.max (depth (snd kv)) n) 0 c) as m eqn:Em.
      destruct (fuel_mono_le m m fuel (le_n _) Hf) as [f [-> Hf']].
      assert (Hfields : Forall (fun kv => forall g, 2 * m <= g ->
                 decode_ty g items (shape_repr (snd kv)) = Some (erase (snd kv))) c).
      { rewrite Forall_forall in IH |- *. intros kv Hkv g Hg.
        rewrite forallb_forall in Hi. apply (IH kv Hkv).
        - intros y Hy. apply Hd. cbn [subdefs]. right. apply in_flat_map. exists kv. split; assumption.
        - apply Hi. exact Hkv.
        - pose proof (depth_le_fold (fun kv => snd kv) c kv Hkv) as Hle. cbv beta in Hle. rewrite <- Em in Hle. lia. }
      assert (Hlk : lookup (shape_name (SObject c o)) items = Some (item_of (SObject c o))).
      { apply Hd. cbn [subdefs]. left. reflexivity. }
      assert (Hbody : forall g, 2 * m <= g ->
                decode_ty (S g) items (TPath (shape_name (SObject c o)) []) =
                Some (SObject (map (fun kv => (to_snake (fst kv), erase (snd kv))) c) false)).
      { intros g Hg. rewrite decode_named; [|apply crc_name_not_scalar; auto].
        rewrite Hlk. cbn [item_of create_object].
        assert (E : mapM (fun m0 : text * ty => match decode_ty g items (snd m0) with
                                                 | Some v => Some (fst m0, v) | None => None end)
                      (map (fun kv : key * shape => (to_snake (fst kv), shape_repr (snd kv))) c)
                    = Some (map (fun kv => (to_snake (fst kv), erase (snd kv))) c)).
        { clear - Hfields Hg. induction Hfields as [|kv r Hkv Hr IHr]; [reflexivity|].
          cbn [map mapM snd fst]. rewrite (Hkv g Hg). rewrite IHr. reflexivity. }
        unfold key, text in *. rewrite E. reflexivity. }
      cbn [shape_repr erase]. fold (shape_name (SObject c o)).
      change (struct_name o (map (fun kv => shape_name (snd kv)) c)) with (shape_name (SObject c o)).
      destruct o; cbn [opt_wrap].
      + rewrite decode_option. rewrite (Hbody f Hf'). reflexivity.
      + rewrite (Hbody (S f)); [reflexivity|lia].
    - (* OneOf *)
      cbn [inner_dec] in Hi. cbn [depth] in Hf.
      remember (fold_right (fun v n => Nat.max (depth v) n) 0 vs) as m eqn:Em.
      destruct (fuel_mono_le m m fuel (le_n _) Hf) as [f [-> Hf']].
      assert (Hvars : Forall (fun v => forall g, 2 * m <= g ->
                 decode_ty g items (shape_repr v) = Some (erase v)) vs).
      { rewrite Forall_forall in IH |- *. intros v Hv g Hg.
        rewrite forallb_forall in Hi. apply (IH v Hv).
        - intros y Hy. apply Hd. cbn [subdefs]. right. apply in_flat_map. exists v. split; assumption.
        - apply Hi. exact Hv.
        - pose proof (depth_le_fold (fun v => v) vs v Hv) as Hle. cbv beta in Hle. rewrite <- Em in Hle. lia. }
      assert (Hlk : lookup (shape_name (SOneOf vs o)) items = Some (item_of (SOneOf vs o))).
      { apply Hd. cbn [subdefs]. left. reflexivity. }
      assert (Hbody : forall g, 2 * m <= g ->
                decode_ty (S g) items (TPath (shape_name (SOneOf vs o)) []) =
                Some (SOneOf (map erase vs) false)).
      { intros g Hg. rewrite decode_named; [|apply crc_name_not_scalar; auto].
        rewrite Hlk. cbn [item_of create_enum].
        assert (E : mapM (fun m0 : text * ty => decode_ty g items (snd m0))
                      (map (fun v : shape => (shape_name v, shape_repr v)) vs)
                    = Some (map erase vs)).
        { clear - Hvars Hg. induction Hvars as [|v r Hv Hr IHr]; [reflexivity|].
          cbn [map mapM snd fst]. rewrite (Hv g Hg). rewrite IHr. reflexivity. }
        rewrite E. reflexivity. }
      cbn [shape_repr erase].
      change (enum_name o (map shape_name vs)) with (shape_name (SOneOf vs o)).
      destruct o; cbn [opt_wrap].
      + rewrite decode_option. rewrite (Hbody f Hf'). reflexivity.
      + rewrite (Hbody (S f)); [reflexivity|lia].
    - (* Tuple *)
      cbn [inner_dec] in Hi. apply andb_true_iff in Hi. destruct Hi as [Hlen Hi].
      cbn [depth] in Hf.
      remember (fold_right (fun v n => Nat.max (depth v) n) 0 es) as m eqn:Em.
      destruct (fuel_mono_le m m fuel (le_n _) Hf) as [f [-> Hf']].
      assert (Hels : Forall (fun v => forall g, 2 * m <= g ->
                 decode_ty g items (shape_repr v) = Some (erase v)) es).
      { rewrite Forall_forall in IH |- *. intros v Hv g Hg.
        rewrite forallb_forall in Hi. apply (IH v Hv).
        - intros y Hy. apply Hd. cbn [subdefs]. apply in_flat_map. exists v. split; assumption.
        - apply Hi. exact Hv.
        - pose proof (depth_le_fold (fun v => v) es v Hv) as Hle. cbv beta in Hle. rewrite <- Em in Hle. lia. }
      assert (Hbody : forall g, 2 * m <= g ->
                decode_ty (S g) items (TTuple (map shape_repr es)) = Some (STuple (map erase es) false)).
      { intros g Hg.
        assert (E : mapM (decode_ty g items) (map shape_repr es) = Some (map erase es)).
        { clear - Hels Hg. induction Hels as [|v r Hv Hr IHr]; [reflexivity|].
          cbn [map mapM]. rewrite (Hv g Hg). rewrite IHr. reflexivity. }
        destruct es as [|a [|b r]]; try (simpl in Hlen; discriminate Hlen).
        cbn [map] in E |- *. rewrite decode_tuple2. rewrite E. reflexivity. }
      cbn [shape_repr erase]. destruct o; cbn [opt_wrap].
      + rewrite decode_option. rewrite (Hbody f Hf'). reflexivity.
      + rewrite (Hbody (S f)); [reflexivity|lia].
  Qed.
End Items.

(* ---------- the root ---------- *)
Lemma names_inj_spec s : names_inj s = true ->
  (forall x y, In x (root_defs s) -> In y (root_defs s) -> shape_name y = shape_name x -> y = x) /\
  (named s = false -> forall x, In x (root_defs s) -> text_eqb (shape_name x) (root_item_name s) = false).
Proof.
  unfold names_inj. intro H. apply andb_true_iff in H. destruct H as [H1 H2]. split.
  - intros x y Hx Hy E. rewrite forallb_forall in H1. specialize (H1 y Hy).
    rewrite forallb_forall in H1. specialize (H1 x Hx). rewrite E, text_eqb_refl in H1. simpl in H1.
    unfold shape_eqb in H1. apply is_eq_true in H1. apply cmp_eq in H1. exact H1.
  - intros Hn x Hx. rewrite Hn in H2. simpl in H2. apply negb_true_iff in H2.
    destruct (text_eqb (shape_name x) (root_item_name s)) eqn:E; [|reflexivity].
    assert (existsb (fun x0 => text_eqb (shape_name x0) (root_item_name s)) (root_defs s) = true).
    { apply existsb_exists. exists x. split; assumption. }
    congruence.
Qed.

Lemma root_subdefs_named s y : In y (root_subdefs s) -> named y = true.
Proof.
  destruct s; simpl; intro H; try contradiction.
  - exact (subdefs_named _ _ H).
  - apply in_flat_map in H. destruct H as [kv [_ H]]. exact (subdefs_named _ _ H).
  - apply in_flat_map in H. destruct H as [v [_ H]]. exact (subdefs_named _ _ H).
  - apply in_flat_map in H. destruct H as [v [_ H]]. exact (subdefs_named _ _ H).
Qed.

(* definitions are found behind a root alias whose name no definition shares *)
Lemma defs_found_behind_alias s n target :
  named s = false -> names_inj s = true -> n = root_item_name s ->
  forall y, In y (root_subdefs s) ->
  lookup (shape_name y) (Alias n target :: map item_of (root_subdefs s)) = Some (item_of y).
Proof.
  intros Hn Hinj -> y Hy. destruct (names_inj_spec s Hinj) as [H1 H2].
  unfold root_defs in H1, H2. rewrite Hn in H1, H2.
  cbn [lookup item_name]. rewrite (H2 eq_refl y Hy).
  apply lookup_defs; auto.
  intros z Hz. exact (root_subdefs_named s z Hz).
Qed.

Lemma lookup_head n target rest : lookup n (Alias n target :: rest) = Some (Alias n target).
Proof. cbn [lookup item_name]. rewrite text_eqb_refl. reflexivity. Qed.

Theorem decode_gen : forall s, decodable s = true ->
  forall fuel, 2 * depth s + 2 <= fuel -> decode fuel (first_pass s) = Some (erase s).
Proof.
  intros s Hdec fuel Hf. unfold decodable in Hdec. apply andb_true_iff in Hdec.
  destruct Hdec as [Hinj Hroot].
  destruct s as [|o|o|o|x o|c o|vs o|es o].
  - destruct fuel as [|[|f]]; try (simpl in Hf; lia). reflexivity.
  - destruct fuel as [|[|[|f]]]; try (simpl in Hf; lia). destruct o; reflexivity.
  - destruct fuel as [|[|[|f]]]; try (simpl in Hf; lia). destruct o; reflexivity.
  - destruct fuel as [|[|[|f]]]; try (simpl in Hf; lia). destruct o; reflexivity.
  - (* Array root: create_array spells Option correctly *)
    cbn [root_dec] in Hroot. cbn [depth] in Hf.
    destruct fuel as [|[|[|f]]]; try lia.
    cbn [first_pass decode item_name]. unfold create_array. cbn [item_name]. rewrite create_subtype_map.
    set (n := shape_name (SArray x o)).
    set (ty0 := opt_wrap o (ty_vec (shape_repr x))).
    assert (Hfound : defs_found (Alias n ty0 :: map item_of (subdefs x)) x).
    { intros y Hy.
      exact (defs_found_behind_alias (SArray x o) n _ eq_refl Hinj eq_refl y Hy). }
    rewrite decode_named; [|apply array_name_not_scalar].
    rewrite lookup_head. unfold ty0 at 2.
    destruct o; cbn [opt_wrap erase].
    + rewrite decode_option, decode_vec.
      rewrite (decode_repr _ x Hfound Hroot f); [reflexivity|lia].
    + rewrite decode_vec.
      rewrite (decode_repr _ x Hfound Hroot (S f)); [reflexivity|lia].
  - (* Object root *)
    cbn [root_dec] in Hroot. apply andb_true_iff in Hroot. destruct Hroot as [Ho Hroot].
    apply negb_true_iff in Ho. subst o.
    change (first_pass (SObject c false)) with (create_subtype (SObject c false)).
    rewrite create_subtype_map.
    destruct (names_inj_spec _ Hinj) as [H1 _].
    change (root_defs (SObject c false)) with (subdefs (SObject c false)) in H1.
    set (items := map item_of (subdefs (SObject c false))).
    assert (Hfound : defs_found items (SObject c false)).
    { intros y Hy. unfold items. apply lookup_defs; auto. apply subdefs_named. }
    change (decode fuel items) with (decode_ty fuel items (shape_repr (SObject c false))).
    apply decode_repr; auto. lia.
  - (* OneOf root *)
    cbn [root_dec] in Hroot. apply andb_true_iff in Hroot. destruct Hroot as [Ho Hroot].
    apply negb_true_iff in Ho. subst o.
    change (first_pass (SOneOf vs false)) with (create_subtype (SOneOf vs false)).
    rewrite create_subtype_map.
    destruct (names_inj_spec _ Hinj) as [H1 _].
    change (root_defs (SOneOf vs false)) with (subdefs (SOneOf vs false)) in H1.
    set (items := map item_of (subdefs (SOneOf vs false))).
    assert (Hfound : defs_found items (SOneOf vs false)).
    { intros y Hy. unfold items. apply lookup_defs; auto. apply subdefs_named. }
    change (decode fuel items) with (decode_ty fuel items (shape_repr (SOneOf vs false))).
    apply decode_repr; auto. lia.
  - (* Tuple root *)
    cbn [root_dec] in Hroot.
    destruct fuel as [|fuel]; try lia.
    cbn [first_pass decode item_name]. unfold create_tuple. cbn [item_name].
    change (flat_map create_subtype es) with (create_subtype (STuple es o)).
    rewrite create_subtype_map.
    set (n := shape_name (STuple es o)).
    set (ty0 := opt_wrap o (TTuple (map shape_repr es))).
    assert (Hfound : defs_found (Alias n ty0 :: map item_of (subdefs (STuple es o))) (STuple es o)).
    { intros y Hy.
      exact (defs_found_behind_alias (STuple es o) n _ eq_refl Hinj eq_refl y Hy). }
    rewrite decode_named; [|apply crc_name_not_scalar; auto].
    rewrite lookup_head.
    change ty0 with (shape_repr (STuple es o)) at 2.
    apply decode_repr; auto. lia.
Qed.

(* ---------- refutations (closed by computation) ---------- *)
(* root flag dropped: {"a":1} + null *)
Definition c14_root_flag : shape := SObject [([97%N], SNumber false)] true.
(* 1-tuple: (f64) is f64 *)
Definition c14_one_tuple : shape := STuple [SNumber false] false.
(* nested optional array: Optional<Vec<f64>> does not name a type *)
Definition c14_opt_array : shape := SObject [([118%N], SArray (SNumber false) true)] false.
(* two different sub-objects with one name: the second member decodes as the first *)
Definition c14_collision : shape :=
  SObject [([120%N], SObject [([97%N], SNumber false)] false);
           ([121%N], SObject [([98%N], SNumber false)] false)] false.

(* the fixture of json_shape_build/src/test (object.json), used as the non-vacuity example *)
Definition gen_fixture : shape :=
  SObject [(lit "array", SArray (SNumber false) false);
           (lit "array of maps", SArray (SObject [(lit "a", SString false); (lit "b", SBool true);
                                                  (lit "c", SNumber true)] false) false);
           (lit "map", SObject [(lit "a", SString false); (lit "c", SNumber false)] false);
           (lit "nil", SNull);
           (lit "tuple", STuple [SNumber false; SString false; SBool false] true)] false.
