(* MergerSound.v — C01 core: merger a b admits every document of a and every document of b. *)
From Coq Require Import List Bool NArith Lia.
Import ListNotations.
From JS Require Import Model.Base Model.Shape Model.Sem Model.Subset Model.Merger
  Proofs.BaseFacts Proofs.ShapeFacts Proofs.SemFacts Proofs.SubsetFacts Proofs.SubsetSound
  Proofs.MergerFacts.

Lemma mem_split d x : mem d x = true ->
  mem d (as_non_optional x) = true \/ (d = JNull /\ is_optional x = true).
Proof.
  intro H. destruct d; try (left; apply mem_non_optional; [discriminate|exact H]).
  apply mem_null_cases in H. destruct H; auto.
Qed.

Lemma absorb d x vs c : mem d x = true -> (is_optional x = true -> c = true) ->
  exists v, In v (sset_insert (as_non_optional x) (null_if c vs)) /\ mem d v = true.
Proof.
  intros H Hc. apply mem_split in H. destruct H as [H|[-> H]].
  - exists (as_non_optional x). split; [|exact H]. apply sset_insert_In. left. reflexivity.
  - exists SNull. split; [|reflexivity]. apply sset_insert_In. right. apply null_if_In. left. auto.
Qed.

Lemma into_oneof_ub_l d x vs oo : mem d x = true -> mem d (into_oneof x (is_optional x) vs oo) = true.
Proof.
  intro H. destruct (absorb d x vs (is_optional x) H (fun E => E)) as [v [Hin Hv]].
  unfold into_oneof. eapply mem_oneof_intro; eassumption.
Qed.

Lemma into_oneof_ub_r d x o vs oo : mem d (SOneOf vs oo) = true -> mem d (into_oneof x o vs oo) = true.
Proof.
  intro H. unfold into_oneof. apply mem_oneof_elim in H. destruct H as [[v [Hin Hv]]|[-> Ho]].
  - eapply mem_oneof_intro; [|exact Hv]. apply sset_insert_In. right. apply null_if_In. right. exact Hin.
  - rewrite mem_oneof. simpl. rewrite Ho. apply orb_true_r.
Qed.

Lemma kind_pair_ub_l d x y nul : mem d x = true -> (is_optional x = true -> nul = true) ->
  mem d (kind_pair (as_non_optional x) y nul) = true.
Proof.
  intros H Hc. unfold kind_pair. apply mem_split in H. destruct H as [H|[-> H]].
  - eapply mem_oneof_intro; [|exact H]. apply kind_pair_In. left. reflexivity.
  - eapply mem_oneof_intro with (v := SNull); [|reflexivity]. apply kind_pair_In. right. right. auto.
Qed.

Lemma kind_pair_ub_r d x y nul : mem d y = true -> (is_optional y = true -> nul = true) ->
  mem d (kind_pair x (as_non_optional y) nul) = true.
Proof.
  intros H Hc. unfold kind_pair. apply mem_split in H. destruct H as [H|[-> H]].
  - eapply mem_oneof_intro; [|exact H]. apply kind_pair_In. right. left. reflexivity.
  - eapply mem_oneof_intro with (v := SNull); [|reflexivity]. apply kind_pair_In. right. right. auto.
Qed.

Lemma orb_intro_l (a b : bool) : a = true -> a || b = true.
Proof. intros ->. reflexivity. Qed.
Lemma orb_intro_r (a b : bool) : b = true -> a || b = true.
Proof. intros ->. apply orb_true_r. Qed.

(* elements of an array document against the variant set built from a tuple and an element type *)
Lemma tuple_array_elem_t t es x : mem x t = true -> mem x (SOneOf (tuple_array_set t es) false) = true.
Proof.
  intro H. destruct t as [| | | | | |vs o|];
    try (apply mem_split in H; destruct H as [H|[-> H]];
         [eapply mem_oneof_intro; [|exact H]; apply tuple_array_set_In; left; reflexivity
         |eapply mem_oneof_intro with (v := SNull); [|reflexivity]; apply tuple_array_set_In; right; right;
          split; [apply orb_intro_r; exact H|reflexivity]]).
  apply mem_oneof_elim in H. destruct H as [[v [Hin Hv]]|[-> Ho]].
  - eapply mem_oneof_intro; [|exact Hv]. apply tuple_array_set_In. left. exact Hin.
  - eapply mem_oneof_intro with (v := SNull); [|reflexivity]. apply tuple_array_set_In. right. right.
    split; [apply orb_intro_r; exact Ho|reflexivity].
Qed.

Lemma tuple_array_elem_e t es e x : In e es -> mem x e = true ->
  mem x (SOneOf (tuple_array_set t es) false) = true.
Proof.
  intros Hin H. apply mem_split in H. destruct H as [H|[-> H]].
  - eapply mem_oneof_intro; [|exact H]. apply tuple_array_set_In. right. left. exists e. auto.
  - eapply mem_oneof_intro with (v := SNull); [|reflexivity]. apply tuple_array_set_In. right. right.
    split; [|reflexivity]. apply orb_intro_l. apply existsb_exists. exists e. auto.
Qed.

Lemma tuples_set_elem es os e x : In e es \/ In e os -> mem x e = true ->
  mem x (SOneOf (tuples_set es os) false) = true.
Proof.
  intros Hin H. apply mem_split in H. destruct H as [H|[-> H]].
  - eapply mem_oneof_intro; [|exact H]. apply tuples_set_In.
    destruct Hin; [left|right; left]; exists e; auto.
  - eapply mem_oneof_intro with (v := SNull); [|reflexivity]. apply tuples_set_In. right. right.
    split; [|reflexivity]. destruct Hin; [apply orb_intro_l|apply orb_intro_r]; apply existsb_exists; exists e; auto.
Qed.

Lemma forall2b_all_in {A B} (f : A -> B -> bool) (P : B -> Prop) es : forall l,
  forall2b f es l = true -> (forall e x, In e es -> f e x = true -> P x) -> Forall P l.
Proof.
  induction es as [|e r IH]; intros [|x l] H Hp; simpl in H; try discriminate; [constructor|].
  apply andb_true_iff in H. destruct H as [H1 H2]. constructor.
  - apply (Hp e x); [left; reflexivity|exact H1].
  - apply IH; [exact H2|]. intros e' x' Hin. apply Hp. right. exact Hin.
Qed.

Lemma tuple_doc_in_array l es (ty : shape) :
  forall2b (fun e x => mem x e) es l = true ->
  (forall e x, In e es -> mem x e = true -> mem x ty = true) ->
  forallb (fun x => mem x ty) l = true.
Proof.
  intros H Hp. apply forallb_forall. apply Forall_forall.
  eapply forall2b_all_in; [exact H|]. exact Hp.
Qed.

(* Tuple + Tuple that folds *)
Lemma fold_tuple_ub es : forall os folded l, fold_tuple es os = Some folded ->
  Forall (fun e => wf e = true) es -> Forall (fun e => wf e = true) os ->
  (forall2b (fun e x => mem x e) es l = true -> forall2b (fun e x => mem x e) folded l = true) /\
  (forall2b (fun e x => mem x e) os l = true -> forall2b (fun e x => mem x e) folded l = true).
Proof.
  induction es as [|e r IH]; intros [|x os] folded l H Hes Hos; simpl in H; try discriminate.
  - inversion H. subst. split; auto.
  - destruct (fold_pair e x) as [v|] eqn:E; [|discriminate].
    destruct (fold_tuple r os) as [rr|] eqn:E2; [|discriminate]. inversion H. subst folded. clear H.
    inversion Hes as [|? ? Hwe Hwr]; inversion Hos as [|? ? Hwx Hwos]; subst.
    assert (Hv : forall d, (mem d e = true -> mem d v = true) /\ (mem d x = true -> mem d v = true)).
    { intro d. apply fold_pair_cases in E. destruct E as [[E ->]|[[E ->]|[[-> ->]|[-> ->]]]].
      - split; [apply is_subset_sound; assumption|auto].
      - split; [auto|apply is_subset_sound; assumption].
      - split; [apply mem_as_optional|]. intro Hd. apply mem_null_only in Hd. subst. apply mem_as_optional_null.
      - split; [|apply mem_as_optional]. intro Hd. apply mem_null_only in Hd. subst. apply mem_as_optional_null. }
    destruct l as [|y l]; simpl; [split; discriminate|].
    destruct (IH os rr l E2 Hwr Hwos) as [IH1 IH2].
    split; intro Hm; apply andb_true_iff in Hm; destruct Hm as [Hm1 Hm2]; apply andb_true_iff; split.
    + exact (proj1 (Hv y) Hm1).
    + exact (IH1 Hm2).
    + exact (proj2 (Hv y) Hm1).
    + exact (IH2 Hm2).
Qed.

Definition ub (a b : shape) : Prop :=
  (forall d, mem d a = true -> mem d (merger a b) = true) /\
  (forall d, mem d b = true -> mem d (merger a b) = true).

Lemma ub_scalar a b : is_scalar a = true -> ub a b.
Proof.
  intro Hs. unfold ub. rewrite merger_scalar by exact Hs.
  destruct b as [|o'|o'|o'|t' o'|c' o'|ws oo|os o'].
  - split; intros d H; [apply mem_as_optional; exact H|apply mem_null_only in H; subst; apply mem_as_optional_null].
  - destruct (N.eqb (tag a) (tag (SBool o'))) eqn:E.
    + apply N.eqb_eq in E. destruct a; try discriminate. simpl. split; intros d H; destruct d; simpl in *; auto; subst; auto using orb_true_r.
    + split; intros d H; [apply kind_pair_ub_l|apply kind_pair_ub_r]; auto using orb_intro_l, orb_intro_r.
  - destruct (N.eqb (tag a) (tag (SNumber o'))) eqn:E.
    + apply N.eqb_eq in E. destruct a; try discriminate. simpl. split; intros d H; destruct d; simpl in *; auto; subst; auto using orb_true_r.
    + split; intros d H; [apply kind_pair_ub_l|apply kind_pair_ub_r]; auto using orb_intro_l, orb_intro_r.
  - destruct (N.eqb (tag a) (tag (SString o'))) eqn:E.
    + apply N.eqb_eq in E. destruct a; try discriminate. simpl. split; intros d H; destruct d; simpl in *; auto; subst; auto using orb_true_r.
    + split; intros d H; [apply kind_pair_ub_l|apply kind_pair_ub_r]; auto using orb_intro_l, orb_intro_r.
  - destruct (N.eqb (tag a) (tag (SArray t' o'))) eqn:E; [destruct a; discriminate|].
    split; intros d H; [apply kind_pair_ub_l|apply kind_pair_ub_r]; auto using orb_intro_l, orb_intro_r.
  - destruct (N.eqb (tag a) (tag (SObject c' o'))) eqn:E; [destruct a; discriminate|].
    split; intros d H; [apply kind_pair_ub_l|apply kind_pair_ub_r]; auto using orb_intro_l, orb_intro_r.
  - split; intros d H; [apply into_oneof_ub_l|apply into_oneof_ub_r]; exact H.
  - destruct (N.eqb (tag a) (tag (STuple os o'))) eqn:E; [destruct a; discriminate|].
    split; intros d H; [apply kind_pair_ub_l|apply kind_pair_ub_r]; auto using orb_intro_l, orb_intro_r.
Qed.

Lemma ub_kind_pair a b :
  merger a b = kind_pair (as_non_optional a) (as_non_optional b) (is_optional a || is_optional b) -> ub a b.
Proof.
  intro E. unfold ub. rewrite E.
  split; intros d H; [apply kind_pair_ub_l|apply kind_pair_ub_r]; auto using orb_intro_l, orb_intro_r.
Qed.

Lemma ub_into_oneof a vs oo : merger a (SOneOf vs oo) = into_oneof a (is_optional a) vs oo -> ub a (SOneOf vs oo).
Proof.
  intro E. unfold ub. rewrite E. split; intros d H; [apply into_oneof_ub_l|apply into_oneof_ub_r]; exact H.
Qed.

Lemma mem_flag_arr (mk : bool -> shape) (o f : bool) d :
  (forall g, mk g = set_flag g (mk o)) -> (o = true -> f = true) -> mem d (mk o) = true -> mem d (mk f) = true.
Proof. intros Hmk Hf H. rewrite (Hmk f). eapply mem_flag_mono; [exact Hf|]. rewrite <- Hmk. exact H. Qed.

(* the object/object arm *)
Lemma ub_object c o c' o' :
  keys_sorted c = true -> keys_sorted c' = true ->
  Forall (fun kv => forall b, wf b = true -> ub (snd kv) b) c ->
  Forall (fun kv => wf (snd kv) = true) c' ->
  ub (SObject c o) (SObject c' o').
Proof.
  intros Hs Hs' IH Hw'. unfold ub. rewrite merger_object_object.
  set (mg := obj_merge_go merger c c' []).
  assert (Hget : forall k, map_get k mg =
            match map_get k c with
            | Some v => match map_get k c' with Some ov => Some (merger v ov) | None => Some (as_optional v) end
            | None => match map_get k c' with Some ov => Some (as_optional ov) | None => None end
            end).
  { intro k. unfold mg. rewrite obj_merge_go_get by assumption. reflexivity. }
  assert (Hsm : keys_sorted mg = true) by (apply obj_merge_go_sorted; reflexivity).
  rewrite Forall_forall in IH, Hw'.
  split; intros d H; (destruct d; simpl in H; try discriminate;
                      [simpl; auto using orb_intro_l, orb_intro_r|]).
  - rewrite mem_object in *. apply andb_true_iff in H. destruct H as [H1 H2].
    rewrite forallb_forall in H1, H2. apply andb_true_iff. split; apply forallb_forall.
    + intros [k v] Hin. specialize (H1 _ Hin). unfold member_ok in *. simpl in *.
      apply existsb_exists in H1. destruct H1 as [[k2 s] [Hin2 E]]. simpl in E.
      apply andb_true_iff in E. destruct E as [E1 E2]. apply key_eqb_eq in E1. subst k2.
      pose proof (sorted_get_In _ _ _ Hs Hin2) as G. specialize (Hget k). rewrite G in Hget.
      destruct (map_get k c') as [ov|] eqn:G'.
      * apply existsb_exists. exists (k, merger s ov). split; [apply map_get_In; exact Hget|]. simpl.
        rewrite key_eqb_refl. simpl.
        apply (proj1 (IH _ Hin2 ov (Hw' (k, ov) (map_get_In _ _ _ G')))). exact E2.
      * apply existsb_exists. exists (k, as_optional s). split; [apply map_get_In; exact Hget|]. simpl.
        rewrite key_eqb_refl. simpl. apply mem_as_optional. exact E2.
    + intros [k sm] Hin. unfold key_ok. simpl.
      pose proof (sorted_get_In _ _ _ Hsm Hin) as G. rewrite Hget in G.
      destruct (map_get k c) as [v|] eqn:Gc.
      * apply map_get_In in Gc. specialize (H2 _ Gc). unfold key_ok in H2. simpl in H2.
        apply orb_true_iff in H2. destruct H2 as [H2|H2]; [rewrite H2; reflexivity|].
        apply orb_intro_r. unfold nullable in *.
        destruct (map_get k c') as [ov|] eqn:G'; inversion G; subst sm.
        -- apply (proj1 (IH _ Gc ov (Hw' (k, ov) (map_get_In _ _ _ G')))). exact H2.
        -- apply mem_as_optional_null.
      * destruct (map_get k c') as [ov|]; inversion G. apply orb_intro_r. apply mem_as_optional_null.
  - rewrite mem_object in *. apply andb_true_iff in H. destruct H as [H1 H2].
    rewrite forallb_forall in H1, H2. apply andb_true_iff. split; apply forallb_forall.
    + intros [k v] Hin. specialize (H1 _ Hin). unfold member_ok in *. simpl in *.
      apply existsb_exists in H1. destruct H1 as [[k2 s'] [Hin2 E]]. simpl in E.
      apply andb_true_iff in E. destruct E as [E1 E2]. apply key_eqb_eq in E1. subst k2.
      pose proof (sorted_get_In _ _ _ Hs' Hin2) as G'. specialize (Hget k). rewrite G' in Hget.
      destruct (map_get k c) as [s|] eqn:G.
      * apply existsb_exists. exists (k, merger s s'). split; [apply map_get_In; exact Hget|]. simpl.
        rewrite key_eqb_refl. simpl. apply map_get_In in G.
        apply (proj2 (IH _ G s' (Hw' _ Hin2))). exact E2.
      * apply existsb_exists. exists (k, as_optional s'). split; [apply map_get_In; exact Hget|]. simpl.
        rewrite key_eqb_refl. simpl. apply mem_as_optional. exact E2.
    + intros [k sm] Hin. unfold key_ok. simpl.
      pose proof (sorted_get_In _ _ _ Hsm Hin) as G. rewrite Hget in G.
      destruct (map_get k c') as [ov|] eqn:G'.
      * pose proof (map_get_In _ _ _ G') as Hin'. specialize (H2 _ Hin'). unfold key_ok in H2. simpl in H2.
        apply orb_true_iff in H2. destruct H2 as [H2|H2]; [rewrite H2; reflexivity|].
        apply orb_intro_r. unfold nullable in *.
        destruct (map_get k c) as [v|] eqn:Gc; inversion G; subst sm.
        -- apply map_get_In in Gc. apply (proj2 (IH _ Gc ov (Hw' _ Hin'))). exact H2.
        -- apply mem_as_optional_null.
      * destruct (map_get k c) as [v|]; inversion G. apply orb_intro_r. apply mem_as_optional_null.
Qed.

Theorem merger_ub : forall a b, wf a = true -> wf b = true -> ub a b.
Proof.
  induction a as [|o|o|o|t o IH|c o IH|vs o IH|es o IH] using shape_ind'; intros b Ha Hb.
  - (* Null *)
    unfold ub. simpl. split; intros d H.
    + apply mem_null_only in H. subst. apply mem_as_optional_null.
    + apply mem_as_optional. exact H.
  - apply ub_scalar. reflexivity.
  - apply ub_scalar. reflexivity.
  - apply ub_scalar. reflexivity.
  - (* Array *)
    destruct b as [|o'|o'|o'|t' o'|c' o'|ws oo|os o']; try (apply ub_kind_pair; reflexivity).
    + unfold ub. simpl. split; intros d H.
      * destruct d; simpl in *; auto; discriminate.
      * apply mem_null_only in H. subst. reflexivity.
    + simpl in Ha, Hb. destruct (IH t' Ha Hb) as [IH1 IH2]. unfold ub. simpl.
      split; intros d H; destruct d; simpl in *; try discriminate; auto using orb_intro_l, orb_intro_r.
      * rewrite forallb_forall in *. auto.
      * rewrite forallb_forall in *. auto.
    + apply ub_into_oneof. reflexivity.
    + unfold ub. cbn [merger]. split; intros d H; destruct d; simpl in H; try discriminate.
      * simpl. auto using orb_intro_l.
      * rewrite mem_array_arr. rewrite forallb_forall in *. intros x Hx. apply tuple_array_elem_t. auto.
      * simpl. auto using orb_intro_r.
      * rewrite mem_tuple_fix in H. rewrite mem_array_arr.
        eapply tuple_doc_in_array; [exact H|]. intros e x. apply tuple_array_elem_e.
  - (* Object *)
    destruct b as [|o'|o'|o'|t' o'|c' o'|ws oo|os o']; try (apply ub_kind_pair; reflexivity).
    + unfold ub. simpl. split; intros d H.
      * destruct d; simpl in *; auto; discriminate.
      * apply mem_null_only in H. subst. reflexivity.
    + apply wf_object in Ha. apply wf_object in Hb. destruct Ha as [Hs Hw], Hb as [Hs' Hw'].
      apply ub_object; try assumption.
      rewrite Forall_forall in *. intros kv Hin b' Hb'. apply IH; auto.
    + apply ub_into_oneof. reflexivity.
  - (* OneOf *)
    assert (Hgen : forall b, b <> SNull -> is_oneof b = false ->
                   merger (SOneOf vs o) b = SOneOf (sset_insert (as_non_optional b) (null_if (is_optional b) vs)) o ->
                   ub (SOneOf vs o) b).
    { intros b0 _ _ E. unfold ub. rewrite E. split; intros d H.
      - apply mem_oneof_elim in H. destruct H as [[v [Hin Hv]]|[-> Ho]].
        + eapply mem_oneof_intro; [|exact Hv]. apply sset_insert_In. right. apply null_if_In. right. exact Hin.
        + rewrite mem_oneof. simpl. rewrite Ho. apply orb_true_r.
      - destruct (absorb d b0 vs (is_optional b0) H (fun E0 => E0)) as [v [Hin Hv]].
        eapply mem_oneof_intro; eassumption. }
    destruct b as [|o'|o'|o'|t' o'|c' o'|ws o'|os o']; try (apply Hgen; [discriminate|reflexivity|reflexivity]).
    + unfold ub. cbn [merger]. split; intros d H.
      * rewrite mem_oneof in *. apply orb_true_iff in H. destruct H as [H|H]; [rewrite H; reflexivity|].
        apply andb_true_iff in H. destruct H as [H _]. rewrite H. apply orb_true_r.
      * apply mem_null_only in H. subst. rewrite mem_oneof. apply orb_true_r.
    + unfold ub. cbn [merger]. split; intros d H; apply mem_oneof_elim in H; destruct H as [[v [Hin Hv]]|[-> Ho]].
      * eapply mem_oneof_intro; [|exact Hv]. apply sset_union_In. left. exact Hin.
      * rewrite mem_oneof. simpl. rewrite Ho. apply orb_true_r.
      * eapply mem_oneof_intro; [|exact Hv]. apply sset_union_In. right. exact Hin.
      * rewrite mem_oneof. simpl. rewrite Ho. rewrite orb_true_r. apply orb_true_r.
  - (* Tuple *)
    destruct b as [|o'|o'|o'|t' o'|c' o'|ws oo|os o']; try (apply ub_kind_pair; reflexivity).
    + unfold ub. cbn [merger]. split; intros d H.
      * destruct d; simpl in *; auto; discriminate.
      * apply mem_null_only in H. subst. reflexivity.
    + unfold ub. cbn [merger]. split; intros d H; destruct d; simpl in H; try discriminate.
      * simpl. auto using orb_intro_r.
      * rewrite mem_tuple_fix in H. rewrite mem_array_arr.
        eapply tuple_doc_in_array; [exact H|]. intros e x. apply tuple_array_elem_e.
      * simpl. auto using orb_intro_l.
      * rewrite mem_array_arr. rewrite forallb_forall in *. intros x Hx. apply tuple_array_elem_t. auto.
    + apply ub_into_oneof. reflexivity.
    + unfold ub. cbn [merger]. apply wf_tuple in Ha. apply wf_tuple in Hb.
      destruct (fold_tuple es os) as [folded|] eqn:E.
      * split; intros d H; destruct d; simpl in H; try discriminate;
          try (simpl; auto using orb_intro_l, orb_intro_r; fail);
          rewrite mem_tuple_fix in H; rewrite mem_tuple;
          destruct (fold_tuple_ub es os folded l E Ha Hb) as [F1 F2]; auto.
      * split; intros d H; destruct d; simpl in H; try discriminate;
          try (simpl; auto using orb_intro_l, orb_intro_r; fail);
          rewrite mem_tuple_fix in H; rewrite mem_array_arr;
          (eapply tuple_doc_in_array; [exact H|]); intros e x Hin; apply tuples_set_elem; auto.
Qed.

Corollary merger_ub_l a b d : wf a = true -> wf b = true -> mem d a = true -> mem d (merger a b) = true.
Proof. intros Ha Hb. apply (merger_ub a b Ha Hb). Qed.

Corollary merger_ub_r a b d : wf a = true -> wf b = true -> mem d b = true -> mem d (merger a b) = true.
Proof. intros Ha Hb. apply (merger_ub a b Ha Hb). Qed.
