(* ShapeFacts.v — induction principle for the nested shape type, the derived order is a
   total order whose Eq is structural equality, and facts about the flag helpers. *)
From Coq Require Import List Bool NArith Lia.
Import ListNotations.
From JS Require Import Model.Base Model.Shape Proofs.BaseFacts.

Section ShapeInd.
  Variable P : shape -> Prop.
  Hypothesis HNull : P SNull.
  Hypothesis HBool : forall o, P (SBool o).
  Hypothesis HNumber : forall o, P (SNumber o).
  Hypothesis HString : forall o, P (SString o).
  Hypothesis HArray : forall t o, P t -> P (SArray t o).
  Hypothesis HObject : forall c o, Forall (fun kv => P (snd kv)) c -> P (SObject c o).
  Hypothesis HOneOf : forall vs o, Forall P vs -> P (SOneOf vs o).
  Hypothesis HTuple : forall es o, Forall P es -> P (STuple es o).

  Fixpoint shape_ind' (s : shape) : P s :=
    match s with
    | SNull => HNull
    | SBool o => HBool o
    | SNumber o => HNumber o
    | SString o => HString o
    | SArray t o => HArray t o (shape_ind' t)
    | SObject c o =>
        HObject c o
          ((fix go (c : list (key * shape)) : Forall (fun kv => P (snd kv)) c :=
              match c with
              | [] => Forall_nil _
              | kv :: r => Forall_cons kv (shape_ind' (snd kv)) (go r)
              end) c)
    | SOneOf vs o =>
        HOneOf vs o
          ((fix go (l : list shape) : Forall P l :=
              match l with
              | [] => Forall_nil _
              | x :: r => Forall_cons x (shape_ind' x) (go r)
              end) vs)
    | STuple es o =>
        HTuple es o
          ((fix go (l : list shape) : Forall P l :=
              match l with
              | [] => Forall_nil _
              | x :: r => Forall_cons x (shape_ind' x) (go r)
              end) es)
    end.
End ShapeInd.

(* the comparison used on map entries inside cmp *)
Definition cmp_entry (p q : key * shape) : comparison :=
  thenc (cmp_key (fst p) (fst q)) (cmp (snd p) (snd q)).

Lemma cmp_object_unfold c o c' o' :
  cmp (SObject c o) (SObject c' o') = thenc (lex_cmp cmp_entry c c') (cmp_bool o o').
Proof. reflexivity. Qed.

Lemma tag_cmp_eq a b : N.compare (tag a) (tag b) = Eq -> tag a = tag b.
Proof. apply N.compare_eq. Qed.

Ltac tag_discr :=
  match goal with
  | H : N.compare (tag ?a) (tag ?b) = _ |- _ => simpl in H; try discriminate H
  end.

Theorem cmp_eq : forall a b, cmp a b = Eq -> a = b.
Proof.
  induction a as [|o|o|o|t o IH|c o IH|vs o IH|es o IH] using shape_ind';
    intros [|o'|o'|o'|t' o'|c' o'|vs' o'|es' o'] H; simpl in H; try discriminate H;
    try reflexivity.
  - apply cmp_bool_eq in H. congruence.
  - apply cmp_bool_eq in H. congruence.
  - apply cmp_bool_eq in H. congruence.
  - apply thenc_eq in H. destruct H as [H1 H2]. apply IH in H1. apply cmp_bool_eq in H2. congruence.
  - apply thenc_eq in H. destruct H as [H1 H2]. apply cmp_bool_eq in H2. subst.
    f_equal. revert H1. apply lex_cmp_eq.
    eapply Forall_impl; [|exact IH]. intros [k v] Hv [k2 v2] E. simpl in *.
    apply thenc_eq in E. destruct E as [E1 E2]. apply cmp_key_eq in E1. apply Hv in E2. congruence.
  - apply thenc_eq in H. destruct H as [H1 H2]. apply cmp_bool_eq in H2. subst.
    f_equal. revert H1. apply lex_cmp_eq. exact IH.
  - apply thenc_eq in H. destruct H as [H1 H2]. apply cmp_bool_eq in H2. subst.
    f_equal. revert H1. apply lex_cmp_eq. exact IH.
Qed.

Theorem cmp_refl : forall a, cmp a a = Eq.
Proof.
  induction a as [|o|o|o|t o IH|c o IH|vs o IH|es o IH] using shape_ind'; simpl;
    try apply cmp_bool_refl; try reflexivity.
  - rewrite IH. apply cmp_bool_refl.
  - rewrite lex_cmp_refl; [apply cmp_bool_refl|].
    eapply Forall_impl; [|exact IH]. intros [k v] Hv. simpl. rewrite cmp_key_refl. exact Hv.
  - rewrite lex_cmp_refl; [apply cmp_bool_refl|exact IH].
  - rewrite lex_cmp_refl; [apply cmp_bool_refl|exact IH].
Qed.

Theorem cmp_opp : forall a b, cmp b a = CompOpp (cmp a b).
Proof.
  induction a as [|o|o|o|t o IH|c o IH|vs o IH|es o IH] using shape_ind';
    intros [|o'|o'|o'|t' o'|c' o'|vs' o'|es' o']; simpl; try reflexivity;
    try apply cmp_bool_opp.
  - rewrite thenc_opp, IH, cmp_bool_opp. reflexivity.
  - rewrite thenc_opp, <- cmp_bool_opp. f_equal.
    apply lex_cmp_opp. eapply Forall_impl; [|exact IH]. intros [k v] Hv [k2 v2]. simpl in *.
    rewrite thenc_opp, <- cmp_key_opp, <- Hv. reflexivity.
  - rewrite thenc_opp, <- cmp_bool_opp. f_equal. apply lex_cmp_opp. exact IH.
  - rewrite thenc_opp, <- cmp_bool_opp. f_equal. apply lex_cmp_opp. exact IH.
Qed.

Lemma Ncompare_lt_trans a b c : N.compare a b = Lt -> N.compare b c = Lt -> N.compare a c = Lt.
Proof. rewrite !N.compare_lt_iff. lia. Qed.

Theorem cmp_trans : forall a b c, cmp a b = Lt -> cmp b c = Lt -> cmp a c = Lt.
Proof.
  induction a as [|o|o|o|t o IH|ca o IH|vs o IH|es o IH] using shape_ind';
    intros [|o'|o'|o'|t' o'|c' o'|vs' o'|es' o'] [|o''|o''|o''|t'' o''|c'' o''|vs'' o''|es'' o''] H1 H2;
    simpl in H1, H2; try discriminate H1; try discriminate H2; try reflexivity;
    try (eapply cmp_bool_trans; eassumption).
  - simpl. apply thenc_lt in H1. apply thenc_lt in H2. apply thenc_lt.
    destruct H1 as [H1|[H1 H1']], H2 as [H2|[H2 H2']].
    + left. eauto.
    + apply cmp_eq in H2. subst. left. assumption.
    + apply cmp_eq in H1. subst. left. assumption.
    + pose proof (cmp_eq _ _ H1). pose proof (cmp_eq _ _ H2). subst. right. split; [assumption|].
      eapply cmp_bool_trans; eassumption.
  - rewrite cmp_object_unfold in *. apply thenc_lt in H1. apply thenc_lt in H2. apply thenc_lt.
    assert (Heq : forall y z : key * shape, cmp_entry y z = Eq -> y = z).
    { intros [k1 v1] [k2 v2] E. unfold cmp_entry in E. simpl in E.
      apply thenc_eq in E. destruct E as [E1 E2]. apply cmp_key_eq in E1. apply cmp_eq in E2. congruence. }
    assert (Htr : forall l' l'', lex_cmp cmp_entry ca l' = Lt -> lex_cmp cmp_entry l' l'' = Lt ->
                                 lex_cmp cmp_entry ca l'' = Lt).
    { apply lex_cmp_trans; [|exact Heq].
      eapply Forall_impl; [|exact IH]. intros [k v] Hv. split; [apply Heq|].
      intros [k2 v2] [k3 v3] E1 E2. unfold cmp_entry in *. simpl in *.
      apply thenc_lt in E1. apply thenc_lt in E2. apply thenc_lt.
      destruct E1 as [E1|[E1 E1']], E2 as [E2|[E2 E2']].
      - left. eapply cmp_key_trans; eassumption.
      - apply cmp_key_eq in E2. subst. left. assumption.
      - apply cmp_key_eq in E1. subst. left. assumption.
      - pose proof (cmp_key_eq _ _ E1). pose proof (cmp_key_eq _ _ E2). subst. right.
        split; [assumption|]. eauto. }
    destruct H1 as [H1|[H1 H1']], H2 as [H2|[H2 H2']].
    + left. eauto.
    + apply lex_cmp_eq in H2; [|apply Forall_forall; intros; apply Heq; assumption]. subst. left. assumption.
    + apply lex_cmp_eq in H1; [|apply Forall_forall; intros; apply Heq; assumption]. subst. left. assumption.
    + pose proof H1 as H1c. pose proof H2 as H2c.
      apply lex_cmp_eq in H1c; [|apply Forall_forall; intros; apply Heq; assumption].
      apply lex_cmp_eq in H2c; [|apply Forall_forall; intros; apply Heq; assumption]. subst.
      right. split; [assumption|]. eapply cmp_bool_trans; eassumption.
  - simpl. apply thenc_lt in H1. apply thenc_lt in H2. apply thenc_lt.
    assert (Htr : forall l' l'', lex_cmp cmp vs l' = Lt -> lex_cmp cmp l' l'' = Lt -> lex_cmp cmp vs l'' = Lt).
    { apply lex_cmp_trans; [|apply cmp_eq].
      eapply Forall_impl; [|exact IH]. intros x Hx. split; [apply cmp_eq|exact Hx]. }
    destruct H1 as [H1|[H1 H1']], H2 as [H2|[H2 H2']].
    + left. eauto.
    + apply lex_cmp_eq in H2; [|apply Forall_forall; intros; apply cmp_eq; assumption]. subst. left. assumption.
    + apply lex_cmp_eq in H1; [|apply Forall_forall; intros; apply cmp_eq; assumption]. subst. left. assumption.
    + pose proof H1 as H1c. pose proof H2 as H2c.
      apply lex_cmp_eq in H1c; [|apply Forall_forall; intros; apply cmp_eq; assumption].
      apply lex_cmp_eq in H2c; [|apply Forall_forall; intros; apply cmp_eq; assumption]. subst.
      right. split; [assumption|]. eapply cmp_bool_trans; eassumption.
  - simpl. apply thenc_lt in H1. apply thenc_lt in H2. apply thenc_lt.
    assert (Htr : forall l' l'', lex_cmp cmp es l' = Lt -> lex_cmp cmp l' l'' = Lt -> lex_cmp cmp es l'' = Lt).
    { apply lex_cmp_trans; [|apply cmp_eq].
      eapply Forall_impl; [|exact IH]. intros x Hx. split; [apply cmp_eq|exact Hx]. }
    destruct H1 as [H1|[H1 H1']], H2 as [H2|[H2 H2']].
    + left. eauto.
    + apply lex_cmp_eq in H2; [|apply Forall_forall; intros; apply cmp_eq; assumption]. subst. left. assumption.
    + apply lex_cmp_eq in H1; [|apply Forall_forall; intros; apply cmp_eq; assumption]. subst. left. assumption.
    + pose proof H1 as H1c. pose proof H2 as H2c.
      apply lex_cmp_eq in H1c; [|apply Forall_forall; intros; apply cmp_eq; assumption].
      apply lex_cmp_eq in H2c; [|apply Forall_forall; intros; apply cmp_eq; assumption]. subst.
      right. split; [assumption|]. eapply cmp_bool_trans; eassumption.
Qed.

Lemma shape_eqb_eq a b : shape_eqb a b = true <-> a = b.
Proof.
  unfold shape_eqb. rewrite is_eq_true. split; [apply cmp_eq|intros ->; apply cmp_refl].
Qed.

Lemma shape_eqb_refl a : shape_eqb a a = true.
Proof. apply shape_eqb_eq. reflexivity. Qed.

Lemma shape_eq_dec (a b : shape) : {a = b} + {a <> b}.
Proof.
  destruct (shape_eqb a b) eqn:E.
  - left. apply shape_eqb_eq. exact E.
  - right. intro H. apply shape_eqb_eq in H. congruence.
Qed.

(* ---------- sets of shapes ---------- *)
Lemma sset_mem_In x l : sset_mem x l = true <-> In x l.
Proof.
  unfold sset_mem, set_mem. rewrite existsb_exists. split.
  - intros [y [Hy E]]. apply is_eq_true in E. apply cmp_eq in E. subst. exact Hy.
  - intro H. exists x. split; [exact H|]. apply is_eq_true. apply cmp_refl.
Qed.

Lemma sset_insert_In x y l : In y (sset_insert x l) <-> y = x \/ In y l.
Proof.
  unfold sset_insert. induction l as [|z r IH]; simpl.
  - intuition.
  - destruct (cmp x z) eqn:E; simpl.
    + apply cmp_eq in E. subst. intuition.
    + intuition.
    + rewrite IH. intuition.
Qed.

Lemma sset_union_In y l extra : In y (sset_union l extra) <-> In y l \/ In y extra.
Proof.
  unfold sset_union, set_union. revert l. induction extra as [|x r IH]; intro l; simpl.
  - intuition.
  - rewrite IH. fold (sset_insert x l). rewrite sset_insert_In. intuition.
Qed.

(* ---------- flags ---------- *)
Lemma set_flag_idem f g s : set_flag f (set_flag g s) = set_flag f s.
Proof. destruct s; reflexivity. Qed.

Lemma tag_set_flag f s : tag (set_flag f s) = tag s.
Proof. destruct s; reflexivity. Qed.

Lemma is_optional_set_flag f s : s <> SNull -> is_optional (set_flag f s) = f.
Proof. destruct s; simpl; congruence. Qed.

Lemma set_flag_same s : s <> SNull -> set_flag (is_optional s) s = s.
Proof. destruct s; simpl; congruence. Qed.

Lemma set_flag_same' s : set_flag (is_optional s) s = s.
Proof. destruct s; reflexivity. Qed.

Lemma wf_set_flag f s : wf (set_flag f s) = wf s.
Proof. destruct s; reflexivity. Qed.
