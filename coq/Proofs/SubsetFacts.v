(* SubsetFacts.v — unfolding equations for is_subset (the nested fixes as list
   combinators) and the reflexivity / widening / similar laws of C10. *)
From Coq Require Import List Bool NArith Lia.
Import ListNotations.
From JS Require Import Model.Base Model.Shape Model.Subset Proofs.BaseFacts Proofs.ShapeFacts.


Definition obj_members_sub (c c' : list (key * shape)) : bool :=
  forallb (fun kv => match map_get (fst kv) c' with
                     | Some ov => is_subset (snd kv) ov
                     | None => false
                     end) c.

Definition obj_check (c c' : list (key * shape)) : bool :=
  forallb (fun kv => map_has (fst kv) c || is_optional (snd kv)) c' && obj_members_sub c c'.

Definition obj_variant (c : list (key * shape)) (o : bool) (var : shape) : bool :=
  match var with
  | SObject c' o' => implb o o' && obj_check c c'
  | _ => false
  end.

Lemma members_fix_eq c c' :
  (fix go (c0 : list (key * shape)) : bool :=
     match c0 with
     | [] => true
     | (k, v) :: r =>
         match map_get k c' with
         | Some ov => is_subset v ov
         | None => false
         end && go r
     end) c = obj_members_sub c c'.
Proof. induction c as [|[k v] r IH]; simpl; [reflexivity|]. rewrite IH. reflexivity. Qed.

Lemma is_subset_object_object c o c' o' :
  is_subset (SObject c o) (SObject c' o') = implb o o' && obj_check c c'.
Proof. simpl. rewrite members_fix_eq. reflexivity. Qed.

Lemma existsb_ext_eq {A} (f g : A -> bool) l : (forall x, f x = g x) -> existsb f l = existsb g l.
Proof. intro H. induction l as [|x r IH]; simpl; [reflexivity|]. rewrite H, IH. reflexivity. Qed.

Lemma is_subset_object_oneof c o vs oo :
  is_subset (SObject c o) (SOneOf vs oo) = existsb (obj_variant c o) vs.
Proof.
  simpl. apply existsb_ext_eq. intros [| | | | |c' o'| |]; simpl; try reflexivity.
  rewrite members_fix_eq. reflexivity.
Qed.

Lemma tuple_fix_eq es os :
  (fix go (es os : list shape) {struct es} : bool :=
     match es, os with
     | [], [] => true
     | e :: es', x :: os' => is_subset e x && go es' os'
     | _, _ => false
     end) es os = forall2b is_subset es os.
Proof. revert os. induction es as [|e r IH]; intros [|x os]; simpl; try reflexivity. rewrite IH. reflexivity. Qed.

Lemma is_subset_tuple_tuple es o os o' :
  is_subset (STuple es o) (STuple os o') = implb o o' && forall2b is_subset es os.
Proof. simpl. rewrite tuple_fix_eq. reflexivity. Qed.

Lemma oneof_fix_eq vs ws :
  (fix go (vs : list shape) : bool :=
     match vs with
     | [] => true
     | v :: r => existsb (fun w => is_subset v w) ws && go r
     end) vs = forallb (fun v => existsb (fun w => is_subset v w) ws) vs.
Proof. induction vs as [|v r IH]; simpl; [reflexivity|]. rewrite IH. reflexivity. Qed.

Lemma is_subset_oneof_oneof vs o ws o' :
  is_subset (SOneOf vs o) (SOneOf ws o') =
  implb o o' && (sset_subset vs ws || forallb (fun v => existsb (fun w => is_subset v w) ws) vs).
Proof. simpl. rewrite oneof_fix_eq. reflexivity. Qed.

(* ---------- C10 ---------- *)

Lemma sset_subset_refl vs : sset_subset vs vs = true.
Proof.
  unfold sset_subset, set_subset. apply forallb_forall. intros x Hx.
  apply sset_mem_In. exact Hx.
Qed.

Lemma implb_opt (o f : bool) : (o = true -> f = true) -> implb o f = true.
Proof. destruct o, f; simpl; intro H; auto. Qed.

Lemma subset_flag : forall s, wf s = true ->
  forall f, (is_optional s = true -> f = true) -> is_subset s (set_flag f s) = true.
Proof.
  induction s as [|o|o|o|t o IH|c o IH|vs o IH|es o IH] using shape_ind'; intros Hwf f Hf; simpl in Hf.
  - reflexivity.
  - simpl. unfold scalar_subset. destruct o; simpl; [rewrite Hf; reflexivity|reflexivity].
  - simpl. unfold scalar_subset. destruct o; simpl; [rewrite Hf; reflexivity|reflexivity].
  - simpl. unfold scalar_subset. destruct o; simpl; [rewrite Hf; reflexivity|reflexivity].
  - simpl in Hwf. simpl set_flag. cbn [is_subset]. rewrite implb_opt by exact Hf. simpl.
    specialize (IH Hwf (is_optional t) (fun H => H)). rewrite set_flag_same' in IH. exact IH.
  - simpl set_flag. rewrite is_subset_object_object. rewrite implb_opt by exact Hf. simpl.
    simpl in Hwf. apply andb_true_iff in Hwf. destruct Hwf as [Hs Hw].
    unfold obj_check. apply andb_true_iff. split.
    + apply forallb_forall. intros [k v] Hin. simpl. rewrite (map_has_In k v c Hin). reflexivity.
    + unfold obj_members_sub. apply forallb_forall. intros [k v] Hin. simpl.
      rewrite (sorted_get_In k v c Hs Hin).
      rewrite Forall_forall in IH. specialize (IH (k, v) Hin). simpl in IH.
      rewrite forallb_forall in Hw. specialize (Hw (k, v) Hin). simpl in Hw.
      specialize (IH Hw (is_optional v) (fun H => H)). rewrite set_flag_same' in IH. exact IH.
  - simpl set_flag. rewrite is_subset_oneof_oneof. rewrite implb_opt by exact Hf.
    rewrite sset_subset_refl. reflexivity.
  - simpl set_flag. rewrite is_subset_tuple_tuple. rewrite implb_opt by exact Hf. simpl.
    simpl in Hwf. clear Hf. induction es as [|e r IHr]; simpl; [reflexivity|].
    simpl in Hwf. apply andb_true_iff in Hwf. destruct Hwf as [Hw1 Hw2].
    inversion IH as [|? ? He Hr]; subst.
    specialize (He Hw1 (is_optional e) (fun H => H)). rewrite set_flag_same' in He.
    rewrite He. simpl. apply IHr; assumption.
Qed.

Theorem subset_refl s : wf s = true -> is_subset s s = true.
Proof.
  intro H. pose proof (subset_flag s H (is_optional s) (fun E => E)) as P.
  rewrite set_flag_same' in P. exact P.
Qed.

Theorem subset_as_optional s : wf s = true -> is_subset s (as_optional s) = true.
Proof. intro H. apply subset_flag; auto. Qed.

Theorem null_subset_optional s : is_optional s = true -> is_subset SNull s = true.
Proof. intro H. simpl. rewrite H. reflexivity. Qed.

Lemma set_flag_nonopt f s : set_flag f (as_non_optional s) = set_flag f s.
Proof. apply set_flag_idem. Qed.

Theorem similar_spec a b c : similar a b = Some c ->
  as_non_optional c = as_non_optional a /\ as_non_optional c = as_non_optional b /\
  is_optional c = (is_optional a || is_optional b).
Proof.
  unfold similar. destruct (N.eqb (tag a) (tag b) && shape_eqb (as_non_optional a) (as_non_optional b)) eqn:E;
    [|discriminate].
  intro H. inversion H. subst c. clear H.
  apply andb_true_iff in E. destruct E as [_ E]. apply shape_eqb_eq in E.
  unfold as_non_optional in *. rewrite set_flag_idem. split; [reflexivity|]. split; [exact E|].
  destruct a; simpl; reflexivity.
Qed.

Theorem similar_sym a b : similar a b = similar b a.
Proof.
  unfold similar.
  destruct (N.eqb (tag a) (tag b) && shape_eqb (as_non_optional a) (as_non_optional b)) eqn:E.
  - apply andb_true_iff in E. destruct E as [E1 E2]. apply shape_eqb_eq in E2.
    apply N.eqb_eq in E1. rewrite E1, N.eqb_refl. rewrite <- E2, shape_eqb_refl. simpl.
    f_equal. rewrite orb_comm. unfold as_non_optional in E2.
    rewrite <- (set_flag_idem _ false a), E2, set_flag_idem. reflexivity.
  - destruct (N.eqb (tag b) (tag a) && shape_eqb (as_non_optional b) (as_non_optional a)) eqn:E'; [|reflexivity].
    apply andb_true_iff in E'. destruct E' as [E1 E2]. apply shape_eqb_eq in E2.
    apply N.eqb_eq in E1. rewrite E1, N.eqb_refl, E2, shape_eqb_refl in E. discriminate.
Qed.

Theorem similar_subset a b c : wf a = true -> wf b = true -> similar a b = Some c ->
  is_subset a c = true /\ is_subset b c = true.
Proof.
  intros Ha Hb H. pose proof H as H'. rewrite similar_sym in H'.
  unfold similar in H, H'.
  destruct (N.eqb (tag a) (tag b) && shape_eqb (as_non_optional a) (as_non_optional b)); [|discriminate].
  destruct (N.eqb (tag b) (tag a) && shape_eqb (as_non_optional b) (as_non_optional a)); [|discriminate].
  injection H as Hc. injection H' as Hc'. split.
  - rewrite <- Hc. apply subset_flag; [exact Ha|]. intro E. rewrite E. reflexivity.
  - rewrite <- Hc'. apply subset_flag; [exact Hb|]. intro E. rewrite E. reflexivity.
Qed.
