(* InferLaws.v — C17 (defining equations of single-document inference) and C06 (the text path
   and the serde_json value path agree on duplicate-free documents). *)
From Coq Require Import List Bool NArith Lia.
Import ListNotations.
From JS Require Import Model.Base Model.Shape Model.Sem Model.Infer
  Proofs.BaseFacts Proofs.ShapeFacts Proofs.SemFacts Proofs.InferFacts Proofs.InferSound.

(* ---------- objects ---------- *)
Fixpoint doc_get (k : key) (m : list (key * json)) : option json :=
  match m with
  | [] => None
  | (k', v) :: r => if key_eqb k k' then Some v else doc_get k r
  end.

Fixpoint nodup_top (m : list (key * json)) : bool :=
  match m with
  | [] => true
  | (k, _) :: r => negb (doc_has_key k r) && nodup_top r
  end.

Definition ok_shape (r : outcome ierr shape) : option shape :=
  match r with Ok s => Some s | _ => None end.

Lemma doc_get_none k m : doc_has_key k m = false -> doc_get k m = None.
Proof.
  induction m as [|[k1 v1] r IH]; simpl; [reflexivity|]. intro H.
  apply orb_false_iff in H. destruct H as [H1 H2]. rewrite H1. auto.
Qed.

Lemma obj_loop_spec m : nodup_top m = true -> forall acc s,
  (forall k, doc_has_key k m = true -> map_get k acc = None) ->
  keys_sorted acc = true ->
  obj_loop infer_text m acc = Ok s ->
  exists c, s = SObject c false /\ keys_sorted c = true /\
    forall k, map_get k c = match doc_get k m with
                            | Some v => ok_shape (infer_text v)
                            | None => map_get k acc
                            end.
Proof.
  induction m as [|[k v] r IH]; intros Hn acc s Hfresh Hs H; simpl in H.
  - inversion H. exists acc. auto.
  - simpl in Hn. apply andb_true_iff in Hn. destruct Hn as [Hn1 Hn2]. apply negb_true_iff in Hn1.
    destruct (infer_text v) as [sv| |] eqn:E; simpl in H; try discriminate.
    rewrite (Hfresh k) in H by (simpl; rewrite key_eqb_refl; reflexivity).
    destruct (IH Hn2 (map_insert k sv acc) s) as [c [Hc [Hsc Hget]]]; try assumption.
    + intros k0 Hk0. rewrite map_get_insert. destruct (key_eqb k0 k) eqn:Ek.
      * apply key_eqb_eq in Ek. subst. congruence.
      * apply Hfresh. simpl. rewrite Hk0. apply orb_true_r.
    + apply keys_sorted_insert. exact Hs.
    + exists c. split; [exact Hc|]. split; [exact Hsc|]. intro k0. rewrite Hget. simpl.
      destruct (key_eqb k0 k) eqn:Ek.
      * apply key_eqb_eq in Ek. subst k0. rewrite (doc_get_none _ _ Hn1), map_get_insert, key_eqb_refl, E. reflexivity.
      * rewrite map_get_insert, Ek. reflexivity.
Qed.

(* an object gives an Object with exactly the document's member names, each carrying the
   shape of its value *)
Theorem infer_object_law m s : nodup_top m = true -> infer_text (JObj m) = Ok s ->
  exists c, s = SObject c false /\ keys_sorted c = true /\
    forall k, map_get k c = match doc_get k m with
                            | Some v => ok_shape (infer_text v)
                            | None => None
                            end.
Proof.
  intros Hn H. rewrite infer_text_obj in H.
  destruct (obj_loop_spec m Hn [] s) as [c [Hc [Hs Hg]]]; auto.
  exists c. split; [exact Hc|]. split; [exact Hs|]. intro k. rewrite Hg. destruct (doc_get k m); reflexivity.
Qed.

(* ---------- arrays ---------- *)
Theorem infer_array_law l s : infer_text (JArr l) = Ok s ->
  exists es, Forall2 (fun x sx => infer_text x = Ok sx) l es /\ array_text es = Ok s.
Proof.
  rewrite infer_text_arr. destruct (mapM_o infer_text l) as [es| |] eqn:E; simpl; try discriminate.
  intro H. exists es. split; [apply mapM_o_ok; exact E|exact H].
Qed.

Definition all_equal (es : list shape) : Prop := exists e, Forall (fun x => x = e) es.

Lemma all_adjacent_eq_of_all e r : Forall (fun x => x = e) r -> all_adjacent_eq (e :: r) = true.
Proof.
  induction 1 as [|x r Hx Hr IH]; [reflexivity|]. subst x.
  change (shape_eqb e e && all_adjacent_eq (e :: r) = true). rewrite shape_eqb_refl. exact IH.
Qed.

(* a non-empty array of equally shaped values gives an Array of that shape *)
Theorem array_text_equal e r : Forall (fun x => x = e) r -> array_text (e :: r) = Ok (SArray e false).
Proof.
  intro H. unfold array_text. simpl nonempty. rewrite (all_adjacent_eq_of_all e r H).
  rewrite orb_true_r. reflexivity.
Qed.

Lemma not_all_equal_adjacent e r : ~ Forall (fun x => x = e) r -> all_adjacent_eq (e :: r) = false.
Proof.
  intro H. destruct (all_adjacent_eq (e :: r)) eqn:E; [|reflexivity].
  exfalso. apply H. apply all_adjacent_eq_all. exact E.
Qed.

(* an array of differently shaped values (not all objects) gives a Tuple of the element shapes in order *)
Theorem array_text_tuple e e2 r : ~ Forall (fun x => x = e) (e2 :: r) ->
  forallb is_object (e :: e2 :: r) = false ->
  array_text (e :: e2 :: r) = Ok (STuple (e :: e2 :: r) false).
Proof.
  intros Hne Hno. unfold array_text. rewrite (not_all_equal_adjacent _ _ Hne).
  cbn [nonempty len_eq1 len_gt1 orb andb]. rewrite Hno. reflexivity.
Qed.

(* an array of differently shaped objects gives an Array of one Object built by the fold *)
Theorem array_text_objects c o e2 r : ~ Forall (fun x => x = SObject c o) (e2 :: r) ->
  forallb is_object (e2 :: r) = true ->
  array_text (SObject c o :: e2 :: r) = Ok (SArray (SObject (objects_fold c (e2 :: r)) false) false).
Proof.
  intros Hne Ho. unfold array_text. rewrite (not_all_equal_adjacent _ _ Hne).
  cbn [nonempty len_eq1 len_gt1 orb andb]. change (forallb is_object (SObject c o :: e2 :: r)) with (forallb is_object (e2 :: r)).
  rewrite Ho. reflexivity.
Qed.

Theorem array_text_empty : array_text [] = Ok (SArray SNull true).
Proof. reflexivity. Qed.

(* key laws of the fold, for elements that are inferred shapes *)
Definition obj_get (k : key) (e : shape) : option shape :=
  match e with SObject c _ => map_get k c | _ => None end.

Lemma obj_has_get k e : is_object e = true -> obj_has k e = match obj_get k e with Some _ => true | None => false end.
Proof. destruct e; try discriminate. reflexivity. Qed.

Lemma first_value_spec k es : Forall (fun e => is_object e = true) es ->
  (first_value k es = None <-> Forall (fun e => obj_get k e = None) es).
Proof.
  induction 1 as [|e r He Hr IH]; simpl; [split; [constructor|reflexivity]|].
  destruct e as [| | | | |c o| |]; try discriminate. simpl.
  destruct (map_get k c) as [v|] eqn:G.
  - split; [discriminate|]. intro H. inversion H. simpl in *. congruence.
  - rewrite IH. split; [intro H; constructor; [exact G|exact H]|intro H; inversion H; assumption].
Qed.

Section ArrObj.
  Variables (c : list (key * shape)) (o : bool) (rest : list shape).
  Hypothesis Hfirst : infer_ok (SObject c o).
  Hypothesis Hrest : Forall (fun e => infer_ok e /\ is_object e = true) rest.

  Let Hs : keys_sorted c = true.
  Proof. destruct Hfirst as [Hw _]. simpl in Hw. apply andb_true_iff in Hw. tauto. Qed.
  Let Hn : vals_not_oneof c.
  Proof. apply (infer_ok_good_obj _ Hfirst eq_refl). Qed.
  Let Hg : Forall good_obj rest.
  Proof. eapply Forall_impl; [|exact Hrest]. intros e [H1 H2]. apply infer_ok_good_obj; assumption. Qed.
  Let Hobj : Forall (fun e => is_object e = true) rest.
  Proof. eapply Forall_impl; [|exact Hrest]. intros e [_ H]. exact H. Qed.

  (* the Object ranges over the union of the keys *)
  Theorem arrobj_keys k :
    map_get k (objects_fold c rest) = None <-> Forall (fun e => obj_get k e = None) (SObject c o :: rest).
  Proof.
    destruct (objects_fold_get k c rest Hs Hn Hg) as [G _]. rewrite G.
    destruct (map_get k c) as [v|] eqn:Gc.
    - split; [discriminate|]. intro H. inversion H. simpl in *. congruence.
    - split.
      + intro H. constructor; [exact Gc|]. apply first_value_spec; [exact Hobj|].
        destruct (first_value k rest); [discriminate|reflexivity].
      + intro H. inversion H; subst. apply (first_value_spec k rest Hobj) in H3. rewrite H3. reflexivity.
  Qed.

  (* a key present in every element with one value shape carries that shape *)
  Theorem arrobj_everywhere k s :
    Forall (fun e => obj_get k e = Some s) (SObject c o :: rest) ->
    map_get k (objects_fold c rest) = Some s.
  Proof.
    intro H. inversion H as [|? ? H1 H2]; subst. simpl in H1.
    destruct (objects_fold_get k c rest Hs Hn Hg) as [G _]. rewrite G, H1.
    assert (forallb (obj_has k) rest = true).
    { apply forallb_forall. intros e He. rewrite Forall_forall in H2, Hobj.
      rewrite (obj_has_get k e (Hobj e He)), (H2 e He). reflexivity. }
    rewrite H0. reflexivity.
  Qed.

  (* a key present in only some elements (with one value shape) carries its optional form *)
  Theorem arrobj_somewhere k s :
    Forall (fun e => obj_get k e = Some s \/ obj_get k e = None) (SObject c o :: rest) ->
    Exists (fun e => obj_get k e = Some s) (SObject c o :: rest) ->
    Exists (fun e => obj_get k e = None) (SObject c o :: rest) ->
    map_get k (objects_fold c rest) = Some (as_optional s).
  Proof.
    intros Hall Hsome Hnone. inversion Hall as [|? ? H1 H2]; subst. simpl in H1.
    destruct (objects_fold_get k c rest Hs Hn Hg) as [G _]. rewrite G.
    destruct H1 as [H1|H1]; rewrite H1.
    - (* first has it; someone in rest lacks it *)
      assert (forallb (obj_has k) rest = false).
      { inversion Hnone as [? ? Hx|? ? Hx]; subst; [simpl in Hx; congruence|].
        apply Exists_exists in Hx. destruct Hx as [e [He1 He2]].
        destruct (forallb (obj_has k) rest) eqn:F; [|reflexivity].
        rewrite forallb_forall in F. specialize (F e He1). rewrite Forall_forall in Hobj.
        rewrite (obj_has_get k e (Hobj e He1)), He2 in F. discriminate. }
      rewrite H. reflexivity.
    - (* first lacks it; the first element of rest having it carries s *)
      inversion Hsome as [? ? Hx|? ? Hx]; subst; [simpl in Hx; congruence|].
      assert (first_value k rest = Some s).
      { clear -Hx H2. induction rest as [|e r IH]; [inversion Hx|].
        inversion H2 as [|? ? He Hr]; subst. simpl.
        destruct e as [| | | | |ce oe| |]; simpl in He;
          try (inversion Hx as [? ? Hy|? ? Hy]; subst; [simpl in Hy; discriminate|apply IH; assumption]).
        destruct (map_get k ce) as [v|] eqn:Gc.
        - destruct He as [He|He]; congruence.
        - inversion Hx as [? ? Hy|? ? Hy]; subst; [simpl in Hy; congruence|apply IH; assumption]. }
      rewrite H. reflexivity.
  Qed.
End ArrObj.

(* ---------- C06: the two paths agree ---------- *)
Lemma objects_fold_copies c rest : keys_sorted c = true -> vals_not_oneof c ->
  Forall (fun e => e = SObject c false) rest -> objects_fold c rest = c.
Proof.
  intros Hs Hn Hr.
  assert (Hg : Forall good_obj rest).
  { eapply Forall_impl; [|exact Hr]. intros e ->. simpl. auto. }
  destruct (objects_fold_get [] c rest Hs Hn Hg) as [_ [Sf _]].
  apply map_ext; [exact Sf|exact Hs|]. intro k.
  destruct (objects_fold_get k c rest Hs Hn Hg) as [G _]. rewrite G.
  destruct (map_get k c) as [v|] eqn:Gc.
  - assert (forallb (obj_has k) rest = true).
    { apply forallb_forall. intros e He. rewrite Forall_forall in Hr. rewrite (Hr e He). simpl.
      unfold map_has. rewrite Gc. reflexivity. }
    rewrite H. reflexivity.
  - assert (first_value k rest = None).
    { clear -Hr Gc. induction Hr as [|e r He Hr IH]; [reflexivity|]. subst e. simpl. rewrite Gc. exact IH. }
    rewrite H. reflexivity.
Qed.

Lemma array_paths_agree l es : Forall2 (fun x sx => infer_text x = Ok sx) l es ->
  array_text es = array_value es.
Proof.
  intro F2. unfold array_text, array_value.
  destruct (len_gt1 es && forallb is_object es) eqn:E2;
    destruct (nonempty es && (len_eq1 es || all_adjacent_eq es)) eqn:E1; try reflexivity.
  (* both tests hold: all elements are one and the same object shape *)
  apply andb_true_iff in E2. destruct E2 as [E2 E3].
  destruct es as [|e r]; [discriminate|]. simpl in E3. apply andb_true_iff in E3. destruct E3 as [Eo _].
  destruct e as [| | | | |c o| |]; try discriminate.
  assert (Hall : Forall (fun x => x = SObject c o) r).
  { destruct r as [|e2 r2]; [discriminate|]. simpl in E1. apply all_adjacent_eq_all. exact E1. }
  inversion F2 as [|x ? lx ? Hx Hrest]; subst.
  destruct (infer_text_object_shape _ _ _ Hx) as [-> _].
  pose proof (infer_text_ok _ _ Hx) as Hok.
  pose proof (infer_ok_good_obj _ Hok eq_refl) as [Hs Hn].
  simpl. rewrite (objects_fold_copies c r Hs Hn Hall). reflexivity.
Qed.

Theorem paths_agree : forall d, nodup_keys d = true -> infer_text d = infer_value d.
Proof.
  induction d as [| | | |l IH|m IH] using json_ind'; intro Hn; try reflexivity.
  - rewrite infer_text_arr, infer_value_arr. simpl in Hn.
    assert (E : mapM_o infer_text l = mapM_o infer_value l).
    { clear -IH Hn. rewrite forallb_forall in Hn. induction IH as [|x r Hx Hr IHr]; [reflexivity|]. simpl.
      rewrite <- (Hx (Hn x (or_introl eq_refl))). rewrite <- IHr by (intros y Hy; apply Hn; right; exact Hy).
      reflexivity. }
    rewrite <- E. destruct (mapM_o infer_text l) as [es| |] eqn:Em; simpl; try reflexivity.
    apply (array_paths_agree l es). apply mapM_o_ok. exact Em.
  - rewrite infer_text_obj, infer_value_obj.
    assert (G : forall m2 acc, Forall (fun kv => nodup_keys (snd kv) = true -> infer_text (snd kv) = infer_value (snd kv)) m2 ->
               (fix go (m : list (key * json)) : bool :=
                  match m with
                  | [] => true
                  | (k, v) :: r => negb (doc_has_key k r) && nodup_keys v && go r
                  end) m2 = true ->
               (forall k, doc_has_key k m2 = true -> map_get k acc = None) ->
               obj_loop infer_text m2 acc = val_loop infer_value m2 acc).
    { clear. induction m2 as [|[k v] r IHm]; intros acc IH Hn Hfresh; simpl; [reflexivity|].
      inversion IH as [|? ? Hv Hr]; subst. simpl in Hv.
      apply andb_true_iff in Hn. destruct Hn as [Hn Hn3]. apply andb_true_iff in Hn. destruct Hn as [Hn1 Hn2].
      rewrite <- (Hv Hn2). destruct (infer_text v) as [sv| |]; simpl; try reflexivity.
      rewrite (Hfresh k) by (simpl; rewrite key_eqb_refl; reflexivity).
      apply IHm; [exact Hr|exact Hn3|].
      intros k0 Hk0. rewrite map_get_insert. destruct (key_eqb k0 k) eqn:Ek.
      - apply key_eqb_eq in Ek. subst. apply negb_true_iff in Hn1. congruence.
      - apply Hfresh. simpl. rewrite Hk0. apply orb_true_r. }
    apply G; [exact IH|exact Hn|reflexivity].
Qed.
