(* TextLexSpec.v — C04 stage 2, soundness direction: every token the lexer model emits is a
   lexeme of RFC 8259 of the corresponding kind (number, literal name, whitespace,
   structural character; a String token for which check_string reports nothing is an RFC
   string). *)
From Coq Require Import List Bool NArith Lia.
Import ListNotations.
From JS Require Import Model.Base Model.Lexer Model.JsonRef Proofs.TextFacts Proofs.TextLexer.
Local Open Scope N_scope.

Lemma split_while_forall p : forall cs w r, split_while p cs = (w, r) -> Forall (fun c => p c = true) w.
Proof.
  induction cs as [|c cs IH]; intros w r H; cbn [split_while] in H; [inversion H; constructor|].
  destruct (p c) eqn:E; [|inversion H; constructor].
  destruct (split_while p cs) as [w' r'] eqn:E2. inversion H; subst. constructor; [exact E|]. eapply IH. reflexivity.
Qed.

Lemma digits1_of_is_dec_digit d : d <> [] -> Forall (fun c => is_dec_digit c = true) d -> digits1 d.
Proof.
  induction d as [|c d IH]; intros Hne Hf; [contradiction|]. inversion Hf; subst.
  destruct d as [|c' d']; [constructor; assumption|]. apply digits1_cons; [assumption|]. apply IH; [discriminate|assumption].
Qed.

Lemma is_digit19_spec c : is_digit19 c = true -> rdigit c = true /\ c <> 48.
Proof.
  unfold is_digit19, rdigit. intros H. apply andb_true_iff in H. destruct H as [H1 H2].
  apply N.leb_le in H1. split; [|lia]. apply andb_true_iff. split; [apply N.leb_le; lia|exact H2].
Qed.

Lemma scan_int_sound cs w r : scan_int cs = Some (w, r) -> int_lit w.
Proof.
  unfold scan_int. destruct cs as [|c cs]; [discriminate|]. destruct (c =? 48) eqn:E0.
  - apply N.eqb_eq in E0. subst. intros H; inversion H. constructor.
  - destruct (is_digit19 c) eqn:E; [|discriminate]. destruct (is_digit19_spec _ E) as [Hd Hn].
    destruct (split_while is_dec_digit cs) as [w' r'] eqn:Es. intros H; inversion H; subst.
    pose proof (split_while_forall _ _ _ _ Es) as Hf.
    destruct w' as [|c' w'']; [apply int_one; assumption|apply int_more; [assumption|assumption|]].
    apply digits1_of_is_dec_digit; [discriminate|exact Hf].
Qed.

Lemma scan_frac_sound cs w r : scan_frac cs = (w, r) -> frac_lit w.
Proof.
  unfold scan_frac. destruct cs as [|c cs]; [intros H; inversion H; constructor|].
  destruct (c =? 46) eqn:E; [|intros H; inversion H; constructor]. apply N.eqb_eq in E. subst c.
  destruct (split_while is_dec_digit cs) as [w' r'] eqn:Es. pose proof (split_while_forall _ _ _ _ Es) as Hf.
  destruct w' as [|c' w'']; intros H; inversion H; subst; [constructor|].
  constructor. apply digits1_of_is_dec_digit; [discriminate|exact Hf].
Qed.

Lemma scan_exp_sound cs w r : scan_exp cs = (w, r) -> exp_lit w.
Proof.
  unfold scan_exp. destruct cs as [|c cs]; [intros H; inversion H; constructor|].
  destruct ((c =? 101) || (c =? 69)) eqn:Ee; [|intros H; inversion H; constructor].
  assert (He : c = 101 \/ c = 69) by (apply orb_true_iff in Ee; destruct Ee as [Ee|Ee]; apply N.eqb_eq in Ee; auto).
  destruct cs as [|s cs'].
  - cbn. intros H; inversion H; constructor.
  - destruct ((s =? 43) || (s =? 45)) eqn:Es.
    + assert (Hs : s = 43 \/ s = 45) by (apply orb_true_iff in Es; destruct Es as [Es|Es]; apply N.eqb_eq in Es; auto).
      destruct (split_while is_dec_digit cs') as [w' r'] eqn:Ed. pose proof (split_while_forall _ _ _ _ Ed) as Hf.
      destruct w' as [|c' w'']; intros H; inversion H; subst; [constructor|].
      cbn [app]. apply exp_signed; [assumption|assumption|]. apply digits1_of_is_dec_digit; [discriminate|exact Hf].
    + destruct (split_while is_dec_digit (s :: cs')) as [w' r'] eqn:Ed. pose proof (split_while_forall _ _ _ _ Ed) as Hf.
      destruct w' as [|c' w'']; intros H; inversion H; subst; [constructor|].
      cbn [app]. apply exp_plain; [assumption|]. apply digits1_of_is_dec_digit; [discriminate|exact Hf].
Qed.

Theorem scan_number_sound cs w r : scan_number cs = Some (w, r) -> number_lit w.
Proof.
  unfold scan_number.
  assert (X : forall m r0, (m = [] \/ m = [45]) ->
            match scan_int r0 with
            | Some (a, r1) => let '(b, r2) := scan_frac r1 in let '(e, r3) := scan_exp r2 in Some (m ++ a ++ b ++ e, r3)
            | None => None
            end = Some (w, r) -> number_lit w).
  { intros m r0 Hm. destruct (scan_int r0) as [[a r1]|] eqn:Ei; [|discriminate].
    apply scan_int_sound in Ei. destruct (scan_frac r1) as [b r2] eqn:Ef. apply scan_frac_sound in Ef.
    destruct (scan_exp r2) as [e r3] eqn:Ee. apply scan_exp_sound in Ee.
    intros H; inversion H; subst. destruct Hm as [->| ->]; cbn [app]; [apply (number_pos a b e)|apply (number_neg a b e)]; assumption. }
  destruct cs as [|c cs']; [apply (X [] []); left; reflexivity|].
  destruct (c =? 45) eqn:E.
  - apply N.eqb_eq in E. subst c. apply (X [45] cs'). right; reflexivity.
  - apply (X [] (c :: cs')). left; reflexivity.
Qed.

Lemma chars_eqb_eq : forall a b, chars_eqb a b = true -> a = b.
Proof.
  induction a as [|x a IH]; intros [|y b] H; cbn in H; try discriminate; [reflexivity|].
  apply andb_true_iff in H. destruct H as [H1 H2]. apply N.eqb_eq in H1. subst. f_equal. apply IH. exact H2.
Qed.

Lemma blanks_ws w : Forall (fun c => is_blank c = true) w -> ws w.
Proof.
  induction 1 as [|c w Hc Hw IH]; constructor; [|exact IH]. unfold is_blank in Hc. unfold is_ws_char.
  apply orb_true_iff in Hc. destruct Hc as [Hc|Hc]; rewrite Hc; rewrite ?orb_true_r; reflexivity.
Qed.

(* what a successfully lexed token's text is, by kind *)
Definition lexeme_ok (t : tok) (w : list char) : Prop :=
  match t with
  | TWhitespace | TNewline => ws w
  | TTrue => w = [116; 114; 117; 101]
  | TFalse => w = [102; 97; 108; 115; 101]
  | TNull => w = [110; 117; 108; 108]
  | TLBrace => w = [123] | TRBrace => w = [125] | TLBrak => w = [91] | TRBrak => w = [93]
  | TComma => w = [44] | TColon => w = [58]
  | TNumber => number_lit w
  | TString => exists body, w = 34 :: body ++ [34]
  | TEOF | TError => False
  end.

Theorem lex1_sound cf c r t w rest : lex1 cf c r = (LOk t, w, rest) -> lexeme_ok t w.
Proof.
  unfold lex1. destruct (is_blank c) eqn:Eb.
  { destruct (split_while is_blank r) as [w' r'] eqn:E. intros H; inversion H; subst. cbn.
    apply blanks_ws. constructor; [exact Eb|]. eapply split_while_forall. exact E. }
  destruct (c =? 10) eqn:E10.
  { apply N.eqb_eq in E10. subst. intros H; inversion H; subst. cbn. repeat constructor. }
  destruct (c =? 13) eqn:E13.
  { apply N.eqb_eq in E13. subst c. destruct r as [|d r'].
    - destruct (f3_cr_newline cf); intros H; inversion H; subst. cbn. repeat constructor.
    - destruct (d =? 10) eqn:Ed.
      + apply N.eqb_eq in Ed. subst. intros H; inversion H; subst. cbn. repeat constructor.
      + destruct (f3_cr_newline cf); intros H; inversion H; subst. cbn. repeat constructor. }
  destruct (punct c) as [t'|] eqn:Ep.
  { intros H; inversion H; subst. unfold punct in Ep.
    repeat match type of Ep with
           | (if ?x =? ?k then _ else _) = _ => let E := fresh in destruct (x =? k) eqn:E;
               [apply N.eqb_eq in E; subst; inversion Ep; subst; reflexivity|]
           end. discriminate. }
  destruct (c =? 34) eqn:Eq.
  { apply N.eqb_eq in Eq. subst c. destruct (scan_string r) as [[w' r']|] eqn:E; [|intros H; inversion H].
    apply (scan_string_app (length r)) in E; [|lia]. destruct E as [-> [w'' ->]].
    intros H; inversion H; subst. cbn. exists w''. reflexivity. }
  destruct ((c =? 45) || is_dec_digit c).
  { destruct (scan_number (c :: r)) as [[w' r']|] eqn:E; [|intros H; inversion H].
    intros H; inversion H; subst. cbn. eapply scan_number_sound. exact E. }
  destruct (is_alpha c).
  { destruct (split_while is_alnum r) as [w' r'] eqn:E.
    destruct (chars_eqb (c :: w') w_true) eqn:E1; [intros H; inversion H; subst; cbn; apply chars_eqb_eq in E1; exact E1|].
    destruct (chars_eqb (c :: w') w_false) eqn:E2; [intros H; inversion H; subst; cbn; apply chars_eqb_eq in E2; exact E2|].
    destruct (chars_eqb (c :: w') w_null) eqn:E3; [intros H; inversion H; subst; cbn; apply chars_eqb_eq in E3; exact E3|].
    intros H; inversion H. }
  intros H; inversion H.
Qed.

(* ---------- strings: scan_string + a silent check_string = the RFC string grammar ---------- *)
Definition scalar (c : char) : Prop := c <= 1114111.

Lemma option_map_cons_nil {A} (d : A) x : option_map (cons d) x <> Some [].
Proof. destruct x; cbn; [intros H; inversion H|discriminate]. Qed.

Lemma is_hexdigit_plain c : is_hexdigit c = true -> rhex c = true /\ (c =? 34) = false /\ (c =? 92) = false.
Proof.
  intros H. split; [exact H|]. unfold is_hexdigit, is_dec_digit in H.
  assert (X : (48 <= c /\ c <= 57) \/ (65 <= c /\ c <= 70) \/ (97 <= c /\ c <= 102)).
  { repeat (apply orb_true_iff in H; destruct H as [H|H]); apply andb_true_iff in H; destruct H as [H1 H2];
      apply N.leb_le in H1; apply N.leb_le in H2; lia. }
  split; apply N.eqb_neq; lia.
Qed.

(* the \u loop: from MHex with j digits read, a silent run reads 4-j hex digits *)
Lemma hex_run b st iu : forall n j w0 i, j + N.of_nat n = 4 -> (0 < n)%nat ->
  check_chars b st w0 i (MHex iu j) = Some [] ->
  exists hs w1 i', w0 = hs ++ w1 /\ length hs = n /\ Forall (fun c => is_hexdigit c = true) hs /\
                   check_chars b st w1 i' MNormal = Some [].
Proof.
  induction n as [|n IH]; intros j w0 i Hj Hn H; [lia|].
  destruct w0 as [|c r]; [cbn in H; inversion H|]. cbn [check_chars] in H.
  destruct (is_hexdigit c) eqn:Eh; [|exfalso; exact (option_map_cons_nil _ _ H)].
  destruct (j =? 3) eqn:E3.
  - apply N.eqb_eq in E3. assert (n = 0)%nat by lia. subst n.
    exists [c], r. eexists. repeat split; [constructor; [exact Eh|constructor]|exact H].
  - apply N.eqb_neq in E3. destruct (IH (j + 1) r _ ltac:(lia) ltac:(lia) H) as [hs [w1 [i' [-> [Hl [Hf Hc]]]]]].
    exists (c :: hs), w1, i'. repeat split; [cbn; lia|constructor; assumption|exact Hc].
Qed.

Lemma scan_plain_prefix : forall hs x, Forall (fun c => (c =? 34) = false /\ (c =? 92) = false) hs ->
  scan_string (hs ++ x) = match scan_string x with Some (w, r) => Some (hs ++ w, r) | None => None end.
Proof.
  induction hs as [|c hs IH]; intros x H; [cbn; destruct (scan_string x) as [[? ?]|]; reflexivity|].
  inversion H as [|? ? [H1 H2] Hr]; subst. cbn [app scan_string]. rewrite H1, H2, (IH x Hr).
  destruct (scan_string x) as [[? ?]|]; reflexivity.
Qed.

Lemma simple_escape_letter c : is_simple_escape c = escape_letter c.
Proof. reflexivity. Qed.

Lemma string_body_sound b st : forall n cs w rest i, (length cs <= n)%nat -> Forall scalar cs ->
  scan_string cs = Some (w, rest) -> check_chars b st w i MNormal = Some [] ->
  exists body, w = body ++ [34] /\ str_chars body.
Proof.
  induction n as [|n IH]; intros cs w rest i Hl Hv Hs Hc; [destruct cs; [discriminate|cbn in Hl; lia]|].
  destruct cs as [|c r]; [discriminate|]. cbn [length] in Hl. inversion Hv as [|? ? Hvc Hvr]; subst.
  cbn [scan_string] in Hs. destruct (c =? 34) eqn:Eq.
  { apply N.eqb_eq in Eq. inversion Hs; subst. exists []. split; [reflexivity|constructor]. }
  destruct (c =? 92) eqn:Eb.
  - apply N.eqb_eq in Eb. subst c. destruct r as [|d r']; [discriminate|].
    destruct (scan_string r') as [[w0 x]|] eqn:E0; [|discriminate]. inversion Hs; subst. clear Hs.
    inversion Hvr as [|? ? Hvd Hvr']; subst. cbn [length] in Hl.
    cbn [check_chars] in Hc. change (92 =? 92) with true in Hc. cbn [check_chars] in Hc.
    destruct (is_simple_escape d) eqn:Ee.
    + destruct (IH r' w0 rest _ ltac:(lia) Hvr' E0 Hc) as [body [-> Hb]].
      exists (92 :: d :: body). split; [reflexivity|]. apply sc_escape; [rewrite <- simple_escape_letter; exact Ee|exact Hb].
    + destruct (d =? 117) eqn:Eu; [|exfalso; exact (option_map_cons_nil _ _ Hc)].
      apply N.eqb_eq in Eu. subst d.
      destruct (hex_run b st _ 4 0 w0 _ ltac:(lia) ltac:(lia) Hc) as [hs [w1 [i' [-> [Hlen [Hhex Hc1]]]]]].
      pose proof (scan_string_app (length r') r' _ _ (le_n _) E0) as [Hr' _].
      assert (Hplain : Forall (fun c => (c =? 34) = false /\ (c =? 92) = false) hs).
      { eapply Forall_impl; [|exact Hhex]. intros c Hcx. apply is_hexdigit_plain in Hcx. tauto. }
      assert (E1 : scan_string (w1 ++ rest) = Some (w1, rest)).
      { rewrite Hr', <- app_assoc in E0.
        pose proof (eq_trans (eq_sym (scan_plain_prefix hs (w1 ++ rest) Hplain)) E0) as E2. clear E0.
        destruct (scan_string (w1 ++ rest)) as [[w' r'']|]; [|discriminate]. inversion E2 as [[Ha Hb]].
        apply app_inv_head in Ha. subst. reflexivity. }
      destruct (IH (w1 ++ rest) w1 rest i') as [body [-> Hb]]; [| |exact E1|exact Hc1|].
      * rewrite Hr', <- app_assoc, app_length in Hl. lia.
      * rewrite Hr', <- app_assoc in Hvr'. apply Forall_app in Hvr'. tauto.
      * destruct hs as [|h1 [|h2 [|h3 [|h4 [|h5 hs']]]]]; cbn in Hlen; try lia.
        inversion Hhex as [|? ? X1 T1]; subst. inversion T1 as [|? ? X2 T2]; subst.
        inversion T2 as [|? ? X3 T3]; subst. inversion T3 as [|? ? X4 T4]; subst.
        exists (92 :: 117 :: h1 :: h2 :: h3 :: h4 :: body). split; [reflexivity|].
        apply sc_unicode; try (apply is_hexdigit_plain; assumption). exact Hb.
  - destruct (scan_string r) as [[w0 x]|] eqn:E0; [|discriminate]. inversion Hs; subst. clear Hs.
    cbn [check_chars] in Hc. rewrite Eb in Hc.
    destruct (32 <=? c) eqn:E32; [|exfalso; exact (option_map_cons_nil _ _ Hc)].
    destruct (IH r w0 rest _ ltac:(lia) Hvr E0 Hc) as [body [-> Hb]].
    exists (c :: body). split; [reflexivity|]. apply sc_plain; [|exact Hb].
    unfold unescaped. rewrite E32, Eq, Eb. cbn. apply N.leb_le. exact Hvc.
Qed.

(* a String token about which check_string is silent is a string of the RFC grammar *)
Theorem string_token_sound cf c r w rest pos : Forall scalar (c :: r) ->
  lex1 cf c r = (LOk TString, w, rest) -> check_string cf w pos = Some [] ->
  exists body, string_lit w body.
Proof.
  intros Hv Hl Hc. unfold lex1 in Hl.
  destruct (is_blank c); [destruct (split_while is_blank r); inversion Hl|].
  destruct (c =? 10); [inversion Hl|].
  destruct (c =? 13); [destruct r as [|d r']; [destruct (f3_cr_newline cf); inversion Hl|
                        destruct (d =? 10); [inversion Hl|destruct (f3_cr_newline cf); inversion Hl]]|].
  destruct (punct c) as [t|] eqn:Ep.
  { inversion Hl; subst. unfold punct in Ep. repeat (destruct (c =? _); [discriminate Ep|]). discriminate Ep. }
  destruct (c =? 34) eqn:Eq.
  - apply N.eqb_eq in Eq. subst c. destruct (scan_string r) as [[w' r']|] eqn:E; [|inversion Hl].
    inversion Hl; subst. unfold check_string in Hc. cbn [check_chars] in Hc. change (34 =? 92) with false in Hc.
    change (32 <=? 34) with true in Hc. cbn iota in Hc. inversion Hv; subst.
    destruct (string_body_sound _ _ (length r) r w' rest _ (le_n _) H2 E Hc) as [body [-> Hb]].
    exists body. constructor. exact Hb.
  - destruct ((c =? 45) || is_dec_digit c); [destruct (scan_number (c :: r)) as [[? ?]|]; inversion Hl|].
    destruct (is_alpha c); [|inversion Hl]. destruct (split_while is_alnum r).
    repeat (match type of Hl with context [if ?b then _ else _] => destruct b end); inversion Hl.
Qed.
