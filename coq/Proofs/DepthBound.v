(* DepthBound.v — C05 `depth_bound`: the recursion depth of the parser and of the CST walk is
   bounded by a constant that does not depend on the length of the input.

   1. [lex_nesting_bound]: every prefix of the token list the lexer hands to the parser has at
      most 256 more opening than closing brackets (the token that would cross the limit is
      not pushed).
   2. The twins of Model/Depth.v project to the functions they instrument
      ([rule_value_d_fst] ..., [parse_rule_d_fst], [infer_value_d_fst]).
   3. [parse_all_d]: on a token list nested at most k, ANY run of the recovering parser
      (a) keeps at most 3k+3 frames of rule_* active under a rule_value call, and
      (b) builds the pre-order of a forest of CST trees ([grew]) whose walk height [wh] is at
          most 2k+2: the CST of every input — grammatical or not — is a tree.
      Key fact: a closing bracket is only ever consumed by the `expect!` that ends the frame
      which consumed the matching opening bracket; advance_with_error inside the loops never
      consumes one.  So #active frames <= opens - closes of the consumed prefix.
   4. [walk_tree_depth]: on the flat vector of a tree the walk keeps at most [wh t] frames active.
   5. [parse_depth_bound] (772), [walk_depth_bound] (515), [from_str_depth_bound],
      [value_depth_jdepth]. *)
From Coq Require Import List Bool Arith NArith Lia.
Import ListNotations.
From JS Require Import Model.Base Model.Shape Model.Sem Model.Infer Model.Lexer Model.Unescape
  Model.Parser Model.Walk Model.TextApi Model.JsonRef Model.Depth
  Proofs.TextFacts Proofs.TextLexer Proofs.TextParser Proofs.CstTree Proofs.ParseComplete
  Proofs.WalkComplete Proofs.InferFacts Proofs.InferNoPanic.

(* ====================================================================================== *)
(* 1. bracket counts, [nested], the lexer                                                 *)
(* ====================================================================================== *)
Lemma opens_app a b : opens (a ++ b) = opens a + opens b.
Proof. induction a as [|[t sp] a IH]; [reflexivity|]. cbn [app opens]. rewrite IH. lia. Qed.
Lemma closes_app a b : closes (a ++ b) = closes a + closes b.
Proof. induction a as [|[t sp] a IH]; [reflexivity|]. cbn [app closes]. rewrite IH. lia. Qed.

Lemma nested_nil k : nested k [].
Proof. intros p q H. symmetry in H. apply app_eq_nil in H. destruct H as [-> _]. cbn. lia. Qed.

Lemma nested_mono k k' l : nested k l -> k <= k' -> nested k' l.
Proof. intros H Hk p q E. specialize (H p q E). lia. Qed.

(* after a prefix u that opened j more brackets than it closed *)
Lemma nested_suffix k u r j : nested k (u ++ r) -> opens u = closes u + j ->
  j <= k /\ nested (k - j) r.
Proof.
  intros H E. split.
  - specialize (H u r eq_refl). lia.
  - intros p q Er. specialize (H (u ++ p) q). rewrite Er, app_assoc in H. specialize (H eq_refl).
    rewrite opens_app, closes_app in H. lia.
Qed.

Lemma nested_suffix_le k u r : nested k (u ++ r) -> closes u <= opens u -> nested k r.
Proof.
  intros H E p q Er. specialize (H (u ++ p) q). rewrite Er, app_assoc in H. specialize (H eq_refl).
  rewrite opens_app, closes_app in H. lia.
Qed.

Lemma max_excess_spec : forall l o c p q, l = p ++ q -> o + opens p - (c + closes p) <= max_excess o c l.
Proof.
  induction l as [|[t sp] l IH]; intros o c p q E.
  - symmetry in E. apply app_eq_nil in E. destruct E as [-> _]. cbn. lia.
  - destruct p as [|[t' sp'] p].
    + cbn [opens closes max_excess]. lia.
    + cbn [app] in E. injection E as Et Es El. subst t' sp'. cbn [opens closes max_excess].
      specialize (IH ((if is_open t then 1 else 0) + o) ((if is_close t then 1 else 0) + c) p q El). lia.
Qed.

Lemma max_excess_nested l : nested (max_excess 0 0 l) l.
Proof. intros p q E. pose proof (max_excess_spec l 0 0 p q E). lia. Qed.

Local Open Scope N_scope.

Lemma bracket_delta_counts t o c o' c' : bracket_delta t o c = (o', c') ->
  o' = o + (if is_open t then 1 else 0) /\ c' = c + (if is_close t then 1 else 0).
Proof. destruct t; cbn; intros H; inversion H; subst; split; lia. Qed.

Lemma lex_loop_nesting cf : forall fuel pos cs o c p q, o <= c + 256 ->
  l_toks (lex_loop cf fuel pos cs o c) = p ++ q ->
  o + N.of_nat (opens p) <= c + N.of_nat (closes p) + 256.
Proof.
  induction fuel as [|f IH]; intros pos cs o c p q Hoc E.
  - destruct cs; cbn in E; symmetry in E; apply app_eq_nil in E; destruct E as [-> _]; cbn; lia.
  - destruct cs as [|ch r].
    { cbn in E. symmetry in E. apply app_eq_nil in E. destruct E as [-> _]. cbn. lia. }
    cbn [lex_loop] in E. destruct (lex1 cf ch r) as [[res lexeme] rest].
    cbn [fst snd] in E.
    assert (Hnil : forall (x : list (tok * span)), [] = p ++ q -> o + N.of_nat (opens p) <= c + N.of_nat (closes p) + 256).
    { intros _ E0. symmetry in E0. apply app_eq_nil in E0. destruct E0 as [-> _]. cbn. lia. }
    assert (Hskip : forall sp x, (TError, sp) :: l_toks (lex_loop cf f (snd sp) rest o c) = p ++ q ->
                    x = tt -> o + N.of_nat (opens p) <= c + N.of_nat (closes p) + 256).
    { intros sp x E0 _. destruct p as [|[t0 sp0] p]; [cbn; lia|]. cbn [app] in E0.
      injection E0 as Et Es El. subst t0 sp0.
      specialize (IH _ _ _ _ _ _ Hoc El). cbn [opens closes is_open is_close]. cbn [Nat.add]. exact IH. }
    destruct res as [t| |].
    + destruct (match t with TString => check_string cf lexeme pos | _ => Some [] end) as [ds|];
        [|exact (Hnil [] E)].
      destruct (bracket_delta t o c) as [o' c'] eqn:Eb.
      destruct (c' + 256 <? o') eqn:Ecap; [exact (Hnil [] E)|].
      apply N.ltb_ge in Ecap. rewrite l_toks_lcons in E.
      destruct p as [|[t0 sp0] p]; [cbn; lia|]. cbn [app] in E.
      injection E as Et Es El. subst t0 sp0.
      destruct (bracket_delta_counts _ _ _ _ _ Eb) as [-> ->].
      specialize (IH _ _ _ _ _ _ Ecap El). cbn [opens closes]. clear - IH.
      destruct (is_open t), (is_close t); lia.
    + rewrite l_toks_lcons in E. exact (Hskip _ tt E eq_refl).
    + rewrite l_toks_lcons in E. exact (Hskip _ tt E eq_refl).
Qed.

Local Close Scope N_scope.

(* the lexer never hands the parser a prefix nested deeper than 256 *)
Theorem lex_nesting_bound cf s : nested 256 (l_toks (lex cf s)).
Proof.
  intros p q E. unfold lex in E.
  assert (H0 : (0 <= 0 + 256)%N) by lia.
  pose proof (lex_loop_nesting cf _ _ _ _ _ p q H0 E) as H. lia.
Qed.

(* ====================================================================================== *)
(* 2. the parser twin projects to the parser                                              *)
(* ====================================================================================== *)
Definition pfst (x : pd) : option pst := option_map fst x.

Lemma pfst_dleaf s : pfst (dleaf s) = Some s.
Proof. reflexivity. Qed.
Lemma pfst_dframe x : pfst (dframe x) = pfst x.
Proof. destruct x as [[s d]|]; reflexivity. Qed.
Lemma pfst_dthen x g : pfst (dthen x g) = obind_opt (pfst x) (fun s => pfst (g s)).
Proof. destruct x as [[s d]|]; [|reflexivity]. cbn. destruct (g s) as [[s' d']|]; reflexivity. Qed.

Lemma obind_opt_ext {A B} (x : option A) (f g : A -> option B) :
  (forall a, f a = g a) -> obind_opt x f = obind_opt x g.
Proof. intros H. destruct x; [apply H|reflexivity]. Qed.

Definition twin_claims (n : nat) : Prop :=
  (forall s, pfst (rule_value_d n s) = rule_value n s) /\
  (forall s, pfst (rule_object_d n s) = rule_object n s) /\
  (forall s, pfst (object_loop_d n s) = object_loop n s) /\
  (forall s, pfst (rule_member_d n s) = rule_member n s) /\
  (forall s, pfst (rule_array_d n s) = rule_array n s) /\
  (forall s, pfst (array_loop_d n s) = array_loop n s).

Lemma twin_all : forall n, twin_claims n.
Proof.
  induction n as [|f IH]; [repeat split; reflexivity|].
  destruct IH as [IHv [IHo [IHol [IHm [IHa IHal]]]]].
  repeat split; intros s.
  - cbn [rule_value_d rule_value]. rewrite pfst_dframe.
    destruct (cur s); try reflexivity; [apply IHo|apply IHa].
  - cbn [rule_object_d rule_object]. destruct (cst_open s) as [m s1].
    rewrite pfst_dframe, pfst_dthen. f_equal.
    destruct (cur (expect TLBrace s1)); try reflexivity.
    rewrite pfst_dthen, IHm. apply obind_opt_ext. exact IHol.
  - cbn [object_loop_d object_loop].
    destruct (cur s); try reflexivity; try apply IHol.
    rewrite pfst_dthen, IHm. apply obind_opt_ext. exact IHol.
  - cbn [rule_member_d rule_member]. destruct (cst_open s) as [m s1].
    rewrite pfst_dframe, pfst_dthen, IHv. reflexivity.
  - cbn [rule_array_d rule_array]. destruct (cst_open s) as [m s1].
    rewrite pfst_dframe, pfst_dthen. f_equal.
    destruct (cur (expect TLBrak s1)); try reflexivity;
      (rewrite pfst_dthen, IHv; apply obind_opt_ext; exact IHal).
  - cbn [array_loop_d array_loop].
    destruct (cur s); try reflexivity; try apply IHal.
    rewrite pfst_dthen, IHv. apply obind_opt_ext. exact IHal.
Qed.

Lemma rule_value_d_fst n s : option_map fst (rule_value_d n s) = rule_value n s.
Proof. apply (twin_all n). Qed.

Lemma rule_file_d_fst n s : option_map fst (rule_file_d n s) = rule_file n s.
Proof.
  unfold rule_file_d, rule_file. destruct (cst_open s) as [m s1].
  change (option_map fst) with pfst. rewrite pfst_dframe, pfst_dthen, (rule_value_d_fst n). reflexivity.
Qed.

(* the fuel of parse_tokens suffices for the twin as well, and it computes the same state *)
Lemma parse_depth_run toks mx :
  exists s d, rule_file_d (parse_fuel toks) (init_pst toks mx) = Some (s, d) /\
              rule_file (parse_fuel toks) (init_pst toks mx) = Some s /\ parse_depth toks mx = d.
Proof.
  destruct (rule_file_ok mx toks) as [s [E _]].
  pose proof (rule_file_d_fst (parse_fuel toks) (init_pst toks mx)) as P. rewrite E in P.
  unfold parse_depth. destruct (rule_file_d (parse_fuel toks) (init_pst toks mx)) as [[s' d]|]; [|discriminate P].
  cbn in P. inversion P; subst. exists s, d. repeat split; assumption.
Qed.

(* ====================================================================================== *)
(* 3. what a run of the parser builds: forests, their walk height, consumed brackets       *)
(* ====================================================================================== *)
(* frames the walk keeps active below (and including) parse_rule / parse_member entered at
   the root of t: literals end in parse_token (2), arrays / objects / members add one frame
   over their deepest child, everything else is answered in the frame itself *)
Fixpoint wh (t : ct) : nat :=
  match t with
  | CT _ _ => 1
  | CR r ks =>
      match r with
      | RLiteral => 2
      | RArray | RObject | RMember =>
          S ((fix go (ks : list ct) : nat :=
                match ks with [] => 0 | k :: r => Nat.max (wh k) (go r) end) ks)
      | _ => 1
      end
  end.
Definition whs (ks : list ct) : nat := fold_right (fun k n => Nat.max (wh k) n) 0 ks.

Definition nestr (r : rule) : Prop := r = RArray \/ r = RObject \/ r = RMember.

Lemma wh_nest r ks : nestr r -> wh (CR r ks) = S (whs ks).
Proof.
  intros [-> |[-> | ->]]; cbn [wh]; f_equal; induction ks as [|k ks IH]; cbn; try reflexivity; rewrite IH; reflexivity.
Qed.
Lemma wh_le_2 r ks : ~ nestr r -> wh (CR r ks) <= 2.
Proof. unfold nestr. destruct r; cbn; intros H; try lia; exfalso; apply H; auto. Qed.
Lemma wh_pos t : 1 <= wh t.
Proof. destruct t as [t sp|r ks]; [cbn; lia|]. destruct r; cbn; lia. Qed.

Lemma whs_app a b : whs (a ++ b) = Nat.max (whs a) (whs b).
Proof. induction a as [|k a IH]; [reflexivity|]. cbn [app whs fold_right]. fold (whs (a ++ b)) (whs a). rewrite IH. lia. Qed.
Lemma whs_cons k ks : whs (k :: ks) = Nat.max (wh k) (whs ks).
Proof. reflexivity. Qed.
Lemma whs_In k ks : In k ks -> wh k <= whs ks.
Proof.
  induction ks as [|x ks IH]; [intros []|]. intros [->|H]; rewrite whs_cons; [lia|]. specialize (IH H). lia.
Qed.

(* skipped tokens (Error, Whitespace, Newline) as leaves *)
Definition skf (w : list ct) : Prop :=
  Forall (fun k => exists t sp, k = CT t sp /\ is_skipped t = true) w.

Lemma skf_nil : skf [].
Proof. constructor. Qed.
Lemma skf_app a b : skf a -> skf b -> skf (a ++ b).
Proof. intros Ha Hb. apply Forall_app. split; assumption. Qed.
Lemma skf_counts w : skf w -> opens (cstoks w) = 0 /\ closes (cstoks w) = 0 /\ whs w <= 1.
Proof.
  induction 1 as [|k w [t [sp [-> Hs]]] _ [I1 [I2 I3]]]; [cbn; lia|].
  rewrite cstoks_cons, opens_app, closes_app, whs_cons, I1, I2. cbn [ctoks opens closes wh].
  destruct t; try discriminate Hs; cbn [is_open is_close]; lia.
Qed.

(* state s' is state s after the forest fs was pushed (nodes, counters, non_skip_len) *)
Record grewn (s s' : pst) (fs : list ct) : Prop := {
  g_nodes : p_nodes s' = rev (cflats (p_tcount s) fs) ++ p_nodes s;
  g_nlen : p_nlen s' = p_nlen s + fsize fs;
  g_tcount : p_tcount s' = p_tcount s + length (cstoks fs);
  g_nsk : exists ks w, fs = ks ++ w /\ skf w /\
          p_nonskip s' = match ks with [] => p_nonskip s | _ => p_nlen s + fsize ks end
}.
(* ... and its tokens were consumed *)
Definition grew (s s' : pst) (fs : list ct) : Prop :=
  grewn s s' fs /\ p_rest s = cstoks fs ++ p_rest s'.

(* same tree-building fields (perror, cooldown only touch diagnostics) *)
Definition sstructn (s s' : pst) : Prop :=
  p_nodes s' = p_nodes s /\ p_nlen s' = p_nlen s /\ p_tcount s' = p_tcount s /\
  p_nonskip s' = p_nonskip s.
Definition sstruct (s s' : pst) : Prop := sstructn s s' /\ p_rest s' = p_rest s.

Lemma sstruct_refl s : sstruct s s.
Proof. repeat split. Qed.
Lemma perror_sstruct s : sstruct s (perror s).
Proof. unfold perror. destruct (p_cool s || span_eqb (p_last s) (pspan s)); repeat split. Qed.
Lemma with_cool_sstruct b s : sstruct s (with_cool b s).
Proof. repeat split. Qed.
Lemma sstruct_trans a b c : sstruct a b -> sstruct b c -> sstruct a c.
Proof. intros [[A1 [A2 [A3 A4]]] A5] [[B1 [B2 [B3 B4]]] B5]. repeat split; congruence. Qed.

Lemma grewn_refl s s' : sstructn s s' -> grewn s s' [].
Proof.
  intros [A1 [A2 [A3 A4]]]. constructor; cbn; try (rewrite ?Nat.add_0_r; assumption).
  exists [], []. repeat split; [constructor|exact A4].
Qed.

Lemma grewn_sstruct_l s s1 s2 fs : sstructn s s1 -> grewn s1 s2 fs -> grewn s s2 fs.
Proof.
  intros [A1 [A2 [A3 A4]]] [N L T K]. constructor; try congruence.
  destruct K as [ks [w [E [Hw Hn]]]]. exists ks, w. rewrite <- A2, <- A4. repeat split; assumption.
Qed.
Lemma grewn_sstruct_r s s1 s2 fs : grewn s s1 fs -> sstructn s1 s2 -> grewn s s2 fs.
Proof.
  intros [N L T K] [A1 [A2 [A3 A4]]]. constructor; try congruence.
  destruct K as [ks [w [E [Hw Hn]]]]. exists ks, w. rewrite A4. repeat split; assumption.
Qed.

Lemma fsize_nonempty_split (ks : list ct) : ks = [] \/ exists k r, ks = k :: r.
Proof. destruct ks; [left; reflexivity|right; eauto]. Qed.

Lemma grewn_trans s s1 s2 f1 f2 : grewn s s1 f1 -> grewn s1 s2 f2 -> grewn s s2 (f1 ++ f2).
Proof.
  intros [N1 L1 T1 K1] [N2 L2 T2 K2]. constructor.
  - rewrite N2, N1, T1, cflats_app, rev_app_distr, app_assoc. reflexivity.
  - rewrite L2, L1, fsize_app. lia.
  - rewrite T2, T1, cstoks_app, app_length. lia.
  - destruct K1 as [k1 [w1 [E1 [W1 H1]]]]. destruct K2 as [k2 [w2 [E2 [W2 H2]]]].
    destruct k2 as [|x k2].
    + exists k1, (w1 ++ w2). subst f1 f2. cbn [app]. rewrite app_assoc. split; [reflexivity|].
      split; [apply skf_app; assumption|]. rewrite H2. exact H1.
    + exists (f1 ++ x :: k2), w2. subst f2. rewrite app_assoc. split; [reflexivity|]. split; [exact W2|].
      rewrite H2, L1, fsize_app. destruct (f1 ++ x :: k2) eqn:E; [destruct f1; discriminate E|]. lia.
Qed.

(* one token pushed by Cst::advance *)
Lemma advance_grewn s t sp skip : (skip = true -> is_skipped t = true) ->
  grewn s (cst_advance t skip s) [CT t sp].
Proof.
  intros Hs. constructor; cbn.
  - reflexivity.
  - lia.
  - lia.
  - destruct skip.
    + exists [], [CT t sp]. repeat split. constructor; [|constructor]. exists t, sp. split; [reflexivity|apply Hs; reflexivity].
    + exists [CT t sp], []. repeat split; [constructor|cbn; lia].
Qed.

Lemma skip_loop_grew : forall rest s, exists w r',
  skf w /\ rest = cstoks w ++ r' /\ grewn s (skip_loop rest s) w /\ p_rest (skip_loop rest s) = r'.
Proof.
  induction rest as [|[t sp] r IH]; intros s; cbn [skip_loop].
  - exists [], []. split; [constructor|]. split; [reflexivity|]. split; [|reflexivity].
    apply grewn_refl. repeat split.
  - destruct (is_skipped t) eqn:Es.
    + destruct (IH (cst_advance t true s)) as [w [r' [Hw [Er [G Hr]]]]].
      exists (CT t sp :: w), r'. split; [constructor; [exists t, sp; auto|exact Hw]|].
      split; [rewrite cstoks_cons; cbn [ctoks app]; rewrite Er; reflexivity|].
      split; [|exact Hr]. change (CT t sp :: w) with ([CT t sp] ++ w).
      eapply grewn_trans; [apply (advance_grewn s t sp true); intros _; exact Es|exact G].
    + exists [], ((t, sp) :: r). split; [constructor|]. split; [reflexivity|]. split; [|reflexivity].
      apply grewn_refl. repeat split.
Qed.

(* Parser::advance at a real token *)
Lemma padvance_grew e s t sp r : p_rest s = (t, sp) :: r ->
  exists w, skf w /\ grew s (padvance e s) (CT t sp :: w).
Proof.
  intros Hr. unfold padvance.
  set (s0 := if e then s else with_cool false s).
  assert (S0 : sstruct s s0) by (unfold s0; destruct e; [apply sstruct_refl|apply with_cool_sstruct]).
  assert (Hr0 : p_rest s0 = (t, sp) :: r) by (destruct S0 as [_ R]; rewrite R; exact Hr).
  assert (Hc : cur s0 = t) by (unfold cur; rewrite Hr0; reflexivity).
  rewrite Hc. cbn [cst_advance push_node p_rest]. rewrite Hr0. cbn [tl].
  destruct (skip_loop_grew r (cst_advance t false s0)) as [w [r' [Hw [Er [G Hr']]]]].
  cbn [cst_advance push_node] in G, Hr'.
  exists w. split; [exact Hw|]. split.
  - change (CT t sp :: w) with ([CT t sp] ++ w). eapply grewn_sstruct_l; [apply S0|].
    eapply grewn_trans; [apply (advance_grewn s0 t sp false); discriminate|exact G].
  - rewrite Hr', Hr, cstoks_cons, Er. reflexivity.
Qed.

(* ---------- steps: a forest with its bracket counts and walk height ---------- *)
Definition step (o c h : nat) (s s' : pst) : Prop :=
  exists fs, grew s s' fs /\ opens (cstoks fs) = o /\ closes (cstoks fs) = c /\ whs fs <= h.

Lemma step_refl s s' h : sstruct s s' -> step 0 0 h s s'.
Proof.
  intros H. exists []. split; [split; [apply grewn_refl; apply H|]|cbn; repeat split; lia].
  destruct H as [_ R]. rewrite R. reflexivity.
Qed.

Lemma step_weaken o c h h' s s' : step o c h s s' -> h <= h' -> step o c h' s s'.
Proof. intros [fs [G [O [C H]]]] Hh. exists fs. repeat split; try assumption; try apply G. lia. Qed.

Lemma step_trans o1 c1 h1 o2 c2 h2 s s1 s2 : step o1 c1 h1 s s1 -> step o2 c2 h2 s1 s2 ->
  step (o1 + o2) (c1 + c2) (Nat.max h1 h2) s s2.
Proof.
  intros [f1 [[G1 R1] [O1 [C1 H1]]]] [f2 [[G2 R2] [O2 [C2 H2]]]]. exists (f1 ++ f2).
  split; [split; [eapply grewn_trans; eassumption|rewrite R1, R2, cstoks_app, app_assoc; reflexivity]|].
  rewrite cstoks_app, opens_app, closes_app, whs_app. repeat split; lia.
Qed.

Lemma step_sstruct_r o c h s s1 s2 : step o c h s s1 -> sstruct s1 s2 -> step o c h s s2.
Proof.
  intros H S. replace o with (o + 0) by lia. replace c with (c + 0) by lia. replace h with (Nat.max h 0) by lia.
  eapply step_trans; [exact H|apply step_refl; exact S].
Qed.
Lemma step_sstruct_l o c h s s1 s2 : sstruct s s1 -> step o c h s1 s2 -> step o c h s s2.
Proof.
  intros S H. change o with (0 + o). change c with (0 + c). replace h with (Nat.max 0 h) by lia.
  eapply step_trans; [apply step_refl; exact S|exact H].
Qed.

Lemma step_rest o c h s s' : step o c h s s' ->
  exists u, p_rest s = u ++ p_rest s' /\ opens u = o /\ closes u = c.
Proof. intros [fs [[_ R] [O [C _]]]]. exists (cstoks fs). repeat split; assumption. Qed.

(* the remaining tokens after a step that opened j more brackets than it closed *)
Lemma step_nested o c h s s' k j : step o c h s s' -> nested k (p_rest s) -> o = c + j ->
  j <= k /\ nested (k - j) (p_rest s').
Proof.
  intros H Hn E. destruct (step_rest _ _ _ _ _ H) as [u [R [O C]]]. rewrite R in Hn.
  apply (nested_suffix k u (p_rest s') j Hn). lia.
Qed.
Lemma step_nested_le o c h s s' k : step o c h s s' -> nested k (p_rest s) -> c <= o -> nested k (p_rest s').
Proof.
  intros H Hn E. destruct (step_nested o c h s s' k (o - c) H Hn ltac:(lia)) as [_ N].
  eapply nested_mono; [exact N|lia].
Qed.

Definition tcount (b : bool) : nat := if b then 1 else 0.

Lemma padvance_step e s t sp r : p_rest s = (t, sp) :: r ->
  step (tcount (is_open t)) (tcount (is_close t)) 1 s (padvance e s).
Proof.
  intros Hr. destruct (padvance_grew e s t sp r Hr) as [w [Hw G]]. exists (CT t sp :: w).
  destruct (skf_counts w Hw) as [O [C H]].
  split; [exact G|]. rewrite cstoks_cons, opens_app, closes_app, whs_cons, O, C. cbn [ctoks opens closes wh].
  unfold tcount. repeat split; lia.
Qed.

Lemma cur_cons s t : cur s = t -> t <> TEOF -> exists sp r, p_rest s = (t, sp) :: r.
Proof. apply cur_rest. Qed.

(* expect!: the token and the skipped tokens after it, or nothing *)
Lemma expect_step t s : t <> TEOF ->
  (cur s = t /\ step (tcount (is_open t)) (tcount (is_close t)) 1 s (expect t s)) \/
  (cur s <> t /\ step 0 0 1 s (expect t s)).
Proof.
  intros Ht. unfold expect. destruct (tok_eqb (cur s) t) eqn:E.
  - apply tok_eqb_eq in E. left. split; [exact E|].
    destruct (cur_cons s t E Ht) as [sp [r Hr]]. apply (padvance_step false s t sp r Hr).
  - right. split; [intros H; apply tok_eqb_eq in H; congruence|].
    apply step_refl. apply perror_sstruct.
Qed.

Lemma expect_step_plain t s : t <> TEOF -> is_open t = false -> is_close t = false ->
  step 0 0 1 s (expect t s).
Proof.
  intros Ht Ho Hc. destruct (expect_step t s Ht) as [[_ H]|[_ H]]; [|exact H].
  rewrite Ho, Hc in H. exact H.
Qed.

(* ---------- Cst::open ... Cst::close around a forest ---------- *)
Lemma set_node_fields i v nsk s ns : Nat.ltb i (p_nlen s) = true ->
  set_nth (p_nlen s - 1 - i) v (p_nodes s) = Some ns ->
  set_node i v nsk s =
  {| p_nodes := ns; p_nlen := p_nlen s; p_tcount := p_tcount s; p_nonskip := nsk;
     p_rest := p_rest s; p_cool := p_cool s; p_last := p_last s; p_diags := p_diags s;
     p_max := p_max s; p_bad := p_bad s |}.
Proof. intros H1 H2. unfold set_node. rewrite H1, H2. reflexivity. Qed.

Lemma close_grew s s2 r fs : grew (opened s) s2 fs ->
  exists ks w, fs = ks ++ w /\ skf w /\ grew s (cst_close (p_nlen s) r s2) (CR r ks :: w).
Proof.
  intros [[N L T K] R]. destruct K as [ks [w [E [Hw Hn]]]]. exists ks, w. split; [exact E|]. split; [exact Hw|].
  cbn [opened ext p_nodes p_nlen p_tcount p_nonskip p_rest rev app length] in N, L, T, Hn, R.
  assert (Hn' : p_nonskip s2 = p_nlen s + 1 + fsize ks).
  { rewrite Hn. destruct ks; [cbn; lia|lia]. }
  unfold cst_close. rewrite Hn'.
  replace (Nat.ltb (p_nlen s + 1 + fsize ks - 1) (p_nlen s)) with false by (symmetry; apply Nat.ltb_ge; lia).
  replace (p_nlen s + 1 + fsize ks - 1 - p_nlen s) with (fsize ks) by lia.
  rewrite (set_node_fields (p_nlen s) (NRule r (fsize ks)) (p_nlen s + 1 + fsize ks) s2
             (rev (cflats (p_tcount s + 0) fs) ++ NRule r (fsize ks) :: p_nodes s)).
  - split; [constructor|]; cbn [p_nodes p_nlen p_tcount p_nonskip p_rest].
    + cbn [cflats]. rewrite cflat_CR. cbn [ctoks]. fold (cstoks ks).
      rewrite Nat.add_0_r, E, cflats_app. cbn [app rev]. rewrite <- app_assoc. reflexivity.
    + rewrite L, E, fsize_app, !fsize_cons. cbn [csize]. fold (fsize ks). lia.
    + rewrite T, E, cstoks_app, cstoks_cons, !app_length. cbn [ctoks]. fold (cstoks ks). lia.
    + exists [CR r ks], w. repeat split; [exact Hw|]. rewrite fsize_cons. cbn [csize]. fold (fsize ks).
      change (fsize []) with 0. lia.
    + rewrite R, E, cstoks_app, cstoks_cons. cbn [ctoks]. fold (cstoks ks). reflexivity.
  - apply Nat.ltb_lt. lia.
  - rewrite N, L. replace (p_nlen s + 1 + fsize fs - 1 - p_nlen s) with (length (rev (cflats (p_tcount s + 0) fs)))
      by (rewrite rev_length, cflats_length; lia).
    apply set_nth_app.
Qed.

Lemma close_step s s2 r o c h h' : step o c h (opened s) s2 ->
  (forall ks, whs ks <= h -> wh (CR r ks) <= h') -> 1 <= h' ->
  step o c h' s (cst_close (p_nlen s) r s2).
Proof.
  intros [fs [G [O [C H]]]] Hh H1. destruct (close_grew s s2 r fs G) as [ks [w [E [Hw G']]]].
  exists (CR r ks :: w). split; [exact G'|].
  destruct (skf_counts w Hw) as [Ow [Cw Hww]].
  rewrite cstoks_cons, opens_app, closes_app, whs_cons. cbn [ctoks]. fold (cstoks ks).
  rewrite E, cstoks_app, opens_app, closes_app in *. rewrite whs_app in H.
  repeat split; try lia. specialize (Hh ks ltac:(lia)). lia.
Qed.

Lemma opened_sstruct_rest s : p_rest (opened s) = p_rest s.
Proof. reflexivity. Qed.
Lemma cur_opened s : cur (opened s) = cur s.
Proof. reflexivity. Qed.

(* Parser::advance_with_error at a real token: an error node around it *)
Lemma awe_step s t sp r : p_rest s = (t, sp) :: r ->
  step (tcount (is_open t)) (tcount (is_close t)) 1 s (advance_with_error s).
Proof.
  intros Hr. unfold advance_with_error. rewrite cst_open_eq.
  apply (close_step s _ RError _ _ 1 1); [|intros; cbn; lia|lia].
  eapply step_sstruct_l; [eapply sstruct_trans; [apply (perror_sstruct (opened s))|apply with_cool_sstruct]|].
  apply (padvance_step true _ t sp r). cbn [with_cool p_rest].
  destruct (perror_sstruct (opened s)) as [_ R]. rewrite R. exact Hr.
Qed.

(* literals *)
Lemma boolean_step s : step 0 0 1 s (rule_boolean s).
Proof.
  unfold rule_boolean. rewrite cst_open_eq.
  apply (close_step s _ RBoolean 0 0 1 1); [|intros; cbn; lia|lia].
  destruct (cur (opened s)); try (apply step_refl; apply perror_sstruct);
    apply expect_step_plain; (discriminate || reflexivity).
Qed.

Lemma literal_step s : step 0 0 2 s (rule_literal s).
Proof.
  unfold rule_literal. rewrite cst_open_eq.
  apply (close_step s _ RLiteral 0 0 1 2); [|intros; cbn; lia|lia].
  destruct (cur (opened s)); try (apply step_refl; apply perror_sstruct);
    try (apply expect_step_plain; (discriminate || reflexivity)); apply boolean_step.
Qed.

(* ---------- inversion of the depth combinators ---------- *)
Lemma dleaf_inv s s' d : dleaf s = Some (s', d) -> s' = s /\ d = 0.
Proof. intros H. inversion H. split; reflexivity. Qed.
Lemma dframe_inv x s' d : dframe x = Some (s', d) -> exists d0, x = Some (s', d0) /\ d = S d0.
Proof. destruct x as [[s0 d0]|]; [|discriminate]. cbn. intros H. inversion H; subst. eauto. Qed.
Lemma dthen_inv x g s' d : dthen x g = Some (s', d) ->
  exists s1 d1 d2, x = Some (s1, d1) /\ g s1 = Some (s', d2) /\ d = Nat.max d1 d2.
Proof.
  destruct x as [[s1 d1]|]; [|discriminate]. cbn. destruct (g s1) as [[s2 d2]|] eqn:E; [|discriminate].
  intros H. inversion H; subst. exists s1, d1, d2. repeat split. exact E.
Qed.

(* ---------- the six mutually recursive rule functions ---------- *)
(* result of a call started with the remaining tokens nested at most k: call depth at most
   db, and a balanced step (never more closing than opening brackets consumed) of walk
   height at most hb *)
Definition res_ok (db hb : nat) (s : pst) (x : pd) : Prop :=
  forall s' d, x = Some (s', d) -> d <= db /\ exists o c, c <= o /\ step o c hb s s'.

Definition dclaims (n : nat) : Prop :=
  (forall k s, nested k (p_rest s) -> res_ok (3 * k + 3) (2 * k + 2) s (rule_value_d n s)) /\
  (forall k s, nested k (p_rest s) -> cur s = TLBrace ->
     1 <= k /\ res_ok (3 * k + 2) (2 * k + 2) s (rule_object_d n s)) /\
  (forall k s, nested k (p_rest s) -> res_ok (3 * k + 4) (2 * k + 3) s (object_loop_d n s)) /\
  (forall k s, nested k (p_rest s) -> res_ok (3 * k + 4) (2 * k + 3) s (rule_member_d n s)) /\
  (forall k s, nested k (p_rest s) -> cur s = TLBrak ->
     1 <= k /\ res_ok (3 * k + 1) (2 * k + 2) s (rule_array_d n s)) /\
  (forall k s, nested k (p_rest s) -> res_ok (3 * k + 3) (2 * k + 2) s (array_loop_d n s)).

Lemma res_ok_leaf db hb s s1 : sstruct s s1 -> res_ok db hb s (dleaf s1).
Proof.
  intros S s' d H. apply dleaf_inv in H. destruct H as [-> ->]. split; [lia|].
  exists 0, 0. split; [lia|]. apply step_refl. exact S.
Qed.

Lemma res_ok_weaken db hb db' hb' s x : res_ok db hb s x -> db <= db' -> hb <= hb' -> res_ok db' hb' s x.
Proof.
  intros H Hd Hh s' d E. destruct (H s' d E) as [D [o [c [Hc St]]]]. split; [lia|].
  exists o, c. split; [exact Hc|]. eapply step_weaken; eassumption.
Qed.

(* x, then g, inside one frame *)
Lemma res_ok_then db hb k s x g : nested k (p_rest s) -> res_ok db hb s x ->
  (forall s1, nested k (p_rest s1) -> res_ok db hb s1 (g s1)) -> res_ok db hb s (dthen x g).
Proof.
  intros Hn Hx Hg s' d E. destruct (dthen_inv _ _ _ _ E) as [s1 [d1 [d2 [E1 [E2 ->]]]]].
  destruct (Hx s1 d1 E1) as [D1 [o1 [c1 [Hc1 St1]]]].
  pose proof (step_nested_le _ _ _ _ _ _ St1 Hn Hc1) as Hn1.
  destruct (Hg s1 Hn1 s' d2 E2) as [D2 [o2 [c2 [Hc2 St2]]]].
  split; [lia|]. exists (o1 + o2), (c1 + c2). split; [lia|].
  replace hb with (Nat.max hb hb) by lia. eapply step_trans; eassumption.
Qed.

(* a step that consumed no closing bracket in front of a call *)
Lemma res_ok_after db hb o s s0 x : step o 0 hb s s0 -> res_ok db hb s0 x -> res_ok db hb s x.
Proof.
  intros St H s' d E. destruct (H s' d E) as [D [o1 [c1 [Hc1 St1]]]]. split; [exact D|].
  exists (o + o1), (0 + c1). split; [lia|]. replace hb with (Nat.max hb hb) by lia.
  eapply step_trans; eassumption.
Qed.

(* the common frame of rule_object / rule_array *)
Lemma frame_ok k s ot ct_ rl (body : pst -> pd) db :
  is_open ot = true -> is_close ot = false -> is_open ct_ = false -> ot <> TEOF -> ct_ <> TEOF ->
  rl = RArray \/ rl = RObject ->
  cur s = ot -> nested k (p_rest s) ->
  (forall s2, 1 <= k -> nested (k - 1) (p_rest s2) -> res_ok db (2 * (k - 1) + 3) s2 (body s2)) ->
  1 <= k /\
  res_ok (S db) (2 * k + 2) s
    (let '(m, s1) := cst_open s in
     let s2 := expect ot s1 in
     dframe (dthen (body s2) (fun s4 => dleaf (cst_close m rl (expect ct_ s4))))).
Proof.
  intros Ho Hoc Hco Hot Hct Hrl Hc Hn Hbody. rewrite cst_open_eq.
  destruct (expect_step ot (opened s) Hot) as [[_ St]|[Hne _]]; [|exfalso; apply Hne; exact Hc].
  rewrite Ho, Hoc in St. cbn [tcount] in St.
  destruct (step_nested 1 0 1 _ _ k 1 St Hn eq_refl) as [Hk Hn2].
  split; [exact Hk|]. intros s' d E.
  destruct (dframe_inv _ _ _ E) as [d0 [E0 ->]].
  destruct (dthen_inv _ _ _ _ E0) as [s3 [d1 [d2 [E1 [E2 ->]]]]].
  apply dleaf_inv in E2. destruct E2 as [-> ->].
  destruct (Hbody _ Hk Hn2 s3 d1 E1) as [D1 [o1 [c1 [Hc1 St1]]]].
  split; [lia|].
  assert (X : exists c2, c2 <= 1 /\ step 0 c2 1 s3 (expect ct_ s3)).
  { destruct (expect_step ct_ s3 Hct) as [[_ H]|[_ H]].
    - rewrite Hco in H. exists (tcount (is_close ct_)). split; [destruct (is_close ct_); cbn; lia|exact H].
    - exists 0. split; [lia|exact H]. }
  destruct X as [c2 [Hc2 St2]].
  exists (1 + o1 + 0), (0 + c1 + c2). split; [lia|].
  apply (close_step s _ rl _ _ (2 * (k - 1) + 3) (2 * k + 2)).
  - replace (2 * (k - 1) + 3) with (Nat.max (Nat.max 1 (2 * (k - 1) + 3)) 1) by lia.
    eapply step_trans; [eapply step_trans; [exact St|exact St1]|exact St2].
  - intros ks H. rewrite wh_nest; [lia|]. unfold nestr. destruct Hrl; auto.
  - lia.
Qed.

Lemma cur_open_nested k s t : nested k (p_rest s) -> cur s = t -> is_open t = true -> 1 <= k.
Proof.
  intros Hn Hc Ho. unfold cur in Hc. destruct (p_rest s) as [|[t0 sp] r]; [subst t; discriminate Ho|]. subst t0.
  specialize (Hn [(t, sp)] r eq_refl). destruct t; try discriminate Ho; cbn in Hn; lia.
Qed.

Lemma dclaims_all : forall n, dclaims n.
Proof.
  induction n as [|f IH].
  - unfold dclaims. split; [|split; [|split; [|split; [|split]]]].
    + intros k s Hn s' d E. discriminate E.
    + intros k s Hn Hc. split; [eapply cur_open_nested; [exact Hn|exact Hc|reflexivity]|]. intros s' d E. discriminate E.
    + intros k s Hn s' d E. discriminate E.
    + intros k s Hn s' d E. discriminate E.
    + intros k s Hn Hc. split; [eapply cur_open_nested; [exact Hn|exact Hc|reflexivity]|]. intros s' d E. discriminate E.
    + intros k s Hn s' d E. discriminate E.
  - destruct IH as [IHv [IHo [IHol [IHm [IHa IHal]]]]].
    assert (Hmember : forall k s, nested k (p_rest s) -> res_ok (3 * k + 4) (2 * k + 3) s (rule_member_d (S f) s)).
    { intros k s Hn. cbn [rule_member_d]. rewrite cst_open_eq. intros s' d E.
      destruct (dframe_inv _ _ _ E) as [d0 [E0 ->]].
      destruct (dthen_inv _ _ _ _ E0) as [s3 [d1 [d2 [E1 [E2 ->]]]]].
      apply dleaf_inv in E2. destruct E2 as [-> ->].
      pose proof (expect_step_plain TString (opened s) ltac:(discriminate) eq_refl eq_refl) as St1.
      pose proof (expect_step_plain TColon (expect TString (opened s)) ltac:(discriminate) eq_refl eq_refl) as St2.
      pose proof (step_trans _ _ _ _ _ _ _ _ _ St1 St2) as St12. cbn [Nat.add Nat.max] in St12.
      assert (Hn2 : nested k (p_rest (expect TColon (expect TString (opened s))))).
      { apply (step_nested_le _ _ _ _ _ _ St12); [exact Hn|lia]. }
      destruct (IHv k _ Hn2 s3 d1 E1) as [D1 [o1 [c1 [Hc1 St3]]]].
      split; [lia|]. exists (0 + o1), (0 + c1). split; [lia|].
      apply (close_step s _ RMember _ _ (2 * k + 2) (2 * k + 3)).
      - replace (2 * k + 2) with (Nat.max 1 (2 * k + 2)) by lia. eapply step_trans; eassumption.
      - intros ks H. rewrite wh_nest; [lia|]. unfold nestr; auto.
      - lia. }
    unfold dclaims. split; [|split; [|split; [|split; [|split]]]].
    + (* rule_value *)
      intros k s Hn s' d E. cbn [rule_value_d] in E.
      destruct (dframe_inv _ _ _ E) as [d0 [E0 ->]]. clear E.
      destruct (cur s) eqn:Ec;
        try (apply dleaf_inv in E0; destruct E0 as [-> ->]; split; [lia|];
             exists 0, 0; split; [lia|]; apply step_refl; apply perror_sstruct);
        try (inversion E0; subst; split; [unfold literal_depth; rewrite Ec; lia|];
             exists 0, 0; split; [lia|]; eapply step_weaken; [apply literal_step|lia]).
      * destruct (IHo k s Hn Ec) as [Hk R]. destruct (R s' d0 E0) as [D X]. split; [lia|exact X].
      * destruct (IHa k s Hn Ec) as [Hk R]. destruct (R s' d0 E0) as [D X]. split; [lia|exact X].
    + (* rule_object *)
      intros k s Hn Hc. cbn [rule_object_d].
      destruct (frame_ok k s TLBrace TRBrace RObject
               (fun s2 => match cur s2 with
                          | TString => dthen (rule_member_d f s2) (object_loop_d f)
                          | TRBrace => dleaf s2
                          | _ => dleaf (perror s2)
                          end) (3 * (k - 1) + 4)) as [Hk R]; try reflexivity; try discriminate; auto.
      * intros s2 Hk Hn2. destruct (cur s2);
          try (apply res_ok_leaf; apply perror_sstruct); try (apply res_ok_leaf; apply sstruct_refl).
        apply (res_ok_then _ _ (k - 1)); [exact Hn2|apply IHm; exact Hn2|intros s1 Hn1; apply IHol; exact Hn1].
      * split; [exact Hk|]. eapply res_ok_weaken; [exact R|lia|lia].
    + (* object_loop *)
      intros k s Hn. cbn [object_loop_d].
      destruct (cur s) eqn:Ec; try (apply res_ok_leaf; apply sstruct_refl);
        try (destruct (cur_cons s _ Ec ltac:(discriminate)) as [sp [r Hr]];
             pose proof (awe_step s _ sp r Hr) as St; cbn [is_open is_close tcount] in St;
             eapply res_ok_after; [eapply step_weaken; [exact St|lia]|];
             apply IHol; eapply step_nested_le; [exact St|exact Hn|lia]).
      pose proof (expect_step_plain TComma s ltac:(discriminate) eq_refl eq_refl) as St.
      eapply res_ok_after; [eapply step_weaken; [exact St|lia]|].
      assert (Hn1 : nested k (p_rest (expect TComma s))) by (eapply step_nested_le; [exact St|exact Hn|lia]).
      apply (res_ok_then _ _ k); [exact Hn1|apply IHm; exact Hn1|intros s1 Hn2; apply IHol; exact Hn2].
    + exact Hmember.
    + (* rule_array *)
      intros k s Hn Hc. cbn [rule_array_d].
      destruct (frame_ok k s TLBrak TRBrak RArray
               (fun s2 => match cur s2 with
                          | TFalse | TLBrace | TLBrak | TNull | TNumber | TString | TTrue =>
                              dthen (rule_value_d f s2) (array_loop_d f)
                          | TRBrak => dleaf s2
                          | _ => dleaf (perror s2)
                          end) (3 * (k - 1) + 3)) as [Hk R]; try reflexivity; try discriminate; auto.
      * intros s2 Hk Hn2. apply (res_ok_weaken (3 * (k - 1) + 3) (2 * (k - 1) + 2)); [|lia|lia].
        destruct (cur s2);
          try (apply res_ok_leaf; apply perror_sstruct); try (apply res_ok_leaf; apply sstruct_refl);
          (apply (res_ok_then _ _ (k - 1)); [exact Hn2|apply IHv; exact Hn2|intros s1 Hn1; apply IHal; exact Hn1]).
      * split; [exact Hk|]. eapply res_ok_weaken; [exact R|lia|lia].
    + (* array_loop *)
      intros k s Hn. cbn [array_loop_d].
      destruct (cur s) eqn:Ec; try (apply res_ok_leaf; apply sstruct_refl);
        try (destruct (cur_cons s _ Ec ltac:(discriminate)) as [sp [r Hr]];
             pose proof (awe_step s _ sp r Hr) as St; cbn [is_open is_close tcount] in St;
             eapply res_ok_after; [eapply step_weaken; [exact St|lia]|];
             apply IHal; eapply step_nested_le; [exact St|exact Hn|lia]).
      pose proof (expect_step_plain TComma s ltac:(discriminate) eq_refl eq_refl) as St.
      eapply res_ok_after; [eapply step_weaken; [exact St|lia]|].
      assert (Hn1 : nested k (p_rest (expect TComma s))) by (eapply step_nested_le; [exact St|exact Hn|lia]).
      apply (res_ok_then _ _ k); [exact Hn1|apply IHv; exact Hn1|intros s1 Hn2; apply IHal; exact Hn2].
Qed.

(* ---------- rule_file ---------- *)
Lemma drain_grew : forall rest s, exists fs,
  grewn s (drain rest s) fs /\ rest = cstoks fs /\ p_rest (drain rest s) = [] /\ whs fs <= 1.
Proof.
  induction rest as [|[t sp] r IH]; intros s; cbn [drain].
  - exists []. split; [apply grewn_refl; repeat split|]. split; [reflexivity|]. split; [reflexivity|cbn; lia].
  - destruct (IH (cst_advance t (is_skipped t) s)) as [fs [G [E [R H]]]].
    exists (CT t sp :: fs). split.
    + change (CT t sp :: fs) with ([CT t sp] ++ fs). eapply grewn_trans; [|exact G].
      apply advance_grewn. intros X. exact X.
    + split; [rewrite cstoks_cons, E; reflexivity|]. split; [exact R|]. rewrite whs_cons. cbn [wh]. lia.
Qed.

Lemma step_any_trans o1 c1 h1 s s1 s2 o2 c2 h2 : step o1 c1 h1 s s1 -> step o2 c2 h2 s1 s2 ->
  exists o c, step o c (Nat.max h1 h2) s s2.
Proof. intros A B. eexists. eexists. eapply step_trans; eassumption. Qed.

Lemma set_node_rest i v n s : p_rest (set_node i v n s) = p_rest s.
Proof. unfold set_node. destruct (if Nat.ltb i (p_nlen s) then _ else None); reflexivity. Qed.
Lemma cst_close_rest m r s : p_rest (cst_close m r s) = p_rest s.
Proof. unfold cst_close. destruct (Nat.ltb _ _); apply set_node_rest. Qed.

(* the tail of rule_file: nothing, or one error node holding every remaining token *)
Lemma file_tail s2 :
  exists o c, step o c 1 s2
    (match cur s2 with
     | TEOF => s2
     | _ => let s := perror s2 in
            let '(et, s) := cst_open s in
            let s := drain (p_rest s) s in
            cst_close et RError s
     end)
  /\ (cur s2 = TEOF \/
      p_rest (match cur s2 with
              | TEOF => s2
              | _ => let s := perror s2 in
                     let '(et, s) := cst_open s in
                     let s := drain (p_rest s) s in
                     cst_close et RError s
              end) = []).
Proof.
  assert (X : exists o c, step o c 1 s2 (let s := perror s2 in let '(et, s) := cst_open s in
                                         let s := drain (p_rest s) s in cst_close et RError s)
              /\ p_rest (let s := perror s2 in let '(et, s) := cst_open s in
                         let s := drain (p_rest s) s in cst_close et RError s) = []).
  { cbn zeta. rewrite cst_open_eq.
    destruct (drain_grew (p_rest (opened (perror s2))) (opened (perror s2))) as [fs [G [E [R H]]]].
    assert (St : step (opens (cstoks fs)) (closes (cstoks fs)) 1 (opened (perror s2))
                   (drain (p_rest (opened (perror s2))) (opened (perror s2)))).
    { exists fs. split; [split; [exact G|rewrite R, app_nil_r; exact E]|]. repeat split. exact H. }
    exists (opens (cstoks fs)), (closes (cstoks fs)). split.
    - eapply step_sstruct_l; [apply perror_sstruct|].
      destruct (perror_sstruct s2) as [[_ [L _]] _].
      replace (p_nlen s2) with (p_nlen (perror s2)) by exact L.
      apply (close_step (perror s2) _ RError _ _ 1 1); [exact St|intros; cbn; lia|lia].
    - rewrite cst_close_rest. exact R. }
  destruct X as [o [c [St R]]].
  destruct (cur s2) eqn:Ec; try (exists o, c; split; [exact St|right; exact R]).
  exists 0, 0. split; [apply step_refl; apply sstruct_refl|left; reflexivity].
Qed.

Lemma file_ok toks mx n k s d : nested k toks ->
  rule_file_d n (init_pst toks mx) = Some (s, d) ->
  d <= 3 * k + 4 /\
  exists fs, p_nodes s = rev (cflat 0 (CR RFile fs)) /\ toks = cstoks fs ++ p_rest s /\ whs fs <= 2 * k + 2.
Proof.
  intros Hn E. unfold rule_file_d in E. rewrite cst_open_eq in E.
  set (s0 := init_pst toks mx) in *.
  destruct (skip_loop_grew (p_rest (opened s0)) (opened s0)) as [w [r' [Hw [Er [G Hr]]]]].
  fold (init_skip (opened s0)) in G, Hr.
  assert (St0 : step 0 0 1 (opened s0) (init_skip (opened s0))).
  { exists w. split; [split; [exact G|rewrite Hr; exact Er]|]. destruct (skf_counts w Hw) as [A [B C]]. auto. }
  assert (Hn1 : nested k (p_rest (init_skip (opened s0)))).
  { eapply step_nested_le; [exact St0|exact Hn|lia]. }
  destruct (dframe_inv _ _ _ E) as [d0 [E0 ->]].
  destruct (dthen_inv _ _ _ _ E0) as [s2 [d1 [d2 [E1 [E2 ->]]]]].
  apply dleaf_inv in E2. destruct E2 as [-> ->].
  destruct (dclaims_all n) as [Hv _]. destruct (Hv k _ Hn1 s2 d1 E1) as [D1 [o1 [c1 [Hc1 St1]]]].
  split; [lia|].
  destruct (file_tail s2) as [o2 [c2 [St2 _]]].
  pose proof (step_trans _ _ _ _ _ _ _ _ _ (step_trans _ _ _ _ _ _ _ _ _ St0 St1) St2) as St.
  match type of St with step _ _ _ _ ?x => set (s3 := x) in * end.
  destruct St as [fs [[[N L T K] R] [_ [_ H]]]].
  cbn [opened ext p_nodes p_nlen p_tcount p_rest s0 init_pst rev app length Nat.add] in N, L, T, R.
  exists fs. unfold cst_close_root.
  rewrite (set_node_fields (p_nlen s0) (NRule RFile (p_nlen s3 - 1 - p_nlen s0)) (p_nonskip s3) s3
             (rev (cflats 0 fs) ++ [NRule RFile (p_nlen s3 - 1 - p_nlen s0)])).
  - cbn [p_nodes p_rest]. split; [|split; [exact R|lia]].
    rewrite cflat_CR. cbn [rev]. rewrite L. cbn [s0 init_pst p_nlen]. do 3 f_equal. lia.
  - apply Nat.ltb_lt. rewrite L. cbn [s0 init_pst p_nlen]. lia.
  - rewrite N, L. cbn [s0 init_pst p_nlen].
    replace (S (fsize fs) - 1 - 0) with (length (rev (cflats 0 fs))) by (rewrite rev_length, cflats_length; lia).
    apply set_nth_app.
Qed.

(* THE CST OF EVERY INPUT IS A TREE: on any token list nested at most k the recovering parser
   returns the pre-order of one tree rooted at `file`; the trees below the root have walk
   height at most 2k+2; and at most 3k+4 frames of rule_* were ever active *)
Theorem parse_tree toks mx ld k : nested k toks ->
  parse_depth toks mx <= 3 * k + 4 /\
  exists fs post, c_nodes (pr_cst (parse_tokens toks mx ld)) = cflat 0 (CR RFile fs) /\
                  toks = cstoks fs ++ post /\ whs fs <= 2 * k + 2.
Proof.
  intros Hn. destruct (parse_depth_run toks mx) as [s [d [Ed [E Hd]]]].
  destruct (file_ok toks mx _ k s d Hn Ed) as [D [fs [N [R H]]]].
  split; [lia|]. exists fs, (p_rest s). unfold parse_tokens. rewrite E. cbn [pr_cst c_nodes].
  rewrite N, rev_involutive. repeat split; assumption.
Qed.

Theorem parse_depth_nested toks mx k : nested k toks -> parse_depth toks mx <= 3 * k + 4.
Proof. intros Hn. apply (parse_tree toks mx [] k Hn). Qed.

(* explicit constant: 3*256 + 4 *)
Theorem parse_depth_bound cf s mx : parse_depth (l_toks (lex cf s)) mx <= 772.
Proof. apply (parse_depth_nested _ mx 256). apply lex_nesting_bound. Qed.

(* ====================================================================================== *)
(* 4. the walk twin: projection, and its depth on the flat vector of a tree               *)
(* ====================================================================================== *)
Lemma fst_wbind {A B} (x : wd A) (f : A -> wd B) : fst (wbind x f) = obind (fst x) (fun a => fst (f a)).
Proof. unfold wbind. destruct (fst x); reflexivity. Qed.
Lemma fst_wleaf {A} (x : tout A) : fst (wleaf x) = x.
Proof. reflexivity. Qed.
Lemma fst_wframe {A} (x : wd A) : fst (wframe x) = fst x.
Proof. reflexivity. Qed.

Lemma obind_ext {E A B} (x : outcome E A) (f g : A -> outcome E B) :
  (forall a, f a = g a) -> obind x f = obind x g.
Proof. intros H. destruct x; cbn; [apply H|reflexivity|reflexivity]. Qed.

Lemma mapM_d_fst {A B} (g : A -> wd B) (h : A -> tout B) l :
  (forall x, fst (g x) = h x) -> fst (mapM_d g l) = mapM_o h l.
Proof.
  intros H. induction l as [|x r IH]; [reflexivity|].
  cbn [mapM_d mapM_o]. rewrite fst_wbind, H. apply obind_ext. intros s.
  rewrite fst_wbind, IH. reflexivity.
Qed.

Lemma fold_members_d_fst pm pm' : (forall m c, fst (pm m c) = pm' m c) ->
  forall ms content, fst (fold_members_d pm ms content) = fold_members pm' ms content.
Proof.
  intros H. induction ms as [|m r IH]; intros content; [reflexivity|].
  cbn [fold_members_d fold_members]. rewrite fst_wbind, H. apply obind_ext. exact IH.
Qed.

Lemma parse_member_d_fst pr pr' c src i content : (forall v, fst (pr v) = pr' v) ->
  fst (parse_member_d pr c src i content) = parse_member pr' c src i content.
Proof.
  intros H. unfold parse_member_d, parse_member. rewrite fst_wframe, fst_wbind, fst_wleaf.
  apply obind_ext. intros kn. destruct (find_kid is_string_tok kn) as [k|]; [|reflexivity].
  rewrite fst_wbind, fst_wleaf. apply obind_ext. intros ksp.
  destruct (if N.eqb (snd ksp) 0 then None else slice_src src (fst ksp + 1, snd ksp - 1)%N) as [kchars|];
    [|reflexivity].
  cbn zeta. rewrite fst_wbind, fst_wleaf. apply obind_ext. intros _.
  destruct (find_kid is_value_rule kn) as [v|]; [|reflexivity].
  rewrite fst_wbind, H. apply obind_ext. intros s. reflexivity.
Qed.

Lemma parse_rule_d_fst : forall f c src i, fst (parse_rule_d f c src i) = parse_rule f c src i.
Proof.
  induction f as [|f IH]; intros c src i; [reflexivity|].
  cbn [parse_rule_d parse_rule]. rewrite fst_wframe, fst_wbind, fst_wleaf. apply obind_ext. intros n.
  destruct n as [r off|t idx]; [|reflexivity]. destruct r; try reflexivity.
  - (* array *)
    rewrite fst_wbind, fst_wleaf. apply obind_ext. intros _.
    rewrite fst_wbind, fst_wleaf. apply obind_ext. intros kn. cbn zeta.
    rewrite fst_wbind. rewrite (mapM_d_fst _ (parse_rule f c src)) by (intros x; apply IH). reflexivity.
  - (* literal *)
    rewrite fst_wbind, fst_wleaf. apply obind_ext. intros _.
    rewrite fst_wbind, fst_wleaf. apply obind_ext. intros ks. destruct ks; reflexivity.
  - (* object *)
    rewrite fst_wbind, fst_wleaf. apply obind_ext. intros _.
    rewrite fst_wbind, fst_wleaf. apply obind_ext. intros kn. cbn zeta.
    rewrite fst_wbind.
    rewrite (fold_members_d_fst _ (parse_member (parse_rule f c src) c src)); [reflexivity|].
    intros m content. apply parse_member_d_fst. intros v. apply IH.
Qed.

Lemma parse_cst_d_fst c src : fst (parse_cst_d c src) = parse_cst c src.
Proof.
  unfold parse_cst_d, parse_cst. rewrite fst_wframe, fst_wbind, fst_wleaf. apply obind_ext. intros n0.
  destruct n0 as [r off|t idx]; [|reflexivity]. destruct r; try reflexivity.
  rewrite fst_wbind, fst_wleaf. apply obind_ext. intros _.
  rewrite fst_wbind, fst_wleaf. apply obind_ext. intros kn. cbn zeta.
  destruct (Nat.ltb 1 _); [reflexivity|].
  destruct (filter _ kn) as [|x r]; [reflexivity|]. apply parse_rule_d_fst.
Qed.

(* ---------- depth ---------- *)
Lemma snd_wbind_leaf {A B} (x : tout A) (f : A -> wd B) :
  snd (wbind (wleaf x) f) = match x with Ok a => snd (f a) | _ => 0 end.
Proof. unfold wbind, wleaf. cbn [fst snd]. destruct x; reflexivity. Qed.

Lemma wbind_le {A B} (x : wd A) (f : A -> wd B) h :
  snd x <= h -> (forall a, fst x = Ok a -> snd (f a) <= h) -> snd (wbind x f) <= h.
Proof.
  intros Hx Hf. unfold wbind. destruct (fst x) as [a| |] eqn:E; cbn [snd]; try exact Hx.
  specialize (Hf a eq_refl). lia.
Qed.

Lemma mapM_d_le {A B} (g : A -> wd B) l h : (forall x, In x l -> snd (g x) <= h) -> snd (mapM_d g l) <= h.
Proof.
  induction l as [|x r IH]; intros H; [cbn; lia|]. cbn [mapM_d].
  apply wbind_le; [apply H; left; reflexivity|]. intros s _.
  apply wbind_le; [apply IH; intros y Hy; apply H; right; exact Hy|]. intros ss _. cbn. lia.
Qed.

Lemma fold_members_d_le pm h : forall ms content,
  (forall m content, In m ms -> snd (pm m content) <= h) -> snd (fold_members_d pm ms content) <= h.
Proof.
  induction ms as [|m r IH]; intros content H; [cbn; lia|]. cbn [fold_members_d].
  apply wbind_le; [apply H; left; reflexivity|]. intros c' _. apply IH. intros m' c'' Hm. apply H. right. exact Hm.
Qed.

Lemma tops_located c : forall ks i b j n, locateds c i b ks -> In (j, n) (tops i b ks) ->
  exists k b', In k ks /\ located c j b' k /\ n = hd_node b' k.
Proof.
  induction ks as [|k ks IH]; intros i b j n H Hin; [destruct Hin|].
  destruct (locateds_cons _ _ _ _ _ H) as [H1 H2]. cbn [tops] in Hin. destruct Hin as [E|Hin].
  - inversion E; subst. exists k, b. split; [left; reflexivity|]. split; [exact H1|reflexivity].
  - destruct (IH _ _ _ _ H2 Hin) as [k' [b' [A [B C]]]]. exists k', b'. split; [right; exact A|]. split; assumption.
Qed.

Lemma find_kid_In p kn v : find_kid p kn = Some v -> exists n, In (v, n) kn.
Proof.
  unfold find_kid. destruct (find (fun x => p (snd x)) kn) as [[j n]|] eqn:E; [|discriminate].
  intros H. inversion H; subst. apply find_some in E. exists n. apply E.
Qed.

Lemma in_map_fst_filter {A} (q : nat * A -> bool) kn x :
  In x (map fst (filter q kn)) -> exists n, In (x, n) kn /\ q (x, n) = true.
Proof.
  intros H. apply in_map_iff in H. destruct H as [[j n] [E H]]. cbn in E. subst j.
  apply filter_In in H. exists n. exact H.
Qed.

(* parse_member entered at a member node *)
Lemma member_tree_depth c src (pr : nat -> wd shape) i b ks content :
  located c i b (CR RMember ks) ->
  (forall j b' k, In k ks -> located c j b' k -> snd (pr j) <= wh k) ->
  snd (parse_member_d pr c src i content) <= wh (CR RMember ks).
Proof.
  intros Hl Hpr. rewrite wh_nest by (unfold nestr; auto). unfold parse_member_d. cbn [wframe snd].
  apply le_n_S. destruct (children_rule c i b RMember ks Hl) as [_ Ek]. rewrite snd_wbind_leaf, Ek.
  destruct (located_rule _ _ _ _ _ Hl) as [_ [_ Hls]].
  destruct (find_kid is_string_tok _) as [k|]; [|cbn; lia].
  rewrite snd_wbind_leaf. destruct (cst_span c k) as [ksp| |]; try lia.
  destruct (if N.eqb (snd ksp) 0 then None else slice_src src (fst ksp + 1, snd ksp - 1)%N) as [kchars|];
    [|cbn; lia].
  cbn zeta. rewrite snd_wbind_leaf. destruct (has_errors c src i) as [u| |]; try lia.
  destruct (find_kid is_value_rule _) as [v|] eqn:Ev; [|cbn; lia].
  destruct (find_kid_In _ _ _ Ev) as [n Hin].
  destruct (tops_located c ks _ _ _ _ Hls Hin) as [k' [b' [A [B _]]]].
  apply wbind_le; [etransitivity; [apply (Hpr v b' k' A B)|apply whs_In; exact A]|].
  intros s _. cbn. lia.
Qed.

(* parse_rule entered at the root of a tree keeps at most [wh t] frames active *)
Theorem walk_tree_depth c src : forall f i b t, located c i b t -> snd (parse_rule_d f c src i) <= wh t.
Proof.
  induction f as [|f IH]; intros i b t Hl; [cbn; lia|].
  cbn [parse_rule_d wframe snd]. rewrite snd_wbind_leaf. unfold cst_get. rewrite (located_hd _ _ _ _ Hl).
  destruct t as [t0 sp|r ks]; [cbn; lia|]. cbn [hd_node].
  destruct (children_rule c i b r ks Hl) as [Ec Ek].
  destruct (located_rule _ _ _ _ _ Hl) as [_ [_ Hls]].
  destruct r; try (cbn [wleaf snd wh]; lia).
  - (* array *)
    rewrite wh_nest by (unfold nestr; auto). apply le_n_S.
    rewrite snd_wbind_leaf. destruct (has_errors c src i) as [u| |]; try lia.
    rewrite snd_wbind_leaf, Ek. cbn zeta.
    apply wbind_le; [|intros es _; cbn; lia].
    apply mapM_d_le. intros x Hx. apply in_map_fst_filter in Hx. destruct Hx as [n [Hin _]].
    destruct (tops_located c ks _ _ _ _ Hls Hin) as [k [b' [A [B _]]]].
    etransitivity; [apply (IH x b' k B)|apply whs_In; exact A].
  - (* literal *)
    cbn [wh]. apply le_n_S.
    rewrite snd_wbind_leaf. destruct (has_errors c src i) as [u| |]; try lia.
    rewrite snd_wbind_leaf, Ec. destruct (map fst (tops (S i) b ks)); cbn; lia.
  - (* object *)
    rewrite wh_nest by (unfold nestr; auto). apply le_n_S.
    rewrite snd_wbind_leaf. destruct (has_errors c src i) as [u| |]; try lia.
    rewrite snd_wbind_leaf, Ek. cbn zeta.
    apply wbind_le; [|intros es _; cbn; lia].
    apply fold_members_d_le. intros m content Hm. apply in_map_fst_filter in Hm. destruct Hm as [n [Hin Hq]].
    destruct (tops_located c ks _ _ _ _ Hls Hin) as [k [b' [A [B Hn]]]].
    cbn [snd] in Hq. subst n. destruct k as [t0 sp0|r0 ks0]; [discriminate Hq|].
    destruct r0; try discriminate Hq.
    etransitivity; [|apply whs_In; exact A].
    apply (member_tree_depth c src _ m b' ks0 content B). intros j b'' k' _ Hk'. apply (IH j b'' k' Hk').
Qed.

(* the whole walk on the CST of a tree rooted at `file` *)
Theorem walk_depth_tree c src fs : located c 0 0 (CR RFile fs) -> walk_depth c src <= S (whs fs).
Proof.
  intros Hl. unfold walk_depth, parse_cst_d. cbn [wframe snd]. apply le_n_S.
  rewrite snd_wbind_leaf. unfold cst_get. rewrite (located_hd _ _ _ _ Hl). cbn [hd_node].
  destruct (children_rule c 0 0 RFile fs Hl) as [_ Ek].
  destruct (located_rule _ _ _ _ _ Hl) as [_ [_ Hls]].
  rewrite snd_wbind_leaf. destruct (has_errors c src 0) as [u| |]; try lia.
  rewrite snd_wbind_leaf, Ek. cbn zeta.
  destruct (Nat.ltb 1 _); [cbn; lia|].
  destruct (filter _ (tops 1 0 fs)) as [|[j n] r] eqn:Ef; [cbn; lia|].
  assert (Hin : In (j, n) (tops 1 0 fs)).
  { assert (X : In (j, n) (filter (fun x => negb (is_ws_node (snd x))) (tops 1 0 fs))) by (rewrite Ef; left; reflexivity).
    apply filter_In in X. apply X. }
  destruct (tops_located c fs _ _ _ _ Hls Hin) as [k [b' [A [B _]]]]. cbn [fst].
  etransitivity; [apply (walk_tree_depth c src _ j b' k B)|apply whs_In; exact A].
Qed.

(* ====================================================================================== *)
(* 5. the bounds                                                                          *)
(* ====================================================================================== *)
Lemma parse_tokens_spans toks mx ld : c_spans (pr_cst (parse_tokens toks mx ld)) = map snd toks.
Proof. unfold parse_tokens. destruct (rule_file _ _); reflexivity. Qed.

Theorem walk_depth_nested toks mx ld src k : nested k toks ->
  walk_depth (pr_cst (parse_tokens toks mx ld)) src <= 2 * k + 3.
Proof.
  intros Hn. destruct (parse_tree toks mx ld k Hn) as [_ [fs [post [En [Et H]]]]].
  etransitivity; [apply (walk_depth_tree _ src fs)|lia].
  exists [], [], [], (map snd post).
  split; [rewrite En; cbn [cflats app]; rewrite !app_nil_r; reflexivity|].
  split; [reflexivity|]. split; [|reflexivity].
  rewrite parse_tokens_spans, Et, map_app. cbn [cstoks flat_map ctoks app]. rewrite !app_nil_r. reflexivity.
Qed.

(* explicit constant: 2*256 + 3 *)
Theorem walk_depth_bound cf s : walk_depth (pr_cst (snd (parse_text cf s))) s <= 515.
Proof. unfold parse_text. cbn [snd]. apply (walk_depth_nested _ _ _ s 256). apply lex_nesting_bound. Qed.

(* the text entry point as a whole *)
Theorem from_str_depth_bound cf s : from_str_depth cf s <= 772.
Proof.
  unfold from_str_depth. pose proof (walk_depth_bound cf s) as W. unfold parse_text in *. cbn [snd] in W.
  pose proof (parse_depth_bound cf s (byte_len s)) as P. lia.
Qed.

(* the tree theorem for the text entry point *)
Theorem text_cst_is_tree cf s :
  exists fs post, c_nodes (pr_cst (snd (parse_text cf s))) = cflat 0 (CR RFile fs) /\
                  l_toks (lex cf s) = cstoks fs ++ post /\ whs fs <= 514.
Proof.
  unfold parse_text. cbn [snd].
  destruct (parse_tree (l_toks (lex cf s)) (byte_len s) (l_diags (lex cf s)) 256 (lex_nesting_bound cf s))
    as [_ [fs [post [A [B C]]]]].
  exists fs, post. repeat split; assumption.
Qed.

(* ---------- value path ---------- *)
Fixpoint arr_d (l : list json) : vd (list shape) :=
  match l with
  | [] => vleaf (Ok [])
  | x :: r => vbind (infer_value_d x) (fun s => vbind (arr_d r) (fun ss => vleaf (Ok (s :: ss))))
  end.
Fixpoint obj_d (m : list (key * json)) (acc : list (key * shape)) : vd shape :=
  match m with
  | [] => vleaf (Ok (SObject acc false))
  | (k, v) :: r => vbind (infer_value_d v) (fun s => obj_d r (map_insert k s acc))
  end.

Lemma vbind_ext {A B} (x : vd A) (f g : A -> vd B) : (forall a, f a = g a) -> vbind x f = vbind x g.
Proof. intros H. unfold vbind. destruct (fst x); try rewrite H; reflexivity. Qed.

Lemma infer_value_d_arr l : infer_value_d (JArr l) = vframe (vbind (arr_d l) (fun es => vleaf (array_value es))).
Proof.
  reflexivity.
Qed.
Lemma infer_value_d_obj m : infer_value_d (JObj m) = vframe (obj_d m []).
Proof.
  reflexivity.
Qed.

Lemma vbind_ok {A B} (x : vd A) (f : A -> vd B) a : fst x = Ok a ->
  vbind x f = (fst (f a), Nat.max (snd x) (snd (f a))).
Proof. intros H. unfold vbind. rewrite H. reflexivity. Qed.

Definition mdepth (l : list json) : nat := fold_right (fun e n => Nat.max (jdepth e) n) 0 l.
Definition mdepth_o (m : list (key * json)) : nat := fold_right (fun kv n => Nat.max (jdepth (snd kv)) n) 0 m.

(* the twin is the function, and its depth is the nesting depth of the value (+1 for the
   frame of a scalar; an EMPTY container at the deepest level costs no extra frame) *)
Lemma infer_value_d_spec : forall d,
  fst (infer_value_d d) = infer_value d /\ jdepth d <= snd (infer_value_d d) <= S (jdepth d).
Proof.
  induction d as [| | | |l IH|m IH] using json_ind'; try (cbn; split; [reflexivity|lia]).
  - rewrite infer_value_d_arr, infer_value_arr. change (jdepth (JArr l)) with (S (mdepth l)).
    assert (X : fst (arr_d l) = mapM_o infer_value l /\ (l = [] -> snd (arr_d l) = 0) /\ mdepth l <= snd (arr_d l) <= S (mdepth l)).
    { induction IH as [|x r [Hx1 Hx2] _ [I1 [_ I3]]]; [cbn; repeat split; lia|].
      destruct (infer_value_total x) as [sx Ex].
      cbn [arr_d mapM_o]. rewrite (vbind_ok _ _ sx) by (rewrite Hx1; exact Ex). cbn [fst snd].
      rewrite Ex. cbn [obind]. rewrite <- I1.
      unfold vbind. destruct (fst (arr_d r)); cbn [fst snd obind vleaf];
        (split; [reflexivity|]); (split; [discriminate|]); cbn [mdepth fold_right]; fold (mdepth r); lia. }
    destruct X as [X1 [X2 X3]]. cbn [vframe fst snd]. unfold vbind. rewrite X1.
    destruct (mapM_o infer_value l) as [es| |]; cbn [fst snd obind vleaf]; (split; [reflexivity|]);
      (destruct l as [|x r]; [rewrite (X2 eq_refl); cbn; lia|]); lia.
  - rewrite infer_value_d_obj, infer_value_obj. change (jdepth (JObj m)) with (S (mdepth_o m)).
    cbn [vframe fst snd].
    assert (X : forall acc, fst (obj_d m acc) = val_loop infer_value m acc /\ (m = [] -> snd (obj_d m acc) = 0) /\ mdepth_o m <= snd (obj_d m acc) <= S (mdepth_o m)).
    { induction IH as [|[k v] r [Hv1 Hv2] _ IHr]; intros acc; [cbn; repeat split; lia|].
      cbn [snd] in Hv1, Hv2. destruct (infer_value_total v) as [sv Ev].
      cbn [obj_d val_loop]. rewrite (vbind_ok _ _ sv) by (rewrite Hv1; exact Ev). cbn [fst snd].
      rewrite Ev. cbn [obind]. destruct (IHr (map_insert k sv acc)) as [I1 [_ I3]].
      split; [exact I1|]. split; [discriminate|]. cbn [mdepth_o fold_right snd]. fold (mdepth_o r). lia. }
    destruct (X []) as [X1 [X2 X3]]. split; [exact X1|].
    destruct m as [|kv r]; [rewrite (X2 eq_refl); cbn; lia|]. lia.
Qed.

Theorem infer_value_d_fst d : fst (infer_value_d d) = infer_value d.
Proof. apply infer_value_d_spec. Qed.

Theorem value_depth_jdepth d : jdepth d <= value_depth d <= S (jdepth d).
Proof. apply infer_value_d_spec. Qed.

(* serde_json refuses to build a Value nested deeper than 128 (its recursion limit; outside
   the model): the value path then keeps at most 129 frames of From<&Value> active *)
Corollary value_depth_bound d : jdepth d <= 128 -> value_depth d <= 129.
Proof. intros H. pose proof (value_depth_jdepth d). lia. Qed.
