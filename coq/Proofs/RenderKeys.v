(* RenderKeys.v — a simple sufficient condition for the hypothesis [keys_ok] of parse_render:
   member names made of printable ASCII characters other than the quote and the backslash
   re-read as themselves (depends on the F11 model: Model/Unescape.v, Proofs/UnescapeFacts.v). *)
From Coq Require Import List Bool Arith NArith Lia.
Import ListNotations.
From JS Require Import Model.Base Model.Sem Model.Lexer Model.Unescape Model.JsonRef
  Proofs.TextFacts Proofs.InferFacts Proofs.UnescapeFacts Proofs.TextComplete.
Local Open Scope N_scope.

Definition ascii_plain (c : N) : bool := (32 <=? c) && (c <? 128) && negb (c =? 34) && negb (c =? 92).

Lemma ascii_plain_spec c : ascii_plain c = true -> 32 <= c /\ c < 128 /\ c <> 34 /\ c <> 92.
Proof.
  unfold ascii_plain. intros H. repeat (apply andb_true_iff in H; destruct H as [H ?]).
  apply N.leb_le in H. apply N.ltb_lt in H2. apply negb_true_iff in H1, H0.
  apply N.eqb_neq in H1, H0. repeat split; assumption.
Qed.

Lemma utf8_decode_ascii : forall k fuel, (length k <= fuel)%nat -> forallb ascii_plain k = true ->
  utf8_decode fuel k = k.
Proof.
  induction k as [|c r IH]; intros fuel Hf Hk; destruct fuel as [|f]; try reflexivity; try (cbn in Hf; lia).
  cbn [forallb] in Hk. apply andb_true_iff in Hk. destruct Hk as [Hc Hr].
  destruct (ascii_plain_spec c Hc) as [_ [H128 _]]. cbn [utf8_decode].
  replace (c <? 128) with true by (symmetry; apply N.ltb_lt; exact H128).
  rewrite (IH f); [reflexivity|cbn in Hf; lia|exact Hr].
Qed.

Lemma utf8_encode_ascii : forall k, forallb ascii_plain k = true -> utf8_encode k = k.
Proof.
  induction k as [|c r IH]; intros Hk; [reflexivity|].
  cbn [forallb] in Hk. apply andb_true_iff in Hk. destruct Hk as [Hc Hr].
  destruct (ascii_plain_spec c Hc) as [_ [H128 _]].
  unfold utf8_encode in *. cbn [flat_map]. unfold utf8_encode1 at 1.
  replace (c <? 128) with true by (symmetry; apply N.ltb_lt; exact H128). cbn [app]. rewrite (IH Hr). reflexivity.
Qed.

Lemma str_chars_ascii : forall k, forallb ascii_plain k = true -> str_chars k.
Proof.
  induction k as [|c r IH]; intros Hk; [constructor|].
  cbn [forallb] in Hk. apply andb_true_iff in Hk. destruct Hk as [Hc Hr].
  destruct (ascii_plain_spec c Hc) as [H32 [H128 [H34 H92]]].
  apply sc_plain; [|exact (IH Hr)]. unfold unescaped.
  replace (32 <=? c) with true by (symmetry; apply N.leb_le; exact H32).
  replace (c =? 34) with false by (symmetry; apply N.eqb_neq; exact H34).
  replace (c =? 92) with false by (symmetry; apply N.eqb_neq; exact H92).
  cbn. apply N.leb_le. lia.
Qed.

Lemma plain_of_ascii : forall k, forallb ascii_plain k = true -> forallb plain_char k = true.
Proof.
  induction k as [|c r IH]; intros Hk; [reflexivity|].
  cbn [forallb] in Hk |- *. apply andb_true_iff in Hk. destruct Hk as [Hc Hr].
  destruct (ascii_plain_spec c Hc) as [H32 [_ [_ H92]]]. rewrite (IH Hr), andb_true_r.
  unfold plain_char. replace (N.eqb c 92) with false by (symmetry; apply N.eqb_neq; exact H92).
  replace (N.ltb c 32) with false by (symmetry; apply N.ltb_ge; exact H32). reflexivity.
Qed.

Theorem key_ok_ascii k : forallb ascii_plain k = true -> key_ok k.
Proof.
  intros Hk. unfold key_ok, key_chars. rewrite (utf8_decode_ascii k (length k) (le_n _) Hk).
  split; [apply str_chars_ascii; exact Hk|].
  unfold raw_key. rewrite (name_chars_plain k (plain_of_ascii k Hk)). apply utf8_encode_ascii. exact Hk.
Qed.

Fixpoint ascii_keys (d : json) : bool :=
  match d with
  | JArr l => forallb ascii_keys l
  | JObj m => forallb (fun kv => forallb ascii_plain (fst kv) && ascii_keys (snd kv)) m
  | _ => true
  end.

Theorem keys_ok_ascii : forall d, ascii_keys d = true -> keys_ok d.
Proof.
  induction d as [| | | |l IH|m IH] using json_ind'; intros H; try exact I.
  - cbn [ascii_keys] in H. cbn [keys_ok]. induction IH as [|x r Hx _ IHr]; [exact I|].
    cbn [forallb] in H. apply andb_true_iff in H. destruct H as [H1 H2]. split; [apply Hx; exact H1|apply IHr; exact H2].
  - cbn [ascii_keys] in H. cbn [keys_ok]. induction IH as [|[k v] r Hx _ IHr]; [exact I|].
    cbn [forallb fst snd] in H. apply andb_true_iff in H. destruct H as [H1 H2].
    apply andb_true_iff in H1. destruct H1 as [H0 H1].
    split; [apply key_ok_ascii; exact H0|]. split; [apply Hx; exact H1|apply IHr; exact H2].
Qed.
