(* TextAbsorb.v — C09 in full, restated for the TEXT entry point from_sources_m (code's current
   configuration) through the completeness equation of Proofs/TextComplete.v, like Proofs/TextLift.v. *)
From Coq Require Import List Bool NArith Lia.
Import ListNotations.
From JS Require Import Model.Base Model.Shape Model.Sem Model.Subset Model.Merger Model.Infer Model.Api
  Model.Lexer Model.Walk Model.TextApi Model.JsonRef
  Proofs.SourcesSound Proofs.MergerAbsorb Proofs.WalkComplete Proofs.TextComplete Proofs.TextLift.

Lemma forall2_text_in_l srcs ds : Forall2 text_of srcs ds ->
  forall s, In s srcs -> exists d, In d ds /\ text_of s d.
Proof.
  induction 1 as [|s0 d0 srcs ds H Hr IH]; intros s [].
  - subst. exists d0. split; [left; reflexivity|exact H].
  - destruct (IH s H0) as [d [H1 H2]]. exists d. split; [right; exact H1|exact H2].
Qed.

(* a source text that is already among the source texts (any position): from its first re-addition on
   the inferred shape is one fixed sh1, and sh1 admits exactly the documents sh admits *)
Theorem text_sources_readd srcs ds s sh : Forall2 text_of srcs ds -> In s srcs ->
  from_sources_m cfg_now srcs = Ok sh ->
  exists sh1, (forall k, from_sources_m cfg_now (srcs ++ repeat s (S k)) = Ok sh1) /\
              (forall x, mem x sh1 = mem x sh).
Proof.
  intros H Hin E. destruct (forall2_text_in_l srcs ds H s Hin) as [d [Hd Ht]].
  rewrite (from_sources_complete_now srcs ds H) in E. apply lift_api_ok in E.
  destruct (sources_readd ds d sh E Hd) as [m1 [H1 H2]]. exists m1. split; [|exact H2].
  intro k.
  assert (Hk : Forall2 text_of (repeat s (S k)) (repeat d (S k))) by (induction (S k); simpl; constructor; assumption).
  rewrite (from_sources_complete_now _ (ds ++ repeat d (S k))) by (apply Forall2_app; assumption).
  rewrite (H1 k). reflexivity.
Qed.
