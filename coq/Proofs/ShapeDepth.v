(* ShapeDepth.v — the nesting depth of an inferred shape never exceeds the nesting depth of the
   document (C05: merger and is_subset are STRUCTURAL recursions on their first argument in the model —
   `Fixpoint merger (a b : shape) {struct a}`, `Fixpoint is_subset (a b : shape) {struct a}`, accepted by the
   guard checker as such — so the number of their nested calls is bounded by the depth of that shape; this file
   bounds that depth for every shape inference produces). *)
From Coq Require Import List Bool NArith Arith Lia.
Import ListNotations.
From JS Require Import Model.Base Model.Shape Model.Sem Model.Infer Model.JsonRef Model.Depth
  Proofs.BaseFacts Proofs.ShapeFacts Proofs.InferFacts Proofs.InferLaws.

Definition maxd (l : list shape) : nat := fold_right (fun v n => Nat.max (sdepth v) n) 0 l.
Definition maxdm (c : list (key * shape)) : nat := fold_right (fun kv n => Nat.max (sdepth (snd kv)) n) 0 c.

Lemma maxd_le l n : Forall (fun s => sdepth s <= n) l -> maxd l <= n.
Proof. induction 1 as [|x r Hx _ IH]; simpl; lia. Qed.

Lemma maxdm_le c n : Forall (fun kv => sdepth (snd kv) <= n) c -> maxdm c <= n.
Proof. induction 1 as [|x r Hx _ IH]; simpl; lia. Qed.

Lemma maxdm_ge c kv : In kv c -> sdepth (snd kv) <= maxdm c.
Proof. induction c as [|x r IH]; simpl; intros []; [subst; lia|specialize (IH H); lia]. Qed.

Lemma sdepth_as_optional s : sdepth (as_optional s) = sdepth s.
Proof. destruct s; reflexivity. Qed.

Lemma top_not_oneof_as_optional s : top_not_oneof s = true -> top_not_oneof (as_optional s) = true.
Proof. intro H. destruct s; simpl in *; try reflexivity; discriminate. Qed.

Definition okm (n : nat) (kv : key * shape) : Prop := sdepth (snd kv) <= n /\ top_not_oneof (snd kv) = true.

Lemma in_map_insert (k : key) (v : shape) l x : In x (map_insert k v l) -> x = (k, v) \/ (exists k', x = (k', v)) \/ In x l.
Proof.
  induction l as [|[k' v'] r IH]; simpl.
  - intros [H|[]]. left. symmetry. exact H.
  - destruct (cmp_key k k'); simpl.
    + intros [H|H]; [right; left; exists k'; symmetry; exact H|right; right; right; exact H].
    + intros [H|H]; [left; symmetry; exact H|right; right; exact H].
    + intros [H|H]; [right; right; left; exact H|].
      destruct (IH H) as [E|[E|E]]; [left; exact E|right; left; exact E|right; right; right; exact E].
Qed.

Lemma forall_map_insert n k v l : okm n (k, v) -> Forall (okm n) l -> Forall (okm n) (map_insert k v l).
Proof.
  intros Hv Hl. apply Forall_forall. intros x Hx.
  destruct (in_map_insert k v l x Hx) as [E|[[k' E]|E]].
  - subst. exact Hv.
  - subst. exact Hv.
  - rewrite Forall_forall in Hl. exact (Hl x E).
Qed.

Lemma phase1_ok n e acc : Forall (okm n) acc -> Forall (okm n) (phase1_step acc e).
Proof.
  intro H. destruct e as [| | | | |c o| |]; simpl; try exact H.
  induction H as [|kv r [Hd Ht] _ IH]; simpl; constructor; [|exact IH].
  destruct (map_has (fst kv) c); [split; assumption|].
  split; simpl; [rewrite sdepth_as_optional; exact Hd|apply top_not_oneof_as_optional; exact Ht].
Qed.

Lemma phase2_member_ok n acc kv : okm n kv -> Forall (okm n) acc -> Forall (okm n) (phase2_member acc kv).
Proof.
  intros [Hd Ht] Ha. unfold phase2_member.
  destruct (map_get (fst kv) acc) as [old|] eqn:E.
  - apply map_get_In in E. rewrite Forall_forall in Ha. destruct (Ha _ E) as [_ Ho]. simpl in Ho.
    destruct old; try (apply Forall_forall; exact Ha). discriminate.
  - rewrite (oneof_push_not_oneof (snd kv) (as_optional (snd kv))) by (apply top_not_oneof_as_optional; exact Ht).
    apply forall_map_insert; [|exact Ha].
    split; simpl; [rewrite sdepth_as_optional; exact Hd|apply top_not_oneof_as_optional; exact Ht].
Qed.

Lemma phase2_ok n e acc : (forall c o, e = SObject c o -> Forall (okm n) c) -> Forall (okm n) acc ->
  Forall (okm n) (phase2_step acc e).
Proof.
  intros He Ha. destruct e as [| | | | |c o| |]; simpl; try exact Ha.
  specialize (He c o eq_refl). revert acc Ha. induction He as [|kv r Hkv _ IH]; intros acc Ha; simpl; [exact Ha|].
  apply IH. apply phase2_member_ok; assumption.
Qed.

Lemma objects_fold_ok n first rest : Forall (okm n) first ->
  Forall (fun e => forall c o, e = SObject c o -> Forall (okm n) c) rest ->
  Forall (okm n) (objects_fold first rest).
Proof.
  intros Hf Hr. unfold objects_fold.
  assert (H1 : Forall (okm n) (fold_left phase1_step rest first)).
  { clear Hr. revert first Hf. induction rest as [|e r IH]; intros first Hf; simpl; [exact Hf|].
    apply IH. apply phase1_ok. exact Hf. }
  revert H1. generalize (fold_left phase1_step rest first). clear Hf.
  induction Hr as [|e r He _ IH]; intros acc Ha; simpl; [exact Ha|].
  apply IH. apply phase2_ok; assumption.
Qed.

(* an inferred object of depth <= S n has members of depth <= n that are not unions *)
Lemma members_ok n c o : sdepth (SObject c o) <= S n -> oneof_free (SObject c o) = true -> Forall (okm n) c.
Proof.
  intros Hd Hf. apply Forall_forall. intros kv Hin. split.
  - pose proof (maxdm_ge c kv Hin) as H. simpl in Hd. unfold maxdm in H. lia.
  - simpl in Hf. rewrite forallb_forall in Hf. apply oneof_free_top. exact (Hf kv Hin).
Qed.

Lemma array_text_depth es s n : array_text es = Ok s ->
  Forall (fun e => sdepth e <= n /\ oneof_free e = true) es -> sdepth s <= S n.
Proof.
  unfold array_text. intros H Hes.
  destruct (nonempty es && (len_eq1 es || all_adjacent_eq es)).
  - destruct es as [|e r]; [discriminate|]. inversion H. subst s. simpl.
    inversion Hes as [|? ? [Hd _] _]. lia.
  - destruct (len_gt1 es && forallb is_object es) eqn:G.
    + destruct es as [|e rest]; [discriminate|]. destruct e as [| | | | |c o| |]; try discriminate.
      inversion H. subst s. inversion Hes as [|? ? [Hd Hf] Hrest]. subst.
      destruct n as [|n].
      { simpl in Hd. lia. }
      assert (Hok : Forall (okm n) (objects_fold c rest)).
      { apply objects_fold_ok; [exact (members_ok n c o Hd Hf)|].
        apply Forall_forall. intros e He c' o' Ee. subst e.
        rewrite Forall_forall in Hrest. destruct (Hrest _ He) as [Hd' Hf']. exact (members_ok n c' o' Hd' Hf'). }
      simpl. apply le_n_S. apply le_n_S.
      apply (maxdm_le (objects_fold c rest) n).
      eapply Forall_impl; [|exact Hok]. intros kv [Hk _]. exact Hk.
    + destruct (len_gt1 es).
      * inversion H. subst s. simpl. apply le_n_S. apply (maxd_le es n).
        eapply Forall_impl; [|exact Hes]. intros e [He _]. exact He.
      * inversion H. simpl. lia.
Qed.

Definition jmax (l : list json) : nat := fold_right (fun e n => Nat.max (jdepth e) n) 0 l.

Theorem infer_text_depth : forall d s, infer_text d = Ok s -> sdepth s <= jdepth d.
Proof.
  induction d as [| | | |l IH|m IH] using json_ind'; intros s H.
  - inversion H. simpl. lia.
  - inversion H. simpl. lia.
  - inversion H. simpl. lia.
  - inversion H. simpl. lia.
  - cbn [infer_text] in H.
    set (go := fix go (l : list json) : outcome ierr (list shape) :=
                 match l with
                 | [] => Ok []
                 | x :: r => obind (infer_text x) (fun s => obind (go r) (fun ss => Ok (s :: ss)))
                 end) in H.
    destruct (go l) as [es|e|] eqn:E; try discriminate. cbn [obind] in H.
    assert (Hes0 : forall es, go l = Ok es -> Forall (fun e => sdepth e <= jmax l /\ oneof_free e = true) es).
    { clear H E es. induction IH as [|x r Hx _ IHr]; intros es E; cbn in E.
      - inversion E. constructor.
      - destruct (infer_text x) as [sx|?|] eqn:Ex; try discriminate. cbn [obind] in E.
        destruct (go r) as [sr|?|] eqn:Er; try discriminate. cbn [obind] in E. inversion E. subst es.
        constructor.
        + assert (Hd : sdepth sx <= jdepth x) by (first [apply Hx; reflexivity|apply Hx; exact Ex]).
          split; [simpl; lia|exact (proj2 (infer_text_ok x sx Ex))].
        + eapply Forall_impl; [|exact (IHr sr eq_refl)]. intros e0 [H1 H2]. split; [simpl; lia|exact H2]. }
    pose proof (array_text_depth es s (jmax l) H (Hes0 es E)) as Hd. simpl. unfold jmax in Hd. exact Hd.
  - cbn [infer_text] in H.
    set (go := fix go (m : list (key * json)) (acc : list (key * shape)) : outcome ierr shape :=
                 match m with
                 | [] => Ok (SObject acc false)
                 | (k, v) :: r =>
                     obind (infer_text v) (fun s =>
                       match map_get k acc with
                       | Some (SOneOf vs _) => if sset_mem s vs then go r acc else Err (DupConflict s (SOneOf vs false))
                       | Some other => if shape_eqb s other then go r acc else Err (DupConflict s other)
                       | None => go r (map_insert k s acc)
                       end)
                 end) in H.
    assert (G : forall B, Forall (fun kv => jdepth (snd kv) <= B) m ->
                forall acc, Forall (fun kv => sdepth (snd kv) <= B) acc -> go m acc = Ok s -> sdepth s <= S B).
    { intros B HB. clear H. revert HB. induction IH as [|[k v] r Hv _ IHr]; intros HB acc Ha E; cbn in E.
      - inversion E. simpl. apply le_n_S. apply (maxdm_le acc). exact Ha.
      - inversion HB as [|? ? Hvb Hrb]. subst. simpl in Hvb.
        destruct (infer_text v) as [sv|?|] eqn:Ev; try discriminate. cbn [obind] in E.
        simpl in Hv. assert (Hd : sdepth sv <= jdepth v) by (first [apply Hv; reflexivity|apply Hv; exact Ev]).
        destruct (map_get k acc) as [old|] eqn:Eg.
        + destruct old; try (destruct (shape_eqb sv _); [exact (IHr Hrb acc Ha E)|discriminate]).
          destruct (sset_mem sv _); [exact (IHr Hrb acc Ha E)|discriminate].
        + apply (IHr Hrb (map_insert k sv acc)); [|exact E].
          apply Forall_forall. intros x Hx.
          destruct (in_map_insert k sv acc x Hx) as [Ex|[[k' Ex]|Ex]].
          * subst x. simpl. lia.
          * subst x. simpl. lia.
          * rewrite Forall_forall in Ha. exact (Ha x Ex). }
    assert (HM : Forall (fun kv => jdepth (snd kv) <= fold_right (fun kv n => Nat.max (jdepth (snd kv)) n) 0 m) m).
    { clear. induction m as [|kv r IHm]; constructor; simpl.
      - lia.
      - eapply Forall_impl; [|exact IHm]. intros a Ha. simpl in Ha. lia. }
    simpl. exact (G _ HM [] (Forall_nil _) H).
Qed.

(* non-vacuity and tightness: a document whose shape is exactly as deep as it is *)
Example infer_text_depth_tight :
  let d := JArr [JObj [([97%N], JArr [JNum; JStr])]; JObj [([98%N], JNull)]] in
  exists s, infer_text d = Ok s /\ sdepth s = jdepth d.
Proof. eexists. split; [vm_compute; reflexivity|reflexivity]. Qed.

(* the value path: a serde_json::Value cannot repeat a member name (its Map is a BTreeMap), and on
   documents without repeated names the two paths agree (paths_agree) *)
Corollary infer_value_depth_nodup d s : nodup_keys d = true -> infer_value d = Ok s -> sdepth s <= jdepth d.
Proof. intros Hn H. rewrite <- (paths_agree d Hn) in H. exact (infer_text_depth d s H). Qed.
