(* InferFacts.v — structure of single-document inference: unfolding equations, induction on
   documents, the array-of-objects fold as a lookup function, wf / OneOf-freeness of results. *)
From Coq Require Import List Bool NArith Lia.
Import ListNotations.
From JS Require Import Model.Base Model.Shape Model.Sem Model.Infer
  Proofs.BaseFacts Proofs.ShapeFacts Proofs.SemFacts.

(* ---------- induction on documents ---------- *)
Section JsonInd.
  Variable P : json -> Prop.
  Hypothesis HNull : P JNull.
  Hypothesis HBool : P JBool.
  Hypothesis HNum : P JNum.
  Hypothesis HStr : P JStr.
  Hypothesis HArr : forall l, Forall P l -> P (JArr l).
  Hypothesis HObj : forall m, Forall (fun kv => P (snd kv)) m -> P (JObj m).

  Fixpoint json_ind' (d : json) : P d :=
    match d with
    | JNull => HNull | JBool => HBool | JNum => HNum | JStr => HStr
    | JArr l => HArr l ((fix go (l : list json) : Forall P l :=
                           match l with
                           | [] => Forall_nil _
                           | x :: r => Forall_cons x (json_ind' x) (go r)
                           end) l)
    | JObj m => HObj m ((fix go (m : list (key * json)) : Forall (fun kv => P (snd kv)) m :=
                           match m with
                           | [] => Forall_nil _
                           | kv :: r => Forall_cons kv (json_ind' (snd kv)) (go r)
                           end) m)
    end.
End JsonInd.

(* ---------- unfolding ---------- *)
Fixpoint obj_loop (f : json -> outcome ierr shape) (m : list (key * json)) (acc : list (key * shape))
  : outcome ierr shape :=
  match m with
  | [] => Ok (SObject acc false)
  | (k, v) :: r =>
      obind (f v) (fun s =>
        match map_get k acc with
        | Some (SOneOf vs _) =>
            if sset_mem s vs then obj_loop f r acc else Err (DupConflict s (SOneOf vs false))
        | Some other => if shape_eqb s other then obj_loop f r acc else Err (DupConflict s other)
        | None => obj_loop f r (map_insert k s acc)
        end)
  end.

Fixpoint val_loop (f : json -> outcome ierr shape) (m : list (key * json)) (acc : list (key * shape))
  : outcome ierr shape :=
  match m with
  | [] => Ok (SObject acc false)
  | (k, v) :: r => obind (f v) (fun s => val_loop f r (map_insert k s acc))
  end.

Lemma infer_text_arr l : infer_text (JArr l) = obind (mapM_o infer_text l) array_text.
Proof.
  simpl. f_equal. induction l as [|x r IH]; simpl; [reflexivity|]. rewrite IH. reflexivity.
Qed.

Lemma infer_text_obj m : infer_text (JObj m) = obj_loop infer_text m [].
Proof.
  simpl. generalize (@nil (key * shape)). induction m as [|[k v] r IH]; intro acc; simpl; [reflexivity|].
  destruct (infer_text v) as [s| |]; simpl; try reflexivity.
  destruct (map_get k acc) as [[| | | | | |vs o|]|]; try rewrite IH; try reflexivity.
Qed.

Lemma infer_value_arr l : infer_value (JArr l) = obind (mapM_o infer_value l) array_value.
Proof.
  simpl. f_equal. induction l as [|x r IH]; simpl; [reflexivity|]. rewrite IH. reflexivity.
Qed.

Lemma infer_value_obj m : infer_value (JObj m) = val_loop infer_value m [].
Proof.
  simpl. generalize (@nil (key * shape)). induction m as [|[k v] r IH]; intro acc; simpl; [reflexivity|].
  destruct (infer_value v) as [s| |]; simpl; try reflexivity. apply IH.
Qed.

Lemma mapM_o_ok {E A B} (f : A -> outcome E B) l ss : mapM_o f l = Ok ss ->
  Forall2 (fun x s => f x = Ok s) l ss.
Proof.
  revert ss. induction l as [|x r IH]; intros ss H; simpl in H.
  - inversion H. constructor.
  - destruct (f x) as [s| |] eqn:Efx; simpl in H; try discriminate.
    destruct (mapM_o f r) as [rs| |] eqn:E2; simpl in H; try discriminate.
    inversion H. subst. constructor; [exact Efx|]. apply IH. reflexivity.
Qed.

Lemma mapM_o_of_forall2 {E A B} (f : A -> outcome E B) l ss :
  Forall2 (fun x s => f x = Ok s) l ss -> mapM_o f l = Ok ss.
Proof. induction 1 as [|x s r rs H Hr IH]; simpl; [reflexivity|]. rewrite H. simpl. rewrite IH. reflexivity. Qed.

(* ---------- the array classification ---------- *)
Definition top_not_oneof (s : shape) : bool := negb (is_oneof s).

Lemma len_gt1_cases es : len_gt1 es = true -> exists a b r, es = a :: b :: r.
Proof. destruct es as [|a [|b r]]; try discriminate. eauto. Qed.

(* phase 1 as a lookup function *)
Definition obj_has (k : key) (e : shape) : bool :=
  match e with SObject c _ => map_has k c | _ => true end.

Lemma map_get_map (g : key * shape -> key * shape) (l : list (key * shape)) k :
  (forall kv, fst (g kv) = fst kv) ->
  map_get k (map g l) = option_map (fun v => snd (g (k, v))) (map_get k l).
Proof.
  intro Hg. induction l as [|[k1 v1] r IH]; simpl; [reflexivity|].
  specialize (Hg (k1, v1)) as Hg1. destruct (g (k1, v1)) as [k2 v2] eqn:E. simpl in Hg1. subst k2.
  destruct (key_eqb k k1) eqn:E1.
  - apply key_eqb_eq in E1. subst k1. simpl. rewrite E. reflexivity.
  - exact IH.
Qed.

Lemma keys_sorted_map (g : key * shape -> key * shape) (l : list (key * shape)) :
  (forall kv, fst (g kv) = fst kv) -> keys_sorted (map g l) = keys_sorted l.
Proof.
  intro Hg. induction l as [|[k1 v1] r IH]; [reflexivity|].
  destruct r as [|[k2 v2] r2].
  - simpl. destruct (g (k1, v1)). reflexivity.
  - change (map g ((k1, v1) :: (k2, v2) :: r2)) with (g (k1, v1) :: map g ((k2, v2) :: r2)).
    pose proof (Hg (k1, v1)) as H1. pose proof (Hg (k2, v2)) as H2.
    simpl in IH. simpl. destruct (g (k1, v1)) as [a1 b1]. destruct (g (k2, v2)) as [a2 b2].
    simpl in H1, H2. subst. destruct (cmp_key k1 k2); try reflexivity. exact IH.
Qed.

Lemma phase1_step_get k acc e :
  map_get k (phase1_step acc e) =
  option_map (fun v => if obj_has k e then v else as_optional v) (map_get k acc).
Proof.
  destruct e as [| | | | |c o| |]; simpl; try (destruct (map_get k acc); reflexivity).
  rewrite map_get_map by (intros [k1 v1]; simpl; destruct (map_has k1 c); reflexivity).
  destruct (map_get k acc); [|reflexivity]. simpl. destruct (map_has k c); reflexivity.
Qed.

Lemma phase1_step_sorted acc e : keys_sorted (phase1_step acc e) = keys_sorted acc.
Proof.
  destruct e as [| | | | |c o| |]; simpl; try reflexivity.
  apply keys_sorted_map. intros [k1 v1]. simpl. destruct (map_has k1 c); reflexivity.
Qed.

Lemma as_optional_idem s : as_optional (as_optional s) = as_optional s.
Proof. apply set_flag_idem. Qed.

Lemma phase1_get k rest : forall acc,
  map_get k (fold_left phase1_step rest acc) =
  option_map (fun v => if forallb (obj_has k) rest then v else as_optional v) (map_get k acc).
Proof.
  induction rest as [|e r IH]; intro acc; simpl.
  - destruct (map_get k acc); reflexivity.
  - rewrite IH, phase1_step_get. destruct (map_get k acc) as [v|]; [|reflexivity]. simpl.
    destruct (obj_has k e); simpl; [reflexivity|].
    destruct (forallb (obj_has k) r); [reflexivity|]. rewrite as_optional_idem. reflexivity.
Qed.

Lemma phase1_sorted rest : forall acc, keys_sorted (fold_left phase1_step rest acc) = keys_sorted acc.
Proof.
  induction rest as [|e r IH]; intro acc; simpl; [reflexivity|]. rewrite IH. apply phase1_step_sorted.
Qed.

(* phase 2 when no value is a OneOf at top level (always the case for inferred shapes) *)
Definition vals_not_oneof (c : list (key * shape)) : Prop := Forall (fun kv => top_not_oneof (snd kv) = true) c.

Lemma oneof_push_not_oneof v e : top_not_oneof e = true -> oneof_push v e = e.
Proof. destruct e; simpl; try reflexivity. discriminate. Qed.

Lemma top_not_oneof_opt v : top_not_oneof (as_optional v) = top_not_oneof v.
Proof. destruct v; reflexivity. Qed.

Lemma vals_not_oneof_get c k v : vals_not_oneof c -> map_get k c = Some v -> top_not_oneof v = true.
Proof.
  intros H G. apply map_get_In in G. unfold vals_not_oneof in H. rewrite Forall_forall in H. apply (H (k, v) G).
Qed.

Lemma vals_not_oneof_insert k v c : top_not_oneof v = true -> vals_not_oneof c -> vals_not_oneof (map_insert k v c).
Proof.
  intros Hv Hc. unfold vals_not_oneof in *. induction Hc as [|[k1 v1] r H1 Hr IH]; simpl.
  - constructor; [exact Hv|constructor].
  - destruct (cmp_key k k1).
    + constructor; [exact Hv|exact Hr].
    + constructor; [exact Hv|]. constructor; assumption.
    + constructor; [exact H1|exact IH].
Qed.

Definition phase2_member' (acc : list (key * shape)) (kv : key * shape) : list (key * shape) :=
  match map_get (fst kv) acc with
  | Some _ => acc
  | None => map_insert (fst kv) (as_optional (snd kv)) acc
  end.

Lemma phase2_member_simpl acc kv : vals_not_oneof acc -> top_not_oneof (snd kv) = true ->
  phase2_member acc kv = phase2_member' acc kv /\ vals_not_oneof (phase2_member' acc kv).
Proof.
  intros Ha Hv. unfold phase2_member, phase2_member'.
  destruct (map_get (fst kv) acc) as [old|] eqn:G.
  - pose proof (vals_not_oneof_get _ _ _ Ha G) as Ho. split; [|exact Ha].
    destruct old; try reflexivity. discriminate.
  - rewrite oneof_push_not_oneof by (rewrite top_not_oneof_opt; exact Hv). split; [reflexivity|].
    apply vals_not_oneof_insert; [rewrite top_not_oneof_opt; exact Hv|exact Ha].
Qed.

Lemma phase2_members_simpl c : forall acc, vals_not_oneof acc -> vals_not_oneof c ->
  fold_left phase2_member c acc = fold_left phase2_member' c acc /\
  vals_not_oneof (fold_left phase2_member' c acc).
Proof.
  induction c as [|kv r IH]; intros acc Ha Hc; simpl; [auto|].
  inversion Hc as [|? ? H1 Hr]; subst.
  destruct (phase2_member_simpl acc kv Ha H1) as [E Hn]. rewrite E. apply IH; assumption.
Qed.

(* value of k in the first element (in order) that has it *)
Fixpoint first_value (k : key) (es : list shape) : option shape :=
  match es with
  | [] => None
  | SObject c _ :: r => match map_get k c with Some v => Some v | None => first_value k r end
  | _ :: r => first_value k r
  end.

Lemma phase2_members_get k c : keys_sorted c = true -> forall acc,
  map_get k (fold_left phase2_member' c acc) =
  match map_get k acc with
  | Some x => Some x
  | None => option_map as_optional (map_get k c)
  end.
Proof.
  induction c as [|[k1 v1] r IH]; intros Hs acc; simpl.
  - destruct (map_get k acc); reflexivity.
  - apply keys_sorted_cons in Hs. destruct Hs as [Ha Hs]. rewrite (IH Hs).
    unfold phase2_member'. simpl.
    destruct (map_get k1 acc) as [x1|] eqn:G1.
    + destruct (map_get k acc) as [x|] eqn:G; [reflexivity|].
      destruct (key_eqb k k1) eqn:E; [|reflexivity].
      apply key_eqb_eq in E. subst k1. congruence.
    + rewrite map_get_insert. destruct (key_eqb k k1) eqn:E.
      * apply key_eqb_eq in E. subst k1. rewrite G1. reflexivity.
      * reflexivity.
Qed.

Lemma phase2_members_sorted c : forall acc, keys_sorted acc = true ->
  keys_sorted (fold_left phase2_member' c acc) = true.
Proof.
  induction c as [|[k1 v1] r IH]; intros acc Hs; simpl; [exact Hs|]. apply IH.
  unfold phase2_member'. simpl. destruct (map_get k1 acc); [exact Hs|apply keys_sorted_insert; exact Hs].
Qed.

(* a list of object shapes with sorted keys whose values are not OneOf *)
Definition good_obj (e : shape) : Prop :=
  match e with
  | SObject c _ => keys_sorted c = true /\ vals_not_oneof c
  | _ => False
  end.

Lemma phase2_get k rest : Forall good_obj rest -> forall acc, vals_not_oneof acc ->
  map_get k (fold_left phase2_step rest acc) =
  match map_get k acc with
  | Some x => Some x
  | None => option_map as_optional (first_value k rest)
  end
  /\ (keys_sorted acc = true -> keys_sorted (fold_left phase2_step rest acc) = true)
  /\ vals_not_oneof (fold_left phase2_step rest acc).
Proof.
  induction 1 as [|e r He Hr IH]; intros acc Ha; simpl.
  - split; [destruct (map_get k acc); reflexivity|auto].
  - destruct e as [| | | | |c o| |]; simpl in He; try contradiction. destruct He as [Hs Hn].
    simpl. destruct (phase2_members_simpl c acc Ha Hn) as [E Hn2]. rewrite E.
    destruct (IH _ Hn2) as [G [S N]]. split; [|split; [|exact N]].
    + rewrite G, (phase2_members_get k c Hs).
      destruct (map_get k acc); [reflexivity|].
      destruct (map_get k c); reflexivity.
    + intro Hsa. apply S. apply phase2_members_sorted. exact Hsa.
Qed.

Lemma vals_not_oneof_phase1 rest : forall acc, vals_not_oneof acc -> vals_not_oneof (fold_left phase1_step rest acc).
Proof.
  induction rest as [|e r IH]; intros acc Ha; simpl; [exact Ha|]. apply IH.
  destruct e as [| | | | |c o| |]; simpl; try exact Ha.
  unfold vals_not_oneof in *. apply Forall_forall. intros kv Hin. apply in_map_iff in Hin.
  destruct Hin as [[k1 v1] [E Hin]]. rewrite Forall_forall in Ha. specialize (Ha _ Hin). simpl in *.
  destruct (map_has k1 c); subst; simpl; [exact Ha|]. rewrite top_not_oneof_opt. exact Ha.
Qed.

(* the whole fold as a lookup function (C17: array-of-objects key laws) *)
Theorem objects_fold_get k first rest :
  keys_sorted first = true -> vals_not_oneof first -> Forall good_obj rest ->
  map_get k (objects_fold first rest) =
  match map_get k first with
  | Some v => Some (if forallb (obj_has k) rest then v else as_optional v)
  | None => option_map as_optional (first_value k rest)
  end
  /\ keys_sorted (objects_fold first rest) = true
  /\ vals_not_oneof (objects_fold first rest).
Proof.
  intros Hs Hn Hr. unfold objects_fold.
  pose proof (vals_not_oneof_phase1 rest first Hn) as Hn1.
  destruct (phase2_get k rest Hr _ Hn1) as [G [S N]].
  split; [|split; [apply S; rewrite phase1_sorted; exact Hs|exact N]].
  rewrite G, phase1_get. destruct (map_get k first); reflexivity.
Qed.

(* ---------- results of inference are wf and OneOf-free ---------- *)
Definition infer_ok (s : shape) : Prop := wf s = true /\ oneof_free s = true.

Lemma oneof_free_top s : oneof_free s = true -> top_not_oneof s = true.
Proof. destruct s; simpl; try reflexivity. discriminate. Qed.

Lemma infer_ok_good_obj e : infer_ok e -> is_object e = true -> good_obj e.
Proof.
  intros [Hw Hf] Ho. destruct e as [| | | | |c o| |]; try discriminate. simpl in *.
  apply andb_true_iff in Hw. destruct Hw as [Hs Hw]. split; [exact Hs|].
  unfold vals_not_oneof. rewrite forallb_forall in Hf. apply Forall_forall. intros kv Hin.
  apply oneof_free_top. apply Hf. exact Hin.
Qed.

Lemma oneof_free_opt s : oneof_free (as_optional s) = oneof_free s.
Proof. destruct s; reflexivity. Qed.

Lemma infer_ok_opt s : infer_ok s -> infer_ok (as_optional s).
Proof. intros [H1 H2]. split; [unfold as_optional; rewrite wf_set_flag; exact H1|rewrite oneof_free_opt; exact H2]. Qed.

(* all values reachable through the fold are inferred-ok *)
Lemma objects_fold_vals_ok first rest :
  keys_sorted first = true -> Forall (fun kv => infer_ok (snd kv)) first ->
  Forall (fun e => infer_ok e /\ is_object e = true) rest ->
  Forall (fun kv => infer_ok (snd kv)) (objects_fold first rest).
Proof.
  intros Hs Hf Hr.
  assert (Hn : vals_not_oneof first).
  { eapply Forall_impl; [|exact Hf]. intros kv [_ H]. apply oneof_free_top. exact H. }
  assert (Hg : Forall good_obj rest).
  { eapply Forall_impl; [|exact Hr]. intros e [H1 H2]. apply infer_ok_good_obj; assumption. }
  apply Forall_forall. intros [k v] Hin.
  destruct (objects_fold_get k first rest Hs Hn Hg) as [G [S _]].
  rewrite (sorted_get_In _ _ _ S Hin) in G. simpl.
  destruct (map_get k first) as [v0|] eqn:G0.
  - apply map_get_In in G0. rewrite Forall_forall in Hf. specialize (Hf _ G0). simpl in Hf.
    inversion G. destruct (forallb (obj_has k) rest); [exact Hf|apply infer_ok_opt; exact Hf].
  - assert (Hfv : forall es, Forall (fun e => infer_ok e /\ is_object e = true) es ->
                  forall v1, first_value k es = Some v1 -> infer_ok v1).
    { induction 1 as [|e r [He1 He2] Hr' IH]; intros v1 Hv; simpl in Hv; [discriminate|].
      destruct e as [| | | | |c o| |]; try discriminate.
      destruct (map_get k c) as [vv|] eqn:Gc.
      - inversion Hv. subst. destruct He1 as [Hw Ho]. simpl in Hw, Ho.
        apply andb_true_iff in Hw. destruct Hw as [_ Hw]. rewrite forallb_forall in Hw, Ho.
        apply map_get_In in Gc. split; [apply (Hw _ Gc)|apply (Ho _ Gc)].
      - apply IH. exact Hv. }
    destruct (first_value k rest) as [v1|] eqn:F; inversion G.
    apply infer_ok_opt. eapply Hfv; eassumption.
Qed.

Lemma array_text_ok es s : Forall infer_ok es -> array_text es = Ok s -> infer_ok s.
Proof.
  intros Hes H. unfold array_text in H.
  destruct (nonempty es && (len_eq1 es || all_adjacent_eq es)) eqn:E1.
  - destruct es as [|e r]; [discriminate|]. simpl in H. inversion H. inversion Hes. subst. assumption.
  - destruct (len_gt1 es && forallb is_object es) eqn:E2.
    + apply andb_true_iff in E2. destruct E2 as [E2 E3].
      destruct es as [|e r]; [discriminate|]. simpl in E3. apply andb_true_iff in E3. destruct E3 as [Eo Er].
      destruct e as [| | | | |c o| |]; try discriminate. simpl in H. inversion H. subst s. clear H.
      inversion Hes as [|? ? [Hw Hf] Hrest]; subst.
      simpl in Hw, Hf. apply andb_true_iff in Hw. destruct Hw as [Hs Hw].
      assert (Hfirst : Forall (fun kv => infer_ok (snd kv)) c).
      { apply Forall_forall. intros kv Hin. rewrite forallb_forall in Hw, Hf. split; auto. }
      assert (Hrest' : Forall (fun e => infer_ok e /\ is_object e = true) r).
      { rewrite Forall_forall in *. rewrite forallb_forall in Er. intros e He. split; auto. }
      pose proof (objects_fold_vals_ok c r Hs Hfirst Hrest') as Hv.
      assert (Hn : vals_not_oneof c).
      { eapply Forall_impl; [|exact Hfirst]. intros kv [_ H]. apply oneof_free_top. exact H. }
      assert (Hg : Forall good_obj r).
      { eapply Forall_impl; [|exact Hrest']. intros e [H1 H2]. apply infer_ok_good_obj; assumption. }
      destruct (objects_fold_get [] c r Hs Hn Hg) as [_ [S _]].
      split; simpl; rewrite ?S; simpl; apply forallb_forall; intros kv Hin;
        rewrite Forall_forall in Hv; apply (Hv kv Hin).
    + destruct (len_gt1 es); inversion H; subst.
      * split; simpl; apply forallb_forall; intros e He; rewrite Forall_forall in Hes; apply (Hes e He).
      * split; reflexivity.
Qed.

Lemma map_insert_ok k v acc : infer_ok v -> Forall (fun kv => infer_ok (snd kv)) acc ->
  Forall (fun kv : key * shape => infer_ok (snd kv)) (map_insert k v acc).
Proof.
  intros Hv Hacc. induction Hacc as [|[k1 v1] r H1 Hr IH]; simpl.
  - constructor; [exact Hv|constructor].
  - destruct (cmp_key k k1).
    + constructor; [exact Hv|exact Hr].
    + constructor; [exact Hv|]. constructor; assumption.
    + constructor; [exact H1|exact IH].
Qed.

Lemma object_ok acc : keys_sorted acc = true -> Forall (fun kv => infer_ok (snd kv)) acc ->
  infer_ok (SObject acc false).
Proof.
  intros Hs Hf. split; simpl; rewrite ?Hs; simpl; apply forallb_forall; intros kv Hin;
    rewrite Forall_forall in Hf; apply (Hf kv Hin).
Qed.

Theorem infer_text_ok : forall d s, infer_text d = Ok s -> infer_ok s.
Proof.
  induction d as [| | | |l IH|m IH] using json_ind'; intros s H.
  - inversion H. split; reflexivity.
  - inversion H. split; reflexivity.
  - inversion H. split; reflexivity.
  - inversion H. split; reflexivity.
  - rewrite infer_text_arr in H. destruct (mapM_o infer_text l) as [ss| |] eqn:E; simpl in H; try discriminate.
    apply mapM_o_ok in E. eapply array_text_ok; [|exact H].
    clear H. induction E as [|x s0 r rs Hx Hr IHr]; [constructor|].
    inversion IH; subst. constructor; auto.
  - rewrite infer_text_obj in H.
    assert (G : forall acc, keys_sorted acc = true -> Forall (fun kv => infer_ok (snd kv)) acc ->
                obj_loop infer_text m acc = Ok s -> infer_ok s).
    { clear H. induction m as [|[k v] r IHm]; intros acc Hs Hf H; simpl in H.
      - inversion H. apply object_ok; assumption.
      - inversion IH as [|? ? Hv Hr]; subst. simpl in Hv.
        destruct (infer_text v) as [sv| |] eqn:E; simpl in H; try discriminate.
        destruct (map_get k acc) as [old|] eqn:Gk.
        + destruct old as [| | | | | |vs o|];
            try (destruct (shape_eqb sv _); [eapply IHm; eauto|discriminate]).
          destruct (sset_mem sv vs); [eapply IHm; eauto|discriminate].
        + eapply IHm; [exact Hr| | |exact H].
          * apply keys_sorted_insert. exact Hs.
          * apply map_insert_ok; [apply Hv; reflexivity|exact Hf]. }
    apply (G [] eq_refl (Forall_nil _) H).
Qed.

Corollary infer_text_wf d s : infer_text d = Ok s -> wf s = true.
Proof. intro H. apply (infer_text_ok d s H). Qed.

Corollary infer_text_oneof_free d s : infer_text d = Ok s -> oneof_free s = true.
Proof. intro H. apply (infer_text_ok d s H). Qed.

(* an inferred Object shape comes from an object document and is never optional *)
Lemma obj_loop_shape f m : forall acc s, obj_loop f m acc = Ok s -> exists acc', s = SObject acc' false.
Proof.
  induction m as [|[k v] r IH]; intros acc s H; simpl in H.
  - inversion H. eauto.
  - destruct (f v) as [sv| |]; simpl in H; try discriminate.
    destruct (map_get k acc) as [[| | | | | |vs o|]|];
      try (destruct (shape_eqb sv _); [eapply IH; exact H|discriminate]); try (eapply IH; exact H).
    destruct (sset_mem sv vs); [eapply IH; exact H|discriminate].
Qed.

Lemma array_text_not_object es c o : array_text es <> Ok (SObject c o).
Proof.
  unfold array_text. destruct (nonempty es && (len_eq1 es || all_adjacent_eq es)).
  - destruct es; simpl; discriminate.
  - destruct (len_gt1 es && forallb is_object es).
    + destruct es as [|[| | | | |c0 o0| |] r]; simpl; discriminate.
    + destruct (len_gt1 es); discriminate.
Qed.

Lemma infer_text_object_shape d c o : infer_text d = Ok (SObject c o) -> o = false /\ exists m, d = JObj m.
Proof.
  destruct d as [| | | |l|m]; try (simpl; discriminate).
  - rewrite infer_text_arr. destruct (mapM_o infer_text l) as [es| |]; simpl; try discriminate.
    intro H. exfalso. eapply array_text_not_object. exact H.
  - rewrite infer_text_obj. intro H. destruct (obj_loop_shape _ _ _ _ H) as [acc' E].
    inversion E. split; [reflexivity|eauto].
Qed.
