(* MergerConverge.v — C09: merging the same (OneOf-free) shape a second time changes nothing. *)
From Coq Require Import List Bool NArith Lia.
Import ListNotations.
From JS Require Import Model.Base Model.Shape Model.Sem Model.Subset Model.Merger Model.Infer Model.Api
  Proofs.BaseFacts Proofs.ShapeFacts Proofs.SemFacts Proofs.SubsetFacts Proofs.SubsetSound
  Proofs.MergerFacts Proofs.MergerSound Proofs.MergerAlgebra Proofs.InferFacts Proofs.SourcesSound.

Lemma obj_merge_self c : keys_sorted c = true -> Forall (fun kv => wf (snd kv) = true) c ->
  obj_merge_go merger c c [] = c.
Proof.
  intros Hs Hw. assert (H : wf (SObject c false) = true) by (apply wf_object; auto).
  pose proof (merge_idem _ H) as E. rewrite merger_object_object in E. injection E. auto.
Qed.

(* merging s into its own optional form changes nothing *)
Lemma absorb_self s : wf s = true -> oneof_free s = true -> merger (as_optional s) s = as_optional s.
Proof.
  intros Hw Hf. destruct s as [|o|o|o|t o|c o|vs o|es o]; try reflexivity; try discriminate.
  - simpl in Hw. simpl. rewrite (merge_idem t Hw). reflexivity.
  - change (as_optional (SObject c o)) with (SObject c true). rewrite merger_object_object.
    apply wf_object in Hw. destruct Hw as [Hs Hwv]. rewrite obj_merge_self by assumption. reflexivity.
  - change (as_optional (STuple es o)) with (STuple es true). cbn [merger].
    apply wf_tuple in Hw. rewrite (fold_tuple_self es Hw). reflexivity.
Qed.

(* a OneOf that already holds the non-optional form of s (and Null if s is optional) absorbs s *)
Lemma oneof_absorbs ws o s : sorted cmp ws = true -> s <> SNull -> is_oneof s = false ->
  In (as_non_optional s) ws -> (is_optional s = true -> In SNull ws) ->
  merger (SOneOf ws o) s = SOneOf ws o.
Proof.
  intros Hs Hn Ho Hin Hnull.
  assert (E : merger (SOneOf ws o) s = SOneOf (sset_insert (as_non_optional s) (null_if (is_optional s) ws)) o).
  { destruct s; try reflexivity; [contradiction|discriminate]. }
  rewrite E. f_equal.
  assert (E2 : null_if (is_optional s) ws = ws).
  { unfold null_if. destruct (is_optional s); [|reflexivity]. apply sset_insert_present; auto. }
  rewrite E2. apply sset_insert_present; assumption.
Qed.

Lemma kind_pair_absorbs x s n : s <> SNull -> is_oneof s = false -> (is_optional s = true -> n = true) ->
  merger (kind_pair x (as_non_optional s) n) s = kind_pair x (as_non_optional s) n.
Proof.
  intros Hn Ho Hopt. unfold kind_pair. apply oneof_absorbs; auto.
  - apply null_if_sorted. apply sset_sorted_insert. apply sset_sorted_insert. reflexivity.
  - apply kind_pair_In. right. left. reflexivity.
  - intro H. apply kind_pair_In. right. right. auto.
Qed.

Lemma into_oneof_absorbs vs oo s : sorted cmp vs = true -> s <> SNull -> is_oneof s = false ->
  merger (into_oneof s (is_optional s) vs oo) s = into_oneof s (is_optional s) vs oo.
Proof.
  intros Hs Hn Ho. unfold into_oneof. apply oneof_absorbs; auto.
  - apply sset_sorted_insert. apply null_if_sorted. exact Hs.
  - apply sset_insert_In. left. reflexivity.
  - intro H. apply sset_insert_In. right. apply null_if_In. left. auto.
Qed.

(* Tuple + Tuple: folding twice *)
Lemma opt_not_subset_null e : e <> SNull -> is_subset (as_optional e) SNull = false.
Proof. destruct e; try reflexivity. contradiction. Qed.

Lemma opt_not_subset_self x : oneof_free x = true -> is_optional x = false -> is_subset (as_optional x) x = false.
Proof.
  destruct x as [|o|o|o|t o|c o|vs o|es o]; simpl; intros Hf Ho; try discriminate; subst; try reflexivity.
Qed.

Lemma fold_pair_twice e x v : wf e = true -> wf x = true -> oneof_free x = true ->
  fold_pair e x = Some v -> fold_pair v x = Some v.
Proof.
  intros He Hx Hf H. unfold fold_pair in H.
  destruct (is_subset e x) eqn:E1.
  - inversion H. subst v. unfold fold_pair. rewrite (subset_refl x Hx). reflexivity.
  - destruct (is_subset x e) eqn:E2.
    + inversion H. subst v. unfold fold_pair. rewrite E1, E2. reflexivity.
    + destruct (is_null x) eqn:E3.
      * inversion H. subst v. destruct x; try discriminate.
        assert (e <> SNull) by (intro; subst; discriminate).
        unfold fold_pair. rewrite (opt_not_subset_null e H0). simpl.
        assert (is_optional (as_optional e) = true) by (destruct e; reflexivity). rewrite H1. reflexivity.
      * destruct (is_null e) eqn:E4; [|discriminate]. inversion H. subst v. destruct e; try discriminate.
        simpl in E1. apply orb_false_iff in E1. destruct E1 as [E1 _].
        unfold fold_pair. rewrite (opt_not_subset_self x Hf E1), (subset_as_optional x Hx). reflexivity.
Qed.

Lemma fold_tuple_twice es : forall os folded, Forall (fun e => wf e = true) es ->
  Forall (fun e => wf e = true) os -> forallb oneof_free os = true ->
  fold_tuple es os = Some folded -> fold_tuple folded os = Some folded.
Proof.
  induction es as [|e r IH]; intros [|x os] folded Hes Hos Hf H; simpl in H; try discriminate.
  - inversion H. reflexivity.
  - destruct (fold_pair e x) as [v|] eqn:E; [|discriminate].
    destruct (fold_tuple r os) as [rr|] eqn:E2; [|discriminate]. inversion H. subst folded.
    inversion Hes; inversion Hos; subst. simpl in Hf. apply andb_true_iff in Hf. destruct Hf as [Hf1 Hf2].
    simpl. rewrite (fold_pair_twice e x v) by assumption. rewrite (IH os rr) by assumption. reflexivity.
Qed.

(* re-merging a tuple into the array it produced *)
Lemma tuple_array_set_stable X es : sorted cmp X = true ->
  (forall e, In e es -> In (as_non_optional e) X) ->
  (existsb is_optional es = true -> In SNull X) ->
  tuple_array_set (SOneOf X false) es = X.
Proof.
  intros Hs He Hn. apply sset_ext; [|exact Hs|].
  - unfold tuple_array_set. apply fold_nonopt_sorted. apply insert_flat_sorted. apply null_if_sorted. reflexivity.
  - intro z. rewrite tuple_array_set_In. simpl. rewrite orb_false_r. split.
    + intros [H|[[e [H1 ->]]|[H ->]]]; auto.
    + intro H. left. exact H.
Qed.

Lemma tuple_array_set_sorted t es : sorted cmp (tuple_array_set t es) = true.
Proof. unfold tuple_array_set. apply fold_nonopt_sorted. apply insert_flat_sorted. apply null_if_sorted. reflexivity. Qed.

Lemma tuples_set_sorted es os : sorted cmp (tuples_set es os) = true.
Proof. unfold tuples_set. apply fold_nonopt_sorted. apply fold_nonopt_sorted. apply null_if_sorted. reflexivity. Qed.

Lemma orb_absorb (a b : bool) : a || b || b = a || b.
Proof. destruct a, b; reflexivity. Qed.

Definition conv_ok (s : shape) : Prop := wf s = true /\ oneof_free s = true /\ no_null_array s = true.

Lemma conv_ok_array t o : conv_ok (SArray t o) -> conv_ok t /\ t <> SNull.
Proof.
  intros [Hw [Hf Hn]]. simpl in *. apply andb_true_iff in Hn. destruct Hn as [Hn1 Hn2].
  split; [split; [|split]; assumption|]. intro; subst; discriminate.
Qed.

Lemma conv_ok_object c o k v : conv_ok (SObject c o) -> In (k, v) c -> conv_ok v.
Proof.
  intros [Hw [Hf Hn]] Hin. simpl in *. apply andb_true_iff in Hw. destruct Hw as [_ Hw].
  rewrite forallb_forall in Hw, Hf, Hn. split; [|split]; [apply (Hw _ Hin)|apply (Hf _ Hin)|apply (Hn _ Hin)].
Qed.

Lemma conv_ok_nonnull_cases s : conv_ok s -> is_oneof s = false.
Proof. intros [_ [Hf _]]. destruct s; try reflexivity. discriminate. Qed.

Theorem add_twice : forall a s, wf a = true -> conv_ok s -> merger (merger a s) s = merger a s.
Proof.
  induction a as [|o|o|o|t o IH|c o IH|vs o IH|es o IH] using shape_ind'; intros s Ha Hs;
    pose proof (conv_ok_nonnull_cases s Hs) as Hno; pose proof Hs as [Hws [Hfs Hns]].
  - (* Null *) simpl. apply absorb_self; assumption.
  - rewrite (merger_scalar (SBool o)) by reflexivity.
    destruct s as [|o'|o'|o'|t' o'|c' o'|ws oo|os o']; try discriminate Hno;
      try (simpl; rewrite ?orb_absorb; reflexivity);
      (apply kind_pair_absorbs; [discriminate|reflexivity|intro H; simpl in *; rewrite H; apply orb_true_r]).
  - rewrite (merger_scalar (SNumber o)) by reflexivity.
    destruct s as [|o'|o'|o'|t' o'|c' o'|ws oo|os o']; try discriminate Hno;
      try (simpl; rewrite ?orb_absorb; reflexivity);
      (apply kind_pair_absorbs; [discriminate|reflexivity|intro H; simpl in *; rewrite H; apply orb_true_r]).
  - rewrite (merger_scalar (SString o)) by reflexivity.
    destruct s as [|o'|o'|o'|t' o'|c' o'|ws oo|os o']; try discriminate Hno;
      try (simpl; rewrite ?orb_absorb; reflexivity);
      (apply kind_pair_absorbs; [discriminate|reflexivity|intro H; simpl in *; rewrite H; apply orb_true_r]).
  - (* Array *)
    destruct s as [|o'|o'|o'|t' o'|c' o'|ws oo|os o']; try discriminate Hno;
      try reflexivity;
      try (cbn [merger]; apply kind_pair_absorbs; [discriminate|reflexivity|intro H; simpl in *; rewrite H; apply orb_true_r]).
    + destruct (conv_ok_array _ _ Hs) as [Ht' _]. cbn [merger]. simpl in Ha.
      rewrite (IH t' Ha Ht'), orb_absorb. reflexivity.
    + cbn [merger]. rewrite orb_absorb. f_equal. f_equal.
      apply tuple_array_set_stable.
      * apply tuple_array_set_sorted.
      * intros e He. apply tuple_array_set_In. right. left. exists e. auto.
      * intro H. apply tuple_array_set_In. right. right. split; [rewrite H; reflexivity|reflexivity].
  - (* Object *)
    destruct s as [|o'|o'|o'|t' o'|c' o'|ws oo|os o']; try discriminate Hno;
      try reflexivity;
      try (cbn [merger]; apply kind_pair_absorbs; [discriminate|reflexivity|intro H; simpl in *; rewrite H; apply orb_true_r]).
    rewrite !merger_object_object, orb_absorb. f_equal.
    apply wf_object in Ha. destruct Ha as [Hsc Hwc]. pose proof Hws as Hws'. apply wf_object in Hws'. destruct Hws' as [Hsc' Hwc'].
    assert (Hsm : keys_sorted (obj_merge_go merger c c' []) = true) by (apply obj_merge_go_sorted; reflexivity).
    apply map_ext; [apply obj_merge_go_sorted; reflexivity|exact Hsm|].
    intro k. rewrite (obj_merge_go_get merger k _ Hsm) by exact Hsc'.
    rewrite (obj_merge_go_get merger k c Hsc) by exact Hsc'.
    destruct (map_get k c) as [v|] eqn:G; destruct (map_get k c') as [v'|] eqn:G'; try reflexivity.
    + apply map_get_In in G. apply map_get_In in G'. rewrite Forall_forall in IH, Hwc.
      pose proof (IH (k, v) G v' (Hwc _ G) (conv_ok_object _ _ _ _ Hs G')) as E. simpl in E. rewrite E. reflexivity.
    + rewrite as_optional_idem. reflexivity.
    + apply map_get_In in G'. destruct (conv_ok_object _ _ _ _ Hs G') as [H1 [H2 _]].
      rewrite absorb_self by assumption. reflexivity.
  - (* OneOf *)
    apply wf_oneof in Ha. destruct Ha as [Hsv _].
    destruct s as [|o'|o'|o'|t' o'|c' o'|ws oo|os o']; try discriminate Hno; try reflexivity;
      (match goal with |- merger (merger ?a ?s) ?s = _ =>
         assert (E : merger a s = SOneOf (sset_insert (as_non_optional s) (null_if (is_optional s) vs)) o) by reflexivity
       end; rewrite E; apply oneof_absorbs;
       [apply sset_sorted_insert; apply null_if_sorted; exact Hsv|discriminate|reflexivity
       |apply sset_insert_In; left; reflexivity
       |intro H; apply sset_insert_In; right; apply null_if_In; left; auto]).
  - (* Tuple *)
    destruct s as [|o'|o'|o'|t' o'|c' o'|ws oo|os o']; try discriminate Hno;
      try reflexivity;
      try (cbn [merger]; apply kind_pair_absorbs; [discriminate|reflexivity|intro H; simpl in *; rewrite H; apply orb_true_r]).
    + (* Tuple + Array *)
      destruct (conv_ok_array _ _ Hs) as [Ht' Hnn].
      assert (E1 : merger (STuple es o) (SArray t' o') = SArray (SOneOf (tuple_array_set t' es) false) (o' || o)) by reflexivity.
      rewrite E1, merge_array.
      assert (Hnot : is_oneof t' = false) by (apply conv_ok_nonnull_cases; exact Ht').
      rewrite (oneof_absorbs (tuple_array_set t' es) false t').
      * f_equal. destruct o, o'; reflexivity.
      * apply tuple_array_set_sorted.
      * exact Hnn.
      * exact Hnot.
      * apply tuple_array_set_In. left. destruct t'; try reflexivity. discriminate.
      * intro H. apply tuple_array_set_In. right. right. split; [rewrite H; apply orb_true_r|reflexivity].
    + (* Tuple + Tuple *)
      cbn [merger]. apply wf_tuple in Ha. pose proof Hws as Hwos. apply wf_tuple in Hwos.
      destruct (fold_tuple es os) as [folded|] eqn:E.
      * cbn [merger]. rewrite (fold_tuple_twice es os folded Ha Hwos Hfs E), orb_absorb. reflexivity.
      * cbn [merger]. rewrite orb_absorb. f_equal. f_equal.
        apply tuple_array_set_stable.
        -- apply tuples_set_sorted.
        -- intros e He. apply tuples_set_In. right. left. exists e. auto.
        -- intro H. apply tuples_set_In. right. right. split; [rewrite H; apply orb_true_r|reflexivity].
Qed.

(* without the hypothesis the statement is false for an arbitrary accumulated shape:
   Tuple(Number,String) + Array<Null> creates OneOf[Null|Number|String], the next merge sets its
   optional flag (documented rule T + Null = Option<T>); it is stable from then on *)
Lemma add_twice_needs_hypothesis : exists a s, wf a = true /\ wf s = true /\ oneof_free s = true /\
  merger (merger a s) s <> merger a s /\
  merger (merger (merger a s) s) s = merger (merger a s) s.
Proof.
  exists (STuple [SNumber false; SString false] false), (SArray SNull false).
  vm_compute. repeat split; try reflexivity. discriminate.
Qed.

(* ---------- source sequences ---------- *)
Lemma infer_conv_ok d s : infer_text d = Ok s -> no_null_array s = true -> conv_ok s.
Proof. intros H Hn. destruct (infer_text_ok d s H) as [Hw Hf]. split; [|split]; assumption. Qed.

Lemma from_sources_snoc h d m sd : from_sources_tree h = Ok m -> infer_text d = Ok sd ->
  from_sources_tree (h ++ [d]) = Ok (merger m sd).
Proof.
  intros H Hd. destruct (from_sources_tree_ok _ _ H) as [s0 [r [E ->]]].
  unfold from_sources_tree. rewrite (mapM_o_app infer_text h [d] (s0 :: r) [sd] E) by (simpl; rewrite Hd; reflexivity).
  simpl. rewrite fold_left_app. reflexivity.
Qed.

Lemma from_sources_wf h m : from_sources_tree h = Ok m -> wf m = true.
Proof.
  intro H. destruct (from_sources_tree_ok _ _ H) as [s0 [r [E ->]]].
  apply mapM_o_ok in E. pose proof (forall2_wf _ _ E) as Hw. inversion Hw; subst.
  apply fold_merger_wf; assumption.
Qed.

(* once d has just been added, adding it again (any number of times) changes nothing *)
Theorem sources_converge h d sd m : infer_text d = Ok sd -> no_null_array sd = true ->
  from_sources_tree (h ++ [d]) = Ok m ->
  forall k, from_sources_tree ((h ++ [d]) ++ repeat d k) = Ok m.
Proof.
  intros Hd Hn Hm k. induction k as [|k IH]; [simpl; rewrite app_nil_r; exact Hm|].
  replace (repeat d (S k)) with (repeat d k ++ [d]).
  - rewrite app_assoc. rewrite (from_sources_snoc _ d m sd IH Hd). f_equal.
    (* m = merger m' sd for the shape m' before the last d *)
    destruct h as [|h0 hr].
    + simpl in Hm. unfold from_sources_tree in Hm. simpl in Hm. rewrite Hd in Hm. simpl in Hm. inversion Hm. subst m.
      apply merge_idem. eapply infer_text_wf. exact Hd.
    + assert (exists m', from_sources_tree (h0 :: hr) = Ok m').
      { unfold from_sources_tree in Hm.
        destruct (mapM_o infer_text ((h0 :: hr) ++ [d])) as [ss| |] eqn:E; try discriminate.
        destruct (mapM_o_app_inv _ _ _ _ E) as [ss1 [ss2 [H1 [H2 H3]]]].
        unfold from_sources_tree. rewrite H1. destruct ss1 as [|s1 r1].
        - simpl in H1. destruct (infer_text h0); simpl in H1; try discriminate.
          destruct (mapM_o infer_text hr); simpl in H1; discriminate.
        - simpl. eauto. }
      destruct H as [m' Hm']. rewrite (from_sources_snoc _ d m' sd Hm' Hd) in Hm. inversion Hm. subst m.
      apply add_twice; [eapply from_sources_wf; exact Hm'|eapply infer_conv_ok; eassumption].
  - clear. induction k; simpl; [reflexivity|]. f_equal. exact IHk.
Qed.
