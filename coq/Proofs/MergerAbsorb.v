(* MergerAbsorb.v — C09: a source that is already among the sources is absorbed.

   Part 1 (OneOf-free fragment): if the accumulated shape a contains no OneOf and accepts s
   (is_subset s a), then merger a s = a — syntactically ([absorb_free]).  Hence for every history
   whose merged shape is OneOf-free, re-adding any of its documents any number of times changes
   nothing at all ([sources_absorb_free]).

   Part 2 (general): the absorption invariant [absorbed s a] ("s has been merged into a earlier").
     absorbed_refl       s is absorbed in itself
     absorbed_merger_r   s is absorbed in merger a s                       (any wf a)
     absorbed_merger_l   absorbed s a -> absorbed s (merger a x)           (x any later source shape)
     absorbed_sound      absorbed s a -> every document of s is a document of a
     absorbed_equiv      absorbed s a -> merger a s admits exactly the documents of a
     add_twice_absorbed  absorbed s a -> merger (merger a s) s = merger a s   (no no_null_array needed)
   and from them, for source sequences ([sources_readd]): for EVERY history h with from_sources h = Ok m
   and EVERY d in h (any position), there is one shape m1 with from_sources (h ++ [d]*(k+1)) = Ok m1
   for all k, and m1 admits exactly the documents m admits.  This is property C09 in full. *)
From Coq Require Import List Bool NArith Lia.
Import ListNotations.
From JS Require Import Model.Base Model.Shape Model.Sem Model.Subset Model.Merger Model.Infer Model.Api
  Proofs.BaseFacts Proofs.ShapeFacts Proofs.SemFacts Proofs.SubsetFacts Proofs.SubsetSound
  Proofs.MergerFacts Proofs.MergerSound Proofs.MergerAlgebra Proofs.InferFacts Proofs.SourcesSound
  Proofs.MergerConverge Proofs.SupersetFragment.

(* ---------- is_subset is antisymmetric on the OneOf-free fragment ---------- *)
Lemma implb_antisym (a b : bool) : implb a b = true -> implb b a = true -> a = b.
Proof. destruct a, b; simpl; congruence. Qed.

Lemma subset_null_r b : is_subset b SNull = true -> b = SNull.
Proof.
  destruct b as [|o|o|o|t o|c o|vs o|es o]; try reflexivity; simpl; try discriminate;
    try (unfold scalar_subset; destruct o; simpl; discriminate).
Qed.

Lemma forall2b_antisym es : Forall (fun e => forall b, wf e = true -> wf b = true -> oneof_free b = true ->
                                     is_subset e b = true -> is_subset b e = true -> e = b) es ->
  forall os, Forall (fun e => wf e = true) es -> Forall (fun e => wf e = true) os -> forallb oneof_free os = true ->
  forall2b is_subset es os = true -> forall2b is_subset os es = true -> es = os.
Proof.
  induction 1 as [|e r He Hr IH]; intros [|x os] Hwe Hwo Hf H1 H2; simpl in *; try discriminate; [reflexivity|].
  apply andb_true_iff in H1. apply andb_true_iff in H2. apply andb_true_iff in Hf.
  destruct H1 as [A1 A2], H2 as [B1 B2], Hf as [F1 F2]. inversion Hwe; inversion Hwo; subst.
  f_equal; [apply He; assumption|apply IH; assumption].
Qed.

Lemma subset_antisym_free : forall a b, wf a = true -> wf b = true -> oneof_free b = true ->
  is_subset a b = true -> is_subset b a = true -> a = b.
Proof.
  induction a as [|o|o|o|t o IH|c o IH|vs o IH|es o IH] using shape_ind'; intros b Ha Hb Hfb Hab Hba.
  - symmetry. apply subset_null_r. exact Hba.
  - rewrite (is_subset_scalar_free (SBool o)) in Hab by (try reflexivity; assumption).
    apply andb_true_iff in Hab. destruct Hab as [T1 F1]. apply N.eqb_eq in T1.
    destruct b; try discriminate T1. simpl in Hba. unfold scalar_subset in Hba. simpl in F1.
    destruct o0, o; simpl in *; try reflexivity; discriminate.
  - rewrite (is_subset_scalar_free (SNumber o)) in Hab by (try reflexivity; assumption).
    apply andb_true_iff in Hab. destruct Hab as [T1 F1]. apply N.eqb_eq in T1.
    destruct b; try discriminate T1. simpl in Hba. unfold scalar_subset in Hba. simpl in F1.
    destruct o0, o; simpl in *; try reflexivity; discriminate.
  - rewrite (is_subset_scalar_free (SString o)) in Hab by (try reflexivity; assumption).
    apply andb_true_iff in Hab. destruct Hab as [T1 F1]. apply N.eqb_eq in T1.
    destruct b; try discriminate T1. simpl in Hba. unfold scalar_subset in Hba. simpl in F1.
    destruct o0, o; simpl in *; try reflexivity; discriminate.
  - destruct b as [| | | |t' o'| |ws oo|]; simpl in Hab; try discriminate.
    simpl in Hba. apply andb_true_iff in Hab. apply andb_true_iff in Hba. destruct Hab as [A1 A2], Hba as [B1 B2].
    simpl in Ha, Hb, Hfb. rewrite (IH t' Ha Hb Hfb A2 B2), (implb_antisym _ _ A1 B1). reflexivity.
  - destruct b as [| | | | |c' o'|ws oo|]; try (simpl in Hab; discriminate); try discriminate Hfb.
    rewrite is_subset_object_object in Hab, Hba.
    apply andb_true_iff in Hab. apply andb_true_iff in Hba. destruct Hab as [A1 A2], Hba as [B1 B2].
    rewrite (implb_antisym _ _ A1 B1). f_equal.
    unfold obj_check in A2, B2. apply andb_true_iff in A2. apply andb_true_iff in B2.
    destruct A2 as [_ A3], B2 as [_ B3]. unfold obj_members_sub in A3, B3.
    apply wf_object in Ha. apply wf_object in Hb. destruct Ha as [Hs Hw], Hb as [Hs' Hw'].
    simpl in Hfb. rewrite forallb_forall in A3, B3, Hfb. rewrite Forall_forall in IH, Hw, Hw'.
    apply map_ext; try assumption. intro k.
    destruct (map_get k c) as [v|] eqn:G.
    + pose proof (map_get_In _ _ _ G) as Hin. specialize (A3 _ Hin). simpl in A3.
      destruct (map_get k c') as [ov|] eqn:G'; [|discriminate]. f_equal.
      pose proof (map_get_In _ _ _ G') as Hin'. specialize (B3 _ Hin'). simpl in B3. rewrite G in B3.
      apply (IH (k, v) Hin ov (Hw _ Hin) (Hw' _ Hin') (Hfb _ Hin') A3 B3).
    + destruct (map_get k c') as [ov|] eqn:G'; [|reflexivity].
      pose proof (map_get_In _ _ _ G') as Hin'. specialize (B3 _ Hin'). simpl in B3. rewrite G in B3. discriminate.
  - destruct b as [| | | | | |ws o'|]; try (simpl in Hab; discriminate).
  - destruct b as [| | | |t' o'| |ws oo|os o']; try (simpl in Hab; discriminate).
    + rewrite is_subset_tuple_tuple in Hab, Hba.
      apply andb_true_iff in Hab. apply andb_true_iff in Hba. destruct Hab as [A1 A2], Hba as [B1 B2].
      rewrite (implb_antisym _ _ A1 B1). f_equal.
      apply wf_tuple in Ha. apply wf_tuple in Hb. simpl in Hfb.
      apply (forall2b_antisym es IH os Ha Hb Hfb A2 B2).
Qed.

(* ---------- absorption on the OneOf-free fragment ---------- *)
Lemma as_optional_of_optional v : is_optional v = true -> as_optional v = v.
Proof. intro H. destruct v; simpl in *; try subst; reflexivity. Qed.

Lemma fold_tuple_absorb es : Forall (fun e => wf e = true) es -> forallb oneof_free es = true ->
  forall os, Forall (fun e => wf e = true) os -> forall2b is_subset os es = true -> fold_tuple es os = Some es.
Proof.
  induction 1 as [|e r He Hr IH]; intros Hf [|x os] Hos H; simpl in *; try discriminate; [reflexivity|].
  apply andb_true_iff in H. apply andb_true_iff in Hf. destruct H as [H1 H2], Hf as [F1 F2]. inversion Hos; subst.
  rewrite (IH F2 os) by assumption.
  unfold fold_pair. destruct (is_subset e x) eqn:E.
  - rewrite (subset_antisym_free x e) by assumption. reflexivity.
  - rewrite H1. reflexivity.
Qed.

Theorem absorb_free : forall a s, wf a = true -> wf s = true -> oneof_free a = true ->
  is_subset s a = true -> merger a s = a.
Proof.
  induction a as [|o|o|o|t o IH|c o IH|vs o IH|es o IH] using shape_ind'; intros s Ha Hs Hf H.
  - apply subset_null_r in H. subst. reflexivity.
  - rewrite (merger_scalar (SBool o)) by reflexivity.
    destruct s as [|o'|o'|o'|t' o'|c' o'|ws oo|os o']; simpl in H; unfold scalar_subset in H;
      try discriminate; try (destruct o'; simpl in H; discriminate).
    + rewrite orb_false_r in H. simpl in H. subst. reflexivity.
    + destruct o', o; simpl in *; try reflexivity; discriminate.
  - rewrite (merger_scalar (SNumber o)) by reflexivity.
    destruct s as [|o'|o'|o'|t' o'|c' o'|ws oo|os o']; simpl in H; unfold scalar_subset in H;
      try discriminate; try (destruct o'; simpl in H; discriminate).
    + rewrite orb_false_r in H. simpl in H. subst. reflexivity.
    + destruct o', o; simpl in *; try reflexivity; discriminate.
  - rewrite (merger_scalar (SString o)) by reflexivity.
    destruct s as [|o'|o'|o'|t' o'|c' o'|ws oo|os o']; simpl in H; unfold scalar_subset in H;
      try discriminate; try (destruct o'; simpl in H; discriminate).
    + rewrite orb_false_r in H. simpl in H. subst. reflexivity.
    + destruct o', o; simpl in *; try reflexivity; discriminate.
  - (* Array *)
    destruct s as [|o'|o'|o'|t' o'|c' o'|ws oo|os o']; simpl in H; try discriminate;
      try (unfold scalar_subset in H; destruct o'; simpl in H; discriminate).
    + rewrite orb_false_r in H. subst. reflexivity.
    + apply andb_true_iff in H. destruct H as [H1 H2]. simpl in Ha, Hs, Hf. cbn [merger].
      rewrite (IH t' Ha Hs Hf H2). destruct o, o'; simpl in *; try reflexivity; discriminate.
    + destruct t; try discriminate.
  - (* Object *)
    destruct s as [|o'|o'|o'|t' o'|c' o'|ws oo|os o']; try (simpl in H; discriminate);
      try (simpl in H; unfold scalar_subset in H; destruct o'; simpl in H; discriminate).
    + simpl in H. rewrite orb_false_r in H. subst. reflexivity.
    + rewrite is_subset_object_object in H. apply andb_true_iff in H. destruct H as [H1 H2].
      rewrite merger_object_object.
      assert (Eo : o || o' = o) by (destruct o, o'; simpl in *; try reflexivity; discriminate). rewrite Eo. f_equal.
      unfold obj_check in H2. apply andb_true_iff in H2. destruct H2 as [H2 H3]. unfold obj_members_sub in H3.
      apply wf_object in Ha. apply wf_object in Hs. destruct Ha as [Hsc Hwc], Hs as [Hsc' Hwc'].
      simpl in Hf. rewrite forallb_forall in H2, H3, Hf. rewrite Forall_forall in IH, Hwc, Hwc'.
      apply map_ext; [apply obj_merge_go_sorted; reflexivity|exact Hsc|].
      intro k. rewrite (obj_merge_go_get merger k c Hsc) by exact Hsc'.
      destruct (map_get k c) as [v|] eqn:G; destruct (map_get k c') as [ov|] eqn:G'; try reflexivity.
      * pose proof (map_get_In _ _ _ G) as Hin. pose proof (map_get_In _ _ _ G') as Hin'.
        specialize (H3 _ Hin'). simpl in H3. rewrite G in H3.
        pose proof (IH (k, v) Hin ov (Hwc _ Hin) (Hwc' _ Hin') (Hf _ Hin) H3) as E. simpl in E. rewrite E. reflexivity.
      * pose proof (map_get_In _ _ _ G) as Hin. specialize (H2 _ Hin). simpl in H2.
        unfold map_has in H2. rewrite G' in H2. simpl in H2. rewrite (as_optional_of_optional v H2). reflexivity.
      * pose proof (map_get_In _ _ _ G') as Hin'. specialize (H3 _ Hin'). simpl in H3. rewrite G in H3. discriminate.
  - discriminate Hf.
  - (* Tuple *)
    destruct s as [|o'|o'|o'|t' o'|c' o'|ws oo|os o']; try (simpl in H; discriminate);
      try (simpl in H; unfold scalar_subset in H; destruct o'; simpl in H; discriminate).
    + simpl in H. rewrite orb_false_r in H. subst. reflexivity.
    + rewrite is_subset_tuple_tuple in H. apply andb_true_iff in H. destruct H as [H1 H2].
      apply wf_tuple in Ha. apply wf_tuple in Hs. simpl in Hf. cbn [merger].
      rewrite (fold_tuple_absorb es Ha Hf os Hs H2).
      destruct o, o'; simpl in *; try reflexivity; discriminate.
Qed.

(* ---------- source sequences whose merged shape is OneOf-free ---------- *)
Lemma repeat_snoc {A} (d : A) k : repeat d (S k) = repeat d k ++ [d].
Proof. induction k; simpl; [reflexivity|]. f_equal. exact IHk. Qed.

Lemma sources_infer_ok ds m d : from_sources_tree ds = Ok m -> In d ds -> exists sd, infer_text d = Ok sd.
Proof.
  intros H Hin. destruct (from_sources_tree_ok _ _ H) as [s0 [r [E _]]]. apply mapM_o_ok in E.
  clear -E Hin. induction E as [|x sx l rs Hx Hr IHr]; [contradiction|].
  destruct Hin as [<-|Hin]; eauto.
Qed.

(* both clauses of C09, d anywhere in h, when the merged shape of h is OneOf-free:
   the shape does not change at all, for any number of repetitions *)
Theorem sources_absorb_free h d m : from_sources_tree h = Ok m -> oneof_free m = true -> In d h ->
  forall k, from_sources_tree (h ++ repeat d k) = Ok m.
Proof.
  intros Hm Hf Hin k. destruct (sources_infer_ok h m d Hm Hin) as [sd Hd].
  pose proof (sources_accept_free h m Hm Hf d sd Hin Hd) as Hsub.
  induction k as [|k IH]; [simpl; rewrite app_nil_r; exact Hm|].
  rewrite repeat_snoc, app_assoc, (from_sources_snoc _ d m sd IH Hd). f_equal.
  apply absorb_free; [eapply from_sources_wf; exact Hm|eapply infer_text_wf; exact Hd|exact Hf|exact Hsub].
Qed.

(* ====================================================================================== *)
(* Part 2 — the general case                                                                *)
(* ====================================================================================== *)

(* [absorbed s a] : the source shape s (OneOf-free) has been merged into the accumulated shape a at
   some earlier point.  Kind part: a, or one of its variants when a is a OneOf, has the constructor
   of s and absorbs the children of s position by position (Array element, Object members; a Tuple
   is absorbed by a Tuple that accepts it element-wise through is_subset, or by the Array<OneOf>
   it was dissolved into).  Null part: if s is optional, a admits null.  Flags are never inspected. *)
Definition via (f : shape -> bool) (a : shape) : bool :=
  match a with SOneOf vs _ => existsb f vs | _ => f a end.

Definition absorbed_by (core : shape -> shape -> bool) (s a : shape) : bool :=
  (is_null s || via (core s) a) && implb (is_optional s) (mem JNull a).

Fixpoint core (s r : shape) {struct s} : bool :=
  match s with
  | SNull => false
  | SBool _ => match r with SBool _ => true | _ => false end
  | SNumber _ => match r with SNumber _ => true | _ => false end
  | SString _ => match r with SString _ => true | _ => false end
  | SArray ts _ => match r with SArray t _ => absorbed_by core ts t | _ => false end
  | SObject cs _ =>
      match r with
      | SObject c _ =>
          (fix go (l : list (key * shape)) : bool :=
             match l with
             | [] => true
             | kv :: rest => match map_get (fst kv) c with
                             | Some w => absorbed_by core (snd kv) w
                             | None => false
                             end && go rest
             end) cs
          && forallb (fun kw => map_has (fst kw) cs || mem JNull (snd kw)) c
      | _ => false
      end
  | SOneOf _ _ => false
  | STuple os _ =>
      match r with
      | STuple es _ => forall2b is_subset os es
      | SArray (SOneOf vs uo) _ =>
          forallb (fun x => is_null x || existsb (fun r' => is_subset (as_non_optional x) r') vs) os
          && implb (existsb is_optional os) (mem JNull (SOneOf vs uo))
      | _ => false
      end
  end.

Definition absorbed : shape -> shape -> bool := absorbed_by core.

(* invariant of accumulated shapes used by the Tuple arms: tuple elements are OneOf-free *)
Fixpoint tuples_free (s : shape) : bool :=
  match s with
  | SArray t _ => tuples_free t
  | SObject c _ => forallb (fun p => tuples_free (snd p)) c
  | SOneOf vs _ => forallb tuples_free vs
  | STuple es _ => forallb oneof_free es
  | _ => true
  end.

(* ---------- unfolding ---------- *)
Lemma absorbed_eq s a : absorbed s a = (is_null s || via (core s) a) && implb (is_optional s) (mem JNull a).
Proof. reflexivity. Qed.

Definition members_abs (cs c : list (key * shape)) : bool :=
  forallb (fun kv => match map_get (fst kv) c with Some w => absorbed (snd kv) w | None => false end) cs.
Definition extras_nullable (cs c : list (key * shape)) : bool :=
  forallb (fun kw => map_has (fst kw) cs || mem JNull (snd kw)) c.

Lemma core_object cs o c o' : core (SObject cs o) (SObject c o') = members_abs cs c && extras_nullable cs c.
Proof. reflexivity. Qed.

Lemma core_array ts o t o' : core (SArray ts o) (SArray t o') = absorbed ts t.
Proof. reflexivity. Qed.

Lemma core_tuple_tuple os o es o' : core (STuple os o) (STuple es o') = forall2b is_subset os es.
Proof. reflexivity. Qed.

Definition tuple_in_oneof (os vs : list shape) (uo : bool) : bool :=
  forallb (fun x => is_null x || existsb (fun r' => is_subset (as_non_optional x) r') vs) os
  && implb (existsb is_optional os) (mem JNull (SOneOf vs uo)).

Lemma core_tuple_array os o vs uo o' : core (STuple os o) (SArray (SOneOf vs uo) o') = tuple_in_oneof os vs uo.
Proof. reflexivity. Qed.

Lemma core_null_r s : core s SNull = false.
Proof. destruct s; reflexivity. Qed.

Lemma core_oneof_r s vs o : core s (SOneOf vs o) = false.
Proof. destruct s; reflexivity. Qed.

Lemma core_oneof_l vs o r : core (SOneOf vs o) r = false.
Proof. reflexivity. Qed.

(* the target's flag is never inspected *)
Lemma core_set_flag s f r : core s (set_flag f r) = core s r.
Proof. destruct s, r; try reflexivity. Qed.

Lemma via_set_flag s f a : via (core s) (set_flag f a) = via (core s) a.
Proof. destruct a; try apply core_set_flag; reflexivity. Qed.

Lemma via_core s a : is_oneof a = false -> via (core s) a = core s a.
Proof. destruct a; try reflexivity. discriminate. Qed.

Lemma via_oneof s vs o : via (core s) (SOneOf vs o) = true <-> exists r, In r vs /\ core s r = true.
Proof. simpl. apply existsb_exists. Qed.

(* a OneOf that holds every flat variant of a absorbs what a absorbs *)
Lemma via_flat s a ws oo : via (core s) a = true -> (forall z, flat_variant a z -> In z ws) ->
  via (core s) (SOneOf ws oo) = true.
Proof.
  intros H Hz. apply via_oneof. destruct a as [|o|o|o|t o|c o|vs o|es o]; unfold via in H.
  - rewrite core_null_r in H. discriminate.
  - exists (SBool false). split; [apply Hz; reflexivity|]. rewrite <- H. apply (core_set_flag s false (SBool o)).
  - exists (SNumber false). split; [apply Hz; reflexivity|]. rewrite <- H. apply (core_set_flag s false (SNumber o)).
  - exists (SString false). split; [apply Hz; reflexivity|]. rewrite <- H. apply (core_set_flag s false (SString o)).
  - exists (SArray t false). split; [apply Hz; reflexivity|]. rewrite <- H. apply (core_set_flag s false (SArray t o)).
  - exists (SObject c false). split; [apply Hz; reflexivity|]. rewrite <- H. apply (core_set_flag s false (SObject c o)).
  - apply existsb_exists in H. destruct H as [r [Hin Hr]]. exists r. split; [apply Hz; exact Hin|exact Hr].
  - exists (STuple es false). split; [apply Hz; reflexivity|]. rewrite <- H. apply (core_set_flag s false (STuple es o)).
Qed.

Lemma absorbed_split s a : absorbed s a = true <->
  (is_null s = true \/ via (core s) a = true) /\ (is_optional s = true -> mem JNull a = true).
Proof.
  rewrite absorbed_eq, andb_true_iff, orb_true_iff. split; intros [H1 H2]; split; auto.
  - intro Ho. rewrite Ho in H2. exact H2.
  - destruct (is_optional s); [apply H2; reflexivity|reflexivity].
Qed.

Lemma absorbed_null a : absorbed SNull a = mem JNull a.
Proof. reflexivity. Qed.

Lemma absorbed_oneof_l vs o a : absorbed (SOneOf vs o) a = false.
Proof.
  rewrite absorbed_eq. assert (E : via (core (SOneOf vs o)) a = false).
  { destruct a as [| | | | | |ws oo|]; try reflexivity. simpl. induction ws; simpl; auto. }
  rewrite E. reflexivity.
Qed.

Lemma absorbed_opt_target s a : absorbed s a = true -> absorbed s (as_optional a) = true.
Proof.
  intro H. apply absorbed_split in H. destruct H as [H1 H2]. apply absorbed_split. split.
  - destruct H1 as [H1|H1]; [left; exact H1|right]. unfold as_optional. rewrite via_set_flag. exact H1.
  - intros _. apply mem_as_optional_null.
Qed.

(* ---------- reflexivity ---------- *)
Lemma mem_null_optional s : is_oneof s = false -> mem JNull s = is_optional s.
Proof. destruct s; try reflexivity. discriminate. Qed.

Lemma subset_refl_all es : Forall (fun e => wf e = true) es -> forall2b is_subset es es = true.
Proof. induction 1 as [|e r He Hr IH]; simpl; [reflexivity|]. rewrite (subset_refl e He), IH. reflexivity. Qed.

Lemma absorbed_refl : forall s, wf s = true -> oneof_free s = true -> absorbed s s = true.
Proof.
  induction s as [|o|o|o|t o IH|c o IH|vs o IH|es o IH] using shape_ind'; intros Hw Hf;
    try (rewrite absorbed_eq; simpl; destruct o; reflexivity); try reflexivity; try discriminate.
  - rewrite absorbed_eq. simpl in Hw, Hf. cbn [is_null orb via]. rewrite core_array, (IH Hw Hf). destruct o; reflexivity.
  - rewrite absorbed_eq. cbn [is_null orb via]. rewrite core_object.
    apply wf_object in Hw. destruct Hw as [Hs Hw]. simpl in Hf. rewrite forallb_forall in Hf. rewrite Forall_forall in IH, Hw.
    assert (E1 : members_abs c c = true).
    { apply forallb_forall. intros [k v] Hin. simpl. rewrite (sorted_get_In k v c Hs Hin).
      apply (IH (k, v) Hin (Hw _ Hin) (Hf _ Hin)). }
    assert (E2 : extras_nullable c c = true).
    { apply forallb_forall. intros [k v] Hin. simpl. rewrite (map_has_In k v c Hin). reflexivity. }
    rewrite E1, E2. destruct o; reflexivity.
  - rewrite absorbed_eq. cbn [is_null orb via]. rewrite core_tuple_tuple.
    apply wf_tuple in Hw. rewrite (subset_refl_all es Hw). destruct o; reflexivity.
Qed.

Lemma core_refl s : wf s = true -> oneof_free s = true -> s <> SNull -> core s s = true.
Proof.
  intros Hw Hf Hn. pose proof (absorbed_refl s Hw Hf) as H. apply absorbed_split in H. destruct H as [[H|H] _].
  - destruct s; try discriminate. contradiction.
  - rewrite via_core in H; [exact H|]. destruct s; try reflexivity. discriminate.
Qed.

Lemma core_refl_nonopt s : wf s = true -> oneof_free s = true -> s <> SNull -> core s (as_non_optional s) = true.
Proof. intros. unfold as_non_optional. rewrite core_set_flag. apply core_refl; assumption. Qed.

(* ---------- soundness: what is absorbed is included ---------- *)
Lemma via_sound s a d : wf a = true -> (forall r, wf r = true -> core s r = true -> mem d r = true) ->
  via (core s) a = true -> mem d a = true.
Proof.
  intros Hw Hr H. destruct a as [| | | | | |vs o|]; try (apply Hr; assumption).
  simpl in H. apply existsb_exists in H. destruct H as [r [Hin Hc]]. apply wf_oneof in Hw.
  eapply mem_oneof_intro; [exact Hin|]. apply Hr; [apply Hw; exact Hin|exact Hc].
Qed.

Lemma forall2b_subset_sound os : forall es l, Forall (fun e => wf e = true) es ->
  forall2b is_subset os es = true -> forall2b (fun e x => mem x e) os l = true ->
  forall2b (fun e x => mem x e) es l = true.
Proof.
  induction os as [|x r IH]; intros [|e es] [|y l] Hw H1 H2; simpl in *; try discriminate; try reflexivity.
  apply andb_true_iff in H1. apply andb_true_iff in H2. destruct H1 as [A1 A2], H2 as [B1 B2]. inversion Hw; subst.
  rewrite (is_subset_sound x e H1 A1 y B1). simpl. apply IH; assumption.
Qed.

Lemma tuple_in_oneof_sound os vs uo x e : (forall v, In v vs -> wf v = true) ->
  tuple_in_oneof os vs uo = true -> In e os -> mem x e = true -> mem x (SOneOf vs uo) = true.
Proof.
  intros Hw H Hin Hx. unfold tuple_in_oneof in H. apply andb_true_iff in H. destruct H as [H1 H2].
  rewrite forallb_forall in H1. specialize (H1 e Hin).
  assert (Hnull : is_optional e = true -> mem JNull (SOneOf vs uo) = true).
  { intro Ho. assert (E : existsb is_optional os = true) by (apply existsb_exists; exists e; auto).
    rewrite E in H2. exact H2. }
  apply mem_split in Hx. destruct Hx as [Hx|[-> Ho]]; [|apply Hnull; exact Ho].
  apply orb_true_iff in H1. destruct H1 as [H1|H1].
  - destruct e; try discriminate. simpl in Hx. apply mem_null_only in Hx. subst. apply Hnull. reflexivity.
  - apply existsb_exists in H1. destruct H1 as [r' [Hr' Hs]].
    eapply mem_oneof_intro; [exact Hr'|]. eapply is_subset_sound; [apply Hw; exact Hr'|exact Hs|exact Hx].
Qed.

Theorem absorbed_sound : forall s a, wf a = true -> absorbed s a = true ->
  forall d, mem d s = true -> mem d a = true.
Proof.
  induction s as [|o|o|o|ts o IH|cs o IH|vs o IH|os o IH] using shape_ind'; intros a Hw H d Hd;
    try (rewrite absorbed_oneof_l in H; discriminate);
    apply absorbed_split in H; destruct H as [Hk Hn].
  - apply mem_null_only in Hd. subst. apply Hn. reflexivity.
  - destruct d; simpl in Hd; try discriminate; [apply Hn; exact Hd|].
    destruct Hk as [Hk|Hk]; [discriminate|]. eapply via_sound; [exact Hw| |exact Hk].
    intros r _ Hr. destruct r; try discriminate. reflexivity.
  - destruct d; simpl in Hd; try discriminate; [apply Hn; exact Hd|].
    destruct Hk as [Hk|Hk]; [discriminate|]. eapply via_sound; [exact Hw| |exact Hk].
    intros r _ Hr. destruct r; try discriminate. reflexivity.
  - destruct d; simpl in Hd; try discriminate; [apply Hn; exact Hd|].
    destruct Hk as [Hk|Hk]; [discriminate|]. eapply via_sound; [exact Hw| |exact Hk].
    intros r _ Hr. destruct r; try discriminate. reflexivity.
  - (* Array *)
    destruct d as [| | | |l|m]; simpl in Hd; try discriminate; [apply Hn; exact Hd|].
    destruct Hk as [Hk|Hk]; [discriminate|]. eapply via_sound; [exact Hw| |exact Hk].
    intros r Hwr Hr. destruct r as [| | | |t o'| | |]; try discriminate. rewrite core_array in Hr.
    rewrite mem_array_arr. rewrite forallb_forall in Hd |- *. intros x Hx. simpl in Hwr.
    apply (IH t Hwr Hr x (Hd x Hx)).
  - (* Object *)
    destruct d as [| | | |l|m]; try (simpl in Hd; discriminate); [apply Hn; exact Hd|].
    destruct Hk as [Hk|Hk]; [discriminate|]. eapply via_sound; [exact Hw| |exact Hk].
    intros r Hwr Hr. destruct r as [| | | | |c o'| |]; try discriminate. rewrite core_object in Hr.
    apply andb_true_iff in Hr. destruct Hr as [Hr1 Hr2]. unfold members_abs in Hr1. unfold extras_nullable in Hr2.
    rewrite mem_object in Hd |- *. apply andb_true_iff in Hd. destruct Hd as [Hd1 Hd2].
    apply wf_object in Hwr. destruct Hwr as [Hsc Hwc].
    rewrite forallb_forall in Hr1, Hr2, Hd1, Hd2. rewrite Forall_forall in IH, Hwc.
    apply andb_true_iff. split; apply forallb_forall.
    + intros [k v] Hin. rewrite (member_ok_get c k v Hsc). specialize (Hd1 _ Hin). unfold member_ok in Hd1.
      apply existsb_exists in Hd1. destruct Hd1 as [[k' sv] [Hin' Hkv]]. simpl in Hkv.
      apply andb_true_iff in Hkv. destruct Hkv as [Hk' Hv]. apply key_eqb_eq in Hk'. subst k'.
      specialize (Hr1 _ Hin'). simpl in Hr1. destruct (map_get k c) as [w|] eqn:G; [|discriminate].
      apply map_get_In in G. apply (IH (k, sv) Hin' w (Hwc _ G) Hr1 v Hv).
    + intros [k w] Hin. unfold key_ok. simpl. specialize (Hr2 _ Hin). simpl in Hr2.
      apply orb_true_iff in Hr2. destruct Hr2 as [Hr2|Hr2]; [|unfold nullable; rewrite Hr2; apply orb_true_r].
      apply map_has_get in Hr2. destruct Hr2 as [sv G]. apply map_get_In in G.
      specialize (Hd2 _ G). unfold key_ok in Hd2. simpl in Hd2. apply orb_true_iff in Hd2.
      destruct Hd2 as [Hd2|Hd2]; [rewrite Hd2; reflexivity|].
      specialize (Hr1 _ G). simpl in Hr1. rewrite (sorted_get_In k w c Hsc Hin) in Hr1.
      unfold nullable in *. rewrite (IH (k, sv) G w (Hwc _ Hin) Hr1 JNull Hd2). apply orb_true_r.
  - (* Tuple *)
    destruct d as [| | | |l|m]; try (simpl in Hd; discriminate); [apply Hn; exact Hd|].
    destruct Hk as [Hk|Hk]; [discriminate|]. eapply via_sound; [exact Hw| |exact Hk].
    intros r Hwr Hr. rewrite mem_tuple in Hd. destruct r as [| | | |t o'| | |es o']; try discriminate.
    + destruct t as [| | | | | |ws uo|]; try discriminate. rewrite core_tuple_array in Hr.
      rewrite mem_array_arr. assert (Hwv : forall v, In v ws -> wf v = true) by (apply (proj1 (wf_oneof ws uo) Hwr)).
      apply (tuple_doc_in_array l os _ Hd). intros e x Hin Hx.
      apply (tuple_in_oneof_sound os ws uo x e Hwv Hr Hin Hx).
    + rewrite core_tuple_tuple in Hr. rewrite mem_tuple. apply wf_tuple in Hwr.
      apply (forall2b_subset_sound os es l Hwr Hr Hd).
Qed.

(* ---------- B : a shape that has just been merged in is absorbed ---------- *)
Lemma via_kind_pair_r s x n : core s (as_non_optional s) = true ->
  via (core s) (kind_pair x (as_non_optional s) n) = true.
Proof.
  intro H. unfold kind_pair. apply via_oneof. exists (as_non_optional s). split; [|exact H].
  apply kind_pair_In. right. left. reflexivity.
Qed.

Lemma via_kind_pair_l s a y n : is_oneof a = false -> via (core s) a = true ->
  via (core s) (kind_pair (as_non_optional a) y n) = true.
Proof.
  intros Ho H. unfold kind_pair. eapply via_flat; [exact H|]. intros z Hz. apply kind_pair_In. left.
  destruct a; try exact Hz; try discriminate.
Qed.

Lemma via_insert_r s vs c o : core s (as_non_optional s) = true ->
  via (core s) (SOneOf (sset_insert (as_non_optional s) (null_if c vs)) o) = true.
Proof. intro H. apply via_oneof. exists (as_non_optional s). split; [|exact H]. apply sset_insert_In. left. reflexivity. Qed.

Lemma fold_tuple_dominates es : forall os folded, Forall (fun e => wf e = true) es -> Forall (fun e => wf e = true) os ->
  fold_tuple es os = Some folded -> forall2b is_subset es folded = true /\ forall2b is_subset os folded = true.
Proof.
  induction es as [|e r IH]; intros [|x os] folded Ha Hb E; simpl in E; try discriminate.
  - inversion E. split; reflexivity.
  - destruct (fold_pair e x) as [v|] eqn:Ep; [|discriminate].
    destruct (fold_tuple r os) as [rr|] eqn:E2; [|discriminate]. inversion E. subst folded.
    inversion Ha; inversion Hb; subst. destruct (fold_pair_dominates e x v H1 H5 Ep) as [P1 P2].
    destruct (IH os rr H2 H6 E2) as [Q1 Q2]. simpl. rewrite P1, P2, Q1, Q2. split; reflexivity.
Qed.

Lemma tuple_in_set os X : Forall (fun e => wf e = true) os -> 
  (forall e, In e os -> In (as_non_optional e) X) -> (existsb is_optional os = true -> In SNull X) ->
  tuple_in_oneof os X false = true.
Proof.
  intros Hw He Hn. unfold tuple_in_oneof. apply andb_true_iff. split.
  - apply forallb_forall. intros x Hx. apply orb_true_iff. right. apply existsb_exists.
    exists (as_non_optional x). split; [apply He; exact Hx|]. apply subset_refl. rewrite wf_nonopt.
    rewrite Forall_forall in Hw. apply Hw. exact Hx.
  - destruct (existsb is_optional os) eqn:E; [|reflexivity]. simpl.
    apply orb_true_iff. left. apply existsb_exists. exists SNull. split; [apply Hn; reflexivity|reflexivity].
Qed.

Theorem absorbed_merger_r : forall s a, wf a = true -> wf s = true -> oneof_free s = true ->
  absorbed s (merger a s) = true.
Proof.
  induction s as [|o|o|o|ts o IH|cs o IH|vs o IH|os o IH] using shape_ind'; intros a Ha Hs Hf; try discriminate;
    apply absorbed_split;
    (split; [|intro Ho; apply merger_ub_r; [exact Ha|exact Hs|apply nullable_optional; exact Ho]]);
    try (left; reflexivity); right.
  - destruct a as [|o'|o'|o'|t o'|c o'|vs o'|es o']; try reflexivity;
      try (cbn [merger]; apply via_kind_pair_r; reflexivity);
      try (cbn [merger]; apply via_insert_r; reflexivity).
  - destruct a as [|o'|o'|o'|t o'|c o'|vs o'|es o']; try reflexivity;
      try (cbn [merger]; apply via_kind_pair_r; reflexivity);
      try (cbn [merger]; apply via_insert_r; reflexivity).
  - destruct a as [|o'|o'|o'|t o'|c o'|vs o'|es o']; try reflexivity;
      try (cbn [merger]; apply via_kind_pair_r; reflexivity);
      try (cbn [merger]; apply via_insert_r; reflexivity).
  - (* s = Array *)
    assert (Hc : core (SArray ts o) (as_non_optional (SArray ts o)) = true)
      by (apply core_refl_nonopt; [exact Hs|exact Hf|discriminate]).
    simpl in Hs, Hf.
    destruct a as [|o'|o'|o'|t o'|c o'|vs o'|es o'];
      try (cbn [merger]; apply via_kind_pair_r; exact Hc);
      try (cbn [merger]; apply via_insert_r; exact Hc).
    + exact Hc.
    + cbn [merger via]. rewrite core_array. simpl in Ha. apply IH; assumption.
    + cbn [merger via]. rewrite core_array. apply absorbed_split. split.
      * destruct (is_null ts) eqn:En; [left; reflexivity|right]. apply via_oneof. exists (as_non_optional ts). split.
        -- apply tuple_array_set_In. left. destruct ts; try reflexivity. discriminate.
        -- apply core_refl_nonopt; try assumption. intro; subst; discriminate.
      * intro Ho. apply tuple_array_elem_t. apply nullable_optional. exact Ho.
  - (* s = Object *)
    assert (Hc : core (SObject cs o) (as_non_optional (SObject cs o)) = true)
      by (apply core_refl_nonopt; [exact Hs|exact Hf|discriminate]).
    destruct a as [|o'|o'|o'|t o'|c o'|vs o'|es o'];
      try (cbn [merger]; apply via_kind_pair_r; exact Hc);
      try (cbn [merger]; apply via_insert_r; exact Hc).
    + exact Hc.
    + rewrite merger_object_object. cbn [via]. rewrite core_object.
      apply wf_object in Ha. apply wf_object in Hs. destruct Ha as [Hsc Hwc], Hs as [Hscs Hwcs].
      simpl in Hf. rewrite forallb_forall in Hf. rewrite Forall_forall in IH, Hwc, Hwcs.
      set (mg := obj_merge_go merger c cs []).
      assert (Hsm : keys_sorted mg = true) by (apply obj_merge_go_sorted; reflexivity).
      assert (Hget : forall k, map_get k mg =
                match map_get k c with
                | Some v => match map_get k cs with Some ov => Some (merger v ov) | None => Some (as_optional v) end
                | None => match map_get k cs with Some ov => Some (as_optional ov) | None => None end
                end).
      { intro k. unfold mg. rewrite obj_merge_go_get by assumption. reflexivity. }
      apply andb_true_iff. split; apply forallb_forall.
      * intros [k v] Hin. simpl. rewrite Hget, (sorted_get_In k v cs Hscs Hin).
        destruct (map_get k c) as [w|] eqn:G.
        -- apply map_get_In in G. apply (IH (k, v) Hin w (Hwc _ G) (Hwcs _ Hin) (Hf _ Hin)).
        -- apply absorbed_opt_target. apply absorbed_refl; [apply (Hwcs _ Hin)|apply (Hf _ Hin)].
      * intros [k w'] Hin. simpl. pose proof (sorted_get_In k w' mg Hsm Hin) as G. rewrite Hget in G.
        unfold map_has. destruct (map_get k cs) as [ov|]; [reflexivity|].
        destruct (map_get k c) as [w|]; [|discriminate]. inversion G. apply mem_as_optional_null.
  - (* s = Tuple *)
    assert (Hc : core (STuple os o) (as_non_optional (STuple os o)) = true)
      by (apply core_refl_nonopt; [exact Hs|exact Hf|discriminate]).
    pose proof Hs as Hwos. apply wf_tuple in Hwos.
    destruct a as [|o'|o'|o'|t o'|c o'|vs o'|es o'];
      try (cbn [merger]; apply via_kind_pair_r; exact Hc);
      try (cbn [merger]; apply via_insert_r; exact Hc).
    + exact Hc.
    + cbn [merger via]. rewrite core_tuple_array. apply tuple_in_set; [exact Hwos| |].
      * intros e He. apply tuple_array_set_In. right. left. exists e. auto.
      * intro H. apply tuple_array_set_In. right. right. split; [rewrite H; reflexivity|reflexivity].
    + cbn [merger]. apply wf_tuple in Ha. destruct (fold_tuple es os) as [folded|] eqn:E.
      * cbn [via]. rewrite core_tuple_tuple. apply (fold_tuple_dominates es os folded Ha Hwos E).
      * cbn [via]. rewrite core_tuple_array. apply tuple_in_set; [exact Hwos| |].
        -- intros e He. apply tuples_set_In. right. left. exists e. auto.
        -- intro H. apply tuples_set_In. right. right. split; [rewrite H; apply orb_true_r|reflexivity].
Qed.

(* ---------- the invariant tuples_free is preserved by merger ---------- *)
Lemma oneof_free_tuples_free : forall s, oneof_free s = true -> tuples_free s = true.
Proof.
  induction s as [|o|o|o|t o IH|c o IH|vs o IH|es o IH] using shape_ind'; intro H; try reflexivity; try discriminate.
  - simpl in *. auto.
  - simpl in *. rewrite forallb_forall in *. rewrite Forall_forall in IH. intros kv Hin. apply (IH kv Hin). apply H. exact Hin.
  - exact H.
Qed.

Lemma tuples_free_set_flag f s : tuples_free (set_flag f s) = tuples_free s.
Proof. destruct s; reflexivity. Qed.

Lemma oneof_free_set_flag f s : oneof_free (set_flag f s) = oneof_free s.
Proof. destruct s; reflexivity. Qed.

Lemma tf_oneof vs o : tuples_free (SOneOf vs o) = true <-> (forall z, In z vs -> tuples_free z = true).
Proof. simpl. apply forallb_forall. Qed.

Lemma tf_kind_pair x y n : tuples_free x = true -> tuples_free y = true -> tuples_free (kind_pair x y n) = true.
Proof.
  intros Hx Hy. unfold kind_pair. apply tf_oneof. intros z Hz. apply kind_pair_In in Hz.
  destruct Hz as [->|[->|[_ ->]]]; auto.
Qed.

Lemma tf_into_oneof x o vs oo : tuples_free x = true -> tuples_free (SOneOf vs oo) = true ->
  tuples_free (into_oneof x o vs oo) = true.
Proof.
  intros Hx Hv. unfold into_oneof. apply tf_oneof. intros z Hz. apply sset_insert_In in Hz.
  destruct Hz as [->|Hz]; [unfold as_non_optional; rewrite tuples_free_set_flag; exact Hx|].
  apply null_if_In in Hz. destruct Hz as [[_ ->]|Hz]; [reflexivity|]. apply (proj1 (tf_oneof vs oo) Hv z Hz).
Qed.

Lemma tf_flat t z : tuples_free t = true -> flat_variant t z -> tuples_free z = true.
Proof.
  intros Ht Hz. destruct t; simpl in Hz; try (subst z; exact Ht).
  apply (proj1 (tf_oneof _ _) Ht z Hz).
Qed.

Lemma tf_tuple_array t es o : tuples_free t = true -> forallb oneof_free es = true ->
  tuples_free (SArray (SOneOf (tuple_array_set t es) false) o) = true.
Proof.
  intros Ht He. change (tuples_free (SOneOf (tuple_array_set t es) false) = true). apply tf_oneof.
  intros z Hz. apply tuple_array_set_In in Hz. destruct Hz as [Hz|[[e [Hin ->]]|[_ ->]]].
  - eapply tf_flat; eassumption.
  - unfold as_non_optional. rewrite tuples_free_set_flag. apply oneof_free_tuples_free.
    rewrite forallb_forall in He. apply He. exact Hin.
  - reflexivity.
Qed.

Lemma tf_tuples_set es os o : forallb oneof_free es = true -> forallb oneof_free os = true ->
  tuples_free (SArray (SOneOf (tuples_set es os) false) o) = true.
Proof.
  intros He Ho. change (tuples_free (SOneOf (tuples_set es os) false) = true). apply tf_oneof.
  rewrite forallb_forall in He, Ho.
  intros z Hz. apply tuples_set_In in Hz. destruct Hz as [[e [Hin ->]]|[[e [Hin ->]]|[_ ->]]]; try reflexivity;
    unfold as_non_optional; rewrite tuples_free_set_flag; apply oneof_free_tuples_free; auto.
Qed.

Lemma fold_tuple_free es : forall os folded, forallb oneof_free es = true -> forallb oneof_free os = true ->
  fold_tuple es os = Some folded -> forallb oneof_free folded = true.
Proof.
  induction es as [|e r IH]; intros [|x os] folded He Ho E; simpl in E; try discriminate.
  - inversion E. reflexivity.
  - destruct (fold_pair e x) as [v|] eqn:Ep; [|discriminate].
    destruct (fold_tuple r os) as [rr|] eqn:E2; [|discriminate]. inversion E. subst folded.
    simpl in He, Ho. apply andb_true_iff in He. apply andb_true_iff in Ho. destruct He as [He1 He2], Ho as [Ho1 Ho2].
    simpl. rewrite (IH os rr He2 Ho2 E2), andb_true_r.
    apply fold_pair_cases in Ep. destruct Ep as [[_ ->]|[[_ ->]|[[_ ->]|[_ ->]]]]; auto; rewrite oneof_free_opt; auto.
Qed.

Theorem tuples_free_merger : forall a b, tuples_free a = true -> tuples_free b = true ->
  tuples_free (merger a b) = true.
Proof.
  induction a as [|o|o|o|t o IH|c o IH|vs o IH|es o IH] using shape_ind'; intros b Ha Hb.
  - simpl. unfold as_optional. rewrite tuples_free_set_flag. exact Hb.
  - rewrite (merger_scalar (SBool o)) by reflexivity.
    destruct b; try reflexivity; try (apply tf_into_oneof; assumption);
      (destruct (N.eqb _ _); [reflexivity|apply tf_kind_pair; [reflexivity|unfold as_non_optional; rewrite tuples_free_set_flag; exact Hb]]).
  - rewrite (merger_scalar (SNumber o)) by reflexivity.
    destruct b; try reflexivity; try (apply tf_into_oneof; assumption);
      (destruct (N.eqb _ _); [reflexivity|apply tf_kind_pair; [reflexivity|unfold as_non_optional; rewrite tuples_free_set_flag; exact Hb]]).
  - rewrite (merger_scalar (SString o)) by reflexivity.
    destruct b; try reflexivity; try (apply tf_into_oneof; assumption);
      (destruct (N.eqb _ _); [reflexivity|apply tf_kind_pair; [reflexivity|unfold as_non_optional; rewrite tuples_free_set_flag; exact Hb]]).
  - destruct b as [|o'|o'|o'|t' o'|c' o'|ws oo|os o'];
      try (apply tf_kind_pair; [exact Ha|unfold as_non_optional; rewrite tuples_free_set_flag; exact Hb]).
    + exact Ha.
    + simpl. apply IH; assumption.
    + apply tf_into_oneof; assumption.
    + cbn [merger]. apply tf_tuple_array; [exact Ha|exact Hb].
  - destruct b as [|o'|o'|o'|t' o'|c' o'|ws oo|os o'];
      try (apply tf_kind_pair; [exact Ha|unfold as_non_optional; rewrite tuples_free_set_flag; exact Hb]).
    + exact Ha.
    + rewrite merger_object_object. simpl in Ha, Hb. rewrite forallb_forall in Ha, Hb.
      change (forallb (fun p => tuples_free (snd p)) (obj_merge_go merger c c' []) = true).
      apply forallb_forall. apply Forall_forall.
      apply (obj_merge_go_values (fun s => tuples_free s = true)).
      * constructor.
      * apply Forall_forall. intros kv Hin. unfold as_optional. rewrite tuples_free_set_flag. apply Ha. exact Hin.
      * apply Forall_forall. intros kv Hin. unfold as_optional. rewrite tuples_free_set_flag. apply Hb. exact Hin.
      * intros k v ov Hin Hin'. rewrite Forall_forall in IH. apply (IH (k, v) Hin); [apply (Ha _ Hin)|apply (Hb _ Hin')].
    + apply tf_into_oneof; assumption.
  - pose proof (proj1 (tf_oneof vs o) Ha) as Hv.
    destruct b as [|o'|o'|o'|t' o'|c' o'|ws oo|os o'];
      try (cbn [merger]; apply tf_oneof; intros z Hz; apply sset_insert_In in Hz; destruct Hz as [->|Hz];
           [unfold as_non_optional; rewrite tuples_free_set_flag; exact Hb
           |apply null_if_In in Hz; destruct Hz as [[_ ->]|Hz]; [reflexivity|auto]]).
    + exact Ha.
    + cbn [merger]. apply tf_oneof. intros z Hz. apply sset_union_In in Hz. destruct Hz as [Hz|Hz]; [auto|].
      apply (proj1 (tf_oneof ws oo) Hb z Hz).
  - destruct b as [|o'|o'|o'|t' o'|c' o'|ws oo|os o'];
      try (apply tf_kind_pair; [exact Ha|unfold as_non_optional; rewrite tuples_free_set_flag; exact Hb]).
    + exact Ha.
    + cbn [merger]. apply tf_tuple_array; [exact Hb|exact Ha].
    + apply tf_into_oneof; assumption.
    + cbn [merger]. destruct (fold_tuple es os) as [folded|] eqn:E.
      * simpl. eapply fold_tuple_free; [exact Ha|exact Hb|exact E].
      * apply tf_tuples_set; assumption.
Qed.

(* ---------- P : absorption survives every later merge ---------- *)
Lemma merger_oneof_l_shape vs o x : exists ws oo, merger (SOneOf vs o) x = SOneOf ws oo /\ (forall z, In z vs -> In z ws).
Proof.
  destruct x as [|o'|o'|o'|t' o'|c' o'|ws' oo'|os o'];
    try (eexists; eexists; split; [reflexivity|]; intros z Hz; apply sset_insert_In; right; apply null_if_In; right; exact Hz).
  - exists vs, true. split; [reflexivity|auto].
  - eexists; eexists; split; [reflexivity|]. intros z Hz. apply sset_union_In. left. exact Hz.
Qed.

Lemma via_merger_oneof_l s vs o x : via (core s) (SOneOf vs o) = true -> via (core s) (merger (SOneOf vs o) x) = true.
Proof.
  intro H. destruct (merger_oneof_l_shape vs o x) as [ws [oo [E Hin]]]. rewrite E.
  eapply via_flat; [exact H|]. exact Hin.
Qed.

Lemma absorbed_into_set ts t es : absorbed ts t = true -> absorbed ts (SOneOf (tuple_array_set t es) false) = true.
Proof.
  intro H. apply absorbed_split in H. destruct H as [Hk Hn]. apply absorbed_split. split.
  - destruct Hk as [Hk|Hk]; [left; exact Hk|right]. eapply via_flat; [exact Hk|].
    intros z Hz. apply tuple_array_set_In. left. exact Hz.
  - intro Ho. apply tuple_array_elem_t. apply Hn. exact Ho.
Qed.

Lemma subset_nonopt_free x e : x <> SNull -> oneof_free e = true -> is_subset x e = true ->
  is_subset (as_non_optional x) (as_non_optional e) = true.
Proof.
  intros Hn Hf H. destruct x as [|o|o|o|t o|c o|vs o|es o]; [contradiction| | | | | | |].
  - rewrite (is_subset_scalar_free (SBool o)) in H by (try reflexivity; assumption).
    apply andb_true_iff in H. destruct H as [H _]. change (as_non_optional (SBool o)) with (SBool false).
    rewrite (is_subset_scalar_free (SBool false)) by (try reflexivity; unfold as_non_optional; rewrite oneof_free_set_flag; exact Hf).
    unfold as_non_optional. rewrite tag_set_flag. simpl in H |- *. rewrite H. reflexivity.
  - rewrite (is_subset_scalar_free (SNumber o)) in H by (try reflexivity; assumption).
    apply andb_true_iff in H. destruct H as [H _]. change (as_non_optional (SNumber o)) with (SNumber false).
    rewrite (is_subset_scalar_free (SNumber false)) by (try reflexivity; unfold as_non_optional; rewrite oneof_free_set_flag; exact Hf).
    unfold as_non_optional. rewrite tag_set_flag. simpl in H |- *. rewrite H. reflexivity.
  - rewrite (is_subset_scalar_free (SString o)) in H by (try reflexivity; assumption).
    apply andb_true_iff in H. destruct H as [H _]. change (as_non_optional (SString o)) with (SString false).
    rewrite (is_subset_scalar_free (SString false)) by (try reflexivity; unfold as_non_optional; rewrite oneof_free_set_flag; exact Hf).
    unfold as_non_optional. rewrite tag_set_flag. simpl in H |- *. rewrite H. reflexivity.
  - destruct e as [| | | |t' o'| |ws oo|]; simpl in H; try discriminate.
    apply andb_true_iff in H. destruct H as [_ H]. simpl. exact H.
  - destruct e as [| | | | |c' o'|ws oo|]; try (simpl in H; discriminate); try discriminate Hf.
    rewrite is_subset_object_object in H. apply andb_true_iff in H. destruct H as [_ H].
    change (is_subset (SObject c false) (SObject c' false) = true). rewrite is_subset_object_object. exact H.
  - destruct e; simpl in H; discriminate.
  - destruct e as [| | | |t' o'| |ws oo|os o']; try (simpl in H; discriminate).
    + destruct t'; try (simpl in H; discriminate).
    + rewrite is_subset_tuple_tuple in H. apply andb_true_iff in H. destruct H as [_ H].
      change (is_subset (STuple es false) (STuple os false) = true). rewrite is_subset_tuple_tuple. exact H.
Qed.

Lemma forall2b_In_l {A B} (f : A -> B -> bool) l : forall l' x, forall2b f l l' = true -> In x l ->
  exists y, In y l' /\ f x y = true.
Proof.
  induction l as [|a r IH]; intros [|b r'] x H Hin; simpl in *; try discriminate; [contradiction|].
  apply andb_true_iff in H. destruct H as [H1 H2]. destruct Hin as [<-|Hin].
  - exists b. auto.
  - destruct (IH r' x H2 Hin) as [y [Hy Hf]]. exists y. auto.
Qed.

Lemma forall2b_subset_trans os : forall es fs, Forall (fun e => wf e = true) fs -> forallb oneof_free fs = true ->
  forall2b is_subset os es = true -> forall2b is_subset es fs = true -> forall2b is_subset os fs = true.
Proof.
  induction os as [|x r IH]; intros [|e es] [|f fs] Hw Hf H1 H2; simpl in *; try discriminate; try reflexivity.
  apply andb_true_iff in H1. apply andb_true_iff in H2. apply andb_true_iff in Hf.
  destruct H1 as [A1 A2], H2 as [B1 B2], Hf as [F1 F2]. inversion Hw; subst.
  rewrite (subset_trans_free x e f H1 F1 A1 B1). simpl. eapply IH; eassumption.
Qed.

(* a tuple accepted element-wise by es is absorbed by any variant set holding the non-optional forms of es *)
Lemma tuple_in_set_via os es X : forallb oneof_free es = true -> forall2b is_subset os es = true ->
  (forall e, In e es -> In (as_non_optional e) X) -> (existsb is_optional es = true -> In SNull X) ->
  tuple_in_oneof os X false = true.
Proof.
  intros Hf H He Hn. rewrite forallb_forall in Hf. unfold tuple_in_oneof. apply andb_true_iff. split.
  - apply forallb_forall. intros x Hx. destruct (forall2b_In_l _ _ _ _ H Hx) as [e [Hine Hs]].
    destruct (is_null x) eqn:En; [reflexivity|]. simpl. apply existsb_exists.
    exists (as_non_optional e). split; [apply He; exact Hine|].
    apply subset_nonopt_free; [intro; subst; discriminate|apply Hf; exact Hine|exact Hs].
  - destruct (existsb is_optional os) eqn:E; [|reflexivity]. simpl.
    apply orb_true_iff. left. apply existsb_exists. exists SNull. split; [|reflexivity]. apply Hn.
    apply existsb_exists in E. destruct E as [x [Hx Ho]]. destruct (forall2b_In_l _ _ _ _ H Hx) as [e [Hine Hs]].
    apply existsb_exists. exists e. split; [exact Hine|]. apply (optional_up x e Ho Hs). apply Hf. exact Hine.
Qed.

Lemma tuple_in_oneof_mono os vs uo ws oo : tuple_in_oneof os vs uo = true -> (forall z, In z vs -> In z ws) ->
  (mem JNull (SOneOf vs uo) = true -> mem JNull (SOneOf ws oo) = true) -> tuple_in_oneof os ws oo = true.
Proof.
  intros H Hin Hn. unfold tuple_in_oneof in *. apply andb_true_iff in H. destruct H as [H1 H2].
  apply andb_true_iff. split.
  - rewrite forallb_forall in H1 |- *. intros x Hx. specialize (H1 x Hx). apply orb_true_iff in H1.
    destruct H1 as [H1|H1]; [rewrite H1; reflexivity|]. apply orb_true_iff. right.
    apply existsb_exists in H1. destruct H1 as [r [Hr Hs]]. apply existsb_exists. exists r. auto.
  - destruct (existsb is_optional os); [|reflexivity]. simpl in *. apply Hn. exact H2.
Qed.

Theorem absorbed_merger_l : forall s a x, wf a = true -> tuples_free a = true -> wf x = true -> oneof_free x = true ->
  absorbed s a = true -> absorbed s (merger a x) = true.
Proof.
  induction s as [|o|o|o|ts o IH|cs o IH|vs o IH|os o IH] using shape_ind'; intros a x Ha Hta Hx Hfx H;
    try (rewrite absorbed_oneof_l in H; discriminate);
    apply absorbed_split in H; destruct H as [Hk Hn]; apply absorbed_split;
    (split; [|intro Ho; apply merger_ub_l; [exact Ha|exact Hx|apply Hn; exact Ho]]);
    try (left; reflexivity); right; (destruct Hk as [Hk|Hk]; [discriminate|]).
  - destruct a as [|o'|o'|o'|t o'|c o'|vs o'|es o']; try discriminate Hk; [|apply via_merger_oneof_l; exact Hk].
    destruct x as [|p|p|p|t' p|c' p|ws p|es' p]; try reflexivity; try discriminate Hfx;
      (cbn [merger]; apply (via_kind_pair_l (SBool o) (SBool o')); [reflexivity|exact Hk]).
  - destruct a as [|o'|o'|o'|t o'|c o'|vs o'|es o']; try discriminate Hk; [|apply via_merger_oneof_l; exact Hk].
    destruct x as [|p|p|p|t' p|c' p|ws p|es' p]; try reflexivity; try discriminate Hfx;
      (cbn [merger]; apply (via_kind_pair_l (SNumber o) (SNumber o')); [reflexivity|exact Hk]).
  - destruct a as [|o'|o'|o'|t o'|c o'|vs o'|es o']; try discriminate Hk; [|apply via_merger_oneof_l; exact Hk].
    destruct x as [|p|p|p|t' p|c' p|ws p|es' p]; try reflexivity; try discriminate Hfx;
      (cbn [merger]; apply (via_kind_pair_l (SString o) (SString o')); [reflexivity|exact Hk]).
  - (* s = Array *)
    destruct a as [|o'|o'|o'|t o'|c o'|vs o'|es o']; try discriminate Hk; [|apply via_merger_oneof_l; exact Hk].
    cbn [via] in Hk. rewrite core_array in Hk. simpl in Ha, Hta.
    destruct x as [|p|p|p|t' p|c' p|ws p|es' p]; try discriminate Hfx;
      try (cbn [merger]; apply (via_kind_pair_l (SArray ts o) (SArray t o')); [reflexivity|cbn [via]; rewrite core_array; exact Hk]).
    + cbn [merger via]. rewrite core_array. exact Hk.
    + cbn [merger via]. rewrite core_array. simpl in Hx, Hfx. apply IH; assumption.
    + cbn [merger via]. rewrite core_array. apply absorbed_into_set. exact Hk.
  - (* s = Object *)
    destruct a as [|o'|o'|o'|t o'|c o'|vs o'|es o']; try discriminate Hk; [|apply via_merger_oneof_l; exact Hk].
    cbn [via] in Hk.
    destruct x as [|p|p|p|t' p|c' p|ws p|es' p]; try discriminate Hfx;
      try (cbn [merger]; apply (via_kind_pair_l (SObject cs o) (SObject c o')); [reflexivity|exact Hk]).
    + exact Hk.
    + rewrite core_object in Hk. apply andb_true_iff in Hk. destruct Hk as [Hk1 Hk2].
      unfold members_abs in Hk1. unfold extras_nullable in Hk2.
      rewrite merger_object_object. cbn [via]. rewrite core_object.
      apply wf_object in Ha. apply wf_object in Hx. destruct Ha as [Hsc Hwc], Hx as [Hsc' Hwc'].
      simpl in Hta, Hfx. rewrite forallb_forall in Hta, Hfx, Hk1, Hk2. rewrite Forall_forall in IH, Hwc, Hwc'.
      set (mg := obj_merge_go merger c c' []).
      assert (Hsm : keys_sorted mg = true) by (apply obj_merge_go_sorted; reflexivity).
      assert (Hget : forall k, map_get k mg =
                match map_get k c with
                | Some v => match map_get k c' with Some ov => Some (merger v ov) | None => Some (as_optional v) end
                | None => match map_get k c' with Some ov => Some (as_optional ov) | None => None end
                end).
      { intro k. unfold mg. rewrite obj_merge_go_get by assumption. reflexivity. }
      apply andb_true_iff. split; apply forallb_forall.
      * intros [k v] Hin. simpl. specialize (Hk1 _ Hin). simpl in Hk1. rewrite Hget.
        destruct (map_get k c) as [w|] eqn:G; [|discriminate]. pose proof (map_get_In _ _ _ G) as Gin.
        destruct (map_get k c') as [ov|] eqn:G'.
        -- pose proof (map_get_In _ _ _ G') as Gin'.
           apply (IH (k, v) Hin w ov (Hwc _ Gin) (Hta _ Gin) (Hwc' _ Gin') (Hfx _ Gin') Hk1).
        -- apply absorbed_opt_target. exact Hk1.
      * intros [k w'] Hin. simpl. pose proof (sorted_get_In k w' mg Hsm Hin) as G. rewrite Hget in G.
        destruct (map_has k cs) eqn:Eh; [reflexivity|]. simpl.
        destruct (map_get k c) as [w|] eqn:Gc.
        -- pose proof (map_get_In _ _ _ Gc) as Gin. specialize (Hk2 _ Gin). simpl in Hk2. rewrite Eh in Hk2. simpl in Hk2.
           destruct (map_get k c') as [ov|] eqn:G'; inversion G.
           ++ apply merger_ub_l; [apply (Hwc _ Gin)|apply (Hwc' _ (map_get_In _ _ _ G'))|exact Hk2].
           ++ apply mem_as_optional_null.
        -- destruct (map_get k c') as [ov|]; inversion G. apply mem_as_optional_null.
  - (* s = Tuple *)
    destruct a as [|o'|o'|o'|t o'|c o'|vs o'|es o']; try discriminate Hk; [|apply via_merger_oneof_l; exact Hk|].
    + (* dissolved into Array<OneOf> *)
      destruct t as [| | | | | |vs uo|]; try discriminate Hk. cbn [via] in Hk. rewrite core_tuple_array in Hk.
      destruct x as [|p|p|p|t' p|c' p|ws p|es' p]; try discriminate Hfx;
        try (cbn [merger]; apply (via_kind_pair_l (STuple os o) (SArray (SOneOf vs uo) o')); [reflexivity|exact Hk]).
      * exact Hk.
      * rewrite merge_array. destruct (merger_oneof_l_shape vs uo t') as [ws [oo [E Hin]]]. rewrite E. cbn [via]. rewrite core_tuple_array.
        apply (tuple_in_oneof_mono os vs uo ws oo Hk Hin). intro Hnl. rewrite <- E.
        apply merger_ub_l; [exact Ha|exact Hx|exact Hnl].
      * cbn [merger via]. rewrite core_tuple_array.
        apply (tuple_in_oneof_mono os vs uo _ false Hk).
        -- intros z Hz. apply tuple_array_set_In. left. exact Hz.
        -- intro Hnl. apply tuple_array_elem_t. exact Hnl.
    + (* still a tuple *)
      cbn [via] in Hk. rewrite core_tuple_tuple in Hk. simpl in Hta.
      destruct x as [|p|p|p|t' p|c' p|ws p|es' p]; try discriminate Hfx;
        try (cbn [merger]; apply (via_kind_pair_l (STuple os o) (STuple es o')); [reflexivity|exact Hk]).
      * exact Hk.
      * cbn [merger via]. rewrite core_tuple_array. apply (tuple_in_set_via os es _ Hta Hk).
        -- intros e He. apply tuple_array_set_In. right. left. exists e. auto.
        -- intro He. apply tuple_array_set_In. right. right. split; [rewrite He; reflexivity|reflexivity].
      * cbn [merger]. apply wf_tuple in Ha. pose proof Hx as Hx'. apply wf_tuple in Hx'. simpl in Hfx.
        destruct (fold_tuple es es') as [folded|] eqn:E.
        -- cbn [via]. rewrite core_tuple_tuple.
           apply (forall2b_subset_trans os es folded).
           ++ apply (fold_tuple_wf es es' folded E Ha Hx').
           ++ apply (fold_tuple_free es es' folded Hta Hfx E).
           ++ exact Hk.
           ++ apply (fold_tuple_dominates es es' folded Ha Hx' E).
        -- cbn [via]. rewrite core_tuple_array. apply (tuple_in_set_via os es _ Hta Hk).
           ++ intros e He. apply tuples_set_In. left. exists e. auto.
           ++ intro He. apply tuples_set_In. right. right. split; [rewrite He; reflexivity|reflexivity].
Qed.

(* ---------- E : merging an absorbed shape again does not change the meaning ---------- *)
Lemma mem_set_flag_cases f s d : mem d (set_flag f s) = true -> (d = JNull /\ f = true) \/ mem d s = true.
Proof.
  intro H. destruct d; try (right; rewrite mem_set_flag_nonnull in H; [exact H|discriminate]).
  apply mem_set_flag_null in H. destruct H; auto.
Qed.

Lemma oneof_insert_incl s vs o' d : (forall x, mem x s = true -> mem x (SOneOf vs o') = true) ->
  mem d (SOneOf (sset_insert (as_non_optional s) (null_if (is_optional s) vs)) o') = true ->
  mem d (SOneOf vs o') = true.
Proof.
  intros Hs H. apply mem_oneof_elim in H. destruct H as [[v [Hin Hv]]|[-> Ho]].
  - apply sset_insert_In in Hin. destruct Hin as [->|Hin].
    + apply Hs. apply mem_non_optional_incl. exact Hv.
    + apply null_if_In in Hin. destruct Hin as [[Ho ->]|Hin].
      * apply mem_null_only in Hv. subst. apply Hs. apply nullable_optional. exact Ho.
      * eapply mem_oneof_intro; eassumption.
  - subst. simpl. apply orb_true_r.
Qed.

Lemma fold_tuple_absorbed es : forall os, Forall (fun e => wf e = true) es ->
  forall2b is_subset os es = true ->
  exists folded, fold_tuple es os = Some folded /\
    (forall l, forall2b (fun e x => mem x e) folded l = true -> forall2b (fun e x => mem x e) es l = true).
Proof.
  induction es as [|e r IH]; intros [|x os] Hw H; simpl in H; try discriminate.
  - exists []. split; [reflexivity|auto].
  - apply andb_true_iff in H. destruct H as [H1 H2]. inversion Hw; subst.
    destruct (IH os H4 H2) as [rr [E Hrr]]. simpl. rewrite E. unfold fold_pair.
    destruct (is_subset e x) eqn:Eex.
    + exists (x :: rr). split; [reflexivity|]. intros [|y l] Hl; simpl in *; [discriminate|].
      apply andb_true_iff in Hl. destruct Hl as [L1 L2].
      rewrite (is_subset_sound x e H3 H1 y L1), (Hrr l L2). reflexivity.
    + rewrite H1. exists (e :: rr). split; [reflexivity|]. intros [|y l] Hl; simpl in *; [discriminate|].
      apply andb_true_iff in Hl. destruct Hl as [L1 L2]. rewrite L1, (Hrr l L2). reflexivity.
Qed.

Theorem absorbed_incl : forall s a, wf a = true -> wf s = true -> oneof_free s = true -> absorbed s a = true ->
  forall d, mem d (merger a s) = true -> mem d a = true.
Proof.
  induction s as [|o|o|o|ts o IH|cs o IH|vs o IH|os o IH] using shape_ind'; intros a Ha Hs Hf H d Hd; try discriminate;
    pose proof (absorbed_sound _ _ Ha H) as Hsound;
    apply absorbed_split in H; destruct H as [Hk Hn].
  - rewrite merge_null_r in Hd. apply mem_set_flag_cases in Hd. destruct Hd as [[-> _]|Hd]; [apply Hn; reflexivity|exact Hd].
  - destruct Hk as [Hk|Hk]; [discriminate|].
    destruct a as [|o'|o'|o'|t o'|c o'|vs o'|es o']; try discriminate Hk.
    + destruct d; simpl in Hd |- *; try discriminate; try reflexivity. destruct o'; [reflexivity|]. simpl in Hd. subst. apply Hn. reflexivity.
    + cbn [merger] in Hd. apply (oneof_insert_incl (SBool o) vs o' d Hsound Hd).
  - destruct Hk as [Hk|Hk]; [discriminate|].
    destruct a as [|o'|o'|o'|t o'|c o'|vs o'|es o']; try discriminate Hk.
    + destruct d; simpl in Hd |- *; try discriminate; try reflexivity. destruct o'; [reflexivity|]. simpl in Hd. subst. apply Hn. reflexivity.
    + cbn [merger] in Hd. apply (oneof_insert_incl (SNumber o) vs o' d Hsound Hd).
  - destruct Hk as [Hk|Hk]; [discriminate|].
    destruct a as [|o'|o'|o'|t o'|c o'|vs o'|es o']; try discriminate Hk.
    + destruct d; simpl in Hd |- *; try discriminate; try reflexivity. destruct o'; [reflexivity|]. simpl in Hd. subst. apply Hn. reflexivity.
    + cbn [merger] in Hd. apply (oneof_insert_incl (SString o) vs o' d Hsound Hd).
  - (* s = Array *)
    destruct Hk as [Hk|Hk]; [discriminate|].
    destruct a as [|o'|o'|o'|t o'|c o'|vs o'|es o']; try discriminate Hk.
    + cbn [via] in Hk. rewrite core_array in Hk. cbn [merger] in Hd. simpl in Ha, Hs, Hf.
      destruct d as [| | | |l|m]; simpl in Hd |- *; try discriminate.
      * destruct o'; [reflexivity|]. simpl in Hd. subst. apply Hn. reflexivity.
      * rewrite forallb_forall in Hd |- *. intros x Hx. apply (IH t Ha Hs Hf Hk x (Hd x Hx)).
    + cbn [merger] in Hd. apply (oneof_insert_incl (SArray ts o) vs o' d Hsound Hd).
  - (* s = Object *)
    destruct Hk as [Hk|Hk]; [discriminate|].
    destruct a as [|o'|o'|o'|t o'|c o'|vs o'|es o']; try discriminate Hk.
    + cbn [via] in Hk. rewrite core_object in Hk. apply andb_true_iff in Hk. destruct Hk as [Hk1 Hk2].
      unfold members_abs in Hk1. unfold extras_nullable in Hk2.
      rewrite merger_object_object in Hd.
      pose proof Ha as Ha'. apply wf_object in Ha'. pose proof Hs as Hs'. apply wf_object in Hs'.
      destruct Ha' as [Hsc Hwc], Hs' as [Hscs Hwcs].
      simpl in Hf. rewrite forallb_forall in Hf, Hk1, Hk2. rewrite Forall_forall in IH, Hwc, Hwcs.
      set (mg := obj_merge_go merger c cs []) in *.
      assert (Hsm : keys_sorted mg = true) by (apply obj_merge_go_sorted; reflexivity).
      assert (Hget : forall k, map_get k mg =
                match map_get k c with
                | Some v => match map_get k cs with Some ov => Some (merger v ov) | None => Some (as_optional v) end
                | None => match map_get k cs with Some ov => Some (as_optional ov) | None => None end
                end).
      { intro k. unfold mg. rewrite obj_merge_go_get by assumption. reflexivity. }
      (* a value admitted at key k by the merged map is admitted by c *)
      assert (Hval : forall k w w' x, map_get k c = Some w -> map_get k mg = Some w' -> mem x w' = true -> mem x w = true).
      { intros k w w' x G G' Hx. rewrite Hget, G in G'. pose proof (map_get_In _ _ _ G) as Gin.
        destruct (map_get k cs) as [sv|] eqn:Gs; inversion G'; subst w'.
        - pose proof (map_get_In _ _ _ Gs) as Gsin. pose proof (Hk1 _ Gsin) as A. simpl in A. rewrite G in A.
          apply (IH (k, sv) Gsin w (Hwc _ Gin) (Hwcs _ Gsin) (Hf _ Gsin) A x Hx).
        - apply mem_set_flag_cases in Hx. destruct Hx as [[-> _]|Hx]; [|exact Hx].
          pose proof (Hk2 _ Gin) as B. simpl in B. unfold map_has in B. rewrite Gs in B. exact B. }
      assert (Hkeys : forall k, map_get k c = None -> map_get k mg = None).
      { intros k G. rewrite Hget, G. destruct (map_get k cs) as [sv|] eqn:Gs; [|reflexivity].
        pose proof (Hk1 _ (map_get_In _ _ _ Gs)) as A. simpl in A. rewrite G in A. discriminate. }
      destruct d as [| | | |l|m]; try (simpl in Hd; discriminate).
      * simpl in Hd |- *. destruct o'; [reflexivity|]. simpl in Hd. subst. apply Hn. reflexivity.
      * rewrite mem_object in Hd |- *. apply andb_true_iff in Hd. destruct Hd as [Hd1 Hd2].
        rewrite forallb_forall in Hd1, Hd2. apply andb_true_iff. split; apply forallb_forall.
        -- intros [k v] Hin. specialize (Hd1 _ Hin). rewrite (member_ok_get mg k v Hsm) in Hd1.
           rewrite (member_ok_get c k v Hsc).
           destruct (map_get k mg) as [w'|] eqn:G'; [|discriminate].
           destruct (map_get k c) as [w|] eqn:G; [|rewrite (Hkeys k G) in G'; discriminate].
           apply (Hval k w w' v G G' Hd1).
        -- intros [k w] Hin. unfold key_ok. simpl. pose proof (sorted_get_In k w c Hsc Hin) as G.
           assert (exists w', map_get k mg = Some w') as [w' G'].
           { rewrite Hget, G. destruct (map_get k cs); eauto. }
           specialize (Hd2 _ (map_get_In _ _ _ G')). unfold key_ok in Hd2. simpl in Hd2.
           apply orb_true_iff in Hd2. destruct Hd2 as [Hd2|Hd2]; [rewrite Hd2; reflexivity|].
           unfold nullable in *. rewrite (Hval k w w' JNull G G' Hd2). apply orb_true_r.
    + cbn [merger] in Hd. apply (oneof_insert_incl (SObject cs o) vs o' d Hsound Hd).
  - (* s = Tuple *)
    destruct Hk as [Hk|Hk]; [discriminate|].
    destruct a as [|o'|o'|o'|t o'|c o'|vs o'|es o']; try discriminate Hk.
    + destruct t as [| | | | | |vs uo|]; try discriminate Hk. cbn [via] in Hk. rewrite core_tuple_array in Hk.
      cbn [merger] in Hd.
      assert (Hwv : forall v, In v vs -> wf v = true) by (apply (proj1 (wf_oneof vs uo) Ha)).
      destruct d as [| | | |l|m]; simpl in Hd |- *; try discriminate.
      * destruct o'; [reflexivity|]. simpl in Hd. subst. apply Hn. reflexivity.
      * rewrite forallb_forall in Hd |- *. intros x Hx. specialize (Hd x Hx).
        change (mem x (SOneOf vs uo) = true).
        change (mem x (SOneOf (tuple_array_set (SOneOf vs uo) os) false) = true) in Hd.
        apply mem_oneof_elim in Hd. destruct Hd as [[v [Hin Hv]]|[_ Hfalse]]; [|discriminate].
        apply tuple_array_set_In in Hin. destruct Hin as [Hin|[[e [Hin ->]]|[Hopt ->]]].
        -- eapply mem_oneof_intro; [exact Hin|exact Hv].
        -- apply (tuple_in_oneof_sound os vs uo x e Hwv Hk Hin). apply mem_non_optional_incl. exact Hv.
        -- apply mem_null_only in Hv. subst x. apply orb_true_iff in Hopt. destruct Hopt as [Hopt|Hopt].
           ++ unfold tuple_in_oneof in Hk. apply andb_true_iff in Hk. destruct Hk as [_ Hk]. rewrite Hopt in Hk. exact Hk.
           ++ simpl in Hopt. subst uo. simpl. apply orb_true_r.
    + cbn [merger] in Hd. apply (oneof_insert_incl (STuple os o) vs o' d Hsound Hd).
    + cbn [via] in Hk. rewrite core_tuple_tuple in Hk. cbn [merger] in Hd.
      pose proof Ha as Ha'. apply wf_tuple in Ha'.
      destruct (fold_tuple_absorbed es os Ha' Hk) as [folded [E Hfold]]. rewrite E in Hd.
      destruct d as [| | | |l|m]; try (simpl in Hd; discriminate).
      * simpl in Hd |- *. destruct o'; [reflexivity|]. simpl in Hd. subst. apply Hn. reflexivity.
      * rewrite mem_tuple in Hd |- *. apply Hfold. exact Hd.
Qed.

Lemma equiv_of_incl a s : wf a = true -> wf s = true ->
  (forall d, mem d (merger a s) = true -> mem d a = true) -> equiv_sh (merger a s) a.
Proof.
  intros Ha Hs H d. destruct (mem d (merger a s)) eqn:E.
  - symmetry. apply H. exact E.
  - destruct (mem d a) eqn:E2; [|reflexivity]. rewrite (merger_ub_l a s d Ha Hs E2) in E. discriminate.
Qed.

Theorem absorbed_equiv s a : wf a = true -> wf s = true -> oneof_free s = true -> absorbed s a = true ->
  equiv_sh (merger a s) a.
Proof. intros Ha Hs Hf H. apply equiv_of_incl; try assumption. apply absorbed_incl; assumption. Qed.

(* ---------- S : after one re-addition the shape is syntactically stable ---------- *)
Theorem add_twice_absorbed : forall a s, wf a = true -> wf s = true -> oneof_free s = true ->
  absorbed s a = true -> merger (merger a s) s = merger a s.
Proof.
  induction a as [|o|o|o|t o IH|c o IH|vs o IH|es o IH] using shape_ind'; intros s Ha Hws Hfs Habs;
    assert (Hno : is_oneof s = false) by (destruct s; try reflexivity; discriminate).
  - (* Null *) simpl. apply absorb_self; assumption.
  - rewrite (merger_scalar (SBool o)) by reflexivity.
    destruct s as [|o'|o'|o'|t' o'|c' o'|ws oo|os o']; try discriminate Hno;
      try (simpl; rewrite ?orb_absorb; reflexivity);
      (apply kind_pair_absorbs; [discriminate|reflexivity|intro H; simpl in *; rewrite H; apply orb_true_r]).
  - rewrite (merger_scalar (SNumber o)) by reflexivity.
    destruct s as [|o'|o'|o'|t' o'|c' o'|ws oo|os o']; try discriminate Hno;
      try (simpl; rewrite ?orb_absorb; reflexivity);
      (apply kind_pair_absorbs; [discriminate|reflexivity|intro H; simpl in *; rewrite H; apply orb_true_r]).
  - rewrite (merger_scalar (SString o)) by reflexivity.
    destruct s as [|o'|o'|o'|t' o'|c' o'|ws oo|os o']; try discriminate Hno;
      try (simpl; rewrite ?orb_absorb; reflexivity);
      (apply kind_pair_absorbs; [discriminate|reflexivity|intro H; simpl in *; rewrite H; apply orb_true_r]).
  - (* Array *)
    destruct s as [|o'|o'|o'|t' o'|c' o'|ws oo|os o']; try discriminate Hno;
      try reflexivity;
      try (cbn [merger]; apply kind_pair_absorbs; [discriminate|reflexivity|intro H; simpl in *; rewrite H; apply orb_true_r]).
    + apply absorbed_split in Habs. destruct Habs as [[Hk|Hk] _]; [discriminate|].
      cbn [via] in Hk. rewrite core_array in Hk. cbn [merger]. simpl in Ha, Hws, Hfs.
      rewrite (IH t' Ha Hws Hfs Hk), orb_absorb. reflexivity.
    + cbn [merger]. rewrite orb_absorb. f_equal. f_equal.
      apply tuple_array_set_stable.
      * apply tuple_array_set_sorted.
      * intros e He. apply tuple_array_set_In. right. left. exists e. auto.
      * intro H. apply tuple_array_set_In. right. right. split; [rewrite H; reflexivity|reflexivity].
  - (* Object *)
    destruct s as [|o'|o'|o'|t' o'|c' o'|ws oo|os o']; try discriminate Hno;
      try reflexivity;
      try (cbn [merger]; apply kind_pair_absorbs; [discriminate|reflexivity|intro H; simpl in *; rewrite H; apply orb_true_r]).
    apply absorbed_split in Habs. destruct Habs as [[Hk|Hk] _]; [discriminate|].
    cbn [via] in Hk. rewrite core_object in Hk. apply andb_true_iff in Hk. destruct Hk as [Hk1 _]. unfold members_abs in Hk1.
    rewrite forallb_forall in Hk1.
    rewrite !merger_object_object, orb_absorb. f_equal.
    apply wf_object in Ha. destruct Ha as [Hsc Hwc]. pose proof Hws as Hws'. apply wf_object in Hws'. destruct Hws' as [Hsc' Hwc'].
    simpl in Hfs. rewrite forallb_forall in Hfs.
    assert (Hsm : keys_sorted (obj_merge_go merger c c' []) = true) by (apply obj_merge_go_sorted; reflexivity).
    apply map_ext; [apply obj_merge_go_sorted; reflexivity|exact Hsm|].
    intro k. rewrite (obj_merge_go_get merger k _ Hsm) by exact Hsc'.
    rewrite (obj_merge_go_get merger k c Hsc) by exact Hsc'.
    destruct (map_get k c) as [v|] eqn:G; destruct (map_get k c') as [v'|] eqn:G'; try reflexivity.
    + apply map_get_In in G. pose proof (map_get_In _ _ _ G') as Gin'. rewrite Forall_forall in IH, Hwc, Hwc'.
      pose proof (Hk1 _ Gin') as A. simpl in A. rewrite (sorted_get_In k v c Hsc G) in A.
      pose proof (IH (k, v) G v' (Hwc _ G) (Hwc' _ Gin') (Hfs _ Gin') A) as E. simpl in E. rewrite E. reflexivity.
    + rewrite as_optional_idem. reflexivity.
    + apply map_get_In in G'. rewrite Forall_forall in Hwc'.
      rewrite absorb_self; [reflexivity|apply (Hwc' _ G')|apply (Hfs _ G')].
  - (* OneOf *)
    apply wf_oneof in Ha. destruct Ha as [Hsv _].
    destruct s as [|o'|o'|o'|t' o'|c' o'|ws oo|os o']; try discriminate Hno; try reflexivity;
      (match goal with |- merger (merger ?a ?s) ?s = _ =>
         assert (E : merger a s = SOneOf (sset_insert (as_non_optional s) (null_if (is_optional s) vs)) o) by reflexivity
       end; rewrite E; apply oneof_absorbs;
       [apply sset_sorted_insert; apply null_if_sorted; exact Hsv|discriminate|reflexivity
       |apply sset_insert_In; left; reflexivity
       |intro H; apply sset_insert_In; right; apply null_if_In; left; auto]).
  - (* Tuple *)
    destruct s as [|o'|o'|o'|t' o'|c' o'|ws oo|os o']; try discriminate Hno;
      try reflexivity;
      try (cbn [merger]; apply kind_pair_absorbs; [discriminate|reflexivity|intro H; simpl in *; rewrite H; apply orb_true_r]).
    + (* Tuple + Array: excluded, an absorbed array is never met by a tuple *)
      apply absorbed_split in Habs. destruct Habs as [[Hk|Hk] _]; discriminate.
    + (* Tuple + Tuple *)
      cbn [merger]. apply wf_tuple in Ha. pose proof Hws as Hwos. apply wf_tuple in Hwos.
      destruct (fold_tuple es os) as [folded|] eqn:E.
      * cbn [merger]. rewrite (fold_tuple_twice es os folded Ha Hwos Hfs E), orb_absorb. reflexivity.
      * cbn [merger]. rewrite orb_absorb. f_equal. f_equal.
        apply tuple_array_set_stable.
        -- apply tuples_set_sorted.
        -- intros e He. apply tuples_set_In. right. left. exists e. auto.
        -- intro H. apply tuples_set_In. right. right. split; [rewrite H; apply orb_true_r|reflexivity].
Qed.

(* ---------- source sequences ---------- *)
Lemma fold_absorbed r : forall acc s, wf acc = true -> tuples_free acc = true ->
  Forall (fun x => wf x = true /\ oneof_free x = true) r -> wf s = true -> oneof_free s = true ->
  absorbed s acc = true \/ In s r -> absorbed s (fold_left merger r acc) = true.
Proof.
  induction r as [|x r IH]; intros acc s Ha Hta Hr Hs Hf H; simpl.
  - destruct H as [H|[]]. exact H.
  - inversion Hr as [|? ? [Hwx Hfx] Hrr]; subst.
    apply IH; try assumption.
    + apply wf_merger; assumption.
    + apply tuples_free_merger; [exact Hta|apply oneof_free_tuples_free; exact Hfx].
    + destruct H as [H|[->|H]].
      * left. apply absorbed_merger_l; assumption.
      * left. apply absorbed_merger_r; assumption.
      * right. exact H.
Qed.

Theorem sources_absorbed h m d sd : from_sources_tree h = Ok m -> In d h -> infer_text d = Ok sd ->
  absorbed sd m = true.
Proof.
  intros H Hin Hd. destruct (from_sources_tree_ok _ _ H) as [s0 [r [E ->]]].
  apply mapM_o_ok in E.
  assert (Hall : Forall (fun x => wf x = true /\ oneof_free x = true) (s0 :: r)).
  { clear -E. induction E as [|x sx l rs Hx Hr IHr]; constructor; [apply (infer_text_ok x sx Hx)|exact IHr]. }
  assert (Hsd : In sd (s0 :: r)).
  { clear -E Hin Hd. induction E as [|x sx l rs Hx Hr IHr]; [contradiction|].
    destruct Hin as [<-|Hin]; [rewrite Hd in Hx; inversion Hx; left; reflexivity|right; auto]. }
  destruct (infer_text_ok d sd Hd) as [Hwsd Hfsd].
  inversion Hall as [|? ? [Hw0 Hf0] Hr]; subst.
  apply fold_absorbed; try assumption.
  - apply oneof_free_tuples_free. exact Hf0.
  - destruct Hsd as [<-|Hsd]; [left; apply absorbed_refl; assumption|right; exact Hsd].
Qed.

(* C09 in full, for d ANYWHERE in h and without any side condition on d:
   from the first re-addition on the shape is one fixed m1, and m1 admits exactly the documents that
   the shape of h admits. *)
Theorem sources_readd h d m : from_sources_tree h = Ok m -> In d h ->
  exists m1, (forall k, from_sources_tree (h ++ repeat d (S k)) = Ok m1) /\ equiv_sh m1 m.
Proof.
  intros Hm Hin. destruct (sources_infer_ok h m d Hm Hin) as [sd Hd].
  pose proof (sources_absorbed h m d sd Hm Hin Hd) as Habs.
  destruct (infer_text_ok d sd Hd) as [Hwsd Hfsd]. pose proof (from_sources_wf h m Hm) as Hwm.
  exists (merger m sd). split.
  - induction k as [|k IH].
    + simpl repeat. apply (from_sources_snoc _ d m sd Hm Hd).
    + rewrite repeat_snoc, app_assoc, (from_sources_snoc _ d _ sd IH Hd). f_equal.
      apply add_twice_absorbed; assumption.
  - apply absorbed_equiv; assumption.
Qed.

Corollary sources_readd_meaning h d m k m' : from_sources_tree h = Ok m -> In d h ->
  from_sources_tree (h ++ repeat d k) = Ok m' -> forall x, mem x m' = mem x m.
Proof.
  intros Hm Hin Hk. destruct k as [|k].
  - simpl in Hk. rewrite app_nil_r, Hm in Hk. inversion Hk. reflexivity.
  - destruct (sources_readd h d m Hm Hin) as [m1 [H1 H2]]. rewrite (H1 k) in Hk. inversion Hk. subst. exact H2.
Qed.

Corollary sources_readd_stable h d m k : from_sources_tree h = Ok m -> In d h ->
  from_sources_tree (h ++ repeat d (S (S k))) = from_sources_tree (h ++ repeat d (S k)).
Proof.
  intros Hm Hin. destruct (sources_readd h d m Hm Hin) as [m1 [H1 _]]. rewrite (H1 (S k)), (H1 k). reflexivity.
Qed.

(* success is preserved: re-adding a source never fails *)
Corollary sources_readd_ok h d m k : from_sources_tree h = Ok m -> In d h ->
  exists m', from_sources_tree (h ++ repeat d k) = Ok m'.
Proof.
  intros Hm Hin. destruct k as [|k]; [simpl; rewrite app_nil_r; eauto|].
  destruct (sources_readd h d m Hm Hin) as [m1 [H1 _]]. eauto.
Qed.

(* "at most one such addition" is tight: the first re-addition can change the representation
   (here the documented rule OneOf[..|Null] + Null = Option<OneOf[..|Null]> sets a flag), the
   second cannot *)
Lemma readd_changes_once : exists h d, In d h /\
  from_sources_tree (h ++ [d]) <> from_sources_tree h /\
  from_sources_tree (h ++ [d; d]) = from_sources_tree (h ++ [d]).
Proof.
  exists [JArr [JNum; JStr]; JArr [JNull; JNull]], (JArr [JNull; JNull]).
  split; [right; left; reflexivity|]. vm_compute. split; [discriminate|reflexivity].
Qed.
