(* UnescapeFacts.v — member names without a backslash or control character denote themselves. *)
From Coq Require Import List Bool NArith Lia.
Import ListNotations.
From JS Require Import Model.Base Model.Lexer Model.Unescape.

Definition plain_char (c : char) : bool := negb (N.eqb c 92) && negb (N.ltb c 32).

Lemma decode_key_f_plain : forall cs fuel, length cs < fuel -> forallb plain_char cs = true ->
  decode_key_f fuel cs = Some cs.
Proof.
  induction cs as [|c r IH]; intros fuel Hf Hp; destruct fuel as [|f]; try (simpl in Hf; lia); [reflexivity|].
  simpl in Hp. apply andb_true_iff in Hp. destruct Hp as [Hc Hr]. unfold plain_char in Hc.
  apply andb_true_iff in Hc. destruct Hc as [H1 H2]. apply negb_true_iff in H1. apply negb_true_iff in H2.
  cbn [decode_key_f]. rewrite H1, H2. rewrite (IH f); [reflexivity|simpl in Hf; lia|exact Hr].
Qed.

Theorem name_chars_plain cs : forallb plain_char cs = true -> name_chars cs = cs.
Proof.
  intro H. unfold name_chars, decode_key. rewrite decode_key_f_plain; [reflexivity|lia|exact H].
Qed.

Example decode_examples :
  decode_key [97; 92; 110; 98]%N = Some [97; 10; 98]%N /\
  decode_key [92; 117; 48; 48; 54; 49]%N = Some [97]%N /\
  decode_key [92; 117; 68; 56; 51; 68; 92; 117; 68; 69; 48; 48]%N = Some [128512]%N /\
  decode_key [92; 113]%N = None /\ decode_key [92; 117; 68; 56; 51; 68]%N = None /\
  name_chars [92; 113]%N = [92; 113]%N.
Proof. vm_compute. repeat split. Qed.
