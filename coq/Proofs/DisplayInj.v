(* DisplayInj.v — C11 (second half): the Display text is a prefix-free code on shapes whose
   member names are printed bare ([A-Za-z0-9_-]), hence two different such shapes never
   print the same. *)
From Coq Require Import List Bool NArith Lia Ascii String.
Import ListNotations.
From JS Require Import Model.Base Model.Shape Model.Repr
  Proofs.BaseFacts Proofs.ShapeFacts.

Local Open Scope N_scope.

(* ---------- generic: separated sequences closed by a delimiter ---------- *)
Section Seq.
  Variables (A : Type) (E : A -> text) (ok : A -> Prop) (sep : text) (close s0 : N) (srest : text).
  Hypothesis Hsep : sep = s0 :: srest.
  Hypothesis Hs0 : s0 <> close.
  Hypothesis Hstart : forall a, ok a -> exists c t, E a = c :: t /\ c <> close /\ c <> s0.

  Fixpoint seq_tail (l : list A) : text :=
    match l with
    | [] => []
    | a :: r => sep ++ E a ++ seq_tail r
    end.

  Definition seq_text (l : list A) : text :=
    match l with
    | [] => []
    | a :: r => E a ++ seq_tail r
    end.

  Lemma join_seq l : join sep (map E l) = seq_text l.
  Proof.
    destruct l as [|a r]; [reflexivity|]. simpl. revert a.
    induction r as [|b r IH]; intro a; simpl; [rewrite app_nil_r; reflexivity|].
    rewrite (IH b). reflexivity.
  Qed.

  Definition pf (a : A) : Prop :=
    forall a' r r', ok a' -> E a ++ r = E a' ++ r' -> a = a' /\ r = r'.

  Lemma seq_tail_inj l : Forall (fun a => ok a /\ pf a) l -> forall l' K K', Forall ok l' ->
    seq_tail l ++ close :: K = seq_tail l' ++ close :: K' -> l = l' /\ K = K'.
  Proof.
    induction 1 as [|a r [Ha Hpf] Hr IH]; intros [|a' r'] K K' Hok H; simpl in H.
    - inversion H. auto.
    - rewrite Hsep in H. simpl in H. inversion H. congruence.
    - rewrite Hsep in H. simpl in H. inversion H. congruence.
    - inversion Hok as [|? ? Ha' Hr']; subst.
      rewrite <- !app_assoc in H. apply app_inv_head in H.
      destruct (Hpf a' _ _ Ha' H) as [-> H2].
      destruct (IH r' K K' Hr' H2) as [-> ->]. auto.
  Qed.

  Lemma seq_text_inj l : Forall (fun a => ok a /\ pf a) l -> forall l' K K', Forall ok l' ->
    seq_text l ++ close :: K = seq_text l' ++ close :: K' -> l = l' /\ K = K'.
  Proof.
    intros Hl l' K K' Hok H. destruct Hl as [|a r [Ha Hpf] Hr]; destruct l' as [|a' r']; simpl in H.
    - inversion H. auto.
    - inversion Hok as [|? ? Ha' Hr']; subst. destruct (Hstart a' Ha') as [c [t [E1 [E2 _]]]].
      rewrite E1 in H. simpl in H. inversion H. congruence.
    - destruct (Hstart a Ha) as [c [t [E1 [E2 _]]]]. rewrite E1 in H. simpl in H. inversion H. congruence.
    - inversion Hok as [|? ? Ha' Hr']; subst. rewrite <- !app_assoc in H.
      destruct (Hpf a' _ _ Ha' H) as [-> H2].
      destruct (seq_tail_inj r Hr r' K K' Hr' H2) as [-> ->]. auto.
  Qed.
End Seq.

(* ---------- heads ---------- *)
Lemma same_head s s' r r' : display s ++ r = display s' ++ r' ->
  tag s = tag s' /\ is_optional s = is_optional s'.
Proof.
  intro H.
  destruct s as [|o|o|o|t o|c o|vs o|es o], s' as [|o'|o'|o'|t' o'|c' o'|vs' o'|es' o'];
    try destruct o; try destruct o';
    cbn [display wrap_opt bytes app N_of_ascii N_of_digits] in H; try discriminate H; split; reflexivity.
Qed.

Lemma display_first s : exists c t, display s = c :: t /\ (65 <=? c) && (c <=? 90) = true.
Proof.
  destruct s as [|o|o|o|t o|c o|vs o|es o]; try destruct o; eexists; eexists; (split; [reflexivity|reflexivity]).
Qed.

Definition cont (o : bool) (r : text) : text := if o then bytes ">" ++ r else r.

Lemma wrap_opt_app o X r : wrap_opt o X ++ r = (if o then bytes "Option<" else []) ++ X ++ cont o r.
Proof. destruct o; simpl; [|reflexivity]. rewrite <- !app_assoc. reflexivity. Qed.

Lemma cont_inj o r r' : cont o r = cont o r' -> r = r'.
Proof. destruct o; simpl; intro H; [inversion H; reflexivity|exact H]. Qed.

(* ---------- keys ---------- *)
Lemma key_split k : forallb is_ident_byte k = true -> forall k' Y Y', forallb is_ident_byte k' = true ->
  k ++ 58 :: Y = k' ++ 58 :: Y' -> k = k' /\ Y = Y'.
Proof.
  induction k as [|b k IH]; intros Hk [|b' k'] Y Y' Hk' H; simpl in *.
  - inversion H. auto.
  - inversion H. subst b'. apply andb_true_iff in Hk'. destruct Hk' as [Hb _]. discriminate Hb.
  - inversion H. subst b. apply andb_true_iff in Hk. destruct Hk as [Hb _]. discriminate Hb.
  - apply andb_true_iff in Hk. apply andb_true_iff in Hk'. destruct Hk as [_ Hk], Hk' as [_ Hk'].
    inversion H. subst b'. destruct (IH Hk k' Y Y' Hk' H2) as [-> ->]. auto.
Qed.

Definition member_text (kv : key * shape) : text :=
  (if ident_key (fst kv) then fst kv else 34 :: fst kv ++ [34]) ++ bytes ": " ++ display (snd kv).

Definition member_ok (kv : key * shape) : Prop :=
  ident_key (fst kv) = true /\ fst kv <> [] /\ ident_keys (snd kv) = true.

Lemma ident_keys_object c o : ident_keys (SObject c o) = true <-> Forall member_ok c.
Proof.
  simpl. rewrite forallb_forall, Forall_forall. split; intros H kv Hin; specialize (H kv Hin).
  - apply andb_true_iff in H. destruct H as [H H3]. apply andb_true_iff in H. destruct H as [H1 H2].
    split; [exact H1|]. split; [|exact H3]. destruct (fst kv); [discriminate|discriminate].
  - destruct H as [H1 [H2 H3]]. rewrite H1, H3. destruct (fst kv); [contradiction|reflexivity].
Qed.

Lemma ident_byte_not_delim b : is_ident_byte b = true -> b <> 125 /\ b <> 44 /\ b <> 41 /\ b <> 93 /\ b <> 32.
Proof.
  unfold is_ident_byte. intro H. repeat split; intro; subst; discriminate H.
Qed.

Lemma letter_not_delim c : (65 <=? c) && (c <=? 90) = true -> c <> 125 /\ c <> 44 /\ c <> 41 /\ c <> 93 /\ c <> 32.
Proof. intro H. repeat split; intro; subst; discriminate H. Qed.

Lemma display_object c o :
  display (SObject c o) = wrap_opt o (bytes "Object{" ++ join (bytes ", ") (map member_text c) ++ bytes "}").
Proof. reflexivity. Qed.

(* ---------- the prefix-free statement ---------- *)
Definition PF (s : shape) : Prop :=
  forall s' r r', ident_keys s = true -> ident_keys s' = true ->
  display s ++ r = display s' ++ r' -> s = s' /\ r = r'.

Lemma strip_close (X X' : text) (c : N) (K K' : text) :
  X ++ [c] ++ K = X' ++ [c] ++ K' -> X ++ c :: K = X' ++ c :: K'.
Proof. exact (fun H => H). Qed.

Theorem display_prefix_free : forall s, PF s.
Proof.
  induction s as [|o|o|o|t o IH|c o IH|vs o IH|es o IH] using shape_ind'; intros s' r r' Hk Hk' H;
    destruct (same_head _ _ _ _ H) as [Ht Ho]; destruct s' as [|o'|o'|o'|t' o'|c' o'|vs' o'|es' o'];
    try discriminate Ht; simpl in Ho; try subst o'.
  - simpl in H. inversion H. auto.
  - cbn [display] in H. rewrite !wrap_opt_app in H. apply app_inv_head in H. apply app_inv_head in H.
    apply cont_inj in H. auto.
  - cbn [display] in H. rewrite !wrap_opt_app in H. apply app_inv_head in H. apply app_inv_head in H.
    apply cont_inj in H. auto.
  - cbn [display] in H. rewrite !wrap_opt_app in H. apply app_inv_head in H. apply app_inv_head in H.
    apply cont_inj in H. auto.
  - (* Array *)
    cbn [display] in H. rewrite !wrap_opt_app in H. apply app_inv_head in H.
    rewrite <- !app_assoc in H. apply app_inv_head in H.
    simpl in Hk, Hk'. destruct (IH t' _ _ Hk Hk' H) as [-> H2].
    apply app_inv_head in H2. apply cont_inj in H2. subst. auto.
  - (* Object *)
    rewrite !display_object in H. rewrite !wrap_opt_app in H. apply app_inv_head in H.
    rewrite <- !app_assoc in H. apply app_inv_head in H.
    rewrite (join_seq _ member_text (bytes ", ")) in H. rewrite (join_seq _ member_text (bytes ", ") c') in H.
    apply ident_keys_object in Hk. apply ident_keys_object in Hk'.
    change (bytes "}" ++ cont o r) with (125 :: cont o r) in H.
    change (bytes "}" ++ cont o r') with (125 :: cont o r') in H.
    assert (Hstart : forall kv, member_ok kv -> exists ch t, member_text kv = ch :: t /\ ch <> 125 /\ ch <> 44).
    { intros [k v] [H1 [H2 H3]]. simpl in *. unfold member_text. simpl. rewrite H1.
      destruct k as [|b k]; [contradiction|]. simpl in H1. apply andb_true_iff in H1. destruct H1 as [Hb _].
      exists b. eexists. split; [reflexivity|]. destruct (ident_byte_not_delim b Hb) as [A1 [A2 _]]. auto. }
    assert (Hpf : Forall (fun kv => member_ok kv /\ pf _ member_text member_ok kv) c).
    { rewrite Forall_forall in *. intros [k v] Hin. split; [apply Hk; exact Hin|].
      intros [k2 v2] x x' [H1' [H2' H3']] Hx. destruct (Hk _ Hin) as [H1 [H2 H3]]. simpl in *.
      unfold member_text in Hx. simpl in Hx. rewrite H1, H1' in Hx.
      rewrite <- !app_assoc in Hx.
      change (bytes ": " ++ display v ++ x) with (58 :: 32 :: display v ++ x) in Hx.
      change (bytes ": " ++ display v2 ++ x') with (58 :: 32 :: display v2 ++ x') in Hx.
      destruct (key_split k H1 k2 _ _ H1' Hx) as [-> Hy]. inversion Hy as [Hz].
      destruct (IH (k2, v) Hin v2 _ _ H3 H3' Hz) as [Ev Ex]. simpl in Ev. subst. auto. }
    destruct (seq_text_inj _ member_text member_ok (bytes ", ") 125 44 [32] eq_refl ltac:(discriminate) Hstart
                c Hpf c' _ _ Hk' H) as [-> H2].
    apply cont_inj in H2. subst. auto.
  - (* OneOf *)
    cbn [display] in H. rewrite !wrap_opt_app in H. apply app_inv_head in H.
    rewrite <- !app_assoc in H. apply app_inv_head in H.
    rewrite (join_seq _ display (bytes " | ")) in H. rewrite (join_seq _ display (bytes " | ") vs') in H.
    change (bytes "]" ++ cont o r) with (93 :: cont o r) in H.
    change (bytes "]" ++ cont o r') with (93 :: cont o r') in H.
    simpl in Hk, Hk'. rewrite forallb_forall in Hk, Hk'.
    assert (Hstart : forall v, ident_keys v = true -> exists ch t, display v = ch :: t /\ ch <> 93 /\ ch <> 32).
    { intros v _. destruct (display_first v) as [ch [t [E1 E2]]]. exists ch, t. split; [exact E1|].
      destruct (letter_not_delim ch E2) as [_ [_ [_ [A4 A5]]]]. auto. }
    assert (Hpf : Forall (fun v => ident_keys v = true /\ pf _ display (fun v => ident_keys v = true) v) vs).
    { rewrite Forall_forall in *. intros v Hin. split; [apply Hk; exact Hin|].
      intros v2 x x' Hv2 Hx. apply (IH v Hin v2 x x' (Hk v Hin) Hv2 Hx). }
    assert (Hok' : Forall (fun v => ident_keys v = true) vs') by (apply Forall_forall; exact Hk').
    destruct (seq_text_inj _ display (fun v => ident_keys v = true) (bytes " | ") 93 32 [124; 32] eq_refl
                ltac:(discriminate) Hstart vs Hpf vs' _ _ Hok' H) as [-> H2].
    apply cont_inj in H2. subst. auto.
  - (* Tuple *)
    cbn [display] in H. rewrite !wrap_opt_app in H. apply app_inv_head in H.
    rewrite <- !app_assoc in H. apply app_inv_head in H.
    rewrite (join_seq _ display (bytes ", ")) in H. rewrite (join_seq _ display (bytes ", ") es') in H.
    change (bytes ")" ++ cont o r) with (41 :: cont o r) in H.
    change (bytes ")" ++ cont o r') with (41 :: cont o r') in H.
    simpl in Hk, Hk'. rewrite forallb_forall in Hk, Hk'.
    assert (Hstart : forall v, ident_keys v = true -> exists ch t, display v = ch :: t /\ ch <> 41 /\ ch <> 44).
    { intros v _. destruct (display_first v) as [ch [t [E1 E2]]]. exists ch, t. split; [exact E1|].
      destruct (letter_not_delim ch E2) as [_ [A2 [A3 _]]]. auto. }
    assert (Hpf : Forall (fun v => ident_keys v = true /\ pf _ display (fun v => ident_keys v = true) v) es).
    { rewrite Forall_forall in *. intros v Hin. split; [apply Hk; exact Hin|].
      intros v2 x x' Hv2 Hx. apply (IH v Hin v2 x x' (Hk v Hin) Hv2 Hx). }
    assert (Hok' : Forall (fun v => ident_keys v = true) es') by (apply Forall_forall; exact Hk').
    destruct (seq_text_inj _ display (fun v => ident_keys v = true) (bytes ", ") 41 44 [32] eq_refl
                ltac:(discriminate) Hstart es Hpf es' _ _ Hok' H) as [-> H2].
    apply cont_inj in H2. subst. auto.
Qed.

Theorem display_injective s s' : ident_keys s = true -> ident_keys s' = true ->
  display s = display s' -> s = s'.
Proof.
  intros Hk Hk' H. apply (display_prefix_free s s' [] [] Hk Hk'). rewrite !app_nil_r. exact H.
Qed.
