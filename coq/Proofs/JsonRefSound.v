(* JsonRefSound.v — the executable reference recogniser [ref_json] (the C04 oracle) is sound
   for the inductive RFC 8259 grammar of Model/JsonRef.v: whatever it accepts is a
   JSON-text, and the tree it returns is the tree the grammar assigns. *)
From Coq Require Import List Bool NArith Lia.
Import ListNotations.
From JS Require Import Model.Base Model.Shape Model.Sem Model.Lexer Model.JsonRef.
Local Open Scope N_scope.

Lemma ws_app a b : ws a -> ws b -> ws (a ++ b).
Proof. induction 1; intros Hb; [exact Hb|]. cbn [app]. constructor; auto. Qed.

Lemma skip_ws_split cs : exists w, cs = w ++ skip_ws cs /\ ws w.
Proof.
  induction cs as [|c r [w [E Hw]]]; [exists []; split; [reflexivity|constructor]|].
  cbn [skip_ws]. destruct (is_ws_char c) eqn:Ec.
  - exists (c :: w). split; [cbn [app]; f_equal; exact E|constructor; assumption].
  - exists []. split; [reflexivity|constructor].
Qed.

Lemma take_digits_split : forall cs d r, take_digits cs = (d, r) -> cs = d ++ r /\ Forall (fun c => rdigit c = true) d.
Proof.
  induction cs as [|c cs IH]; intros d r H; cbn [take_digits] in H.
  - inversion H. split; [reflexivity|constructor].
  - destruct (rdigit c) eqn:Ec.
    + destruct (take_digits cs) as [d' r'] eqn:E. inversion H; subst. destruct (IH _ _ eq_refl) as [-> Hf].
      split; [reflexivity|constructor; assumption].
    + inversion H. split; [reflexivity|constructor].
Qed.

Lemma digits1_of_forall d : d <> [] -> Forall (fun c => rdigit c = true) d -> digits1 d.
Proof.
  induction d as [|c d IH]; intros Hne Hf; [contradiction|]. inversion Hf; subst.
  destruct d as [|c' d']; [constructor; assumption|]. apply digits1_cons; [assumption|]. apply IH; [discriminate|assumption].
Qed.

Lemma ref_number_sound cs r : ref_number cs = Some r -> exists w, cs = w ++ r /\ number_lit w.
Proof.
  unfold ref_number.
  assert (Core : forall cs1, match cs1 with
            | [] => None
            | c :: r0 =>
                if rdigit c then
                  let after_int := if c =? 48 then r0 else snd (take_digits r0) in
                  let after_frac := match after_int with
                                    | p :: r1 => if p =? 46 then match take_digits r1 with ([], _) => None | (_, r2) => Some r2 end
                                                 else Some after_int
                                    | [] => Some after_int end in
                  match after_frac with
                  | None => None
                  | Some af => match af with
                               | e :: r1 => if (e =? 101) || (e =? 69) then
                                              let r2 := match r1 with s :: r3 => if (s =? 43) || (s =? 45) then r3 else r1 | [] => r1 end in
                                              match take_digits r2 with ([], _) => None | (_, r4) => Some r4 end
                                            else Some af
                               | [] => Some af end
                  end
                else None
            end = Some r -> exists i f e, cs1 = i ++ f ++ e ++ r /\ int_lit i /\ frac_lit f /\ exp_lit e).
  { intros [|c r0]; [discriminate|]. destruct (rdigit c) eqn:Ed; [|discriminate]. cbn zeta.
    (* integer part *)
    assert (Hint : exists i ai, c :: r0 = i ++ ai /\ int_lit i /\ (if c =? 48 then r0 else snd (take_digits r0)) = ai).
    { destruct (c =? 48) eqn:E0.
      - apply N.eqb_eq in E0. subst c. exists [48], r0. repeat split. constructor.
      - apply N.eqb_neq in E0. destruct (take_digits r0) as [d r'] eqn:Et. destruct (take_digits_split _ _ _ Et) as [-> Hf].
        exists (c :: d), r'. cbn [snd]. repeat split.
        destruct d as [|c' d']; [apply int_one; assumption|apply int_more; [assumption|assumption|]].
        apply digits1_of_forall; [discriminate|exact Hf]. }
    destruct Hint as [i [ai [Ei [Hi ->]]]].
    (* fraction *)
    assert (Hfrac : forall af, match ai with
                               | p :: r1 => if p =? 46 then match take_digits r1 with ([], _) => None | (_, r2) => Some r2 end else Some ai
                               | [] => Some ai end = Some af -> exists f, ai = f ++ af /\ frac_lit f).
    { intros af. destruct ai as [|p r1]; [intros H; inversion H; exists []; split; [reflexivity|constructor]|].
      destruct (p =? 46) eqn:Ep; [|intros H; inversion H; exists []; split; [reflexivity|constructor]].
      apply N.eqb_eq in Ep. subst p. destruct (take_digits r1) as [d r2] eqn:Et. destruct (take_digits_split _ _ _ Et) as [-> Hf].
      destruct d as [|c' d']; [discriminate|]. intros H; inversion H; subst. exists (46 :: c' :: d'). split; [reflexivity|].
      constructor. apply digits1_of_forall; [discriminate|exact Hf]. }
    destruct (match ai with | [] => Some ai | p :: r1 => _ end) as [af|] eqn:Eaf; [|discriminate].
    destruct (Hfrac af eq_refl) as [f [-> Hf]].
    (* exponent *)
    intros H. assert (Hexp : exists e, af = e ++ r /\ exp_lit e).
    { destruct af as [|e r1]; [inversion H; exists []; split; [reflexivity|constructor]|].
      destruct ((e =? 101) || (e =? 69)) eqn:Ee; [|inversion H; exists []; split; [reflexivity|constructor]].
      assert (He : e = 101 \/ e = 69) by (apply orb_true_iff in Ee; destruct Ee as [Ee|Ee]; apply N.eqb_eq in Ee; auto).
      destruct r1 as [|s r3].
      - cbn in H. discriminate.
      - destruct ((s =? 43) || (s =? 45)) eqn:Es.
        + assert (Hs : s = 43 \/ s = 45) by (apply orb_true_iff in Es; destruct Es as [Es|Es]; apply N.eqb_eq in Es; auto).
          destruct (take_digits r3) as [d r4] eqn:Et. destruct (take_digits_split _ _ _ Et) as [-> Hd].
          destruct d as [|c' d']; [discriminate|]. inversion H; subst. exists (e :: s :: c' :: d'). split; [reflexivity|].
          apply exp_signed; [assumption|assumption|]. apply digits1_of_forall; [discriminate|exact Hd].
        + destruct (take_digits (s :: r3)) as [d r4] eqn:Et. destruct (take_digits_split _ _ _ Et) as [Ed' Hd].
          destruct d as [|c' d']; [discriminate|]. inversion H; subst. exists (e :: c' :: d'). split; [cbn [app]; f_equal; exact Ed'|].
          apply exp_plain; [assumption|]. apply digits1_of_forall; [discriminate|exact Hd]. }
    destruct Hexp as [e [-> He]]. exists i, f, e. split; [try rewrite Ei; reflexivity|]. repeat split; assumption. }
  destruct cs as [|c r0]; [intros H; destruct (Core [] H) as [i [f [e [E _]]]]; destruct i; discriminate|].
  destruct (c =? 45) eqn:Em.
  - apply N.eqb_eq in Em. subst c. intros H. destruct (Core r0 H) as [i [f [e [-> [Hi [Hf He]]]]]].
    exists (45 :: i ++ f ++ e). split; [cbn [app]; rewrite <- !app_assoc; reflexivity|]. apply number_neg; assumption.
  - intros H. destruct (Core (c :: r0) H) as [i [f [e [E [Hi [Hf He]]]]]].
    exists (i ++ f ++ e). split; [try rewrite E; rewrite <- !app_assoc; reflexivity|]. apply number_pos; assumption.
Qed.

Lemma ref_string_sound : forall n cs b x, (length cs <= n)%nat -> ref_string cs = Some (b, x) ->
  cs = b ++ 34 :: x /\ str_chars b.
Proof.
  induction n as [|n IH]; intros cs b x Hl H; [destruct cs; [discriminate|cbn in Hl; lia]|].
  destruct cs as [|c r]; [discriminate|]. cbn [ref_string] in H. cbn [length] in Hl.
  destruct (c =? 34) eqn:Eq.
  { apply N.eqb_eq in Eq. subst. inversion H; subst. split; [reflexivity|constructor]. }
  destruct (c =? 92) eqn:Eb.
  - apply N.eqb_eq in Eb. subst c. destruct r as [|e r1]; [discriminate|]. cbn [length] in Hl.
    destruct (escape_letter e) eqn:Ee.
    + destruct (ref_string r1) as [[b0 x0]|] eqn:E; [|discriminate]. inversion H; subst.
      destruct (IH r1 b0 x) as [-> Hs]; [lia|exact E|]. split; [reflexivity|]. apply sc_escape; assumption.
    + destruct (e =? 117) eqn:Eu; [|discriminate]. apply N.eqb_eq in Eu. subst e.
      destruct r1 as [|h1 [|h2 [|h3 [|h4 r2]]]]; try discriminate.
      destruct (rhex h1 && rhex h2 && rhex h3 && rhex h4) eqn:Eh; [|discriminate].
      apply andb_true_iff in Eh. destruct Eh as [Eh E4]. apply andb_true_iff in Eh. destruct Eh as [Eh E3].
      apply andb_true_iff in Eh. destruct Eh as [E1 E2].
      destruct (ref_string r2) as [[b0 x0]|] eqn:E; [|discriminate]. inversion H; subst.
      destruct (IH r2 b0 x) as [-> Hs]; [cbn [length] in Hl; lia|exact E|]. split; [reflexivity|]. apply sc_unicode; assumption.
  - destruct (unescaped c) eqn:Eu; [|discriminate].
    destruct (ref_string r) as [[b0 x0]|] eqn:E; [|discriminate]. inversion H; subst.
    destruct (IH r b0 x) as [-> Hs]; [lia|exact E|]. split; [reflexivity|]. apply sc_plain; assumption.
Qed.

Lemma strip_prefix_split : forall p cs r, strip_prefix p cs = Some r -> cs = p ++ r.
Proof.
  induction p as [|x p IH]; intros cs r H; cbn [strip_prefix] in H; [inversion H; reflexivity|].
  destruct cs as [|c cs]; [discriminate|]. destruct (c =? x) eqn:E; [|discriminate]. apply N.eqb_eq in E. subst.
  cbn [app]. f_equal. apply IH. exact H.
Qed.

Lemma elements_ws w s l : ws w -> elements s l -> elements (w ++ s) l.
Proof.
  intros Hw He. inversion He; subst.
  - rewrite app_assoc. apply el_one; [apply ws_app; assumption|assumption|assumption].
  - rewrite app_assoc. apply el_cons; [apply ws_app; assumption|assumption|assumption|assumption].
Qed.

Lemma members_ws w s m : ws w -> members s m -> members (w ++ s) m.
Proof.
  intros Hw Hm. inversion Hm; subst.
  - rewrite app_assoc. apply mb_one; try assumption. apply ws_app; assumption.
  - rewrite app_assoc. apply mb_cons; try assumption. apply ws_app; assumption.
Qed.

Definition value_spec (cs : list char) (res : option (json * list char)) : Prop :=
  forall t r, res = Some (t, r) -> exists v, cs = v ++ r /\ value v t.
Definition elements_spec (cs : list char) (res : option (list json * list char)) : Prop :=
  forall l r, res = Some (l, r) -> exists s, cs = s ++ 93 :: r /\ elements s l.
Definition members_spec (cs : list char) (res : option (list (key * json) * list char)) : Prop :=
  forall m r, res = Some (m, r) -> exists s, cs = s ++ 125 :: r /\ members s m.

Lemma ref_sound : forall fuel,
  (forall cs, value_spec cs (ref_value fuel cs)) /\
  (forall cs, elements_spec cs (ref_elements fuel cs)) /\
  (forall cs, members_spec cs (ref_members fuel cs)).
Proof.
  induction fuel as [|f [IHv [IHe IHm]]]; [repeat split; intros cs ? ? H; discriminate H|].
  repeat split.
  - (* value *)
    intros cs t r H. cbn [ref_value] in H. destruct cs as [|c r0]; [discriminate|].
    destruct (c =? 110) eqn:En.
    { apply N.eqb_eq in En. subst c. destruct (strip_prefix [117; 108; 108] r0) as [x|] eqn:E; [|discriminate].
      cbn in H. inversion H; subst. apply strip_prefix_split in E. subst r0. exists [110; 117; 108; 108]. split; [reflexivity|constructor]. }
    destruct (c =? 116) eqn:Et.
    { apply N.eqb_eq in Et. subst c. destruct (strip_prefix [114; 117; 101] r0) as [x|] eqn:E; [|discriminate].
      cbn in H. inversion H; subst. apply strip_prefix_split in E. subst r0. exists [116; 114; 117; 101]. split; [reflexivity|constructor]. }
    destruct (c =? 102) eqn:Ef.
    { apply N.eqb_eq in Ef. subst c. destruct (strip_prefix [97; 108; 115; 101] r0) as [x|] eqn:E; [|discriminate].
      cbn in H. inversion H; subst. apply strip_prefix_split in E. subst r0. exists [102; 97; 108; 115; 101]. split; [reflexivity|constructor]. }
    destruct (c =? 34) eqn:Eq.
    { apply N.eqb_eq in Eq. subst c. destruct (ref_string r0) as [[b x]|] eqn:E; [|discriminate]. inversion H; subst.
      destruct (ref_string_sound (length r0) r0 b r (le_n _) E) as [-> Hs].
      exists (34 :: b ++ [34]). split; [cbn [app]; rewrite <- app_assoc; reflexivity|]. eapply v_string. constructor. exact Hs. }
    destruct (c =? 91) eqn:Ea.
    { apply N.eqb_eq in Ea. subst c. destruct (skip_ws_split r0) as [w [Ew Hw]].
      destruct (skip_ws r0) as [|c1 r1] eqn:Es; [discriminate|].
      destruct (c1 =? 93) eqn:Ec.
      - apply N.eqb_eq in Ec. subst c1. inversion H; subst. exists (91 :: w ++ [93]).
        split; [try rewrite Ew; cbn [app]; rewrite <- app_assoc; reflexivity|apply v_array_empty; exact Hw].
      - destruct (ref_elements f (c1 :: r1)) as [[l x]|] eqn:E; [|discriminate]. cbn in H. inversion H; subst.
        destruct (IHe _ _ _ E) as [s [E2 He]]. exists (91 :: (w ++ s) ++ [93]).
        split; [try rewrite Ew; try rewrite E2; cbn [app]; rewrite <- !app_assoc; reflexivity|apply v_array; apply elements_ws; assumption]. }
    destruct (c =? 123) eqn:Eo.
    { apply N.eqb_eq in Eo. subst c. destruct (skip_ws_split r0) as [w [Ew Hw]].
      destruct (skip_ws r0) as [|c1 r1] eqn:Es; [discriminate|].
      destruct (c1 =? 125) eqn:Ec.
      - apply N.eqb_eq in Ec. subst c1. inversion H; subst. exists (123 :: w ++ [125]).
        split; [try rewrite Ew; cbn [app]; rewrite <- app_assoc; reflexivity|apply v_object_empty; exact Hw].
      - destruct (ref_members f (c1 :: r1)) as [[m x]|] eqn:E; [|discriminate]. cbn in H. inversion H; subst.
        destruct (IHm _ _ _ E) as [s [E2 He]]. exists (123 :: (w ++ s) ++ [125]).
        split; [try rewrite Ew; try rewrite E2; cbn [app]; rewrite <- !app_assoc; reflexivity|apply v_object; apply members_ws; assumption]. }
    destruct (ref_number (c :: r0)) as [x|] eqn:E; [|discriminate]. cbn in H. inversion H; subst.
    destruct (ref_number_sound _ _ E) as [w [E2 Hn]]. exists w. split; [exact E2|apply v_number; exact Hn].
  - (* elements *)
    intros cs l r H. cbn [ref_elements] in H.
    destruct (ref_value f cs) as [[d r1]|] eqn:Ev; [|discriminate].
    destruct (IHv _ _ _ Ev) as [v [-> Hv]]. destruct (skip_ws_split r1) as [w2 [Ew Hw]].
    destruct (skip_ws r1) as [|c r2] eqn:Es; [discriminate|].
    destruct (c =? 93) eqn:Ec.
    + apply N.eqb_eq in Ec. subst c. inversion H; subst. exists (v ++ w2).
      split; [try rewrite Ew; rewrite <- app_assoc; reflexivity|]. apply (el_one [] v d w2); [constructor|assumption|assumption].
    + destruct (c =? 44) eqn:Ek; [|discriminate]. apply N.eqb_eq in Ek. subst c.
      destruct (skip_ws_split r2) as [w3 [Ew3 Hw3]].
      destruct (ref_elements f (skip_ws r2)) as [[l0 x]|] eqn:E; [|discriminate]. inversion H; subst.
      destruct (IHe _ _ _ E) as [s [E2 He]]. exists (v ++ w2 ++ 44 :: w3 ++ s).
      split; [try rewrite Ew; try rewrite Ew3; try rewrite E2; rewrite <- !app_assoc; cbn [app]; rewrite <- !app_assoc; reflexivity|].
      apply (el_cons [] v d w2 (w3 ++ s) l0); [constructor|assumption|assumption|apply elements_ws; assumption].
  - (* members *)
    intros cs m r H. cbn [ref_members] in H. destruct cs as [|q r0]; [discriminate|].
    destruct (q =? 34) eqn:Eq; [|discriminate]. apply N.eqb_eq in Eq. subst q.
    destruct (ref_string r0) as [[body r1]|] eqn:Es; [|discriminate].
    destruct (ref_string_sound (length r0) r0 body r1 (le_n _) Es) as [-> Hs].
    destruct (skip_ws_split r1) as [w2 [Ew2 Hw2]]. destruct (skip_ws r1) as [|c r2] eqn:Es1; [discriminate|].
    destruct (c =? 58) eqn:Ec; [|discriminate]. apply N.eqb_eq in Ec. subst c.
    destruct (skip_ws_split r2) as [w3 [Ew3 Hw3]].
    destruct (ref_value f (skip_ws r2)) as [[d r3]|] eqn:Ev; [|discriminate].
    destruct (IHv _ _ _ Ev) as [v [Ev2 Hv]].
    destruct (skip_ws_split r3) as [w4 [Ew4 Hw4]]. destruct (skip_ws r3) as [|c2 r4] eqn:Es3; [discriminate|].
    assert (Hk : string_lit (34 :: body ++ [34]) body) by (constructor; exact Hs).
    destruct (c2 =? 125) eqn:Ec2.
    + apply N.eqb_eq in Ec2. subst c2. inversion H; subst.
      exists ((34 :: body ++ [34]) ++ w2 ++ 58 :: w3 ++ v ++ w4).
      split; [try rewrite Ew2; try rewrite Ew3; try rewrite Ev2; try rewrite Ew4; cbn [app]; rewrite <- !app_assoc; cbn [app]; rewrite <- !app_assoc; reflexivity|].
      apply (mb_one [] (34 :: body ++ [34]) body w2 w3 v d w4); try assumption. constructor.
    + destruct (c2 =? 44) eqn:Ek; [|discriminate]. apply N.eqb_eq in Ek. subst c2.
      destruct (skip_ws_split r4) as [w5 [Ew5 Hw5]].
      destruct (ref_members f (skip_ws r4)) as [[m0 x]|] eqn:E; [|discriminate]. inversion H; subst.
      destruct (IHm _ _ _ E) as [s [E2 Hm]].
      exists ((34 :: body ++ [34]) ++ w2 ++ 58 :: w3 ++ v ++ w4 ++ 44 :: w5 ++ s).
      split; [try rewrite Ew2; try rewrite Ew3; try rewrite Ev2; try rewrite Ew4; try rewrite Ew5; try rewrite E2; cbn [app]; rewrite <- !app_assoc; cbn [app]; rewrite <- !app_assoc; cbn [app]; rewrite <- !app_assoc; reflexivity|].
      apply (mb_cons [] (34 :: body ++ [34]) body w2 w3 v d w4 (w5 ++ s) m0); try assumption; [constructor|apply members_ws; assumption].
Qed.

Theorem ref_json_sound : forall cs t, ref_json cs = Some t -> json_text cs t.
Proof.
  intros cs t H. unfold ref_json in H. destruct (skip_ws_split cs) as [w1 [E1 H1]].
  destruct (ref_value (S (2 * length cs)) (skip_ws cs)) as [[d r]|] eqn:Ev; [|discriminate].
  destruct (ref_sound (S (2 * length cs))) as [Hv _]. destruct (Hv _ _ _ Ev) as [v [E2 Hval]].
  destruct (skip_ws_split r) as [w2 [E3 H2]]. destruct (skip_ws r) eqn:Es; [|discriminate].
  injection H as <-. rewrite app_nil_r in E3. rewrite E1, E2. rewrite E3 at 1. apply jt_intro; assumption.
Qed.
