(* CostFacts.v — C12: the call counts of the instrumented twins are polynomial in the sizes. *)
From Coq Require Import List Bool NArith Arith Lia.
Import ListNotations.
From JS Require Import Model.Base Model.Shape Model.Sem Model.Subset Model.Merger Model.Infer Model.Cost
  Proofs.BaseFacts Proofs.ShapeFacts Proofs.SemFacts Proofs.SubsetFacts Proofs.MergerFacts.

Definition sumsz (l : list shape) : nat := fold_right (fun v n => size v + n) 0 l.
Definition sumszo (c : list (key * shape)) : nat := fold_right (fun p n => size (snd p) + n) 0 c.

Lemma size_pos s : 1 <= size s.
Proof. destruct s; simpl; lia. Qed.

Lemma size_oneof vs o : size (SOneOf vs o) = S (sumsz vs).
Proof. reflexivity. Qed.
Lemma size_tuple es o : size (STuple es o) = S (sumsz es).
Proof. reflexivity. Qed.
Lemma size_object c o : size (SObject c o) = S (sumszo c).
Proof. reflexivity. Qed.
Lemma size_array t o : size (SArray t o) = S (size t).
Proof. reflexivity. Qed.

Lemma map_get_size k c ov : map_get k c = Some ov -> size ov <= sumszo c.
Proof.
  induction c as [|[k1 v1] r IH]; simpl; [discriminate|].
  destruct (key_eqb k k1); intro H; [inversion H; subst; lia|]. specialize (IH H). lia.
Qed.

Lemma In_size v vs : In v vs -> size v <= sumsz vs.
Proof. induction vs as [|x r IH]; simpl; [contradiction|]. intros [->|H]; [lia|specialize (IH H); lia]. Qed.

(* ---------- counting combinators ---------- *)
Lemma all_c_spec {A} (f : A -> bool * nat) (g : A -> bool) (w : A -> nat) l :
  (forall x, In x l -> fst (f x) = g x /\ snd (f x) <= w x) ->
  fst (all_c f l) = forallb g l /\ snd (all_c f l) <= fold_right (fun x n => w x + n) 0 l.
Proof.
  induction l as [|x r IH]; intro H; simpl; [split; [reflexivity|lia]|].
  destruct (H x (or_introl eq_refl)) as [H1 H2]. destruct (f x) as [b n] eqn:E. simpl in H1, H2. subst b.
  destruct IH as [I1 I2]; [intros y Hy; apply H; right; exact Hy|].
  destruct (g x); simpl.
  - destruct (all_c f r) as [b' n']. simpl in *. split; [exact I1|lia].
  - split; [reflexivity|lia].
Qed.

Lemma any_c_spec {A} (f : A -> bool * nat) (g : A -> bool) (w : A -> nat) l :
  (forall x, In x l -> fst (f x) = g x /\ snd (f x) <= w x) ->
  fst (any_c f l) = existsb g l /\ snd (any_c f l) <= fold_right (fun x n => w x + n) 0 l.
Proof.
  induction l as [|x r IH]; intro H; simpl; [split; [reflexivity|lia]|].
  destruct (H x (or_introl eq_refl)) as [H1 H2]. destruct (f x) as [b n] eqn:E. simpl in H1, H2. subst b.
  destruct IH as [I1 I2]; [intros y Hy; apply H; right; exact Hy|].
  destruct (g x); simpl.
  - split; [reflexivity|lia].
  - destruct (any_c f r) as [b' n']. simpl in *. split; [exact I1|lia].
Qed.

Lemma sum_scale (k : nat) (vs : list shape) : fold_right (fun x n => k * size x + n) 0 vs = k * sumsz vs.
Proof. induction vs as [|x r IH]; simpl; [lia|]. rewrite IH. lia. Qed.

Definition good_c (a : shape) : Prop :=
  forall b, fst (subset_c a b) = is_subset a b /\ snd (subset_c a b) <= size a * size b.

(* Tuple/Tuple zip *)
Lemma tuple_go_c es : Forall good_c es -> forall os,
  let r := (fix go (es os : list shape) {struct es} : bool * nat :=
              match es, os with
              | e :: es', x :: os' =>
                  let (b, n) := subset_c e x in
                  if b then let (b', n') := go es' os' in (b', n + n') else (false, n)
              | _, _ => (true, 0)
              end) es os in
  fst r && Nat.eqb (length es) (length os) = forall2b is_subset es os /\ snd r <= sumsz es * sumsz os.
Proof.
  induction 1 as [|e r He Hr IH]; intros [|x os]; simpl; try (split; [reflexivity|lia]).
  destruct (He x) as [H1 H2]. destruct (subset_c e x) as [b n]. simpl in H1, H2. subst b.
  specialize (IH os). simpl in IH. destruct IH as [I1 I2].
  destruct (is_subset e x); simpl.
  - match goal with |- context [let (b', n') := ?X in _] => destruct X as [b' n'] end.
    simpl in *. split; [exact I1|]. nia.
  - split; [reflexivity|]. nia.
Qed.

(* Object/Object member loop *)
Lemma obj_go_c c c' : Forall (fun kv => good_c (snd kv)) c ->
  let r := (fix go (c : list (key * shape)) : bool * nat :=
              match c with
              | [] => (true, 0)
              | (k, v) :: r =>
                  let (b, n) := match map_get k c' with
                                | Some ov => subset_c v ov
                                | None => (false, 0)
                                end in
                  if b then let (b', n') := go r in (b', n + n') else (false, n)
              end) c in
  fst r = obj_members_sub c c' /\ snd r <= sumszo c * sumszo c'.
Proof.
  induction 1 as [|[k v] r Hv Hr IH]; simpl; [split; [reflexivity|lia]|].
  simpl in Hv. destruct IH as [I1 I2].
  destruct (map_get k c') as [ov|] eqn:G.
  - destruct (Hv ov) as [H1 H2]. destruct (subset_c v ov) as [b n]. simpl in H1, H2. subst b.
    pose proof (map_get_size _ _ _ G) as Hsz.
    destruct (is_subset v ov); simpl.
    + match goal with |- context [let (b', n') := ?X in _] => destruct X as [b' n'] end.
      simpl in *. split; [exact I1|]. nia.
    + split; [reflexivity|]. nia.
  - simpl. split; [reflexivity|lia].
Qed.

Lemma oneof_go_c vs ws : Forall good_c vs ->
  let r := (fix go (vs : list shape) : bool * nat :=
              match vs with
              | [] => (true, 0)
              | v :: r =>
                  let (b, n) := any_c (fun w => subset_c v w) ws in
                  if b then let (b', n') := go r in (b', n + n') else (false, n)
              end) vs in
  fst r = forallb (fun v => existsb (fun w => is_subset v w) ws) vs /\ snd r <= sumsz vs * sumsz ws.
Proof.
  induction 1 as [|v r Hv Hr IH]; simpl; [split; [reflexivity|lia]|].
  destruct IH as [I1 I2].
  destruct (any_c_spec (fun w => subset_c v w) (fun w => is_subset v w) (fun w => size v * size w) ws) as [A1 A2].
  { intros w _. apply Hv. }
  rewrite sum_scale in A2.
  destruct (any_c (fun w => subset_c v w) ws) as [b n]. simpl in A1, A2. subst b.
  destruct (existsb (fun w => is_subset v w) ws); simpl.
  - match goal with |- context [let (b', n') := ?X in _] => destruct X as [b' n'] end.
    simpl in *. split; [exact I1|]. nia.
  - split; [reflexivity|]. nia.
Qed.

Ltac triv := simpl; split; [reflexivity|unfold sumszo, sumsz in *; nia].

Theorem subset_c_good : forall a, good_c a.
Proof.
  induction a as [|o|o|o|t o IH|c o IH|vs o IH|es o IH] using shape_ind'; intro b;
    try (pose proof (size_pos b); simpl; split; [reflexivity|lia]).
  - (* Array *)
    destruct b as [|o'|o'|o'|t' o'|c' o'|ws oo|os o']; try triv.
    cbn [subset_c]. destruct (implb o o') eqn:E.
    + destruct (IH t') as [H1 H2]. destruct (subset_c t t') as [r n]. simpl in *. rewrite E. simpl.
      split; [exact H1|]. nia.
    + simpl. rewrite E. simpl. split; [reflexivity|]. nia.
  - (* Object *)
    destruct b as [|o'|o'|o'|t' o'|c' o'|ws oo|os o']; try triv.
    + rewrite is_subset_object_object. cbn [subset_c]. destruct (implb o o') eqn:E; [|triv].
      unfold obj_check. destruct (forallb (fun kv => map_has (fst kv) c || is_optional (snd kv)) c') eqn:F.
      * destruct (obj_go_c c c' IH) as [H1 H2].
        match goal with |- context [let (r, n) := ?X in _] => destruct X as [r n] end.
        simpl in *. split; [exact H1|]. unfold sumszo, sumsz in *. nia.
      * triv.
    + rewrite is_subset_object_oneof. cbn [subset_c].
      match goal with |- context [any_c ?F ws] =>
        destruct (any_c_spec F (obj_variant c o) (fun w => size (SObject c o) * size w) ws) as [A1 A2] end.
      { intros var _. destruct var as [|o'|o'|o'|t' o'|c' o'|ws' o'|os o']; try triv.
        unfold obj_variant. destruct (implb o o') eqn:E; [|triv].
        unfold obj_check. destruct (forallb (fun kv => map_has (fst kv) c || is_optional (snd kv)) c') eqn:F.
        - destruct (obj_go_c c c' IH) as [H1 H2].
          match goal with |- context [let (r, n) := ?X in _] => destruct X as [r n] end.
          simpl in *. split; [exact H1|]. unfold sumszo, sumsz in *. nia.
        - triv. }
      rewrite sum_scale in A2.
      match goal with |- context [let (r, n) := ?X in _] => destruct X as [r n] end.
      simpl in A1, A2. simpl fst. simpl snd. split; [exact A1|].
      pose proof (size_pos (SObject c o)). unfold sumszo, sumsz in *. simpl in *. nia.
  - (* OneOf *)
    destruct b as [|o'|o'|o'|t' o'|c' o'|ws o'|os o']; try triv.
    rewrite is_subset_oneof_oneof. cbn [subset_c]. destruct (implb o o') eqn:E; [|triv].
    destruct (sset_subset vs ws) eqn:F; [triv|].
    destruct (oneof_go_c vs ws IH) as [H1 H2].
    match goal with |- context [let (r, n) := ?X in _] => destruct X as [r n] end.
    simpl in *. split; [exact H1|]. unfold sumszo, sumsz in *. nia.
  - (* Tuple *)
    destruct b as [|o'|o'|o'|t' o'|c' o'|ws oo|os o']; try triv.
    rewrite is_subset_tuple_tuple. cbn [subset_c]. destruct (implb o o') eqn:E; [|triv].
    destruct (tuple_go_c es IH os) as [H1 H2].
    match goal with |- context [let (r, n) := ?X in _] => destruct X as [r n] end.
    simpl in *. split; [exact H1|]. unfold sumszo, sumsz in *. nia.
Qed.

Theorem subset_c_result a b : fst (subset_c a b) = is_subset a b.
Proof. apply subset_c_good. Qed.

Theorem subset_c_bound a b : snd (subset_c a b) <= size a * size b.
Proof. apply subset_c_good. Qed.

(* ---------- merger ---------- *)
Lemma fold_pair_c_bound a b : snd (fold_pair_c a b) <= 2 * (size a * size b).
Proof.
  unfold fold_pair_c. pose proof (subset_c_bound a b). pose proof (subset_c_bound b a).
  destruct (subset_c a b) as [r1 n1]. destruct (subset_c b a) as [r2 n2]. simpl in *.
  destruct r1; simpl; [lia|]. destruct r2; simpl; [nia|].
  destruct (is_null b); simpl; [nia|]. destruct (is_null a); simpl; nia.
Qed.

Lemma fold_tuple_c_bound es : forall os, fold_tuple_c es os <= 2 * (sumsz es * sumsz os).
Proof.
  induction es as [|e r IH]; intros [|x os]; simpl; try lia.
  pose proof (fold_pair_c_bound e x). destruct (fold_pair_c e x) as [v n]. simpl in *.
  specialize (IH os). destruct v; nia.
Qed.

(* the object/object loop of merger_c as a named function *)
Fixpoint mobj_go (c c' : list (key * shape)) : nat * nat :=
  match c with
  | [] => (0, 0)
  | (k, v) :: r =>
      let (m1, s1) := match map_get k c' with
                      | Some ov => merger_c v ov
                      | None => (0, 0)
                      end in
      let (m2, s2) := mobj_go r c' in (m1 + m2, s1 + s2)
  end.

Lemma merger_c_object c o c' o' :
  merger_c (SObject c o) (SObject c' o') = let (m, s) := mobj_go c c' in (S m, s).
Proof.
  cbn [merger_c]. assert (E : forall c0, (fix go (c : list (key * shape)) : nat * nat :=
           match c with
           | [] => (0, 0)
           | (k, v) :: r =>
               let (m1, s1) := match map_get k c' with
                               | Some ov => merger_c v ov
                               | None => (0, 0)
                               end in
               let (m2, s2) := go r in (m1 + m2, s1 + s2)
           end) c0 = mobj_go c0 c').
  { induction c0 as [|[k v] r IH]; simpl; [reflexivity|]. rewrite IH. reflexivity. }
  rewrite E. reflexivity.
Qed.

Definition mgood (a : shape) : Prop :=
  forall b, fst (merger_c a b) <= size a /\ snd (merger_c a b) <= 2 * (size a * size b).

Lemma mobj_go_left c c' : Forall (fun kv => mgood (snd kv)) c ->
  fst (mobj_go c c') <= sumszo c /\ snd (mobj_go c c') <= 2 * (sumszo c * sumszo c').
Proof.
  induction 1 as [|[k v] r Hv Hr IH]; simpl; [split; lia|]. simpl in Hv. destruct IH as [I1 I2].
  destruct (map_get k c') as [ov|] eqn:G.
  - destruct (Hv ov) as [H1 H2]. pose proof (map_get_size _ _ _ G).
    destruct (merger_c v ov) as [m1 s1]. destruct (mobj_go r c') as [m2 s2]. simpl in *. split; nia.
  - destruct (mobj_go r c') as [m2 s2]. simpl in *. split; nia.
Qed.

Theorem merger_c_left : forall a, mgood a.
Proof.
  induction a as [|o|o|o|t o IH|c o IH|vs o IH|es o IH] using shape_ind'; intro b;
    try (destruct b; simpl; split; lia).
  - destruct b as [| | | |t' o'| | |]; try (simpl; split; lia).
    simpl. destruct (IH t') as [H1 H2]. destruct (merger_c t t') as [m s]. simpl in *. unfold sumszo, sumsz in *. split; nia.
  - destruct b as [| | | | |c' o'| |]; try (simpl; split; lia).
    rewrite merger_c_object. destruct (mobj_go_left c c' IH) as [G1 G2].
    destruct (mobj_go c c') as [m s]. simpl in *. unfold sumszo, sumsz in *. split; nia.
  - destruct b as [| | | | | | |os o']; try (simpl; split; lia).
    cbn [merger_c fst snd]. pose proof (fold_tuple_c_bound es os). unfold sumszo, sumsz in *. simpl. split; nia.
Qed.

(* the number of merger calls is also bounded by the right operand (needs distinct keys,
   i.e. the BTreeMap invariant, to match every right-hand entry at most once) *)
Lemma sumszo_remove k c ov : keys_sorted c = true -> map_get k c = Some ov ->
  sumszo (map_remove k c) + size ov = sumszo c.
Proof.
  induction c as [|[k1 v1] r IH]; intros Hs G; [discriminate|].
  apply keys_sorted_cons in Hs. destruct Hs as [_ Hs]. simpl in G. simpl map_remove.
  destruct (key_eqb k k1).
  - inversion G. subst. unfold sumszo. simpl. lia.
  - specialize (IH Hs G). unfold sumszo in *. simpl. lia.
Qed.

Lemma mobj_go_ext r c1 c2 : (forall kv, In kv r -> map_get (fst kv) c1 = map_get (fst kv) c2) ->
  mobj_go r c1 = mobj_go r c2.
Proof.
  induction r as [|[k v] r IH]; intro H; simpl; [reflexivity|].
  pose proof (H (k, v) (or_introl eq_refl)) as E. simpl in E. rewrite E. rewrite IH; [reflexivity|].
  intros kv Hin. apply H. right. exact Hin.
Qed.

Definition mgood_r (a : shape) : Prop := wf a = true -> forall b, wf b = true -> fst (merger_c a b) <= size b.

Lemma mobj_go_right c : keys_sorted c = true -> Forall (fun kv => wf (snd kv) = true) c ->
  Forall (fun kv => mgood_r (snd kv)) c ->
  forall c', keys_sorted c' = true -> Forall (fun kv => wf (snd kv) = true) c' ->
  fst (mobj_go c c') <= sumszo c'.
Proof.
  induction c as [|[k v] r IH]; intros Hs Hw Hg c' Hs' Hw'; simpl; [lia|].
  apply keys_sorted_cons in Hs. destruct Hs as [Ha Hs].
  inversion Hw as [|? ? Hwv Hwr]; inversion Hg as [|? ? Hgv Hgr]; subst. simpl in Hwv, Hgv.
  destruct (map_get k c') as [ov|] eqn:G.
  - assert (Hov : wf ov = true).
    { rewrite Forall_forall in Hw'. apply (Hw' (k, ov)). apply map_get_In. exact G. }
    pose proof (Hgv Hwv ov Hov) as H1.
    assert (E : mobj_go r c' = mobj_go r (map_remove k c')).
    { apply mobj_go_ext. intros [k2 v2] Hin. simpl. rewrite (map_get_remove _ _ _ Hs').
      destruct (key_eqb k2 k) eqn:Ek; [|reflexivity].
      apply key_eqb_eq in Ek. subst k2. unfold keys_above in Ha. rewrite Forall_forall in Ha.
      specialize (Ha _ Hin). simpl in Ha. rewrite cmp_key_refl in Ha. discriminate. }
    rewrite E.
    assert (Hw'' : Forall (fun kv : key * shape => wf (snd kv) = true) (map_remove k c')).
    { clear -Hw'. induction Hw' as [|[k1 v1] r1 H1 Hr1 IH1]; simpl; [constructor|].
      destruct (key_eqb k k1); [exact Hr1|constructor; assumption]. }
    pose proof (IH Hs Hwr Hgr (map_remove k c') (keys_sorted_remove k c' Hs') Hw'') as H2.
    pose proof (sumszo_remove k c' ov Hs' G) as H3.
    destruct (merger_c v ov) as [m1 s1]. destruct (mobj_go r (map_remove k c')) as [m2 s2]. simpl in *. lia.
  - pose proof (IH Hs Hwr Hgr c' Hs' Hw') as H2.
    destruct (mobj_go r c') as [m2 s2]. simpl in *. lia.
Qed.

Theorem merger_c_right : forall a, mgood_r a.
Proof.
  induction a as [|o|o|o|t o IH|c o IH|vs o IH|es o IH] using shape_ind'; intros Ha b Hb;
    try (destruct b; simpl; lia).
  - destruct b as [| | | |t' o'| | |]; try (simpl; lia).
    simpl in Ha, Hb. simpl. pose proof (IH Ha t' Hb). destruct (merger_c t t') as [m s]. simpl in *. lia.
  - destruct b as [| | | | |c' o'| |]; try (simpl; lia).
    rewrite merger_c_object.
    simpl in Ha, Hb. apply andb_true_iff in Ha. apply andb_true_iff in Hb. destruct Ha as [Hs Hw], Hb as [Hs' Hw'].
    assert (G : fst (mobj_go c c') <= sumszo c').
    { apply mobj_go_right; try assumption; apply Forall_forall; apply forallb_forall; assumption. }
    destruct (mobj_go c c') as [m s]. unfold sumszo, sumsz in *. simpl in *. lia.
Qed.

Theorem merger_c_bound a b : wf a = true -> wf b = true ->
  fst (merger_c a b) <= Nat.min (size a) (size b) /\ snd (merger_c a b) <= 2 * (size a * size b).
Proof.
  intros Ha Hb. destruct (merger_c_left a b) as [H1 H2]. pose proof (merger_c_right a Ha b Hb). split; lia.
Qed.

(* a whole merge of n shapes: the merger calls are bounded by the total size of the inputs *)
Fixpoint fold_calls (acc : shape) (r : list shape) : nat :=
  match r with
  | [] => 0
  | s :: r' => fst (merger_c acc s) + fold_calls (merger acc s) r'
  end.

Theorem merge_calls_linear : forall r acc, wf acc = true -> Forall (fun s => wf s = true) r ->
  fold_calls acc r <= sumsz r.
Proof.
  induction r as [|s r IH]; intros acc Ha Hr; simpl; [lia|].
  inversion Hr; subst. pose proof (merger_c_right acc Ha s H1).
  specialize (IH (merger acc s) (Proofs.MergerFacts.wf_merger acc s Ha H1) H2). lia.
Qed.

(* single-document inference: one call per node *)
Theorem infer_calls_linear d : calls_infer d = jsize d.
Proof. reflexivity. Qed.
