(* RefComplete.v — the naive reference recogniser [ref_json] (Model/JsonRef.v) is COMPLETE for
   the inductive RFC 8259 grammar: json_text s d -> ref_json s = Some d.  With
   Proofs/JsonRefSound.v this makes the executable oracle of C04 exact:
   ref_json s = Some d <-> json_text s d (hence the grammar is unambiguous). *)
From Coq Require Import List Bool Arith NArith Lia.
Import ListNotations.
From JS Require Import Model.Base Model.Shape Model.Sem Model.Lexer Model.JsonRef
  Proofs.TextFacts Proofs.TextLexSpec Proofs.JsonRefSound Proofs.CstTree Proofs.LexComplete.
Local Open Scope N_scope.

Lemma skip_ws_exact : forall w rest, ws w -> hd_in nonws rest -> skip_ws (w ++ rest) = rest.
Proof.
  intros w rest Hw Hr. induction Hw as [|c r Hc _ IH].
  - destruct rest as [|x rest']; [reflexivity|]. cbn in Hr. cbn [app skip_ws]. rewrite Hr. reflexivity.
  - cbn [app skip_ws]. rewrite Hc. exact IH.
Qed.

Lemma take_digits_exact : forall ds x, Forall (fun c => rdigit c = true) ds ->
  hd_in (fun c => rdigit c = false) x -> take_digits (ds ++ x) = (ds, x).
Proof.
  induction ds as [|d ds IH]; intros x Hf Hx.
  - destruct x as [|c r]; [reflexivity|]. cbn in Hx. cbn [app take_digits]. rewrite Hx. reflexivity.
  - inversion Hf; subst. cbn [app take_digits]. rewrite H1, (IH x H2 Hx). reflexivity.
Qed.

Lemma digits1_rdigit r : digits1 r -> Forall (fun c => rdigit c = true) r /\ r <> [].
Proof. exact (digits1_forall r). Qed.

Lemma ref_digits r x : digits1 r -> hd_in (fun c => rdigit c = false) x -> take_digits (r ++ x) = (r, x).
Proof. intros Hr Hx. apply take_digits_exact; [apply (digits1_rdigit r Hr)|exact Hx]. Qed.

(* what follows the integer part *)
Definition after_frac_exp (cs : list char) : option (list char) :=
  let after_frac :=
    match cs with
    | p :: r1 => if p =? 46 then
                   match take_digits r1 with
                   | ([], _) => None
                   | (_, r2) => Some r2
                   end
                 else Some cs
    | [] => Some cs
    end in
  match after_frac with
  | None => None
  | Some af =>
      match af with
      | e :: r1 =>
          if (e =? 101) || (e =? 69) then
            let r2 := match r1 with s :: r3 => if (s =? 43) || (s =? 45) then r3 else r1 | [] => r1 end in
            match take_digits r2 with
            | ([], _) => None
            | (_, r4) => Some r4
            end
          else Some af
      | [] => Some af
      end
  end.

Lemma ref_number_unfold c r : rdigit c = true ->
  ref_number (c :: r) = after_frac_exp (if c =? 48 then r else snd (take_digits r)).
Proof.
  intros Hc. unfold ref_number. rewrite (digit_not_minus c Hc), Hc. reflexivity.
Qed.

Lemma ref_number_unfold_neg c r : rdigit c = true ->
  ref_number (45 :: c :: r) = after_frac_exp (if c =? 48 then r else snd (take_digits r)).
Proof. intros Hc. unfold ref_number. change (45 =? 45) with true. cbv iota. rewrite Hc. reflexivity. Qed.

Lemma after_frac_exp_complete f e rest : frac_lit f -> exp_lit e -> hd_in delim rest ->
  after_frac_exp (f ++ e ++ rest) = Some rest.
Proof.
  intros Hf He Hr.
  assert (R1 : hd_in (fun c => rdigit c = false) rest) by (destruct rest; [exact I|apply delim_nondigit; exact Hr]).
  assert (R2 : hd_in (fun c => (c =? 46) = false) rest) by (destruct rest; [exact I|apply delim_not_dot; exact Hr]).
  assert (R3 : hd_in (fun c => ((c =? 101) || (c =? 69)) = false) rest) by (destruct rest; [exact I|apply delim_not_e; exact Hr]).
  assert (E1 : hd_in (fun c => rdigit c = false) (e ++ rest)).
  { destruct He as [|e0 r He0 _|e0 s r He0 _ _]; [exact R1| |]; destruct He0; subst; reflexivity. }
  assert (E2 : hd_in (fun c => (c =? 46) = false) (e ++ rest)).
  { destruct He as [|e0 r He0 _|e0 s r He0 _ _]; [exact R2| |]; destruct He0; subst; reflexivity. }
  (* the exponent part, once the fraction is consumed *)
  assert (EX : match e ++ rest with
               | e0 :: r1 =>
                   if (e0 =? 101) || (e0 =? 69) then
                     let r2 := match r1 with s :: r3 => if (s =? 43) || (s =? 45) then r3 else r1 | [] => r1 end in
                     match take_digits r2 with ([], _) => None | (_, r4) => Some r4 end
                   else Some (e ++ rest)
               | [] => Some (e ++ rest)
               end = Some rest).
  { destruct He as [|e0 r He0 Hr0|e0 s r He0 Hs Hr0].
    - cbn [app]. destruct rest as [|x rest']; [reflexivity|]. cbn in R3. rewrite R3. reflexivity.
    - assert (Ee : ((e0 =? 101) || (e0 =? 69)) = true) by (destruct He0; subst; reflexivity).
      cbn [app]. rewrite Ee. destruct (digits1_rdigit _ Hr0) as [Hfd Hne].
      destruct r as [|d r']; [contradiction|]. inversion Hfd; subst. cbn [app].
      rewrite (digit_not_sign d H1). cbv zeta. change (d :: r' ++ rest) with ((d :: r') ++ rest).
      rewrite (ref_digits _ rest Hr0 R1). reflexivity.
    - assert (Ee : ((e0 =? 101) || (e0 =? 69)) = true) by (destruct He0; subst; reflexivity).
      assert (Es : ((s =? 43) || (s =? 45)) = true) by (destruct Hs; subst; reflexivity).
      cbn [app]. rewrite Ee, Es. cbv zeta. rewrite (ref_digits _ rest Hr0 R1).
      destruct (digits1_rdigit _ Hr0) as [_ Hne]. destruct r; [contradiction|reflexivity]. }
  unfold after_frac_exp. destruct Hf as [|r Hr0].
  - cbn [app]. destruct (e ++ rest) as [|p x] eqn:Ex; [exact EX|]. cbn in E2. rewrite E2. exact EX.
  - cbn [app]. change (46 =? 46) with true. cbv iota. rewrite (ref_digits r (e ++ rest) Hr0 E1).
    destruct (digits1_rdigit _ Hr0) as [_ Hne]. destruct r as [|d r']; [contradiction|]. exact EX.
Qed.

Lemma int_after i x : int_lit i -> hd_in (fun c => rdigit c = false) x ->
  exists c r, i = c :: r /\ rdigit c = true /\ (if c =? 48 then r ++ x else snd (take_digits (r ++ x))) = x.
Proof.
  intros Hi Hx. destruct Hi as [|c Hc Hn|c r Hc Hn Hr].
  - exists 48, []. repeat split.
  - exists c, []. destruct (rdigit_not48_19 c Hc Hn) as [_ H48]. rewrite H48. repeat split; [exact Hc|].
    cbn [app]. pose proof (take_digits_exact [] x (Forall_nil _) Hx) as T. cbn [app] in T. rewrite T. reflexivity.
  - exists c, r. destruct (rdigit_not48_19 c Hc Hn) as [_ H48]. rewrite H48. repeat split; [exact Hc|].
    rewrite (ref_digits r x Hr Hx). reflexivity.
Qed.

Lemma ref_number_complete n rest : number_lit n -> hd_in delim rest -> ref_number (n ++ rest) = Some rest.
Proof.
  intros Hn Hr.
  assert (F1 : forall f e, frac_lit f -> exp_lit e -> hd_in (fun c => rdigit c = false) (f ++ e ++ rest)).
  { intros f e Hf He. destruct Hf as [|r _]; [|reflexivity].
    destruct He as [|e0 r He0 _|e0 s r He0 _ _]; [|destruct He0; subst; reflexivity|destruct He0; subst; reflexivity].
    cbn [app]. destruct rest; [exact I|apply delim_nondigit; exact Hr]. }
  destruct Hn as [i f e Hi Hf He|i f e Hi Hf He];
    destruct (int_after i (f ++ e ++ rest) Hi (F1 f e Hf He)) as [c [r [-> [Hc Ea]]]].
  - rewrite <- !app_assoc. cbn [app]. rewrite (ref_number_unfold c _ Hc), Ea.
    apply after_frac_exp_complete; assumption.
  - cbn [app]. rewrite <- !app_assoc. cbn [app]. rewrite (ref_number_unfold_neg c _ Hc), Ea.
    apply after_frac_exp_complete; assumption.
Qed.

Lemma ref_string_complete body : str_chars body -> forall rest,
  ref_string (body ++ 34 :: rest) = Some (body, rest).
Proof.
  induction 1 as [|c r Hc _ IH|c r Hc _ IH|a b c d r Ha Hb Hc Hd _ IH]; intros rest.
  - reflexivity.
  - destruct (unescaped_plain c Hc) as [E1 [E2 _]]. cbn [app ref_string]. rewrite E1, E2, Hc, IH. reflexivity.
  - cbn [app ref_string]. change (92 =? 34) with false. change (92 =? 92) with true. cbv iota.
    rewrite Hc, IH. reflexivity.
  - cbn [app ref_string]. change (92 =? 34) with false. change (92 =? 92) with true. cbv iota.
    change (escape_letter 117) with false. change (117 =? 117) with true. cbv iota.
    rewrite Ha, Hb, Hc, Hd, IH. reflexivity.
Qed.

(* ---------- values ---------- *)
Definition PVr (v : list char) (d : json) : Prop :=
  forall rest fuel, hd_in delim rest -> (length v <= fuel)%nat -> ref_value fuel (v ++ rest) = Some (d, rest).
Definition PEr (s : list char) (l : list json) : Prop :=
  forall rest fuel, (length s + 1 <= fuel)%nat ->
    ref_elements fuel (skip_ws (s ++ 93 :: rest)) = Some (l, rest).
Definition PMr (s : list char) (m : list (key * json)) : Prop :=
  forall rest fuel, (length s + 1 <= fuel)%nat ->
    ref_members fuel (skip_ws (s ++ 125 :: rest)) = Some (m, rest).

Lemma value_not_close v d x : value v d -> exists ch r, v ++ x = ch :: r /\ nonws ch /\ (ch =? 93) = false /\ (ch =? 125) = false.
Proof.
  intros H. destruct H as [| | |s Hn|s body Hs|w _|s l _|w _|s m _];
    try (eexists; eexists; split; [reflexivity|repeat split; reflexivity]).
  - destruct (number_head s Hn) as [ch [r [-> Hc]]]. exists ch, (r ++ x). split; [reflexivity|].
    destruct (numhead_tests ch Hc) as [A [B [C [D _]]]]. split.
    + unfold nonws, is_ws_char. unfold is_blank in A. rewrite B, C. apply orb_false_iff in A. destruct A as [-> ->]. reflexivity.
    + unfold punct in D. destruct (ch =? 123); [discriminate|]. destruct (ch =? 125); [discriminate|].
      destruct (ch =? 91); [discriminate|]. destruct (ch =? 93); [discriminate|]. split; reflexivity.
  - destruct Hs. eexists; eexists; split; [reflexivity|repeat split; reflexivity].
Qed.

Lemma length_app_cons {A} (a : list A) x b : length (a ++ x :: b) = (length a + 1 + length b)%nat.
Proof. rewrite app_length. cbn. lia. Qed.

(* [char] is a definition for N and both spellings occur as implicit arguments: rewrite
   after normalising them *)
Ltac crw L := let R := fresh "R" in pose proof L as R; unfold char in R |- *; rewrite R; clear R.

Lemma skip_to_value w v d x : ws w -> value v d -> skip_ws (w ++ v ++ x) = v ++ x.
Proof.
  intros Hw Hv. apply skip_ws_exact; [exact Hw|].
  destruct (value_not_close v d x Hv) as [ch [r [E [Hn _]]]]. rewrite E. exact Hn.
Qed.

Lemma ref_all : (forall v d, value v d -> PVr v d) /\ (forall s l, elements s l -> PEr s l)
                /\ (forall s m, members s m -> PMr s m).
Proof.
  apply value_mutind.
  - intros rest fuel Hr Hf. destruct fuel as [|f]; [cbn in Hf; lia|]. reflexivity.
  - intros rest fuel Hr Hf. destruct fuel as [|f]; [cbn in Hf; lia|]. reflexivity.
  - intros rest fuel Hr Hf. destruct fuel as [|f]; [cbn in Hf; lia|]. reflexivity.
  - (* number *)
    intros s Hn rest fuel Hr Hf. destruct (number_head s Hn) as [c [r [E Hc]]].
    destruct fuel as [|f]; [rewrite E in Hf; cbn in Hf; lia|].
    pose proof (ref_number_complete s rest Hn Hr) as Rn. rewrite E in *. cbn [app] in *. cbn [ref_value].
    assert (T : (c =? 110) = false /\ (c =? 116) = false /\ (c =? 102) = false /\ (c =? 34) = false
                /\ (c =? 91) = false /\ (c =? 123) = false).
    { destruct Hc as [->|Hc]; [repeat split; reflexivity|].
      unfold is_dec_digit in Hc. apply andb_true_iff in Hc. destruct Hc as [H1 H2].
      apply N.leb_le in H1. apply N.leb_le in H2. repeat split; apply N.eqb_neq; lia. }
    destruct T as [T1 [T2 [T3 [T4 [T5 T6]]]]]. rewrite T1, T2, T3, T4, T5, T6. crw Rn. reflexivity.
  - (* string *)
    intros s body Hs rest fuel Hr Hf. destruct Hs as [body Hb].
    destruct fuel as [|f]; [cbn in Hf; lia|]. cbn [app ref_value].
    change (34 =? 110) with false. change (34 =? 116) with false. change (34 =? 102) with false.
    change (34 =? 34) with true. cbv iota. rewrite <- app_assoc. cbn [app].
    crw (ref_string_complete body Hb rest). reflexivity.
  - (* [ ws ] *)
    intros w Hw rest fuel Hr Hf. destruct fuel as [|f]; [cbn in Hf; lia|]. cbn [app ref_value].
    change (91 =? 110) with false. change (91 =? 116) with false. change (91 =? 102) with false.
    change (91 =? 34) with false. change (91 =? 91) with true. cbv iota.
    rewrite <- app_assoc. cbn [app]. crw (skip_ws_exact w (93 :: rest) Hw eq_refl).
    change (93 =? 93) with true. reflexivity.
  - (* [ elements ] *)
    intros s l He IH rest fuel Hr Hf. destruct fuel as [|f]; [cbn in Hf; lia|]. cbn [app ref_value].
    change (91 =? 110) with false. change (91 =? 116) with false. change (91 =? 102) with false.
    change (91 =? 34) with false. change (91 =? 91) with true. cbv iota.
    rewrite <- app_assoc. cbn [app].
    assert (Hh : exists c1 r1, skip_ws (s ++ 93 :: rest) = c1 :: r1 /\ (c1 =? 93) = false).
    { destruct He as [w1 v d w2 Hw1 Hv Hw2|w1 v d w2 s' l' Hw1 Hv Hw2 _].
      - destruct (value_not_close v d (w2 ++ 93 :: rest) Hv) as [ch [r [E [Hn [H93 _]]]]].
        exists ch, r. split; [|exact H93]. rewrite <- !app_assoc. unfold char in *. rewrite E.
        apply skip_ws_exact; assumption.
      - destruct (value_not_close v d (w2 ++ (44 :: s') ++ 93 :: rest) Hv) as [ch [r [E [Hn [H93 _]]]]].
        exists ch, r. split; [|exact H93]. rewrite <- !app_assoc. unfold char in *. rewrite E.
        apply skip_ws_exact; assumption. }
    destruct Hh as [c1 [r1 [E1 H93]]]. pose proof (IH rest f) as IH'. unfold char in *. rewrite E1 in IH' |- *. rewrite H93.
    rewrite IH'; [reflexivity|]. cbn [length] in Hf. rewrite app_length in Hf. cbn [length] in Hf. lia.
  - (* { ws } *)
    intros w Hw rest fuel Hr Hf. destruct fuel as [|f]; [cbn in Hf; lia|]. cbn [app ref_value].
    change (123 =? 110) with false. change (123 =? 116) with false. change (123 =? 102) with false.
    change (123 =? 34) with false. change (123 =? 91) with false. change (123 =? 123) with true. cbv iota.
    rewrite <- app_assoc. cbn [app]. crw (skip_ws_exact w (125 :: rest) Hw eq_refl).
    change (125 =? 125) with true. reflexivity.
  - (* { members } *)
    intros s m He IH rest fuel Hr Hf. destruct fuel as [|f]; [cbn in Hf; lia|]. cbn [app ref_value].
    change (123 =? 110) with false. change (123 =? 116) with false. change (123 =? 102) with false.
    change (123 =? 34) with false. change (123 =? 91) with false. change (123 =? 123) with true. cbv iota.
    rewrite <- app_assoc. cbn [app].
    assert (Hh : exists r1, skip_ws (s ++ 125 :: rest) = 34 :: r1).
    { destruct He as [w1 k body w2 w3 v d w4 Hw1 Hk _ _ _ _|w1 k body w2 w3 v d w4 s' m' Hw1 Hk _ _ _ _ _];
        destruct Hk as [body Hb]; rewrite <- !app_assoc; cbn [app]; eexists;
        apply skip_ws_exact; [exact Hw1|reflexivity|exact Hw1|reflexivity]. }
    destruct Hh as [r1 E1]. pose proof (IH rest f) as IH'. unfold char in *. rewrite E1 in IH' |- *.
    change (34 =? 125) with false. cbv iota.
    rewrite IH'; [reflexivity|]. cbn [length] in Hf. rewrite app_length in Hf. cbn [length] in Hf. lia.
  - (* one element *)
    intros w1 v d w2 Hw1 Hv IHv Hw2 rest fuel Hf. destruct fuel as [|f]; [lia|].
    rewrite <- !app_assoc. crw (skip_to_value w1 v d (w2 ++ 93 :: rest) Hw1 Hv).
    cbn [ref_elements].
    assert (Hfv : (length v <= f)%nat) by (rewrite !app_length in Hf; lia).
    crw (IHv (w2 ++ 93 :: rest) f (ws_delim_head w2 93 rest Hw2 eq_refl) Hfv).
    crw (skip_ws_exact w2 (93 :: rest) Hw2 eq_refl). change (93 =? 93) with true. reflexivity.
  - (* element , elements *)
    intros w1 v d w2 s l Hw1 Hv IHv Hw2 Hs IHs rest fuel Hf. destruct fuel as [|f]; [lia|].
    rewrite <- !app_assoc. cbn [app]. rewrite <- ?app_assoc.
    crw (skip_to_value w1 v d (w2 ++ 44 :: s ++ 93 :: rest) Hw1 Hv).
    cbn [ref_elements].
    assert (Hfv : (length v <= f)%nat) by (rewrite !app_length in Hf; lia).
    crw (IHv (w2 ++ 44 :: s ++ 93 :: rest) f (ws_delim_head w2 44 _ Hw2 eq_refl) Hfv).
    crw (skip_ws_exact w2 (44 :: s ++ 93 :: rest) Hw2 eq_refl).
    change (44 =? 93) with false. change (44 =? 44) with true. cbv iota.
    assert (Hfs : (length s + 1 <= f)%nat).
    { rewrite !app_length in Hf. cbn [length] in Hf. lia. }
    crw (IHs rest f Hfs). reflexivity.
  - (* one member *)
    intros w1 k body w2 w3 v d w4 Hw1 Hk Hw2 Hw3 Hv IHv Hw4 rest fuel Hf. destruct fuel as [|f]; [lia|].
    destruct Hk as [body Hb].
    assert (Hfv : (length v <= f)%nat).
    { rewrite !app_length in Hf. cbn [length] in Hf. rewrite !app_length in Hf. lia. }
    rewrite <- !app_assoc. cbn [app]. rewrite <- !app_assoc. cbn [app]. rewrite <- ?app_assoc.
    crw (skip_ws_exact w1 (34 :: body ++ 34 :: w2 ++ 58 :: w3 ++ v ++ w4 ++ 125 :: rest) Hw1 eq_refl).
    cbn [ref_members]. change (34 =? 34) with true. cbv iota.
    crw (ref_string_complete body Hb (w2 ++ 58 :: w3 ++ v ++ w4 ++ 125 :: rest)).
    crw (skip_ws_exact w2 (58 :: w3 ++ v ++ w4 ++ 125 :: rest) Hw2 eq_refl).
    change (58 =? 58) with true. cbv iota.
    crw (skip_to_value w3 v d (w4 ++ 125 :: rest) Hw3 Hv).
    crw (IHv (w4 ++ 125 :: rest) f (ws_delim_head w4 125 rest Hw4 eq_refl) Hfv).
    crw (skip_ws_exact w4 (125 :: rest) Hw4 eq_refl). change (125 =? 125) with true. reflexivity.
  - (* member , members *)
    intros w1 k body w2 w3 v d w4 s m Hw1 Hk Hw2 Hw3 Hv IHv Hw4 Hs IHs rest fuel Hf. destruct fuel as [|f]; [lia|].
    destruct Hk as [body Hb].
    assert (Hfv : (length v <= f)%nat /\ (length s + 1 <= f)%nat).
    { repeat ((rewrite app_length in Hf) || (progress (cbn [length] in Hf))). lia. }
    destruct Hfv as [Hfv Hfs].
    rewrite <- !app_assoc. cbn [app]. rewrite <- !app_assoc. cbn [app]. rewrite <- ?app_assoc. cbn [app]. rewrite <- ?app_assoc.
    crw (skip_ws_exact w1 (34 :: body ++ 34 :: w2 ++ 58 :: w3 ++ v ++ w4 ++ 44 :: s ++ 125 :: rest) Hw1 eq_refl).
    cbn [ref_members]. change (34 =? 34) with true. cbv iota.
    crw (ref_string_complete body Hb (w2 ++ 58 :: w3 ++ v ++ w4 ++ 44 :: s ++ 125 :: rest)).
    crw (skip_ws_exact w2 (58 :: w3 ++ v ++ w4 ++ 44 :: s ++ 125 :: rest) Hw2 eq_refl).
    change (58 =? 58) with true. cbv iota.
    crw (skip_to_value w3 v d (w4 ++ 44 :: s ++ 125 :: rest) Hw3 Hv).
    crw (IHv (w4 ++ 44 :: s ++ 125 :: rest) f (ws_delim_head w4 44 _ Hw4 eq_refl) Hfv).
    crw (skip_ws_exact w4 (44 :: s ++ 125 :: rest) Hw4 eq_refl).
    change (44 =? 125) with false. change (44 =? 44) with true. cbv iota.
    crw (IHs rest f Hfs). reflexivity.
Qed.

Theorem ref_json_complete s d : json_text s d -> ref_json s = Some d.
Proof.
  intros H. destruct H as [w1 v d w2 Hw1 Hv Hw2]. unfold ref_json.
  crw (skip_to_value w1 v d w2 Hw1 Hv).
  destruct ref_all as [HV _].
  assert (Hd : hd_in delim w2) by (rewrite <- (app_nil_r w2); apply ws_delim_end; exact Hw2).
  assert (Hf : (length v <= S (2 * length (w1 ++ v ++ w2)))%nat) by (rewrite !app_length; lia).
  crw (HV v d Hv w2 _ Hd Hf).
  pose proof (skip_ws_exact w2 [] Hw2 I) as R. rewrite app_nil_r in R. crw R. reflexivity.
Qed.

Theorem ref_json_exact s d : ref_json s = Some d <-> json_text s d.
Proof. split; [apply ref_json_sound|apply ref_json_complete]. Qed.

(* the grammar is unambiguous: a text has at most one tree *)
Corollary json_text_unique s d d' : json_text s d -> json_text s d' -> d = d'.
Proof. intros H H'. apply ref_json_complete in H. apply ref_json_complete in H'. congruence. Qed.
