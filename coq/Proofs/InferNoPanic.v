(* InferNoPanic.v — both tree-level inference functions never reach a panic site
   (`elements.first().unwrap()`, `values[0]`, `unreachable!()` in the array
   classification), for every document (C05, value-based entry point included). *)
From Coq Require Import List Bool NArith Lia.
Import ListNotations.
From JS Require Import Model.Base Model.Shape Model.Sem Model.Infer Proofs.InferFacts Proofs.TextWalk.

Lemma array_value_no_panic es : array_value es <> Panic.
Proof.
  unfold array_value.
  destruct (len_gt1 es && forallb is_object es) eqn:E2.
  - apply andb_true_iff in E2. destruct E2 as [E2 E3]. destruct es as [|a r]; [discriminate E2|].
    cbn [forallb] in E3. apply andb_true_iff in E3. destruct E3 as [E3 _].
    destruct a; try discriminate E3. cbn. discriminate.
  - destruct (nonempty es && (len_eq1 es || all_adjacent_eq es)) eqn:E1.
    + apply andb_true_iff in E1. destruct E1 as [E1 _]. destruct es; [discriminate E1|]. cbn. discriminate.
    + destruct (len_gt1 es); discriminate.
Qed.

Lemma mapM_no_panic {E A B} (f : A -> outcome E B) l : Forall (fun x => f x <> Panic) l -> mapM_o f l <> Panic.
Proof.
  induction 1 as [|x r Hx Hr IH]; cbn [mapM_o]; [discriminate|].
  destruct (f x); cbn [obind]; [|discriminate|contradiction].
  destruct (mapM_o f r); cbn [obind]; [discriminate|discriminate|contradiction].
Qed.

Theorem infer_text_no_panic : forall d, infer_text d <> Panic.
Proof.
  induction d as [| | | |l IH|m IH] using json_ind'; try discriminate.
  - rewrite infer_text_arr. pose proof (mapM_no_panic infer_text l IH) as H.
    destruct (mapM_o infer_text l); cbn [obind]; [apply array_text_no_panic|discriminate|contradiction].
  - rewrite infer_text_obj. generalize (@nil (key * shape)).
    induction IH as [|[k v] r Hv Hr IHr]; intros acc; cbn [obj_loop]; [discriminate|].
    cbn [snd] in Hv. destruct (infer_text v); cbn [obind]; [|discriminate|contradiction].
    destruct (map_get k acc) as [old|]; [|apply IHr].
    destruct old; try (destruct (shape_eqb _ _); [apply IHr|discriminate]).
    destruct (sset_mem _ _); [apply IHr|discriminate].
Qed.

Theorem infer_value_no_panic : forall d, infer_value d <> Panic.
Proof.
  induction d as [| | | |l IH|m IH] using json_ind'; try discriminate.
  - rewrite infer_value_arr. pose proof (mapM_no_panic infer_value l IH) as H.
    destruct (mapM_o infer_value l); cbn [obind]; [apply array_value_no_panic|discriminate|contradiction].
  - rewrite infer_value_obj. generalize (@nil (key * shape)).
    induction IH as [|[k v] r Hv Hr IHr]; intros acc; cbn [val_loop]; [discriminate|].
    cbn [snd] in Hv. destruct (infer_value v); cbn [obind]; [apply IHr|discriminate|contradiction].
Qed.

(* the value path never fails at all *)
Theorem infer_value_total : forall d, exists s, infer_value d = Ok s.
Proof.
  assert (NE : forall d, forall e, infer_value d <> Err e).
  { induction d as [| | | |l IH|m IH] using json_ind'; intros e; try discriminate.
    - rewrite infer_value_arr.
      assert (H : forall e', mapM_o infer_value l <> Err e').
      { induction IH as [|x r Hx Hr IHr]; intros e'; cbn [mapM_o]; [discriminate|].
        destruct (infer_value x) eqn:Ex; cbn [obind]; [|exfalso; eapply Hx; reflexivity|discriminate].
        destruct (mapM_o infer_value r) eqn:Er; cbn [obind]; [discriminate|exfalso; eapply IHr; reflexivity|discriminate]. }
      destruct (mapM_o infer_value l) as [es| |] eqn:Em; cbn [obind]; [|exfalso; eapply H; reflexivity|discriminate].
      unfold array_value. destruct (len_gt1 es && forallb is_object es) eqn:E2.
      + destruct es as [|a r]; [discriminate|]. unfold array_of_objects. destruct a; discriminate.
      + destruct (nonempty es && (len_eq1 es || all_adjacent_eq es)); [destruct es; discriminate|].
        destruct (len_gt1 es); discriminate.
    - rewrite infer_value_obj. generalize (@nil (key * shape)).
      induction IH as [|[k v] r Hv Hr IHr]; intros acc; cbn [val_loop]; [discriminate|].
      cbn [snd] in Hv. destruct (infer_value v) eqn:Ev; cbn [obind]; [apply IHr|exfalso; eapply Hv; reflexivity|discriminate]. }
  intros d. pose proof (infer_value_no_panic d) as P. pose proof (NE d) as N.
  destruct (infer_value d) as [s|e|]; [exists s; reflexivity|exfalso; eapply N; reflexivity|contradiction].
Qed.
