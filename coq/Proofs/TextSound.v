(* TextSound.v — the soundness half of C04 ("what is accepted is JSON"), and the full
   equivalence C04_main:
     tree_text      : a token tree of the JSON token grammar over a silently lexed text is an
                      RFC 8259 derivation of that text, of nesting depth <= 256;
     accepted_sound : a text of Unicode scalar values accepted by the pipeline (diagnostics
                      honoured) is grammatical, at most 256 deep, with consistent duplicates;
     c04_main       : accepts cf s = true <-> exists t, json_text s t /\ jdepth t <= 256 /\
                      dup_consistent t = true. *)
From Coq Require Import List Bool Arith NArith Lia.
Import ListNotations.
From JS Require Import Model.Base Model.Shape Model.Sem Model.Infer Model.Lexer Model.Parser Model.Walk
  Model.TextApi Model.JsonRef
  Proofs.BaseFacts Proofs.ShapeFacts Proofs.TextFacts Proofs.InferFacts Proofs.InferTotal Proofs.TextLexer Proofs.TextLexSpec
  Proofs.TextParser Proofs.JsonRefSound Proofs.CstTree Proofs.LexComplete Proofs.ParseComplete
  Proofs.LexSound Proofs.ParseSound Proofs.TextComplete Proofs.RefComplete Proofs.TextWalk Proofs.TextApiFacts.
Local Open Scope N_scope.

Lemma lexes_inv pos cs o c t sp toks : lexes pos cs o c ((t, sp) :: toks) ->
  exists lx rest o' c', cs = lx ++ rest /\ rfc_lexeme t lx /\ bracket_delta t o c = (o', c') /\
    o' <= c' + 256 /\ lexes (pos + byte_len lx) rest o' c' toks.
Proof.
  intros H. inversion H; subst. eexists; eexists; eexists; eexists.
  split; [reflexivity|]. split; [eassumption|]. split; [eassumption|]. split; eassumption.
Qed.

Lemma lexes_ws : forall w, wsf w -> forall pos cs o c more, lexes pos cs o c (cstoks w ++ more) ->
  exists wt cs' pos', cs = wt ++ cs' /\ ws wt /\ lexes pos' cs' o c more.
Proof.
  induction 1 as [|k w Hk _ IH]; intros pos cs o c more H.
  - exists [], cs, pos. repeat split; [constructor|exact H].
  - destruct k as [t sp|r ks]; [|discriminate Hk]. rewrite cstoks_cons in H. cbn [ctoks app] in H.
    destruct (lexes_inv _ _ _ _ _ _ _ H) as [lx [rest [o' [c' [-> [[Hl _] [Hb [_ Hr]]]]]]]].
    assert (Hws : ws lx /\ (o', c') = (o, c)).
    { destruct t; try discriminate Hk; cbn in Hl, Hb; (split; [exact Hl|congruence]). }
    destruct Hws as [Hws Eoc]. inversion Eoc; subst o' c'.
    destruct (IH _ _ _ _ _ Hr) as [wt [cs' [pos' [-> [Hwt Hr']]]]].
    exists (lx ++ wt), cs', pos'. split; [rewrite app_assoc; reflexivity|]. split; [apply ws_app; assumption|exact Hr'].
Qed.

(* one structural token *)
Lemma lexes_punct pos cs o c t sp toks (ch : char) o1 c1 :
  lexeme_ok t [ch] -> (forall w, lexeme_ok t w -> w = [ch]) -> bracket_delta t o c = (o1, c1) ->
  lexes pos cs o c ((t, sp) :: toks) ->
  exists cs' pos', cs = ch :: cs' /\ o1 <= c1 + 256 /\ lexes pos' cs' o1 c1 toks.
Proof.
  intros _ Hu Hb H. destruct (lexes_inv _ _ _ _ _ _ _ H) as [lx [rest [o' [c' [-> [[Hl _] [Hb' [Hcap Hr]]]]]]]].
  rewrite (Hu lx Hl). rewrite Hb in Hb'. inversion Hb'; subst o' c'.
  exists rest, (pos + byte_len lx). repeat split; assumption.
Qed.

(* the text of `( , ws value ws )*` *)
Inductive etail : list char -> list json -> Prop :=
| etail_nil : etail [] []
| etail_cons w' v d w s l : ws w' -> value v d -> ws w -> etail s l -> etail (44 :: w' ++ v ++ w ++ s) (d :: l).

Inductive mtail : list char -> list (key * json) -> Prop :=
| mtail_nil : mtail [] []
| mtail_cons w' k body wa wb v d w s m : ws w' -> string_lit k body -> ws wa -> ws wb -> value v d -> ws w ->
    mtail s m -> mtail (44 :: w' ++ k ++ wa ++ 58 :: wb ++ v ++ w ++ s) ((raw_key body, d) :: m).

Lemma elements_of_tail : forall s l, etail s l -> forall w1 v d w2, ws w1 -> value v d -> ws w2 ->
  elements (w1 ++ v ++ w2 ++ s) (d :: l).
Proof.
  induction 1 as [|w' v' d' w s l Hw' Hv' Hw _ IH]; intros w1 v d w2 H1 Hv H2.
  - rewrite app_nil_r. apply el_one; assumption.
  - apply el_cons; try assumption. apply IH; assumption.
Qed.

Lemma members_of_tail : forall s m, mtail s m -> forall w1 k body w2 w3 v d w4,
  ws w1 -> string_lit k body -> ws w2 -> ws w3 -> value v d -> ws w4 ->
  members (w1 ++ k ++ w2 ++ 58 :: w3 ++ v ++ w4 ++ s) ((raw_key body, d) :: m).
Proof.
  induction 1 as [|w' k' body' wa wb v' d' w s m Hw' Hk' Hwa Hwb Hv' Hw _ IH]; intros w1 k body w2 w3 v d w4 H1 Hk H2 H3 Hv H4.
  - rewrite app_nil_r. apply mb_one; assumption.
  - apply mb_cons; try assumption. apply IH; assumption.
Qed.

Definition PG (t : ct) : Prop :=
  forall pos cs o c more, lexes pos cs o c (ctoks t ++ more) ->
    exists v cs' d n pos', cs = v ++ cs' /\ value v d /\ lexes pos' cs' (o + n) (c + n) more /\
      o + N.of_nat (jdepth d) <= c + 256.

Definition PGT (tl : list ct) : Prop :=
  forall pos cs o c more, o <= c + 256 -> lexes pos cs o c (cstoks tl ++ more) ->
    exists s cs' l n pos', cs = s ++ cs' /\ etail s l /\ lexes pos' cs' (o + n) (c + n) more /\
      o + N.of_nat (ldepth l) <= c + 256.

Definition PGM (tl : list ct) : Prop :=
  forall pos cs o c more, o <= c + 256 -> lexes pos cs o c (cstoks tl ++ more) ->
    exists s cs' m n pos', cs = s ++ cs' /\ mtail s m /\ lexes pos' cs' (o + n) (c + n) more /\
      o + N.of_nat (mdepth m) <= c + 256.

Ltac tn' := unfold member_ct;
  repeat (rewrite cstoks_cons || rewrite cstoks_app || rewrite ctoks_CR);
  cbn [ctoks]; change (cstoks []) with (@nil (tok * span)); rewrite ?app_nil_r;
  repeat ((rewrite <- app_assoc) || (progress (cbn [app]))).

Lemma leaf_text (t : tok) sp (d : json) :
  (forall lx, rfc_lexeme t lx -> value lx d) -> (forall o c, bracket_delta t o c = (o, c)) -> jdepth d = 0%nat ->
  forall pos cs o c more, lexes pos cs o c ((t, sp) :: more) ->
    exists v cs' d' n pos', cs = v ++ cs' /\ value v d' /\ lexes pos' cs' (o + n) (c + n) more /\
      o + N.of_nat (jdepth d') <= c + 256.
Proof.
  intros Hv Hb Hd pos cs o c more H.
  destruct (lexes_inv _ _ _ _ _ _ _ H) as [lx [rest [o' [c' [-> [Hl [Hb' [Hcap Hr]]]]]]]].
  rewrite Hb in Hb'. inversion Hb'; subst o' c'.
  exists lx, rest, d, 0, (pos + byte_len lx). rewrite !N.add_0_r, Hd. cbn. rewrite N.add_0_r.
  repeat split; [apply Hv; exact Hl|exact Hr|exact Hcap].
Qed.

(* a member: string ws : ws value *)
Lemma member_text spk wa spc wb v : wsf wa -> wsf wb -> PG v ->
  forall pos cs o c more, lexes pos cs o c (ctoks (member_ct spk wa spc wb v) ++ more) ->
    exists k body wat wbt vt d cs' n pos', cs = k ++ wat ++ 58 :: wbt ++ vt ++ cs' /\ string_lit k body /\
      ws wat /\ ws wbt /\ value vt d /\ lexes pos' cs' (o + n) (c + n) more /\ o + N.of_nat (jdepth d) <= c + 256.
Proof.
  intros Hwa Hwb IHv pos cs o c more H.
  assert (E : ctoks (member_ct spk wa spc wb v) ++ more
              = (TString, spk) :: cstoks wa ++ (TColon, spc) :: cstoks wb ++ ctoks v ++ more) by (tn'; reflexivity).
  rewrite E in H. clear E.
  destruct (lexes_inv _ _ _ _ _ _ _ H) as [k [r1 [o1 [c1 [-> [[_ Hk] [Hb1 [_ H1]]]]]]]].
  cbn in Hb1. inversion Hb1; subst o1 c1. destruct (Hk eq_refl) as [body Hkb].
  destruct (lexes_ws wa Hwa _ _ _ _ _ H1) as [wat [r2 [p2 [-> [Hwat H2]]]]].
  destruct (lexes_punct _ _ _ _ TColon spc _ 58 o c eq_refl (fun w H => H) eq_refl H2) as [r3 [p3 [-> [_ H3]]]].
  destruct (lexes_ws wb Hwb _ _ _ _ _ H3) as [wbt [r4 [p4 [-> [Hwbt H4]]]]].
  destruct (IHv _ _ _ _ _ H4) as [vt [cs' [d [n [p5 [-> [Hvt [H5 Hd]]]]]]]].
  exists k, body, wat, wbt, vt, d, cs', n, p5. repeat split; assumption.
Qed.

Lemma tree_all : (forall t, gt t -> PG t) /\ (forall tl, gtail tl -> PGT tl) /\ (forall tl, gmtail tl -> PGM tl).
Proof.
  apply gt_mutind.
  - intros sp. unfold PG. refine (leaf_text TNull sp JNull _ (fun _ _ => eq_refl) eq_refl).
    intros lx [Hl _]. cbn in Hl. subst lx. apply v_null.
  - intros sp. unfold PG. refine (leaf_text TTrue sp JBool _ (fun _ _ => eq_refl) eq_refl).
    intros lx [Hl _]. cbn in Hl. subst lx. apply v_true.
  - intros sp. unfold PG. refine (leaf_text TFalse sp JBool _ (fun _ _ => eq_refl) eq_refl).
    intros lx [Hl _]. cbn in Hl. subst lx. apply v_false.
  - intros sp. unfold PG. refine (leaf_text TNumber sp JNum _ (fun _ _ => eq_refl) eq_refl).
    intros lx [Hl _]. apply v_number. exact Hl.
  - intros sp. unfold PG. refine (leaf_text TString sp JStr _ (fun _ _ => eq_refl) eq_refl).
    intros lx [_ Hs]. destruct (Hs eq_refl) as [body Hb]. apply (v_string _ body Hb).
  - (* [ ws ] *)
    intros sp1 w sp2 Hw pos cs o c more H.
    assert (E : ctoks (CR RArray (CT TLBrak sp1 :: w ++ [CT TRBrak sp2])) ++ more
                = (TLBrak, sp1) :: cstoks w ++ (TRBrak, sp2) :: more) by (tn'; reflexivity).
    rewrite E in H. clear E.
    destruct (lexes_punct _ _ _ _ TLBrak sp1 _ 91 (o + 1) c eq_refl (fun w H => H) eq_refl H) as [r1 [p1 [-> [Hc1 H1]]]].
    destruct (lexes_ws w Hw _ _ _ _ _ H1) as [wt [r2 [p2 [-> [Hwt H2]]]]].
    destruct (lexes_punct _ _ _ _ TRBrak sp2 _ 93 (o + 1) (c + 1) eq_refl (fun w H => H) eq_refl H2) as [r3 [p3 [-> [_ H3]]]].
    exists (91 :: wt ++ [93]), r3, (JArr []), 1, p3. split; [cbn [app]; rewrite <- app_assoc; reflexivity|].
    split; [apply v_array_empty; exact Hwt|]. split; [exact H3|]. cbn. lia.
  - (* [ elements ] *)
    intros sp1 w v w1 tl sp2 Hw Hv IHv Hw1 Htl IHtl pos cs o c more H.
    assert (E : ctoks (CR RArray (CT TLBrak sp1 :: w ++ (v :: w1 ++ tl) ++ [CT TRBrak sp2])) ++ more
                = (TLBrak, sp1) :: cstoks w ++ ctoks v ++ cstoks w1 ++ cstoks tl ++ (TRBrak, sp2) :: more) by (tn'; reflexivity).
    rewrite E in H. clear E.
    destruct (lexes_punct _ _ _ _ TLBrak sp1 _ 91 (o + 1) c eq_refl (fun w H => H) eq_refl H) as [r1 [p1 [-> [Hc1 H1]]]].
    destruct (lexes_ws w Hw _ _ _ _ _ H1) as [wt [r2 [p2 [-> [Hwt H2]]]]].
    destruct (IHv _ _ _ _ _ H2) as [vt [r3 [d [n [p3 [-> [Hvt [H3 Hd]]]]]]]].
    destruct (lexes_ws w1 Hw1 _ _ _ _ _ H3) as [w1t [r4 [p4 [-> [Hw1t H4]]]]].
    assert (Hoc : o + 1 + n <= c + n + 256) by lia.
    destruct (IHtl _ _ _ _ _ Hoc H4) as [s [r5 [l [n' [p5 [-> [Hs [H5 Hl]]]]]]]].
    destruct (lexes_punct _ _ _ _ TRBrak sp2 _ 93 (o + 1 + n + n') (c + n + n' + 1) eq_refl (fun w H => H) eq_refl H5)
      as [r6 [p6 [-> [_ H6]]]].
    exists (91 :: (wt ++ vt ++ w1t ++ s) ++ [93]), r6, (JArr (d :: l)), (n + n' + 1), p6.
    split; [cbn [app]; rewrite <- !app_assoc; cbn [app]; reflexivity|].
    split; [apply v_array; apply elements_of_tail; assumption|].
    split; [replace (o + (n + n' + 1)) with (o + 1 + n + n') by lia; replace (c + (n + n' + 1)) with (c + n + n' + 1) by lia; exact H6|].
    cbn [jdepth fold_right]. fold (ldepth l). lia.
  - (* { ws } *)
    intros sp1 w sp2 Hw pos cs o c more H.
    assert (E : ctoks (CR RObject (CT TLBrace sp1 :: w ++ [CT TRBrace sp2])) ++ more
                = (TLBrace, sp1) :: cstoks w ++ (TRBrace, sp2) :: more) by (tn'; reflexivity).
    rewrite E in H. clear E.
    destruct (lexes_punct _ _ _ _ TLBrace sp1 _ 123 (o + 1) c eq_refl (fun w H => H) eq_refl H) as [r1 [p1 [-> [Hc1 H1]]]].
    destruct (lexes_ws w Hw _ _ _ _ _ H1) as [wt [r2 [p2 [-> [Hwt H2]]]]].
    destruct (lexes_punct _ _ _ _ TRBrace sp2 _ 125 (o + 1) (c + 1) eq_refl (fun w H => H) eq_refl H2) as [r3 [p3 [-> [_ H3]]]].
    exists (123 :: wt ++ [125]), r3, (JObj []), 1, p3. split; [cbn [app]; rewrite <- app_assoc; reflexivity|].
    split; [apply v_object_empty; exact Hwt|]. split; [exact H3|]. cbn. lia.
  - (* { members } *)
    intros sp1 w spk wa spc wb v w1 tl sp2 Hw Hwa Hwb Hv IHv Hw1 Htl IHtl pos cs o c more H.
    assert (E : ctoks (CR RObject (CT TLBrace sp1 :: w ++ (member_ct spk wa spc wb v :: w1 ++ tl) ++ [CT TRBrace sp2])) ++ more
                = (TLBrace, sp1) :: cstoks w ++ ctoks (member_ct spk wa spc wb v) ++ cstoks w1 ++ cstoks tl ++ (TRBrace, sp2) :: more).
    { rewrite ctoks_CR, cstoks_cons, !cstoks_app, cstoks_cons, cstoks_app. cbn [ctoks cstoks flat_map].
      rewrite ?app_nil_r. repeat ((rewrite <- app_assoc) || (progress (cbn [app]))). reflexivity. }
    rewrite E in H. clear E.
    destruct (lexes_punct _ _ _ _ TLBrace sp1 _ 123 (o + 1) c eq_refl (fun w H => H) eq_refl H) as [r1 [p1 [-> [Hc1 H1]]]].
    destruct (lexes_ws w Hw _ _ _ _ _ H1) as [wt [r2 [p2 [-> [Hwt H2]]]]].
    destruct (member_text spk wa spc wb v Hwa Hwb IHv _ _ _ _ _ H2)
      as [k [body [wat [wbt [vt [d [r3 [n [p3 [-> [Hk [Hwat [Hwbt [Hvt [H3 Hd]]]]]]]]]]]]]]].
    destruct (lexes_ws w1 Hw1 _ _ _ _ _ H3) as [w1t [r4 [p4 [-> [Hw1t H4]]]]].
    assert (Hoc : o + 1 + n <= c + n + 256) by lia.
    destruct (IHtl _ _ _ _ _ Hoc H4) as [s [r5 [m [n' [p5 [-> [Hs [H5 Hl]]]]]]]].
    destruct (lexes_punct _ _ _ _ TRBrace sp2 _ 125 (o + 1 + n + n') (c + n + n' + 1) eq_refl (fun w H => H) eq_refl H5)
      as [r6 [p6 [-> [_ H6]]]].
    exists (123 :: (wt ++ k ++ wat ++ 58 :: wbt ++ vt ++ w1t ++ s) ++ [125]), r6, (JObj ((raw_key body, d) :: m)), (n + n' + 1), p6.
    split; [cbn [app]; rewrite <- !app_assoc; cbn [app]; rewrite <- ?app_assoc; reflexivity|].
    split; [apply v_object; apply members_of_tail; assumption|].
    split; [replace (o + (n + n' + 1)) with (o + 1 + n + n') by lia; replace (c + (n + n' + 1)) with (c + n + n' + 1) by lia; exact H6|].
    cbn [jdepth fold_right snd]. fold (mdepth m). lia.
  - (* tail, empty *)
    intros pos cs o c more Hoc H. exists [], cs, [], 0, pos. rewrite !N.add_0_r.
    split; [reflexivity|]. split; [constructor|]. split; [exact H|]. cbn. lia.
  - (* , ws value ws tail *)
    intros sp w' v w tl Hw' Hv IHv Hw Htl IHtl pos cs o c more Hoc H.
    assert (E : cstoks (CT TComma sp :: w' ++ v :: w ++ tl) ++ more
                = (TComma, sp) :: cstoks w' ++ ctoks v ++ cstoks w ++ cstoks tl ++ more) by (tn'; reflexivity).
    rewrite E in H. clear E.
    destruct (lexes_punct _ _ _ _ TComma sp _ 44 o c eq_refl (fun w H => H) eq_refl H) as [r1 [p1 [-> [_ H1]]]].
    destruct (lexes_ws w' Hw' _ _ _ _ _ H1) as [w't [r2 [p2 [-> [Hw't H2]]]]].
    destruct (IHv _ _ _ _ _ H2) as [vt [r3 [d [n [p3 [-> [Hvt [H3 Hd]]]]]]]].
    destruct (lexes_ws w Hw _ _ _ _ _ H3) as [wt [r4 [p4 [-> [Hwt H4]]]]].
    assert (Hoc' : o + n <= c + n + 256) by lia.
    destruct (IHtl _ _ _ _ _ Hoc' H4) as [s [r5 [l [n' [p5 [-> [Hs [H5 Hl]]]]]]]].
    exists (44 :: w't ++ vt ++ wt ++ s), r5, (d :: l), (n + n'), p5.
    split; [cbn [app]; rewrite <- !app_assoc; reflexivity|].
    split; [constructor; assumption|].
    split; [replace (o + (n + n')) with (o + n + n') by lia; replace (c + (n + n')) with (c + n + n') by lia; exact H5|].
    cbn [ldepth fold_right]. fold (ldepth l). lia.
  - intros pos cs o c more Hoc H. exists [], cs, [], 0, pos. rewrite !N.add_0_r.
    split; [reflexivity|]. split; [constructor|]. split; [exact H|]. cbn. lia.
  - (* , ws member ws tail *)
    intros sp w' spk wa spc wb v w tl Hw' Hwa Hwb Hv IHv Hw Htl IHtl pos cs o c more Hoc H.
    assert (E : cstoks (CT TComma sp :: w' ++ member_ct spk wa spc wb v :: w ++ tl) ++ more
                = (TComma, sp) :: cstoks w' ++ ctoks (member_ct spk wa spc wb v) ++ cstoks w ++ cstoks tl ++ more).
    { rewrite cstoks_cons, cstoks_app, cstoks_cons, cstoks_app. cbn [ctoks cstoks flat_map].
      repeat ((rewrite <- app_assoc) || (progress (cbn [app]))). reflexivity. }
    rewrite E in H. clear E.
    destruct (lexes_punct _ _ _ _ TComma sp _ 44 o c eq_refl (fun w H => H) eq_refl H) as [r1 [p1 [-> [_ H1]]]].
    destruct (lexes_ws w' Hw' _ _ _ _ _ H1) as [w't [r2 [p2 [-> [Hw't H2]]]]].
    destruct (member_text spk wa spc wb v Hwa Hwb IHv _ _ _ _ _ H2)
      as [k [body [wat [wbt [vt [d [r3 [n [p3 [-> [Hk [Hwat [Hwbt [Hvt [H3 Hd]]]]]]]]]]]]]]].
    destruct (lexes_ws w Hw _ _ _ _ _ H3) as [wt [r4 [p4 [-> [Hwt H4]]]]].
    assert (Hoc' : o + n <= c + n + 256) by lia.
    destruct (IHtl _ _ _ _ _ Hoc' H4) as [s [r5 [m [n' [p5 [-> [Hs [H5 Hl]]]]]]]].
    exists (44 :: w't ++ k ++ wat ++ 58 :: wbt ++ vt ++ wt ++ s), r5, ((raw_key body, d) :: m), (n + n'), p5.
    split; [cbn [app]; rewrite <- !app_assoc; cbn [app]; rewrite <- ?app_assoc; reflexivity|].
    split; [constructor; assumption|].
    split; [replace (o + (n + n')) with (o + n + n') by lia; replace (c + (n + n')) with (c + n + n') by lia; exact H5|].
    cbn [mdepth fold_right snd]. fold (mdepth m). lia.
Qed.

Theorem tree_text t s : gfile t -> lexes 0 s 0 0 (ctoks t) ->
  exists d, json_text s d /\ (jdepth d <= 256)%nat.
Proof.
  intros Hg H. destruct Hg as [w1 v w2 Hw1 Hv Hw2].
  assert (E : ctoks (CR RFile (w1 ++ v :: w2)) = cstoks w1 ++ ctoks v ++ cstoks w2 ++ []) by (tn'; reflexivity).
  rewrite E in H. clear E.
  destruct (lexes_ws w1 Hw1 _ _ _ _ _ H) as [w1t [r1 [p1 [-> [Hw1t H1]]]]].
  destruct tree_all as [HG _].
  destruct (HG v Hv _ _ _ _ _ H1) as [vt [r2 [d [n [p2 [-> [Hvt [H2 Hd]]]]]]]].
  destruct (lexes_ws w2 Hw2 _ _ _ _ _ H2) as [w2t [r3 [p3 [-> [Hw2t H3]]]]].
  inversion H3; subst. rewrite app_nil_r. exists d. split; [apply jt_intro; assumption|lia].
Qed.

(* ---------- a successful inference has consistent duplicates (converse of infer_total_dup) ---------- *)
Definition dupgo : list (key * json) -> bool :=
  fix go (m : list (key * json)) : bool :=
    match m with
    | [] => true
    | (k, v) :: r =>
        dup_consistent v
        && forallb (fun kv => negb (key_eqb k (fst kv)) || shape_opt_eqb (infer_text v) (infer_text (snd kv))) r
        && go r
    end.

Lemma dup_consistent_obj m : dup_consistent (JObj m) = dupgo m.
Proof. reflexivity. Qed.

Lemma mapM_ok_forall {A B E} (f : A -> outcome E B) : forall l es, mapM_o f l = Ok es ->
  Forall (fun x => exists y, f x = Ok y) l.
Proof.
  induction l as [|x r IH]; intros es H; [constructor|]. cbn [mapM_o] in H.
  destruct (f x) as [y| |] eqn:Ex; try discriminate H. cbn [obind] in H.
  destruct (mapM_o f r) as [ys| |] eqn:Er; try discriminate H.
  constructor; [exists y; exact Ex|]. eapply IH. reflexivity.
Qed.

Lemma obj_loop_dup : forall m acc sh,
  Forall (fun kv => forall s, infer_text (snd kv) = Ok s -> dup_consistent (snd kv) = true) m ->
  (forall k s, map_get k acc = Some s -> is_oneof s = false) ->
  obj_loop infer_text m acc = Ok sh ->
  dupgo m = true /\ (forall k v s0, In (k, v) m -> map_get k acc = Some s0 -> infer_text v = Ok s0).
Proof.
  induction m as [|[k v] r IH]; intros acc sh Hf Hacc H.
  - split; [reflexivity|]. intros k v s0 [].
  - inversion Hf as [|? ? Hv Hr]; subst. cbn [snd] in Hv. cbn [obj_loop] in H.
    destruct (infer_text v) as [sv| |] eqn:Esv; try discriminate H. cbn [obind] in H.
    destruct (map_get k acc) as [old|] eqn:G0.
    + pose proof (Hacc k old G0) as Hno.
      assert (X : shape_eqb sv old = true /\ obj_loop infer_text r acc = Ok sh).
      { destruct old; try discriminate Hno; (destruct (shape_eqb sv _) eqn:Eq; [split; [reflexivity|exact H]|discriminate H]). }
      destruct X as [Eq H']. apply shape_eqb_eq in Eq. subst old.
      destruct (IH acc sh Hr Hacc H') as [Hgo HP]. split.
      * cbn [dupgo]. fold dupgo. rewrite (Hv sv eq_refl), Hgo, andb_true_r. cbn [andb].
        apply forallb_forall. intros [k' v'] Hin. cbn [fst snd].
        destruct (key_eqb k k') eqn:Ek; [|reflexivity]. apply key_eqb_eq in Ek. subst k'. cbn [negb orb].
        rewrite (HP k v' sv Hin G0). unfold shape_opt_eqb. rewrite ?Esv. apply shape_eqb_refl.
      * intros k' v' s0 [Hin|Hin] G'.
        -- inversion Hin; subst k' v'. rewrite G0 in G'. inversion G'; subst s0. exact Esv.
        -- exact (HP k' v' s0 Hin G').
    + assert (Hacc' : forall k0 s, map_get k0 (map_insert k sv acc) = Some s -> is_oneof s = false).
      { intros k0 s G'. rewrite map_get_insert in G'. destruct (key_eqb k0 k).
        - inversion G'; subst s. exact (infer_ok_not_oneof v sv Esv).
        - exact (Hacc k0 s G'). }
      destruct (IH _ sh Hr Hacc' H) as [Hgo HP]. split.
      * cbn [dupgo]. fold dupgo. rewrite (Hv sv eq_refl), Hgo, andb_true_r. cbn [andb].
        apply forallb_forall. intros [k' v'] Hin. cbn [fst snd].
        destruct (key_eqb k k') eqn:Ek; [|reflexivity]. apply key_eqb_eq in Ek. subst k'. cbn [negb orb].
        assert (G' : map_get k (map_insert k sv acc) = Some sv) by (rewrite map_get_insert, key_eqb_refl; reflexivity).
        rewrite (HP k v' sv Hin G'). unfold shape_opt_eqb. rewrite ?Esv. apply shape_eqb_refl.
      * intros k' v' s0 [Hin|Hin] G'.
        -- inversion Hin; subst k' v'. rewrite G0 in G'. discriminate G'.
        -- apply (HP k' v' s0 Hin). rewrite map_get_insert. destruct (key_eqb k' k) eqn:Ek; [|exact G'].
           apply key_eqb_eq in Ek. subst k'. rewrite G0 in G'. discriminate G'.
Qed.

Theorem infer_ok_dup : forall d sh, infer_text d = Ok sh -> dup_consistent d = true.
Proof.
  induction d as [| | | |l IH|m IH] using json_ind'; intros sh H; try reflexivity.
  - rewrite infer_text_arr in H. destruct (mapM_o infer_text l) as [es| |] eqn:E; try discriminate H.
    pose proof (mapM_ok_forall infer_text l es E) as Hf. cbn [dup_consistent]. apply forallb_forall.
    intros x Hx. rewrite Forall_forall in IH, Hf. destruct (Hf x Hx) as [y Ey]. exact (IH x Hx y Ey).
  - rewrite infer_text_obj in H. rewrite dup_consistent_obj.
    destruct (obj_loop_dup m [] sh) as [Hgo _]; [|intros k s G; discriminate G|exact H|exact Hgo].
    rewrite Forall_forall in IH |- *. intros kv Hin s Es. exact (IH kv Hin s Es).
Qed.

Theorem dup_consistent_iff d : dup_consistent d = true <-> exists sh, infer_text d = Ok sh.
Proof. split; [apply infer_total_dup|intros [sh H]; exact (infer_ok_dup d sh H)]. Qed.

(* ---------- what is accepted is JSON ---------- *)
Lemma accepts_empty cf : accepts cf [] = false.
Proof. destruct cf as [[|] [|]]; reflexivity. Qed.

Lemma parse_tokens_diags_split toks mx ld :
  pr_diags (parse_tokens toks mx ld) = ld ++ pr_diags (parse_tokens toks mx []).
Proof.
  unfold parse_tokens. destruct (rule_file (parse_fuel toks) (init_pst toks mx)); cbn [pr_diags app]; [reflexivity|].
  symmetry. apply app_nil_r.
Qed.

Theorem accepted_sound cf s : f2_honour_diags cf = true -> f3_cr_newline cf = true -> Forall scalar s ->
  accepts cf s = true ->
  exists d, json_text s d /\ (jdepth d <= 256)%nat /\ dup_consistent d = true.
Proof.
  intros F2 F3 Hsc Hacc.
  assert (Hne : s <> []) by (intros ->; rewrite accepts_empty in Hacc; discriminate Hacc).
  unfold accepts in Hacc. destruct (from_str_m cf s) as [sh| |] eqn:E; try discriminate Hacc. clear Hacc.
  pose proof E as E0. unfold from_str_m, parse_text in E.
  set (lx := lex cf s) in *. set (pr := parse_tokens (l_toks lx) (byte_len s) (l_diags lx)) in *.
  assert (Hd : pr_diags pr = []).
  { destruct (l_status lx), (pr_status pr); try discriminate E.
    destruct (parse_cst (pr_cst pr) s) as [sh'| |]; try discriminate E. cbn [obind] in E. rewrite F2 in E.
    destruct (pr_diags pr) as [|[k sp] r]; [reflexivity|]. destruct (slice_src s sp); discriminate E. }
  unfold pr in Hd. rewrite parse_tokens_diags_split in Hd. apply app_eq_nil in Hd. destruct Hd as [Hld Hpd].
  pose proof (lex_sound cf s Hsc Hld) as Hlex. fold lx in Hlex.
  assert (Hmx : byte_len s <> 0) by (pose proof (byte_len_pos s Hne); lia).
  destruct (parse_sound (l_toks lx) (byte_len s) (lexes_clean _ _ _ _ _ Hlex) Hmx Hpd) as [t [Hg Et]].
  rewrite Et in Hlex. destruct (tree_text t s Hg Hlex) as [d [Hj Hdep]].
  exists d. split; [exact Hj|]. split; [exact Hdep|].
  rewrite (from_str_complete cf s d F3 Hj Hdep) in E0.
  destruct (infer_text d) as [x|[a b]|] eqn:Ei; try discriminate E0. exact (infer_ok_dup d x Ei).
Qed.

(* C04_main *)
Theorem c04_main cf s : f2_honour_diags cf = true -> f3_cr_newline cf = true -> Forall scalar s ->
  (accepts cf s = true <-> exists t, json_text s t /\ (jdepth t <= 256)%nat /\ dup_consistent t = true).
Proof.
  intros F2 F3 Hsc. split; [apply accepted_sound; assumption|apply grammatical_accepted; exact F3].
Qed.

Theorem c04_main_now s : Forall scalar s ->
  (accepts cfg_now s = true <-> exists t, json_text s t /\ (jdepth t <= 256)%nat /\ dup_consistent t = true).
Proof. apply c04_main; reflexivity. Qed.

(* the executable oracle of the check is exactly the library's acceptance *)
Theorem accepts_ref_accepts s : Forall scalar s -> accepts cfg_now s = ref_accepts s.
Proof.
  intros Hsc. destruct (accepts cfg_now s) eqn:Ea.
  - apply (c04_main_now s Hsc) in Ea. destruct Ea as [t [Hj [Hd Hc]]].
    unfold ref_accepts. rewrite (ref_json_complete s t Hj), Hc.
    apply PeanoNat.Nat.leb_le in Hd. rewrite Hd. reflexivity.
  - destruct (ref_accepts s) eqn:Er; [|reflexivity]. exfalso.
    unfold ref_accepts in Er. destruct (ref_json s) as [t|] eqn:Ej; [|discriminate Er].
    apply andb_true_iff in Er. destruct Er as [Hd Hc]. apply PeanoNat.Nat.leb_le in Hd.
    assert (X : accepts cfg_now s = true).
    { apply (c04_main_now s Hsc). exists t. split; [apply ref_json_sound; exact Ej|split; assumption]. }
    rewrite X in Ea. discriminate Ea.
Qed.

(* rejected corollaries *)
Corollary not_json_rejected s : Forall scalar s -> (forall t, ~ json_text s t) -> accepts cfg_now s = false.
Proof.
  intros Hsc Hn. destruct (accepts cfg_now s) eqn:E; [|reflexivity].
  apply (c04_main_now s Hsc) in E. destruct E as [t [Hj _]]. exfalso. exact (Hn t Hj).
Qed.

Corollary too_deep_rejected s t : Forall scalar s -> json_text s t -> (256 < jdepth t)%nat -> accepts cfg_now s = false.
Proof.
  intros Hsc Hj Hd. destruct (accepts cfg_now s) eqn:E; [|reflexivity].
  apply (c04_main_now s Hsc) in E. destruct E as [t' [Hj' [Hd' _]]].
  rewrite (json_text_unique s t t' Hj Hj') in Hd. lia.
Qed.

Corollary is_superset_rejects_non_json sh s : Forall scalar s -> (forall t, ~ json_text s t) ->
  is_superset_m cfg_now sh s = Ok false.
Proof.
  intros Hsc Hn. pose proof (not_json_rejected s Hsc Hn) as Ha. unfold accepts in Ha. unfold is_superset_m.
  destruct (from_str_m cfg_now s) as [x|e|] eqn:E; [discriminate Ha|reflexivity|].
  exfalso. exact (from_str_no_panic s E).
Qed.

Corollary superset_checked_rejects_non_json sh s : Forall scalar s -> (forall t, ~ json_text s t) ->
  exists e, is_superset_checked_m cfg_now sh s = Err e.
Proof.
  intros Hsc Hn. pose proof (not_json_rejected s Hsc Hn) as Ha. unfold accepts in Ha. unfold is_superset_checked_m.
  destruct (from_str_m cfg_now s) as [x|e|] eqn:E; [discriminate Ha|exists e; reflexivity|].
  exfalso. exact (from_str_no_panic s E).
Qed.

(* from_sources succeeds only on JSON texts *)
Corollary from_sources_sound srcs sh : Forall (Forall scalar) srcs -> from_sources_m cfg_now srcs = Ok sh ->
  Forall (fun s => exists t, json_text s t /\ (jdepth t <= 256)%nat /\ dup_consistent t = true) srcs.
Proof.
  intros Hsc H. unfold from_sources_m in H.
  destruct (mapM_o (from_str_m cfg_now) srcs) as [ss| |] eqn:E; try discriminate H.
  pose proof (mapM_ok_forall (from_str_m cfg_now) srcs ss E) as Hf.
  rewrite Forall_forall in Hf, Hsc |- *. intros s Hin. destruct (Hf s Hin) as [y Ey].
  apply (c04_main_now s (Hsc s Hin)). unfold accepts. rewrite Ey. reflexivity.
Qed.

(* the hypothesis [Forall scalar] cannot be dropped in the MODEL (characters are unbounded
   naturals there; a Rust &str only holds scalar values): a string token containing a
   "character" beyond U+10FFFF is accepted by the lexer model and is not an RFC string *)
Example scalar_needed : accepts cfg_now [34; 2000000; 34]%N = true /\ ref_accepts [34; 2000000; 34]%N = false.
Proof. vm_compute. split; reflexivity. Qed.
