(* ParseComplete.v — C04 stage 1, completeness direction: on the token list of a CST tree of
   a document ([jfile src d t], Proofs/CstTree.v) the recovering parser model emits no
   diagnostic, never calls Parser::error, and builds exactly the pre-order node vector of
   that tree ([cflat 0 t]). *)
From Coq Require Import List Bool Arith NArith Lia.
Import ListNotations.
From JS Require Import Model.Base Model.Shape Model.Sem Model.Lexer Model.Parser Model.Walk
  Proofs.TextFacts Proofs.CstTree.

(* ---------- states reached from s by pushing nodes ---------- *)
Definition ext (s : pst) (ns : list node) (ntok nsk : nat) (rest : list (tok * span)) (cool : bool) : pst :=
  {| p_nodes := rev ns ++ p_nodes s; p_nlen := p_nlen s + length ns; p_tcount := p_tcount s + ntok;
     p_nonskip := nsk; p_rest := rest; p_cool := cool; p_last := p_last s; p_diags := p_diags s;
     p_max := p_max s; p_bad := p_bad s |}.

(* the forest ks was consumed *)
Definition fres (s : pst) (ks : list ct) (nsk : nat) (rest : list (tok * span)) (cool : bool) : pst :=
  ext s (cflats (p_tcount s) ks) (length (cstoks ks)) nsk rest cool.

Lemma pst_eq a b : p_nodes a = p_nodes b -> p_nlen a = p_nlen b -> p_tcount a = p_tcount b ->
  p_nonskip a = p_nonskip b -> p_rest a = p_rest b -> p_cool a = p_cool b -> p_last a = p_last b ->
  p_diags a = p_diags b -> p_max a = p_max b -> p_bad a = p_bad b -> a = b.
Proof. destruct a, b; cbn; intros; subst; reflexivity. Qed.

Lemma ext_ext s ns1 k1 nsk1 r1 c1 ns2 k2 nsk2 r2 c2 :
  ext (ext s ns1 k1 nsk1 r1 c1) ns2 k2 nsk2 r2 c2 = ext s (ns1 ++ ns2) (k1 + k2) nsk2 r2 c2.
Proof.
  apply pst_eq; cbn; try reflexivity.
  - rewrite rev_app_distr, app_assoc. reflexivity.
  - rewrite app_length. lia.
  - lia.
Qed.

Lemma fres_fres s ks1 nsk1 r1 c1 ks2 nsk2 r2 c2 :
  fres (fres s ks1 nsk1 r1 c1) ks2 nsk2 r2 c2 = fres s (ks1 ++ ks2) nsk2 r2 c2.
Proof.
  unfold fres. rewrite ext_ext. cbn [p_tcount ext]. rewrite cflats_app, cstoks_app, app_length. reflexivity.
Qed.

Lemma fres_eq s ks ks' nsk nsk' rest cool : ks = ks' -> nsk = nsk' ->
  fres s ks nsk rest cool = fres s ks' nsk' rest cool.
Proof. intros -> ->. reflexivity. Qed.

Lemma fres_nlen s ks nsk rest cool : p_nlen (fres s ks nsk rest cool) = p_nlen s + fsize ks.
Proof. cbn. rewrite cflats_length. reflexivity. Qed.
Lemma fres_rest s ks nsk rest cool : p_rest (fres s ks nsk rest cool) = rest.
Proof. reflexivity. Qed.

(* ---------- heads ---------- *)
Definition sigh (rest : list (tok * span)) : Prop :=
  match rest with [] => True | (t, _) :: _ => is_skipped t = false end.

Definition vstart (t : tok) : bool :=
  match t with TFalse | TLBrace | TLBrak | TNull | TNumber | TString | TTrue => true | _ => false end.

Lemma vstart_sig t : vstart t = true -> is_skipped t = false.
Proof. destruct t; try discriminate; reflexivity. Qed.

Lemma jv_head src d t : jv src d t -> exists t0 sp0 r, ctoks t = (t0, sp0) :: r /\ vstart t0 = true.
Proof. intros H. destruct H; cbn; eexists; eexists; eexists; split; reflexivity. Qed.

Lemma jels_head src l ks : jels src l ks -> exists t0 sp0 r, cstoks ks = (t0, sp0) :: r /\ vstart t0 = true.
Proof.
  intros H. destruct H as [d v w Hv _|d v w sp w' l ks Hv _ _ _];
    destruct (jv_head _ _ _ Hv) as [t0 [sp0 [r [E Hs]]]]; rewrite cstoks_cons, E;
    eexists; eexists; eexists; (split; [reflexivity|exact Hs]).
Qed.

Lemma jmems_head src m ks : jmems src m ks -> exists sp0 r, cstoks ks = (TString, sp0) :: r.
Proof. intros H. destruct H; cbn; eexists; eexists; reflexivity. Qed.

(* ---------- primitives ---------- *)
Definition opened (s : pst) : pst := ext s [NRule RError 0] 0 (S (p_nlen s)) (p_rest s) (p_cool s).

Lemma cst_open_eq s : cst_open s = (p_nlen s, opened s).
Proof.
  unfold cst_open, opened, push_node. f_equal. apply pst_eq; cbn; try reflexivity; lia.
Qed.

Lemma opened_tcount s : p_tcount (opened s) = p_tcount s.
Proof. cbn. lia. Qed.

Lemma skip_loop_eq : forall w s rest, wsf w -> sigh rest ->
  skip_loop (cstoks w ++ rest) s = fres s w (p_nonskip s) rest (p_cool s).
Proof.
  induction w as [|k w IH]; intros s rest Hw Hr.
  - cbn [cstoks flat_map app]. destruct rest as [|[t sp] r]; cbn [skip_loop].
    + apply pst_eq; cbn; try reflexivity; lia.
    + cbn in Hr. rewrite Hr. apply pst_eq; cbn; try reflexivity; lia.
  - inversion Hw as [|? ? Hk Hw']; subst. destruct k as [t sp|r ks]; [|discriminate Hk].
    assert (Hs : is_skipped t = true) by (destruct t; try discriminate Hk; reflexivity).
    rewrite cstoks_cons. cbn [ctoks app skip_loop]. rewrite Hs, (IH _ rest Hw' Hr).
    apply pst_eq; cbn; try reflexivity.
    + rewrite <- app_assoc. cbn. replace (p_tcount s + 1) with (S (p_tcount s)) by lia. reflexivity.
    + rewrite !cflats_length. lia.
    + unfold cstoks. lia.
Qed.

Lemma padvance_eq s t sp w rest : p_rest s = (t, sp) :: cstoks w ++ rest -> wsf w -> sigh rest ->
  padvance false s = fres s (CT t sp :: w) (S (p_nlen s)) rest false.
Proof.
  intros Hr Hw Hs. unfold padvance. unfold cur. cbn [with_cool p_rest]. rewrite Hr.
  cbn [cst_advance push_node p_rest with_cool]. rewrite Hr. cbn [tl].
  rewrite (skip_loop_eq w _ rest Hw Hs). apply pst_eq; cbn; try reflexivity.
  - rewrite <- app_assoc. cbn. replace (p_tcount s + 1) with (S (p_tcount s)) by lia. reflexivity.
  - rewrite !cflats_length. lia.
  - unfold cstoks. lia.
Qed.

Lemma expect_eq s t sp w rest : p_rest s = (t, sp) :: cstoks w ++ rest -> wsf w -> sigh rest ->
  expect t s = fres s (CT t sp :: w) (S (p_nlen s)) rest false.
Proof.
  intros Hr Hw Hs. unfold expect. unfold cur at 1. rewrite Hr.
  replace (tok_eqb t t) with true by (destruct t; reflexivity).
  apply (padvance_eq s t sp w rest Hr Hw Hs).
Qed.

Lemma set_nth_app {A} (a : list A) x v b : set_nth (length a) v (a ++ x :: b) = Some (a ++ v :: b).
Proof. induction a as [|y a IH]; cbn; [reflexivity|]. rewrite IH. reflexivity. Qed.

Lemma set_node_eq s0 x ns k nsk rest cool v nsk' :
  set_node (p_nlen s0) v nsk' (ext s0 (x :: ns) k nsk rest cool) = ext s0 (v :: ns) k nsk' rest cool.
Proof.
  unfold set_node. cbn [p_nlen ext length].
  replace (Nat.ltb (p_nlen s0) (p_nlen s0 + S (length ns))) with true by (symmetry; apply Nat.ltb_lt; lia).
  replace (p_nlen s0 + S (length ns) - 1 - p_nlen s0) with (length (rev ns)) by (rewrite rev_length; lia).
  cbn [p_nodes ext rev]. rewrite <- app_assoc. cbn [app]. rewrite set_nth_app.
  apply pst_eq; cbn; try reflexivity. rewrite <- app_assoc. reflexivity.
Qed.

(* closing a rule whose children are the forest ks, followed by the skipped tokens w *)
Lemma close_frame s r ks w nsk rest cool :
  nsk = p_nlen s + 1 + fsize ks ->
  cst_close (p_nlen s) r (fres (opened s) (ks ++ w) nsk rest cool)
  = fres s (CR r ks :: w) (p_nlen s + csize (CR r ks)) rest cool.
Proof.
  intros ->. unfold cst_close. cbn [p_nonskip fres ext].
  replace (Nat.ltb (p_nlen s + 1 + fsize ks - 1) (p_nlen s)) with false by (symmetry; apply Nat.ltb_ge; lia).
  unfold fres, opened. rewrite ext_ext. cbn [app]. rewrite set_node_eq.
  apply pst_eq; cbn [p_nodes p_nlen p_tcount p_nonskip p_rest p_cool p_last p_diags p_max p_bad ext]; try reflexivity.
  - cbn [cflats]. rewrite cflat_CR, cflats_app. cbn [ctoks]. fold (cstoks ks).
    replace (p_tcount s + 0) with (p_tcount s) by lia.
    replace (p_nlen s + 1 + fsize ks - 1 - p_nlen s) with (fsize ks) by lia. reflexivity.
  - cbn [cflats]. rewrite cflat_CR, cflats_app. cbn [length]. rewrite !app_length. cbn [length].
    replace (p_tcount s + 0) with (p_tcount s) by lia. cbn [ctoks]. fold (cstoks ks). lia.
  - rewrite cstoks_app, cstoks_cons, app_length. cbn [ctoks]. fold (cstoks ks). rewrite app_length. lia.
  - cbn [csize]. fold (fsize ks). lia.
Qed.

Lemma cur_rest_eq s t sp r : p_rest s = (t, sp) :: r -> cur s = t.
Proof. unfold cur. intros ->. reflexivity. Qed.

(* ---------- literals ---------- *)
Lemma literal_eq s t sp w rest :
  (t = TNull \/ t = TNumber \/ t = TString) ->
  p_rest s = (t, sp) :: cstoks w ++ rest -> wsf w -> sigh rest ->
  rule_literal s = fres s (CR RLiteral [CT t sp] :: w) (p_nlen s + 2) rest false.
Proof.
  intros Ht Hr Hw Hs. unfold rule_literal. rewrite cst_open_eq.
  assert (Hr1 : p_rest (opened s) = (t, sp) :: cstoks w ++ rest) by exact Hr.
  rewrite (cur_rest_eq _ _ _ _ Hr1).
  assert (E : (match t with
               | TString => expect TString (opened s) | TNumber => expect TNumber (opened s)
               | TFalse | TTrue => rule_boolean (opened s) | TNull => expect TNull (opened s)
               | _ => perror (opened s) end) = expect t (opened s))
    by (destruct Ht as [->|[->| ->]]; reflexivity).
  rewrite E, (expect_eq _ t sp w rest Hr1 Hw Hs).
  change (CT t sp :: w) with ([CT t sp] ++ w). rewrite close_frame; [reflexivity|].
  cbn. lia.
Qed.

Lemma boolean_eq s t sp w rest : (t = TTrue \/ t = TFalse) ->
  p_rest s = (t, sp) :: cstoks w ++ rest -> wsf w -> sigh rest ->
  rule_boolean s = fres s (CR RBoolean [CT t sp] :: w) (p_nlen s + 2) rest false.
Proof.
  intros Ht Hr Hw Hs. unfold rule_boolean. rewrite cst_open_eq.
  assert (Hr1 : p_rest (opened s) = (t, sp) :: cstoks w ++ rest) by exact Hr.
  rewrite (cur_rest_eq _ _ _ _ Hr1).
  assert (E : (match t with
               | TFalse => expect TFalse (opened s) | TTrue => expect TTrue (opened s)
               | _ => perror (opened s) end) = expect t (opened s))
    by (destruct Ht as [->| ->]; reflexivity).
  rewrite E, (expect_eq _ t sp w rest Hr1 Hw Hs).
  change (CT t sp :: w) with ([CT t sp] ++ w). rewrite close_frame; [reflexivity|].
  cbn. lia.
Qed.

Lemma literal_bool_eq s t sp w rest : (t = TTrue \/ t = TFalse) ->
  p_rest s = (t, sp) :: cstoks w ++ rest -> wsf w -> sigh rest ->
  rule_literal s = fres s (CR RLiteral [CR RBoolean [CT t sp]] :: w) (p_nlen s + 3) rest false.
Proof.
  intros Ht Hr Hw Hs. unfold rule_literal. rewrite cst_open_eq.
  assert (Hr1 : p_rest (opened s) = (t, sp) :: cstoks w ++ rest) by exact Hr.
  rewrite (cur_rest_eq _ _ _ _ Hr1).
  assert (E : (match t with
               | TString => expect TString (opened s) | TNumber => expect TNumber (opened s)
               | TFalse | TTrue => rule_boolean (opened s) | TNull => expect TNull (opened s)
               | _ => perror (opened s) end) = rule_boolean (opened s))
    by (destruct Ht as [->| ->]; reflexivity).
  rewrite E, (boolean_eq _ t sp w rest Ht Hr1 Hw Hs).
  change (CR RBoolean [CT t sp] :: w) with ([CR RBoolean [CT t sp]] ++ w).
  rewrite close_frame; [reflexivity|]. cbn. lia.
Qed.

Lemma vstart_match {A} t (a b c : A) : vstart t = true ->
  match t with
  | TFalse | TLBrace | TLBrak | TNull | TNumber | TString | TTrue => a
  | TRBrak => b
  | _ => c
  end = a.
Proof. destruct t; try discriminate; reflexivity. Qed.

(* ---------- values ---------- *)
Definition PV (d : json) (t : ct) : Prop :=
  forall s w rest fuel, wsf w -> sigh rest -> p_rest s = ctoks t ++ cstoks w ++ rest ->
    length (ctoks t) <= fuel ->
    rule_value fuel s = Some (fres s (t :: w) (p_nlen s + csize t) rest false).

Definition PE (l : list json) (ks : list ct) : Prop :=
  forall s sp rest fuel, p_rest s = cstoks ks ++ (TRBrak, sp) :: rest -> length (cstoks ks) <= fuel ->
    exists nsk, obind_opt (rule_value fuel s) (array_loop fuel)
                = Some (fres s ks nsk ((TRBrak, sp) :: rest) false).

Definition PM (m : list (key * json)) (ks : list ct) : Prop :=
  forall s sp rest fuel, p_rest s = cstoks ks ++ (TRBrace, sp) :: rest -> length (cstoks ks) <= fuel ->
    exists nsk, obind_opt (rule_member fuel s) (object_loop fuel)
                = Some (fres s ks nsk ((TRBrace, sp) :: rest) false).

Ltac lens := unfold member_ct in *;
             repeat (rewrite app_length in * || rewrite cstoks_cons in * || rewrite cstoks_app in *
                     || rewrite ctoks_CR in * );
             cbn [length ctoks] in *; change (length (cstoks [])) with 0 in *.

Lemma leaf_value s t0 sp w rest fuel T :
  rule_literal s = fres s (T :: w) (p_nlen s + csize T) rest false ->
  p_rest s = (t0, sp) :: cstoks w ++ rest ->
  (t0 = TFalse \/ t0 = TNull \/ t0 = TNumber \/ t0 = TString \/ t0 = TTrue) -> 1 <= fuel ->
  rule_value fuel s = Some (fres s (T :: w) (p_nlen s + csize T) rest false).
Proof.
  intros E Hr Ht Hf. destruct fuel as [|f]; [lia|]. cbn [rule_value].
  rewrite (cur_rest_eq _ _ _ _ Hr). rewrite <- E.
  destruct Ht as [->|[->|[->|[->| ->]]]]; reflexivity.
Qed.

Ltac tnorm := unfold member_ct;
  repeat (rewrite cstoks_cons || rewrite cstoks_app || rewrite ctoks_CR);
  cbn [ctoks]; change (cstoks []) with (@nil (tok * span)); rewrite ?app_nil_r;
  repeat ((rewrite <- app_assoc) || (progress (cbn [app]))); reflexivity.

(* the common frame of arrays and objects, empty *)
Lemma bracket_empty s (ot ct_ : tok) rl sp1 w sp2 w0 rest :
  p_rest s = (ot, sp1) :: cstoks w ++ (ct_, sp2) :: cstoks w0 ++ rest ->
  wsf w -> wsf w0 -> sigh rest -> is_skipped ct_ = false ->
  cst_close (p_nlen s) rl (expect ct_ (expect ot (opened s)))
  = fres s (CR rl (CT ot sp1 :: w ++ [CT ct_ sp2]) :: w0)
      (p_nlen s + csize (CR rl (CT ot sp1 :: w ++ [CT ct_ sp2]))) rest false.
Proof.
  intros Hr Hw Hw0 Hs Hc.
  rewrite (expect_eq (opened s) ot sp1 w ((ct_, sp2) :: cstoks w0 ++ rest) Hr Hw Hc).
  rewrite (expect_eq _ ct_ sp2 w0 rest (fres_rest _ _ _ _ _) Hw0 Hs).
  rewrite fres_fres.
  rewrite (fres_eq _ _ ((CT ot sp1 :: w ++ [CT ct_ sp2]) ++ w0) _ (p_nlen s + 1 + fsize (CT ot sp1 :: w ++ [CT ct_ sp2])) _ _).
  - apply close_frame. reflexivity.
  - cbn [app]. rewrite <- app_assoc. reflexivity.
  - rewrite fres_nlen. cbn [p_nlen opened ext length]. rewrite !fsize_cons, fsize_app, fsize_cons. cbn [csize]. change (fsize []) with 0. lia.
Qed.

(* ..., non-empty: body is the state after the elements / members *)
Lemma bracket_body s (ot ct_ : tok) rl sp1 w ks nsk sp2 w0 rest :
  wsf w0 -> sigh rest ->
  cst_close (p_nlen s) rl
    (expect ct_ (fres (fres (opened s) (CT ot sp1 :: w) (S (p_nlen (opened s))) (cstoks ks ++ (ct_, sp2) :: cstoks w0 ++ rest) false)
                   ks nsk ((ct_, sp2) :: cstoks w0 ++ rest) false))
  = fres s (CR rl (CT ot sp1 :: w ++ ks ++ [CT ct_ sp2]) :: w0)
      (p_nlen s + csize (CR rl (CT ot sp1 :: w ++ ks ++ [CT ct_ sp2]))) rest false.
Proof.
  intros Hw0 Hs.
  rewrite (expect_eq _ ct_ sp2 w0 rest (fres_rest _ _ _ _ _) Hw0 Hs).
  rewrite !fres_fres.
  rewrite (fres_eq _ _ ((CT ot sp1 :: w ++ ks ++ [CT ct_ sp2]) ++ w0) _ (p_nlen s + 1 + fsize (CT ot sp1 :: w ++ ks ++ [CT ct_ sp2])) _ _).
  - apply close_frame. reflexivity.
  - cbn [app]. rewrite <- !app_assoc. reflexivity.
  - rewrite !fres_nlen. cbn [p_nlen opened ext length]. rewrite !fsize_cons, !fsize_app, !fsize_cons. cbn [csize]. change (fsize []) with 0. lia.
Qed.

Lemma sigh_head t0 sp0 r : vstart t0 = true -> sigh ((t0, sp0) :: r).
Proof. intros H. cbn. apply vstart_sig. exact H. Qed.

Lemma parse_all src :
  (forall d t, jv src d t -> PV d t) /\ (forall l ks, jels src l ks -> PE l ks)
  /\ (forall m ks, jmems src m ks -> PM m ks).
Proof.
  apply jv_mutind.
  - (* null *) intros sp s w rest fuel Hw Hs Hr Hf. cbn [ctoks flat_map app] in Hr, Hf.
    apply (leaf_value s TNull sp); [|exact Hr|auto|exact Hf].
    rewrite (literal_eq s TNull sp w rest); auto.
  - intros sp s w rest fuel Hw Hs Hr Hf. cbn [ctoks flat_map app] in Hr, Hf.
    apply (leaf_value s TTrue sp); [|exact Hr|auto 6|exact Hf].
    rewrite (literal_bool_eq s TTrue sp w rest); auto.
  - intros sp s w rest fuel Hw Hs Hr Hf. cbn [ctoks flat_map app] in Hr, Hf.
    apply (leaf_value s TFalse sp); [|exact Hr|auto|exact Hf].
    rewrite (literal_bool_eq s TFalse sp w rest); auto.
  - intros sp s w rest fuel Hw Hs Hr Hf. cbn [ctoks flat_map app] in Hr, Hf.
    apply (leaf_value s TNumber sp); [|exact Hr|auto|exact Hf].
    rewrite (literal_eq s TNumber sp w rest); auto.
  - intros sp s w rest fuel Hw Hs Hr Hf. cbn [ctoks flat_map app] in Hr, Hf.
    apply (leaf_value s TString sp); [|exact Hr|auto 6|exact Hf].
    rewrite (literal_eq s TString sp w rest); auto.
  - (* [ ] *)
    intros sp1 w sp2 Hw s w0 rest fuel Hw0 Hs Hr Hf.
    assert (Hr' : p_rest s = (TLBrak, sp1) :: cstoks w ++ (TRBrak, sp2) :: cstoks w0 ++ rest).
    { rewrite Hr, ctoks_CR, cstoks_cons, cstoks_app. cbn [ctoks cstoks flat_map app]. rewrite <- !app_assoc. reflexivity. }
    destruct fuel as [|[|f]]; try (exfalso; rewrite ctoks_CR in Hf; lens; lia).
    cbn [rule_value]. rewrite (cur_rest_eq _ _ _ _ Hr'). cbn [rule_array]. rewrite cst_open_eq.
    rewrite (expect_eq (opened s) TLBrak sp1 w ((TRBrak, sp2) :: cstoks w0 ++ rest) Hr' Hw eq_refl).
    rewrite (cur_rest_eq _ TRBrak sp2 _ (fres_rest _ _ _ _ _)). cbn [obind_opt].
    rewrite <- (expect_eq (opened s) TLBrak sp1 w ((TRBrak, sp2) :: cstoks w0 ++ rest) Hr' Hw eq_refl).
    f_equal. apply (bracket_empty s TLBrak TRBrak RArray sp1 w sp2 w0 rest Hr' Hw Hw0 Hs eq_refl).
  - (* [ elements ] *)
    intros sp1 w l ks sp2 Hw Hks IH s w0 rest fuel Hw0 Hs Hr Hf.
    assert (Hr' : p_rest s = (TLBrak, sp1) :: cstoks w ++ cstoks ks ++ (TRBrak, sp2) :: cstoks w0 ++ rest).
    { rewrite Hr, ctoks_CR, cstoks_cons, !cstoks_app. cbn [ctoks cstoks flat_map app]. rewrite <- !app_assoc. reflexivity. }
    destruct (jels_head _ _ _ Hks) as [t0 [sp0 [r [E0 Hv0]]]].
    assert (Hsig : sigh (cstoks ks ++ (TRBrak, sp2) :: cstoks w0 ++ rest)) by (rewrite E0; apply sigh_head; exact Hv0).
    destruct fuel as [|[|f]]; try (exfalso; rewrite ctoks_CR in Hf; lens; lia).
    cbn [rule_value]. rewrite (cur_rest_eq _ _ _ _ Hr'). cbn [rule_array]. rewrite cst_open_eq.
    rewrite (expect_eq (opened s) TLBrak sp1 w _ Hr' Hw Hsig).
    assert (Hc : cur (fres (opened s) (CT TLBrak sp1 :: w) (S (p_nlen (opened s)))
                        (cstoks ks ++ (TRBrak, sp2) :: cstoks w0 ++ rest) false) = t0).
    { unfold cur. cbn [p_rest fres ext]. rewrite E0. reflexivity. }
    rewrite Hc, (vstart_match t0 _ _ _ Hv0).
    match goal with |- context [rule_value f ?S] =>
      destruct (IH S sp2 (cstoks w0 ++ rest) f (fres_rest _ _ _ _ _)) as [nsk E] end.
    { rewrite ctoks_CR in Hf. lens. lia. }
    rewrite E. cbn [obind_opt]. f_equal. apply bracket_body; assumption.
  - (* { } *)
    intros sp1 w sp2 Hw s w0 rest fuel Hw0 Hs Hr Hf.
    assert (Hr' : p_rest s = (TLBrace, sp1) :: cstoks w ++ (TRBrace, sp2) :: cstoks w0 ++ rest).
    { rewrite Hr, ctoks_CR, cstoks_cons, cstoks_app. cbn [ctoks cstoks flat_map app]. rewrite <- !app_assoc. reflexivity. }
    destruct fuel as [|[|f]]; try (exfalso; rewrite ctoks_CR in Hf; lens; lia).
    cbn [rule_value]. rewrite (cur_rest_eq _ _ _ _ Hr'). cbn [rule_object]. rewrite cst_open_eq.
    rewrite (expect_eq (opened s) TLBrace sp1 w ((TRBrace, sp2) :: cstoks w0 ++ rest) Hr' Hw eq_refl).
    rewrite (cur_rest_eq _ TRBrace sp2 _ (fres_rest _ _ _ _ _)). cbn [obind_opt].
    rewrite <- (expect_eq (opened s) TLBrace sp1 w ((TRBrace, sp2) :: cstoks w0 ++ rest) Hr' Hw eq_refl).
    f_equal. apply (bracket_empty s TLBrace TRBrace RObject sp1 w sp2 w0 rest Hr' Hw Hw0 Hs eq_refl).
  - (* { members } *)
    intros sp1 w m ks sp2 Hw Hks IH s w0 rest fuel Hw0 Hs Hr Hf.
    assert (Hr' : p_rest s = (TLBrace, sp1) :: cstoks w ++ cstoks ks ++ (TRBrace, sp2) :: cstoks w0 ++ rest).
    { rewrite Hr, ctoks_CR, cstoks_cons, !cstoks_app. cbn [ctoks cstoks flat_map app]. rewrite <- !app_assoc. reflexivity. }
    destruct (jmems_head _ _ _ Hks) as [sp0 [r E0]].
    assert (Hsig : sigh (cstoks ks ++ (TRBrace, sp2) :: cstoks w0 ++ rest)) by (rewrite E0; reflexivity).
    destruct fuel as [|[|f]]; try (exfalso; rewrite ctoks_CR in Hf; lens; lia).
    cbn [rule_value]. rewrite (cur_rest_eq _ _ _ _ Hr'). cbn [rule_object]. rewrite cst_open_eq.
    rewrite (expect_eq (opened s) TLBrace sp1 w _ Hr' Hw Hsig).
    assert (Hc : cur (fres (opened s) (CT TLBrace sp1 :: w) (S (p_nlen (opened s)))
                        (cstoks ks ++ (TRBrace, sp2) :: cstoks w0 ++ rest) false) = TString).
    { unfold cur. cbn [p_rest fres ext]. rewrite E0. reflexivity. }
    rewrite Hc.
    match goal with |- context [rule_member f ?S] =>
      destruct (IH S sp2 (cstoks w0 ++ rest) f (fres_rest _ _ _ _ _)) as [nsk E] end.
    { rewrite ctoks_CR in Hf. lens. lia. }
    rewrite E. cbn [obind_opt]. f_equal. apply bracket_body; assumption.
  - (* one element *)
    intros d v w Hv IHv Hw s sp rest fuel Hr Hf.
    rewrite cstoks_cons, <- app_assoc in Hr.
    rewrite (IHv s w ((TRBrak, sp) :: rest) fuel Hw eq_refl Hr) by (lens; lia).
    cbn [obind_opt]. destruct fuel as [|f]; [exfalso; destruct (jv_head _ _ _ Hv) as [? [? [? [E _]]]]; lens; rewrite E in Hf; cbn in Hf; lia|].
    cbn [array_loop]. rewrite (cur_rest_eq _ TRBrak sp rest (fres_rest _ _ _ _ _)).
    eexists. reflexivity.
  - (* element , elements *)
    intros d v w sp w' l ks Hv IHv Hw Hw' Hks IHks s sp2 rest fuel Hr Hf.
    assert (Hr' : p_rest s = ctoks v ++ cstoks w ++ (TComma, sp) :: cstoks w' ++ cstoks ks ++ (TRBrak, sp2) :: rest).
    { rewrite Hr, cstoks_cons, cstoks_app, cstoks_cons, cstoks_app. cbn [ctoks]. rewrite <- !app_assoc. reflexivity. }
    rewrite (IHv s w ((TComma, sp) :: cstoks w' ++ cstoks ks ++ (TRBrak, sp2) :: rest) fuel Hw eq_refl Hr') by (lens; lia). cbn [obind_opt].
    destruct fuel as [|f]; [exfalso; lens; lia|]. cbn [array_loop].
    rewrite (cur_rest_eq _ TComma sp _ (fres_rest _ _ _ _ _)).
    destruct (jels_head _ _ _ Hks) as [t0 [sp0 [r [E0 Hv0]]]].
    assert (Hsig : sigh (cstoks ks ++ (TRBrak, sp2) :: rest)) by (rewrite E0; apply sigh_head; exact Hv0).
    rewrite (expect_eq _ TComma sp w' _ (fres_rest _ _ _ _ _) Hw' Hsig).
    match goal with |- context [rule_value f ?S] =>
      destruct (IHks S sp2 rest f (fres_rest _ _ _ _ _)) as [nsk E]; [lens; lia|] end.
    rewrite E. eexists. f_equal. rewrite !fres_fres. apply fres_eq; [|reflexivity].
    cbn [app]. rewrite <- ?app_assoc. reflexivity.
  - (* one member *)
    intros k d spk w1 spc w2 v w Hk Hw1 Hw2 Hv IHv Hw s sp rest fuel Hr Hf.
    assert (Hr' : p_rest s = (TString, spk) :: cstoks w1 ++ (TColon, spc) :: cstoks w2 ++ ctoks v ++ cstoks w ++ (TRBrace, sp) :: rest).
    { rewrite Hr. tnorm. }
    destruct (jv_head _ _ _ Hv) as [t0 [sp0 [r [E0 Hv0]]]].
    destruct fuel as [|f]; [exfalso; unfold member_ct in Hf; lens; lia|].
    cbn [rule_member]. rewrite cst_open_eq.
    rewrite (expect_eq (opened s) TString spk w1 _ Hr' Hw1 eq_refl).
    assert (Hsig : sigh (ctoks v ++ cstoks w ++ (TRBrace, sp) :: rest)) by (rewrite E0; apply sigh_head; exact Hv0).
    rewrite (expect_eq _ TColon spc w2 _ (fres_rest _ _ _ _ _) Hw2 Hsig).
    rewrite (IHv _ w ((TRBrace, sp) :: rest) f Hw eq_refl (fres_rest _ _ _ _ _))
      by (unfold member_ct in Hf; rewrite cstoks_cons, ctoks_CR in Hf; lens; lia).
    cbn [obind_opt object_loop].
    rewrite !fres_fres.
    rewrite (fres_eq _ _ ((CT TString spk :: w1 ++ CT TColon spc :: w2 ++ [v]) ++ w) _
               (p_nlen s + 1 + fsize (CT TString spk :: w1 ++ CT TColon spc :: w2 ++ [v])) _ _).
    + rewrite close_frame by reflexivity.
      rewrite (cur_rest_eq _ TRBrace sp rest (fres_rest _ _ _ _ _)). eexists. reflexivity.
    + cbn [app]. rewrite <- !app_assoc. cbn [app]. rewrite <- !app_assoc. reflexivity.
    + rewrite !fres_nlen. cbn [p_nlen opened ext length].
      rewrite !fsize_cons, !fsize_app, !fsize_cons, !fsize_app, !fsize_cons. cbn [csize]. change (fsize []) with 0. lia.
  - (* member , members *)
    intros k d spk w1 spc w2 v w sp w' m ks Hk Hw1 Hw2 Hv IHv Hw Hw' Hks IHks s sp2 rest fuel Hr Hf.
    assert (Hr' : p_rest s = (TString, spk) :: cstoks w1 ++ (TColon, spc) :: cstoks w2 ++ ctoks v ++ cstoks w
                            ++ (TComma, sp) :: cstoks w' ++ cstoks ks ++ (TRBrace, sp2) :: rest).
    { rewrite Hr. tnorm. }
    destruct (jv_head _ _ _ Hv) as [t0 [sp0 [r [E0 Hv0]]]].
    destruct fuel as [|f]; [exfalso; unfold member_ct in Hf; lens; lia|].
    cbn [rule_member]. rewrite cst_open_eq.
    rewrite (expect_eq (opened s) TString spk w1 _ Hr' Hw1 eq_refl).
    assert (Hsig : sigh (ctoks v ++ cstoks w ++ (TComma, sp) :: cstoks w' ++ cstoks ks ++ (TRBrace, sp2) :: rest))
      by (rewrite E0; apply sigh_head; exact Hv0).
    rewrite (expect_eq _ TColon spc w2 _ (fres_rest _ _ _ _ _) Hw2 Hsig).
    rewrite (IHv _ w ((TComma, sp) :: cstoks w' ++ cstoks ks ++ (TRBrace, sp2) :: rest) f Hw eq_refl (fres_rest _ _ _ _ _))
      by (unfold member_ct in Hf; rewrite cstoks_cons, ctoks_CR in Hf; lens; lia).
    cbn [obind_opt].
    rewrite !fres_fres.
    rewrite (fres_eq _ _ ((CT TString spk :: w1 ++ CT TColon spc :: w2 ++ [v]) ++ w) _
               (p_nlen s + 1 + fsize (CT TString spk :: w1 ++ CT TColon spc :: w2 ++ [v])) _ _).
    + rewrite close_frame by reflexivity.
      cbn [object_loop].
      rewrite (cur_rest_eq _ TComma sp _ (fres_rest _ _ _ _ _)).
      destruct (jmems_head _ _ _ Hks) as [sp0' [r' E0']].
      assert (Hsig' : sigh (cstoks ks ++ (TRBrace, sp2) :: rest)) by (rewrite E0'; reflexivity).
      rewrite (expect_eq _ TComma sp w' _ (fres_rest _ _ _ _ _) Hw' Hsig').
      match goal with |- context [rule_member f ?S] =>
        destruct (IHks S sp2 rest f (fres_rest _ _ _ _ _)) as [nsk E] end.
      { unfold member_ct in Hf; rewrite cstoks_cons, ctoks_CR in Hf; lens; lia. }
      rewrite E. eexists. f_equal. rewrite !fres_fres. apply fres_eq; [|reflexivity].
      cbn [app]. rewrite <- ?app_assoc. reflexivity.
    + cbn [app]. rewrite <- !app_assoc. cbn [app]. rewrite <- !app_assoc. reflexivity.
    + rewrite !fres_nlen. cbn [p_nlen opened ext length].
      rewrite !fsize_cons, !fsize_app, !fsize_cons, !fsize_app, !fsize_cons. cbn [csize]. change (fsize []) with 0. lia.
Qed.

(* ---------- the file rule and the result ---------- *)
Theorem parse_complete src d t mx ld : jfile src d t ->
  pr_status (parse_tokens (ctoks t) mx ld) = POk /\
  pr_diags (parse_tokens (ctoks t) mx ld) = ld /\
  c_nodes (pr_cst (parse_tokens (ctoks t) mx ld)) = cflat 0 t /\
  c_spans (pr_cst (parse_tokens (ctoks t) mx ld)) = map snd (ctoks t).
Proof.
  intros H. destruct H as [d w1 v w2 Hw1 Hv Hw2].
  set (toks := ctoks (CR RFile (w1 ++ v :: w2))).
  assert (Et : toks = cstoks w1 ++ ctoks v ++ cstoks w2 ++ []).
  { unfold toks. rewrite ctoks_CR, cstoks_app, cstoks_cons, app_nil_r. reflexivity. }
  destruct (jv_head _ _ _ Hv) as [t0 [sp0 [r [E0 Hv0]]]].
  assert (Hsig : sigh (ctoks v ++ cstoks w2 ++ [])) by (rewrite E0; apply sigh_head; exact Hv0).
  destruct (parse_all src) as [HV _]. specialize (HV d v Hv).
  set (s0 := init_pst toks mx).
  assert (Hfile : rule_file (parse_fuel toks) s0
                  = Some (ext s0 (NRule RFile (fsize (w1 ++ v :: w2)) :: cflats 0 (w1 ++ v :: w2))
                            (length (cstoks (w1 ++ v :: w2))) (S (fsize w1) + csize v) [] false)).
  { unfold rule_file. rewrite cst_open_eq. unfold init_skip.
    assert (Hr0 : p_rest (opened s0) = cstoks w1 ++ ctoks v ++ cstoks w2 ++ []) by exact Et.
    rewrite Hr0, (skip_loop_eq w1 (opened s0) _ Hw1 Hsig).
    rewrite (HV _ w2 [] (parse_fuel toks) Hw2 I (fres_rest _ _ _ _ _)).
    2:{ unfold parse_fuel. rewrite Et, !app_length. lia. }
    cbn [obind_opt]. rewrite (fres_fres (opened s0)).
    unfold cur. cbn [p_rest fres ext]. f_equal.
    unfold cst_close_root, fres, opened. rewrite ext_ext. cbn [app].
    change 0 with (p_nlen s0) at 1. rewrite set_node_eq.
    apply pst_eq; cbn [p_nodes p_nlen p_tcount p_nonskip p_rest p_cool p_last p_diags p_max p_bad ext]; try reflexivity.
    - cbn [length]. rewrite cflats_length. change (p_tcount s0 + 0) with 0.
      replace (p_nlen s0 + S (fsize (w1 ++ v :: w2)) - 1 - p_nlen s0) with (fsize (w1 ++ v :: w2)) by lia.
      reflexivity.
    - rewrite cflats_length. cbn [length]. change (p_nlen s0) with 0. lia. }
  unfold parse_tokens. fold toks. fold s0. rewrite Hfile.
  cbn [pr_status pr_diags pr_cst c_nodes c_spans p_bad p_diags p_nodes ext s0 init_pst rev].
  repeat split.
  - apply app_nil_r.
  - rewrite app_nil_r, rev_app_distr, rev_involutive, cflat_CR. reflexivity.
Qed.
