(* TextParser.v — invariants of the parser model: no index of the Rust code is ever out of
   range (status PPanic impossible), the fuel [parse_fuel] always suffices (PFuel
   impossible), and the resulting flat CST is well-formed:
   every rule node's offset stays inside the vector, token nodes carry increasing indices
   into the token list and the kind recorded in a token node is the kind of that token. *)
From Coq Require Import List Bool Arith NArith Lia.
Import ListNotations.
From JS Require Import Model.Base Model.Lexer Model.Parser.

Definition L (s : pst) : nat := length (p_rest s).

(* the invariant, with the logical remainder of the token list as a parameter (inside
   Parser::advance the field p_rest lags behind the tokens already pushed) *)
Section Inv.
Variable mx : N.      (* max_offset = source.len() *)

(* a diagnostic's range is a token's span or the end of the input *)
Definition diag_span_ok (toks : list (tok * span)) (d : diag) : Prop :=
  In (snd d) (map snd toks) \/ snd d = (mx, mx).

Record pinvr (toks : list (tok * span)) (s : pst) (rest : list (tok * span)) : Prop := {
  pi_bad : p_bad s = false;
  pi_len : p_nlen s = length (p_nodes s);
  pi_ns : p_nonskip s <= p_nlen s;
  pi_r1 : forall j r off, nth_error (p_nodes s) j = Some (NRule r off) -> off <= j;
  pi_r2 : forall j t i, nth_error (p_nodes s) j = Some (NTok t i) ->
          i < p_tcount s /\ exists sp, nth_error toks i = Some (t, sp);
  pi_r3 : forall j j' t i t' i', j < j' -> nth_error (p_nodes s) j = Some (NTok t i) ->
          nth_error (p_nodes s) j' = Some (NTok t' i') -> i' < i;
  pi_rest : rest = skipn (p_tcount s) toks;
  pi_dg : Forall (diag_span_ok toks) (p_diags s);
  pi_max : p_max s = mx
}.

Definition pinv (toks : list (tok * span)) (s : pst) : Prop := pinvr toks s (p_rest s).

Definition le_st (s s' : pst) : Prop := p_nlen s <= p_nlen s' /\ L s' <= L s.
Definition lt_st (s s' : pst) : Prop := p_nlen s <= p_nlen s' /\ L s' < L s.

Lemma le_st_refl s : le_st s s. Proof. split; lia. Qed.
Lemma le_st_trans a b c : le_st a b -> le_st b c -> le_st a c.
Proof. intros [? ?] [? ?]. split; lia. Qed.
Lemma lt_le_trans a b c : lt_st a b -> le_st b c -> lt_st a c.
Proof. intros [? ?] [? ?]. split; lia. Qed.
Lemma le_lt_trans a b c : le_st a b -> lt_st b c -> lt_st a c.
Proof. intros [? ?] [? ?]. split; lia. Qed.
Lemma lt_le a b : lt_st a b -> le_st a b.
Proof. intros [? ?]. split; lia. Qed.

Lemma skipn_cons_nth {A} : forall n (l : list A) x r, skipn n l = x :: r ->
  nth_error l n = Some x /\ skipn (S n) l = r.
Proof.
  induction n as [|n IH]; intros l x r H.
  - destruct l; cbn in H; [discriminate H|]. inversion H; subst. split; reflexivity.
  - destruct l as [|y l]; cbn in H; [discriminate H|]. apply IH in H. exact H.
Qed.

(* ---------- Cst primitives ---------- *)
Lemma open_ok toks s : pinv toks s ->
  pinv toks (snd (cst_open s)) /\ fst (cst_open s) = p_nlen s /\
  p_nlen (snd (cst_open s)) = S (p_nlen s) /\ p_rest (snd (cst_open s)) = p_rest s /\
  p_cool (snd (cst_open s)) = p_cool s.
Proof.
  intros [B Ln Ns R1 R2 R3 Rs Dg Mx]. unfold cst_open, push_node. cbn [fst snd].
  repeat split; cbn; try assumption; try lia.
  - intros [|j] r off H; cbn in H; [inversion H; lia|]. apply R1 in H. lia.
  - destruct j as [|j]; cbn in H; [discriminate H|]. apply R2 in H. destruct H. lia.
  - destruct j as [|j]; cbn in H; [discriminate H|]. apply R2 in H. destruct H. assumption.
  - intros [|j] [|j'] t i t' i' Hlt H H'; cbn in H, H'; try discriminate H; try discriminate H'; try lia.
    eapply R3; [|exact H|exact H']. lia.
Qed.

Lemma advance_ok toks s t sp r skip : pinvr toks s ((t, sp) :: r) -> pinvr toks (cst_advance t skip s) r.
Proof.
  intros [B Ln Ns R1 R2 R3 Rs Dg Mx]. symmetry in Rs. apply skipn_cons_nth in Rs. destruct Rs as [Hn Hs].
  unfold cst_advance, push_node. constructor; cbn; try assumption; try lia.
  - destruct skip; lia.
  - intros [|j] r0 off H; cbn in H; [discriminate H|]. apply R1 in H. lia.
  - intros [|j] t0 i H; cbn in H.
    + inversion H; subst. split; [lia|]. exists sp. exact Hn.
    + apply R2 in H. destruct H as [H1 H2]. split; [lia|exact H2].
  - intros [|j] [|j'] t0 i t' i' Hlt H H'; cbn in H, H'; try lia.
    + inversion H; subst. apply R2 in H'. destruct H'. lia.
    + eapply R3; [|exact H|exact H']. lia.
  - symmetry. exact Hs.
Qed.

Lemma nth_error_set_nth {A} : forall (l : list A) k v l', set_nth k v l = Some l' ->
  length l' = length l /\
  forall j, nth_error l' j = if Nat.eqb j k then Some v else nth_error l j.
Proof.
  induction l as [|x r IH]; intros k v l' H; [destruct k; discriminate H|].
  destruct k as [|k]; cbn in H.
  - inversion H; subst. split; [reflexivity|]. intros [|j]; reflexivity.
  - destruct (set_nth k v r) as [r'|] eqn:E; [|discriminate]. cbn in H. inversion H; subst.
    destruct (IH _ _ _ E) as [Hl Hn]. split; [cbn; lia|]. intros [|j]; [reflexivity|]. cbn. apply Hn.
Qed.

Lemma set_nth_some {A} : forall (l : list A) k v, k < length l -> exists l', set_nth k v l = Some l'.
Proof.
  induction l as [|x r IH]; intros k v H; cbn in H; [lia|]. destruct k as [|k]; cbn.
  - eexists; reflexivity.
  - destruct (IH k v) as [l' E]; [lia|]. rewrite E. eexists; reflexivity.
Qed.

Lemma set_node_ok toks s rest i r off ns : pinvr toks s rest -> i < p_nlen s ->
  off <= p_nlen s - 1 - i -> ns <= p_nlen s ->
  pinvr toks (set_node i (NRule r off) ns s) rest /\
  p_nlen (set_node i (NRule r off) ns s) = p_nlen s /\
  p_rest (set_node i (NRule r off) ns s) = p_rest s /\
  p_cool (set_node i (NRule r off) ns s) = p_cool s /\
  p_tcount (set_node i (NRule r off) ns s) = p_tcount s.
Proof.
  intros [B Ln Ns R1 R2 R3 Rs Dg Mx] Hi Hoff Hns. unfold set_node.
  apply Nat.ltb_lt in Hi. rewrite Hi. apply Nat.ltb_lt in Hi.
  destruct (set_nth_some (p_nodes s) (p_nlen s - 1 - i) (NRule r off)) as [l' E]; [lia|].
  rewrite E. destruct (nth_error_set_nth _ _ _ _ E) as [Hl Hn].
  repeat split; cbn; try assumption; try lia.
  - intros j r0 off0 H. rewrite Hn in H. destruct (Nat.eqb j (p_nlen s - 1 - i)) eqn:Ej.
    + apply Nat.eqb_eq in Ej. inversion H; subst. lia.
    + apply R1 in H. exact H.
  - rewrite Hn in H. destruct (Nat.eqb j _); [discriminate H|]. apply R2 in H. destruct H; assumption.
  - rewrite Hn in H. destruct (Nat.eqb j _); [discriminate H|]. apply R2 in H. destruct H; assumption.
  - intros j j' t i0 t' i' Hlt H H'. rewrite Hn in H, H'.
    destruct (Nat.eqb j _); [discriminate H|]. destruct (Nat.eqb j' _); [discriminate H'|].
    eapply R3; eassumption.
Qed.

Lemma close_ok toks s mark r : pinv toks s -> mark < p_nlen s ->
  pinv toks (cst_close mark r s) /\ p_nlen (cst_close mark r s) = p_nlen s /\
  p_rest (cst_close mark r s) = p_rest s /\ p_cool (cst_close mark r s) = p_cool s.
Proof.
  intros Hp Hm. pose proof (pi_ns _ _ _ Hp) as Ns. unfold cst_close, pinv.
  destruct (Nat.ltb (p_nonskip s - 1) mark) eqn:E.
  - apply Nat.ltb_lt in E.
    destruct (set_node_ok toks s (p_rest s) mark r 0 (p_nonskip s + (mark - (p_nonskip s - 1))) Hp Hm) as [A [B [C [D _]]]]; [lia|lia|].
    rewrite C. split; [exact A|split; [exact B|split; [reflexivity|exact D]]].
  - apply Nat.ltb_ge in E.
    destruct (set_node_ok toks s (p_rest s) mark r (p_nonskip s - 1 - mark) (p_nonskip s) Hp Hm) as [A [B [C [D _]]]]; [lia|lia|].
    rewrite C. split; [exact A|split; [exact B|split; [reflexivity|exact D]]].
Qed.

Lemma close_root_ok toks s mark r : pinv toks s -> mark < p_nlen s ->
  pinv toks (cst_close_root mark r s) /\ p_nlen (cst_close_root mark r s) = p_nlen s.
Proof.
  intros Hp Hm. pose proof (pi_ns _ _ _ Hp) as Ns. unfold cst_close_root, pinv.
  destruct (set_node_ok toks s (p_rest s) mark r (p_nlen s - 1 - mark) (p_nonskip s) Hp Hm) as [A [B [C _]]]; [lia|lia|].
  rewrite C. split; [exact A|exact B].
Qed.

(* ---------- Parser primitives ---------- *)
Lemma with_rest_ok toks s rest : pinvr toks s rest -> pinv toks (with_rest rest s).
Proof. intros [B Ln Ns R1 R2 R3 Rs Dg Mx]. constructor; cbn; assumption. Qed.

Lemma with_cool_ok toks s rest b : pinvr toks s rest -> pinvr toks (with_cool b s) rest.
Proof. intros [B Ln Ns R1 R2 R3 Rs Dg Mx]. constructor; cbn; assumption. Qed.

Lemma perror_ok toks s : pinv toks s -> pinv toks (perror s) /\ p_nlen (perror s) = p_nlen s /\ p_rest (perror s) = p_rest s.
Proof.
  intros Hp. unfold perror. destruct (p_cool s || span_eqb (p_last s) (pspan s)); [split; [exact Hp|split; reflexivity]|].
  split; [|split; reflexivity]. destruct Hp as [B Ln Ns R1 R2 R3 Rs Dg Mx]. constructor; cbn; try assumption.
  constructor; [|exact Dg]. unfold diag_span_ok, pspan. cbn [snd]. rewrite Mx.
  destruct (p_rest s) as [|[t sp] r] eqn:Er; [right; reflexivity|left].
  change sp with (snd (t, sp)). apply in_map.
  assert (X : In (t, sp) (skipn (p_tcount s) toks)) by (rewrite <- Rs; left; reflexivity).
  rewrite <- (firstn_skipn (p_tcount s) toks). apply in_or_app. right. exact X.
Qed.

Lemma skip_loop_ok toks : forall rest s, pinvr toks s rest ->
  pinv toks (skip_loop rest s) /\ p_nlen s <= p_nlen (skip_loop rest s) /\ L (skip_loop rest s) <= length rest.
Proof.
  induction rest as [|[t sp] r IH]; intros s Hp; cbn [skip_loop].
  - split; [apply with_rest_ok; exact Hp|]. unfold L. cbn. split; lia.
  - destruct (is_skipped t).
    + destruct (IH (cst_advance t true s)) as [A [B C]]; [eapply advance_ok; exact Hp|].
      split; [exact A|]. cbn in B. cbn [length]. split; lia.
    + split; [apply with_rest_ok; exact Hp|]. unfold L. cbn. split; lia.
Qed.

Lemma cur_rest s t : cur s = t -> t <> TEOF -> exists sp r, p_rest s = (t, sp) :: r.
Proof. unfold cur. destruct (p_rest s) as [|[t0 sp] r]; intros H Hn; [congruence|]. subst. eauto. Qed.

Lemma padvance_ok toks s e : pinv toks s -> cur s <> TEOF ->
  pinv toks (padvance e s) /\ lt_st s (padvance e s).
Proof.
  intros Hp Hc. remember (cur s) as t eqn:Et. destruct (cur_rest s t (eq_sym Et) Hc) as [sp [r Hr]].
  unfold padvance.
  set (s1 := if e then s else with_cool false s).
  assert (H1 : pinvr toks s1 (p_rest s) /\ p_rest s1 = p_rest s /\ p_nlen s1 = p_nlen s).
  { unfold s1. destruct e; [split; [exact Hp|split; reflexivity]|]. split; [apply with_cool_ok; exact Hp|split; reflexivity]. }
  destruct H1 as [H1 [H2 H3]].
  assert (Hc1 : cur s1 = t) by (rewrite Et; unfold cur; rewrite H2; reflexivity).
  rewrite Hc1. cbn [cst_advance].
  assert (H4 : p_rest (cst_advance t false s1) = p_rest s) by (cbn; exact H2).
  rewrite H4, Hr. cbn [tl].
  destruct (skip_loop_ok toks r (cst_advance t false s1)) as [A [B C]].
  { eapply advance_ok. rewrite Hr in H1. exact H1. }
  split; [exact A|]. split; [cbn in B; lia|]. unfold L at 2. rewrite Hr. cbn [length]. lia.
Qed.

Lemma tok_eqb_eq a b : tok_eqb a b = true <-> a = b.
Proof. split; [destruct a, b; cbn; intros; congruence|intros ->; destruct b; reflexivity]. Qed.

Lemma expect_ok toks s t : pinv toks s -> t <> TEOF ->
  pinv toks (expect t s) /\ le_st s (expect t s) /\ (cur s = t -> lt_st s (expect t s)).
Proof.
  intros Hp Ht. unfold expect. destruct (tok_eqb (cur s) t) eqn:E.
  - apply tok_eqb_eq in E. destruct (padvance_ok toks s false Hp) as [A B]; [congruence|].
    split; [exact A|]. split; [apply lt_le; exact B|intros _; exact B].
  - destruct (perror_ok toks s Hp) as [A [B C]]. split; [exact A|]. split.
    + split; [lia|unfold L; rewrite C; lia].
    + intros Hc. apply tok_eqb_eq in Hc. congruence.
Qed.

Lemma awe_ok toks s : pinv toks s -> cur s <> TEOF ->
  pinv toks (advance_with_error s) /\ lt_st s (advance_with_error s).
Proof.
  intros Hp Hc. unfold advance_with_error.
  destruct (open_ok toks s Hp) as [A [B [C [D _]]]].
  destruct (cst_open s) as [m s1]. cbn [fst snd] in *.
  destruct (perror_ok toks s1 A) as [A2 [B2 C2]].
  assert (A3 : pinv toks (with_cool true (perror s1))) by (apply with_cool_ok; exact A2).
  assert (C3 : p_rest (with_cool true (perror s1)) = p_rest s) by (cbn; congruence).
  assert (B3 : p_nlen (with_cool true (perror s1)) = S (p_nlen s)) by (cbn; congruence).
  destruct (padvance_ok toks _ true A3) as [A4 [B4 C4]].
  { unfold cur in *. rewrite C3. exact Hc. }
  destruct (close_ok toks _ m RError A4) as [A5 [B5 [C5 _]]]; [lia|].
  split; [exact A5|]. split; [lia|]. unfold L in *. rewrite C5. rewrite C3 in C4. exact C4.
Qed.

Lemma expect_le toks s t : pinv toks s -> t <> TEOF -> pinv toks (expect t s) /\ le_st s (expect t s).
Proof. intros Hp Ht. destruct (expect_ok toks s t Hp Ht) as [A [B _]]. split; assumption. Qed.

Lemma perror_le toks s : pinv toks s -> pinv toks (perror s) /\ le_st s (perror s).
Proof.
  intros Hp. destruct (perror_ok toks s Hp) as [P1 [P2 P3]]. split; [exact P1|].
  split; [lia|unfold L; rewrite P3; lia].
Qed.

Ltac leaf A :=
  first [ apply perror_le; exact A
        | apply expect_le; [exact A|discriminate] ].

Lemma rule_boolean_ok toks s : pinv toks s -> pinv toks (rule_boolean s) /\ le_st s (rule_boolean s).
Proof.
  intros Hp. unfold rule_boolean.
  destruct (open_ok toks s Hp) as [A [B [C [D _]]]]. destruct (cst_open s) as [m s1]. cbn [fst snd] in *.
  assert (X : exists s2, (match cur s1 with TFalse => expect TFalse s1 | TTrue => expect TTrue s1 | _ => perror s1 end) = s2
                         /\ pinv toks s2 /\ le_st s1 s2).
  { destruct (cur s1); eexists; (split; [reflexivity|]); leaf A. }
  destruct X as [s2 [-> [A2 [B2 C2]]]].
  destruct (close_ok toks s2 m RBoolean A2) as [A3 [B3 [C3 _]]]; [lia|].
  split; [exact A3|]. split; [lia|]. unfold L in *. rewrite C3, <- D. exact C2.
Qed.

Lemma rule_literal_ok toks s : pinv toks s -> pinv toks (rule_literal s) /\ le_st s (rule_literal s).
Proof.
  intros Hp. unfold rule_literal.
  destruct (open_ok toks s Hp) as [A [B [C [D _]]]]. destruct (cst_open s) as [m s1]. cbn [fst snd] in *.
  assert (X : exists s2, (match cur s1 with
                          | TString => expect TString s1 | TNumber => expect TNumber s1
                          | TFalse | TTrue => rule_boolean s1 | TNull => expect TNull s1
                          | _ => perror s1 end) = s2 /\ pinv toks s2 /\ le_st s1 s2).
  { destruct (cur s1); eexists; (split; [reflexivity|]); first [leaf A|apply rule_boolean_ok; exact A]. }
  destruct X as [s2 [-> [A2 [B2 C2]]]].
  destruct (close_ok toks s2 m RLiteral A2) as [A3 [B3 [C3 _]]]; [lia|].
  split; [exact A3|]. split; [lia|]. unfold L in *. rewrite C3, <- D. exact C2.
Qed.

(* ---------- the mutually recursive rule functions ---------- *)
Definition res_le (toks : list (tok * span)) (s : pst) (o : option pst) : Prop :=
  exists s', o = Some s' /\ pinv toks s' /\ le_st s s'.
Definition res_lt (toks : list (tok * span)) (s : pst) (o : option pst) : Prop :=
  exists s', o = Some s' /\ pinv toks s' /\ lt_st s s'.

Lemma res_lt_le toks s o : res_lt toks s o -> res_le toks s o.
Proof. intros [s' [E [P Q]]]. exists s'. split; [exact E|split; [exact P|apply lt_le; exact Q]]. Qed.

Lemma res_some toks s s' : pinv toks s' /\ le_st s s' -> res_le toks s (Some s').
Proof. intros [P Q]. exists s'. split; [reflexivity|split; assumption]. Qed.

Lemma res_bind toks s o g : res_le toks s o ->
  (forall s1, pinv toks s1 -> le_st s s1 -> res_le toks s1 (g s1)) -> res_le toks s (obind_opt o g).
Proof.
  intros [s1 [-> [P Q]]] H. cbn. destruct (H s1 P Q) as [s2 [E [P2 Q2]]].
  exists s2. split; [exact E|split; [exact P2|eapply le_st_trans; eassumption]].
Qed.

Lemma res_le_weaken toks s s0 o : le_st s s0 -> res_le toks s0 o -> res_le toks s o.
Proof. intros H [s' [E [P Q]]]. exists s'. split; [exact E|split; [exact P|eapply le_st_trans; eassumption]]. Qed.

Definition claims (toks : list (tok * span)) (n : nat) : Prop :=
  (forall s, pinv toks s -> 3 * L s + 2 <= n -> res_le toks s (rule_value n s)) /\
  (forall s, pinv toks s -> cur s = TLBrace -> 3 * L s + 1 <= n -> res_lt toks s (rule_object n s)) /\
  (forall s, pinv toks s -> 3 * L s + 1 <= n -> res_le toks s (object_loop n s)) /\
  (forall s, pinv toks s -> 3 * L s + 3 <= n -> res_le toks s (rule_member n s)) /\
  (forall s, pinv toks s -> cur s = TLBrak -> 3 * L s + 1 <= n -> res_lt toks s (rule_array n s)) /\
  (forall s, pinv toks s -> 3 * L s + 1 <= n -> res_le toks s (array_loop n s)).

Lemma cur_same s s' : p_rest s' = p_rest s -> cur s' = cur s.
Proof. unfold cur. intros ->. reflexivity. Qed.

Lemma L_same s s' : p_rest s' = p_rest s -> L s' = L s.
Proof. unfold L. intros ->. reflexivity. Qed.

(* the common frame of rule_object / rule_array: open, expect the bracket, body, expect the
   closing bracket, close *)
Lemma bracket_frame toks s open_t close_t rl (body : pst -> option pst) :
  pinv toks s -> cur s = open_t -> open_t <> TEOF -> close_t <> TEOF ->
  (forall s2, pinv toks s2 -> L s2 < L s -> res_le toks s2 (body s2)) ->
  res_lt toks s
    (let '(m, s1) := cst_open s in
     let s2 := expect open_t s1 in
     obind_opt (body s2) (fun s4 => Some (cst_close m rl (expect close_t s4)))).
Proof.
  intros Hp Hc Ho Hcl Hbody.
  destruct (open_ok toks s Hp) as [A [B [C [D _]]]]. destruct (cst_open s) as [m s1]. cbn [fst snd] in *.
  destruct (expect_ok toks s1 open_t A Ho) as [A2 [_ B2]].
  specialize (B2 ltac:(rewrite (cur_same s s1 D); exact Hc)). destruct B2 as [N2 L2].
  rewrite (L_same s s1 D) in L2.
  destruct (Hbody _ A2 L2) as [s4 [E4 [A4 [N4 L4]]]]. cbn zeta. rewrite E4. cbn [obind_opt].
  destruct (expect_ok toks s4 close_t A4 Hcl) as [A5 [[N5 L5] _]].
  destruct (close_ok toks _ m rl A5) as [A6 [N6 [R6 _]]]; [lia|].
  eexists. split; [reflexivity|]. split; [exact A6|]. split; [lia|].
  rewrite (L_same _ _ R6). lia.
Qed.

Lemma claims_all toks : forall n, claims toks n.
Proof.
  induction n as [|f IH].
  - unfold claims. repeat split; intros; lia.
  - destruct IH as [IHv [IHo [IHol [IHm [IHa IHal]]]]].
    assert (Hmember : forall s, pinv toks s -> 3 * L s + 3 <= S f -> res_le toks s (rule_member (S f) s)).
    { intros s Hp Hn. cbn [rule_member].
      destruct (open_ok toks s Hp) as [A [B [C [D _]]]]. destruct (cst_open s) as [m s1]. cbn [fst snd] in *.
      destruct (expect_le toks s1 TString A ltac:(discriminate)) as [A2 [N2 L2]].
      destruct (expect_le toks _ TColon A2 ltac:(discriminate)) as [A3 [N3 L3]].
      rewrite (L_same s s1 D) in L2.
      destruct (IHv _ A3 ltac:(lia)) as [s4 [E4 [A4 [N4 L4]]]]. rewrite E4. cbn [obind_opt].
      destruct (close_ok toks s4 m RMember A4) as [A5 [N5 [R5 _]]]; [lia|].
      eexists. split; [reflexivity|]. split; [exact A5|]. split; [lia|]. rewrite (L_same _ _ R5). lia. }
    unfold claims. repeat split.
    + (* rule_value *)
      intros s Hp Hn. cbn [rule_value].
      destruct (cur s) eqn:Ec;
        try (apply res_some; apply perror_le; exact Hp);
        try (apply res_some; apply rule_literal_ok; exact Hp).
      * apply res_lt_le. apply IHo; [exact Hp|exact Ec|lia].
      * apply res_lt_le. apply IHa; [exact Hp|exact Ec|lia].
    + (* rule_object *)
      intros s Hp Hc Hn. cbn [rule_object].
      apply (bracket_frame toks s TLBrace TRBrace RObject
               (fun s2 => match cur s2 with
                          | TString => obind_opt (rule_member f s2) (object_loop f)
                          | TRBrace => Some s2
                          | _ => Some (perror s2)
                          end)); try assumption; try discriminate.
      intros s2 P2 L2.
      destruct (cur s2) eqn:Ec2;
        try (apply res_some; apply perror_le; exact P2);
        try (apply res_some; split; [exact P2|apply le_st_refl]).
      apply res_bind; [apply IHm; [exact P2|lia]|].
      intros s3 P3 [N3 L3]. apply IHol; [exact P3|lia].
    + (* object_loop *)
      intros s Hp Hn. cbn [object_loop].
      destruct (cur s) eqn:Ec;
        try (apply res_some; split; [exact Hp|apply le_st_refl]);
        try (destruct (awe_ok toks s Hp ltac:(rewrite Ec; discriminate)) as [A [NA LA]];
             destruct (IHol _ A ltac:(lia)) as [s3 [E3 [P3 [N3 L3]]]];
             exists s3; split; [exact E3|split; [exact P3|split; lia]]).
      destruct (expect_ok toks s TComma Hp ltac:(discriminate)) as [A [_ B]].
      destruct (B Ec) as [NA LA].
      apply (res_le_weaken toks s (expect TComma s)); [split; lia|].
      apply res_bind; [apply IHm; [exact A|lia]|].
      intros s3 P3 [N3 L3]. apply IHol; [exact P3|lia].
    + exact Hmember.
    + (* rule_array *)
      intros s Hp Hc Hn. cbn [rule_array].
      apply (bracket_frame toks s TLBrak TRBrak RArray
               (fun s2 => match cur s2 with
                          | TFalse | TLBrace | TLBrak | TNull | TNumber | TString | TTrue =>
                              obind_opt (rule_value f s2) (array_loop f)
                          | TRBrak => Some s2
                          | _ => Some (perror s2)
                          end)); try assumption; try discriminate.
      intros s2 P2 L2.
      destruct (cur s2) eqn:Ec2;
        try (apply res_some; apply perror_le; exact P2);
        try (apply res_some; split; [exact P2|apply le_st_refl]);
        (apply res_bind; [apply IHv; [exact P2|lia]|];
         intros s3 P3 [N3 L3]; apply IHal; [exact P3|lia]).
    + (* array_loop *)
      intros s Hp Hn. cbn [array_loop].
      destruct (cur s) eqn:Ec;
        try (apply res_some; split; [exact Hp|apply le_st_refl]);
        try (destruct (awe_ok toks s Hp ltac:(rewrite Ec; discriminate)) as [A [NA LA]];
             destruct (IHal _ A ltac:(lia)) as [s3 [E3 [P3 [N3 L3]]]];
             exists s3; split; [exact E3|split; [exact P3|split; lia]]).
      destruct (expect_ok toks s TComma Hp ltac:(discriminate)) as [A [_ B]].
      destruct (B Ec) as [NA LA].
      apply (res_le_weaken toks s (expect TComma s)); [split; lia|].
      apply res_bind; [apply IHv; [exact A|lia]|].
      intros s3 P3 [N3 L3]. apply IHal; [exact P3|lia].
Qed.

(* ---------- rule_file and the result ---------- *)
Lemma drain_ok toks : forall rest s, pinvr toks s rest ->
  pinv toks (drain rest s) /\ p_nlen s <= p_nlen (drain rest s).
Proof.
  induction rest as [|[t sp] r IH]; intros s Hp; cbn [drain].
  - split; [apply with_rest_ok; exact Hp|cbn; lia].
  - destruct (IH (cst_advance t (is_skipped t) s)) as [A B]; [eapply advance_ok; exact Hp|].
    split; [exact A|]. cbn in B. lia.
Qed.

Lemma init_ok toks : pinv toks (init_pst toks mx).
Proof.
  constructor; cbn; try reflexivity; try lia.
  - intros [|j] r off H; discriminate H.
  - intros [|j] t i H; discriminate H.
  - intros [|j] j' t i t' i' _ H; discriminate H.
  - constructor.
Qed.

Lemma file_finish toks s4 : pinv toks s4 -> 1 <= p_nlen s4 ->
  exists s, Some (cst_close_root 0 RFile s4) = Some s /\ pinv toks s /\ 1 <= p_nlen s.
Proof.
  intros A4 N4. destruct (close_root_ok toks s4 0 RFile A4) as [A5 B5]; [lia|].
  eexists. split; [reflexivity|]. split; [exact A5|lia].
Qed.

Lemma rule_file_ok toks :
  exists s, rule_file (parse_fuel toks) (init_pst toks mx) = Some s /\ pinv toks s /\ 1 <= p_nlen s.
Proof.
  unfold rule_file. pose proof (init_ok toks) as H0.
  destruct (open_ok toks _ H0) as [A [B [C [D _]]]].
  destruct (cst_open (init_pst toks mx)) as [m s1]. cbn [fst snd] in *.
  assert (Hm : m = 0) by (rewrite B; reflexivity). subst m.
  destruct (skip_loop_ok toks (p_rest s1) s1 A) as [A2 [N2 L2]]. fold (init_skip s1) in *.
  assert (HL : L (init_skip s1) <= length toks) by (rewrite D in L2; cbn in L2; exact L2).
  destruct (claims_all toks (parse_fuel toks)) as [Hv _].
  destruct (Hv _ A2 ltac:(unfold parse_fuel; lia)) as [s3 [E3 [A3 [N3 L3]]]].
  rewrite E3. cbn [obind_opt].
  assert (Y : pinv toks (let s := perror s3 in let '(et, s) := cst_open s in
                         let s := drain (p_rest s) s in cst_close et RError s) /\
              1 <= p_nlen (let s := perror s3 in let '(et, s) := cst_open s in
                         let s := drain (p_rest s) s in cst_close et RError s)).
  { cbn zeta. destruct (perror_ok toks s3 A3) as [P1 [P2 P3]].
    destruct (open_ok toks _ P1) as [Q1 [Q2 [Q3 [Q4 _]]]].
    destruct (cst_open (perror s3)) as [et s5]. cbn [fst snd] in *.
    destruct (drain_ok toks (p_rest s5) s5 Q1) as [R1 R2].
    destruct (close_ok toks _ et RError R1) as [S1 [S2 _]]; [lia|].
    split; [exact S1|lia]. }
  destruct Y as [Y1 Y2].
  destruct (cur s3); try (apply file_finish; [exact Y1|exact Y2]).
  apply file_finish; [exact A3|lia].
Qed.

(* well-formedness of the flat CST, in the forward order the walk reads it *)
Record cst_wf (toks : list (tok * span)) (c : cst) : Prop := {
  wf_root : 1 <= length (c_nodes c);
  wf_spans : c_spans c = map snd toks;
  wf_rule : forall k r off, nth_error (c_nodes c) k = Some (NRule r off) -> k + off < length (c_nodes c);
  wf_tok : forall k t i, nth_error (c_nodes c) k = Some (NTok t i) -> exists sp, nth_error toks i = Some (t, sp);
  wf_ord : forall k k' t i t' i', k < k' -> nth_error (c_nodes c) k = Some (NTok t i) ->
           nth_error (c_nodes c) k' = Some (NTok t' i') -> i < i'
}.

Lemma nth_error_rev {A} (l : list A) k x : nth_error (rev l) k = Some x ->
  k < length l /\ nth_error l (length l - 1 - k) = Some x.
Proof.
  intros H. assert (Hk : k < length l).
  { rewrite <- rev_length. apply nth_error_Some. congruence. }
  split; [exact Hk|].
  rewrite (nth_error_nth' l x); [|lia]. f_equal.
  pose proof (nth_error_nth _ _ x H) as E. rewrite rev_nth in E; [|exact Hk].
  replace (length l - 1 - k) with (length l - S k) by lia. exact E.
Qed.

Theorem parse_tokens_ok toks ld :
  pr_status (parse_tokens toks mx ld) = POk /\ cst_wf toks (pr_cst (parse_tokens toks mx ld)).
Proof.
  unfold parse_tokens. destruct (rule_file_ok toks) as [s [E [Hp Hn]]]. rewrite E. cbn.
  destruct Hp as [B Ln Ns R1 R2 R3 Rs Dg Mx]. rewrite B. split; [reflexivity|].
  constructor; cbn.
  - rewrite rev_length, <- Ln. exact Hn.
  - reflexivity.
  - intros k r off H. apply nth_error_rev in H. destruct H as [Hk H]. apply R1 in H.
    rewrite rev_length. lia.
  - intros k t i H. apply nth_error_rev in H. destruct H as [Hk H]. apply R2 in H. destruct H as [_ H]. exact H.
  - intros k k' t i t' i' Hlt H H'. apply nth_error_rev in H. apply nth_error_rev in H'.
    destruct H as [Hk H]. destruct H' as [Hk' H']. eapply (R3 _ _ _ _ _ _ _ H' H). Unshelve. lia.
Qed.

Theorem parse_tokens_diags toks ld :
  exists ds, pr_diags (parse_tokens toks mx ld) = ld ++ ds /\ Forall (diag_span_ok toks) ds.
Proof.
  unfold parse_tokens. destruct (rule_file_ok toks) as [s [E [Hp Hn]]]. rewrite E. cbn.
  exists (rev (p_diags s)). split; [reflexivity|]. apply Forall_rev. exact (pi_dg _ _ _ Hp).
Qed.

End Inv.
