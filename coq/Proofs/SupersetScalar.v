(* SupersetScalar.v — C03 on the class scalar_oneofs (Model/OneOfClass.v): when every OneOf node
   of the merged shape is a union of non-optional scalar kinds, the merged shape accepts (by
   is_subset) the shape of every one of its sources.  Extends Proofs/SupersetFragment.v, whose
   class oneof_free is a sub-class. *)
From Coq Require Import List Bool NArith Lia.
Import ListNotations.
From JS Require Import Model.Base Model.Shape Model.Sem Model.Subset Model.Merger Model.Infer Model.Api
  Model.OneOfClass
  Proofs.BaseFacts Proofs.ShapeFacts Proofs.SemFacts Proofs.SubsetFacts Proofs.MergerFacts
  Proofs.InferFacts Proofs.SourcesSound Proofs.MergerAlgebra Proofs.SupersetFragment.

(* ---------- the class ---------- *)
Lemma oneof_free_scalar_oneofs : forall s, oneof_free s = true -> scalar_oneofs s = true.
Proof.
  induction s as [|o|o|o|t o IH|c o IH|vs o IH|es o IH] using shape_ind'; intro H; try reflexivity;
    try discriminate H.
  - simpl in *. auto.
  - simpl in *. rewrite forallb_forall in *. rewrite Forall_forall in IH. intros kv Hin. auto.
  - simpl in *. rewrite forallb_forall in *. rewrite Forall_forall in IH. intros e Hin. auto.
Qed.

Lemma scalar_variant_class v : scalar_variant v = true -> scalar_oneofs v = true.
Proof. destruct v; try discriminate; reflexivity. Qed.

Lemma scalar_variant_nonopt v : scalar_variant v = true -> is_optional v = false.
Proof. destruct v as [|[]|[]|[]| | | |]; try discriminate; reflexivity. Qed.

Lemma scalar_variant_is_scalar v : scalar_variant v = true -> Merger.is_scalar v = true.
Proof. destruct v; try discriminate; reflexivity. Qed.

(* K1 : below a non-optional scalar there is only itself *)
Lemma below_scalar_variant e w : is_subset e w = true -> scalar_variant w = true -> e = w.
Proof.
  intros H Hw. destruct w as [|[]|[]|[]| | | |]; try discriminate Hw;
    destruct e as [|[]|[]|[]|t o|c o|vs o|es o]; simpl in H; try discriminate H; reflexivity.
Qed.

(* K2 : what a set of non-optional scalars cannot contain *)
Section Variants.
  Variable vs : list shape.
  Hypothesis Hvs : forallb scalar_variant vs = true.

  Lemma variants_In v : In v vs -> scalar_variant v = true.
  Proof. rewrite forallb_forall in Hvs. auto. Qed.

  Lemma variants_no_null : sset_mem SNull vs = false.
  Proof.
    destruct (sset_mem SNull vs) eqn:E; [|reflexivity]. apply sset_mem_In in E.
    apply variants_In in E. discriminate.
  Qed.

  Lemma variants_no_array t o : sset_mem (SArray t o) vs = false.
  Proof.
    destruct (sset_mem (SArray t o) vs) eqn:E; [|reflexivity]. apply sset_mem_In in E.
    apply variants_In in E. discriminate.
  Qed.

  Lemma variants_no_tuple es o : sset_mem (STuple es o) vs = false.
  Proof.
    destruct (sset_mem (STuple es o) vs) eqn:E; [|reflexivity]. apply sset_mem_In in E.
    apply variants_In in E. discriminate.
  Qed.

  Lemma variants_no_object c o : existsb (obj_variant c o) vs = false.
  Proof.
    destruct (existsb (obj_variant c o) vs) eqn:E; [|reflexivity]. apply existsb_exists in E.
    destruct E as [v [Hin Hv]]. apply variants_In in Hin. destruct v; discriminate.
  Qed.

  (* both disjuncts of OneOf-below-OneOf mean inclusion of the variant sets *)
  Lemma variants_incl us :
    sset_subset us vs || forallb (fun v => existsb (fun w => is_subset v w) vs) us = true ->
    forall v, In v us -> In v vs.
  Proof.
    intros H v Hin. apply orb_true_iff in H. destruct H as [H|H].
    - unfold sset_subset, set_subset in H. rewrite forallb_forall in H. apply sset_mem_In. apply H. exact Hin.
    - rewrite forallb_forall in H. specialize (H v Hin). apply existsb_exists in H.
      destruct H as [w [Hw Hs]]. rewrite (below_scalar_variant v w Hs (variants_In w Hw)). exact Hw.
  Qed.
End Variants.

Lemma incl_sset_subset us vs : (forall v, In v us -> In v vs) -> sset_subset us vs = true.
Proof.
  intro H. unfold sset_subset, set_subset. apply forallb_forall. intros x Hx. apply sset_mem_In. auto.
Qed.

Lemma oneof_opt_class tg b : scalar_oneofs b = true -> oneof_opt tg b = false.
Proof.
  intro Hb. destruct b; try reflexivity. simpl in *. rewrite (variants_no_null vs Hb). apply andb_false_r.
Qed.

(* ---------- downward closure ---------- *)
Lemma subset_scalar_oneofs' : forall a b, is_subset a b = true -> scalar_oneofs b = true ->
  scalar_oneofs a = true.
Proof.
  induction a as [|o|o|o|t o IH|c o IH|vs o IH|es o IH] using shape_ind'; intros b H Hf; try reflexivity.
  - destruct b as [| | | |t' o'| |ws oo|]; cbn [is_subset] in H; try discriminate.
    + apply andb_true_iff in H. destruct H as [_ H]. simpl in *. eapply IH; eassumption.
    + simpl in Hf. rewrite !(variants_no_array ws Hf) in H. discriminate.
  - destruct b as [| | | | |c' o'|ws oo|]; try (simpl in H; discriminate).
    + rewrite is_subset_object_object in H. apply andb_true_iff in H. destruct H as [_ H].
      unfold obj_check in H. apply andb_true_iff in H. destruct H as [_ H]. unfold obj_members_sub in H.
      simpl in Hf |- *. rewrite forallb_forall in *. rewrite Forall_forall in IH.
      intros [k v] Hin. specialize (H _ Hin). simpl in *.
      destruct (map_get k c') as [ov|] eqn:G; [|discriminate].
      apply (IH (k, v) Hin ov H). apply map_get_In in G. apply (Hf _ G).
    + rewrite is_subset_object_oneof in H. simpl in Hf. rewrite (variants_no_object ws Hf) in H. discriminate.
  - destruct b as [| | | | | |ws o'|]; try (simpl in H; discriminate).
    rewrite is_subset_oneof_oneof in H. apply andb_true_iff in H. destruct H as [_ H].
    simpl in Hf |- *. apply forallb_forall. intros v Hin.
    apply (variants_In ws Hf). apply (variants_incl ws Hf vs H). exact Hin.
  - destruct b as [| | | |t' o'| |ws oo|os o']; try (simpl in H; discriminate).
    + destruct t' as [| | | | | |ws ow|]; try (simpl in H; discriminate).
      cbn [is_subset] in H. apply andb_true_iff in H. destruct H as [_ H].
      simpl in Hf |- *. rewrite forallb_forall in H. apply forallb_forall. intros e Hin.
      apply scalar_variant_class. apply (variants_In ws Hf). apply sset_mem_In. auto.
    + cbn [is_subset] in H. simpl in Hf. rewrite !(variants_no_tuple ws Hf) in H. discriminate.
    + rewrite is_subset_tuple_tuple in H. apply andb_true_iff in H. destruct H as [_ H].
      simpl in Hf |- *. clear o o'. revert os H Hf.
      induction IH as [|e r He Hr IHr]; intros [|x os] H Hf; simpl in *; try discriminate; [reflexivity|].
      apply andb_true_iff in H. apply andb_true_iff in Hf. destruct H as [H1 H2], Hf as [Hf1 Hf2].
      rewrite (He x H1 Hf1). simpl. eapply IHr; eassumption.
Qed.

Lemma subset_scalar_oneofs : forall a b, wf b = true -> is_subset a b = true ->
  scalar_oneofs b = true -> scalar_oneofs a = true.
Proof. intros a b _. apply subset_scalar_oneofs'. Qed.

(* an optional (or Null) shape sits only below optional (or Null) shapes of the class *)
Lemma optional_up_scalar b c : is_optional b = true -> is_subset b c = true -> scalar_oneofs c = true ->
  is_optional c = true.
Proof.
  intros Ho H Hf. pose proof (oneof_opt_class 1 c Hf) as E1. pose proof (oneof_opt_class 2 c Hf) as E2.
  pose proof (oneof_opt_class 3 c Hf) as E3.
  destruct b as [|o|o|o|t o|cb o|vs o|es o]; simpl in Ho; try subst o.
  - simpl in H. apply orb_true_iff in H. destruct H as [H|H]; [exact H|]. destruct c; try discriminate. reflexivity.
  - simpl in H. unfold scalar_subset in H. rewrite E1, orb_false_r in H. apply andb_true_iff in H. tauto.
  - simpl in H. unfold scalar_subset in H. rewrite E2, orb_false_r in H. apply andb_true_iff in H. tauto.
  - simpl in H. unfold scalar_subset in H. rewrite E3, orb_false_r in H. apply andb_true_iff in H. tauto.
  - destruct c as [| | | |t' o'| |ws oo|]; cbn [is_subset] in H; try discriminate.
    + apply andb_true_iff in H. destruct H as [H _]. exact H.
    + simpl in Hf. rewrite !(variants_no_array ws Hf) in H. discriminate.
  - destruct c as [| | | | |c' o'|ws oo|]; try (simpl in H; discriminate).
    + rewrite is_subset_object_object in H. apply andb_true_iff in H. destruct H as [H _]. exact H.
    + rewrite is_subset_object_oneof in H. simpl in Hf. rewrite (variants_no_object ws Hf) in H. discriminate.
  - destruct c as [| | | | | |ws o'|]; try (simpl in H; discriminate).
    rewrite is_subset_oneof_oneof in H. apply andb_true_iff in H. destruct H as [H _]. exact H.
  - destruct c as [| | | |t' o'| |ws oo|os o']; try (simpl in H; discriminate).
    + destruct t'; try (simpl in H; discriminate). cbn [is_subset] in H.
      apply andb_true_iff in H. destruct H as [H _]. exact H.
    + cbn [is_subset] in H. simpl in Hf. rewrite !(variants_no_tuple ws Hf) in H. discriminate.
    + rewrite is_subset_tuple_tuple in H. apply andb_true_iff in H. destruct H as [H _]. exact H.
Qed.

(* ---------- transitivity ---------- *)
Lemma is_subset_array_array t o t' o' :
  is_subset (SArray t o) (SArray t' o') = implb o o' && is_subset t t'.
Proof. reflexivity. Qed.

Lemma scalar_subset_weaken tg o c : scalar_subset tg o c = true -> scalar_subset tg false c = true.
Proof.
  unfold scalar_subset. destruct o; [|auto]. intro H. apply orb_true_iff in H. destruct H as [H|H].
  - apply andb_true_iff in H. destruct H as [H _]. rewrite H. reflexivity.
  - rewrite H. apply orb_true_r.
Qed.

Lemma is_subset_scalar_tag b : Merger.is_scalar b = true -> forall c,
  is_subset b c = scalar_subset (tag b) (is_optional b) c.
Proof. destruct b; try discriminate; reflexivity. Qed.

Lemma scalar_trans tg o b c : (tg = 1 \/ tg = 2 \/ tg = 3)%N ->
  scalar_oneofs b = true -> scalar_oneofs c = true ->
  scalar_subset tg o b = true -> is_subset b c = true -> scalar_subset tg o c = true.
Proof.
  intros Htg Hb Hc Hab Hbc.
  assert (Hsc : N.eqb (tag b) tg = true -> Merger.is_scalar b = true).
  { intro E. apply N.eqb_eq in E. destruct b; try reflexivity; simpl in E; subst tg;
      destruct Htg as [X|[X|X]]; discriminate X. }
  unfold scalar_subset in Hab. rewrite (oneof_opt_class tg b Hb) in Hab. destruct o; rewrite orb_false_r in Hab.
  - apply andb_true_iff in Hab. destruct Hab as [T O]. rewrite (is_subset_scalar_tag b (Hsc T)) in Hbc.
    apply N.eqb_eq in T. rewrite T, O in Hbc. exact Hbc.
  - apply orb_true_iff in Hab. destruct Hab as [T|Hab].
    + rewrite (is_subset_scalar_tag b (Hsc T)) in Hbc. apply N.eqb_eq in T. rewrite T in Hbc.
      eapply scalar_subset_weaken. exact Hbc.
    + destruct b as [| | | | | |vs ob|]; try discriminate Hab.
      destruct c as [| | | | | |ws oc|]; try (simpl in Hbc; discriminate).
      rewrite is_subset_oneof_oneof in Hbc. apply andb_true_iff in Hbc. destruct Hbc as [_ Hbc].
      simpl in Hc. pose proof (variants_incl ws Hc vs Hbc) as Hincl.
      simpl in Hab. apply existsb_exists in Hab. destruct Hab as [v [Hin Hv]].
      unfold scalar_subset. replace (oneof_nonopt tg (SOneOf ws oc)) with true; [rewrite orb_true_r; reflexivity|].
      symmetry. simpl. apply existsb_exists. exists v. split; [apply Hincl; exact Hin|exact Hv].
Qed.

Lemma subset_trans_scalar' : forall a b c, wf c = true -> scalar_oneofs c = true ->
  is_subset a b = true -> is_subset b c = true -> is_subset a c = true.
Proof.
  induction a as [|o|o|o|t o IH|ca o IH|vs o IH|es o IH] using shape_ind'; intros b c Hwc Hfc Hab Hbc;
    pose proof (subset_scalar_oneofs' b c Hbc Hfc) as Hfb.
  - (* Null *)
    simpl in Hab. simpl. apply orb_true_iff in Hab. destruct Hab as [Hab|Hab].
    + rewrite (optional_up_scalar b c Hab Hbc Hfc). reflexivity.
    + destruct b; try discriminate. exact Hbc.
  - simpl in *. apply (scalar_trans 1 o b c); auto.
  - simpl in *. apply (scalar_trans 2 o b c); auto.
  - simpl in *. apply (scalar_trans 3 o b c); auto.
  - (* Array *)
    destruct b as [| | | |t' o'| |ws oo|]; cbn [is_subset] in Hab; try discriminate.
    2:{ simpl in Hfb. rewrite !(variants_no_array ws Hfb) in Hab. discriminate. }
    destruct c as [| | | |t'' o''| |ws oo|]; cbn [is_subset] in Hbc; try discriminate.
    2:{ simpl in Hfc. rewrite !(variants_no_array ws Hfc) in Hbc. discriminate. }
    apply andb_true_iff in Hab. apply andb_true_iff in Hbc. destruct Hab as [A1 A2], Hbc as [B1 B2].
    cbn [is_subset]. rewrite (implb_trans _ _ _ A1 B1). simpl. simpl in Hwc, Hfc. eapply IH; eassumption.
  - (* Object *)
    destruct b as [| | | | |cb o'|ws oo|]; try (simpl in Hab; discriminate).
    2:{ rewrite is_subset_object_oneof in Hab. simpl in Hfb. rewrite (variants_no_object ws Hfb) in Hab. discriminate. }
    destruct c as [| | | | |cc o''|ws oo|]; try (simpl in Hbc; discriminate).
    2:{ rewrite is_subset_object_oneof in Hbc. simpl in Hfc. rewrite (variants_no_object ws Hfc) in Hbc. discriminate. }
    rewrite is_subset_object_object in *. apply andb_true_iff in Hab. apply andb_true_iff in Hbc.
    destruct Hab as [A1 A2], Hbc as [B1 B2]. rewrite (implb_trans _ _ _ A1 B1). simpl.
    unfold obj_check in *. apply andb_true_iff in A2. apply andb_true_iff in B2.
    destruct A2 as [A2 A3], B2 as [B2 B3]. unfold obj_members_sub in *.
    apply wf_object in Hwc. destruct Hwc as [Hsc Hwcv]. simpl in Hfc, Hfb.
    rewrite forallb_forall in A2, A3, B2, B3, Hfc, Hfb. rewrite Forall_forall in IH, Hwcv.
    apply andb_true_iff. split; apply forallb_forall.
    + intros [k v''] Hin. simpl. specialize (B2 _ Hin). simpl in B2. apply orb_true_iff in B2.
      destruct B2 as [B2|B2]; [|rewrite B2; apply orb_true_r].
      unfold map_has in B2. destruct (map_get k cb) as [v'|] eqn:Gb; [|discriminate].
      apply map_get_In in Gb. specialize (A2 _ Gb). simpl in A2. apply orb_true_iff in A2.
      destruct A2 as [A2|A2]; [rewrite A2; reflexivity|].
      specialize (B3 _ Gb). simpl in B3. rewrite (sorted_get_In _ _ _ Hsc Hin) in B3.
      rewrite (optional_up_scalar v' v'' A2 B3 (Hfc _ Hin)). apply orb_true_r.
    + intros [k v] Hin. simpl. specialize (A3 _ Hin). simpl in A3.
      destruct (map_get k cb) as [v'|] eqn:Gb; [|discriminate]. apply map_get_In in Gb.
      specialize (B3 _ Gb). simpl in B3. destruct (map_get k cc) as [v''|] eqn:Gc; [|discriminate].
      apply map_get_In in Gc. apply (IH (k, v) Hin v' v'' (Hwcv _ Gc) (Hfc _ Gc) A3 B3).
  - (* OneOf *)
    destruct b as [| | | | | |ws o'|]; try (simpl in Hab; discriminate).
    destruct c as [| | | | | |xs o''|]; try (simpl in Hbc; discriminate).
    rewrite is_subset_oneof_oneof in *. apply andb_true_iff in Hab. apply andb_true_iff in Hbc.
    destruct Hab as [A1 A2], Hbc as [B1 B2]. rewrite (implb_trans _ _ _ A1 B1). simpl.
    simpl in Hfb, Hfc. rewrite incl_sset_subset; [reflexivity|]. intros v Hin.
    apply (variants_incl xs Hfc ws B2). apply (variants_incl ws Hfb vs A2). exact Hin.
  - (* Tuple *)
    destruct b as [| | | |t' o'| |ws oo|os o']; try (simpl in Hab; discriminate).
    + (* Tuple below Array<OneOf> below c *)
      destruct t' as [| | | | | |ws ow|]; try (simpl in Hab; discriminate).
      cbn [is_subset] in Hab. apply andb_true_iff in Hab. destruct Hab as [A1 A2].
      destruct c as [| | | |t'' o''| |xs oo|]; try (simpl in Hbc; discriminate).
      2:{ cbn [is_subset] in Hbc. simpl in Hfc. rewrite !(variants_no_array xs Hfc) in Hbc. discriminate. }
      rewrite is_subset_array_array in Hbc. apply andb_true_iff in Hbc. destruct Hbc as [B1 B2].
      destruct t'' as [| | | | | |xs ox|]; try (simpl in B2; discriminate).
      rewrite is_subset_oneof_oneof in B2. apply andb_true_iff in B2. destruct B2 as [_ B2].
      cbn [is_subset]. rewrite (implb_trans _ _ _ A1 B1). simpl. simpl in Hfc.
      rewrite forallb_forall in A2. apply forallb_forall. intros e Hin. apply sset_mem_In.
      apply (variants_incl xs Hfc ws B2). apply sset_mem_In. auto.
    + cbn [is_subset] in Hab. simpl in Hfb. rewrite !(variants_no_tuple ws Hfb) in Hab. discriminate.
    + destruct c as [| | | |t'' o''| |ws oo|xs o'']; try (simpl in Hbc; discriminate).
      * (* Tuple below Tuple below Array<OneOf> *)
        destruct t'' as [| | | | | |ws ow|]; try (simpl in Hbc; discriminate).
        rewrite is_subset_tuple_tuple in Hab. cbn [is_subset] in Hbc |- *.
        apply andb_true_iff in Hab. apply andb_true_iff in Hbc.
        destruct Hab as [A1 A2], Hbc as [B1 B2]. rewrite (implb_trans _ _ _ A1 B1). simpl.
        simpl in Hfc. clear -A2 B2 Hfc. revert os A2 B2.
        induction es as [|e r IHr]; intros [|x os] A2 B2; simpl in *; try discriminate; [reflexivity|].
        apply andb_true_iff in A2. apply andb_true_iff in B2. destruct A2 as [A2 A3], B2 as [B2 B3].
        pose proof B2 as B2'. apply sset_mem_In in B2'.
        rewrite (below_scalar_variant e x A2 (variants_In ws Hfc x B2')), B2. simpl. eapply IHr; eassumption.
      * cbn [is_subset] in Hbc. simpl in Hfc. rewrite !(variants_no_tuple ws Hfc) in Hbc. discriminate.
      * rewrite is_subset_tuple_tuple in *. apply andb_true_iff in Hab. apply andb_true_iff in Hbc.
        destruct Hab as [A1 A2], Hbc as [B1 B2]. rewrite (implb_trans _ _ _ A1 B1). simpl.
        apply wf_tuple in Hwc. simpl in Hfc. clear A1 B1 Hfb o o' o''.
        revert os xs A2 B2 Hwc Hfc. induction IH as [|e r He Hr IHr]; intros [|x os] [|y xs] A2 B2 Hwc Hfc;
          simpl in *; try discriminate; [reflexivity|].
        apply andb_true_iff in A2. apply andb_true_iff in B2. apply andb_true_iff in Hfc.
        destruct A2 as [A2 A3], B2 as [B2 B3], Hfc as [F1 F2]. inversion Hwc; subst.
        rewrite (He x y H1 F1 A2 B2). simpl. eapply IHr; eassumption.
Qed.

Lemma subset_trans_scalar : forall a b c, wf a = true -> wf b = true -> wf c = true ->
  scalar_oneofs c = true -> is_subset a b = true -> is_subset b c = true -> is_subset a c = true.
Proof. intros a b c _ _. apply subset_trans_scalar'. Qed.

(* ---------- the merge dominates both operands ---------- *)
Lemma oneof_sub vs o ws o' : (forall v, In v vs -> In v ws) -> implb o o' = true ->
  is_subset (SOneOf vs o) (SOneOf ws o') = true.
Proof.
  intros H Ho. rewrite is_subset_oneof_oneof, Ho, (incl_sset_subset vs ws H). reflexivity.
Qed.

Lemma scalar_below_oneof a ws oo : Merger.is_scalar a = true -> is_optional a = false -> In a ws ->
  is_subset a (SOneOf ws oo) = true.
Proof.
  intros Hs Ho Hin. rewrite (is_subset_scalar_tag a Hs), Ho. unfold scalar_subset.
  replace (oneof_nonopt (tag a) (SOneOf ws oo)) with true; [rewrite orb_true_r; reflexivity|].
  symmetry. simpl. apply existsb_exists. exists a. split; [exact Hin|]. rewrite N.eqb_refl, Ho. reflexivity.
Qed.

Lemma nonopt_variant_scalar x : scalar_variant (as_non_optional x) = true -> Merger.is_scalar x = true.
Proof. destruct x; try discriminate; reflexivity. Qed.

Lemma nonopt_same x : is_optional x = false -> as_non_optional x = x.
Proof. intro H. unfold as_non_optional. rewrite <- H. apply set_flag_same'. Qed.

Lemma kind_pair_class x y nul : scalar_oneofs (kind_pair x y nul) = true ->
  scalar_variant x = true /\ scalar_variant y = true /\ nul = false.
Proof.
  unfold kind_pair. simpl. intro H. rewrite forallb_forall in H.
  split; [apply H; apply kind_pair_In; auto|]. split; [apply H; apply kind_pair_In; auto|].
  destruct nul; [|reflexivity]. assert (E : scalar_variant SNull = true) by (apply H; apply kind_pair_In; auto).
  discriminate E.
Qed.

Lemma insert_null_class y o vs : forallb scalar_variant (sset_insert y (null_if o vs)) = true ->
  scalar_variant y = true /\ o = false /\ forallb scalar_variant vs = true.
Proof.
  intro H. rewrite forallb_forall in H. split; [apply H; apply sset_insert_In; auto|]. split.
  - destruct o; [|reflexivity]. assert (E : scalar_variant SNull = true).
    { apply H. apply sset_insert_In. right. apply null_if_In. auto. }
    discriminate E.
  - apply forallb_forall. intros v Hin. apply H. apply sset_insert_In. right. apply null_if_In. auto.
Qed.

(* X + OneOf[..] and OneOf[..] + X, for X not Null and not a OneOf *)
Lemma insert_dominates b vs o : wf b = true ->
  forallb scalar_variant (sset_insert (as_non_optional b) (null_if (is_optional b) vs)) = true ->
  is_subset b (SOneOf (sset_insert (as_non_optional b) (null_if (is_optional b) vs)) o) = true /\
  is_subset (SOneOf vs o) (SOneOf (sset_insert (as_non_optional b) (null_if (is_optional b) vs)) o) = true.
Proof.
  intros Hw H. destruct (insert_null_class _ _ _ H) as [H1 [H2 H3]]. split.
  - apply scalar_below_oneof; [apply nonopt_variant_scalar; exact H1|exact H2|].
    apply sset_insert_In. left. symmetry. apply nonopt_same. exact H2.
  - apply oneof_sub; [|destruct o; reflexivity]. intros v Hin. apply sset_insert_In. right.
    apply null_if_In. auto.
Qed.

Lemma scalar_wf a : Merger.is_scalar a = true -> wf a = true.
Proof. destruct a; try discriminate; reflexivity. Qed.

Lemma merger_dominates_scalar_arm a b : Merger.is_scalar a = true -> wf b = true ->
  scalar_oneofs (merger a b) = true ->
  is_subset a (merger a b) = true /\ is_subset b (merger a b) = true.
Proof.
  intros Hs Hb Hf. rewrite (merger_scalar a b Hs) in *.
  destruct b as [|o'|o'|o'|t' o'|c' o'|ws oo|os o'].
  - split; [apply subset_as_optional; apply scalar_wf; exact Hs|destruct a; try discriminate Hs; reflexivity].
  - destruct a as [|[]|[]|[]| | | |]; try discriminate Hs; destruct o';
      try (vm_compute in Hf; discriminate Hf); vm_compute; auto.
  - destruct a as [|[]|[]|[]| | | |]; try discriminate Hs; destruct o';
      try (vm_compute in Hf; discriminate Hf); vm_compute; auto.
  - destruct a as [|[]|[]|[]| | | |]; try discriminate Hs; destruct o';
      try (vm_compute in Hf; discriminate Hf); vm_compute; auto.
  - exfalso. replace (N.eqb (tag a) (tag (SArray t' o'))) with false in Hf by (destruct a; try discriminate Hs; reflexivity).
    apply kind_pair_class in Hf. destruct Hf as [_ [Hf _]]. discriminate Hf.
  - exfalso. replace (N.eqb (tag a) (tag (SObject c' o'))) with false in Hf by (destruct a; try discriminate Hs; reflexivity).
    apply kind_pair_class in Hf. destruct Hf as [_ [Hf _]]. discriminate Hf.
  - unfold into_oneof in *. simpl in Hf. apply insert_dominates; [apply scalar_wf; exact Hs|exact Hf].
  - exfalso. replace (N.eqb (tag a) (tag (STuple os o'))) with false in Hf by (destruct a; try discriminate Hs; reflexivity).
    apply kind_pair_class in Hf. destruct Hf as [_ [Hf _]]. discriminate Hf.
Qed.

(* Array<t> + Tuple(es) *)
Lemma tuple_array_dominates t o es o' oo :
  forallb scalar_variant (tuple_array_set t es) = true -> implb o oo = true -> implb o' oo = true ->
  is_subset (SArray t o) (SArray (SOneOf (tuple_array_set t es) false) oo) = true /\
  is_subset (STuple es o') (SArray (SOneOf (tuple_array_set t es) false) oo) = true.
Proof.
  intros Hf Ho Ho'. set (S := tuple_array_set t es) in *. rewrite forallb_forall in Hf.
  assert (Hn : existsb is_optional es || is_optional t = false).
  { destruct (existsb is_optional es || is_optional t) eqn:E; [|reflexivity].
    assert (X : scalar_variant SNull = true) by (apply Hf; apply tuple_array_set_In; auto). discriminate X. }
  apply orb_false_iff in Hn. destruct Hn as [Hes Ht]. split.
  - rewrite is_subset_array_array, Ho. simpl.
    assert (Hflat : forall z, flat_variant t z -> In z S) by (intros z Hz; apply tuple_array_set_In; auto).
    destruct t as [|ot|ot|ot|t1 ot|ct ot|vs ot|ts ot];
      try (simpl in Ht; subst ot; apply scalar_below_oneof; [reflexivity|reflexivity|apply Hflat; reflexivity]);
      try discriminate Ht;
      try (specialize (Hf _ (Hflat _ eq_refl)); discriminate Hf).
    simpl in Ht. subst ot. apply oneof_sub; [|reflexivity]. intros v Hin. apply Hflat. exact Hin.
  - cbn [is_subset]. rewrite Ho'. simpl. apply forallb_forall. intros e Hin. apply sset_mem_In.
    assert (He : is_optional e = false).
    { destruct (is_optional e) eqn:E; [|reflexivity]. rewrite <- Hes. symmetry. apply existsb_exists. eauto. }
    apply tuple_array_set_In. right. left. exists e. split; [exact Hin|]. symmetry. apply nonopt_same. exact He.
Qed.

(* Tuple + Tuple that does not fold *)
Lemma tuples_set_dominates es o os o' oo :
  forallb scalar_variant (tuples_set es os) = true -> implb o oo = true -> implb o' oo = true ->
  is_subset (STuple es o) (SArray (SOneOf (tuples_set es os) false) oo) = true /\
  is_subset (STuple os o') (SArray (SOneOf (tuples_set es os) false) oo) = true.
Proof.
  intros Hf Ho Ho'. set (S := tuples_set es os) in *. rewrite forallb_forall in Hf.
  assert (Hn : existsb is_optional es || existsb is_optional os = false).
  { destruct (existsb is_optional es || existsb is_optional os) eqn:E; [|reflexivity].
    assert (X : scalar_variant SNull = true) by (apply Hf; apply tuples_set_In; auto). discriminate X. }
  apply orb_false_iff in Hn. destruct Hn as [Hes Hos].
  assert (Hopt : forall l e, existsb is_optional l = false -> In e l -> as_non_optional e = e).
  { intros l e Hl Hin. apply nonopt_same. destruct (is_optional e) eqn:E; [|reflexivity].
    rewrite <- Hl. symmetry. apply existsb_exists. eauto. }
  split; cbn [is_subset]; rewrite ?Ho, ?Ho'; simpl; apply forallb_forall; intros e Hin; apply sset_mem_In;
    apply tuples_set_In.
  - left. exists e. split; [exact Hin|]. symmetry. exact (Hopt es e Hes Hin).
  - right. left. exists e. split; [exact Hin|]. symmetry. exact (Hopt os e Hos Hin).
Qed.

Lemma implb_orb_l (o o' : bool) : implb o (o || o') = true.
Proof. destruct o, o'; reflexivity. Qed.
Lemma implb_orb_r (o o' : bool) : implb o' (o || o') = true.
Proof. destruct o, o'; reflexivity. Qed.

Lemma merger_dominates_scalar : forall a b, wf a = true -> wf b = true ->
  scalar_oneofs (merger a b) = true ->
  is_subset a (merger a b) = true /\ is_subset b (merger a b) = true.
Proof.
  induction a as [|o|o|o|t o IH|c o IH|vs o IH|es o IH] using shape_ind'; intros b Ha Hb Hf.
  - simpl. split; [destruct b; reflexivity|apply subset_as_optional; exact Hb].
  - apply merger_dominates_scalar_arm; auto.
  - apply merger_dominates_scalar_arm; auto.
  - apply merger_dominates_scalar_arm; auto.
  - (* Array *)
    destruct b as [|o'|o'|o'|t' o'|c' o'|ws oo|os o'];
      try (exfalso; cbn [merger] in Hf; apply kind_pair_class in Hf; destruct Hf as [Hf _]; discriminate Hf).
    + simpl in Ha. simpl. rewrite (subset_refl t Ha). destruct o; auto.
    + simpl in Ha, Hb, Hf. destruct (IH t' Ha Hb Hf) as [H1 H2]. cbn [merger].
      rewrite !is_subset_array_array, H1, H2. destruct o, o'; auto.
    + exfalso. cbn [merger] in Hf. unfold into_oneof in Hf. simpl in Hf.
      apply insert_null_class in Hf. destruct Hf as [Hf _]. discriminate Hf.
    + cbn [merger] in *. simpl in Hf. apply tuple_array_dominates; [exact Hf|apply implb_orb_l|apply implb_orb_r].
  - (* Object *)
    destruct b as [|o'|o'|o'|t' o'|c' o'|ws oo|os o'];
      try (exfalso; cbn [merger] in Hf; apply kind_pair_class in Hf; destruct Hf as [Hf _]; discriminate Hf).
    + change (merger (SObject c o) SNull) with (SObject c true).
      split; [apply (subset_flag (SObject c o) Ha true); auto|reflexivity].
    + rewrite merger_object_object in *. rewrite !is_subset_object_object.
      apply wf_object in Ha. apply wf_object in Hb. destruct Ha as [Hs Hw], Hb as [Hs' Hw'].
      set (mg := obj_merge_go merger c c' []) in *.
      assert (Hget : forall k, map_get k mg =
                match map_get k c with
                | Some v => match map_get k c' with Some ov => Some (merger v ov) | None => Some (as_optional v) end
                | None => match map_get k c' with Some ov => Some (as_optional ov) | None => None end
                end).
      { intro k. unfold mg. rewrite obj_merge_go_get by assumption. reflexivity. }
      assert (Hsm : keys_sorted mg = true) by (apply obj_merge_go_sorted; reflexivity).
      simpl in Hf. rewrite forallb_forall in Hf. rewrite Forall_forall in IH, Hw, Hw'.
      assert (Hopt : forall s, is_optional (as_optional s) = true) by (intro s; destruct s; reflexivity).
      split; (apply andb_true_iff; split; [destruct o, o'; reflexivity|]); unfold obj_check;
        apply andb_true_iff; split; apply forallb_forall.
      * intros [k vm] Hin. simpl. pose proof (sorted_get_In _ _ _ Hsm Hin) as G. rewrite Hget in G.
        unfold map_has. destruct (map_get k c) as [v|]; [reflexivity|].
        destruct (map_get k c') as [ov|]; inversion G. rewrite Hopt. apply orb_true_r.
      * intros [k v] Hin. simpl. pose proof (sorted_get_In _ _ _ Hs Hin) as G. specialize (Hget k). rewrite G in Hget.
        destruct (map_get k c') as [ov|] eqn:G'; rewrite Hget.
        -- apply map_get_In in G'. apply (IH (k, v) Hin ov (Hw _ Hin) (Hw' _ G')).
           apply (Hf (k, merger v ov)). apply map_get_In. exact Hget.
        -- apply subset_as_optional. apply (Hw _ Hin).
      * intros [k vm] Hin. simpl. pose proof (sorted_get_In _ _ _ Hsm Hin) as G. rewrite Hget in G.
        unfold map_has. destruct (map_get k c') as [ov|]; [reflexivity|].
        destruct (map_get k c) as [v|]; inversion G. rewrite Hopt. apply orb_true_r.
      * intros [k ov] Hin. simpl. pose proof (sorted_get_In _ _ _ Hs' Hin) as G'. specialize (Hget k). rewrite G' in Hget.
        destruct (map_get k c) as [v|] eqn:G; rewrite Hget.
        -- apply map_get_In in G. apply (IH (k, v) G ov (Hw _ G) (Hw' _ Hin)).
           apply (Hf (k, merger v ov)). apply map_get_In. exact Hget.
        -- apply subset_as_optional. apply (Hw' _ Hin).
    + exfalso. cbn [merger] in Hf. unfold into_oneof in Hf. simpl in Hf.
      apply insert_null_class in Hf. destruct Hf as [Hf _]. discriminate Hf.
  - (* OneOf *)
    destruct b as [|o'|o'|o'|t' o'|c' o'|ws oo|os o'];
      try (cbn [merger] in *; simpl in Hf;
           destruct (insert_dominates _ vs o Hb Hf) as [D1 D2]; split; [exact D2|exact D1]).
    + cbn [merger]. split; [apply oneof_sub; [auto|destruct o; reflexivity]|reflexivity].
    + cbn [merger] in *. split; (apply oneof_sub; [|destruct o, oo; reflexivity]); intros v Hin;
        apply sset_union_In; auto.
  - (* Tuple *)
    destruct b as [|o'|o'|o'|t' o'|c' o'|ws oo|os o'];
      try (exfalso; cbn [merger] in Hf; apply kind_pair_class in Hf; destruct Hf as [Hf _]; discriminate Hf).
    + change (merger (STuple es o) SNull) with (STuple es true).
      split; [apply (subset_flag (STuple es o) Ha true); auto|reflexivity].
    + cbn [merger] in *. simpl in Hf.
      destruct (tuple_array_dominates t' o' es o (o' || o) Hf (implb_orb_l _ _) (implb_orb_r _ _)) as [D1 D2].
      split; assumption.
    + exfalso. cbn [merger] in Hf. unfold into_oneof in Hf. simpl in Hf.
      apply insert_null_class in Hf. destruct Hf as [Hf _]. discriminate Hf.
    + cbn [merger] in *. destruct (fold_tuple es os) as [folded|] eqn:E.
      * rewrite !is_subset_tuple_tuple. apply wf_tuple in Ha. apply wf_tuple in Hb.
        assert (G : forall2b is_subset es folded = true /\ forall2b is_subset os folded = true).
        { clear Hf IH. revert os folded E Hb. induction Ha as [|e r He Hr IHr]; intros [|x os] folded E Hb;
            simpl in E; try discriminate.
          - inversion E. split; reflexivity.
          - destruct (fold_pair e x) as [v|] eqn:Ep; [|discriminate].
            destruct (fold_tuple r os) as [rr|] eqn:E2; [|discriminate]. inversion E. subst folded.
            inversion Hb; subst. destruct (fold_pair_dominates e x v He H1 Ep) as [P1 P2].
            destruct (IHr os rr E2 H2) as [Q1 Q2]. simpl. rewrite P1, P2, Q1, Q2. split; reflexivity. }
        destruct G as [G1 G2]. rewrite G1, G2. destruct o, o'; auto.
      * simpl in Hf. apply tuples_set_dominates; [exact Hf|apply implb_orb_l|apply implb_orb_r].
Qed.

(* the fold accepts its start value and every merged-in shape *)
Lemma fold_dominates_scalar r : forall acc, wf acc = true -> Forall (fun s => wf s = true) r ->
  scalar_oneofs (fold_left merger r acc) = true ->
  is_subset acc (fold_left merger r acc) = true /\
  (forall s, In s r -> is_subset s (fold_left merger r acc) = true).
Proof.
  induction r as [|s0 r IH]; intros acc Ha Hr Hf; simpl in *.
  - split; [apply subset_refl; exact Ha|intros s []].
  - inversion Hr as [|? ? Hs0 Hrr]; subst.
    assert (Hwm : wf (merger acc s0) = true) by (apply wf_merger; assumption).
    destruct (IH (merger acc s0) Hwm Hrr Hf) as [I1 I2].
    assert (HwF : wf (fold_left merger r (merger acc s0)) = true) by (apply fold_merger_wf; assumption).
    pose proof (subset_scalar_oneofs _ _ HwF I1 Hf) as Hfm.
    destruct (merger_dominates_scalar acc s0 Ha Hs0 Hfm) as [D1 D2].
    split.
    + eapply subset_trans_scalar'; eassumption.
    + intros s [<-|Hin]; [eapply subset_trans_scalar'; eassumption|apply I2; exact Hin].
Qed.

Theorem sources_accept_scalar ds m : from_sources_tree ds = Ok m -> scalar_oneofs m = true ->
  forall d sd, In d ds -> infer_text d = Ok sd -> is_subset sd m = true.
Proof.
  intros H Hf d sd Hin Hd. destruct (from_sources_tree_ok _ _ H) as [s0 [r [E ->]]].
  apply mapM_o_ok in E. pose proof (forall2_wf _ _ E) as Hw. inversion Hw as [|? ? Hw0 Hwr]; subst.
  destruct (fold_dominates_scalar r s0 Hw0 Hwr Hf) as [F1 F2].
  inversion E as [|d0 ? dr ? Hd0 Hdr]; subst. destruct Hin as [<-|Hin].
  - rewrite Hd in Hd0. inversion Hd0. subst. exact F1.
  - assert (In sd r).
    { clear -Hdr Hin Hd. induction Hdr as [|x sx l rs Hx Hr IHr]; [contradiction|].
      destruct Hin as [<-|Hin]; [rewrite Hd in Hx; inversion Hx; left; reflexivity|right; auto]. }
    apply F2. exact H0.
Qed.

Corollary sources_superset_scalar ds m : from_sources_tree ds = Ok m -> scalar_oneofs m = true ->
  forall d, In d ds -> is_superset_tree m d = true /\ is_superset_checked_tree m d = Ok true.
Proof.
  intros H Hf d Hin.
  assert (exists sd, infer_text d = Ok sd).
  { destruct (from_sources_tree_ok _ _ H) as [s0 [r [E _]]]. apply mapM_o_ok in E.
    clear -E Hin. induction E as [|x sx l rs Hx Hr IHr]; [contradiction|].
    destruct Hin as [<-|Hin]; eauto. }
  destruct H0 as [sd Hd]. pose proof (sources_accept_scalar ds m H Hf d sd Hin Hd) as Hs.
  unfold is_superset_tree, is_superset_checked_tree. rewrite Hd. simpl. rewrite Hs. split; reflexivity.
Qed.

(* the class is strictly larger than the OneOf-free one, also on merged shapes *)
Example scalar_class_nontrivial : exists ds m,
  from_sources_tree ds = Ok m /\ scalar_oneofs m = true /\ oneof_free m = false.
Proof.
  exists [JObj [([97%N], JNum)]; JObj [([97%N], JStr)]].
  eexists. split; [vm_compute; reflexivity|]. split; vm_compute; reflexivity.
Qed.
