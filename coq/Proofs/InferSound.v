(* InferSound.v — C01 base case: a conflict-free document is a member of its inferred shape;
   totality of inference on duplicate-free documents. *)
From Coq Require Import List Bool NArith Lia.
Import ListNotations.
From JS Require Import Model.Base Model.Shape Model.Sem Model.Infer
  Proofs.BaseFacts Proofs.ShapeFacts Proofs.SemFacts Proofs.InferFacts.

Lemma all_adjacent_eq_all e r : all_adjacent_eq (e :: r) = true -> Forall (fun x => x = e) r.
Proof.
  revert e. induction r as [|y r IH]; intros e H; [constructor|].
  change (shape_eqb e y && all_adjacent_eq (y :: r) = true) in H.
  apply andb_true_iff in H. destruct H as [H1 H2]. apply shape_eqb_eq in H1. subst y.
  constructor; [reflexivity|]. apply IH. exact H2.
Qed.

Lemma key_conflict_false es : key_conflict es = false ->
  forall c o c' o' k s s', In (SObject c o) es -> In (SObject c' o') es ->
  In (k, s) c -> map_get k c' = Some s' -> s = s'.
Proof.
  intros H c o c' o' k s s' Hin Hin' Hk G.
  destruct (shape_eq_dec s s') as [E|E]; [exact E|]. exfalso.
  assert (key_conflict es = true); [|congruence].
  unfold key_conflict. apply existsb_exists. exists (SObject c o). split; [exact Hin|].
  apply existsb_exists. exists (SObject c' o'). split; [exact Hin'|].
  apply existsb_exists. exists (k, s). split; [exact Hk|]. simpl. rewrite G.
  apply negb_true_iff. destruct (shape_eqb s s') eqn:E2; [|reflexivity].
  apply shape_eqb_eq in E2. contradiction.
Qed.

Lemma first_value_In k es v : first_value k es = Some v ->
  exists c o, In (SObject c o) es /\ map_get k c = Some v.
Proof.
  induction es as [|e r IH]; simpl; [discriminate|].
  destruct e as [| | | | |c o| |]; try (intro H; destruct (IH H) as [c' [o' [H1 H2]]]; exists c', o'; auto).
  destruct (map_get k c) as [vv|] eqn:G.
  - intro H. inversion H. subst. exists c, o. auto.
  - intro H. destruct (IH H) as [c' [o' [H1 H2]]]. exists c', o'. auto.
Qed.

Lemma first_value_none k es c o : first_value k es = None -> In (SObject c o) es -> map_get k c = None.
Proof.
  induction es as [|e r IH]; simpl; [contradiction|].
  intros H [Hin|Hin].
  - subst e. destruct (map_get k c); [discriminate|reflexivity].
  - destruct e as [| | | | |c1 o1| |]; auto. destruct (map_get k c1); [discriminate|auto].
Qed.

(* an element document of an array of objects is admitted by the folded object *)
Lemma fold_admits first o0 rest c o m :
  keys_sorted first = true -> vals_not_oneof first -> Forall good_obj rest ->
  key_conflict (SObject first o0 :: rest) = false ->
  In (SObject c o) (SObject first o0 :: rest) -> keys_sorted c = true ->
  mem (JObj m) (SObject c o) = true ->
  mem (JObj m) (SObject (objects_fold first rest) false) = true.
Proof.
  intros Hs Hn Hg Hkc Hin Hsc Hm.
  set (es := SObject first o0 :: rest) in *.
  assert (Hget := fun k => proj1 (objects_fold_get k first rest Hs Hn Hg)).
  destruct (objects_fold_get [] first rest Hs Hn Hg) as [_ [Sf _]].
  (* the final entry for a key of c is the element's own shape or its optional form *)
  assert (Hown : forall k s, In (k, s) c ->
            exists sf, map_get k (objects_fold first rest) = Some sf /\ (sf = s \/ sf = as_optional s)).
  { intros k s Hk. rewrite Hget. destruct (map_get k first) as [v|] eqn:G.
    - assert (s = v).
      { eapply (key_conflict_false es Hkc c o first o0 k s v); try eassumption. left. reflexivity. }
      subst v. eexists. split; [reflexivity|]. destruct (forallb (obj_has k) rest); auto.
    - destruct (first_value k rest) as [v1|] eqn:F.
      + destruct (first_value_In _ _ _ F) as [c1 [o1 [Hin1 G1]]].
        assert (s = v1).
        { eapply (key_conflict_false es Hkc c o c1 o1 k s v1); try eassumption. right. exact Hin1. }
        subst v1. eexists. split; [reflexivity|]. auto.
      + exfalso. destruct Hin as [Hin|Hin].
        * inversion Hin. subst. rewrite (sorted_get_In _ _ _ Hs Hk) in G. discriminate.
        * pose proof (sorted_get_In _ _ _ Hsc Hk) as G2.
          rewrite (first_value_none _ _ _ _ F Hin) in G2. discriminate. }
  rewrite mem_object in *. apply andb_true_iff in Hm. destruct Hm as [H1 H2].
  rewrite forallb_forall in H1, H2. apply andb_true_iff. split; apply forallb_forall.
  - intros [k v] Hkv. specialize (H1 _ Hkv). unfold member_ok in *. simpl in *.
    apply existsb_exists in H1. destruct H1 as [[k2 s] [Hk E]]. simpl in E.
    apply andb_true_iff in E. destruct E as [E1 E2]. apply key_eqb_eq in E1. subst k2.
    destruct (Hown k s Hk) as [sf [Gf Hsf]].
    apply existsb_exists. exists (k, sf). split; [apply map_get_In; exact Gf|]. simpl.
    rewrite key_eqb_refl. simpl. destruct Hsf as [->| ->]; [exact E2|apply mem_as_optional; exact E2].
  - intros [k sf] Hk. unfold key_ok. simpl.
    pose proof (sorted_get_In _ _ _ Sf Hk) as Gf.
    destruct (map_get k c) as [s|] eqn:Gc.
    + apply map_get_In in Gc. specialize (H2 _ Gc). unfold key_ok in H2. simpl in H2.
      apply orb_true_iff in H2. destruct H2 as [H2|H2]; [rewrite H2; reflexivity|].
      apply orb_true_iff. right. destruct (Hown k s Gc) as [sf' [Gf' Hsf]].
      rewrite Gf in Gf'. inversion Gf'. subst sf'. unfold nullable in *.
      destruct Hsf as [->| ->]; [exact H2|apply mem_as_optional_null].
    + (* the element lacks k, so the folded entry is an optional form *)
      apply orb_true_iff. right. unfold nullable. rewrite Hget in Gf.
      destruct (map_get k first) as [v|] eqn:G.
      * destruct Hin as [Hin|Hin]; [inversion Hin; subst; congruence|].
        assert (forallb (obj_has k) rest = false).
        { destruct (forallb (obj_has k) rest) eqn:Fa; [|reflexivity].
          rewrite forallb_forall in Fa. specialize (Fa _ Hin). simpl in Fa.
          unfold map_has in Fa. rewrite Gc in Fa. discriminate. }
        rewrite H in Gf. inversion Gf. apply mem_as_optional_null.
      * destruct (first_value k rest); inversion Gf. apply mem_as_optional_null.
Qed.

Lemma forallb_conflict_free_obj (m : list (key * json)) :
  forallb (fun kv => conflict_free (snd kv)) m = true ->
  Forall (fun kv => conflict_free (snd kv) = true) m.
Proof. intro H. apply Forall_forall. apply forallb_forall. exact H. Qed.

Theorem infer_sound : forall d, conflict_free d = true -> forall s, infer_text d = Ok s -> mem d s = true.
Proof.
  induction d as [| | | |l IH|m IH] using json_ind'; intros Hcf s H.
  - inversion H. reflexivity.
  - inversion H. reflexivity.
  - inversion H. reflexivity.
  - inversion H. reflexivity.
  - (* arrays *)
    rewrite infer_text_arr in H. simpl in Hcf. apply andb_true_iff in Hcf. destruct Hcf as [Hcl Hkc].
    destruct (mapM_o infer_text l) as [es| |] eqn:E; simpl in H; try discriminate.
    pose proof (mapM_o_ok _ _ _ E) as F2.
    assert (Hmem : Forall2 (fun x sx => mem x sx = true /\ infer_text x = Ok sx) l es).
    { clear -F2 IH Hcl. rewrite forallb_forall in Hcl. induction F2 as [|x sx r rs Hx Hr IHr]; [constructor|].
      inversion IH; subst. constructor.
      - split; [apply H1; [apply Hcl; left; reflexivity|exact Hx]|exact Hx].
      - apply IHr; [exact H2|]. intros y Hy. apply Hcl. right. exact Hy. }
    unfold array_text in H.
    destruct (nonempty es && (len_eq1 es || all_adjacent_eq es)) eqn:E1.
    + (* all equal *)
      destruct es as [|e r]; [discriminate|]. simpl in H. inversion H. subst s. clear H.
      rewrite mem_array_arr. apply forallb_forall.
      assert (Hall : Forall (fun x => x = e) (e :: r)).
      { constructor; [reflexivity|]. simpl in E1. destruct r as [|y r']; [constructor|].
        apply all_adjacent_eq_all. exact E1. }
      clear -Hmem Hall. intros x Hx.
      induction Hmem as [|x0 sx l0 rs [Hm _] Hr IHr]; [contradiction|].
      inversion Hall; subst. destruct Hx as [<-|Hx]; [exact Hm|auto].
    + destruct (len_gt1 es && forallb is_object es) eqn:E2.
      * (* array of objects *)
        simpl in Hkc. apply negb_true_iff in Hkc.
        apply andb_true_iff in E2. destruct E2 as [_ E3].
        destruct es as [|e r]; [discriminate|]. simpl in E3. apply andb_true_iff in E3. destruct E3 as [Eo Er].
        destruct e as [| | | | |c o| |]; try discriminate. simpl in H. inversion H. subst s. clear H.
        assert (Hok : Forall (fun sx => infer_ok sx /\ is_object sx = true) (SObject c o :: r)).
        { apply Forall_forall. intros sx Hsx.
          assert (infer_ok sx).
          { clear -Hmem Hsx. induction Hmem as [|x0 sx0 l0 rs [_ Hi] Hr IHr]; [contradiction|].
            destruct Hsx as [<-|Hsx]; [eapply infer_text_ok; exact Hi|auto]. }
          split; [assumption|]. destruct Hsx as [<-|Hsx]; [reflexivity|].
          rewrite forallb_forall in Er. auto. }
        inversion Hok as [|? ? [Hoc _] Hokr]; subst.
        pose proof (infer_ok_good_obj _ Hoc eq_refl) as [Hs Hn].
        assert (Hg : Forall good_obj r).
        { eapply Forall_impl; [|exact Hokr]. intros e [H1 H2]. apply infer_ok_good_obj; assumption. }
        rewrite mem_array_arr. apply forallb_forall. intros x Hx.
        assert (exists sx, In sx (SObject c o :: r) /\ mem x sx = true /\ infer_text x = Ok sx).
        { clear -Hmem Hx. induction Hmem as [|x0 sx0 l0 rs [Hm Hi] Hr IHr]; [contradiction|].
          destruct Hx as [<-|Hx]; [exists sx0; split; [left; reflexivity|split; [exact Hm|exact Hi]]|].
          destruct (IHr Hx) as [sx [H1 H2]]. exists sx. split; [right; exact H1|exact H2]. }
        destruct H as [sx [Hsx [Hmx Hix]]].
        rewrite Forall_forall in Hok. destruct (Hok _ Hsx) as [Hi Ho].
        destruct sx as [| | | | |cx ox| |]; try discriminate.
        pose proof (infer_ok_good_obj _ Hi eq_refl) as [Hscx _].
        destruct (infer_text_object_shape _ _ _ Hix) as [-> [mx ->]].
        eapply (fold_admits c o r cx false); eauto.
      * destruct (len_gt1 es) eqn:E3; inversion H; subst s; clear H.
        -- (* tuple *)
           rewrite mem_tuple. clear -Hmem. induction Hmem as [|x sx l0 rs [Hm _] Hr IHr]; [reflexivity|].
           simpl. rewrite Hm. exact IHr.
        -- (* empty *)
           destruct es as [|e [|e2 r]].
           ++ inversion Hmem. subst. reflexivity.
           ++ simpl in E1. discriminate.
           ++ simpl in E3. discriminate.
  - (* objects *)
    rewrite infer_text_obj in H. simpl in Hcf. apply forallb_conflict_free_obj in Hcf.
    assert (G : forall m2 pre acc,
               (forall k v, In (k, v) pre -> exists sv, map_get k acc = Some sv /\ mem v sv = true) ->
               (forall k sv, map_get k acc = Some sv -> doc_has_key k pre = true) ->
               Forall (fun kv => forall s0, conflict_free (snd kv) = true -> infer_text (snd kv) = Ok s0 -> mem (snd kv) s0 = true) m2 ->
               Forall (fun kv => conflict_free (snd kv) = true) m2 ->
               obj_loop infer_text m2 acc = Ok s -> mem (JObj (pre ++ m2)) s = true).
    { clear. induction m2 as [|[k v] r IHm]; intros pre acc Hp Hk IH Hcf H; simpl in H.
      - inversion H. subst s. rewrite app_nil_r. rewrite mem_object. apply andb_true_iff. split; apply forallb_forall.
        + intros [k v] Hin. destruct (Hp k v Hin) as [sv [G Hm]]. unfold member_ok. simpl.
          apply existsb_exists. exists (k, sv). split; [apply map_get_In; exact G|]. simpl.
          rewrite key_eqb_refl. exact Hm.
        + intros [k sv] Hin. unfold key_ok. simpl.
          (* the first entry for k in acc *)
          destruct (map_get k acc) as [sv'|] eqn:G.
          * rewrite (Hk _ _ G). reflexivity.
          * exfalso. pose proof (map_has_In k sv acc Hin) as Hh. unfold map_has in Hh. rewrite G in Hh. discriminate.
      - inversion IH as [|? ? IHv IHr]; subst. inversion Hcf as [|? ? Hcv Hcr]; subst. simpl in IHv, Hcv.
        destruct (infer_text v) as [sv| |] eqn:E; simpl in H; try discriminate.
        specialize (IHv sv Hcv eq_refl).
        replace (pre ++ (k, v) :: r) with ((pre ++ [(k, v)]) ++ r) by (rewrite <- app_assoc; reflexivity).
        assert (Hk' : forall acc', (forall k0 sv0, map_get k0 acc' = Some sv0 -> map_get k0 acc = Some sv0 \/ k0 = k) ->
                      forall k0 sv0, map_get k0 acc' = Some sv0 -> doc_has_key k0 (pre ++ [(k, v)]) = true).
        { intros acc' Hacc' k0 sv0 G0. unfold doc_has_key. rewrite existsb_app.
          destruct (Hacc' _ _ G0) as [G1| ->].
          - fold (doc_has_key k0 pre). rewrite (Hk _ _ G1). reflexivity.
          - simpl. rewrite key_eqb_refl. apply orb_true_r. }
        destruct (map_get k acc) as [old|] eqn:Gk.
        + assert (Hold : mem v old = true ->
                         mem (JObj ((pre ++ [(k, v)]) ++ r)) s = true -> mem (JObj ((pre ++ [(k, v)]) ++ r)) s = true) by auto.
          assert (Hstep : mem v old = true -> obj_loop infer_text r acc = Ok s ->
                          mem (JObj ((pre ++ [(k, v)]) ++ r)) s = true).
          { intros Hm Hl. apply (IHm (pre ++ [(k, v)]) acc); try assumption.
            - intros k0 v0 Hin. apply in_app_or in Hin. destruct Hin as [Hin|[Hin|[]]]; [apply Hp; exact Hin|].
              inversion Hin. subst. exists old. auto.
            - apply Hk'. auto. }
          destruct old as [| | | | | |vs o|];
            try (destruct (shape_eqb sv _) eqn:Eq; [apply shape_eqb_eq in Eq; subst; apply Hstep; assumption|discriminate]).
          destruct (sset_mem sv vs) eqn:Em; [|discriminate].
          apply Hstep; [|exact H]. apply sset_mem_In in Em. eapply mem_oneof_intro; eassumption.
        + apply (IHm (pre ++ [(k, v)]) (map_insert k sv acc)); try assumption.
          * intros k0 v0 Hin. apply in_app_or in Hin. destruct Hin as [Hin|[Hin|[]]].
            -- destruct (Hp _ _ Hin) as [sv0 [G0 Hm0]]. exists sv0. split; [|exact Hm0].
               rewrite map_get_insert. destruct (key_eqb k0 k) eqn:Ek; [|exact G0].
               apply key_eqb_eq in Ek. subst. congruence.
            -- inversion Hin. subst. exists sv. split; [|exact IHv].
               rewrite map_get_insert, key_eqb_refl. reflexivity.
          * apply Hk'. intros k0 sv0 G0. rewrite map_get_insert in G0.
            destruct (key_eqb k0 k) eqn:Ek; [right; apply key_eqb_eq; exact Ek|left; exact G0]. }
    apply (G m [] []); try assumption.
    + intros k v [].
    + intros k sv G0. discriminate.
    + rewrite Forall_forall in *. intros kv Hin s0 Hc Hi. apply (IH kv Hin Hc s0 Hi).
Qed.
